/-
Lemmas/C23Mutator.lean -- trace semantics of `envMutatorA` (Gen/Paired.lean): plan_mutator -- the
shared stack machine `pmStep` -- with a processor that reads, and head generators that write, a
closure variable.  The drive of the mutator is the recursive function `emGo` over the inputs:

* a message the wrapped plan yields goes out unchanged unless its object is new and the processor
  decides otherwise; then either the variable is written and the message goes out (`silent`), or
  a query goes out first (`ask q`), its response is written into the variable and swallowed, and
  then the message goes out;
* every other input goes to the wrapped plan: responses as they are, thrown `Exception`s (also
  those thrown at a query) as exceptions at the message the plan is suspended at; any other
  thrown BaseException leaves the mutator at once;
* `close()` closes the wrapped plan.

Built on the C20 / C21 plan_mutator lemmas (extracted clause tables, `close_some_not_genExit`).
-/
import BlueskyVerif.Lemmas.C23Drive
import BlueskyVerif.Gen.Paired

namespace BlueskyVerif.Gen
set_option linter.unusedSectionVars false

section
variable {σ M ι R V E : Type} [Inhabited R] [DecidableEq R] [Inhabited V] [PyExc E] [DecidableEq ι]

/-! ### the head generators as generator objects -/

/-- `new_gen()` suspended at `ret = yield q` -/
def hQ (q m : M) : Pos M R V E := ⟨(askHead q m).beh, [.send default], .live⟩
/-- ... suspended at `yield msg`, having been answered `r` -/
def hA (q m : M) (r : R) : Pos M R V E := ⟨(askHead q m).beh, [.send default, .send r], .live⟩
/-- the silent head suspended at `yield msg` -/
def hS (m : M) : Pos M R V E := ⟨(silentHead m).beh, [.send default], .live⟩

theorem new_askHead (q m : M) :
    (Pos.new (askHead q m : Prog M R V E).beh).resume (.send default) = (.yld q, hQ q m) := by
  simp [Pos.resume, Pos.new, Pos.advance, Prog.beh, askHead, Prog.after, hQ, Out.isYld]

theorem new_silentHead (m : M) :
    (Pos.new (silentHead m : Prog M R V E).beh).resume (.send default) = (.yld m, hS m) := by
  simp [Pos.resume, Pos.new, Pos.advance, Prog.beh, silentHead, Prog.after, hS, Out.isYld]

theorem hQ_send (q m : M) (r : R) : (hQ q m : Pos M R V E).resume (.send r) = (.yld m, hA q m r) := by
  simp [hQ, hA, Pos.resume, Pos.advance, Prog.beh, askHead, Prog.after, Out.isYld]

theorem hQ_throw (q m : M) (e : E) :
    ((hQ q m : Pos M R V E).resume (.throw e)).1 = .raise e := by
  simp [hQ, Pos.resume, Pos.advance, Prog.beh, askHead, Prog.after]

theorem hA_send (q m : M) (r r' : R) :
    ((hA q m r : Pos M R V E).resume (.send r')).1 = .ret default := by
  simp [hA, Pos.resume, Pos.advance, Prog.beh, askHead, Prog.after]

theorem hA_throw (q m : M) (r : R) (e : E) :
    ((hA q m r : Pos M R V E).resume (.throw e)).1 = .raise e := by
  simp [hA, Pos.resume, Pos.advance, Prog.beh, askHead, Prog.after]

theorem hS_send (m : M) (r : R) : ((hS m : Pos M R V E).resume (.send r)).1 = .ret default := by
  simp [hS, Pos.resume, Pos.advance, Prog.beh, silentHead, Prog.after]

theorem hS_throw (m : M) (e : E) : ((hS m : Pos M R V E).resume (.throw e)).1 = .raise e := by
  simp [hS, Pos.resume, Pos.advance, Prog.beh, silentHead, Prog.after]

theorem hQ_close (q m : M) : (hQ q m : Pos M R V E).close.1 = none := by
  rw [close_live _ rfl]
  simp [hQ, Pos.advance, Prog.beh, askHead, Prog.after, closeObs, PyExc.genExit_isGenExit]

theorem hA_close (q m : M) (r : R) : (hA q m r : Pos M R V E).close.1 = none := by
  rw [close_live _ rfl]
  simp [hA, Pos.advance, Prog.beh, askHead, Prog.after, closeObs, PyExc.genExit_isGenExit]

theorem hS_close (m : M) : (hS m : Pos M R V E).close.1 = none := by
  rw [close_live _ rfl]
  simp [hS, Pos.advance, Prog.beh, silentHead, Prog.after, closeObs, PyExc.genExit_isGenExit]

/-- a head suspended at the wrapped plan's own message `m` -/
inductive HeadAtMsg (isQuery : M → Bool) (m : M) : Pos M R V E → Prop where
  | afterAsk (q : M) (r : R) : HeadAtMsg isQuery m (hA q m r)
  | silent (h : isQuery m = false) : HeadAtMsg isQuery m (hS m)

theorem HeadAtMsg.send {isQuery : M → Bool} {m : M} {h : Pos M R V E} (hh : HeadAtMsg isQuery m h)
    (r : R) : (h.resume (.send r)).1 = .ret default := by
  cases hh with
  | afterAsk q r0 => exact hA_send q m r0 r
  | silent _ => exact hS_send m r

theorem HeadAtMsg.throw {isQuery : M → Bool} {m : M} {h : Pos M R V E} (hh : HeadAtMsg isQuery m h)
    (e : E) : (h.resume (.throw e)).1 = .raise e := by
  cases hh with
  | afterAsk q r0 => exact hA_throw q m r0 e
  | silent _ => exact hS_throw m e

theorem HeadAtMsg.close {isQuery : M → Bool} {m : M} {h : Pos M R V E} (hh : HeadAtMsg isQuery m h) :
    h.close.1 = none := by
  cases hh with
  | afterAsk q r0 => exact hA_close q m r0
  | silent _ => exact hS_close m

/-! ### the specification: a recursive function over the inputs -/

/-- what the model needs to know about a processor description -/
structure EnvSpec.OK (spec : EnvSpec σ M R) : Prop where
  /-- the messages heads ask with are recognised as queries -/
  ask_isQuery : ∀ env m q, spec.decide env m = .ask q → spec.isQuery q = true
  /-- the processor leaves queries alone -/
  query_pass : ∀ env q, spec.isQuery q = true → spec.decide env q = .pass
  /-- a head that asks nothing is only inserted for a message that is not itself a query -/
  silent_notQuery : ∀ env m, spec.decide env m = .silent → spec.isQuery m = false

/-- what the mutator is waiting for: the response to a plan message (`plain`) or to a query
    inserted before the plan message `m` (`query m`) -/
inductive EmMode (M : Type) where
  | plain
  | query (m : M)

/-- the wrapped plan yielded `m'`: new `msgs_seen`, new variable, mode and the message emitted -/
def emDecide (spec : EnvSpec σ M R) (key : M → ι) (seen : List ι) (env : σ) (m' : M) :
    List ι × σ × EmMode M × M :=
  if seen.contains (key m') then (seen, env, .plain, m')
  else
    match spec.decide env m' with
    | .pass => (key m' :: seen, env, .plain, m')
    | .silent => (key m' :: seen, spec.updSilent m' env, .plain, m')
    | .ask q =>
      (if (key m' :: seen).contains (key q) then key m' :: seen else key q :: key m' :: seen,
       env, .query m', q)

/-- what happens to an input -/
inductive EmIn (M R E : Type) where
  | answer (r : R) (m : M)   -- response to a query: written into the variable, then `m` goes out
  | leave (e : E)            -- a thrown non-`Exception`: leaves plan_mutator at once
  | feed                     -- goes to the wrapped plan

def emInput : EmMode M → Inp R E → EmIn M R E
  | .query m, .send r => .answer r m
  | _, .send _ => .feed
  | _, .throw e => if isException e then .feed else .leave e

/-- the mutator has just emitted `em` (annotated with the variable); the wrapped plan is `p` -/
def emGo (c : Bool) (spec : EnvSpec σ M R) (key : M → ι) :
    List ι → σ → Pos M R V E → EmMode M → M → List (Inp R E) → Drv (M × σ) R V E
  | _, env, p, _, em, [] => ⟨[(em, env)], if c then .closed p.close.1 else .alive⟩
  | seen, env, p, mode, em, i :: rest =>
    match emInput mode i with
    | .answer r m => (emGo c spec key seen (spec.updAsk em r env) p .plain m rest).cons (em, env)
    | .leave e => ⟨[(em, env)], .ended (.exc e) rest⟩
    | .feed =>
      match p.resume i with
      | (.yld m', p') =>
        (emGo c spec key (emDecide spec key seen env m').1 (emDecide spec key seen env m').2.1 p'
          (emDecide spec key seen env m').2.2.1 (emDecide spec key seen env m').2.2.2 rest).cons (em, env)
      | (.ret v, _) => ⟨[(em, env)], .ended (.ret v) rest⟩
      | (.raise x, _) => ⟨[(em, env)], .ended (.exc x) rest⟩

/-- the wrapped plan answered `r`: what the mutator does -/
def emOut (c : Bool) (spec : EnvSpec σ M R) (key : M → ι) (seen : List ι) (env : σ) :
    Out M V E × Pos M R V E → List (Inp R E) → Drv (M × σ) R V E
  | (.yld m', p'), ins =>
    emGo c spec key (emDecide spec key seen env m').1 (emDecide spec key seen env m').2.1 p'
      (emDecide spec key seen env m').2.2.1 (emDecide spec key seen env m').2.2.2 ins
  | (.ret v, _), ins => Drv.done (.ret v) ins
  | (.raise x, _), ins => Drv.done (.exc x) ins

theorem emGo_feed (c : Bool) (spec : EnvSpec σ M R) (key : M → ι) (seen : List ι) (env : σ)
    (p : Pos M R V E) (mode : EmMode M) (em : M) (i : Inp R E) (rest : List (Inp R E))
    (h : emInput mode i = .feed) :
    emGo c spec key seen env p mode em (i :: rest)
      = (emOut c spec key seen env (p.resume i) rest).cons (em, env) := by
  rw [emGo]
  simp only [h]
  rcases p.resume i with ⟨o, p'⟩
  cases o <;> rfl

/-! ### the stack machine in its stable states -/

/-- only the wrapped plan is on the stack -/
def InvA (pm : PM M ι R V E) (seen : List ι) (p : Pos M R V E) : Prop :=
  pm.msgsSeen = seen ∧ pm.planStack = [(0, p)] ∧ pm.resultStack = [] ∧ pm.tailCache = [] ∧
    pm.tailResultCache = [] ∧ pm.exception = none ∧ 1 ≤ pm.nextId

/-- a head (generator `h`, id `g`) is on top of the wrapped plan -/
def InvH (pm : PM M ι R V E) (seen : List ι) (g : Nat) (h p : Pos M R V E) : Prop :=
  pm.msgsSeen = seen ∧ pm.planStack = [(g, h), (0, p)] ∧ g ≠ 0 ∧ pm.resultStack = [] ∧
    pm.tailCache = [(g, none)] ∧ pm.tailResultCache = [] ∧ pm.exception = none ∧ 1 ≤ pm.nextId

/-- the invariant linking plan_mutator's state to the specification's parameters -/
def EmInv (spec : EnvSpec σ M R) (key : M → ι) (pm : PM M ι R V E) (seen : List ι)
    (p : Pos M R V E) : EmMode M → M → Prop
  | .plain, em => InvA pm seen p ∨ ∃ g h, InvH pm seen g h p ∧ HeadAtMsg spec.isQuery em h
  | .query m, q =>
    ∃ g, InvH pm seen g (hQ q m) p ∧ spec.isQuery q = true ∧ seen.contains (key m) = true

/-- `pmLoop` unfolded once -/
def pmCont (key : M → ι) (proc : Proc M R V E) (n : Nat) : PMRes M ι R V E → Out M V E × PMSt M ι R V E
  | .cont s' => pmLoop key proc n s'
  | .yield m s' => (.yld m, .atYield s')
  | .ret v => (.ret v, .fin)
  | .raise e => (.raise e, .fin)

theorem pmLoop_succ (key : M → ι) (proc : Proc M R V E) (n : Nat) (s : PM M ι R V E) :
    pmLoop key proc (n + 1) s = pmCont key proc n (pmIter key proc s) := by
  rw [pmLoop]
  cases pmIter key proc s <;> rfl

/-- **processing a message of the wrapped plan** (the `if id(msg) not in msgs_seen` block and, if a
    head is inserted, the iteration that starts it) -/
theorem pmCont_process (spec : EnvSpec σ M R) (hok : spec.OK) (key : M → ι) (env : σ) (f : Nat)
    (s : PM M ι R V E) (p' : Pos M R V E) (m' : M)
    (hps : s.planStack = [(0, p')]) (hrs : s.resultStack = []) (htc : s.tailCache = [])
    (htrc : s.tailResultCache = []) (hex : s.exception = none) (hn : 1 ≤ s.nextId) :
    ∃ pm', pmCont key (spec.proc env) (f + 1) (pmProcess key (spec.proc env) s m')
        = (.yld (emDecide spec key s.msgsSeen env m').2.2.2, .atYield pm') ∧
      EmInv spec key pm' (emDecide spec key s.msgsSeen env m').1 p'
        (emDecide spec key s.msgsSeen env m').2.2.1 (emDecide spec key s.msgsSeen env m').2.2.2 ∧
      envPost spec (.atYield pm') env = (emDecide spec key s.msgsSeen env m').2.1 := by
  unfold pmProcess emDecide
  by_cases hseen : s.msgsSeen.contains (key m') = true
  · simp only [hseen, ↓reduceIte, pmCont]
    exact ⟨s, rfl, .inl ⟨rfl, hps, hrs, htc, htrc, hex, hn⟩, by simp [envPost, topFirstYield, hps]⟩
  · simp only [hseen, Bool.false_eq_true, ↓reduceIte, EnvSpec.proc]
    cases hd : spec.decide env m' with
    | pass =>
      simp only [pmCont]
      exact ⟨_, rfl, .inl ⟨rfl, hps, hrs, htc, htrc, hex, hn⟩, by simp [envPost, topFirstYield, hps]⟩
    | silent =>
      simp only [pmCont]
      rw [pmLoop_succ]
      unfold pmIter
      simp only [hex, hrs, hps, pmOnSend, new_silentHead, pmProcess, List.contains_cons, beq_self_eq_true,
        Bool.true_or, ↓reduceIte, pmCont]
      have hnq := hok.silent_notQuery env m' hd
      refine ⟨_, rfl, .inr ⟨s.nextId, hS m', ⟨rfl, rfl, by omega, rfl, ?_, htrc, rfl, by simp⟩,
        .silent hnq⟩, ?_⟩
      · simp [htc, dictSet, dictDel]
      · have h0 : s.nextId ≠ 0 := by omega
        simp [envPost, topFirstYield, h0, hS, Prog.beh, silentHead, Prog.after, hnq]
    | ask q =>
      simp only [pmCont]
      rw [pmLoop_succ]
      unfold pmIter
      simp only [hex, hrs, hps, pmOnSend, new_askHead]
      have hq : spec.isQuery q = true := hok.ask_isQuery env m' q hd
      have hqp : ∀ env', spec.decide env' q = .pass := fun env' => hok.query_pass env' q hq
      unfold pmProcess
      by_cases hqs : (key m' :: s.msgsSeen).contains (key q) = true
      · simp only [hqs, ↓reduceIte, pmCont]
        have h0 : s.nextId ≠ 0 := by omega
        refine ⟨_, rfl, ⟨s.nextId, ⟨rfl, rfl, by omega, rfl, ?_, htrc, rfl, by simp⟩, hq, by simp⟩, ?_⟩
        · simp [htc, dictSet, dictDel]
        · simp [envPost, topFirstYield, h0, hQ, Prog.beh, askHead, Prog.after, hq]
      · simp only [hqs, Bool.false_eq_true, ↓reduceIte, EnvSpec.proc, hqp, pmCont]
        have h0 : s.nextId ≠ 0 := by omega
        refine ⟨_, rfl, ⟨s.nextId, ⟨rfl, rfl, by omega, rfl, ?_, htrc, rfl, by simp⟩, hq, by simp⟩, ?_⟩
        · simp [htc, dictSet, dictDel]
        · simp [envPost, topFirstYield, h0, hQ, Prog.beh, askHead, Prog.after, hq]

/-- what plan_mutator does after the wrapped plan was resumed with result `out` -/
def FeedResult (spec : EnvSpec σ M R) (key : M → ι) (env : σ) (seen : List ι)
    (res : Out M V E × PMSt M ι R V E) : Out M V E × Pos M R V E → Prop
  | (.ret v, _) => res = (.ret v, .fin)
  | (.raise x, _) => res = (.raise x, .fin)
  | (.yld m', p') =>
    ∃ pm', res = (.yld (emDecide spec key seen env m').2.2.2, .atYield pm') ∧
      EmInv spec key pm' (emDecide spec key seen env m').1 p'
        (emDecide spec key seen env m').2.2.1 (emDecide spec key seen env m').2.2.2 ∧
      envPost spec (.atYield pm') env = (emDecide spec key seen env m').2.1

/-- the iteration(s) in which the wrapped plan is sent `r` -/
theorem feed_send (spec : EnvSpec σ M R) (hok : spec.OK) (key : M → ι) (env : σ) (f : Nat)
    (s : PM M ι R V E) (p : Pos M R V E) (r : R)
    (hps : s.planStack = [(0, p)]) (hrs : s.resultStack = [r]) (htc : s.tailCache = [])
    (htrc : s.tailResultCache = []) (hex : s.exception = none) (hn : 1 ≤ s.nextId) :
    FeedResult spec key env s.msgsSeen (pmLoop key (spec.proc env) (f + 2) s) (p.resume (.send r)) := by
  rw [pmLoop_succ]
  unfold pmIter
  simp only [hex, hrs, hps]
  unfold pmOnSend
  cases hres : p.resume (.send r) with
  | mk o p' =>
    cases o with
    | yld m' =>
      simp only [FeedResult]
      exact pmCont_process spec hok key env f _ p' m' rfl rfl htc htrc rfl hn
    | ret v =>
      simp only [FeedResult]
      rw [pmExhausted_parent_alone _ _ (by exact htc)]
      rfl
    | raise x =>
      simp only [FeedResult]
      by_cases hx : isException x = true
      · simp [pmSend_caught, hx, htc, dictGet, pmCont]
      · simp [pmSend_caught, hx, pmCont]

/-- the iteration(s) in which `e` is thrown into the wrapped plan -/
theorem feed_throw (spec : EnvSpec σ M R) (hok : spec.OK) (key : M → ι) (env : σ) (f : Nat)
    (s : PM M ι R V E) (p : Pos M R V E) (e : E)
    (hps : s.planStack = [(0, p)]) (hrs : s.resultStack = []) (htc : s.tailCache = [])
    (htrc : s.tailResultCache = []) (hex : s.exception = some e) (hn : 1 ≤ s.nextId) :
    FeedResult spec key env s.msgsSeen (pmLoop key (spec.proc env) (f + 2) s) (p.resume (.throw e)) := by
  rw [pmLoop_succ]
  unfold pmIter
  simp only [hex, hps]
  unfold pmOnThrow
  cases hres : p.resume (.throw e) with
  | mk o p' =>
    cases o with
    | yld m' =>
      simp only [FeedResult]
      exact pmCont_process spec hok key env f _ p' m' rfl hrs htc htrc rfl hn
    | ret v =>
      simp only [FeedResult]
      rw [pmExhausted_parent_alone _ _ (by exact htc)]
      rfl
    | raise x =>
      simp only [FeedResult]
      by_cases hx : isException x = true
      · simp [pmThrow_caught, hx, pmCont]
      · simp [pmThrow_caught, hx, pmCont]

/-- result of one resume of `emStep` in which the input went to the wrapped plan -/
def EmFeed (spec : EnvSpec σ M R) (key : M → ι) (env : σ) (seen : List ι)
    (res : Out (M × σ) V E × EMSt σ M ι R V E) : Out M V E × Pos M R V E → Prop
  | (.ret v, _) => res = (.ret v, ⟨.fin, env⟩)
  | (.raise x, _) => res = (.raise x, ⟨.fin, env⟩)
  | (.yld m', p') =>
    ∃ pm', res = (.yld ((emDecide spec key seen env m').2.2.2, (emDecide spec key seen env m').2.1),
                  ⟨.atYield pm', (emDecide spec key seen env m').2.1⟩) ∧
      EmInv spec key pm' (emDecide spec key seen env m').1 p'
        (emDecide spec key seen env m').2.2.1 (emDecide spec key seen env m').2.2.2

theorem emFeed_of (spec : EnvSpec σ M R) (key : M → ι) (env : σ) (seen : List ι)
    (res0 : Out M V E × PMSt M ι R V E) (out : Out M V E × Pos M R V E)
    (h : FeedResult spec key env seen res0 out) :
    EmFeed spec key env seen
      (annotate (envPost spec res0.2 env) res0.1, ⟨res0.2, envPost spec res0.2 env⟩) out := by
  rcases out with ⟨o, p'⟩
  cases o with
  | ret v => simp only [FeedResult] at h; subst h; rfl
  | raise x => simp only [FeedResult] at h; subst h; rfl
  | yld m' =>
    obtain ⟨pm', h1, h2, h3⟩ := h
    subst h1
    exact ⟨pm', by simp only [h3, annotate], h2⟩

theorem envPre_throw (spec : EnvSpec σ M R) (st : PMSt M ι R V E) (e : E) (env : σ) :
    envPre spec st (.throw e) env = env := by
  unfold envPre; split <;> simp_all

theorem topFirstYield_A (pm : PM M ι R V E) (seen : List ι) (p : Pos M R V E) (h : InvA pm seen p) :
    topFirstYield (.atYield pm) = none := by
  simp [topFirstYield, h.2.1]

theorem topFirstYield_H (isQuery : M → Bool) (pm : PM M ι R V E) (seen : List ι) (g : Nat)
    (h p : Pos M R V E) (em : M) (hi : InvH pm seen g h p) (hh : HeadAtMsg isQuery em h) :
    topFirstYield (.atYield pm) = none ∨
      (topFirstYield (.atYield pm) = some em ∧ isQuery em = false) := by
  cases hh with
  | afterAsk q r => left; simp [topFirstYield, hi.2.1, hA]
  | silent hq =>
    right
    exact ⟨by simp [topFirstYield, hi.2.1, hi.2.2.1, hS, Prog.beh, silentHead, Prog.after], hq⟩

theorem envPre_plain (spec : EnvSpec σ M R) (key : M → ι) (pm : PM M ι R V E) (seen : List ι)
    (p : Pos M R V E) (em : M) (h : EmInv spec key pm seen p .plain em) (i : Inp R E) (env : σ) :
    envPre spec (.atYield pm) i env = env := by
  cases i with
  | throw e => exact envPre_throw spec _ e env
  | send r =>
    rcases h with h | ⟨g, hd, hi, hh⟩
    · simp [envPre, topFirstYield_A pm seen p h]
    · rcases topFirstYield_H spec.isQuery pm seen g hd p em hi hh with h1 | ⟨h1, h2⟩
      · simp [envPre, h1]
      · simp [envPre, h1, h2]

/-- the iteration in which a head that has done its work is resumed with a response: it returns,
    is popped, and the response goes on to the wrapped plan -/
theorem head_send_iter (key : M → ι) (proc : Proc M R V E) (n : Nat) (pm : PM M ι R V E)
    (seen : List ι) (g : Nat) (h p : Pos M R V E) (r : R) (hi : InvH pm seen g h p)
    (hret : (h.resume (.send r)).1 = .ret default) :
    ∃ s', pmLoop key proc (n + 1) { pm with resultStack := r :: pm.resultStack } = pmLoop key proc n s' ∧
      s'.msgsSeen = seen ∧ s'.planStack = [(0, p)] ∧ s'.resultStack = [r] ∧ s'.tailCache = [] ∧
      s'.tailResultCache = [] ∧ s'.exception = none ∧ 1 ≤ s'.nextId := by
  obtain ⟨h1, h2, h3, h4, h5, h6, h7, h8⟩ := hi
  rw [pmLoop_succ]
  unfold pmIter
  simp only [h7, h4, h2]
  unfold pmOnSend
  cases hres : h.resume (.send r) with
  | mk o h' =>
    rw [hres] at hret
    simp only at hret
    subst hret
    simp only [pmExhausted, h3, ↓reduceIte, h6, h5, dictGet, dictDel, List.find?_nil, Option.map_none,
      List.find?_cons_of_pos, decide_true, Option.map_some, List.isEmpty_cons, Bool.false_eq_true,
      pmCont]
    refine ⟨_, rfl, h1, rfl, rfl, ?_, rfl, rfl, h8⟩
    simp

/-- the iteration in which an `Exception` is thrown into a head: it dies, is popped and forgotten,
    and the exception goes on to the wrapped plan -/
theorem head_throw_iter (key : M → ι) (proc : Proc M R V E) (n : Nat) (pm : PM M ι R V E)
    (seen : List ι) (g : Nat) (h p : Pos M R V E) (e : E) (hi : InvH pm seen g h p)
    (hx : isException e = true) (hraise : (h.resume (.throw e)).1 = .raise e) :
    ∃ s', pmLoop key proc (n + 1) { pm with exception := some e } = pmLoop key proc n s' ∧
      s'.msgsSeen = seen ∧ s'.planStack = [(0, p)] ∧ s'.resultStack = [] ∧ s'.tailCache = [] ∧
      s'.tailResultCache = [] ∧ s'.exception = some e ∧ 1 ≤ s'.nextId := by
  obtain ⟨h1, h2, h3, h4, h5, h6, h7, h8⟩ := hi
  rw [pmLoop_succ]
  unfold pmIter
  simp only [h2]
  unfold pmOnThrow
  cases hres : h.resume (.throw e) with
  | mk o h' =>
    rw [hres] at hraise
    simp only at hraise
    subst hraise
    simp only [pmThrow_caught, hx, ↓reduceIte, List.isEmpty_cons, Bool.false_eq_true, pmCont]
    refine ⟨_, rfl, h1, rfl, h4, ?_, ?_, rfl, h8⟩
    · simp [h5, dictDel]
    · simp [h6, dictDel]

theorem emStep_unfold (fuel : Nat) (key : M → ι) (spec : EnvSpec σ M R) (plan : Beh M R V E)
    (st : PMSt M ι R V E) (env : σ) (i : Inp R E) :
    emStep fuel key spec plan ⟨st, env⟩ i
      = (annotate (envPost spec (pmStep fuel key (spec.proc (envPre spec st i env)) plan st i).2
            (envPre spec st i env))
          (pmStep fuel key (spec.proc (envPre spec st i env)) plan st i).1,
         ⟨(pmStep fuel key (spec.proc (envPre spec st i env)) plan st i).2,
          envPost spec (pmStep fuel key (spec.proc (envPre spec st i env)) plan st i).2
            (envPre spec st i env)⟩) := rfl

/-- an input that goes to the wrapped plan -/
theorem emStep_feed (spec : EnvSpec σ M R) (hok : spec.OK) (key : M → ι) (plan : Beh M R V E)
    (f : Nat) (pm : PM M ι R V E) (seen : List ι) (env : σ) (p : Pos M R V E) (mode : EmMode M)
    (em : M) (hinv : EmInv spec key pm seen p mode em) (i : Inp R E)
    (hfeed : emInput mode i = .feed) :
    EmFeed spec key env seen (emStep (f + 3) key spec plan ⟨.atYield pm, env⟩ i) (p.resume i) := by
  rw [emStep_unfold]
  cases i with
  | send r =>
    -- only in plain mode does a response go to the wrapped plan
    cases mode with
    | query m => simp [emInput] at hfeed
    | plain =>
      rw [envPre_plain spec key pm seen p em hinv]
      rcases hinv with h | ⟨g, hd, hi, hh⟩
      · obtain ⟨rfl, h2, h3, h4, h5, h6, h7⟩ := h
        have := feed_send spec hok key env (f + 1) { pm with resultStack := r :: pm.resultStack } p r
          h2 (by simp [h3]) h4 h5 h6 h7
        exact emFeed_of spec key env _ _ _ (by simpa [pmStep, pmResume] using this)
      · obtain ⟨s', e1, e2, e3, e4, e5, e6, e7, e8⟩ :=
          head_send_iter key (spec.proc env) (f + 2) pm seen g hd p r hi (hh.send r)
        have := feed_send spec hok key env f s' p r e3 e4 e5 e6 e7 e8
        rw [e2] at this
        refine emFeed_of spec key env seen _ _ ?_
        simpa [pmStep, pmResume, e1] using this
  | throw e =>
    have hx : isException e = true := by
      cases mode <;> simp only [emInput] at hfeed <;> split at hfeed <;> simp_all
    rw [envPre_throw]
    have hstep : ∀ (hne : pm.planStack.isEmpty = false),
        pmStep (f + 3) key (spec.proc env) plan (.atYield pm) (.throw e)
          = pmLoop key (spec.proc env) (f + 3) { pm with exception := some e } := by
      intro hne
      simp [pmStep, pmResume, pmYield_exception e hx, hne]
    -- the shapes of the stack
    have key1 : (InvA pm seen p) ∨ (∃ g hd, InvH pm seen g hd p ∧ (hd.resume (.throw e)).1 = .raise e) := by
      cases mode with
      | plain =>
        rcases hinv with h | ⟨g, hd, hi, hh⟩
        · exact .inl h
        · exact .inr ⟨g, hd, hi, hh.throw e⟩
      | query m =>
        obtain ⟨g, hi, _, _⟩ := hinv
        exact .inr ⟨g, _, hi, hQ_throw em m e⟩
    rcases key1 with h | ⟨g, hd, hi, hr⟩
    · obtain ⟨rfl, h2, h3, h4, h5, h6, h7⟩ := h
      have := feed_throw spec hok key env (f + 1) { pm with exception := some e } p e
        h2 h3 h4 h5 rfl h7
      refine emFeed_of spec key env _ _ _ ?_
      rw [hstep (by simp [h2])]
      exact this
    · obtain ⟨s', e1, e2, e3, e4, e5, e6, e7, e8⟩ :=
        head_throw_iter key (spec.proc env) (f + 2) pm seen g hd p e hi hx hr
      have := feed_throw spec hok key env f s' p e e3 e4 e5 e6 e7 e8
      rw [e2] at this
      refine emFeed_of spec key env seen _ _ ?_
      rw [hstep (by simp [hi.2.1]), e1]
      exact this

/-- the response to a query: written into the variable and swallowed; the message goes out -/
theorem emStep_answer (spec : EnvSpec σ M R) (key : M → ι) (plan : Beh M R V E)
    (f : Nat) (pm : PM M ι R V E) (seen : List ι) (env : σ) (p : Pos M R V E) (m q : M) (r : R)
    (hinv : EmInv spec key pm seen p (.query m) q) :
    ∃ pm', emStep (f + 3) key spec plan ⟨.atYield pm, env⟩ (.send r)
        = (.yld (m, spec.updAsk q r env), ⟨.atYield pm', spec.updAsk q r env⟩) ∧
      EmInv spec key pm' seen p .plain m := by
  obtain ⟨g, hi, hq, hseen⟩ := hinv
  obtain ⟨h1, h2, h3, h4, h5, h6, h7, h8⟩ := hi
  rw [emStep_unfold]
  have hpre : envPre spec (.atYield pm) (.send r) env = spec.updAsk q r env := by
    simp [envPre, topFirstYield, h2, h3, hQ, Prog.beh, askHead, Prog.after, hq]
  rw [hpre]
  have hloop : pmStep (f + 3) key (spec.proc (spec.updAsk q r env)) plan (.atYield pm) (.send r)
      = (.yld m, .atYield { pm with resultStack := [], ret := r, planStack := [(g, hA q m r), (0, p)] }) := by
    simp only [pmStep, pmResume]
    rw [pmLoop_succ]
    unfold pmIter
    simp only [h7, h4, h2, pmOnSend, hQ_send, pmProcess, h1, hseen, ↓reduceIte, pmCont]
  rw [hloop]
  refine ⟨{ pm with resultStack := [], ret := r, planStack := [(g, hA q m r), (0, p)] }, ?_,
    .inr ⟨g, hA q m r, ⟨h1, rfl, h3, rfl, h5, h6, h7, h8⟩, .afterAsk q r⟩⟩
  simp [annotate, envPost, topFirstYield, hA]

/-- a thrown BaseException that is not an `Exception` leaves plan_mutator at once -/
theorem emStep_leave (spec : EnvSpec σ M R) (key : M → ι) (plan : Beh M R V E)
    (f : Nat) (pm : PM M ι R V E) (env : σ) (e : E) (h1 : isException e = false)
    (h2 : isGenExit e = false) :
    emStep (f + 3) key spec plan ⟨.atYield pm, env⟩ (.throw e) = (.raise e, ⟨.fin, env⟩) := by
  rw [emStep_unfold, envPre_throw]
  simp [pmStep, pmResume, pmYield_other e h1 h2, annotate, envPost, topFirstYield]

/-- closing the mutator closes the wrapped plan -/
theorem emStep_close (spec : EnvSpec σ M R) (key : M → ι) (plan : Beh M R V E)
    (f : Nat) (pm : PM M ι R V E) (seen : List ι) (env : σ) (p : Pos M R V E) (mode : EmMode M)
    (em : M) (hinv : EmInv spec key pm seen p mode em) :
    closeObs (emStep (f + 3) key spec plan ⟨.atYield pm, env⟩ (.throw PyExc.genExit)).1 = p.close.1 := by
  rw [emStep_unfold, envPre_throw]
  have key1 : (pm.planStack = [(0, p)]) ∨ (∃ g hd, pm.planStack = [(g, hd), (0, p)] ∧ hd.close.1 = none) := by
    cases mode with
    | plain =>
      rcases hinv with h | ⟨g, hd, hi, hh⟩
      · exact .inl h.2.1
      · exact .inr ⟨g, hd, hi.2.1, hh.close⟩
    | query m =>
      obtain ⟨g, hi, _, _⟩ := hinv
      exact .inr ⟨g, _, hi.2.1, hQ_close em m⟩
  rcases key1 with h | ⟨g, hd, h, hc⟩
  · simp only [pmStep, pmResume, pmYield_genExit _ PyExc.genExit_isGenExit, h, List.reverse_cons,
      List.reverse_nil, List.nil_append, closeAll]
    cases hcl : p.close with
    | mk o p' =>
      cases o with
      | none => simp [closeObs, annotate, PyExc.genExit_isGenExit]
      | some x =>
        have := close_some_not_genExit p x (by rw [hcl])
        simp [closeObs, annotate, this]
  · simp only [pmStep, pmResume, pmYield_genExit _ PyExc.genExit_isGenExit, h, List.reverse_cons,
      List.reverse_nil, List.nil_append, List.cons_append, closeAll]
    cases hcl : p.close with
    | mk o p' =>
      cases o with
      | none =>
        cases hcl2 : hd.close with
        | mk o2 hd' =>
          rw [hcl2] at hc; simp only at hc; subst hc
          simp [closeObs, annotate, PyExc.genExit_isGenExit]
      | some x =>
        have := close_some_not_genExit p x (by rw [hcl])
        simp [closeObs, annotate, this]

/-! ### the main theorem -/

/-- the value of the closure variable when the drive stops -/
def emEnvGo (spec : EnvSpec σ M R) (key : M → ι) :
    List ι → σ → Pos M R V E → EmMode M → M → List (Inp R E) → σ
  | _, env, _, _, _, [] => env
  | seen, env, p, mode, em, i :: rest =>
    match emInput mode i with
    | .answer r m => emEnvGo spec key seen (spec.updAsk em r env) p .plain m rest
    | .leave _ => env
    | .feed =>
      match p.resume i with
      | (.yld m', p') =>
        emEnvGo spec key (emDecide spec key seen env m').1 (emDecide spec key seen env m').2.1 p'
          (emDecide spec key seen env m').2.2.1 (emDecide spec key seen env m').2.2.2 rest
      | _ => env

def emEnvOut (spec : EnvSpec σ M R) (key : M → ι) (seen : List ι) (env : σ) :
    Out M V E × Pos M R V E → List (Inp R E) → σ
  | (.yld m', p'), ins =>
    emEnvGo spec key (emDecide spec key seen env m').1 (emDecide spec key seen env m').2.1 p'
      (emDecide spec key seen env m').2.2.1 (emDecide spec key seen env m').2.2.2 ins
  | _, _ => env

/-- state of a machine after more inputs -/
def stateFrom {τ O : Type} (step : τ → Inp R E → O × τ) (s : τ) (ins : List (Inp R E)) : τ :=
  ins.foldl (fun st i => (step st i).2) s

theorem stateFrom_fin (fuel : Nat) (key : M → ι) (spec : EnvSpec σ M R) (plan : Beh M R V E) (env : σ)
    (ins : List (Inp R E)) :
    stateFrom (emStep fuel key spec plan) ⟨.fin, env⟩ ins = ⟨.fin, env⟩ := by
  induction ins with
  | nil => rfl
  | cons i rest ih =>
    have : (emStep fuel key spec plan ⟨.fin, env⟩ i).2 = ⟨.fin, env⟩ := by
      rw [emStep_unfold]
      cases i <;> simp [envPre, topFirstYield, pmStep, envPost]
    simp only [stateFrom, List.foldl_cons, this] at ih ⊢
    exact ih

theorem em_main (spec : EnvSpec σ M R) (hok : spec.OK) (key : M → ι) (plan : Beh M R V E) (f : Nat)
    (c : Bool) (ins : List (Inp R E)) (hn : NoGenExit ins) :
    ∀ (pm : PM M ι R V E) (seen : List ι) (env : σ) (p : Pos M R V E) (mode : EmMode M) (em : M),
      EmInv spec key pm seen p mode em →
      mGo c (emStep (f + 3) key spec plan) ⟨.atYield pm, env⟩ (em, env) ins
          = emGo c spec key seen env p mode em ins ∧
        (stateFrom (emStep (f + 3) key spec plan) ⟨.atYield pm, env⟩ ins).env
          = emEnvGo spec key seen env p mode em ins := by
  induction ins with
  | nil =>
    intro pm seen env p mode em hinv
    refine ⟨?_, rfl⟩
    simp only [mGo, emGo, emStep_close spec key plan f pm seen env p mode em hinv]
  | cons i rest ih =>
    intro pm seen env p mode em hinv
    have ih' := ih hn.tail
    rw [mGo_cons]
    simp only [stateFrom, List.foldl_cons]
    cases hin : emInput mode i with
    | answer r m =>
      have hm : mode = .query m ∧ i = .send r := by
        cases mode <;> cases i <;> simp only [emInput] at hin
        · cases hin
        · split at hin <;> cases hin
        · cases hin; exact ⟨rfl, rfl⟩
        · split at hin <;> cases hin
      obtain ⟨rfl, rfl⟩ := hm
      obtain ⟨pm', h1, h2⟩ := emStep_answer spec key plan f pm seen env p m em r hinv
      obtain ⟨g1, g2⟩ := ih' pm' seen (spec.updAsk em r env) p .plain m h2
      rw [emGo, emEnvGo]
      simp only [hin, h1, mOut]
      exact ⟨by rw [g1], g2⟩
    | leave e =>
      have hm : i = .throw e ∧ isException e = false := by
        cases mode <;> cases i <;> simp only [emInput] at hin
        · cases hin
        · split at hin
          · cases hin
          · cases hin; exact ⟨rfl, by simp_all⟩
        · cases hin
        · split at hin
          · cases hin
          · cases hin; exact ⟨rfl, by simp_all⟩
      obtain ⟨rfl, hx⟩ := hm
      have hl := emStep_leave spec key plan f pm env e hx hn.head
      rw [emGo, emEnvGo]
      simp only [hin, hl, mOut, Drv.done, Drv.cons]
      exact ⟨trivial, by
        have := stateFrom_fin (f + 3) key spec plan env rest
        simp only [stateFrom] at this
        rw [this]⟩
    | feed =>
      have hf := emStep_feed spec hok key plan f pm seen env p mode em hinv i hin
      rw [emGo_feed c spec key seen env p mode em i rest hin, emEnvGo]
      simp only [hin]
      rcases hres : p.resume i with ⟨o, p'⟩
      rw [hres] at hf
      cases o with
      | ret v =>
        simp only [EmFeed] at hf
        simp only [hf, mOut, emOut]
        exact ⟨trivial, by
          have := stateFrom_fin (f + 3) key spec plan env rest
          simp only [stateFrom] at this
          rw [this]⟩
      | raise x =>
        simp only [EmFeed] at hf
        simp only [hf, mOut, emOut]
        exact ⟨trivial, by
          have := stateFrom_fin (f + 3) key spec plan env rest
          simp only [stateFrom] at this
          rw [this]⟩
      | yld m' =>
        obtain ⟨pm', h1, h2⟩ := hf
        obtain ⟨g1, g2⟩ := ih' pm' _ _ p' _ _ h2
        simp only [h1, mOut, emOut]
        exact ⟨by rw [g1], g2⟩

/-- **Trace semantics of plan_mutator with a closure variable**: the drive of `envMutatorA` is
    `emOut` -- the specification started on the wrapped plan's first output -- and the variable
    at the end is `emEnvOut`. -/
theorem drive_envMutatorA (spec : EnvSpec σ M R) (hok : spec.OK) (key : M → ι) (env0 : σ)
    (plan : Beh M R V E) (f : Nat) (c : Bool) (ins : List (Inp R E)) (hn : NoGenExit ins) :
    drive c (envMutatorA (f + 3) key spec env0 plan) ins
        = emOut c spec key [] env0 ((Pos.new plan).resume (.send default)) ins ∧
      envAfter (f + 3) key spec env0 plan (.send default :: ins)
        = emEnvOut spec key [] env0 ((Pos.new plan).resume (.send default)) ins := by
  unfold envMutatorA envAfter
  rw [drive_machine]
  have hstate : Machine.state (emStep (f + 3) key spec plan) ⟨.init, env0⟩ (.send default :: ins)
      = stateFrom (emStep (f + 3) key spec plan)
          (emStep (f + 3) key spec plan ⟨.init, env0⟩ (.send default)).2 ins := by
    simp only [Machine.state, Machine.fold, List.foldl_cons, stateFrom]
    have gen : ∀ (l : List (Inp R E)) (x : Out (M × σ) V E × EMSt σ M ι R V E),
        (l.foldl (fun acc i => emStep (f + 3) key spec plan acc.2 i) x).2
          = l.foldl (fun st i => (emStep (f + 3) key spec plan st i).2) x.2 := by
      intro l
      induction l with
      | nil => intro x; rfl
      | cons i rest ih => intro x; simp only [List.foldl_cons]; exact ih _
    exact gen ins _
  rw [hstate]
  have hf0 := feed_send spec hok key env0 (f + 1) (pmInit (ι := ι) plan) (Pos.new plan) default
    rfl rfl rfl rfl rfl (by simp [pmInit])
  have hf : EmFeed spec key env0 [] (emStep (f + 3) key spec plan ⟨.init, env0⟩ (.send default))
      ((Pos.new plan).resume (.send default)) := by
    rw [emStep_unfold]
    have hpre : envPre spec (.init : PMSt M ι R V E) (.send (default : R)) env0 = env0 := by
      simp [envPre, topFirstYield]
    rw [hpre]
    exact emFeed_of spec key env0 [] _ _ (by simpa [pmStep, pmInit] using hf0)
  rcases hres : (Pos.new plan).resume (.send default) with ⟨o, p'⟩
  rw [hres] at hf
  cases o with
  | ret v =>
    simp only [EmFeed] at hf
    simp only [hf, mOut, emOut, emEnvOut]
    exact ⟨trivial, by rw [stateFrom_fin]⟩
  | raise x =>
    simp only [EmFeed] at hf
    simp only [hf, mOut, emOut, emEnvOut]
    exact ⟨trivial, by rw [stateFrom_fin]⟩
  | yld m' =>
    obtain ⟨pm', h1, h2⟩ := hf
    obtain ⟨g1, g2⟩ := em_main spec hok key plan f c ins hn pm' _ _ p' _ _ h2
    simp only [h1, mOut, emOut, emEnvOut]
    exact ⟨g1, g2⟩

end
end BlueskyVerif.Gen
