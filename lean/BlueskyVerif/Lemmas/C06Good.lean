/-
C06: when a blocking call hands control back with the `_run` task over, the ledger is clean --
lifted through `advance` and the scheduler together with the "who may set the blocking event"
lemmas of EngineBE.lean.
-/
import BlueskyVerif.Lemmas.C06Sched

namespace BlueskyVerif.Engine

/-- every `set` in the ledger is followed, later, by a `stop` of the same device -/
def AllSetsStopped (l : List Call) : Prop :=
  ∀ pre c post, l = pre ++ c :: post → c.op = "set" → stopCall c.dev ∈ post

/-- what the cleanup appends: after everything logged before -/
theorem cleanup_ext (s : EState) :
    ∃ ext, (cleanup s).calls = s.calls ++ ext ∧
      (∀ n ∈ s.moved, stopCall n ∈ ext) ∧ (∀ n ∈ s.staged, unstageCall n ∈ ext) ∧
      (∀ c ∈ ext, c.op ≠ "set" ∧ c.op ≠ "stage") := by
  obtain ⟨mid, tail, hc, hq1, hq2⟩ := cleanupBody_calls s
  refine ⟨s.moved.map stopCall ++ mid ++ s.staged.map unstageCall ++ tail, by rw [cleanup_calls, hc]; simp, ?_, ?_, ?_⟩
  · intro n hn
    simp only [List.mem_append, List.mem_map]
    exact Or.inl (Or.inl (Or.inl ⟨n, hn, rfl⟩))
  · intro n hn
    simp only [List.mem_append, List.mem_map]
    exact Or.inl (Or.inr ⟨n, hn, rfl⟩)
  · intro c hc'
    simp only [List.mem_append, List.mem_map] at hc'
    rcases hc' with ((⟨n, _, rfl⟩ | h) | ⟨n, _, rfl⟩) | h
    · simp [stopCall]
    · have := hq1 c h; simp only [keyOp, Bool.or_eq_false_iff, beq_eq_false_iff_ne] at this
      exact ⟨this.1.1, this.1.2⟩
    · simp [unstageCall]
    · have := hq2 c h; simp only [keyOp, Bool.or_eq_false_iff, beq_eq_false_iff_ne] at this
      exact ⟨this.1.1, this.1.2⟩

theorem cleanup_allSetsStopped (s : EState) (hi : MovedInv s) : AllSetsStopped (cleanup s).calls := by
  intro pre c post hsplit hop
  obtain ⟨ext, hc, hmv, _, hno⟩ := cleanup_ext s
  rw [hc] at hsplit
  rcases List.append_eq_append_iff.mp hsplit with ⟨a', h1, h2⟩ | ⟨c', h1, h2⟩
  · have : c ∈ ext := by rw [h2]; simp
    exact absurd hop (hno c this).1
  · cases c' with
    | nil =>
      simp only [List.nil_append] at h2
      have : c ∈ ext := by rw [← h2]; simp
      exact absurd hop (hno c this).1
    | cons x xs =>
      simp only [List.cons_append, List.cons.injEq] at h2
      obtain ⟨hx, hpost⟩ := h2
      subst hx
      have hmem : c ∈ s.calls := by rw [h1]; simp
      have := hmv c.dev (hi c hmem hop)
      rw [hpost]; exact List.mem_append_right _ this

/-- the ledger and the bookkeeping are clean -/
structure Good (s : EState) : Prop where
  stopped : AllSetsStopped s.calls
  staged : s.staged = []
  bundlers : s.bundlers = []

theorem good_finishTask_cleanup (s : EState) (hi : MovedInv s) : Good (finishTask (cleanup s)) :=
  { stopped := cleanup_allSetsStopped s hi, staged := cleanup_staged s, bundlers := cleanup_bundlers s }

/-- what must hold of a state in which the caller gets control back with the task over -/
def RetGood (s : EState) : Prop := s.blockingEvent = true → s.pc = .finished → Good s

theorem retGood_of_nobe {s : EState} (h : s.blockingEvent = false) : RetGood s := by
  intro hb; rw [h] at hb; cases hb

theorem retGood_of_pc {s : EState} (h : (s.pc == PC.finished) = false) : RetGood s := by
  intro _ hpc; rw [hpc] at h; simp at h

theorem runLoop_good (n : Nat) (s : EState) (hb : s.blockingEvent = false) (hi : MovedInv s) : RetGood (runLoop n s) := by
  induction n generalizing s with
  | zero => exact retGood_of_nobe (by simp [runLoop, hb])
  | succ n ih =>
    unfold runLoop
    have hok := loopTop_ok s hb
    have hmi := loopTop_mi s hi
    split
    · rename_i s' heq
      rw [heq] at hok hmi
      split
      · intro _ _; exact good_finishTask_cleanup s' hmi
      · rename_i hpc; exact retGood_of_pc (by simpa using hpc)
    · rename_i s' heq
      rw [heq] at hok hmi
      exact ih s' hok hmi

theorem contFlow_good (n : Nat) (f : Flow) (hok : f.Ok) (hmi : f.MI) : RetGood (contFlow n f) := by
  cases f with
  | loopTop s => exact runLoop_good n s hok hmi
  | stop s =>
    simp only [contFlow]
    split
    · intro _ _; exact good_finishTask_cleanup s hmi
    · rename_i hpc; exact retGood_of_pc (by simpa using hpc)

theorem advanceAt_good (n : Nat) (c : Bool) (s0 : EState) (hb : s0.blockingEvent = false) (hi : MovedInv s0) :
    RetGood (advanceAt n c s0) := by
  unfold advanceAt
  split
  · exact retGood_of_nobe hb
  · exact retGood_of_nobe hb
  · split
    · exact retGood_of_nobe hb
    · split
      · rename_i s' hs
        apply runLoop_good
        · rw [setState_be hs]; exact hb
        · exact movedInv_of_dv (setState_dv hs) hi
      · apply contFlow_good
        · apply Flow.ok_of_nobe; simp only [Flow.NoBE, leaveLoop_be]; exact hb
        · exact movedInv_of_dv (leaveLoop_dv _ _) hi
  · split
    · exact contFlow_good _ _ (Flow.ok_of_nobe (hCancel_nobe _ _ hb)) (hCancel_mi _ _ hi)
    · exact contFlow_good _ _ (Flow.ok_of_nobe (afterSleep_nobe _ hb)) (afterSleep_mi _ hi)
  · split
    · exact contFlow_good _ _ (Flow.ok_of_nobe (hCancel_nobe _ _ hb)) (hCancel_mi _ _ hi)
    · apply runLoop_good
      · rw [fin_be]; exact hb
      · exact movedInv_of_dv (fin_dv _ _) hi
  · split
    · exact contFlow_good _ _ (Flow.ok_of_nobe (hCancel_nobe _ _ hb)) (hCancel_mi _ _ hi)
    · split
      · rename_i s' hs
        apply runLoop_good
        · rw [fin_be, requestPause_be hs]; exact hb
        · exact movedInv_of_dv ((fin_dv _ _).trans (requestPause_dv hs)) hi
      · apply runLoop_good
        · rw [fin_be]; exact hb
        · exact movedInv_of_dv (fin_dv _ _) hi
  · split
    · exact contFlow_good _ _ (Flow.ok_of_nobe (hCancel_nobe _ _ hb)) (hCancel_mi _ _ hi)
    · simp only []
      split
      · apply runLoop_good
        · rw [fin_be]; exact hb
        · exact movedInv_of_dv (fin_dv _ _) hi
      · split
        · apply runLoop_good
          · rw [fin_be]; exact hb
          · exact movedInv_of_dv (fin_dv _ _) hi
        · exact retGood_of_nobe hb
  · split
    · exact contFlow_good _ _ (Flow.ok_of_nobe (hCancel_nobe _ _ hb)) (hCancel_mi _ _ hi)
    · split
      · apply runLoop_good
        · rw [fin_be]; exact hb
        · exact movedInv_of_dv (fin_dv _ _) hi
      · exact retGood_of_nobe hb
  · split
    · exact retGood_of_nobe hb
    · split
      · apply contFlow_good
        · apply Flow.ok_of_nobe; simp only [Flow.NoBE, leaveLoop_be]; exact hb
        · exact movedInv_of_dv (leaveLoop_dv _ _) hi
      · simp only []
        have hr : (forBundlers s0 restoreMonitors).blockingEvent = false := by rw [be_forBundlers_restore]; exact hb
        have hri : MovedInv (forBundlers s0 restoreMonitors) := movedInv_of_dv (dv_forBundlers_restore s0) hi
        split
        · apply contFlow_good
          · apply Flow.ok_of_nobe; simp only [Flow.NoBE, leaveLoop_be]; exact hr
          · exact movedInv_of_dv (leaveLoop_dv _ _) hri
        · rename_i s' hs
          have hs' : s'.blockingEvent = false := by
            split at hs
            · rw [setState_be hs]; exact hr
            · cases hs; exact hr
          have hsi : MovedInv s' := by
            split at hs
            · exact movedInv_of_dv (setState_dv hs) hri
            · cases hs; exact hri
          split
          · exact retGood_of_nobe (by simp only []; exact hs')
          · exact contFlow_good _ _ (Flow.ok_of_nobe (afterSleep_nobe _ hs')) (afterSleep_mi _ hsi)
  · intro _ _
    apply good_finishTask_cleanup
    split
    · exact hi
    · exact hi

theorem advance_good (n : Nat) (s : EState) (hb : s.blockingEvent = false) (hi : MovedInv s) : RetGood (advance n s) :=
  advanceAt_good n _ _ hb hi

/-- for every script, arrival bound and fuel: the scheduler keeps `MovedInv` and hands control back
    with the task over only in a clean state -/
theorem schedule_good (maxArr : Nat) (sc : Script) (fuel : Nat) (s : EState) (hi : MovedInv s) (hg : RetGood s) :
    RetGood (schedule maxArr sc fuel s) := by
  induction fuel generalizing s with
  | zero => intro hb hpc; exact { stopped := (hg hb hpc).stopped, staged := (hg hb hpc).staged, bundlers := (hg hb hpc).bundlers }
  | succ n ih =>
    unfold schedule
    split
    · exact hg
    · rename_i hbe
      have hb : s.blockingEvent = false := by simpa using hbe
      split
      · exact hg
      · exact hg
      · split
        · exact ih _ (advance_mi _ _ hi) (advance_good _ _ hb hi)
        · exact hg
      · exact ih _ (advance_mi _ _ hi) (advance_good _ _ hb hi)
      · simp only []
        apply ih
        · apply advance_mi
          split
          · exact movedInv_of_dv ((applyAction_dv _ _).trans (flushCompletions_dv _)) hi
          · exact movedInv_of_dv ((dv_foldl _ applyAction_dv _ _).trans (flushCompletions_dv _)) hi
        · apply advance_good
          · split
            · rw [applyAction_be, flushCompletions_be]; exact hb
            · rw [foldl_be _ applyAction_be, flushCompletions_be]; exact hb
          · split
            · exact movedInv_of_dv ((applyAction_dv _ _).trans (flushCompletions_dv _)) hi
            · exact movedInv_of_dv ((dv_foldl _ applyAction_dv _ _).trans (flushCompletions_dv _)) hi
      · simp only []
        apply ih
        · apply advance_mi
          split
          · exact movedInv_of_dv ((applyAction_dv _ _).trans (flushCompletions_dv _)) hi
          · exact movedInv_of_dv ((dv_foldl _ applyAction_dv _ _).trans (flushCompletions_dv _)) hi
        · apply advance_good
          · split
            · rw [applyAction_be, flushCompletions_be]; exact hb
            · rw [foldl_be _ applyAction_be, flushCompletions_be]; exact hb
          · split
            · exact movedInv_of_dv ((applyAction_dv _ _).trans (flushCompletions_dv _)) hi
            · exact movedInv_of_dv ((dv_foldl _ applyAction_dv _ _).trans (flushCompletions_dv _)) hi
      · simp only []
        apply ih
        · apply advance_mi
          split
          · exact movedInv_of_dv ((applyAction_dv _ _).trans (flushCompletions_dv _)) hi
          · exact movedInv_of_dv ((dv_foldl _ applyAction_dv _ _).trans (flushCompletions_dv _)) hi
        · apply advance_good
          · split
            · rw [applyAction_be, flushCompletions_be]; exact hb
            · rw [foldl_be _ applyAction_be, flushCompletions_be]; exact hb
          · split
            · exact movedInv_of_dv ((applyAction_dv _ _).trans (flushCompletions_dv _)) hi
            · exact movedInv_of_dv ((dv_foldl _ applyAction_dv _ _).trans (flushCompletions_dv _)) hi
      · simp only []
        apply ih
        · apply advance_mi
          split
          · exact movedInv_of_dv ((applyAction_dv _ _).trans (flushCompletions_dv _)) hi
          · exact movedInv_of_dv ((dv_foldl _ applyAction_dv _ _).trans (flushCompletions_dv _)) hi
        · apply advance_good
          · split
            · rw [applyAction_be, flushCompletions_be]; exact hb
            · rw [foldl_be _ applyAction_be, flushCompletions_be]; exact hb
          · split
            · exact movedInv_of_dv ((applyAction_dv _ _).trans (flushCompletions_dv _)) hi
            · exact movedInv_of_dv ((dv_foldl _ applyAction_dv _ _).trans (flushCompletions_dv _)) hi
      all_goals
        simp only []
        have hf : MovedInv (flushCompletions s) := movedInv_of_dv (flushCompletions_dv s) hi
        have hfb : (flushCompletions s).blockingEvent = false := by rw [flushCompletions_be]; exact hb
        have hadv := advance_mi 4000 _ hf
        have hadg := advance_good 4000 _ hfb hf
        split
        · rename_i hcond
          have hb' : (advance 4000 (flushCompletions s)).blockingEvent = false := by
            simp only [Bool.and_eq_true, Bool.not_eq_true', beq_iff_eq] at hcond
            exact hcond.1.2
          split
          · apply ih
            · exact movedInv_of_dv (applyAction_dv _ _) (movedInv_of_dv rfl hadv)
            · apply retGood_of_nobe; rw [applyAction_be]; exact hb'
          · split
            · apply ih
              · split
                · exact movedInv_of_dv (releaseAll_dv _) (movedInv_of_dv rfl hadv)
                · exact movedInv_of_dv ((applyAction_dv _ _).trans (releaseAll_dv _)) (movedInv_of_dv rfl hadv)
              · split
                · apply retGood_of_nobe; rw [releaseAll_be]; exact hb'
                · apply retGood_of_nobe; rw [applyAction_be, releaseAll_be]; exact hb'
            · apply ih
              · exact movedInv_of_dv (dv_foldl _ applyAction_dv _ _) (movedInv_of_dv rfl hadv)
              · apply retGood_of_nobe; rw [foldl_be _ applyAction_be]; exact hb'
        · exact ih _ hadv hadg

end BlueskyVerif.Engine
