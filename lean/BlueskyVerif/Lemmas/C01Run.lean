/-
C01: the invariant through `runCommand`, the outer `finally` (`cleanup`) and every block of `_run`, up to
`advance`.  `Res s` = invariant + "when the task is over no bundler is registered".
-/
import BlueskyVerif.Lemmas.C01Handlers

namespace BlueskyVerif.Engine

/-! ## the program counter is not touched by data operations -/

theorem pc_of_ctl {s s' : EState} (h : ctl s' = ctl s) : s'.pc = s.pc := congrArg Ctl.pc h

@[simp] theorem pc_logCall (s : EState) (c : Call) : (s.logCall c).pc = s.pc := rfl
@[simp] theorem pc_emit (s : EState) (d : Doc) : (s.emit d).pc = s.pc := rfl
@[simp] theorem pc_setDev (s : EState) (n : String) (d : DevState) : (setDev s n d).pc = s.pc := rfl
@[simp] theorem pc_nextMode (s : EState) (n op : String) : (nextMode s n op).2.pc = s.pc := rfl
@[simp] theorem pc_putBundler (s : EState) (m : Msg) (b : Bundler) : (putBundler s m b).pc = s.pc := rfl
@[simp] theorem pc_emitEvent (s : EState) (b : Bundler) (st : String) (d : List (String × Int)) (n : String) :
    (emitEvent s b st d n).1.pc = s.pc := rfl
@[simp] theorem pc_prepareStream (s : EState) (b : Bundler) (st : String) (o : List String) :
    (prepareStream s b st o).1.pc = s.pc := rfl
@[simp] theorem pc_closeRunDoc (s : EState) (b : Bundler) (e r : String) : (closeRunDoc s b e r).1.pc = s.pc :=
  pc_of_ctl (ctl_closeRunDoc s b e r)
@[simp] theorem pc_resetCheckpointMeth (s : EState) : (resetCheckpointMeth s).pc = s.pc := pc_of_ctl (ctl_resetCheckpointMeth s)
@[simp] theorem pc_stopMovables (s : EState) : (stopMovables s).pc = s.pc := pc_of_ctl (ctl_stopMovables s)
@[simp] theorem pc_pauseHooks (s : EState) : (pauseHooks s).pc = s.pc := pc_of_ctl (ctl_pauseHooks s)
@[simp] theorem pc_resumeHooks (s : EState) : (resumeHooks s).pc = s.pc := pc_of_ctl (ctl_resumeHooks s)
@[simp] theorem pc_rewindPlan (s : EState) : (rewindPlan s).2.pc = s.pc := pc_of_ctl (ctl_rewindPlan s)
@[simp] theorem pc_newStatus (s : EState) (d o m : String) (g : Option String) : (newStatus s d o m g).2.pc = s.pc := rfl
@[simp] theorem pc_forBundlers_ri (s : EState) (c : String) :
    (forBundlers s (fun s b => recordInterruption s b c)).pc = s.pc :=
  pc_forBundlers _ (fun s b => ctl_recordInterruption s b c) _
@[simp] theorem pc_forBundlers_restore (s : EState) : (forBundlers s restoreMonitors).pc = s.pc :=
  pc_forBundlers _ ctl_restoreMonitors _
@[simp] theorem pc_forBundlers_suspend (s : EState) : (forBundlers s suspendMonitors).pc = s.pc :=
  pc_forBundlers _ ctl_suspendMonitors _
@[simp] theorem pc_forBundlers_clear (s : EState) : (forBundlers s clearMonitors).pc = s.pc :=
  pc_forBundlers _ ctl_clearMonitors _
@[simp] theorem pc_forBundlers_pure (s : EState) (g : Bundler → Bundler) :
    (forBundlers s (fun s b => (s, g b))).pc = s.pc := pc_forBundlers _ (fun _ _ => rfl) _

macro "frame_pc" : tactic =>
  `(tactic| repeat' (first | rfl | (simp; done) | split | (simp only []; (first | rfl | split))))

theorem requestPause_pc {s s' : EState} {d : Bool} (h : requestPause s d = .ok s') : s'.pc = s.pc := by
  unfold requestPause at h
  split at h
  · cases h
  · split at h
    · cases h; rfl
    · split at h
      · cases h
      · rename_i s1 hs
        cases h
        have := setState_pc hs
        simp only [pc_forBundlers_ri]
        exact this

theorem runCommand_pc (s : EState) (m : Msg) : (runCommand s m).1.pc = s.pc := by
  unfold runCommand
  split
  · unfold cmdOpenRun; frame_pc
  · unfold cmdCloseRun; frame_pc
  · unfold cmdCreate; frame_pc
  · unfold cmdRead; frame_pc
  · unfold cmdSave; frame_pc
  · unfold cmdDrop; frame_pc
  · unfold cmdCheckpoint; frame_pc
  · unfold cmdClearCheckpoint; frame_pc
  · unfold cmdRewindable; frame_pc
  · unfold cmdSet; frame_pc
  · unfold cmdTrigger; frame_pc
  · unfold cmdWait; frame_pc
  · rfl
  · unfold cmdStage; frame_pc
  · unfold cmdStage; frame_pc
  · unfold cmdMonitor; frame_pc
  · unfold cmdUnmonitor; frame_pc
  · rfl
  · split
    · rename_i s' h; exact requestPause_pc h
    · rfl
  · unfold cmdStartSuspender; frame_pc
  · unfold cmdResumeFromSuspender; frame_pc
  · unfold cmdWaitFor; frame_pc
  · rfl

/-! ## the remaining command handlers -/

theorem inv_requestPause {s s' : EState} {d : Bool} (h : requestPause s d = .ok s') (hi : Inv s) : Inv s' := by
  unfold requestPause at h
  split at h
  · cases h
  · split at h
    · cases h; exact Inv.of_data rfl rfl rfl rfl rfl hi
    · split at h
      · cases h
      · rename_i s1 hs
        cases h
        have h1 : Inv s1 := Inv.congr (dv_setState hs) (Inv.of_data rfl rfl rfl rfl rfl hi)
        exact Inv.of_data rfl rfl rfl rfl rfl (inv_forBundlers_ri s1 "pause" h1)

theorem inv_cmdStartSuspender (s : EState) (m : Msg) (h : Inv s) : Inv (cmdStartSuspender s m).1 := by
  unfold cmdStartSuspender
  split
  · exact h
  · rename_i rq _
    simp only []
    have h1 := inv_forBundlers_ri s (rq.just.getD "suspended") h
    have h2 : Inv (rewindPlan (pauseHooks (stopMovables (forBundlers s fun s b => recordInterruption s b (rq.just.getD "suspended"))))).2 := by
      apply Inv.congr _ h1
      rw [dv_rewindPlan, dv_pauseHooks, dv_stopMovables]
    exact Inv.of_data rfl rfl rfl rfl rfl h2

theorem inv_cmdResumeFromSuspender (s : EState) (h : Inv s) : Inv (cmdResumeFromSuspender s).1 := by
  unfold cmdResumeFromSuspender
  simp only []
  exact Inv.congr (dv_resumeHooks _) (inv_forBundlers_restore s h)

theorem dv_cmdCheckpoint (s : EState) : dv (cmdCheckpoint s).1 = dv s := by
  unfold cmdCheckpoint; frame_dv

theorem dv_cmdClearCheckpoint (s : EState) : dv (cmdClearCheckpoint s).1 = dv s := by
  unfold cmdClearCheckpoint
  simp only []
  exact (dv_forBundlers_pure (fun b => { b with seqCopy := [] }) (fun _ => rfl) _).trans rfl

theorem dv_cmdRewindable (s : EState) (m : Msg) : dv (cmdRewindable s m).1 = dv s := by
  unfold cmdRewindable
  split
  · rfl
  · simp only []
    split
    · rw [dv_resetCheckpointMeth]; rfl
    · rfl

theorem dv_cmdSet (s : EState) (m : Msg) : dv (cmdSet s m).1 = dv s := by
  unfold cmdSet
  simp only []
  have h0 : dv (if s.moved.contains (m.obj.getD "") then s else { s with moved := s.moved ++ [m.obj.getD ""] }) = dv s := by
    split <;> rfl
  generalize (if s.moved.contains (m.obj.getD "") then s else { s with moved := s.moved ++ [m.obj.getD ""] }) = s0 at h0 ⊢
  split
  · rw [dv_logCall, dv_nextMode, h0]
  · rw [dv_newStatus, dv_logCall]
    rw [← h0, ← dv_nextMode s0 (m.obj.getD "") "set"]
    exact dv_ext rfl rfl (subsOf_setDev_same _ _ _ rfl) rfl rfl rfl

theorem dv_cmdTrigger (s : EState) (m : Msg) : dv (cmdTrigger s m).1 = dv s := by
  unfold cmdTrigger; frame_dv

theorem dv_cmdWait (s : EState) (m : Msg) : dv (cmdWait s m).1 = dv s := by
  unfold cmdWait; frame_dv

theorem dv_cmdStage (s : EState) (m : Msg) (op : String) : dv (cmdStage s m op).1 = dv s := by
  unfold cmdStage
  simp only []
  have e0 : dv ((nextMode s (m.obj.getD "") op).2.logCall { dev := m.obj.getD "", op := op }) = dv s := by
    rw [dv_logCall, dv_nextMode]
  split
  · exact e0
  · rw [dv_resetCheckpointMeth]
    split
    · split
      · exact e0
      · rw [← e0]; exact dv_ext rfl rfl rfl rfl rfl rfl
    · rw [← e0]; exact dv_ext rfl rfl rfl rfl rfl rfl

theorem dv_cmdWaitFor (s : EState) (m : Msg) : dv (cmdWaitFor s m).1 = dv s := by
  unfold cmdWaitFor; frame_dv

theorem inv_runCommand (s : EState) (m : Msg) (h : Inv s) : Inv (runCommand s m).1 := by
  unfold runCommand
  split
  · exact inv_cmdOpenRun s m h
  · exact inv_cmdCloseRun s m h
  · exact inv_cmdCreate s m h
  · exact inv_cmdRead s m h
  · exact inv_cmdSave s m h
  · exact inv_cmdDrop s m h
  · exact Inv.congr (dv_cmdCheckpoint s) h
  · exact Inv.congr (dv_cmdClearCheckpoint s) h
  · exact Inv.congr (dv_cmdRewindable s m) h
  · exact Inv.congr (dv_cmdSet s m) h
  · exact Inv.congr (dv_cmdTrigger s m) h
  · exact Inv.congr (dv_cmdWait s m) h
  · exact h
  · exact Inv.congr (dv_cmdStage s m _) h
  · exact Inv.congr (dv_cmdStage s m _) h
  · exact inv_cmdMonitor s m h
  · exact inv_cmdUnmonitor s m h
  · exact h
  · split
    · rename_i s' hp; exact inv_requestPause hp h
    · exact h
  · exact inv_cmdStartSuspender s m h
  · exact inv_cmdResumeFromSuspender s h
  · exact Inv.congr (dv_cmdWaitFor s m) h
  · exact h

/-! ## the outer `finally` -/

def cb1 (s : EState) : EState :=
  let s := { s with pardon := true }
  if Src.finallyStopsMovables then stopMovables s else s

def cb2 (s : EState) : EState := if Src.finallyClearsMonitors then forBundlers s clearMonitors else s

def cb3 (s : EState) : EState :=
  let s := if Src.finallyUnstages then
      s.staged.foldl (fun s n => let (_, s) := nextMode s n "unstage"; s.logCall { dev := n, op := "unstage" }) s
    else s
  { s with staged := [] }

def cb4 (s : EState) (reason : String) : EState :=
  if Src.finallyClosesRuns then
    forBundlers s (fun s b => if b.runOpen then closeRunDoc s b s.exitStatus.name reason else (s, b))
  else s

def cb5 (s : EState) : EState :=
  let s := { s with bundlers := [] }
  s.planStack.foldl closeGen s

theorem cleanupBody_eq (s : EState) :
    cleanupBody s = cb5 (cb4 (cb3 (cb2 (cb1 s))) (if s.exitReason == "" then s.reason else s.exitReason)) := rfl

theorem inv_cb1 (s : EState) (h : Inv s) : Inv (cb1 s) := by
  unfold cb1; simp only []
  split
  · exact Inv.congr (dv_stopMovables _) (Inv.of_data rfl rfl rfl rfl rfl h)
  · exact Inv.of_data rfl rfl rfl rfl rfl h

theorem inv_cb2 (s : EState) (h : Inv s) : Inv (cb2 s) := by
  unfold cb2
  split
  · exact inv_forBundlers_clear s h
  · exact h

theorem inv_cb3 (s : EState) (h : Inv s) : Inv (cb3 s) := by
  unfold cb3; simp only []
  apply Inv.of_data (s := (if Src.finallyUnstages then
      s.staged.foldl (fun s n => let (_, s) := nextMode s n "unstage"; s.logCall { dev := n, op := "unstage" }) s
    else s)) rfl rfl rfl rfl rfl
  split
  · apply Inv.congr _ h
    apply dv_foldl
    intro s n
    show dv ((nextMode s n "unstage").2.logCall _) = dv s
    rw [dv_logCall, dv_nextMode]
  · exact h

/-- the engine closes every run that is still open: afterwards every registered bundler is closed -/
theorem cb4_closes (s : EState) (r : String) (h : Inv s) :
    DI (cb4 s r) (bvs (cb4 s r)) ∧ (∀ kb ∈ (cb4 s r).bundlers, kb.2.runOpen = false) := by
  have hc : Src.finallyClosesRuns = true := rfl
  unfold cb4
  rw [if_pos hc]
  have hall := all_open_of_inv h
  constructor
  · apply forBundlers_go_inv _ (fun b => b.runOpen = true) _ _ _ _ hall
    · have h0 : DI s (bvs s) := h.1
      simpa [bvs] using h0
    · intro s b pre post ho h0
      simp only [ho, if_true]
      exact DI_closeRunDoc b _ _ ho h0
  · apply forBundlers_go_all _ (fun b => b.runOpen = true) (fun b => b.runOpen = false) _ _ _ _ hall
    · intro kb hkb; cases hkb
    · intro s b ho
      simp only [ho, if_true]
      rfl

theorem bundlers_nil_of_dv {s s' : EState} (e : dv s' = dv s) (h : s.bundlers = []) : s'.bundlers = [] := by
  have : keysOf s' = keysOf s := congrArg DV.keys e
  unfold keysOf at this
  rw [h] at this
  exact List.map_eq_nil_iff.mp this

theorem cb5_inv (s : EState) (h : DI s (bvs s)) (hc : ∀ kb ∈ s.bundlers, kb.2.runOpen = false) :
    Inv (cb5 s) ∧ (cb5 s).bundlers = [] := by
  unfold cb5; simp only []
  have h1 : Inv { s with bundlers := [] } := by
    refine Inv.of_parts s.docs s.nextRun (subsOf s) [] [] rfl rfl rfl rfl rfl ?_ ?_ List.Pairwise.nil
    · apply DocInv.clear h
      intro v hv
      obtain ⟨kb, hkb, rfl⟩ := List.mem_map.mp hv
      exact hc kb hkb
    · intro x hx; cases hx
  have e : dv (List.foldl closeGen { s with bundlers := [] } s.planStack) = dv { s with bundlers := [] } :=
    dv_foldl _ dv_closeGen _ _
  exact ⟨Inv.congr e h1, bundlers_nil_of_dv e rfl⟩

theorem cleanupBody_inv (s : EState) (h : Inv s) : Inv (cleanupBody s) ∧ (cleanupBody s).bundlers = [] := by
  rw [cleanupBody_eq]
  have h3 := inv_cb3 _ (inv_cb2 _ (inv_cb1 s h))
  obtain ⟨h4, h4'⟩ := cb4_closes _ (if s.exitReason == "" then s.reason else s.exitReason) h3
  exact cb5_inv _ h4 h4'

theorem cleanup_inv (s : EState) (h : Inv s) : Inv (cleanup s) ∧ (cleanup s).bundlers = [] := by
  obtain ⟨h1, h2⟩ := cleanupBody_inv s h
  unfold cleanup
  simp only []
  split
  · rename_i s' hs
    exact ⟨Inv.congr (dv_setState hs) h1, bundlers_nil_of_dv (dv_setState hs) h2⟩
  · exact ⟨Inv.of_data rfl rfl rfl rfl rfl h1, h2⟩

/-! ## results of `_run` blocks -/

/-- when the task is over no bundler is registered any more -/
def Closed (s : EState) : Prop := s.pc = .finished → s.bundlers = []

def Res (s : EState) : Prop := Inv s ∧ Closed s

theorem finishTask_res (s : EState) (h : Inv s) : Res (finishTask (cleanup s)) := by
  obtain ⟨h1, h2⟩ := cleanup_inv s h
  exact ⟨Inv.of_data rfl rfl rfl rfl rfl h1, fun _ => h2⟩

theorem res_of_live {s : EState} (h : Inv s) (hp : s.pc ≠ .finished) : Res s := ⟨h, fun e => absurd e hp⟩

def Flow.Good : Flow → Prop
  | .loopTop s => Inv s ∧ s.pc ≠ .finished
  | .stop s => Inv s

theorem popPlan_good (s : EState) (how : Option Exc) (h : Inv s) (hp : s.pc ≠ .finished) : (popPlan s how).Good := by
  unfold popPlan; simp only []
  split
  · exact inv_leaveLoop _ _ (Inv.of_data rfl rfl rfl rfl rfl h)
  · split
    · exact ⟨Inv.of_data rfl rfl rfl rfl rfl h, hp⟩
    · exact ⟨Inv.of_data rfl rfl rfl rfl rfl h, hp⟩

theorem afterCommand_good (m : Msg) (p : EState × CmdOut) (h : Inv p.1) (hp : p.1.pc ≠ .finished) : (afterCommand m p).Good := by
  obtain ⟨s, o⟩ := p
  cases o with
  | value r => exact ⟨Inv.congr (dv_fin s _) h, by rw [pc_of_dv (dv_fin s _)]; exact hp⟩
  | raised e => exact ⟨Inv.congr (dv_fin s _) h, by rw [pc_of_dv (dv_fin s _)]; exact hp⟩
  | suspend pc => exact Inv.of_data rfl rfl rfl rfl rfl h

theorem processMsg_good (s : EState) (m : Msg) (h : Inv s) (hp : s.pc ≠ .finished) : (processMsg s m).Good := by
  unfold processMsg
  simp only []
  have h1 : Inv (noteMsg s m) := Inv.congr (dv_noteMsg s m) h
  have hp1 : (noteMsg s m).pc ≠ .finished := by rw [pc_of_dv (dv_noteMsg s m)]; exact hp
  split
  · exact ⟨Inv.congr (dv_fin _ _) h1, by rw [pc_of_dv (dv_fin _ _)]; exact hp1⟩
  · apply afterCommand_good
    · exact inv_runCommand _ _ h1
    · rw [runCommand_pc]; exact hp1

theorem afterResume_good (s : EState) (gs : List Gen) (t : Option Exc) (r : Out × Gen)
    (h : Inv s) (hp : s.pc ≠ .finished) : (afterResume s gs t r).Good := by
  obtain ⟨o, g'⟩ := r
  cases o with
  | yld m => exact processMsg_good _ m (Inv.of_data rfl rfl rfl rfl rfl h) hp
  | ret =>
    simp only [afterResume]
    split <;> exact popPlan_good _ _ (Inv.of_data rfl rfl rfl rfl rfl h) hp
  | raise e =>
    simp only [afterResume]
    split
    · exact popPlan_good _ _ (Inv.of_data rfl rfl rfl rfl rfl h) hp
    · exact inv_leaveLoop _ _ (Inv.congr (dv_fin _ _) (Inv.of_data rfl rfl rfl rfl rfl h))

theorem afterSleep_good (s : EState) (h : Inv s) (hp : s.pc ≠ .finished) : (afterSleep s).Good := by
  unfold afterSleep
  split
  · simp only []
    apply afterResume_good
    · exact Inv.congr ((dv_logYield _ _ _).trans (dv_takeResp _ _ _)) h
    · rw [pc_of_dv ((dv_logYield _ _ _).trans (dv_takeResp _ _ _))]; exact hp
  · exact inv_leaveLoop _ _ h

theorem hCancel_good (s : EState) (r : Resp) (h : Inv s) (hp : s.pc ≠ .finished) : (hCancel s r).Good := by
  have hfin : ∀ s' : EState, dv s' = dv s → Inv (fin s' r) ∧ (fin s' r).pc ≠ .finished := by
    intro s' e
    exact ⟨Inv.congr ((dv_fin s' r).trans e) h, by rw [pc_of_dv ((dv_fin s' r).trans e)]; exact hp⟩
  unfold hCancel
  split
  · exact hfin _ rfl
  · split
    · split
      · exact hfin _ rfl
      · exact hfin _ rfl
    · split
      · exact hfin _ rfl
      · split
        · exact inv_leaveLoop _ _ (hfin s rfl).1
        · split
          · exact hfin _ rfl
          · exact hfin _ rfl

theorem pauseBlock_good (s : EState) (h : Inv s) : (pauseBlock s).Good := by
  unfold pauseBlock
  simp only []
  have h1 : Inv (pauseHooks (stopMovables (forBundlers s suspendMonitors))) := by
    apply Inv.congr _ (inv_forBundlers_suspend s h)
    rw [dv_pauseHooks, dv_stopMovables]
  split
  · exact inv_leaveLoop _ _ h1
  · rename_i s' hs
    have h2 : Inv s' := Inv.congr (dv_setState hs) h1
    exact Inv.of_data rfl rfl rfl rfl rfl h2

theorem loopTop_good (s : EState) (h : Inv s) (hp : s.pc ≠ .finished) : (loopTop s).Good := by
  unfold loopTop
  split
  · split
    · rename_i s' hs
      have e : dv s' = dv s := (dv_setState hs).trans (dv_ext rfl rfl rfl rfl rfl rfl)
      exact ⟨Inv.congr e h, by rw [pc_of_dv e]; exact hp⟩
    · exact inv_leaveLoop _ _ h
  · simp only []
    split
    · exact inv_leaveLoop _ _ h
    · rename_i s' hs
      have e : dv s' = dv s := by
        split at hs
        · exact dv_setState hs
        · cases hs; rfl
      have h' : Inv s' := Inv.congr e h
      have hp' : s'.pc ≠ .finished := by rw [pc_of_dv e]; exact hp
      split
      · exact pauseBlock_good s' h'
      · split
        · exact Inv.of_data rfl rfl rfl rfl rfl h'
        · exact afterSleep_good _ (Inv.of_data rfl rfl rfl rfl rfl h') hp'

theorem runLoop_res (n : Nat) (s : EState) (h : Inv s) (hp : s.pc ≠ .finished) : Res (runLoop n s) := by
  induction n generalizing s with
  | zero => exact res_of_live (Inv.of_data rfl rfl rfl rfl rfl h) hp
  | succ n ih =>
    unfold runLoop
    have := loopTop_good s h hp
    split
    · rename_i s' heq
      rw [heq] at this
      split
      · exact finishTask_res s' this
      · rename_i hne
        exact res_of_live this (by simpa using hne)
    · rename_i s' heq
      rw [heq] at this
      exact ih s' this.1 this.2

theorem contFlow_res (n : Nat) (f : Flow) (h : f.Good) : Res (contFlow n f) := by
  cases f with
  | loopTop s => exact runLoop_res n s h.1 h.2
  | stop s =>
    simp only [contFlow]
    split
    · exact finishTask_res s h
    · rename_i hne
      exact res_of_live h (by simpa using hne)

/-- `_run` resumed from any suspension point, with or without a pending cancellation -/
theorem advanceAt_res (n : Nat) (c : Bool) (s0 : EState) (hr : Res s0) : Res (advanceAt n c s0) := by
  obtain ⟨h, hcl⟩ := hr
  unfold advanceAt
  split
  · exact ⟨h, hcl⟩
  · exact ⟨h, hcl⟩
  · rename_i hpc
    have hp : s0.pc ≠ .finished := by rw [hpc]; intro e; cases e
    split
    · exact ⟨h, hcl⟩
    · split
      · rename_i s' hs
        have e : dv s' = dv s0 := (dv_setState hs).trans (dv_ext rfl rfl rfl rfl rfl rfl)
        exact runLoop_res _ _ (Inv.congr e h) (by rw [pc_of_dv e]; exact hp)
      · exact contFlow_res _ _ (inv_leaveLoop _ _ h)
  · rename_i hpc
    have hp : s0.pc ≠ .finished := by rw [hpc]; intro e; cases e
    split
    · exact contFlow_res _ _ (hCancel_good _ _ h hp)
    · exact contFlow_res _ _ (afterSleep_good _ h hp)
  · rename_i hpc
    have hp : s0.pc ≠ .finished := by rw [hpc]; intro e; cases e
    split
    · exact contFlow_res _ _ (hCancel_good _ _ h hp)
    · exact runLoop_res _ _ (Inv.congr (dv_fin _ _) h) (by rw [pc_of_dv (dv_fin _ _)]; exact hp)
  · rename_i hpc
    have hp : s0.pc ≠ .finished := by rw [hpc]; intro e; cases e
    split
    · exact contFlow_res _ _ (hCancel_good _ _ h hp)
    · split
      · rename_i s' hs
        exact runLoop_res _ _ (Inv.congr (dv_fin _ _) (inv_requestPause hs h))
          (by rw [pc_of_dv (dv_fin _ _), requestPause_pc hs]; exact hp)
      · exact runLoop_res _ _ (Inv.congr (dv_fin _ _) h) (by rw [pc_of_dv (dv_fin _ _)]; exact hp)
  · rename_i g hpc
    have hp : s0.pc ≠ .finished := by rw [hpc]; intro e; cases e
    split
    · exact contFlow_res _ _ (hCancel_good _ _ h hp)
    · simp only []
      split
      · exact runLoop_res _ _ (Inv.congr (dv_fin _ _) h) (by rw [pc_of_dv (dv_fin _ _)]; exact hp)
      · split
        · refine runLoop_res _ _ (Inv.congr (dv_fin _ _) (Inv.of_data rfl rfl rfl rfl rfl h)) ?_
          rw [pc_of_dv (dv_fin _ _)]; exact hp
        · exact ⟨h, hcl⟩
  · rename_i f hpc
    have hp : s0.pc ≠ .finished := by rw [hpc]; intro e; cases e
    split
    · exact contFlow_res _ _ (hCancel_good _ _ h hp)
    · split
      · exact runLoop_res _ _ (Inv.congr (dv_fin _ _) h) (by rw [pc_of_dv (dv_fin _ _)]; exact hp)
      · exact ⟨h, hcl⟩
  · rename_i hpc
    have hp : s0.pc ≠ .finished := by rw [hpc]; intro e; cases e
    split
    · exact ⟨h, hcl⟩
    · split
      · exact contFlow_res _ _ (inv_leaveLoop _ _ h)
      · simp only []
        have hr := inv_forBundlers_restore s0 h
        have hpr : (forBundlers s0 restoreMonitors).pc ≠ .finished := by rw [pc_forBundlers_restore]; exact hp
        split
        · exact contFlow_res _ _ (inv_leaveLoop _ _ hr)
        · rename_i s' hs
          have e : dv s' = dv (forBundlers s0 restoreMonitors) := by
            split at hs
            · exact dv_setState hs
            · cases hs; rfl
          have h' : Inv s' := Inv.congr e hr
          have hp' : s'.pc ≠ .finished := by rw [pc_of_dv e]; exact hpr
          split
          · exact res_of_live (Inv.of_data rfl rfl rfl rfl rfl h') (by intro e; cases e)
          · exact contFlow_res _ _ (afterSleep_good _ (Inv.of_data rfl rfl rfl rfl rfl h') hp')
  · split
    · exact finishTask_res _ (Inv.of_data rfl rfl rfl rfl rfl h)
    · exact finishTask_res _ h

theorem advance_res (n : Nat) (s : EState) (h : Res s) : Res (advance n s) := by
  unfold advance
  apply advanceAt_res
  exact ⟨Inv.of_data rfl rfl rfl rfl rfl h.1, h.2⟩

end BlueskyVerif.Engine
