/-
Helper lemmas for C35 (flow model): properties of the emitted stream datums that hold for every
document of every run -- the index / seq_num arithmetic of a single conversion, and the tiling of the
frame-based ranges of one (stream, data_key) in conversion order.
-/
import BlueskyVerif.Lemmas.C35Flow

namespace BlueskyVerif.NormFlow
open BlueskyVerif.Normalizer (reservedKeys frameCounterInit frameNextIndex frameCarryCond frameCarryVal
  framelessRange indicesOf seqNumsOf)

/-! ### lifting a property of `emitRef` to every handler -/

def noGhost (o : Out) : Prop := ∀ sd g, o ≠ .streamDatum sd (some g)
def noEvent (o : Out) : Prop := ∀ d s dt, o ≠ .event d s dt

/-- labels of one input document, given the labels `ev desc seq_num` of one event -/
def docLab {L : Type} (ev : String → Int → List L) : Doc → List L
  | .event e => ev e.desc e.seq
  | .eventPage es => es.flatMap (fun e => ev e.desc e.seq)
  | _ => []

/-- a compositional relation that holds (i) for steps which emit neither a converted stream datum nor an
    event and leave the frame counters alone, (ii) for the emission of one event document, (iii) for a
    conversion -/
structure Lift {L : Type} (ev : String → Int → List L) (P : St → List L → List Out → St → Prop) : Prop where
  comp : Comp P
  quiet : ∀ (a b : St) (outs : List Out), b.nextFrame = a.nextFrame → (∀ k ∈ a.intKeys, k ∈ b.intKeys) →
    (∀ o ∈ outs, noGhost o) → (∀ o ∈ outs, noEvent o) → P a [] outs b
  evt : ∀ (st : St) (d : String) (s : Int) (data : List (String × DVal)), P st (ev d s) [.event d s data] st
  emit : ∀ (st : St) (d : Datum) (ref : ExtRef), (emitRef st d ref (uidOf ref.datumId)).err = none →
    P st [] (emitRef st d ref (uidOf ref.datumId)).outs (emitRef st d ref (uidOf ref.datumId)).st

theorem labs_none {X L : Type} (f : St → X → Res) : ∀ (xs : List X) (st : St), labs f (fun _ _ => ([] : List L)) st xs = [] := by
  intro xs
  induction xs with
  | nil => intro _; rfl
  | cons x xs ih => intro st; simp [labs, ih]

theorem labs_const {X L : Type} (f : St → X → Res) (g : X → List L) : ∀ (xs : List X) (st : St),
    labs f (fun _ x => g x) st xs = xs.flatMap g := by
  intro xs
  induction xs with
  | nil => intro _; rfl
  | cons x xs ih => intro st; simp [labs, ih]

theorem popDatum_nextFrame {st : St} {v : DVal} {d : Datum} {st1 : St} (h : popDatum st v = some (d, st1)) :
    st1.nextFrame = st.nextFrame := (popDatum_fields h).2.1

section
variable {L : Type} {ev : String → Int → List L} {P : St → List L → List Out → St → Prop}

theorem Lift.eventItem_ok (hL : Lift ev P) (st0 : St) (filled : List (String × Bool)) (e : EventIn) (st : St)
    (kv : String × DVal) (h : (eventItem st0 filled e st kv).err = none) :
    P st [] (eventItem st0 filled e st kv).outs (eventItem st0 filled e st kv).st := by
  unfold eventItem at h ⊢
  cases hx : isExtRef st0 filled kv.1 with
  | false => simp only [Bool.not_false, ↓reduceIte]; exact hL.quiet _ _ _ rfl (fun _ hk => hk) (by simp) (by simp)
  | true =>
    simp only [hx, Bool.not_true, Bool.false_eq_true, ↓reduceIte] at h ⊢
    cases hp : popDatum st kv.2 with
    | none => simp only; exact hL.quiet _ _ _ rfl (fun _ hk => hk) (by simp) (by simp)
    | some p =>
      obtain ⟨d, st1⟩ := p
      simp only [hp] at h ⊢
      have h1 : P st [] [] st1 := hL.quiet _ _ _ (popDatum_nextFrame hp)
        (by rw [(popDatum_fields hp).2.2.1]; exact fun _ hk => hk) (by simp) (by simp)
      have h2 := hL.emit st1 d (mkRef e kv) h
      exact hL.comp.app h1 h2

theorem Lift.handleEvent_ok (hL : Lift ev P) (st : St) (e : EventIn) (h : (handleEvent st e).err = none) :
    P st (ev e.desc e.seq) (handleEvent st e).outs (handleEvent st e).st := by
  unfold handleEvent at h ⊢
  simp only at h ⊢
  have h0 : ({ st := st, outs := [Out.event e.desc e.seq
      ((renameAll e.data).filter (fun kv => inEventKeys st (renameAll e.filled) kv.1))] } : Res).err = none := rfl
  obtain ⟨_, h2⟩ := andThen_err_none.mp h
  rw [andThen_outs h0, andThen_st h0]
  have h3 := seqFold_spec hL.comp (eventItem st (renameAll e.filled) e) (fun _ _ => ([] : List L))
    (renameAll e.data) st (fun st' x _ hx => hL.eventItem_ok st (renameAll e.filled) e st' x hx) h2
  rw [labs_none] at h3
  have := hL.comp.app (hL.evt st e.desc e.seq
    ((renameAll e.data).filter (fun kv => inEventKeys st (renameAll e.filled) kv.1))) h3
  simpa using this

theorem Lift.stopItem_ok (hL : Lift ev P) (st : St) (ref : ExtRef) (h : (stopItem st ref).err = none) :
    P st [] (stopItem st ref).outs (stopItem st ref).st := by
  unfold stopItem at h ⊢
  cases hp : popDatum st ref.datumId with
  | none => simp [hp] at h
  | some p =>
    obtain ⟨d, st1⟩ := p
    simp only [hp] at h ⊢
    exact hL.comp.app (hL.quiet _ _ [] (popDatum_nextFrame hp)
      (by rw [(popDatum_fields hp).2.2.1]; exact fun _ hk => hk) (by simp) (by simp)) (hL.emit st1 d ref h)

theorem Lift.handleStop_ok (hL : Lift ev P) (st : St) (h : (handleStop st).err = none) :
    P st [] (handleStop st).outs (handleStop st).st := by
  unfold handleStop at h ⊢
  obtain ⟨h1, _⟩ := andThen_err_none.mp h
  rw [andThen_outs h1, andThen_st h1]
  have h3 := seqFold_spec hL.comp stopItem (fun _ _ => ([] : List L)) st.extRefs st
    (fun st' x _ hx => hL.stopItem_ok st' x hx) h1
  rw [labs_none] at h3
  exact hL.comp.app h3 (hL.quiet _ _ _ rfl (fun _ hk => hk)
    (by intro o ho; simp at ho; subst ho; intro sd g; simp) (by intro o ho; simp at ho; subst ho; intro d s dt; simp))

end

theorem foldl_handleDatum_nextFrame : ∀ (ds : List Datum) (s : St), (ds.foldl handleDatum s).nextFrame = s.nextFrame := by
  intro ds
  induction ds with
  | nil => intro s; rfl
  | cons x xs ih => intro s; simp only [List.foldl_cons]; rw [ih]; rfl

theorem foldl_handleDatum_intKeys : ∀ (ds : List Datum) (s : St), (ds.foldl handleDatum s).intKeys = s.intKeys := by
  intro ds
  induction ds with
  | nil => intro s; rfl
  | cons x xs ih => intro s; simp only [List.foldl_cons]; rw [ih]; rfl

theorem mem_addKeys_left : ∀ (ks s : List String) (k : String), k ∈ s → k ∈ addKeys s ks := by
  intro ks
  induction ks with
  | nil => intro s k hk; exact hk
  | cons x ks ih =>
    intro s k hk
    simp only [addKeys, List.foldl_cons]
    apply ih
    split
    · exact hk
    · exact List.mem_append_left _ hk

theorem mem_addKeys_right : ∀ (ks s : List String) (k : String), k ∈ ks → k ∈ addKeys s ks := by
  intro ks
  induction ks with
  | nil => intro s k hk; simp at hk
  | cons x ks ih =>
    intro s k hk
    simp only [addKeys, List.foldl_cons]
    rcases List.mem_cons.mp hk with h | h
    · subst h
      apply mem_addKeys_left
      split
      · rename_i hc; simpa using hc
      · simp
    · exact ih _ k h

section
variable {L : Type} {ev : String → Int → List L} {P : St → List L → List Out → St → Prop}

theorem Lift.step_ok (hL : Lift ev P) (st : St) (d : Doc) (h : (step st d).err = none) :
    P st (docLab ev d) (step st d).outs (step st d).st := by
  cases d with
  | stop => exact hL.handleStop_ok st h
  | start =>
    exact hL.quiet _ _ _ rfl (fun _ hk => hk) (by intro o ho; simp [step] at ho; subst ho; intro sd g; simp)
      (by intro o ho; simp [step] at ho; subst ho; intro d s dt; simp)
  | descriptor dd =>
    simp only [step, docLab] at h ⊢
    cases hc : descClash dd with
    | true => simp [handleDescriptor, hc] at h
    | false =>
      simp only [handleDescriptor, hc, Bool.false_eq_true, ↓reduceIte]
      exact hL.quiet _ _ _ rfl (fun k hk => mem_addKeys_left _ _ k hk)
        (by intro o ho; simp at ho; subst ho; intro sd g; simp) (by intro o ho; simp at ho; subst ho; intro d s dt; simp)
  | resource uid valid =>
    simp only [step, docLab] at h ⊢
    cases valid with
    | false => simp at h
    | true =>
      simp only [Bool.not_true, Bool.false_eq_true, ↓reduceIte]
      exact hL.quiet _ _ _ rfl (fun _ hk => hk) (by simp) (by simp)
  | streamResource uid dk valid =>
    simp only [step, docLab] at h ⊢
    cases valid with
    | false => simp at h
    | true =>
      simp only [Bool.not_true, Bool.false_eq_true, ↓reduceIte]
      exact hL.quiet _ _ _ rfl (fun _ hk => hk) (by intro o ho; simp at ho; subst ho; intro sd g; simp)
        (by intro o ho; simp at ho; subst ho; intro d s dt; simp)
  | datum dd => exact hL.quiet _ _ _ rfl (fun _ hk => hk) (by simp [step]) (by simp [step])
  | datumPage ds =>
    exact hL.quiet _ _ _ (by simp [step, foldl_handleDatum_nextFrame])
      (by simp only [step, foldl_handleDatum_intKeys]; exact fun _ hk => hk) (by simp [step]) (by simp [step])
  | event e => exact hL.handleEvent_ok st e h
  | eventPage es =>
    simp only [step, docLab] at h ⊢
    have h3 := seqFold_spec hL.comp handleEvent (fun _ e => ev e.desc e.seq) es st
      (fun st' x _ hx => hL.handleEvent_ok st' x hx) h
    rwa [labs_const] at h3
  | streamDatum sd =>
    exact hL.quiet _ _ _ rfl (fun _ hk => hk) (by intro o ho; simp [step] at ho; subst ho; intro sd g; simp)
      (by intro o ho; simp [step] at ho; subst ho; intro d s dt; simp)

theorem Lift.run_ok (hL : Lift ev P) (st : St) (ds : List Doc) (h : (runFrom st ds).err = none) :
    P st (ds.flatMap (docLab ev)) (runFrom st ds).outs (runFrom st ds).st := by
  have h3 := seqFold_spec hL.comp step (fun _ d => docLab ev d) ds st (fun st' x _ hx => hL.step_ok st' x hx) h
  rwa [labs_const] at h3

end

/-! ### every converted stream datum has the right index arithmetic -/

/-- what C35 demands of one converted stream datum, in terms of the reference that caused it -/
def GoodSD (sd : SDat) (g : Ghost) : Prop :=
  sd.uid = uidOf g.src.datumId ∧ sd.desc = g.src.desc ∧ sd.s0 = sd.i0 + 1 ∧ sd.s1 = sd.i1 + 1 ∧
  (g.frame = none → sd.i0 = g.src.seq - 1 ∧ sd.i1 = g.src.seq) ∧
  (∀ f, g.frame = some f → -1 ≤ f → sd.i0 ≤ sd.i1)

def GoodOut : Out → Prop
  | .streamDatum sd (some g) => GoodSD sd g
  | _ => True

theorem convert_ranges {st : St} {d : Datum} {ref : ExtRef} {st' : St} {i0 i1 : Int} {name : String}
    (h : convert st d ref = .ok (st', i0, i1, name)) :
    (d.frame = none → i0 = ref.seq - 1 ∧ i1 = ref.seq) ∧ (∀ f, d.frame = some f → -1 ≤ f → i0 ≤ i1) := by
  unfold convert at h
  cases hf : d.frame with
  | none =>
    simp only [hf, framelessRange, Except.ok.injEq, Prod.mk.injEq] at h
    obtain ⟨_, h1, h2, _⟩ := h
    exact ⟨fun _ => ⟨h1.symm, h2.symm⟩, fun f hf' => by simp at hf'⟩
  | some f =>
    simp only [hf] at h
    cases hl : st.descName.lookup ref.desc with
    | none => simp [hl] at h
    | some nm =>
      simp only [hl, Except.ok.injEq, Prod.mk.injEq] at h
      obtain ⟨_, h1, h2, _⟩ := h
      refine ⟨fun hn => by simp at hn, fun f' hf' hge => ?_⟩
      simp only [Option.some.injEq] at hf'
      subst hf'
      subst h1
      subst h2
      simp only [frameCarryCond, frameCarryVal, frameNextIndex]
      generalize ((List.lookup (nm, ref.key) st.nextFrame).getD frameCounterInit) = c
      by_cases hc : c.1 + (f + 1) < c.1 + c.2 <;> simp [hc] <;> omega

def PG (_ : St) (_ : List Unit) (outs : List Out) (_ : St) : Prop := ∀ o ∈ outs, GoodOut o

def noLab : String → Int → List Unit := fun _ _ => []

theorem PG_lift : Lift noLab PG where
  comp := ⟨fun _ o ho => by simp at ho, fun h1 h2 o ho => by
    simp only [List.mem_append] at ho
    rcases ho with ho | ho
    · exact h1 o ho
    · exact h2 o ho⟩
  quiet := by
    intro a b outs _ _ hq _ o ho
    cases o with
    | streamDatum sd g =>
      cases g with
      | none => trivial
      | some g => exact absurd rfl (hq _ ho sd g)
    | _ => trivial
  evt := by intro st d s data o ho; simp at ho; subst ho; trivial
  emit := by
    intro st d ref h o ho
    obtain ⟨st', i0, i1, name, pre, sd, hc, hout, _, hsd, _, _, _, hpre⟩ := emitRef_ok h
    rw [hout] at ho
    simp only [List.mem_append, List.mem_singleton] at ho
    rcases ho with ho | ho
    · obtain ⟨u, k, hu⟩ := hpre o ho
      subst hu; trivial
    · subst ho
      obtain ⟨r1, r2⟩ := convert_ranges hc
      subst hsd
      show GoodSD _ _
      exact ⟨rfl, rfl, rfl, rfl, r1, r2⟩

/-- every stream datum that the normalizer converts from a datum, in any run, has
    `seq_nums = indices + 1`, the uid of its datum, the descriptor of the referencing event, and
    indices `[seq_num - 1, seq_num)` when the datum has no `frame` -/
theorem all_good (ds : List Doc) (h : (run ds).err = none) : ∀ o ∈ (run ds).outs, GoodOut o :=
  PG_lift.run_ok {} ds h

/-! ### frame-based ranges of one (stream name, data_key) tile in conversion order -/

def framedOf (nk : String × String) : Out → List (Int × Int)
  | .streamDatum sd (some g) => if g.frame.isSome && (g.name == nk.1 && g.src.key == nk.2) then [(sd.i0, sd.i1)] else []
  | _ => []

/-- the frame-based index ranges emitted for stream `nk.1`, data key `nk.2`, in emission order -/
def framed (nk : String × String) (outs : List Out) : List (Int × Int) := outs.flatMap (framedOf nk)

/-- consecutive ranges: each starts where the previous one stopped -/
def tile : Int → List (Int × Int) → Prop
  | _, [] => True
  | s, (a, b) :: r => a = s ∧ tile b r

def tileEnd : Int → List (Int × Int) → Int
  | s, [] => s
  | _, (_, b) :: r => tileEnd b r

theorem tile_append (s : Int) (l1 l2 : List (Int × Int)) :
    tile s (l1 ++ l2) ↔ tile s l1 ∧ tile (tileEnd s l1) l2 := by
  induction l1 generalizing s with
  | nil => simp [tile, tileEnd]
  | cons x l1 ih => obtain ⟨a, b⟩ := x; simp [tile, tileEnd, ih, and_assoc]

theorem tileEnd_append (s : Int) (l1 l2 : List (Int × Int)) : tileEnd s (l1 ++ l2) = tileEnd (tileEnd s l1) l2 := by
  induction l1 generalizing s with
  | nil => rfl
  | cons x l1 ih => obtain ⟨a, b⟩ := x; simp [tileEnd, ih]

/-- `sum(_next_index.values())` -/
def counterSum (st : St) (nk : String × String) : Int :=
  let c := (st.nextFrame.lookup nk).getD frameCounterInit
  c.1 + c.2

theorem lookup_alErase_ne {α β : Type} [BEq α] [LawfulBEq α] (k k' : α) (hne : k' ≠ k) :
    ∀ (l : List (α × β)), (alErase k l).lookup k' = l.lookup k' := by
  intro l
  induction l with
  | nil => rfl
  | cons x l ih =>
    obtain ⟨a, b⟩ := x
    simp only [alErase, List.filter_cons]
    by_cases hak : (a == k) = true
    · have : a = k := by simpa using hak
      subst this
      have hk : (k' == a) = false := by simpa using hne
      simp only [hak, Bool.not_true, Bool.false_eq_true, ↓reduceIte, List.lookup_cons, hk]
      exact ih
    · simp only [hak, Bool.not_false, ↓reduceIte, List.lookup_cons]
      cases hka : k' == a
      · exact ih
      · rfl

theorem lookup_alSet_self {α β : Type} [BEq α] [LawfulBEq α] (k : α) (v : β) (l : List (α × β)) :
    (alSet k v l).lookup k = some v := by
  simp [alSet]

theorem lookup_alSet_ne {α β : Type} [BEq α] [LawfulBEq α] (k k' : α) (v : β) (l : List (α × β)) (hne : k' ≠ k) :
    (alSet k v l).lookup k' = l.lookup k' := by
  have hk : (k' == k) = false := by simpa using hne
  simp only [alSet, List.lookup_cons, hk]
  exact lookup_alErase_ne k k' hne l

def PT (nk : String × String) (a : St) (_ : List Unit) (outs : List Out) (b : St) : Prop :=
  tile (counterSum a nk) (framed nk outs) ∧ counterSum b nk = tileEnd (counterSum a nk) (framed nk outs)

theorem framed_append (nk : String × String) (a b : List Out) : framed nk (a ++ b) = framed nk a ++ framed nk b := by
  simp [framed]

theorem framed_noGhost (nk : String × String) (outs : List Out) (h : ∀ o ∈ outs, noGhost o) : framed nk outs = [] := by
  induction outs with
  | nil => rfl
  | cons o rest ih =>
    have hrest := ih (fun o' ho' => h o' (by simp [ho']))
    have ho := h o (by simp)
    simp only [framed, List.flatMap_cons] at hrest ⊢
    rw [hrest]
    cases o with
    | streamDatum sd g =>
      cases g with
      | none => simp [framedOf]
      | some g => exact absurd rfl (ho sd g)
    | _ => simp [framedOf]

theorem PT_lift (nk : String × String) : Lift noLab (PT nk) where
  comp := ⟨fun st => ⟨by simp [framed, tile], by simp [framed, tileEnd]⟩, by
    intro a b c l1 l2 o1 o2 h1 h2
    obtain ⟨t1, e1⟩ := h1
    obtain ⟨t2, e2⟩ := h2
    rw [e1] at t2 e2
    exact ⟨by rw [framed_append, tile_append]; exact ⟨t1, t2⟩, by rw [framed_append, tileEnd_append]; exact e2⟩⟩
  quiet := by
    intro a b outs hnf _ hq _
    have : counterSum b nk = counterSum a nk := by simp [counterSum, hnf]
    rw [PT, framed_noGhost nk outs hq]
    exact ⟨trivial, this⟩
  evt := by
    intro st d s data
    rw [PT, framed_noGhost nk _ (by intro o ho; simp at ho; subst ho; intro sd g; simp)]
    exact ⟨trivial, rfl⟩
  emit := by
    intro st d ref h
    obtain ⟨st', i0, i1, name, pre, sd, hc, hout, _, hsd, _, hnf, _, hpre⟩ := emitRef_ok h
    have hpre' : framed nk pre = [] := framed_noGhost nk pre (by
      intro o ho sd g
      obtain ⟨u, k, hu⟩ := hpre o ho
      subst hu; simp)
    have hcs : counterSum (emitRef st d ref (uidOf ref.datumId)).st nk = counterSum st' nk := by
      simp [counterSum, hnf]
    rw [PT, hout, framed_append, hpre', hcs]
    subst hsd
    simp only [List.nil_append, framed, List.flatMap_cons, List.flatMap_nil, List.append_nil, framedOf, indicesOf]
    unfold convert at hc
    cases hf : d.frame with
    | none =>
      simp only [hf, Except.ok.injEq, Prod.mk.injEq] at hc
      obtain ⟨h1, _⟩ := hc
      subst h1
      simp [tile, tileEnd]
    | some f =>
      simp only [hf] at hc
      cases hl : st.descName.lookup ref.desc with
      | none => simp [hl] at hc
      | some nm =>
        simp only [hl, Except.ok.injEq, Prod.mk.injEq] at hc
        obtain ⟨h1, h2, h3, h4⟩ := hc
        subst h4
        by_cases hk : (nm, ref.key) = nk
        · subst hk
          subst h1
          simp only [Option.isSome_some, beq_self_eq_true, Bool.and_self, ↓reduceIte, tile, tileEnd, and_true]
          refine ⟨?_, ?_⟩
          · rw [← h2]; rfl
          · simp only [counterSum, lookup_alSet_self, Option.getD_some]
            rw [← h3]
        · have hne : ¬ ((nm == nk.1 && ref.key == nk.2) = true) := by
            intro hh
            simp only [Bool.and_eq_true, beq_iff_eq] at hh
            exact hk (by obtain ⟨a, b⟩ := nk; simp_all)
          subst h1
          simp only [Option.isSome_some, Bool.true_and, hne, Bool.false_eq_true, ↓reduceIte, tile, tileEnd, true_and]
          simp only [counterSum]
          rw [lookup_alSet_ne _ _ _ _ (Ne.symm hk)]

/-- in ANY run, the frame-based ranges of one stream / data key, in the order the datums are converted,
    start at 0 and each starts where the previous stopped -/
theorem framed_tile (nk : String × String) (ds : List Doc) (h : (run ds).err = none) :
    tile 0 (framed nk (run ds).outs) := by
  have := ((PT_lift nk).run_ok {} ds h).1
  simpa [counterSum, frameCounterInit, run] using this

/-! ### the set of internal keys only grows -/

def PM (a : St) (_ : List Unit) (_ : List Out) (b : St) : Prop := ∀ k ∈ a.intKeys, k ∈ b.intKeys

theorem PM_lift : Lift noLab PM where
  comp := ⟨fun _ _ hk => hk, fun h1 h2 k hk => h2 k (h1 k hk)⟩
  quiet := fun _ _ _ _ h _ _ => h
  evt := fun _ _ _ _ _ hk => hk
  emit := by
    intro st d ref h k hk
    obtain ⟨st', i0, i1, name, pre, sd, hc, _, _, _, _, _, hik, _⟩ := emitRef_ok h
    rw [hik, (convert_fields hc).2.1]
    exact hk

/-- the first conversion for a stream / data key (counters still at their initial value) covers
    frames `[0, frame + 1)` -/
theorem first_frame_range {st : St} {d : Datum} {ref : ExtRef} {st' : St} {i0 i1 : Int} {name : String} {f : Int}
    (h : convert st d ref = .ok (st', i0, i1, name)) (hf : d.frame = some f) (h0 : 0 ≤ f)
    (hnew : st.nextFrame.lookup (name, ref.key) = none) : i0 = 0 ∧ i1 = f + 1 := by
  unfold convert at h
  simp only [hf] at h
  cases hl : st.descName.lookup ref.desc with
  | none => simp [hl] at h
  | some nm =>
    simp only [hl, Except.ok.injEq, Prod.mk.injEq] at h
    obtain ⟨_, h1, h2, h3⟩ := h
    subst h3
    simp only [hnew, Option.getD_none, frameCounterInit, frameCarryCond, frameCarryVal, frameNextIndex] at h1 h2
    have hc : ¬ ((0 : Int) + (f + 1) < 0 + 0) := by omega
    simp [hc] at h2
    omega

/-! ### every input event is re-emitted exactly once, in order -/

def PE (_ : St) (evs : List (String × Int)) (outs : List Out) (_ : St) : Prop := outs.flatMap eventOf = evs

theorem flatMap_eventOf_noEvent (outs : List Out) (h : ∀ o ∈ outs, noEvent o) : outs.flatMap eventOf = [] := by
  induction outs with
  | nil => rfl
  | cons o rest ih =>
    simp only [List.flatMap_cons, ih (fun o' ho' => h o' (by simp [ho'])), List.append_nil]
    have ho := h o (by simp)
    cases o with
    | event d s dt => exact absurd rfl (ho d s dt)
    | _ => rfl

theorem PE_lift : Lift (fun d s => [(d, s)]) PE where
  comp := ⟨fun _ => rfl, by
    intro a b c l1 l2 o1 o2 h1 h2
    simp only [PE, List.flatMap_append] at *
    rw [h1, h2]⟩
  quiet := fun _ _ outs _ _ _ he => flatMap_eventOf_noEvent outs he
  evt := fun _ _ _ _ => rfl
  emit := by
    intro st d ref h
    obtain ⟨st', i0, i1, name, pre, sd, _, hout, _, _, _, _, _, hpre⟩ := emitRef_ok h
    rw [PE, hout]
    apply flatMap_eventOf_noEvent
    intro o ho
    simp only [List.mem_append, List.mem_singleton] at ho
    rcases ho with ho | ho
    · obtain ⟨u, k, hu⟩ := hpre o ho
      subst hu; intro d s dt; simp
    · subst ho; intro d s dt; simp

/-- the (descriptor, seq_num) of the event documents emitted in a run = those of the input events
    (pages unpacked), in the same order, each exactly once -/
theorem events_in_order (ds : List Doc) (h : (run ds).err = none) :
    (run ds).outs.flatMap eventOf = ds.flatMap (docLab (fun d s => [(d, s)])) :=
  PE_lift.run_ok {} ds h

/-- a converted frame-based range is NON-EMPTY unless the datum repeats the frame number the counter
    already stands at (`frame + 1 = index`): see Counterexamples/C35.lean for that case -/
theorem frame_range_nonempty {st : St} {d : Datum} {ref : ExtRef} {st' : St} {i0 i1 : Int} {name : String} {f : Int}
    (h : convert st d ref = .ok (st', i0, i1, name)) (hf : d.frame = some f) (h0 : 0 ≤ f)
    (hne : ((st.nextFrame.lookup (name, ref.key)).getD frameCounterInit).2 ≠ f + 1) : i0 < i1 := by
  unfold convert at h
  simp only [hf] at h
  cases hl : st.descName.lookup ref.desc with
  | none => simp [hl] at h
  | some nm =>
    simp only [hl, Except.ok.injEq, Prod.mk.injEq] at h
    obtain ⟨_, h1, h2, h3⟩ := h
    subst h3
    subst h1
    subst h2
    simp only [frameCarryCond, frameCarryVal, frameNextIndex]
    generalize ((List.lookup (nm, ref.key) st.nextFrame).getD frameCounterInit) = c at hne
    by_cases hc : c.1 + (f + 1) < c.1 + c.2 <;> simp [hc] <;> omega

end BlueskyVerif.NormFlow
