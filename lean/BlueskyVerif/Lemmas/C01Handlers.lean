/-
C01: the command handlers that touch documents / bundlers / subscriptions preserve `Inv`.
-/
import BlueskyVerif.Lemmas.C01Cmd

namespace BlueskyVerif.Engine

theorem assocGet_none_imp {β} {k : String} {l : List (String × β)} (h : assocGet k l = none) : ∀ p ∈ l, p.1 ≠ k := by
  induction l with
  | nil => intro p hp; cases hp
  | cons q l ih =>
    obtain ⟨a, b⟩ := q
    simp only [assocGet] at h
    by_cases h1 : a = k
    · simp [h1] at h
    · simp only [h1, if_false] at h
      intro p hp
      rcases List.mem_cons.mp hp with e | e
      · subst e; exact h1
      · exact ih h p e

theorem subsOf_of_devs {s s' : EState} (e : s'.devs = s.devs) : subsOf s' = subsOf s := by
  funext n; unfold subsOf devOf; rw [e]

theorem Inv.of_parts {s' : EState} (docs : List Doc) (nr : Nat) (subs : String → List (Nat × String)) (bs : List BV)
    (keys : List String) (e1 : s'.docs = docs) (e2 : s'.nextRun = nr) (e3 : subsOf s' = subs) (e4 : bvs s' = bs)
    (e5 : keysOf s' = keys) (h : DocInv docs nr subs bs) (ho : ∀ x ∈ bs, x.runOpen = true)
    (hk : keys.Pairwise (· ≠ ·)) : Inv s' := by
  unfold Inv InvV dv
  simp only [e1, e2, e3, e4, e5]
  exact ⟨h, ho, hk⟩

/-! ## bundler primitives on a registered open bundler -/

theorem prepareStream_fst (s : EState) (b : Bundler) (st : String) (o : List String) :
    (prepareStream s b st o).1 = s.emit { kind := "descriptor", run := b.runId, stream := st, keys := o } := rfl

theorem bview_prepareStream (s : EState) (b : Bundler) (st : String) (o : List String) :
    bview (prepareStream s b st o).2 = { bview b with descs := assocSet st o b.descriptors } := by
  unfold prepareStream
  simp only []
  split <;> rfl

theorem DI_prepareStream {s : EState} {pre post : List BV} (b : Bundler) (st : String) (o : List String)
    (ho : b.runOpen = true) (h : DI s (pre ++ bview b :: post)) :
    DI (prepareStream s b st o).1 (pre ++ bview (prepareStream s b st o).2 :: post) := by
  rw [prepareStream_fst, bview_prepareStream]
  have hmem : bview b ∈ pre ++ bview b :: post := by simp
  have h1 := DI_emit_open h hmem ho { kind := "descriptor", run := b.runId, stream := st, keys := o } rfl (Or.inl rfl)
  refine DocInv.replace h1 _ rfl rfl ?_
  intro st' hk
  rcases hk with hk | hk | hk
  · have hk' : (assocGet st' (assocSet st o b.descriptors)).isSome = true := hk
    rw [assocGet_assocSet] at hk'
    split at hk'
    · rename_i e; subst e
      exact Or.inr (described_last s.docs { kind := "descriptor", run := b.runId, stream := st', keys := o } rfl)
    · exact Or.inl (Or.inl hk')
  · exact Or.inl (Or.inr (Or.inl hk))
  · exact Or.inl (Or.inr (Or.inr hk))

theorem DI_emitEvent {s : EState} {pre post : List BV} (b : Bundler) (st : String) (data : List (String × Int)) (note : String)
    (ho : b.runOpen = true) (hd : described s.docs b.runId st) (h : DI s (pre ++ bview b :: post)) :
    DI (emitEvent s b st data note).1 (pre ++ bview (emitEvent s b st data note).2 :: post) := by
  have hmem : bview b ∈ pre ++ bview b :: post := by simp
  exact DI_emit_open h hmem ho { kind := "event", run := b.runId, stream := st, seq := b.counter st, data := data, note := note } rfl
    (Or.inr ⟨rfl, hd⟩)

/-- update of the bundler registered under the key of `m`, after operations that leave `bundlers` alone -/
theorem inv_update {s : EState} {m : Msg} {b : Bundler} (hi : Inv s) (hb : getBundler s m = some b)
    (s' : EState) (b' : Bundler) (hbs : s'.bundlers = s.bundlers)
    (hstep : ∀ pre post, DI s (pre ++ bview b :: post) → DI s' (pre ++ bview b' :: post))
    (ho : b'.runOpen = b.runOpen) : Inv (putBundler s' m b') := by
  obtain ⟨pre, post, e1, e2, _⟩ := assocGet_split hb
  have hbv : bvs s = pre.map (fun kb => bview kb.2) ++ bview b :: post.map (fun kb => bview kb.2) := by
    simp [bvs, e1]
  have hbv' : bvs (putBundler s' m b') = pre.map (fun kb => bview kb.2) ++ bview b' :: post.map (fun kb => bview kb.2) := by
    unfold bvs putBundler
    simp only [hbs, e2 b']
    simp
  have hk' : keysOf (putBundler s' m b') = keysOf s := by
    unfold keysOf putBundler
    simp only [hbs, e2 b']
    rw [e1]; simp
  have h0 : DI s (bvs s) := hi.1
  rw [hbv] at h0
  refine Inv.of_parts s'.docs s'.nextRun (subsOf s') _ _ rfl rfl rfl hbv' hk' (hstep _ _ h0) ?_ hi.2.2
  intro x hx
  have hall : ∀ x ∈ bvs s, x.runOpen = true := hi.2.1
  rw [hbv] at hall
  rcases List.mem_append.mp hx with hx | hx
  · exact hall x (List.mem_append_left _ hx)
  · rcases List.mem_cons.mp hx with hx | hx
    · subst hx
      show b'.runOpen = true
      rw [ho]; exact hall (bview b) (by simp)
    · exact hall x (List.mem_append_right _ (List.mem_cons_of_mem _ hx))

theorem open_of_get {s : EState} {m : Msg} {b : Bundler} (hi : Inv s) (hb : getBundler s m = some b) : b.runOpen = true :=
  all_open_of_inv hi (runKey m, b) (assocGet_mem hb)

/-! ## open_run / close_run -/

theorem cmdOpenRun_shape (s : EState) (m : Msg) (hn : ¬ (getBundler s m).isSome = true) :
    ∃ (b : Bundler) (start : Doc) (extra : List Doc),
      (cmdOpenRun s m).1.docs = s.docs ++ [start] ++ extra ∧ (cmdOpenRun s m).1.nextRun = s.nextRun + 1 ∧
      (cmdOpenRun s m).1.devs = s.devs ∧ (cmdOpenRun s m).1.bundlers = s.bundlers ++ [(runKey m, b)] ∧
      (cmdOpenRun s m).1.pc = s.pc ∧
      start.kind = "start" ∧ start.run = s.nextRun ∧ b.runId = s.nextRun ∧ b.runOpen = true ∧ b.descriptors = [] ∧
      b.monitors = [] ∧
      ((b.recordInt = false ∧ extra = []) ∨
       (b.recordInt = true ∧ ∃ d, extra = [d] ∧ d.kind = "descriptor" ∧ d.run = s.nextRun ∧ d.stream = "interruptions")) := by
  unfold cmdOpenRun
  rw [if_neg hn]
  simp only []
  split
  · exact ⟨_, _, [_], rfl, rfl, rfl, rfl, rfl, rfl, rfl, rfl, rfl, rfl, rfl, Or.inr ⟨rfl, _, rfl, rfl, rfl, rfl⟩⟩
  · exact ⟨_, _, [], (List.append_nil _).symm, rfl, rfl, rfl, rfl, rfl, rfl, rfl, rfl, rfl, rfl, Or.inl ⟨rfl, rfl⟩⟩

theorem cmdOpenRun_rejected (s : EState) (m : Msg) (h : (getBundler s m).isSome = true) :
    cmdOpenRun s m = (s, .raised .illegalSeq) := by
  unfold cmdOpenRun; rw [if_pos h]

theorem inv_cmdOpenRun (s : EState) (m : Msg) (h : Inv s) : Inv (cmdOpenRun s m).1 := by
  by_cases hn : (getBundler s m).isSome = true
  · rw [cmdOpenRun_rejected s m hn]; exact h
  · obtain ⟨b, start, extra, e1, e2, e3, e4, _, k1, k2, k3, k4, k5, k6, hx⟩ := cmdOpenRun_shape s m hn
    have hnone : assocGet (runKey m) s.bundlers = none := by
      have : getBundler s m = none := by
        cases hg : getBundler s m with
        | none => rfl
        | some x => rw [hg] at hn; exact absurd rfl hn
      exact this
    have hkey := assocGet_none_imp hnone
    have hnk : ∀ st, ¬ knows ({ runId := s.nextRun, runOpen := true, descs := [], recordInt := false, monitors := [] } : BV) st := by
      intro st hk
      rcases hk with hk | ⟨hk, _⟩ | ⟨_, hk⟩
      · simp [assocGet] at hk
      · cases hk
      · cases hk
    have h1 := DocInv.openRun h.1 start k1 k2 _ rfl rfl hnk
    refine Inv.of_parts (s.docs ++ [start] ++ extra) (s.nextRun + 1) (subsOf s) (bvs s ++ [bview b]) (keysOf s ++ [runKey m])
      e1 e2 (subsOf_of_devs e3) (by unfold bvs; rw [e4]; simp) (by unfold keysOf; rw [e4]; simp) ?_ ?_ ?_
    · rcases hx with ⟨r1, r2⟩ | ⟨r1, d, r2, d1, d2, d3⟩
      · subst r2
        rw [List.append_nil]
        have : bview b = { runId := s.nextRun, runOpen := true, descs := [], recordInt := false, monitors := [] } := by
          simp [bview, k3, k4, k5, k6, r1]
        rw [this]; exact h1
      · subst r2
        have h2 := DocInv.emit_open h1 (v := { runId := s.nextRun, runOpen := true, descs := [], recordInt := false, monitors := [] })
          (by simp) rfl d d2 (Or.inl d1)
        refine DocInv.replace (post := []) h2 (bview b) k3 k4 ?_
        intro st hk
        rcases hk with hk | ⟨_, hk⟩ | ⟨_, hk⟩
        · have : (assocGet st b.descriptors).isSome = true := hk
          rw [k5] at this; simp [assocGet] at this
        · subst hk
          exact Or.inr ⟨d, by simp, d1, d2, d3⟩
        · have : _ ∈ b.monitors := hk
          rw [k6] at this; cases this
    · intro x hx
      rcases List.mem_append.mp hx with hx | hx
      · exact h.2.1 x hx
      · simp only [List.mem_singleton] at hx; subst hx; exact k4
    · rw [List.pairwise_append]
      refine ⟨h.2.2, List.pairwise_singleton _ _, ?_⟩
      intro a ha b' hb'
      simp only [List.mem_singleton] at hb'; subst hb'
      obtain ⟨p, hp, rfl⟩ := List.mem_map.mp ha
      exact hkey p hp

theorem inv_cmdCloseRun (s : EState) (m : Msg) (h : Inv s) : Inv (cmdCloseRun s m).1 := by
  unfold cmdCloseRun
  split
  · exact h
  · rename_i b hb
    split
    · exact h
    · rename_i hopen
      have ho : b.runOpen = true := by simpa using hopen
      simp only []
      obtain ⟨pre, post, e1, _, e3⟩ := assocGet_split hb
      have h0 : DI s (bvs s) := h.1
      have hbv : bvs s = pre.map (fun kb => bview kb.2) ++ bview b :: post.map (fun kb => bview kb.2) := by
        simp [bvs, e1]
      rw [hbv] at h0
      have key : Inv { (closeRunDoc s b (m.name.getD "success") "").1 with
          bundlers := assocErase (runKey m) (closeRunDoc s b (m.name.getD "success") "").1.bundlers } := by
        refine Inv.of_parts _ _ _ (pre.map (fun kb => bview kb.2) ++ post.map (fun kb => bview kb.2))
          (pre.map (·.1) ++ post.map (·.1)) rfl rfl rfl ?_ ?_
          (DocInv.dropClosed (DI_closeRunDoc b _ _ ho h0) rfl) ?_ ?_
        · unfold bvs; simp only [closeRunDoc_bundlers, e3]; simp
        · unfold keysOf; simp only [closeRunDoc_bundlers, e3]; simp
        · intro x hx
          have hall : ∀ x ∈ bvs s, x.runOpen = true := h.2.1
          rw [hbv] at hall
          rcases List.mem_append.mp hx with hx | hx
          · exact hall x (List.mem_append_left _ hx)
          · exact hall x (List.mem_append_right _ (List.mem_cons_of_mem _ hx))
        · have hk := h.2.2
          unfold dv keysOf at hk
          simp only [e1, List.map_append, List.map_cons] at hk
          rw [List.pairwise_append] at hk ⊢
          obtain ⟨k1, k2, k3⟩ := hk
          rw [List.pairwise_cons] at k2
          exact ⟨k1, k2.2, fun a ha b' hb' => k3 a ha b' (List.mem_cons_of_mem _ hb')⟩
      split
      · exact Inv.congr (dv_resetCheckpointMeth _) key
      · exact key

/-! ## bundle commands -/

theorem inv_cmdCreate (s : EState) (m : Msg) (h : Inv s) : Inv (cmdCreate s m).1 := by
  unfold cmdCreate
  split
  · exact h
  · rename_i b hb
    split
    · exact h
    · split <;> exact Inv.congr (dv_putBundler hb _ rfl) h

theorem inv_cmdDrop (s : EState) (m : Msg) (h : Inv s) : Inv (cmdDrop s m).1 := by
  unfold cmdDrop
  split
  · exact h
  · rename_i b hb
    split
    · exact h
    · exact Inv.congr (dv_putBundler hb _ rfl) h

theorem inv_cmdRead (s : EState) (m : Msg) (h : Inv s) : Inv (cmdRead s m).1 := by
  unfold cmdRead
  simp only []
  have h1 : Inv (if (specOf s (m.obj.getD "")).map (·.kind) == some "det" then nextMode s (m.obj.getD "") "read" else ("done", s)).2 := by
    split
    · exact Inv.congr (dv_nextMode _ _ _) h
    · exact h
  generalize (if (specOf s (m.obj.getD "")).map (·.kind) == some "det" then nextMode s (m.obj.getD "") "read" else ("done", s)) = p at h1 ⊢
  obtain ⟨mode, s1⟩ := p
  simp only [] at h1 ⊢
  split
  · exact h1
  · have h2 : Inv (if (specOf s1 (m.obj.getD "")).map (·.kind) == some "det" then
        s1.logCall { dev := m.obj.getD "", op := "read", arg := some (readingOf s1 (m.obj.getD "")) } else s1) := by
      split
      · exact h1
      · exact h1
    generalize (if (specOf s1 (m.obj.getD "")).map (·.kind) == some "det" then
        s1.logCall { dev := m.obj.getD "", op := "read", arg := some (readingOf s1 (m.obj.getD "")) } else s1) = s2 at h2 ⊢
    split
    · exact h2
    · rename_i b hb
      split
      · split
        · exact h2
        · exact Inv.congr (dv_putBundler hb _ rfl) h2
      · exact h2

theorem inv_cmdSave (s : EState) (m : Msg) (h : Inv s) : Inv (cmdSave s m).1 := by
  unfold cmdSave
  split
  · exact h
  · rename_i b hb
    have ho := open_of_get h hb
    split
    · exact h
    · split
      · exact Inv.congr (dv_putBundler hb _ rfl) h
      · simp only []
        split
        · -- first event of the stream: descriptor, then the event
          refine inv_update h hb _ _ rfl ?_ ?_
          · intro pre post h0
            have h1 := DI_prepareStream (pre := pre) (post := post)
              { b with bundling := false, bundleName := "" } b.bundleName b.objsRead ho h0
            refine DI_emitEvent _ _ _ _ ?_ ?_ h1
            · unfold prepareStream; simp only []; split <;> exact ho
            · rw [prepareStream_fst]
              have : (prepareStream s { b with bundling := false, bundleName := "" } b.bundleName b.objsRead).2.runId = b.runId := by
                unfold prepareStream; simp only []; split <;> rfl
              rw [this]
              exact described_last s.docs { kind := "descriptor", run := b.runId, stream := b.bundleName, keys := b.objsRead } rfl
          · unfold prepareStream emitEvent; simp only []; split <;> rfl
        · rename_i objs hobjs
          split
          · exact Inv.congr (dv_putBundler hb _ rfl) h
          · refine inv_update h hb _ _ rfl ?_ ?_
            · intro pre post h0
              refine DI_emitEvent (pre := pre) (post := post) { b with bundling := false, bundleName := "" } _ _ _ ho ?_ h0
              have hmem : bview b ∈ pre ++ bview b :: post := by simp
              exact h0.desc (bview b) hmem b.bundleName (Or.inl (by
                show (assocGet b.bundleName b.descriptors).isSome = true
                have : assocGet b.bundleName b.descriptors = some objs := hobjs
                rw [this]; rfl))
            · rfl

theorem inv_cmdMonitor (s : EState) (m : Msg) (h : Inv s) : Inv (cmdMonitor s m).1 := by
  unfold cmdMonitor
  split
  · exact h
  · rename_i b hb
    have ho := open_of_get h hb
    simp only []
    split
    · exact h
    · apply Inv.congr (dv_resetCheckpointMeth _)
      refine inv_update h hb _ _ rfl ?_ ?_
      · intro pre post h0
        have h1 := DI_prepareStream (pre := pre) (post := post) b (m.name.getD (m.obj.getD "" ++ "_monitor")) [m.obj.getD ""] ho h0
        have hrun : (prepareStream s b (m.name.getD (m.obj.getD "" ++ "_monitor")) [m.obj.getD ""]).2.runId = b.runId := by
          unfold prepareStream; simp only []; split <;> rfl
        have hdesc : described (prepareStream s b (m.name.getD (m.obj.getD "" ++ "_monitor")) [m.obj.getD ""]).1.docs b.runId
            (m.name.getD (m.obj.getD "" ++ "_monitor")) := by
          rw [prepareStream_fst]
          exact described_last s.docs { kind := "descriptor", run := b.runId, stream := m.name.getD (m.obj.getD "" ++ "_monitor"), keys := [m.obj.getD ""] } rfl
        have h2 := DI_setDev (s := (prepareStream s b (m.name.getD (m.obj.getD "" ++ "_monitor")) [m.obj.getD ""]).1.logCall
            { dev := m.obj.getD "", op := "subscribe" }) h1 (m.obj.getD "")
          { devOf (prepareStream s b (m.name.getD (m.obj.getD "" ++ "_monitor")) [m.obj.getD ""]).1 (m.obj.getD "") with
            subs := (devOf (prepareStream s b (m.name.getD (m.obj.getD "" ++ "_monitor")) [m.obj.getD ""]).1 (m.obj.getD "")).subs ++
              [((prepareStream s b (m.name.getD (m.obj.getD "" ++ "_monitor")) [m.obj.getD ""]).2.runId, m.name.getD (m.obj.getD "" ++ "_monitor"))] }
          (by
            intro p hp
            rcases List.mem_append.mp hp with hp | hp
            · exact Or.inl hp
            · simp only [List.mem_singleton] at hp; subst hp
              rw [hrun]; exact Or.inr hdesc)
        refine DocInv.replace h2 _ rfl rfl ?_
        intro st hk
        rcases hk with hk | hk | ⟨sig, hk⟩
        · exact Or.inl (Or.inl hk)
        · exact Or.inl (Or.inr (Or.inl hk))
        · have hk' : (sig, st) ∈ (prepareStream s b (m.name.getD (m.obj.getD "" ++ "_monitor")) [m.obj.getD ""]).2.monitors ++
              [(m.obj.getD "", m.name.getD (m.obj.getD "" ++ "_monitor"))] := hk
          rcases List.mem_append.mp hk' with hk' | hk'
          · exact Or.inl (Or.inr (Or.inr ⟨sig, hk'⟩))
          · simp only [List.mem_singleton, Prod.mk.injEq] at hk'
            rw [hk'.2]
            have : (bview (prepareStream s b (m.name.getD (m.obj.getD "" ++ "_monitor")) [m.obj.getD ""]).2).runId = b.runId := hrun
            rw [this]; exact Or.inr hdesc
      · unfold prepareStream; simp only []; split <;> rfl

theorem inv_cmdUnmonitor (s : EState) (m : Msg) (h : Inv s) : Inv (cmdUnmonitor s m).1 := by
  unfold cmdUnmonitor
  split
  · exact h
  · rename_i b hb
    simp only []
    split
    · exact h
    · apply Inv.congr (dv_resetCheckpointMeth _)
      refine inv_update h hb _ _ rfl ?_ ?_
      · intro pre post h0
        have h2 := DI_setDev (s := s.logCall { dev := m.obj.getD "", op := "clear_sub" }) h0 (m.obj.getD "")
          { devOf s (m.obj.getD "") with
            subs := (devOf s (m.obj.getD "")).subs.filter (· != (b.runId, (assocGet (m.obj.getD "") b.monitors).getD "")) }
          (by intro p hp; exact Or.inl (List.mem_filter.mp hp).1)
        refine DocInv.replace h2 _ rfl rfl ?_
        intro st hk
        rcases hk with hk | hk | ⟨sig, hk⟩
        · exact Or.inl (Or.inl hk)
        · exact Or.inl (Or.inr (Or.inl hk))
        · exact Or.inl (Or.inr (Or.inr ⟨sig, mem_assocErase hk⟩))
      · rfl

end BlueskyVerif.Engine
