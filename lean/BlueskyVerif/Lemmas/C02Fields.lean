/-
GENERATED-STYLE boilerplate (written once by a script, checked in): per-field frame lemmas for `state`,
`interrupted` and `pc`, derived from the `ctl_*` lemmas of Lemmas/EngineFrame.lean, and the fact that no
command handler except `pause` touches them.
-/
import BlueskyVerif.Lemmas.EngineSched

namespace BlueskyVerif.Engine

/-! ### field `state` -/

@[simp] theorem st_logCall (s : EState) (c : Call) : (s.logCall c).state = s.state := rfl
@[simp] theorem st_emit (s : EState) (d : Doc) : (s.emit d).state = s.state := rfl
@[simp] theorem st_setDev (s : EState) (n : String) (d : DevState) : (setDev s n d).state = s.state := rfl
@[simp] theorem st_nextMode (s : EState) (n op : String) : (nextMode s n op).2.state = s.state := rfl
@[simp] theorem st_putBundler (s : EState) (m : Msg) (b : Bundler) : (putBundler s m b).state = s.state := rfl
@[simp] theorem st_emitEvent (s : EState) (b : Bundler) (st : String) (d : List (String × Int)) (n : String) : (emitEvent s b st d n).1.state = s.state := rfl
@[simp] theorem st_prepareStream (s : EState) (b : Bundler) (st : String) (o : List String) : (prepareStream s b st o).1.state = s.state := rfl
@[simp] theorem st_newStatus (s : EState) (d o m : String) (g : Option String) : (newStatus s d o m g).2.state = s.state := rfl
@[simp] theorem st_closeRunDoc (s : EState) (b : Bundler) (e r : String) : (closeRunDoc s b e r).1.state = s.state := congrArg Ctl.state (ctl_closeRunDoc s b e r)
@[simp] theorem st_resetCheckpointMeth (s : EState) : (resetCheckpointMeth s).state = s.state := congrArg Ctl.state (ctl_resetCheckpointMeth s)
@[simp] theorem st_stopMovables (s : EState) : (stopMovables s).state = s.state := congrArg Ctl.state (ctl_stopMovables s)
@[simp] theorem st_pauseHooks (s : EState) : (pauseHooks s).state = s.state := congrArg Ctl.state (ctl_pauseHooks s)
@[simp] theorem st_resumeHooks (s : EState) : (resumeHooks s).state = s.state := congrArg Ctl.state (ctl_resumeHooks s)
@[simp] theorem st_rewindPlan (s : EState) : (rewindPlan s).2.state = s.state := congrArg Ctl.state (ctl_rewindPlan s)
@[simp] theorem st_forBundlers_ri (s : EState) (c : String) : (forBundlers s (fun s b => recordInterruption s b c)).state = s.state := congrArg Ctl.state (ctl_forBundlers _ (fun s b => ctl_recordInterruption s b c) _)
@[simp] theorem st_forBundlers_restore (s : EState) : (forBundlers s restoreMonitors).state = s.state := congrArg Ctl.state (ctl_forBundlers _ ctl_restoreMonitors _)
@[simp] theorem st_forBundlers_suspend (s : EState) : (forBundlers s suspendMonitors).state = s.state := congrArg Ctl.state (ctl_forBundlers _ ctl_suspendMonitors _)
@[simp] theorem st_forBundlers_clear (s : EState) : (forBundlers s clearMonitors).state = s.state := congrArg Ctl.state (ctl_forBundlers _ ctl_clearMonitors _)
@[simp] theorem st_forBundlers_pure (s : EState) (g : Bundler → Bundler) : (forBundlers s (fun s b => (s, g b))).state = s.state := congrArg Ctl.state (ctl_forBundlers _ (fun _ _ => rfl) _)

/-! ### field `interrupted` -/

@[simp] theorem ir_logCall (s : EState) (c : Call) : (s.logCall c).interrupted = s.interrupted := rfl
@[simp] theorem ir_emit (s : EState) (d : Doc) : (s.emit d).interrupted = s.interrupted := rfl
@[simp] theorem ir_setDev (s : EState) (n : String) (d : DevState) : (setDev s n d).interrupted = s.interrupted := rfl
@[simp] theorem ir_nextMode (s : EState) (n op : String) : (nextMode s n op).2.interrupted = s.interrupted := rfl
@[simp] theorem ir_putBundler (s : EState) (m : Msg) (b : Bundler) : (putBundler s m b).interrupted = s.interrupted := rfl
@[simp] theorem ir_emitEvent (s : EState) (b : Bundler) (st : String) (d : List (String × Int)) (n : String) : (emitEvent s b st d n).1.interrupted = s.interrupted := rfl
@[simp] theorem ir_prepareStream (s : EState) (b : Bundler) (st : String) (o : List String) : (prepareStream s b st o).1.interrupted = s.interrupted := rfl
@[simp] theorem ir_newStatus (s : EState) (d o m : String) (g : Option String) : (newStatus s d o m g).2.interrupted = s.interrupted := rfl
@[simp] theorem ir_closeRunDoc (s : EState) (b : Bundler) (e r : String) : (closeRunDoc s b e r).1.interrupted = s.interrupted := congrArg Ctl.interrupted (ctl_closeRunDoc s b e r)
@[simp] theorem ir_resetCheckpointMeth (s : EState) : (resetCheckpointMeth s).interrupted = s.interrupted := congrArg Ctl.interrupted (ctl_resetCheckpointMeth s)
@[simp] theorem ir_stopMovables (s : EState) : (stopMovables s).interrupted = s.interrupted := congrArg Ctl.interrupted (ctl_stopMovables s)
@[simp] theorem ir_pauseHooks (s : EState) : (pauseHooks s).interrupted = s.interrupted := congrArg Ctl.interrupted (ctl_pauseHooks s)
@[simp] theorem ir_resumeHooks (s : EState) : (resumeHooks s).interrupted = s.interrupted := congrArg Ctl.interrupted (ctl_resumeHooks s)
@[simp] theorem ir_rewindPlan (s : EState) : (rewindPlan s).2.interrupted = s.interrupted := congrArg Ctl.interrupted (ctl_rewindPlan s)
@[simp] theorem ir_forBundlers_ri (s : EState) (c : String) : (forBundlers s (fun s b => recordInterruption s b c)).interrupted = s.interrupted := congrArg Ctl.interrupted (ctl_forBundlers _ (fun s b => ctl_recordInterruption s b c) _)
@[simp] theorem ir_forBundlers_restore (s : EState) : (forBundlers s restoreMonitors).interrupted = s.interrupted := congrArg Ctl.interrupted (ctl_forBundlers _ ctl_restoreMonitors _)
@[simp] theorem ir_forBundlers_suspend (s : EState) : (forBundlers s suspendMonitors).interrupted = s.interrupted := congrArg Ctl.interrupted (ctl_forBundlers _ ctl_suspendMonitors _)
@[simp] theorem ir_forBundlers_clear (s : EState) : (forBundlers s clearMonitors).interrupted = s.interrupted := congrArg Ctl.interrupted (ctl_forBundlers _ ctl_clearMonitors _)
@[simp] theorem ir_forBundlers_pure (s : EState) (g : Bundler → Bundler) : (forBundlers s (fun s b => (s, g b))).interrupted = s.interrupted := congrArg Ctl.interrupted (ctl_forBundlers _ (fun _ _ => rfl) _)

/-! ### field `pc` -/

@[simp] theorem pc_logCall (s : EState) (c : Call) : (s.logCall c).pc = s.pc := rfl
@[simp] theorem pc_emit (s : EState) (d : Doc) : (s.emit d).pc = s.pc := rfl
@[simp] theorem pc_setDev (s : EState) (n : String) (d : DevState) : (setDev s n d).pc = s.pc := rfl
@[simp] theorem pc_nextMode (s : EState) (n op : String) : (nextMode s n op).2.pc = s.pc := rfl
@[simp] theorem pc_putBundler (s : EState) (m : Msg) (b : Bundler) : (putBundler s m b).pc = s.pc := rfl
@[simp] theorem pc_emitEvent (s : EState) (b : Bundler) (st : String) (d : List (String × Int)) (n : String) : (emitEvent s b st d n).1.pc = s.pc := rfl
@[simp] theorem pc_prepareStream (s : EState) (b : Bundler) (st : String) (o : List String) : (prepareStream s b st o).1.pc = s.pc := rfl
@[simp] theorem pc_newStatus (s : EState) (d o m : String) (g : Option String) : (newStatus s d o m g).2.pc = s.pc := rfl
@[simp] theorem pc_closeRunDoc (s : EState) (b : Bundler) (e r : String) : (closeRunDoc s b e r).1.pc = s.pc := congrArg Ctl.pc (ctl_closeRunDoc s b e r)
@[simp] theorem pc_resetCheckpointMeth (s : EState) : (resetCheckpointMeth s).pc = s.pc := congrArg Ctl.pc (ctl_resetCheckpointMeth s)
@[simp] theorem pc_stopMovables (s : EState) : (stopMovables s).pc = s.pc := congrArg Ctl.pc (ctl_stopMovables s)
@[simp] theorem pc_pauseHooks (s : EState) : (pauseHooks s).pc = s.pc := congrArg Ctl.pc (ctl_pauseHooks s)
@[simp] theorem pc_resumeHooks (s : EState) : (resumeHooks s).pc = s.pc := congrArg Ctl.pc (ctl_resumeHooks s)
@[simp] theorem pc_rewindPlan (s : EState) : (rewindPlan s).2.pc = s.pc := congrArg Ctl.pc (ctl_rewindPlan s)
@[simp] theorem pc_forBundlers_ri (s : EState) (c : String) : (forBundlers s (fun s b => recordInterruption s b c)).pc = s.pc := congrArg Ctl.pc (ctl_forBundlers _ (fun s b => ctl_recordInterruption s b c) _)
@[simp] theorem pc_forBundlers_restore (s : EState) : (forBundlers s restoreMonitors).pc = s.pc := congrArg Ctl.pc (ctl_forBundlers _ ctl_restoreMonitors _)
@[simp] theorem pc_forBundlers_suspend (s : EState) : (forBundlers s suspendMonitors).pc = s.pc := congrArg Ctl.pc (ctl_forBundlers _ ctl_suspendMonitors _)
@[simp] theorem pc_forBundlers_clear (s : EState) : (forBundlers s clearMonitors).pc = s.pc := congrArg Ctl.pc (ctl_forBundlers _ ctl_clearMonitors _)
@[simp] theorem pc_forBundlers_pure (s : EState) (g : Bundler → Bundler) : (forBundlers s (fun s b => (s, g b))).pc = s.pc := congrArg Ctl.pc (ctl_forBundlers _ (fun _ _ => rfl) _)

/-- no command handler other than `pause` touches `state` -/
theorem runCommand_st (s : EState) (m : Msg) : (runCommand s m).1.state = s.state ∨ m.cmd = "pause" := by
  unfold runCommand
  split
  · exact Or.inl (by unfold cmdOpenRun; frame_be)
  · exact Or.inl (by unfold cmdCloseRun; frame_be)
  · exact Or.inl (by unfold cmdCreate; frame_be)
  · exact Or.inl (by unfold cmdRead; frame_be)
  · exact Or.inl (by unfold cmdSave; frame_be)
  · exact Or.inl (by unfold cmdDrop; frame_be)
  · exact Or.inl (by unfold cmdCheckpoint; frame_be)
  · exact Or.inl (by unfold cmdClearCheckpoint; frame_be)
  · exact Or.inl (by unfold cmdRewindable; frame_be)
  · exact Or.inl (by unfold cmdSet; frame_be)
  · exact Or.inl (by unfold cmdTrigger; frame_be)
  · exact Or.inl (by unfold cmdWait; frame_be)
  · exact Or.inl rfl
  · exact Or.inl (by unfold cmdStage; frame_be)
  · exact Or.inl (by unfold cmdStage; frame_be)
  · exact Or.inl (by unfold cmdMonitor; frame_be)
  · exact Or.inl (by unfold cmdUnmonitor; frame_be)
  · exact Or.inl rfl
  · exact Or.inr (by assumption)
  · exact Or.inl (by unfold cmdStartSuspender; frame_be)
  · exact Or.inl (by unfold cmdResumeFromSuspender; frame_be)
  · exact Or.inl (by unfold cmdWaitFor; frame_be)
  · exact Or.inl rfl

/-- no command handler other than `pause` touches `interrupted` -/
theorem runCommand_ir (s : EState) (m : Msg) : (runCommand s m).1.interrupted = s.interrupted ∨ m.cmd = "pause" := by
  unfold runCommand
  split
  · exact Or.inl (by unfold cmdOpenRun; frame_be)
  · exact Or.inl (by unfold cmdCloseRun; frame_be)
  · exact Or.inl (by unfold cmdCreate; frame_be)
  · exact Or.inl (by unfold cmdRead; frame_be)
  · exact Or.inl (by unfold cmdSave; frame_be)
  · exact Or.inl (by unfold cmdDrop; frame_be)
  · exact Or.inl (by unfold cmdCheckpoint; frame_be)
  · exact Or.inl (by unfold cmdClearCheckpoint; frame_be)
  · exact Or.inl (by unfold cmdRewindable; frame_be)
  · exact Or.inl (by unfold cmdSet; frame_be)
  · exact Or.inl (by unfold cmdTrigger; frame_be)
  · exact Or.inl (by unfold cmdWait; frame_be)
  · exact Or.inl rfl
  · exact Or.inl (by unfold cmdStage; frame_be)
  · exact Or.inl (by unfold cmdStage; frame_be)
  · exact Or.inl (by unfold cmdMonitor; frame_be)
  · exact Or.inl (by unfold cmdUnmonitor; frame_be)
  · exact Or.inl rfl
  · exact Or.inr (by assumption)
  · exact Or.inl (by unfold cmdStartSuspender; frame_be)
  · exact Or.inl (by unfold cmdResumeFromSuspender; frame_be)
  · exact Or.inl (by unfold cmdWaitFor; frame_be)
  · exact Or.inl rfl

/-- no command handler other than `pause` touches `pc` -/
theorem runCommand_pc (s : EState) (m : Msg) : (runCommand s m).1.pc = s.pc ∨ m.cmd = "pause" := by
  unfold runCommand
  split
  · exact Or.inl (by unfold cmdOpenRun; frame_be)
  · exact Or.inl (by unfold cmdCloseRun; frame_be)
  · exact Or.inl (by unfold cmdCreate; frame_be)
  · exact Or.inl (by unfold cmdRead; frame_be)
  · exact Or.inl (by unfold cmdSave; frame_be)
  · exact Or.inl (by unfold cmdDrop; frame_be)
  · exact Or.inl (by unfold cmdCheckpoint; frame_be)
  · exact Or.inl (by unfold cmdClearCheckpoint; frame_be)
  · exact Or.inl (by unfold cmdRewindable; frame_be)
  · exact Or.inl (by unfold cmdSet; frame_be)
  · exact Or.inl (by unfold cmdTrigger; frame_be)
  · exact Or.inl (by unfold cmdWait; frame_be)
  · exact Or.inl rfl
  · exact Or.inl (by unfold cmdStage; frame_be)
  · exact Or.inl (by unfold cmdStage; frame_be)
  · exact Or.inl (by unfold cmdMonitor; frame_be)
  · exact Or.inl (by unfold cmdUnmonitor; frame_be)
  · exact Or.inl rfl
  · exact Or.inr (by assumption)
  · exact Or.inl (by unfold cmdStartSuspender; frame_be)
  · exact Or.inl (by unfold cmdResumeFromSuspender; frame_be)
  · exact Or.inl (by unfold cmdWaitFor; frame_be)
  · exact Or.inl rfl

theorem runCommand_pause_ok (s s' : EState) (m : Msg) (h : m.cmd = "pause") (hp : requestPause s m.flag = .ok s') :
    runCommand s m = (s', .value .none) := by
  unfold runCommand
  simp [h, hp]

theorem runCommand_pause_err (s : EState) (m : Msg) (e : Exc) (h : m.cmd = "pause") (hp : requestPause s m.flag = .error e) :
    runCommand s m = (s, .raised e) := by
  unfold runCommand
  simp [h, hp]

end BlueskyVerif.Engine
