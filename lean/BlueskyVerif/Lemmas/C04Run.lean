/-
C04 helper: the invariant `CacheInv` is preserved by every block of `_run`, hence by `advance`.
-/
import BlueskyVerif.Lemmas.C04Handlers

namespace BlueskyVerif.Engine

/-- nothing of (processed-message log, rewindable flag, cache) changed -/
def Keep (s s' : EState) : Prop :=
  s'.msgs = s.msgs ∧ s'.rewindable = s.rewindable ∧ s'.msgCache = s.msgCache

theorem Keep.refl (s : EState) : Keep s s := ⟨rfl, rfl, rfl⟩
theorem Keep.trans {a b c : EState} (h1 : Keep a b) (h2 : Keep b c) : Keep a c :=
  ⟨h2.1.trans h1.1, h2.2.1.trans h1.2.1, h2.2.2.trans h1.2.2⟩
theorem keep_of_ck {s s' : EState} (h : ck s' = ck s) : Keep s s' := ⟨ck_msgs h, ck_rew h, ck_cache h⟩
theorem Keep.move {s s' : EState} (h : Keep s s') : CacheMove s s' := ⟨h.1, Or.inl ⟨h.2.1, h.2.2⟩⟩
theorem Keep.inv {s s' : EState} (h : Keep s s') (hi : CacheInv s) : CacheInv s' := cacheInv_move hi h.move

theorem move_of_two {s s' : EState} {b : Bool} (h1 : b = true → ck s' = ck s)
    (h2 : b = false → ck s' = (ck s).reset) : CacheMove s s' := by
  cases b with
  | true => exact cacheMove_of_ck (h1 rfl)
  | false => exact cacheMove_of_reset (h2 rfl)

/-- no command handler does anything to the cache but: keep it, empty it, drop it -/
theorem runCommand_move (s : EState) (m : Msg) : CacheMove s (runCommand s m).1 := by
  unfold runCommand
  split
  · exact cacheMove_of_ck (ck_cmdOpenRun s m)
  · exact move_of_two (ck_cmdCloseRun s m).1 (ck_cmdCloseRun s m).2
  · exact cacheMove_of_ck (ck_cmdCreate s m)
  · exact cacheMove_of_ck (ck_cmdRead s m)
  · exact cacheMove_of_ck (ck_cmdSave s m)
  · exact cacheMove_of_ck (ck_cmdDrop s m)
  · exact move_of_two (ck_cmdCheckpoint s).1 (ck_cmdCheckpoint s).2
  · have := ck_cmdClearCheckpoint s
    exact ⟨congrArg Ck.msgs this, Or.inr (Or.inr (Or.inr (congrArg Ck.cache this)))⟩
  · obtain ⟨h1, h2, h3⟩ := ck_cmdRewindable s m
    by_cases ha : m.iargs = []
    · exact cacheMove_of_ck (h1 ha)
    · by_cases hf : m.flag = s.rewindable
      · exact cacheMove_of_ck (h2 ha hf)
      · have := h3 ha hf
        exact ⟨congrArg Ck.msgs this, Or.inr (Or.inl (congrArg Ck.cache this))⟩
  · exact cacheMove_of_ck (ck_cmdSet s m)
  · exact cacheMove_of_ck (ck_cmdTrigger s m)
  · exact cacheMove_of_ck (ck_cmdWait s m)
  · exact cacheMove_refl s
  · exact move_of_two (ck_cmdStage s m "stage").1 (ck_cmdStage s m "stage").2
  · exact move_of_two (ck_cmdStage s m "unstage").1 (ck_cmdStage s m "unstage").2
  · exact move_of_two (ck_cmdMonitor s m).1 (ck_cmdMonitor s m).2
  · exact move_of_two (ck_cmdUnmonitor s m).1 (ck_cmdUnmonitor s m).2
  · exact cacheMove_refl s
  · split
    · rename_i s' h; exact cacheMove_of_ck (ck_requestPause h)
    · exact cacheMove_refl s
  · cases h : s.suspReqs[(m.iargs.headD 0).toNat]? with
    | none => exact cacheMove_of_ck (ck_cmdStartSuspender_none s m h)
    | some rq =>
      obtain ⟨s1, _, h2⟩ := ck_cmdStartSuspender s m rq h
      exact ⟨congrArg Ck.msgs h2, Or.inr (Or.inr (Or.inl (congrArg Ck.cache h2)))⟩
  · exact cacheMove_of_ck (ck_cmdResumeFromSuspender s)
  · exact cacheMove_of_ck (ck_cmdWaitFor s m)
  · exact cacheMove_refl s

theorem keep_fin (s : EState) (r : Resp) : Keep s (fin s r) := by
  unfold fin; split <;> exact ⟨rfl, rfl, rfl⟩

theorem keep_leaveLoop (s : EState) (e : Exc) : Keep s (leaveLoop s e) := by
  unfold leaveLoop; simp only []; split <;> exact ⟨rfl, rfl, rfl⟩

theorem keep_takeResp (s : EState) (r : Resp) (rs : List Resp) : Keep s (takeResp s r rs) := by
  unfold takeResp; simp only []; split <;> exact ⟨rfl, rfl, rfl⟩

theorem keep_logYield (s : EState) (g : Gen) (i : Inp) : Keep s (logYield s g i) := by
  unfold logYield; split <;> exact ⟨rfl, rfl, rfl⟩

theorem keep_setState {s s' : EState} {n : St} (h : setState s n = .ok s') : Keep s s' :=
  keep_of_ck (ck_setState h)

def Flow.CI : Flow → Prop
  | .loopTop s => CacheInv s
  | .stop s => CacheInv s

theorem popPlan_ci (s : EState) (how : Option Exc) (h : CacheInv s) : (popPlan s how).CI := by
  unfold popPlan; simp only []
  split
  · exact (keep_leaveLoop _ _).inv (Keep.inv ⟨rfl, rfl, rfl⟩ h)
  · split <;> exact Keep.inv ⟨rfl, rfl, rfl⟩ h

theorem afterCommand_ci (m : Msg) (p : EState × CmdOut) (h : CacheInv p.1) : (afterCommand m p).CI := by
  obtain ⟨s, o⟩ := p
  cases o with
  | value r => exact (keep_fin s _).inv h
  | raised e => exact (keep_fin s _).inv h
  | suspend pc => exact Keep.inv ⟨rfl, rfl, rfl⟩ h

theorem processMsg_ci (s : EState) (m : Msg) (h : CacheInv s) : (processMsg s m).CI := by
  unfold processMsg
  simp only []
  have hn := cacheInv_noteMsg h m
  split
  · exact (keep_fin _ _).inv hn
  · exact afterCommand_ci m _ (cacheInv_move hn (runCommand_move _ m))

theorem afterResume_ci (s : EState) (gs : List Gen) (t : Option Exc) (r : Out × Gen) (h : CacheInv s) :
    (afterResume s gs t r).CI := by
  obtain ⟨o, g'⟩ := r
  cases o with
  | yld m => exact processMsg_ci _ m (Keep.inv ⟨rfl, rfl, rfl⟩ h)
  | ret => simp only [afterResume]; split <;> exact popPlan_ci _ _ (Keep.inv ⟨rfl, rfl, rfl⟩ h)
  | raise e =>
    simp only [afterResume]
    split
    · exact popPlan_ci _ _ (Keep.inv ⟨rfl, rfl, rfl⟩ h)
    · exact (keep_leaveLoop _ _).inv ((keep_fin _ _).inv (Keep.inv ⟨rfl, rfl, rfl⟩ h))

theorem afterSleep_ci (s : EState) (h : CacheInv s) : (afterSleep s).CI := by
  unfold afterSleep
  split
  · simp only []
    apply afterResume_ci
    exact (keep_logYield _ _ _).inv ((keep_takeResp _ _ _).inv h)
  · exact (keep_leaveLoop _ _).inv h

theorem hCancel_ci (s : EState) (r : Resp) (h : CacheInv s) : (hCancel s r).CI := by
  unfold hCancel
  split
  · exact (keep_fin _ _).inv (Keep.inv ⟨rfl, rfl, rfl⟩ h)
  · split
    · split
      · exact (keep_fin _ _).inv (Keep.inv ⟨rfl, rfl, rfl⟩ h)
      · exact (keep_fin _ _).inv h
    · split
      · exact (keep_fin _ _).inv h
      · split
        · exact (keep_leaveLoop _ _).inv ((keep_fin _ _).inv h)
        · split
          · exact (keep_fin _ _).inv (Keep.inv ⟨rfl, rfl, rfl⟩ h)
          · exact (keep_fin _ _).inv h

theorem pauseHooks_move (s : EState) : CacheMove s (pauseHooks s) := by
  rcases ck_pauseHooks s with h | h
  · exact cacheMove_of_ck h
  · exact cacheMove_of_reset h

theorem pauseBlock_ci (s : EState) (h : CacheInv s) : (pauseBlock s).CI := by
  unfold pauseBlock
  simp only []
  have h1 : CacheInv (pauseHooks (stopMovables (forBundlers s suspendMonitors))) := by
    apply cacheInv_move _ (pauseHooks_move _)
    exact (keep_of_ck (by rw [ck_stopMovables, ck_forBundlers_suspend])).inv h
  split
  · exact (keep_leaveLoop _ _).inv h1
  · rename_i s' hs
    exact Keep.inv ⟨rfl, rfl, rfl⟩ ((keep_setState hs).inv h1)

theorem loopTop_ci (s : EState) (h : CacheInv s) : (loopTop s).CI := by
  unfold loopTop
  split
  · split
    · rename_i s' hs
      exact (keep_setState hs).inv (Keep.inv ⟨rfl, rfl, rfl⟩ h)
    · exact (keep_leaveLoop _ _).inv h
  · simp only []
    split
    · exact (keep_leaveLoop _ _).inv h
    · rename_i s' hs
      have hs' : CacheInv s' := by
        split at hs
        · exact (keep_setState hs).inv h
        · cases hs; exact h
      split
      · exact pauseBlock_ci s' hs'
      · split
        · exact Keep.inv ⟨rfl, rfl, rfl⟩ hs'
        · exact afterSleep_ci _ (Keep.inv ⟨rfl, rfl, rfl⟩ hs')

theorem ck_cleanupBody (s : EState) : Keep s (cleanupBody s) := by
  unfold cleanupBody
  simp only []
  have hclose : ∀ (s : EState) (g : Gen), ck (closeGen s g) = ck s := by
    intro s g; unfold closeGen; split <;> rfl
  apply keep_of_ck
  rw [ck_foldl _ hclose]
  have e1 : ∀ (s : EState) (l : List (String × Bundler)), ck { s with bundlers := l } = ck s := fun _ _ => rfl
  have e2 : ∀ (s : EState) (l : List String), ck { s with staged := l } = ck s := fun _ _ => rfl
  have e3 : ∀ (s : EState), ck { s with pardon := true } = ck s := fun _ => rfl
  rw [e1]
  have step4 : ∀ (s : EState) (r : String), ck (if Src.finallyClosesRuns = true then
      forBundlers s (fun s b => if b.runOpen = true then closeRunDoc s b s.exitStatus.name r else (s, b)) else s) = ck s := by
    intro s r; split
    · apply ck_forBundlers; intro s b; split
      · simp
      · rfl
    · rfl
  rw [step4, e2]
  have step3 : ∀ (s : EState), ck (if Src.finallyUnstages = true then
      s.staged.foldl (fun s n => let (_, s) := nextMode s n "unstage"; s.logCall { dev := n, op := "unstage" }) s else s) = ck s := by
    intro s; split
    · apply ck_foldl; intro s n; rfl
    · rfl
  rw [step3]
  have step2 : ∀ (s : EState), ck (if Src.finallyClearsMonitors = true then forBundlers s clearMonitors else s) = ck s := by
    intro s; split
    · exact ck_forBundlers _ ck_clearMonitors _
    · rfl
  rw [step2]
  have step1 : ∀ (s : EState), ck (if Src.finallyStopsMovables = true then stopMovables s else s) = ck s := by
    intro s; split <;> simp
  rw [step1, e3]

theorem keep_cleanup (s : EState) : Keep s (cleanup s) := by
  unfold cleanup
  simp only []
  split
  · rename_i s' hs; exact (ck_cleanupBody s).trans (keep_setState hs)
  · exact (ck_cleanupBody s).trans ⟨rfl, rfl, rfl⟩

theorem keep_finishTask (s : EState) : Keep s (finishTask s) := ⟨rfl, rfl, rfl⟩

theorem runLoop_ci (n : Nat) (s : EState) (h : CacheInv s) : CacheInv (runLoop n s) := by
  induction n generalizing s with
  | zero => exact Keep.inv ⟨rfl, rfl, rfl⟩ h
  | succ n ih =>
    unfold runLoop
    have := loopTop_ci s h
    split
    · rename_i s' heq
      rw [heq] at this
      split
      · exact (keep_finishTask _).inv ((keep_cleanup _).inv this)
      · exact this
    · rename_i s' heq
      rw [heq] at this
      exact ih s' this

theorem contFlow_ci (n : Nat) (f : Flow) (h : f.CI) : CacheInv (contFlow n f) := by
  cases f with
  | loopTop s => exact runLoop_ci n s h
  | stop s =>
    simp only [contFlow]
    split
    · exact (keep_finishTask _).inv ((keep_cleanup _).inv h)
    · exact h

theorem advanceAt_ci (n : Nat) (c : Bool) (s0 : EState) (h : CacheInv s0) : CacheInv (advanceAt n c s0) := by
  unfold advanceAt
  split
  · exact h
  · exact h
  · split
    · exact h
    · split
      · rename_i s' hs
        exact runLoop_ci _ _ ((keep_setState hs).inv (Keep.inv ⟨rfl, rfl, rfl⟩ h))
      · exact contFlow_ci _ _ ((keep_leaveLoop _ _).inv h)
  · split
    · exact contFlow_ci _ _ (hCancel_ci _ _ h)
    · exact contFlow_ci _ _ (afterSleep_ci _ h)
  · split
    · exact contFlow_ci _ _ (hCancel_ci _ _ h)
    · exact runLoop_ci _ _ ((keep_fin _ _).inv h)
  · split
    · exact contFlow_ci _ _ (hCancel_ci _ _ h)
    · split
      · rename_i s' hs
        exact runLoop_ci _ _ ((keep_fin _ _).inv ((keep_of_ck (ck_requestPause hs)).inv h))
      · exact runLoop_ci _ _ ((keep_fin _ _).inv h)
  · split
    · exact contFlow_ci _ _ (hCancel_ci _ _ h)
    · simp only []
      split
      · exact runLoop_ci _ _ ((keep_fin _ _).inv h)
      · split
        · exact runLoop_ci _ _ ((keep_fin _ _).inv (Keep.inv ⟨rfl, rfl, rfl⟩ h))
        · exact h
  · split
    · exact contFlow_ci _ _ (hCancel_ci _ _ h)
    · split
      · exact runLoop_ci _ _ ((keep_fin _ _).inv h)
      · exact h
  · split
    · exact h
    · split
      · exact contFlow_ci _ _ ((keep_leaveLoop _ _).inv h)
      · simp only []
        have hr : CacheInv (forBundlers s0 restoreMonitors) := (keep_of_ck (ck_forBundlers_restore s0)).inv h
        split
        · exact contFlow_ci _ _ ((keep_leaveLoop _ _).inv hr)
        · rename_i s' hs
          have hs' : CacheInv s' := by
            split at hs
            · exact (keep_setState hs).inv hr
            · cases hs; exact hr
          split
          · exact Keep.inv ⟨rfl, rfl, rfl⟩ hs'
          · exact contFlow_ci _ _ (afterSleep_ci _ (Keep.inv ⟨rfl, rfl, rfl⟩ hs'))
  · apply (keep_finishTask _).inv
    apply (keep_cleanup _).inv
    split
    · exact Keep.inv ⟨rfl, rfl, rfl⟩ h
    · exact h

theorem advance_ci (n : Nat) (s : EState) (h : CacheInv s) : CacheInv (advance n s) :=
  advanceAt_ci n _ _ (Keep.inv ⟨rfl, rfl, rfl⟩ h)

end BlueskyVerif.Engine
