/-
Basic lemmas for the bundler model: association lists, `Res.andThen`, folds of state transformers.
-/
import BlueskyVerif.Bundler.Model

namespace BlueskyVerif.Bundler

/-! ### association lists -/

section alist
variable {α : Type}

@[simp] theorem aget_nil (k : String) : aget ([] : List (String × α)) k = none := rfl

theorem aget_cons (k' : String) (v : α) (t : List (String × α)) (k : String) :
    aget ((k', v) :: t) k = if k' = k then some v else aget t k := rfl

@[simp] theorem aget_aset_same (m : List (String × α)) (k : String) (v : α) :
    aget (aset m k v) k = some v := by
  induction m with
  | nil => simp [aset, aget]
  | cons p t ih =>
    obtain ⟨k', v'⟩ := p
    by_cases h : k' = k <;> simp [aset, aget, h, ih]

theorem aget_aset_ne (m : List (String × α)) (k k' : String) (v : α) (h : k ≠ k') :
    aget (aset m k v) k' = aget m k' := by
  induction m with
  | nil => simp [aset, aget, h]
  | cons p t ih =>
    obtain ⟨k0, v0⟩ := p
    by_cases h0 : k0 = k
    · subst h0; simp [aset, aget, h]
    · by_cases h1 : k0 = k'
      · subst h1; simp [aset, aget, h0]
      · simp [aset, aget, h0, h1, ih]

theorem aget_aset (m : List (String × α)) (k k' : String) (v : α) :
    aget (aset m k v) k' = if k = k' then some v else aget m k' := by
  by_cases h : k = k'
  · subst h; simp
  · simp [h, aget_aset_ne _ _ _ _ h]

theorem mem_aset (m : List (String × α)) (k : String) (v : α) (p : String × α)
    (h : p ∈ aset m k v) : p ∈ m ∨ p = (k, v) := by
  induction m with
  | nil => simp [aset] at h; exact Or.inr h
  | cons q t ih =>
    obtain ⟨k0, v0⟩ := q
    by_cases h0 : k0 = k
    · simp [aset, h0] at h
      rcases h with h | h
      · exact Or.inr h
      · exact Or.inl (List.mem_cons_of_mem _ h)
    · simp [aset, h0] at h
      rcases h with h | h
      · exact Or.inl (by rw [h]; exact List.mem_cons_self)
      · rcases ih h with h | h
        · exact Or.inl (List.mem_cons_of_mem _ h)
        · exact Or.inr h

theorem mem_aerase (m : List (String × α)) (k : String) (p : String × α)
    (h : p ∈ aerase m k) : p ∈ m := by
  induction m with
  | nil => simp [aerase] at h
  | cons q t ih =>
    obtain ⟨k0, v0⟩ := q
    by_cases h0 : k0 = k
    · simp [aerase, h0] at h; exact List.mem_cons_of_mem _ h
    · simp [aerase, h0] at h
      rcases h with h | h
      · rw [h]; exact List.mem_cons_self
      · exact List.mem_cons_of_mem _ (ih h)

theorem aget_mem (m : List (String × α)) (k : String) (v : α) (h : aget m k = some v) : (k, v) ∈ m := by
  induction m with
  | nil => simp at h
  | cons q t ih =>
    obtain ⟨k0, v0⟩ := q
    by_cases h0 : k0 = k
    · simp [aget, h0] at h; subst h0; subst h; exact List.mem_cons_self
    · simp [aget, h0] at h; exact List.mem_cons_of_mem _ (ih h)

theorem ahas_iff (m : List (String × α)) (k : String) : ahas m k = true ↔ ∃ v, aget m k = some v := by
  unfold ahas; cases aget m k <;> simp

theorem ahas_false_iff (m : List (String × α)) (k : String) : ahas m k = false ↔ aget m k = none := by
  unfold ahas; cases aget m k <;> simp

theorem akeys_aset (m : List (String × α)) (k : String) (v : α) :
    akeys (aset m k v) = if ahas m k then akeys m else akeys m ++ [k] := by
  induction m with
  | nil => simp [aset, akeys, ahas]
  | cons q t ih =>
    obtain ⟨k0, v0⟩ := q
    by_cases h0 : k0 = k
    · subst h0; simp [aset, akeys, ahas, aget]
    · simp only [akeys] at ih
      simp [aset, akeys, ahas, aget, h0]
      simp only [ahas] at ih
      rw [ih]; split <;> simp_all

theorem aget_none_iff_not_mem_keys (m : List (String × α)) (k : String) : aget m k = none ↔ k ∉ akeys m := by
  induction m with
  | nil => simp [akeys]
  | cons q t ih =>
    obtain ⟨k0, v0⟩ := q
    by_cases h0 : k0 = k
    · subst h0; simp [aget, akeys]
    · rw [aget_cons, if_neg h0, ih]
      simp only [akeys, List.map_cons, List.mem_cons, not_or]
      constructor
      · intro h; exact ⟨fun e => h0 e.symm, h⟩
      · intro h; exact h.2

theorem nodup_akeys_aset (m : List (String × α)) (k : String) (v : α) (h : (akeys m).Nodup) :
    (akeys (aset m k v)).Nodup := by
  rw [akeys_aset]
  split
  · exact h
  · rename_i hk
    have : aget m k = none := by
      simp only [ahas] at hk; cases hh : aget m k <;> simp_all
    rw [List.nodup_append]
    refine ⟨h, by simp, ?_⟩
    intro a ha b hb
    simp at hb; subst hb
    intro hab; subst hab
    exact (aget_none_iff_not_mem_keys m a).1 this ha

/-- with distinct keys, membership determines lookup -/
theorem aget_of_mem_nodup (m : List (String × α)) (k : String) (v : α) (hn : (akeys m).Nodup)
    (h : (k, v) ∈ m) : aget m k = some v := by
  induction m with
  | nil => simp at h
  | cons q t ih =>
    obtain ⟨k0, v0⟩ := q
    simp only [akeys, List.map_cons, List.nodup_cons] at hn
    rcases List.mem_cons.1 h with h | h
    · cases h; simp [aget]
    · have : k0 ≠ k := by
        intro e; subst e
        exact hn.1 (List.mem_map.2 ⟨(k0, v), h, rfl⟩)
      simp [aget, this]
      exact ih hn.2 h

theorem aupdate_nil (d : List (String × α)) : aupdate d [] = d := rfl

theorem aupdate_cons (d : List (String × α)) (kv : String × α) (e : List (String × α)) :
    aupdate d (kv :: e) = aupdate (aset d kv.1 kv.2) e := rfl

theorem nodup_akeys_aupdate (d e : List (String × α)) (h : (akeys d).Nodup) : (akeys (aupdate d e)).Nodup := by
  induction e generalizing d with
  | nil => exact h
  | cons kv e ih => rw [aupdate_cons]; exact ih _ (nodup_akeys_aset _ _ _ h)

/-- `d.update(e)` with distinct keys in `e`: entries of `e` win, the others keep their value -/
theorem aget_aupdate (d e : List (String × α)) (k : String) (hn : (akeys e).Nodup) :
    aget (aupdate d e) k = match aget e k with | some v => some v | none => aget d k := by
  induction e generalizing d with
  | nil => simp [aupdate_nil]
  | cons kv e ih =>
    obtain ⟨k0, v0⟩ := kv
    simp only [akeys, List.map_cons, List.nodup_cons] at hn
    rw [aupdate_cons, ih _ hn.2]
    by_cases h0 : k0 = k
    · subst h0
      have : aget e k0 = none := (aget_none_iff_not_mem_keys e k0).2 hn.1
      simp [this, aget]
    · simp [aget, h0, aget_aset_ne _ _ _ _ h0]

theorem akeys_aerase_sublist (m : List (String × α)) (k : String) : (akeys (aerase m k)).Sublist (akeys m) := by
  induction m with
  | nil => simp [aerase, akeys]
  | cons q t ih =>
    obtain ⟨k0, v0⟩ := q
    by_cases h0 : k0 = k
    · simp [aerase, akeys, h0]
    · simp only [aerase, h0, if_false, akeys, List.map_cons]
      exact List.Sublist.cons₂ _ ih

theorem nodup_akeys_aerase (m : List (String × α)) (k : String) (h : (akeys m).Nodup) : (akeys (aerase m k)).Nodup :=
  List.Nodup.sublist (akeys_aerase_sublist m k) h

theorem aget_aerase_ne (m : List (String × α)) (k k' : String) (h : k ≠ k') : aget (aerase m k) k' = aget m k' := by
  induction m with
  | nil => simp [aerase]
  | cons q t ih =>
    obtain ⟨k0, v0⟩ := q
    by_cases h0 : k0 = k
    · subst h0; simp [aerase, aget, h]
    · by_cases h1 : k0 = k'
      · subst h1; simp [aerase, aget, h0]
      · simp [aerase, aget, h0, h1, ih]

/-- with distinct keys, erasing a key removes its entry -/
theorem aget_aerase_same (m : List (String × α)) (k : String) (h : (akeys m).Nodup) : aget (aerase m k) k = none := by
  induction m with
  | nil => simp [aerase]
  | cons q t ih =>
    obtain ⟨k0, v0⟩ := q
    simp only [akeys, List.map_cons, List.nodup_cons] at h
    by_cases h0 : k0 = k
    · subst h0
      simp only [aerase, if_true]
      exact (aget_none_iff_not_mem_keys t k0).2 h.1
    · simp only [aerase, h0, if_false, aget]
      exact ih h.2

end alist

/-! ### `Res` combinators -/

@[simp] theorem Res.ok_st (s : BState) : (Res.ok s).st = s := rfl
@[simp] theorem Res.ok_calls (s : BState) : (Res.ok s).calls = [] := rfl
@[simp] theorem Res.ok_err (s : BState) : (Res.ok s).err = none := rfl
@[simp] theorem Res.fail_st (s : BState) (e : Err) : (Res.fail s e).st = s := rfl
@[simp] theorem Res.fail_err (s : BState) (e : Err) : (Res.fail s e).err = some e := rfl
@[simp] theorem Res.fail_calls (s : BState) (e : Err) : (Res.fail s e).calls = [] := rfl

theorem Res.andThen_of_err (r : Res) (f : BState → Res) (e : Err) (h : r.err = some e) : r.andThen f = r := by
  unfold Res.andThen; rw [h]

theorem Res.andThen_of_ok (r : Res) (f : BState → Res) (h : r.err = none) :
    r.andThen f = { st := (f r.st).st, calls := r.calls ++ (f r.st).calls, err := (f r.st).err } := by
  unfold Res.andThen; rw [h]

/-- A relation on states that is reflexive and transitive is preserved by sequencing. -/
theorem Res.andThen_rel (R : BState → BState → Prop) (_hrefl : ∀ s, R s s)
    (htrans : ∀ a b c, R a b → R b c → R a c) (s : BState) (r : Res) (f : BState → Res)
    (h1 : R s r.st) (h2 : ∀ s', R s' (f s').st) : R s (r.andThen f).st := by
  cases he : r.err with
  | some e => rw [Res.andThen_of_err _ _ _ he]; exact h1
  | none => rw [Res.andThen_of_ok _ _ he]; exact htrans _ _ _ h1 (h2 _)

/-- the state after a sequence that did not raise -/
theorem Res.andThen_st_ok (r : Res) (f : BState → Res) (h : r.err = none) : (r.andThen f).st = (f r.st).st := by
  rw [Res.andThen_of_ok _ _ h]

theorem Res.andThen_err_ok (r : Res) (f : BState → Res) (h : r.err = none) : (r.andThen f).err = (f r.st).err := by
  rw [Res.andThen_of_ok _ _ h]

/-! ### documents emitted between two states -/

theorem docsSince_self (s : BState) : docsSince s s = [] := by simp [docsSince]

theorem docsSince_of_append (s s' : BState) (l : List Doc) (h : s'.out = s.out ++ l) : docsSince s s' = l := by
  simp [docsSince, h]

end BlueskyVerif.Bundler
