/-
Helper lemmas for C25 (part 4, core Lean only -- `grind` does the ordered-field arithmetic on ℚ):
end points and bounds of `linspace`, `min`/`max` of a position list.
-/
import BlueskyVerif.Pure.StepScan
namespace BlueskyVerif.Pure.StepScan
open BlueskyVerif.Pure

theorem linspace_first (a b : Rat) (n : Nat) (hn : 0 < n) : (linspace a b n)[0]? = some a := by
  simp [linspace, hn, Rat.add_zero]

theorem natCast_succ_sub_one (m : Nat) : ((m + 1 : Nat) : Rat) - 1 = (m : Rat) := by
  rw [Rat.natCast_add]; grind

theorem linspace_last (a b : Rat) (n : Nat) (hn : 2 ≤ n) : (linspace a b n)[n - 1]? = some b := by
  obtain ⟨m, rfl⟩ : ∃ m, n = m + 1 := ⟨n - 1, by omega⟩
  have h1 : m < m + 1 := by omega
  simp only [Nat.add_sub_cancel, linspace, List.getElem?_map, List.getElem?_range h1, Option.map_some,
    Option.some.injEq, natCast_succ_sub_one]
  have hm : (0 : Rat) < (m : Rat) := by
    have : (0 : Nat) < m := by omega
    exact_mod_cast (Rat.natCast_lt_natCast.mpr this)
  have h4 : (m : Rat) * ((b - a) / (m : Rat)) = b - a := by grind
  grind

theorem lin_between (a b d k : Rat) (hd : 0 < d) (hk0 : 0 ≤ k) (hk1 : k ≤ d) :
    min a b ≤ a + k * ((b - a) / d) ∧ a + k * ((b - a) / d) ≤ max a b := by
  have h4 : d * ((b - a) / d) = b - a := by grind
  rcases Rat.le_total (a := a) (b := b) with hab | hab
  · have h1 : 0 ≤ (b - a) / d := by
      rw [Rat.div_def]
      exact Rat.mul_nonneg (by grind) (Rat.le_of_lt (Rat.inv_pos.mpr hd))
    have h2 : 0 ≤ k * ((b - a) / d) := Rat.mul_nonneg hk0 h1
    have h3 : 0 ≤ (d - k) * ((b - a) / d) := Rat.mul_nonneg (by grind) h1
    constructor <;> grind
  · have h1 : 0 ≤ (a - b) / d := by
      rw [Rat.div_def]
      exact Rat.mul_nonneg (by grind) (Rat.le_of_lt (Rat.inv_pos.mpr hd))
    have h5 : d * ((a - b) / d) = a - b := by grind
    have h2 : 0 ≤ k * ((a - b) / d) := Rat.mul_nonneg hk0 h1
    have h3 : 0 ≤ (d - k) * ((a - b) / d) := Rat.mul_nonneg (by grind) h1
    have h6 : (a - b) / d = - ((b - a) / d) := by grind
    constructor <;> grind

theorem linspace_bounds (a b : Rat) (n : Nat) (x : Rat) (hx : x ∈ linspace a b n) :
    min a b ≤ x ∧ x ≤ max a b := by
  simp only [linspace, List.mem_map, List.mem_range] at hx
  obtain ⟨k, hk, rfl⟩ := hx
  rcases Nat.lt_or_ge n 2 with hn | hn
  · have hk0 : k = 0 := by omega
    subst hk0
    constructor <;> grind
  · obtain ⟨m, rfl⟩ : ∃ m, n = m + 1 := ⟨n - 1, by omega⟩
    rw [natCast_succ_sub_one]
    apply lin_between
    · have : (0 : Nat) < m := by omega
      exact_mod_cast (Rat.natCast_lt_natCast.mpr this)
    · exact Rat.natCast_nonneg
    · exact Rat.natCast_le_natCast.mpr (by omega)

theorem foldl_min_le (l : List Rat) (acc : Rat) :
    l.foldl min acc ≤ acc ∧ (∀ x ∈ l, l.foldl min acc ≤ x) ∧ (l.foldl min acc = acc ∨ l.foldl min acc ∈ l) := by
  induction l generalizing acc with
  | nil => simp
  | cons y ys ih =>
    obtain ⟨h1, h2, h3⟩ := ih (min acc y)
    simp only [List.foldl_cons, List.mem_cons, forall_eq_or_imp]
    refine ⟨by grind, ⟨by grind, h2⟩, ?_⟩
    rcases h3 with h3 | h3
    · rcases Rat.le_total (a := acc) (b := y) with hc | hc
      · left; grind
      · right; left; grind
    · right; right; exact h3

theorem foldl_max_ge (l : List Rat) (acc : Rat) :
    acc ≤ l.foldl max acc ∧ (∀ x ∈ l, x ≤ l.foldl max acc) ∧ (l.foldl max acc = acc ∨ l.foldl max acc ∈ l) := by
  induction l generalizing acc with
  | nil => simp
  | cons y ys ih =>
    obtain ⟨h1, h2, h3⟩ := ih (max acc y)
    simp only [List.foldl_cons, List.mem_cons, forall_eq_or_imp]
    refine ⟨by grind, ⟨by grind, h2⟩, ?_⟩
    rcases h3 with h3 | h3
    · rcases Rat.le_total (a := acc) (b := y) with hc | hc
      · right; left; grind
      · left; grind
    · right; right; exact h3

/-- `[min(l), max(l)]` bounds every element of `l` and both ends are elements of `l` -/
theorem listMin_listMax (l : List Rat) (hne : l ≠ []) :
    (∀ x ∈ l, listMin l ≤ x ∧ x ≤ listMax l) ∧ listMin l ∈ l ∧ listMax l ∈ l := by
  cases l with
  | nil => exact absurd rfl hne
  | cons y ys =>
    obtain ⟨a1, a2, a3⟩ := foldl_min_le ys y
    obtain ⟨b1, b2, b3⟩ := foldl_max_ge ys y
    simp only [listMin, listMax, List.mem_cons, forall_eq_or_imp]
    refine ⟨⟨⟨a1, b1⟩, fun x hx => ⟨a2 x hx, b2 x hx⟩⟩, ?_, ?_⟩
    · rcases a3 with h | h
      · left; exact h
      · right; exact h
    · rcases b3 with h | h
      · left; exact h
      · right; exact h

end BlueskyVerif.Pure.StepScan
