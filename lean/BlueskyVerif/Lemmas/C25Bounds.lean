/-
Helper lemmas for C25 (part 4, uses Mathlib's ordered-field structure on ℚ): end points and bounds of
`linspace`, `min`/`max` of a position list.
-/
import BlueskyVerif.Pure.StepScan
import Mathlib.Algebra.Order.Field.Rat
import Mathlib.Tactic.Linarith
import Mathlib.Tactic.FieldSimp
import Mathlib.Tactic.Ring
namespace BlueskyVerif.Pure.StepScan
open BlueskyVerif.Pure

theorem linspace_first (a b : Rat) (n : Nat) (hn : 0 < n) : (linspace a b n)[0]? = some a := by
  simp [linspace, hn]

theorem linspace_last (a b : Rat) (n : Nat) (hn : 2 ≤ n) : (linspace a b n)[n - 1]? = some b := by
  have h1 : n - 1 < n := by omega
  simp only [linspace, List.getElem?_map, List.getElem?_range h1, Option.map_some, Option.some.injEq]
  have hc : ((n - 1 : Nat) : Rat) = (n : Rat) - 1 := by
    rw [Nat.cast_sub (by omega)]; simp
  rw [hc]
  have hne : (n : Rat) - 1 ≠ 0 := by
    have : (2 : Rat) ≤ (n : Rat) := by exact_mod_cast hn
    linarith
  field_simp
  ring

theorem linspace_bounds (a b : Rat) (n : Nat) (x : Rat) (hx : x ∈ linspace a b n) :
    min a b ≤ x ∧ x ≤ max a b := by
  simp only [linspace, List.mem_map, List.mem_range] at hx
  obtain ⟨k, hk, rfl⟩ := hx
  rcases Nat.lt_or_ge n 2 with hn | hn
  · have hk0 : k = 0 := by omega
    subst hk0
    simp
  · have hd : (0 : Rat) < (n : Rat) - 1 := by
      have : (2 : Rat) ≤ (n : Rat) := by exact_mod_cast hn
      linarith
    have hk1 : (k : Rat) ≤ (n : Rat) - 1 := by
      have : (k : Rat) + 1 ≤ (n : Rat) := by exact_mod_cast hk
      linarith
    have hk0 : (0 : Rat) ≤ (k : Rat) := by positivity
    set t : Rat := (k : Rat) / ((n : Rat) - 1) with ht
    have ht0 : 0 ≤ t := div_nonneg hk0 hd.le
    have ht1 : t ≤ 1 := by rw [ht, div_le_iff₀ hd]; linarith
    have hx : a + (k : Rat) * ((b - a) / ((n : Rat) - 1)) = a + t * (b - a) := by
      rw [ht]; field_simp
    rw [hx]
    rcases le_total a b with hab | hab
    · rw [min_eq_left hab, max_eq_right hab]
      constructor <;> nlinarith
    · rw [min_eq_right hab, max_eq_left hab]
      constructor <;> nlinarith


theorem foldl_min_le (l : List Rat) (acc : Rat) :
    l.foldl min acc ≤ acc ∧ (∀ x ∈ l, l.foldl min acc ≤ x) ∧ (l.foldl min acc = acc ∨ l.foldl min acc ∈ l) := by
  induction l generalizing acc with
  | nil => simp
  | cons y ys ih =>
    obtain ⟨h1, h2, h3⟩ := ih (min acc y)
    simp only [List.foldl_cons, List.mem_cons, forall_eq_or_imp]
    refine ⟨le_trans h1 (min_le_left _ _), ⟨le_trans h1 (min_le_right _ _), h2⟩, ?_⟩
    rcases h3 with h3 | h3
    · rcases min_choice acc y with hc | hc
      · left; rw [h3, hc]
      · right; left; rw [h3, hc]
    · right; right; exact h3

theorem foldl_max_ge (l : List Rat) (acc : Rat) :
    acc ≤ l.foldl max acc ∧ (∀ x ∈ l, x ≤ l.foldl max acc) ∧ (l.foldl max acc = acc ∨ l.foldl max acc ∈ l) := by
  induction l generalizing acc with
  | nil => simp
  | cons y ys ih =>
    obtain ⟨h1, h2, h3⟩ := ih (max acc y)
    simp only [List.foldl_cons, List.mem_cons, forall_eq_or_imp]
    refine ⟨le_trans (le_max_left _ _) h1, ⟨le_trans (le_max_right _ _) h1, h2⟩, ?_⟩
    rcases h3 with h3 | h3
    · rcases max_choice acc y with hc | hc
      · left; rw [h3, hc]
      · right; left; rw [h3, hc]
    · right; right; exact h3

/-- `[min(l), max(l)]` bounds every element of `l` and both ends are elements of `l` -/
theorem listMin_listMax (l : List Rat) (hne : l ≠ []) :
    (∀ x ∈ l, listMin l ≤ x ∧ x ≤ listMax l) ∧ listMin l ∈ l ∧ listMax l ∈ l := by
  cases l with
  | nil => exact absurd rfl hne
  | cons y ys =>
    obtain ⟨a1, a2, a3⟩ := foldl_min_le ys y
    obtain ⟨b1, b2, b3⟩ := foldl_max_ge ys y
    simp only [listMin, listMax, List.mem_cons, forall_eq_or_imp]
    refine ⟨⟨⟨a1, b1⟩, fun x hx => ⟨a2 x hx, b2 x hx⟩⟩, ?_, ?_⟩
    · rcases a3 with h | h
      · left; exact h
      · right; exact h
    · rcases b3 with h | h
      · left; exact h
      · right; exact h

end BlueskyVerif.Pure.StepScan
