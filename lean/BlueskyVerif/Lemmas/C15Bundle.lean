/-
C15 helper lemmas, part 1: the ghost "accepted readings" history variable and the invariant that
ties it to `_read_cache` / `_objs_read`; what `save` emits.
-/
import BlueskyVerif.Lemmas.BundlerKeepsBundle

namespace BlueskyVerif.Bundler
open Generated

/-- the bundle fields are untouched -/
def KeepsBundle (s s' : BState) : Prop :=
  s'.readCache = s.readCache ∧ s'.objsRead = s.objsRead ∧ s'.bundleName = s.bundleName ∧ s'.bundling = s.bundling

theorem kb {w : World} {s s' : BState} (h : KeepsBundle.Keeps w s s') : KeepsBundle s s' := by
  unfold KeepsBundle.Keeps KeepsBundle.proj at h
  simp only [Prod.mk.injEq] at h
  exact h

def Op.touchesBundle (op : Op) : Bool := KeepsBundle.touches op

theorem keeps_step (w : World) (s : BState) (op : Op) (h : op.touchesBundle = false) :
    KeepsBundle s (step w s op).st := kb (KeepsBundle.keeps_step w s op h)

theorem keeps_ensureCached (w : World) (s : BState) (o : Obj) (c : Bool) :
    KeepsBundle s (ensureCached w s o c).st := kb (KeepsBundle.keeps_ensureCached w s o c)

/-! ### the history variable -/

/-- The readings accepted into the currently open bundle, as a function of the history only:
    a `create` issued while no bundle is open empties it; a `read` issued while a bundle is open and
    not rejected (no exception) appends its reading; nothing else changes it. -/
def acceptedStep (w : World) (s : BState) (acc : List (Obj × Reading)) (op : Op) : List (Obj × Reading) :=
  match op with
  | .create _ => if s.bundling then acc else []
  | .read o rd => if s.bundling && (step w s op).err.isNone then acc ++ [(o, rd)] else acc
  | _ => acc

/-- run a history, returning the final state together with the accepted readings -/
def runAcc (w : World) : BState → List (Obj × Reading) → List Op → BState × List (Obj × Reading)
  | s, acc, [] => (s, acc)
  | s, acc, op :: ops => runAcc w (step w s op).st (acceptedStep w s acc op) ops

theorem runAcc_fst (w : World) (s : BState) (acc : List (Obj × Reading)) (ops : List Op) :
    (runAcc w s acc ops).1 = (runFrom w s ops).1 := by
  induction ops generalizing s acc with
  | nil => rfl
  | cons op ops ih => simp only [runAcc, runFrom]; exact ih _ _

/-- while a bundle is open the caches are exactly the accepted readings -/
def BundleInv (s : BState) (acc : List (Obj × Reading)) : Prop :=
  s.bundling = true → s.readCache = acc.map Prod.snd ∧ s.objsRead = acc.map Prod.fst

theorem save_not_bundling (w : World) (s : BState) : (save w s).st.bundling = false := by
  unfold save
  split
  · simp_all
  · split
    · simp only [Res.ok_st]; split <;> simp_all [saveEmptyClearsBundle]
    · split
      · rfl
      · rename_i n hn
        have h1 := kb (KeepsBundle.keeps_andThen w _
          (saveDescriptor w { s with bundling := false, bundleName := none } n s.objsRead)
          (fun s' => saveEvent s' n (mergeReadings s.readCache)) (KeepsBundle.keeps_saveDescriptor ..)
          (fun s' => KeepsBundle.keeps_saveEvent ..))
        rw [h1.2.2.2]

theorem drop_not_bundling (s : BState) : (drop s).st.bundling = false := by
  unfold drop; split <;> simp_all

theorem rewindOp_not_bundling (s : BState) : (rewindOp s).bundling = false := by
  unfold rewindOp
  simp [rewindCancelsBundle]

theorem read_effect (w : World) (s : BState) (o : Obj) (rd : Reading) (hb : s.bundling = true) :
    (read w s o rd).st.bundling = true ∧
    (((read w s o rd).err = none ∧ (read w s o rd).st.readCache = s.readCache ++ [rd] ∧
        (read w s o rd).st.objsRead = s.objsRead ++ [o]) ∨
     ((read w s o rd).err ≠ none ∧ (read w s o rd).st.readCache = s.readCache ∧
        (read w s o rd).st.objsRead = s.objsRead)) := by
  unfold read
  simp only [hb, Bool.not_true, Bool.false_eq_true, if_false]
  have hk := keeps_ensureCached w s o false
  cases he : (ensureCached w s o false).err with
  | some e =>
    rw [Res.andThen_of_err _ _ _ he]
    exact ⟨by rw [hk.2.2.2, hb], Or.inr ⟨by simp [he], hk.1, hk.2.1⟩⟩
  | none =>
    rw [Res.andThen_of_ok _ _ he]
    simp only
    split
    · simp only [Res.fail_st, Res.fail_err]
      exact ⟨by rw [hk.2.2.2, hb], Or.inr ⟨by simp, hk.1, hk.2.1⟩⟩
    · simp only [Res.ok_st, Res.ok_err]
      exact ⟨by rw [hk.2.2.2, hb], Or.inl ⟨trivial, by rw [hk.1], by rw [hk.2.1]⟩⟩

theorem read_not_bundling (w : World) (s : BState) (o : Obj) (rd : Reading) (hb : s.bundling = false) :
    read w s o rd = Res.ok s := by
  unfold read; simp [hb]

theorem create_effect (s : BState) (n : Option Name) :
    (s.bundling = true → (create s n).st = s) ∧
    (s.bundling = false → (create s n).st.readCache = [] ∧ (create s n).st.objsRead = []) := by
  unfold create
  constructor
  · intro h; simp [h]
  · intro h
    simp only [h, Bool.false_eq_true, if_false]
    cases n with
    | none => simp
    | some n => simp only; split <;> simp

/-- one step preserves the invariant -/
theorem bundleInv_step (w : World) (s : BState) (acc : List (Obj × Reading)) (op : Op)
    (h : BundleInv s acc) : BundleInv (step w s op).st (acceptedStep w s acc op) := by
  by_cases ht : op.touchesBundle = false
  · have hk := keeps_step w s op ht
    have hacc : acceptedStep w s acc op = acc := by
      cases op <;> simp [Op.touchesBundle, KeepsBundle.touches] at ht <;> rfl
    rw [hacc]
    intro hb
    rw [hk.2.2.2] at hb
    rw [hk.1, hk.2.1]; exact h hb
  · cases op <;> simp [Op.touchesBundle, KeepsBundle.touches] at ht
    · -- create
      rename_i n
      simp only [step, acceptedStep]
      cases hb : s.bundling with
      | true =>
        rw [(create_effect s n).1 hb]; simp only [if_true]; exact h
      | false =>
        simp only [Bool.false_eq_true, if_false]
        intro _
        have := (create_effect s n).2 hb
        simp [this.1, this.2]
    · -- read
      rename_i o rd
      simp only [acceptedStep]
      cases hb : s.bundling with
      | false =>
        simp only [step, read_not_bundling w s o rd hb, Res.ok_st, Bool.false_and, Bool.false_eq_true, if_false]
        exact h
      | true =>
        simp only [step, Bool.true_and]
        obtain ⟨_, hr⟩ := read_effect w s o rd hb
        obtain ⟨h1, h2⟩ := h hb
        rcases hr with ⟨he, hc, ho⟩ | ⟨he, hc, ho⟩
        · simp only [he, Option.isNone_none, if_true]
          intro _; simp [hc, ho, h1, h2]
        · have : (read w s o rd).err.isNone = false := by
            cases hh : (read w s o rd).err <;> simp_all
          simp only [this, Bool.false_eq_true, if_false]
          intro _; rw [hc, ho]; exact ⟨h1, h2⟩
    · -- save
      intro hb; simp only [step] at hb; rw [save_not_bundling] at hb; cases hb
    · -- drop
      intro hb; simp only [step] at hb; rw [drop_not_bundling] at hb; cases hb
    · -- rewind
      intro hb; simp only [step, Res.ok_st] at hb; rw [rewindOp_not_bundling] at hb; cases hb

theorem bundleInv_run (w : World) (s : BState) (acc : List (Obj × Reading)) (ops : List Op)
    (h : BundleInv s acc) : BundleInv (runAcc w s acc ops).1 (runAcc w s acc ops).2 := by
  induction ops generalizing s acc with
  | nil => exact h
  | cons op ops ih => simp only [runAcc]; exact ih _ _ (bundleInv_step w s acc op h)

end BlueskyVerif.Bundler
