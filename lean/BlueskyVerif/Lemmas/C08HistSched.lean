/-
C08 helper lemmas: the history invariant `J` through `advance`, the requests and the scheduler.
-/
import BlueskyVerif.Lemmas.C08HistRun

namespace BlueskyVerif.Engine

section
variable {bt : List (St × St)} {nr : Nat}

theorem J.notPaused_of_pc {s : EState} (hj : J bt nr s) (h1 : s.pc ≠ .pausedWait) (h2 : s.pc ≠ .exitSleep)
    (h3 : s.pc ≠ .finished) : s.state ≠ .paused := by
  intro hp
  rcases (hj.2.2.1 hp).1 with h | h | h
  · exact h1 h
  · exact h2 h
  · exact h3 h

theorem advanceAt_J (n : Nat) (c : Bool) (s0 : EState) (hj : J bt nr s0) : J bt nr (advanceAt n c s0) := by
  unfold advanceAt
  split
  · exact hj
  · exact hj
  · rename_i hpc
    split
    · exact hj
    · rename_i hperm
      have hperm' : s0.permit = true := by simpa using hperm
      have hnp : ¬ (s0.state = .paused ∧ s0.permit = false) := fun h => by rw [hperm'] at h; cases h.2
      split
      · rename_i s' hs
        have hj0 : J bt nr { s0 with stashed := none, reason := "", exitReason := "", exitExc := none, planDone := false } :=
          hj.of_same ⟨rfl, rfl, rfl, rfl, rfl, rfl⟩
        refine runLoop_J _ _ ⟨hj0.assign hs (by decide) (by decide) (by decide) (fun h1 h2 => absurd ⟨h1, h2⟩ hnp), ?_⟩
        rw [(setState_keep hs).1]; decide
      · exact contFlow_J _ _ (leaveLoop_J _ _ hj hnp)
  · rename_i hpc
    have hl : L bt nr s0 := ⟨hj, hj.notPaused_of_pc (by rw [hpc]; simp) (by rw [hpc]; simp) (by rw [hpc]; simp)⟩
    split
    · exact contFlow_J _ _ (hCancel_H _ _ hl)
    · exact contFlow_J _ _ (afterSleep_H _ hl)
  · rename_i hpc
    have hl : L bt nr s0 := ⟨hj, hj.notPaused_of_pc (by rw [hpc]; simp) (by rw [hpc]; simp) (by rw [hpc]; simp)⟩
    split
    · exact contFlow_J _ _ (hCancel_H _ _ hl)
    · exact runLoop_J _ _ (L.of_same (fin_sameJ _ _) hl)
  · rename_i hpc
    have hl : L bt nr s0 := ⟨hj, hj.notPaused_of_pc (by rw [hpc]; simp) (by rw [hpc]; simp) (by rw [hpc]; simp)⟩
    split
    · exact contFlow_J _ _ (hCancel_H _ _ hl)
    · split
      · rename_i s' hs
        obtain ⟨j, hsp⟩ := requestPause_J hs hl.1
        exact runLoop_J _ _ (L.of_same (fin_sameJ _ _) ⟨j, hsp hl.2⟩)
      · exact runLoop_J _ _ (L.of_same (fin_sameJ _ _) hl)
  · rename_i g hpc
    have hl : L bt nr s0 := ⟨hj, hj.notPaused_of_pc (by rw [hpc]; simp) (by rw [hpc]; simp) (by rw [hpc]; simp)⟩
    split
    · exact contFlow_J _ _ (hCancel_H _ _ hl)
    · simp only []
      split
      · exact runLoop_J _ _ (L.of_same (fin_sameJ _ _) hl)
      · split
        · exact runLoop_J _ _ (L.of_same (fin_sameJ _ _) (L.core (b := s0) rfl rfl rfl rfl hl))
        · exact hj
  · rename_i f hpc
    have hl : L bt nr s0 := ⟨hj, hj.notPaused_of_pc (by rw [hpc]; simp) (by rw [hpc]; simp) (by rw [hpc]; simp)⟩
    split
    · exact contFlow_J _ _ (hCancel_H _ _ hl)
    · split
      · exact runLoop_J _ _ (L.of_same (fin_sameJ _ _) hl)
      · exact hj
  · rename_i hpc
    split
    · exact hj
    · rename_i hperm
      have hperm' : s0.permit = true := by simpa using hperm
      have hnp : ¬ (s0.state = .paused ∧ s0.permit = false) := fun h => by rw [hperm'] at h; cases h.2
      split
      · exact contFlow_J _ _ (leaveLoop_J _ _ hj hnp)
      · simp only []
        have hsame : SameJ (forBundlers s0 restoreMonitors) s0 :=
          SameJ.of_ctl (ctl_forBundlers _ ctl_restoreMonitors _) (rf_forBundlers_restore s0)
        have hjr : J bt nr (forBundlers s0 restoreMonitors) := hj.of_same hsame
        have hnpr : ¬ ((forBundlers s0 restoreMonitors).state = .paused ∧ (forBundlers s0 restoreMonitors).permit = false) := by
          rw [hsame.1, hsame.2.2.1]; exact hnp
        split
        · exact contFlow_J _ _ (leaveLoop_J _ _ hjr hnpr)
        · rename_i s' hs
          have hs' : L bt nr s' := by
            split at hs
            · refine ⟨hjr.assign hs (by decide) (by decide) (by decide) (fun h1 h2 => absurd ⟨h1, h2⟩ hnpr), ?_⟩
              rw [(setState_keep hs).1]; decide
            · rename_i hne
              cases hs
              exact ⟨hjr, by simpa using hne⟩
          split
          · exact J.of_core (b := s') rfl rfl rfl rfl hs'.2 hs'.1
          · exact contFlow_J _ _ (afterSleep_H _ (L.core (b := s') rfl rfl rfl rfl hs'))
  · rename_i hpc
    split
    · exact finish_J _ (hj.of_same (a := { s0 with stashed := some .cancelled, exitExc := some .cancelled }) ⟨rfl, rfl, rfl, rfl, rfl, rfl⟩)
        (by show s0.pc ≠ _; rw [hpc]; simp)
    · exact finish_J _ hj (by rw [hpc]; simp)

theorem advance_J (n : Nat) (s : EState) (hj : J bt nr s) : J bt nr (advance n s) :=
  advanceAt_J n _ _ (hj.of_same (a := { s with cancelPending := false }) ⟨rfl, rfl, rfl, rfl, rfl, rfl⟩)

/-! ### requests -/

theorem J.termStep {s s' : EState} {x n : St} (hj : J bt nr s) (ht : s'.trans = s.trans ++ [(x, n)])
    (hn : n.terminating = true) (hr : s'.refused = s.refused) (hs : s'.state = n) : J bt nr s' := by
  obtain ⟨⟨l, hl⟩, b2, _, _⟩ := hj
  have hnew : s'.trans = bt ++ (l ++ [(x, n)]) := by rw [ht, hl, List.append_assoc]
  refine ⟨⟨_, hnew⟩, hr ▸ b2, ?_, fun _ => Or.inl (Or.inl ⟨_, hnew, (x, n), by simp, hn⟩)⟩
  intro hp; rw [hs] at hp; rw [hp] at hn; cases hn

theorem J.refusedStep {s s' : EState} {w : String} (hj : J bt nr s) (ht : s'.trans = s.trans)
    (hr : s'.refused = s.refused ++ [w]) (hs : s'.state = s.state) (hp : s'.permit = s.permit) (hpc : s'.pc = s.pc) :
    J bt nr s' := by
  obtain ⟨⟨l, hl⟩, b2, b3, _⟩ := hj
  have hlen : nr < s'.refused.length := by
    rw [hr, List.length_append]; exact Nat.lt_of_le_of_lt b2 (by simp)
  refine ⟨⟨l, ht.trans hl⟩, Nat.le_of_lt hlen, ?_, fun _ => Or.inl (Or.inr (Or.inr hlen))⟩
  intro h; rw [hpc, hp]; exact b3 (hs ▸ h)

theorem termTarget_terminating (k : String) : (termTarget k).1.terminating = true := by
  unfold termTarget
  split
  · rfl
  · split <;> rfl

theorem termAfter_sameJ (s : EState) (k : String) (w : Bool) : SameJ (termAfter s k w) s := by
  unfold termAfter
  split
  · simp only []; split <;> exact ⟨rfl, rfl, rfl, rfl, rfl, rfl⟩
  · exact ⟨rfl, rfl, rfl, rfl, rfl, rfl⟩

theorem termPrep_keepJ (s : EState) (k r : String) :
    (termPrep s k r).state = s.state ∧ (termPrep s k r).permit = s.permit ∧ (termPrep s k r).pc = s.pc ∧
    (termPrep s k r).trans = s.trans ∧ (termPrep s k r).refused = s.refused := by
  unfold termPrep; simp only []; split <;> exact ⟨rfl, rfl, rfl, rfl, rfl⟩

theorem requestTerminate_J (s : EState) (k r : String) (hj : J bt nr s) : J bt nr (requestTerminate s k r) := by
  unfold requestTerminate
  split
  · exact hj.afterRefuse k
  · obtain ⟨p1, p2, p3, p4, p5⟩ := termPrep_keepJ s k r
    split
    · exact hj.afterRefuse k
    · rename_i s' hs
      obtain ⟨k1, _, _, _, _, _, _, _, _, _, _, _, k13⟩ := setState_keep hs
      obtain ⟨_, _, _, j4, _⟩ := setState_keep2 hs
      have hj' : J bt nr s' := hj.termStep (by rw [k13, p4]) (termTarget_terminating k) (j4.trans p5) k1
      exact hj'.of_same (termAfter_sameJ s' k _)

theorem pushSuspender_J (f : Nat) (pre post : Option Gen) (j : Option String) (s : EState) (hj : J bt nr s) :
    J bt nr (pushSuspender f pre post j s) := by
  unfold pushSuspender
  simp only []
  split
  · rename_i hne
    have hne' : s.state ≠ .paused := by simpa using hne
    split
    · rename_i s' hs
      have hj3 := J.assign hs (J.of_same ⟨rfl, rfl, rfl, rfl, rfl, rfl⟩ hj) (by decide) (by decide) (by decide)
        (fun h _ => absurd h hne')
      exact hj3.of_same ⟨rfl, rfl, rfl, rfl, rfl, rfl⟩
    · exact J.refusedStep hj rfl rfl rfl rfl rfl
  · exact hj.of_same ⟨rfl, rfl, rfl, rfl, rfl, rfl⟩

theorem requestSuspend_J (s : EState) (f : Nat) (pre post : Option Gen) (j : Option String) (hj : J bt nr s) :
    J bt nr (requestSuspend s f pre post j) := by
  unfold requestSuspend
  split
  · simp only []
    split
    · exact hj.refusedStep (s' := refuse { s with interrupted := true, exceptionSlot := some .failedPause } "suspend")
        rfl rfl rfl rfl rfl
    · rename_i s' hs
      obtain ⟨k1, _, _, _, _, _, _, _, _, _, _, _, k13⟩ := setState_keep hs
      obtain ⟨_, _, _, j4, _⟩ := setState_keep2 hs
      have hj' : J bt nr s' := hj.termStep (x := s.state) k13 rfl j4 k1
      apply pushSuspender_J
      split
      · exact hj'.of_same ⟨rfl, rfl, rfl, rfl, rfl, rfl⟩
      · exact hj'
  · exact pushSuspender_J f pre post j s hj

theorem completeStatus_sameJ (s : EState) (k : Nat) : SameJ (completeStatus s k) s := by
  unfold completeStatus
  split
  · exact SameJ.refl s
  · split
    · exact SameJ.refl s
    · split <;> exact ⟨rfl, rfl, rfl, rfl, rfl, rfl⟩

theorem J.foldl {α} (f : EState → α → EState) (h : ∀ s a, J bt nr s → J bt nr (f s a)) (l : List α) (s : EState)
    (hj : J bt nr s) : J bt nr (l.foldl f s) := by
  induction l generalizing s with
  | nil => exact hj
  | cons a l ih => rw [List.foldl_cons]; exact ih _ (h s a hj)

theorem flushCompletions_J (s : EState) (hj : J bt nr s) : J bt nr (flushCompletions s) := by
  unfold flushCompletions
  apply J.foldl
  · intro s k h; exact h.of_same (completeStatus_sameJ s k)
  · exact hj.of_same ⟨rfl, rfl, rfl, rfl, rfl, rfl⟩

theorem monitorUpdate_J (s : EState) (sig : String) (v : Int) (hj : J bt nr s) : J bt nr (monitorUpdate s sig v) := by
  unfold monitorUpdate
  simp only []
  apply J.foldl
  · intro s a h
    split
    · exact h.afterRefuse _
    · exact h.of_same ⟨rfl, rfl, rfl, rfl, rfl, rfl⟩
  · exact hj.of_same ⟨rfl, rfl, rfl, rfl, rfl, rfl⟩

theorem applyAction_J (s : EState) (a : Action) (hj : J bt nr s) : J bt nr (applyAction s a) := by
  cases a with
  | pause d =>
    simp only [applyAction]; split
    · rename_i s' h; exact (requestPause_J h hj).1
    · exact hj.afterRefuse _
  | suspend f pre post j => exact requestSuspend_J s f pre post j hj
  | release f => simp only [applyAction]; split <;> exact hj.of_same ⟨rfl, rfl, rfl, rfl, rfl, rfl⟩
  | abort => exact requestTerminate_J s _ _ hj
  | stop => exact requestTerminate_J s _ _ hj
  | halt => exact requestTerminate_J s _ _ hj
  | status k ok =>
    simp only [applyAction]; split
    · split
      · exact hj
      · exact (hj.of_same (a := { s with statuses := s.statuses.set k _ }) ⟨rfl, rfl, rfl, rfl, rfl, rfl⟩).of_same
          (completeStatus_sameJ _ _)
    · exact hj
  | monitor sig v => exact monitorUpdate_J s sig v hj

theorem releaseAll_J (s : EState) (hj : J bt nr s) : J bt nr (releaseAll s).1 := by
  unfold releaseAll
  simp only []
  apply J.foldl _ (fun s f h => applyAction_J s _ h)
  exact J.foldl _ (fun s k h => applyAction_J s _ h) _ _ hj

theorem schedule_J (maxArr : Nat) (sc : Script) (fuel : Nat) (s : EState) (hj : J bt nr s) :
    J bt nr (schedule maxArr sc fuel s) := by
  induction fuel generalizing s with
  | zero => unfold schedule; exact hj.afterRefuse _
  | succ n ih =>
    unfold schedule
    split
    · exact hj
    · have arrive : J bt nr (schedule maxArr sc n (advance 4000
            (if s.arrivals.length >= maxArr then
                applyAction (flushCompletions { s with arrivals := s.arrivals ++ [arrivalKind s.pc] }) .halt
             else (orderActions (scriptAt sc s.arrivals.length)).foldl applyAction
                (flushCompletions { s with arrivals := s.arrivals ++ [arrivalKind s.pc] })))) := by
        apply ih
        apply advance_J
        have h1 : J bt nr (flushCompletions { s with arrivals := s.arrivals ++ [arrivalKind s.pc] }) :=
          flushCompletions_J _ (hj.of_same ⟨rfl, rfl, rfl, rfl, rfl, rfl⟩)
        split
        · exact applyAction_J _ _ h1
        · exact J.foldl _ applyAction_J _ _ h1
      have waiting : J bt nr (let s1 := flushCompletions s
            let s' := advance 4000 s1
            if s'.pc == s1.pc && !s'.blockingEvent && s'.msgs.length == s1.msgs.length then
              let n' := s'.arrivals.length
              let s'' := { s' with arrivals := s'.arrivals ++ ["quiesce"] }
              if n' >= maxArr then schedule maxArr sc n (applyAction s'' .halt) else
              match scriptAt sc n' with
              | [] =>
                let (s3, did) := releaseAll s''
                schedule maxArr sc n (if did then s3 else applyAction s3 .halt)
              | as => schedule maxArr sc n ((orderActions as).foldl applyAction s'')
            else schedule maxArr sc n s') := by
        simp only []
        have hadv : J bt nr (advance 4000 (flushCompletions s)) := advance_J _ _ (flushCompletions_J _ hj)
        have h2 : J bt nr { advance 4000 (flushCompletions s) with
            arrivals := (advance 4000 (flushCompletions s)).arrivals ++ ["quiesce"] } :=
          hadv.of_same ⟨rfl, rfl, rfl, rfl, rfl, rfl⟩
        split
        · split
          · exact ih _ (applyAction_J _ _ h2)
          · split
            · apply ih
              split
              · exact releaseAll_J _ h2
              · exact applyAction_J _ _ (releaseAll_J _ h2)
            · exact ih _ (J.foldl _ applyAction_J _ _ h2)
        · exact ih _ hadv
      split
      · exact hj
      · exact hj
      · split
        · exact ih _ (advance_J _ _ hj)
        · exact hj
      · exact ih _ (advance_J _ _ hj)
      · exact arrive
      · exact arrive
      · exact arrive
      · exact arrive
      · exact waiting
      · exact waiting

end

/-! ### entry points -/

theorem startCall_J (s0 : EState) (plan : Gen) (h : s0.state = .idle) :
    J s0.trans s0.refused.length (startCall s0 plan) := by
  refine ⟨⟨[], by simp [startCall]⟩, Nat.le_refl _, ?_, ?_⟩
  · intro hp
    have : s0.state = .paused := hp
    rw [h] at this; cases this
  · intro hi; cases hi

theorem startResume_J (s : EState) (hs : s.state = .paused) (hp : s.pc = .pausedWait) :
    J s.trans s.refused.length (startResume s) := by
  obtain ⟨k1, k2, _⟩ := startResume_same s
  have ht : (startResume s).trans = s.trans := by
    unfold startResume
    simp only []
    show (resumeHooks _).trans = s.trans
    rw [tr_resumeHooks]
    show (rewindPlan _).2.trans = s.trans
    rw [tr_rewindPlan, tr_forBundlers_ri]
  have hr : (startResume s).refused = s.refused := by
    unfold startResume
    simp only []
    show (resumeHooks _).refused = s.refused
    rw [rf_resumeHooks]
    show (rewindPlan _).2.refused = s.refused
    rw [rf_rewindPlan, rf_forBundlers_ri]
  have hi : (startResume s).interrupted = false := by
    unfold startResume
    simp only []
    show (resumeHooks _).interrupted = false
    rw [ir_resumeHooks]
    show (rewindPlan _).2.interrupted = false
    rw [ir_rewindPlan, ir_forBundlers_ri]
  refine ⟨⟨[], by rw [ht]; simp⟩, by rw [hr]; exact Nat.le_refl _, ?_, ?_⟩
  · intro _; exact ⟨Or.inl (k2.trans hp), fun _ => k2.trans hp⟩
  · intro h; rw [hi] at h; cases h

end BlueskyVerif.Engine
