/-
C09 helper: who touches `_deferred_pause_requested`.  Only `_request_pause_coro` (reached through the `pause`
command, the request API and the end of `_checkpoint`'s sleep) and `RE.__call__` do.
-/
import BlueskyVerif.Lemmas.C09Steps
import BlueskyVerif.Lemmas.EngineBE

namespace BlueskyVerif.Engine

theorem dp_of_ctl {s s' : EState} (h : ctl s' = ctl s) : s'.deferredPause = s.deferredPause :=
  congrArg Ctl.deferredPause h

@[simp] theorem dp_logCall (s : EState) (c : Call) : (s.logCall c).deferredPause = s.deferredPause := rfl
@[simp] theorem dp_emit (s : EState) (d : Doc) : (s.emit d).deferredPause = s.deferredPause := rfl
@[simp] theorem dp_setDev (s : EState) (n : String) (d : DevState) : (setDev s n d).deferredPause = s.deferredPause := rfl
@[simp] theorem dp_nextMode (s : EState) (n op : String) : (nextMode s n op).2.deferredPause = s.deferredPause := rfl
@[simp] theorem dp_putBundler (s : EState) (m : Msg) (b : Bundler) : (putBundler s m b).deferredPause = s.deferredPause := rfl
@[simp] theorem dp_emitEvent (s : EState) (b : Bundler) (st : String) (d : List (String × Int)) (n : String) :
    (emitEvent s b st d n).1.deferredPause = s.deferredPause := rfl
@[simp] theorem dp_prepareStream (s : EState) (b : Bundler) (st : String) (o : List String) :
    (prepareStream s b st o).1.deferredPause = s.deferredPause := rfl
@[simp] theorem dp_closeRunDoc (s : EState) (b : Bundler) (e r : String) :
    (closeRunDoc s b e r).1.deferredPause = s.deferredPause := dp_of_ctl (ctl_closeRunDoc s b e r)
@[simp] theorem dp_resetCheckpointMeth (s : EState) : (resetCheckpointMeth s).deferredPause = s.deferredPause :=
  dp_of_ctl (ctl_resetCheckpointMeth s)
@[simp] theorem dp_stopMovables (s : EState) : (stopMovables s).deferredPause = s.deferredPause := dp_of_ctl (ctl_stopMovables s)
@[simp] theorem dp_pauseHooks (s : EState) : (pauseHooks s).deferredPause = s.deferredPause := dp_of_ctl (ctl_pauseHooks s)
@[simp] theorem dp_resumeHooks (s : EState) : (resumeHooks s).deferredPause = s.deferredPause := dp_of_ctl (ctl_resumeHooks s)
@[simp] theorem dp_rewindPlan (s : EState) : (rewindPlan s).2.deferredPause = s.deferredPause := dp_of_ctl (ctl_rewindPlan s)
@[simp] theorem dp_newStatus (s : EState) (d o m : String) (g : Option String) :
    (newStatus s d o m g).2.deferredPause = s.deferredPause := rfl
@[simp] theorem dp_forBundlers_ri (s : EState) (c : String) :
    (forBundlers s (fun s b => recordInterruption s b c)).deferredPause = s.deferredPause :=
  dp_of_ctl (ctl_forBundlers _ (fun s b => ctl_recordInterruption s b c) _)
@[simp] theorem dp_forBundlers_restore (s : EState) : (forBundlers s restoreMonitors).deferredPause = s.deferredPause :=
  dp_of_ctl (ctl_forBundlers _ ctl_restoreMonitors _)
@[simp] theorem dp_forBundlers_suspend (s : EState) : (forBundlers s suspendMonitors).deferredPause = s.deferredPause :=
  dp_of_ctl (ctl_forBundlers _ ctl_suspendMonitors _)
@[simp] theorem dp_forBundlers_clear (s : EState) : (forBundlers s clearMonitors).deferredPause = s.deferredPause :=
  dp_of_ctl (ctl_forBundlers _ ctl_clearMonitors _)
@[simp] theorem dp_forBundlers_pure (s : EState) (g : Bundler → Bundler) :
    (forBundlers s (fun s b => (s, g b))).deferredPause = s.deferredPause :=
  dp_of_ctl (ctl_forBundlers _ (fun _ _ => rfl) _)

macro "frame_dp" : tactic =>
  `(tactic| repeat' (first | rfl | (simp; done) | split | (simp only []; (first | rfl | split))))

/-- `_request_pause_coro`: the flag becomes the `defer` argument when the request is accepted -/
theorem requestPause_dp {s s' : EState} {d : Bool} (h : requestPause s d = .ok s') : s'.deferredPause = d := by
  unfold requestPause at h
  split at h
  · cases h
  · split at h
    · rename_i hd; cases h; exact hd.symm
    · rename_i hd
      split at h
      · cases h
      · rename_i s1 hs
        cases h
        show (forBundlers s1 _).deferredPause = d
        rw [dp_forBundlers_ri]
        unfold setState at hs
        split at hs
        · cases hs
          show false = d
          cases d
          · rfl
          · exact absurd rfl hd
        · cases hs

/-- no command handler other than `pause` touches the flag -/
theorem runCommand_dp (s : EState) (m : Msg) (h : m.cmd ≠ "pause") :
    (runCommand s m).1.deferredPause = s.deferredPause := by
  unfold runCommand
  split
  · unfold cmdOpenRun; frame_dp
  · unfold cmdCloseRun; frame_dp
  · unfold cmdCreate; frame_dp
  · unfold cmdRead; frame_dp
  · unfold cmdSave; frame_dp
  · unfold cmdDrop; frame_dp
  · unfold cmdCheckpoint; frame_dp
  · unfold cmdClearCheckpoint; frame_dp
  · unfold cmdRewindable; frame_dp
  · unfold cmdSet; frame_dp
  · unfold cmdTrigger; frame_dp
  · unfold cmdWait; frame_dp
  · rfl
  · unfold cmdStage; frame_dp
  · unfold cmdStage; frame_dp
  · unfold cmdMonitor; frame_dp
  · unfold cmdUnmonitor; frame_dp
  · rfl
  · rename_i hp; exact absurd hp h
  · unfold cmdStartSuspender; frame_dp
  · unfold cmdResumeFromSuspender; frame_dp
  · unfold cmdWaitFor; frame_dp
  · rfl

theorem noteMsg_dp (s : EState) (m : Msg) : (noteMsg s m).deferredPause = s.deferredPause := by
  unfold noteMsg; frame_dp

theorem fin_dp (s : EState) (r : Resp) : (fin s r).deferredPause = s.deferredPause := by
  unfold fin; split <;> rfl

theorem leaveLoop_dp (s : EState) (e : Exc) : (leaveLoop s e).deferredPause = s.deferredPause := by
  unfold leaveLoop; simp only []; split <;> rfl

theorem takeResp_dp (s : EState) (r : Resp) (rs : List Resp) : (takeResp s r rs).deferredPause = s.deferredPause := by
  unfold takeResp; frame_dp

theorem logYield_dp (s : EState) (g : Gen) (i : Inp) : (logYield s g i).deferredPause = s.deferredPause := by
  unfold logYield; frame_dp

theorem cleanup_dp (s : EState) : (cleanup s).deferredPause = s.deferredPause := by
  unfold cleanup
  simp only []
  have hb : (cleanupBody s).deferredPause = s.deferredPause := dp_of_ctl (cleanupBody_ctl s)
  split
  · rename_i s' hs
    unfold setState at hs
    split at hs
    · cases hs; exact hb
    · cases hs
  · exact hb

theorem finishTask_dp (s : EState) : (finishTask s).deferredPause = s.deferredPause := rfl

def Flow.state : Flow → EState
  | .loopTop s => s
  | .stop s => s

theorem popPlan_dp (s : EState) (how : Option Exc) : (popPlan s how).state.deferredPause = s.deferredPause := by
  unfold popPlan; simp only []
  split
  · simp only [Flow.state, leaveLoop_dp]
  · split <;> rfl

theorem hCancel_dp (s : EState) (r : Resp) : (hCancel s r).state.deferredPause = s.deferredPause := by
  unfold hCancel
  repeat' split
  all_goals simp only [Flow.state, fin_dp, leaveLoop_dp]

theorem pauseBlock_dp (s : EState) : (pauseBlock s).state.deferredPause = s.deferredPause := by
  unfold pauseBlock
  simp only []
  split
  · simp only [Flow.state, leaveLoop_dp, dp_pauseHooks, dp_stopMovables, dp_forBundlers_suspend]
  · rename_i s' hs
    simp only [Flow.state]
    unfold setState at hs
    split at hs
    · cases hs
      show (pauseHooks _).deferredPause = _
      rw [dp_pauseHooks, dp_stopMovables, dp_forBundlers_suspend]
    · cases hs

/-- processing any message other than `pause` leaves the flag alone -/
theorem processMsg_dp (s : EState) (m : Msg) (h : m.cmd ≠ "pause") :
    (processMsg s m).state.deferredPause = s.deferredPause := by
  unfold processMsg
  simp only []
  split
  · simp only [Flow.state, fin_dp, noteMsg_dp]
  · have := runCommand_dp (noteMsg s m) m h
    generalize runCommand (noteMsg s m) m = p at this
    obtain ⟨s1, o⟩ := p
    cases o <;> simp only [afterCommand, Flow.state, fin_dp] <;> rw [← noteMsg_dp s m] <;> exact this

/-! the requests -/

theorem refuse_dp (s : EState) (w : String) : (refuse s w).deferredPause = s.deferredPause := rfl

theorem requestTerminate_dp (s : EState) (k r : String) : (requestTerminate s k r).deferredPause = s.deferredPause := by
  unfold requestTerminate
  split
  · rfl
  · have hp : (termPrep s k r).deferredPause = s.deferredPause := by unfold termPrep; frame_dp
    split
    · rfl
    · rename_i s' hs
      have ha : ∀ (x : EState) (w : Bool), (termAfter x k w).deferredPause = x.deferredPause := by
        intro x w; unfold termAfter; frame_dp
      rw [ha]
      unfold setState at hs
      split at hs
      · cases hs; exact hp
      · cases hs

theorem pushSuspender_dp (f : Nat) (pre post : Option Gen) (j : Option String) (s : EState) :
    (pushSuspender f pre post j s).deferredPause = s.deferredPause := by
  unfold pushSuspender
  simp only []
  split
  · split
    · rename_i s' hs
      unfold setState at hs
      split at hs
      · cases hs; rfl
      · cases hs
    · rfl
  · rfl

theorem requestSuspend_dp (s : EState) (f : Nat) (pre post : Option Gen) (j : Option String) :
    (requestSuspend s f pre post j).deferredPause = s.deferredPause := by
  unfold requestSuspend
  split
  · simp only []
    split
    · rfl
    · rename_i s' hs
      have : s'.deferredPause = s.deferredPause := by
        unfold setState at hs
        split at hs
        · cases hs; rfl
        · cases hs
      split <;> (rw [pushSuspender_dp]; exact this)
  · exact pushSuspender_dp f pre post j s

theorem startResume_dp (s : EState) : (startResume s).deferredPause = s.deferredPause := by
  unfold startResume
  simp only []
  show (resumeHooks _).deferredPause = _
  rw [dp_resumeHooks]
  show (rewindPlan _).2.deferredPause = _
  rw [dp_rewindPlan, dp_forBundlers_ri]

theorem noteMsg_ctl (s : EState) (m : Msg) :
    ctl (noteMsg s m) = { ctl s with stashed := none } ∧ (noteMsg s m).bundlers = s.bundlers := by
  have key : ∃ s1 : EState, (ctl s1 = { ctl s with stashed := none } ∧ s1.bundlers = s.bundlers) ∧
      noteMsg s m = (match s1.msgCache with
        | some c => if s1.rewindable && !Src.uncacheable.contains m.cmd then { s1 with msgCache := some (c ++ [m]) } else s1
        | none => s1) := by
    unfold noteMsg
    refine ⟨_, ?_, rfl⟩
    cases m.obj with
    | none => exact ⟨rfl, rfl⟩
    | some o => simp only []; split <;> exact ⟨rfl, rfl⟩
  obtain ⟨s1, ⟨h1, h2⟩, he⟩ := key
  rw [he, ← h1, ← h2]
  split
  · split <;> exact ⟨rfl, rfl⟩
  · exact ⟨rfl, rfl⟩

theorem checkpoint_registered : Src.registry.contains "checkpoint" = true := by decide

end BlueskyVerif.Engine
