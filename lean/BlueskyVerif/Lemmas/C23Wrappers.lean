/-
Lemmas/C23Wrappers.lean -- the drives (message traces + outcome) of run_wrapper, stage_wrapper,
suspend_wrapper and subs_wrapper as functions of the wrapped plan's drive; obtained by composing
the generic lemmas (sequencing, try statement, closure finalizer, straight-line code).
-/
import BlueskyVerif.Lemmas.C23Try

namespace BlueskyVerif.Gen
set_option linter.unusedSectionVars false

section
variable {R E : Type} [Inhabited R] [DecidableEq R] [PyExc E]

/-- the drive of `r = yield m` followed by `onSend r` -/
def msgThen {M V : Type} (c : Bool) (m : M) (ins : List (Inp R E))
    (onSend : R → List (Inp R E) → Drv M R V E) : Drv M R V E :=
  match ins with
  | [] => ⟨[m], if c then .closed none else .alive⟩
  | .throw e :: rest => ⟨[m], .ended (.exc e) rest⟩
  | .send r :: rest => (onSend r rest).cons m

theorem drive_oneMsg (c : Bool) (m : PMsg) (ins : List (Inp R E)) :
    drive c (oneMsg m : PBeh R E) ins = msgThen c m ins fun r rest => Drv.done (.ret r) rest := by
  unfold oneMsg
  rw [Prog.drive_beh]
  cases ins with
  | nil => rfl
  | cons i rest => cases i <;> rfl

/-! ### run_wrapper -/

/-- the `close_run` message run_wrapper emits when the wrapped plan ended with `o` (if any) -/
def runClose (info : ExcInfo E) : Pending R E → Option PMsg
  | .ret _ => some (Generated.rwElseClose.msg info none)
  | .exc e =>
    if isGenExit e then none
    else if isException e then
      some (if isControl e then Generated.rwControlClose.msg info (some e)
            else Generated.rwOtherClose.msg info (some e))
    else none

/-- after the wrapped plan ended with `o`: the `close_run` message (if any), then the outcome --
    the uid of the run / the plan's exception, replaced by an exception thrown at the `close_run` -/
def runAfter (info : ExcInfo E) (uid : R) (c : Bool) (o : Pending R E) (rest : List (Inp R E)) :
    Drv PMsg R R E :=
  match runClose info o with
  | none => Drv.done o rest
  | some m => msgThen c m rest fun _ rest' =>
      Drv.done (match o with | .ret _ => .ret uid | .exc e => .exc e) rest'

theorem dispatch_cw_genExit (e : E) (h : isGenExit e = true) :
    dispatch Generated.cwClauses e = .closed := by
  simp [dispatch, firstMatch, Generated.cwClauses, Clause.matches, h]

theorem dispatch_cw_exception (e : E) (h : isException e = true) :
    dispatch Generated.cwClauses e = .handled := by
  simp [dispatch, firstMatch, Generated.cwClauses, Clause.matches, h,
    PyExc.exception_not_genExit e h]

theorem dispatch_cw_other (e : E) (h1 : isGenExit e = false) (h2 : isException e = false) :
    dispatch Generated.cwClauses e = .uncaught := by
  simp [dispatch, firstMatch, Generated.cwClauses, Clause.matches, h1, h2]

theorem dispatch_fw_genExit (e : E) (h : isGenExit e = true) :
    dispatch Generated.fwClauses e = .closed := by
  simp [dispatch, firstMatch, Generated.fwClauses, Clause.matches, h]

theorem dispatch_fw_other (e : E) (h : isGenExit e = false) :
    dispatch Generated.fwClauses e = .handled := by
  simp [dispatch, firstMatch, Generated.fwClauses, Clause.matches, h]

/-- the inner part of run_wrapper: `yield from contingency_wrapper(..); return rs_uid` -/
theorem drive_run_inner (info : ExcInfo E) (uid : R) (plan : PBeh R E) (c : Bool)
    (ins : List (Inp R E)) (hn : NoGenExit ins) :
    drive c (Beh.bind (contingencyWrapper (Beh.pure default) false (some (rwExceptPlan info))
        (some (oneMsg (Generated.rwElseClose.msg info none))) none true plan)
        (fun _ => (Beh.pure uid : PBeh R E))) ins
      = (drive c plan ins).bind c (runAfter info uid) := by
  rw [drive_bind _ _ _ _ hn, bindK_pure (fun _ => uid)]
  unfold contingencyWrapper
  rw [drive_tryWrap _ _ (by simp) c ins hn, Drv.bind_retK]
  -- both sides: the plan's drive, then a continuation; compare the continuations
  have key : ∀ (c : Bool) (o : Pending R E) (rest : List (Inp R E)),
      (bodyK ({ clauses := Generated.cwClauses, pausePlan := none,
                exceptPlan := some (rwExceptPlan info), autoRaise := true,
                elsePlan := some (oneMsg (Generated.rwElseClose.msg info none)),
                finalPlan := none } : TryCfg PMsg R R E) c o rest).bind c
          (retK fun _ => uid)
        = runAfter info uid c o rest := by
    intro c o rest
    cases o with
    | ret v =>
      simp only [bodyK, runAfter, runClose, drive_oneMsg, finK]
      cases rest with
      | nil =>
        cases c <;>
          simp [msgThen, Drv.bind, closeOf, Drv.done, retK, Path.pending, PyExc.genExit_isGenExit]
      | cons i rest' =>
        cases i <;>
          simp [msgThen, Drv.bind, Drv.done, Drv.cons, Drv.pre, retK, Path.pending]
    | exc e =>
      simp only [bodyK, runAfter, runClose]
      by_cases hg : isGenExit e = true
      · simp [hg, dispatch_cw_genExit e hg, retK]
      · have hg' : isGenExit e = false := by simpa using hg
        by_cases hx : isException e = true
        · simp only [hg', hx, dispatch_cw_exception e hx, excK, finK, rwExceptPlan, Bool.false_eq_true,
            ↓reduceIte]
          by_cases hc : isControl e = true
          · simp only [hc, ↓reduceIte, drive_oneMsg]
            cases rest with
            | nil =>
              cases c <;>
                simp [msgThen, Drv.bind, closeOf, Drv.done, retK, Path.pending,
                  PyExc.genExit_isGenExit]
            | cons i rest' =>
              cases i <;> simp [msgThen, Drv.bind, Drv.done, Drv.cons, Drv.pre, retK, Path.pending]
          · simp only [hc, Bool.false_eq_true, ↓reduceIte, drive_oneMsg]
            cases rest with
            | nil =>
              cases c <;>
                simp [msgThen, Drv.bind, closeOf, Drv.done, retK, Path.pending,
                  PyExc.genExit_isGenExit]
            | cons i rest' =>
              cases i <;> simp [msgThen, Drv.bind, Drv.done, Drv.cons, Drv.pre, retK, Path.pending]
        · have hx' : isException e = false := by simpa using hx
          simp [hg', hx', dispatch_cw_other e hg' hx', finK, Path.pending, retK]
  congr 1
  funext c' o rest
  exact key c' o rest

/-- **run_wrapper**: `open_run`; if that is answered with `uid`, the wrapped plan's messages;
    when it ends with `o`, `runAfter` (at most one `close_run`, then the outcome). -/
theorem drive_runWrapper (info : ExcInfo E) (md : Option Int) (plan : PBeh R E) (c : Bool)
    (ins : List (Inp R E)) (hn : NoGenExit ins) :
    drive c (runWrapper info md plan) ins
      = msgThen c (openRunMsg md) ins fun uid rest =>
          (drive c plan rest).bind c (runAfter info uid) := by
  unfold runWrapper
  rw [drive_bind _ _ _ _ hn, drive_oneMsg]
  cases ins with
  | nil =>
    cases c <;> simp [msgThen, Drv.bind, bindK, closeOf, Drv.done, PyExc.genExit_isGenExit]
  | cons i rest =>
    cases i with
    | throw e => simp [msgThen, Drv.bind, bindK, Drv.done, Drv.pre]
    | send uid =>
      simp only [msgThen, Drv.bind_cons, Drv.bind_done, bindK]
      rw [drive_run_inner info uid plan c rest hn.tail]

/-! ### finalize_wrapper-based wrappers -/

/-- the cleanup part: the cleanup program `cl`, then the pending outcome `o` (replaced by an
    exception raised during the cleanup) -/
def cleanupThen (cl : Prog PMsg R R E) (o : Pending R E) (c : Bool) (rest : List (Inp R E)) :
    Drv PMsg R R E :=
  (cl.drive c rest).bind c fun _ o' rest' =>
    Drv.done (match o' with | .ret _ => o | .exc x => .exc x) rest'

/-- the wrapped part ended with `o` having consumed `used`: nothing more if `o` is a
    GeneratorExit, else the cleanup `cl used` -/
def finallyK (cl : List (Inp R E) → Prog PMsg R R E) (used : List (Inp R E)) (c : Bool)
    (o : Pending R E) (rest : List (Inp R E)) : Drv PMsg R R E :=
  match o with
  | .ret v => cleanupThen (cl used) (.ret v) c rest
  | .exc e => if isGenExit e then Drv.done (.exc e) rest else cleanupThen (cl used) (.exc e) c rest

theorem fcK_eq_finallyK (cl : List (Inp R E) → Prog PMsg R R E) :
    fcK (fun used => (cl used).beh) = finallyK cl := by
  funext used c o rest
  have hfin : ∀ pend, fcFinK (cl used).beh pend c rest = cleanupThen (cl used) pend c rest := by
    intro pend
    simp only [fcFinK, cleanupThen, Prog.drive_beh]
    congr 1
    funext _ o' rest'
    cases o' <;> rfl
  cases o with
  | ret v => simp [fcK, finallyK, hfin]
  | exc e =>
    by_cases hg : isGenExit e = true
    · simp [fcK, finallyK, hg, dispatch_fw_genExit e hg]
    · have hg' : isGenExit e = false := by simpa using hg
      simp [fcK, finallyK, hg', dispatch_fw_other e hg', hfin]

/-- the wrapped part of these wrappers: the start-up program, then the plan -/
def startThen (st : Prog PMsg R R E) (plan : PBeh R E) (c : Bool) (ins : List (Inp R E)) :
    Drv PMsg R R E :=
  (st.drive c ins).bind c fun c' o rest =>
    match o with
    | .ret _ => drive c' plan rest
    | .exc e => Drv.done (.exc e) rest

theorem drive_startThen (st : Prog PMsg R R E) (plan : PBeh R E) (c : Bool) (ins : List (Inp R E))
    (hn : NoGenExit ins) :
    drive c (Beh.bind st.beh fun _ => plan) ins = startThen st plan c ins := by
  rw [drive_bind _ _ _ _ hn, Prog.drive_beh]
  rfl

/-- **generic shape** of stage_wrapper / suspend_wrapper / subs_wrapper / lazily_stage_wrapper:
    `return (yield from finalize_wrapper(body, cleanup))` -/
theorem drive_finalizeProg (cl : List (Inp R E) → Prog PMsg R R E) (body : PBeh R E) (c : Bool)
    (ins : List (Inp R E)) (hn : NoGenExit ins) :
    drive c (Beh.retFrom (finalizeClosure (fun used => (cl used).beh) body)) ins
      = (drive c body ins).bindH c [] ins (finallyK cl) := by
  rw [drive_retFrom _ _ _ hn, drive_finalizeClosure _ _ _ _ hn, fcK_eq_finallyK]

theorem finallyK_const (cl : Prog PMsg R R E) :
    finallyK (fun _ : List (Inp R E) => cl) = fun _ => finallyK (fun _ => cl) [] := by
  funext used; rfl

/-- `stage_all` / `unstage_all` when every message is answered with something that is not a
    Status: exactly one message per device, in order, no `wait` -/
theorem stageAll_drive_sends (view : RespView R) (cmd : Command) (g : Nat) (c : Bool)
    (rest : List (Inp R E)) :
    ∀ (devs : List Dev) (rs : List R), rs.length = devs.length → (∀ r ∈ rs, view.isStatus r = false) →
      (stageAllProg view cmd g devs false : Prog PMsg R R E).drive c (rs.map .send ++ rest)
        = Drv.pre (devs.map (devMsg cmd · (some g))) (Drv.done (.ret default) rest) := by
  intro devs
  induction devs with
  | nil => intro rs hl _; cases rs <;> simp_all [stageAllProg, Prog.drive]
  | cons d ds ih =>
    intro rs hl hs
    cases rs with
    | nil => simp at hl
    | cons r rs =>
      have hr : view.isStatus r = false := hs r (by simp)
      simp only [stageAllProg, List.map_cons, List.cons_append, Prog.drive, hr, Bool.or_false]
      rw [ih rs (by simpa using hl) (fun x hx => hs x (List.mem_cons_of_mem _ hx))]
      rfl

/-! ### stage_wrapper, suspend_wrapper, subs_wrapper -/

theorem drive_stageWrapper (view : RespView R) (t : DevTree) (devices : List Dev) (plan : PBeh R E)
    (c : Bool) (ins : List (Inp R E)) (hn : NoGenExit ins) :
    drive c (stageWrapper view t devices plan) ins
      = (startThen (stageAllProg view .stage 0 (Generated.swStageOrder.apply (stageRoots t devices)) false)
            plan c ins).bind c
          (finallyK (fun _ => stageAllProg view .unstage 1
            (Generated.swUnstageOrder.apply (stageRoots t devices)) false) []) := by
  unfold stageWrapper
  simp only []
  rw [← finalizeClosure_const, drive_finalizeProg (fun _ => _) _ c ins hn, drive_startThen _ _ _ _ hn,
    finallyK_const, bindH_const]

theorem drive_suspendWrapper (suspenders : List Nat) (plan : PBeh R E) (c : Bool)
    (ins : List (Inp R E)) (hn : NoGenExit ins) :
    drive c (suspendWrapper suspenders plan) ins
      = (startThen (Prog.msgs (suspenders.map (suspenderMsg .installSuspender)) (.ret default))
            plan c ins).bind c
          (finallyK (fun _ => Prog.msgs (suspenders.map (suspenderMsg .removeSuspender)) (.ret default))
            []) := by
  unfold suspendWrapper
  simp only []
  rw [← finalizeClosure_const, drive_finalizeProg (fun _ => _) _ c ins hn, drive_startThen _ _ _ _ hn,
    finallyK_const, bindH_const]

theorem drive_subsWrapper (view : RespView R) (subs : List (Nat × Nat)) (plan : PBeh R E) (c : Bool)
    (ins : List (Inp R E)) (hn : NoGenExit ins) :
    drive c (subsWrapper view subs plan) ins
      = (startThen (subscribeProg subs) plan c ins).bindH c [] ins
          (finallyK fun used =>
            Prog.msgs ((subsTokens subs.length used []).map fun tk => unsubscribeMsg (view.asInt tk))
              (.ret default)) := by
  unfold subsWrapper
  simp only []
  rw [drive_finalizeProg _ _ c ins hn, drive_startThen _ _ _ _ hn]

end
end BlueskyVerif.Gen
