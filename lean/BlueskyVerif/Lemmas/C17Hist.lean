/-
Helper lemmas for C17: the scan_id over histories of open_run attempts.
-/
import BlueskyVerif.Lemmas.C17

namespace BlueskyVerif.Metadata

/-- the scan_id currently kept in the persistent metadata (`md.get("scan_id", 0)`) -/
def cur (md : Dict) : Int :=
  match get? md Generated.scanIdKey with
  | some (.int i) => i
  | _ => Generated.scanIdDefault

/-- `RE.md['scan_id']` is absent or an integer -/
def NumericScanId (md : Dict) : Prop := ∀ v, get? md Generated.scanIdKey = some v → ∃ i, v = .int i

/-- `l = [c+1, c+2, ...]` -/
def Consec : Int → List Int → Prop
  | _, [] => True
  | c, x :: r => x = c + 1 ∧ Consec (c + 1) r

theorem consec_append (c : Int) (l1 l2 : List Int) :
    Consec c (l1 ++ l2) ↔ Consec c l1 ∧ Consec (c + l1.length) l2 := by
  induction l1 generalizing c with
  | nil => simp [Consec]
  | cons x r ih =>
    simp only [List.cons_append, Consec, ih, List.length_cons]
    have : c + 1 + (r.length : Int) = c + ((r.length + 1 : Nat) : Int) := by omega
    rw [this]
    constructor
    · rintro ⟨a, b, d⟩; exact ⟨⟨a, b⟩, d⟩
    · rintro ⟨⟨a, b⟩, d⟩; exact ⟨a, b, d⟩

theorem consec_get (c : Int) (l : List Int) (h : Consec c l) : ∀ i (hi : i < l.length), l[i] = c + 1 + i := by
  induction l generalizing c with
  | nil => intro i hi; simp at hi
  | cons x r ih =>
    intro i hi
    cases i with
    | zero => simp [h.1]
    | succ j =>
      simp only [List.getElem_cons_succ]
      rw [ih (c + 1) h.2 j (by simpa using hi)]
      omega

theorem defaultScanIdSource_numeric (md : Dict) (h : NumericScanId md) :
    defaultScanIdSource md = some (cur md + 1) := by
  unfold defaultScanIdSource cur
  cases hg : get? md Generated.scanIdKey with
  | none => simp [Generated.scanIdStep]
  | some v =>
    obtain ⟨i, rfl⟩ := h v hg
    simp [Generated.scanIdStep]

theorem cur_store (st : St) (sid : Int) : cur (store st sid).md = sid := by
  simp [cur, store, get?_set]

theorem numeric_store (st : St) (sid : Int) : NumericScanId (store st sid).md := by
  intro v hv
  simp [store, get?_set] at hv
  exact ⟨sid, hv.symm⟩

theorem startedSids_append (l1 l2 : List Outcome) : startedSids (l1 ++ l2) = startedSids l1 ++ startedSids l2 := by
  induction l1 with
  | nil => rfl
  | cons o r ih => cases o <;> simp [startedSids, ih]

/-- one attempt, inside the domain (no compose error): either a run is started with the next number,
    which is stored, or the persistent metadata is untouched -/
theorem attempt_step (st : St) (a : Attempt) (hnum : NumericScanId st.md) (hdom : (attempt st a).2 ≠ .composeError) :
    (∃ doc, (attempt st a).2 = .started (cur st.md + 1) doc ∧ (attempt st a).1.md = (store st (cur st.md + 1)).md) ∨
    ((∀ sid doc, (attempt st a).2 ≠ .started sid doc) ∧ (attempt st a).1.md = st.md) := by
  have hs := defaultScanIdSource_numeric st.md hnum
  unfold attempt at hdom ⊢
  rcases openRun_cases st a with ⟨_, e⟩ | ⟨_, _, e⟩ | ⟨sid, _, hsid, h⟩
  · right; rw [e]; exact ⟨(by intro _ _ h; cases h), rfl⟩
  · right; rw [e]; exact ⟨(by intro _ _ h; cases h), rfl⟩
  · have : sid = cur st.md + 1 := by rw [hs] at hsid; exact (Option.some.inj hsid).symm
    subst this
    rcases h with ⟨_, e⟩ | ⟨_, _, e⟩ | ⟨doc, _, _, ⟨_, e⟩ | ⟨_, e⟩⟩
    · right; rw [e]; exact ⟨(by intro _ _ h; cases h), rfl⟩
    · right; rw [e]; exact ⟨(by intro _ _ h; cases h), rfl⟩
    · left; rw [e]; exact ⟨doc, rfl, rfl⟩
    · rw [e] at hdom; exact absurd rfl hdom

theorem runCall_step (st : St) (as : List Attempt) (hnum : NumericScanId st.md)
    (hdom : ∀ o ∈ (runCall st as).2, o ≠ .composeError) :
    Consec (cur st.md) (startedSids (runCall st as).2) ∧
    cur (runCall st as).1.md = cur st.md + (startedSids (runCall st as).2).length ∧
    NumericScanId (runCall st as).1.md ∧
    (startedSids (runCall st as).2 = [] → (runCall st as).1.md = st.md) := by
  induction as generalizing st with
  | nil => simp [runCall, startedSids, Consec]; exact hnum
  | cons a rest ih =>
    have e : runCall st (a :: rest) = ((runCall (attempt st a).1 rest).1, (attempt st a).2 :: (runCall (attempt st a).1 rest).2) := rfl
    rw [e] at hdom ⊢
    have hd1 : (attempt st a).2 ≠ .composeError := hdom _ (by simp)
    have hd2 : ∀ o ∈ (runCall (attempt st a).1 rest).2, o ≠ .composeError := fun o ho => hdom o (by simp [ho])
    rcases attempt_step st a hnum hd1 with ⟨doc, ho, hmd⟩ | ⟨hno, hmd⟩
    · have hnum' : NumericScanId (attempt st a).1.md := by rw [hmd]; exact numeric_store st _
      have hcur' : cur (attempt st a).1.md = cur st.md + 1 := by rw [hmd]; exact cur_store st _
      obtain ⟨c1, c2, c3, _⟩ := ih (attempt st a).1 hnum' hd2
      simp only [ho, startedSids, Consec, List.length_cons]
      rw [hcur'] at c1 c2
      refine ⟨⟨trivial, c1⟩, ?_, c3, by intro h; cases h⟩
      rw [c2]; push_cast; omega
    · have hnum' : NumericScanId (attempt st a).1.md := by rw [hmd]; exact hnum
      obtain ⟨c1, c2, c3, c4⟩ := ih (attempt st a).1 hnum' hd2
      have hss : startedSids ((attempt st a).2 :: (runCall (attempt st a).1 rest).2) = startedSids (runCall (attempt st a).1 rest).2 := by
        cases ho : (attempt st a).2 with
        | started sid doc => exact absurd ho (hno sid doc)
        | _ => rfl
      rw [hss]
      rw [hmd] at c1 c2 c4
      exact ⟨c1, c2, c3, c4⟩

theorem runHistory_step (st : St) (calls : List (List Attempt)) (hnum : NumericScanId st.md)
    (hdom : ∀ o ∈ (runHistory st calls).2, o ≠ .composeError) :
    Consec (cur st.md) (startedSids (runHistory st calls).2) ∧
    cur (runHistory st calls).1.md = cur st.md + (startedSids (runHistory st calls).2).length ∧
    NumericScanId (runHistory st calls).1.md ∧
    (startedSids (runHistory st calls).2 = [] → (runHistory st calls).1.md = st.md) := by
  induction calls generalizing st with
  | nil => simp [runHistory, startedSids, Consec]; exact hnum
  | cons c cs ih =>
    have e : runHistory st (c :: cs) = ((runHistory (runCall st c).1 cs).1, (runCall st c).2 ++ (runHistory (runCall st c).1 cs).2) := rfl
    rw [e] at hdom ⊢
    obtain ⟨a1, a2, a3, a4⟩ := runCall_step st c hnum (fun o ho => hdom o (by simp [ho]))
    obtain ⟨b1, b2, b3, b4⟩ := ih (runCall st c).1 a3 (fun o ho => hdom o (by simp [ho]))
    simp only [startedSids_append, List.length_append]
    refine ⟨(consec_append _ _ _).2 ⟨a1, by rw [← a2]; exact b1⟩, ?_, b3, ?_⟩
    · rw [b2, a2]; push_cast; omega
    · intro h
      have h1 := (List.append_eq_nil_iff.1 h).1
      have h2 := (List.append_eq_nil_iff.1 h).2
      rw [b4 h2, a4 h1]

end BlueskyVerif.Metadata
