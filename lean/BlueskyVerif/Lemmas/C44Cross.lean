/-
Helper lemmas for C44: crossings, interpolation, sums.
-/
import BlueskyVerif.Lemmas.C44

set_option linter.unusedSimpArgs false

namespace BlueskyVerif.PeakStats

/-! ### one crossing -/

theorem straddles_cases {y : Vec} {mid : Rat} {i : Nat} (h : Straddles y mid i) :
    (mid < y i ∧ y (i + 1) ≤ mid) ∨ (y i ≤ mid ∧ mid < y (i + 1)) := by
  unfold Straddles at h
  by_cases h1 : mid < y i <;> by_cases h2 : mid < y (i + 1)
  · simp [h1, h2] at h
  · exact Or.inl ⟨h1, not_lt.mp h2⟩
  · exact Or.inr ⟨not_lt.mp h1, h2⟩
  · simp [h1, h2] at h

/-- the code's formula is the linear interpolation between the two samples -/
theorem crossAt_eq (x y : Vec) (mid : Rat) (cr : Nat) (hx : x cr ≠ x (cr + 1)) (hy : y cr ≠ y (cr + 1)) :
    crossAt x y mid cr = x cr + ((mid - y cr) / (y (cr + 1) - y cr)) * (x (cr + 1) - x cr) := by
  have hdx : x (cr + 1) - x cr ≠ 0 := sub_ne_zero.mpr (Ne.symm hx)
  have hdy : y (cr + 1) - y cr ≠ 0 := sub_ne_zero.mpr (Ne.symm hy)
  have hdy' : y (cr + 1) - mid - (y cr - mid) ≠ 0 := by
    have : y (cr + 1) - mid - (y cr - mid) = y (cr + 1) - y cr := by ring
    rw [this]; exact hdy
  unfold crossAt
  simp only
  field_simp
  ring

/-- the interpolation parameter of a straddling pair lies in [0, 1] -/
theorem cross_param {y : Vec} {mid : Rat} {cr : Nat} (h : Straddles y mid cr) :
    y cr ≠ y (cr + 1) ∧ 0 ≤ (mid - y cr) / (y (cr + 1) - y cr) ∧ (mid - y cr) / (y (cr + 1) - y cr) ≤ 1 := by
  rcases straddles_cases h with ⟨h1, h2⟩ | ⟨h1, h2⟩
  · have hd : y (cr + 1) - y cr < 0 := by linarith
    refine ⟨by intro e; rw [e] at h1; linarith, ?_, ?_⟩
    · exact div_nonneg_of_nonpos (by linarith) (le_of_lt hd)
    · rw [div_le_one_of_neg hd]; linarith
  · have hd : 0 < y (cr + 1) - y cr := by linarith
    refine ⟨by intro e; rw [e] at h1; linarith, ?_, ?_⟩
    · exact div_nonneg (by linarith) (le_of_lt hd)
    · rw [div_le_one hd]; linarith

theorem between_of_param (a b t : Rat) (h0 : 0 ≤ t) (h1 : t ≤ 1) : Between a b (a + t * (b - a)) := by
  unfold Between
  rcases le_total a b with hab | hab
  · left
    have := mul_nonneg h0 (sub_nonneg.mpr hab)
    have := mul_nonneg (sub_nonneg.mpr h1) (sub_nonneg.mpr hab)
    constructor <;> nlinarith
  · right
    have := mul_nonneg h0 (sub_nonneg.mpr hab)
    have := mul_nonneg (sub_nonneg.mpr h1) (sub_nonneg.mpr hab)
    constructor <;> nlinarith

/-- each crossing lies between the two x samples whose y values straddle the level -/
theorem crossAt_between (x y : Vec) (mid : Rat) (cr : Nat) (hx : x cr ≠ x (cr + 1)) (h : Straddles y mid cr) :
    Between (x cr) (x (cr + 1)) (crossAt x y mid cr) := by
  obtain ⟨hy, h0, h1⟩ := cross_param h
  rw [crossAt_eq x y mid cr hx hy]
  exact between_of_param _ _ _ h0 h1

/-! ### the list of crossing indices -/

theorem mem_crossIdx {n : Nat} {y : Vec} {mid : Rat} {i : Nat} :
    i ∈ crossIdx n y mid ↔ i + 1 < n ∧ Straddles y mid i := by
  unfold crossIdx Straddles
  simp only [List.mem_filter, List.mem_range, bne_iff_ne, ne_eq, decide_eq_decide]
  constructor
  · rintro ⟨h1, h2⟩; exact ⟨by omega, fun e => h2 (by rw [e])⟩
  · rintro ⟨h1, h2⟩; exact ⟨by omega, fun e => h2 (propext e)⟩

theorem crossIdx_sorted (n : Nat) (y : Vec) (mid : Rat) : (crossIdx n y mid).Pairwise (· < ·) := by
  unfold crossIdx
  exact List.Pairwise.filter _ List.pairwise_lt_range

/-- a Boolean-valued property that differs at `a < b` flips between some adjacent pair in between -/
theorem exists_flip (p : Nat → Prop) (a b : Nat) (hab : a < b) (h : ¬ (p a ↔ p b)) :
    ∃ i, a ≤ i ∧ i < b ∧ ¬ (p i ↔ p (i + 1)) := by
  induction b with
  | zero => omega
  | succ b ih =>
    by_cases hb : (p b ↔ p (b + 1))
    · have hab' : a < b := by
        rcases Nat.lt_or_ge a b with h1 | h1
        · exact h1
        · have : a = b := by omega
          subst this; exact absurd hb h
      obtain ⟨i, h1, h2, h3⟩ := ih hab' (fun e => h (e.trans hb))
      exact ⟨i, h1, by omega, h3⟩
    · exact ⟨b, by omega, by omega, hb⟩

end BlueskyVerif.PeakStats
