/-
C06 helper lemmas: the outer `finally` of `_run` stage by stage (stages defined in C41Main.lean),
`set`, `stage` / `unstage`, and the frame of every other command.
-/
import BlueskyVerif.Lemmas.C06

namespace BlueskyVerif.Engine

theorem finally_stops_movables : Src.finallyStopsMovables = true := by decide
theorem finally_unstages : Src.finallyUnstages = true := by decide

/-! ## the stages of the cleanup -/

theorem cbStop_calls (s : EState) : (cbStop s).calls = s.calls ++ s.moved.map stopCall := by
  unfold cbStop; rw [if_pos finally_stops_movables]; exact stopMovables_calls s

theorem cbStop_staged (s : EState) : (cbStop s).staged = s.staged := by
  have := congrArg Dv.staged (show dv (cbStop s) = dv s by unfold cbStop; split <;> simp)
  exact this

theorem cbStop_moved (s : EState) : (cbStop s).moved = s.moved := by
  have := congrArg Dv.moved (show dv (cbStop s) = dv s by unfold cbStop; split <;> simp)
  exact this

theorem cbClear_dv (s : EState) : dv (cbClear s) = dv s := by
  unfold cbClear; split <;> simp

theorem cbClear_quiet (s : EState) : QuietExt s (cbClear s) := by
  unfold cbClear; split
  · apply quietExt_forBundlers
    intro s b
    rw [clearMonitors_fst]; exact quietExt_suspendMonitors s b
  · exact QuietExt.refl s

theorem unstageStep_calls (s : EState) (n : String) : (unstageStep s n).calls = s.calls ++ [unstageCall n] := rfl
theorem unstageStep_staged (s : EState) (n : String) : (unstageStep s n).staged = s.staged := rfl
theorem unstageStep_moved (s : EState) (n : String) : (unstageStep s n).moved = s.moved := rfl

/-- the unstage loop: exactly one unstage per member of `_staged`, in order, whatever they answer -/
theorem cbUnstage_calls (s : EState) : (cbUnstage s).calls = s.calls ++ s.staged.map unstageCall := by
  unfold cbUnstage; rw [if_pos finally_unstages]
  exact calls_foldl_append _ unstageCall unstageStep_calls _ _

theorem cbUnstage_moved (s : EState) : (cbUnstage s).moved = s.moved := by
  unfold cbUnstage; split
  · exact field_foldl (·.moved) _ unstageStep_moved _ _
  · rfl

theorem cbClose_quiet (r : String) (s : EState) : QuietExt s (cbClose r s) := by
  unfold cbClose; split
  · apply quietExt_forBundlers
    intro s b; split
    · exact quietExt_closeRunDoc _ _ _ _
    · exact QuietExt.refl _
  · exact QuietExt.refl _

theorem cbClose_dv (r : String) (s : EState) : dv (cbClose r s) = dv s := by
  unfold cbClose; split
  · apply dv_forBundlers
    intro s b; split
    · simp
    · rfl
  · rfl

theorem calls_closeGen (t : EState) (g : Gen) : (closeGen t g).calls = t.calls := by
  unfold closeGen; split <;> rfl

theorem staged_closeGen (t : EState) (g : Gen) : (closeGen t g).staged = t.staged := by
  unfold closeGen; split <;> rfl

theorem moved_closeGen (t : EState) (g : Gen) : (closeGen t g).moved = t.moved := by
  unfold closeGen; split <;> rfl

/-- the ledger after the outer `finally`: stops of everything moved, (clear_sub's), unstages of
    everything still staged, (clear_sub's of the runs being closed) -/
theorem cleanupBody_calls (s : EState) :
    ∃ mid tail, (cleanupBody s).calls = s.calls ++ s.moved.map stopCall ++ mid ++ s.staged.map unstageCall ++ tail ∧
      (∀ c ∈ mid, keyOp c = false) ∧ (∀ c ∈ tail, keyOp c = false) := by
  rw [cleanupBody_eq, field_foldl (·.calls) _ calls_closeGen]
  -- name the stages
  have h1 := cbStop_calls { s with pardon := true }
  obtain ⟨mid, h2, q2⟩ := cbClear_quiet (cbStop { s with pardon := true })
  have hst : (cbClear (cbStop { s with pardon := true })).staged = s.staged := by
    have := congrArg Dv.staged (cbClear_dv (cbStop { s with pardon := true }))
    simp only [dv] at this
    rw [this, cbStop_staged]
  have h3 := cbUnstage_calls (cbClear (cbStop { s with pardon := true }))
  obtain ⟨tail, h4, q4⟩ := cbClose_quiet (if s.exitReason == "" then s.reason else s.exitReason)
    { cbUnstage (cbClear (cbStop { s with pardon := true })) with staged := [] }
  refine ⟨mid, tail, ?_, q2, q4⟩
  show (cbClose _ _).calls = _
  rw [h4]
  show (cbUnstage _).calls ++ tail = _
  rw [h3, hst, h2, h1]

theorem cleanupBody_staged (s : EState) : (cleanupBody s).staged = [] := by
  rw [cleanupBody_eq, field_foldl (·.staged) _ staged_closeGen]
  show (cbClose _ _).staged = []
  have := congrArg Dv.staged (cbClose_dv (if s.exitReason == "" then s.reason else s.exitReason)
    { cbUnstage (cbClear (cbStop { s with pardon := true })) with staged := [] })
  exact this

theorem cleanupBody_moved (s : EState) : (cleanupBody s).moved = s.moved := by
  rw [cleanupBody_eq, field_foldl (·.moved) _ moved_closeGen]
  show (cbClose _ _).moved = _
  have := congrArg Dv.moved (cbClose_dv (if s.exitReason == "" then s.reason else s.exitReason)
    { cbUnstage (cbClear (cbStop { s with pardon := true })) with staged := [] })
  simp only [dv] at this
  rw [this, cbUnstage_moved]
  have h2 := congrArg Dv.moved (cbClear_dv (cbStop { s with pardon := true }))
  simp only [dv] at h2
  rw [h2, cbStop_moved]

theorem cleanup_calls (s : EState) : (cleanup s).calls = (cleanupBody s).calls := by
  unfold cleanup; simp only []; split
  · rename_i s' hs; unfold setState at hs; split at hs
    · cases hs; rfl
    · cases hs
  · rfl

theorem cleanup_staged (s : EState) : (cleanup s).staged = [] := by
  unfold cleanup; simp only []; split
  · rename_i s' hs
    have : s'.staged = (cleanupBody s).staged := by
      unfold setState at hs; split at hs
      · cases hs; rfl
      · cases hs
    rw [this]; exact cleanupBody_staged s
  · exact cleanupBody_staged s

/-! ## set, stage, unstage -/

/-- the specification of `_staged`: insert on a successful stage, erase on a successful unstage,
    untouched when the device raises -/
def stagedStep (staged : List String) (op n : String) (ok : Bool) : List String :=
  if !ok then staged
  else if op == "stage" then (if staged.contains n then staged else staged ++ [n])
  else staged.filter (· != n)

theorem cmdStage_spec (s : EState) (m : Msg) (op : String) :
    (cmdStage s m op).1.staged = stagedStep s.staged op (m.obj.getD "") ((nextMode s (m.obj.getD "") op).1 != "raise") ∧
    (cmdStage s m op).1.calls = s.calls ++ [{ dev := m.obj.getD "", op := op }] ∧
    (cmdStage s m op).1.moved = s.moved := by
  unfold cmdStage stagedStep
  simp only []
  by_cases hr : (nextMode s (m.obj.getD "") op).1 = "raise"
  · simp [hr]
    exact ⟨rfl, rfl, rfl⟩
  · have hr' : ((nextMode s (m.obj.getD "") op).1 == "raise") = false := by simpa using hr
    simp only [hr', Bool.false_eq_true, if_false, bne, Bool.not_false, Bool.not_true]
    have hd := fun t => congrArg Dv.staged (dv_resetCheckpointMeth t)
    have hm := fun t => congrArg Dv.moved (dv_resetCheckpointMeth t)
    simp only [dv] at hd hm
    refine ⟨?_, ?_, ?_⟩
    · rw [hd]
      have e : ((nextMode s (m.obj.getD "") op).2.logCall { dev := m.obj.getD "", op := op }).staged = s.staged := rfl
      by_cases hop : (op == "stage") = true
      · by_cases hin : s.staged.contains (m.obj.getD "") = true
        · simp only [hop, e, hin, if_true]
        · simp only [hop, e, hin, if_true, Bool.false_eq_true, if_false]
      · simp only [hop, e, Bool.false_eq_true, if_false]
    · have hc : ∀ t, (resetCheckpointMeth t).calls = t.calls := by
        intro t; unfold resetCheckpointMeth; split
        · rfl
        · have : ∀ (todo done : List (String × Bundler)) (u : EState),
              (forBundlers.go (fun s b => (s, b.resetCheckpoint)) u todo done).calls = u.calls := by
            intro todo
            induction todo with
            | nil => intro done u; rfl
            | cons kb rest ih => intro done u; unfold forBundlers.go; simp only []; rw [ih]
          exact this _ _ _
      rw [hc]; split <;> (try split) <;> rfl
    · rw [hm]; split <;> (try split) <;> rfl

/-- `set`: the device is in `_movable_objs_touched` whether or not `obj.set()` raises, nothing is
    ever removed from it, and exactly one `set` entry goes into the ledger -/
theorem cmdSet_spec (s : EState) (m : Msg) :
    (m.obj.getD "") ∈ (cmdSet s m).1.moved ∧ (∀ x ∈ s.moved, x ∈ (cmdSet s m).1.moved) ∧
    (∃ c, (cmdSet s m).1.calls = s.calls ++ [c] ∧ c.dev = m.obj.getD "" ∧ c.op = "set") ∧
    (cmdSet s m).1.staged = s.staged := by
  unfold cmdSet
  simp only []
  by_cases hc : s.moved.contains (m.obj.getD "") = true
  · have hmem : m.obj.getD "" ∈ s.moved := by simpa using hc
    simp only [hc, if_true]
    split
    · exact ⟨hmem, fun x hx => hx, ⟨_, rfl, rfl, rfl⟩, rfl⟩
    · exact ⟨hmem, fun x hx => hx, ⟨_, rfl, rfl, rfl⟩, rfl⟩
  · simp only [hc, Bool.false_eq_true, if_false]
    split
    · exact ⟨by simp [EState.logCall, nextMode, setDev], fun x hx => by simp [EState.logCall, nextMode, setDev, hx], ⟨_, rfl, rfl, rfl⟩, rfl⟩
    · exact ⟨by simp [EState.logCall, nextMode, setDev, newStatus], fun x hx => by simp [EState.logCall, nextMode, setDev, newStatus, hx], ⟨_, rfl, rfl, rfl⟩, rfl⟩

end BlueskyVerif.Engine
