/-
C01: what the inductive well-formedness `WF` means in terms of positions in the document list
(`wfDocs`), counting lemmas (one start / at most one stop per run) and the per-run projection (C14).
-/
import BlueskyVerif.Lemmas.C01Docs

namespace BlueskyVerif.Engine

/-- every document of a well-formed stream was admissible after the documents before it -/
theorem WF.split {ds : List Doc} (h : WF ds) : ∀ pre d post, ds = pre ++ d :: post → WF pre ∧ okNext pre d := by
  induction h with
  | nil => intro pre d post e; simp at e
  | @snoc ds' x hwf hok ih =>
    intro pre d post e
    rcases List.eq_nil_or_concat post with hp | ⟨post', y, hp⟩
    · subst hp
      have e' : ds' ++ [x] = pre ++ [d] := e
      have h2 := List.append_inj' e' rfl
      have hx : x = d := by simpa using h2.2
      rw [← h2.1, ← hx]
      exact ⟨hwf, hok⟩
    · subst hp
      have e' : ds' ++ [x] = (pre ++ d :: post') ++ [y] := by simpa using e
      have h2 := List.append_inj' e' rfl
      exact ih pre d post' h2.1

/-- the property in terms of positions: for every document `d` and the documents `pre` emitted before it -/
def wfDocs (ds : List Doc) : Prop :=
  ∀ pre d post, ds = pre ++ d :: post →
    (d.kind = "start" ∨ d.kind = "descriptor" ∨ d.kind = "event" ∨ d.kind = "stop") ∧
    (d.kind = "start" → ∀ d' ∈ pre, d'.run ≠ d.run) ∧
    (d.kind ≠ "start" → ∃ d' ∈ pre, d'.kind = "start" ∧ d'.run = d.run) ∧
    (d.kind ≠ "start" → ∀ d' ∈ pre, d'.kind = "stop" → d'.run ≠ d.run) ∧
    (d.kind = "event" → ∃ d' ∈ pre, d'.kind = "descriptor" ∧ d'.run = d.run ∧ d'.stream = d.stream)

theorem wfDocs_of_WF {ds : List Doc} (h : WF ds) : wfDocs ds := by
  intro pre d post e
  obtain ⟨_, hok⟩ := h.split pre d post e
  have nostop : ∀ {r}, ¬ stopped pre r → ∀ d' ∈ pre, d'.kind = "stop" → d'.run ≠ r :=
    fun hn d' hd' hk hr => hn ⟨d', hd', hk, hr⟩
  rcases hok with ⟨hk, hf⟩ | ⟨hk, hs, hn⟩ | ⟨hk, hs, hn, hd⟩ | ⟨hk, hs, hn⟩
  · refine ⟨Or.inl hk, fun _ => hf, fun hne => absurd hk hne, fun hne => absurd hk hne, ?_⟩
    intro he; rw [hk] at he; exact absurd he (by decide)
  · refine ⟨Or.inr (Or.inl hk), ?_, fun _ => hs, fun _ => nostop hn, ?_⟩
    · intro he; rw [hk] at he; exact absurd he (by decide)
    · intro he; rw [hk] at he; exact absurd he (by decide)
  · refine ⟨Or.inr (Or.inr (Or.inl hk)), ?_, fun _ => hs, fun _ => nostop hn, fun _ => hd⟩
    intro he; rw [hk] at he; exact absurd he (by decide)
  · refine ⟨Or.inr (Or.inr (Or.inr hk)), ?_, fun _ => hs, fun _ => nostop hn, ?_⟩
    · intro he; rw [hk] at he; exact absurd he (by decide)
    · intro he; rw [hk] at he; exact absurd he (by decide)

/-! ## counting -/

def isStartOf (r : Nat) (d : Doc) : Bool := d.kind == "start" && d.run == r
def isStopOf (r : Nat) (d : Doc) : Bool := d.kind == "stop" && d.run == r

theorem isStartOf_iff (r : Nat) (d : Doc) : isStartOf r d = true ↔ d.kind = "start" ∧ d.run = r := by
  simp [isStartOf]

theorem isStopOf_iff (r : Nat) (d : Doc) : isStopOf r d = true ↔ d.kind = "stop" ∧ d.run = r := by
  simp [isStopOf]

theorem WF.starts_le_one {ds : List Doc} (h : WF ds) (r : Nat) : ds.countP (isStartOf r) ≤ 1 := by
  induction h with
  | nil => simp
  | @snoc ds' x hwf hok ih =>
    rw [List.countP_append, List.countP_singleton]
    split
    · rename_i hx
      obtain ⟨hk, hr⟩ := (isStartOf_iff r x).mp hx
      have hz : ds'.countP (isStartOf r) = 0 := by
        rw [List.countP_eq_zero]
        intro d hd hd'
        obtain ⟨_, hdr⟩ := (isStartOf_iff r d).mp hd'
        rcases hok with ⟨_, hf⟩ | ⟨hk', _⟩ | ⟨hk', _⟩ | ⟨hk', _⟩
        · exact hf d hd (hdr.trans hr.symm)
        · rw [hk] at hk'; exact absurd hk' (by decide)
        · rw [hk] at hk'; exact absurd hk' (by decide)
        · rw [hk] at hk'; exact absurd hk' (by decide)
      omega
    · omega

theorem WF.stops_le_one {ds : List Doc} (h : WF ds) (r : Nat) : ds.countP (isStopOf r) ≤ 1 := by
  induction h with
  | nil => simp
  | @snoc ds' x hwf hok ih =>
    rw [List.countP_append, List.countP_singleton]
    split
    · rename_i hx
      obtain ⟨hk, hr⟩ := (isStopOf_iff r x).mp hx
      have hz : ds'.countP (isStopOf r) = 0 := by
        rw [List.countP_eq_zero]
        intro d hd hd'
        obtain ⟨hdk, hdr⟩ := (isStopOf_iff r d).mp hd'
        rcases hok with ⟨hk', _⟩ | ⟨hk', _⟩ | ⟨hk', _⟩ | ⟨_, _, hn⟩
        · rw [hk] at hk'; exact absurd hk' (by decide)
        · rw [hk] at hk'; exact absurd hk' (by decide)
        · rw [hk] at hk'; exact absurd hk' (by decide)
        · exact hn ⟨d, hd, hdk, hdr.trans hr.symm⟩
      omega
    · omega

theorem stopped_countP {ds : List Doc} {r : Nat} (h : stopped ds r) : 1 ≤ ds.countP (isStopOf r) := by
  obtain ⟨d, hd, hk, hr⟩ := h
  exact List.countP_pos_iff.mpr ⟨d, hd, (isStopOf_iff r d).mpr ⟨hk, hr⟩⟩

/-! ## the documents of one run, by themselves (C14) -/

def ofRun (r : Nat) (ds : List Doc) : List Doc := ds.filter (fun d => d.run == r)

theorem mem_ofRun {r : Nat} {ds : List Doc} {d : Doc} : d ∈ ofRun r ds ↔ d ∈ ds ∧ d.run = r := by
  simp [ofRun]

theorem started_ofRun (r : Nat) (ds : List Doc) : started (ofRun r ds) r ↔ started ds r := by
  constructor
  · rintro ⟨d, hd, hk, hr⟩; exact ⟨d, (mem_ofRun.mp hd).1, hk, hr⟩
  · rintro ⟨d, hd, hk, hr⟩; exact ⟨d, mem_ofRun.mpr ⟨hd, hr⟩, hk, hr⟩

theorem stopped_ofRun (r : Nat) (ds : List Doc) : stopped (ofRun r ds) r ↔ stopped ds r := by
  constructor
  · rintro ⟨d, hd, hk, hr⟩; exact ⟨d, (mem_ofRun.mp hd).1, hk, hr⟩
  · rintro ⟨d, hd, hk, hr⟩; exact ⟨d, mem_ofRun.mpr ⟨hd, hr⟩, hk, hr⟩

theorem described_ofRun (r : Nat) (ds : List Doc) (st : String) : described (ofRun r ds) r st ↔ described ds r st := by
  constructor
  · rintro ⟨d, hd, hk, hr, hs⟩; exact ⟨d, (mem_ofRun.mp hd).1, hk, hr, hs⟩
  · rintro ⟨d, hd, hk, hr, hs⟩; exact ⟨d, mem_ofRun.mpr ⟨hd, hr⟩, hk, hr, hs⟩

/-- the documents of run `r` alone form a well-formed stream: no clause of the property needs a
    document of another run -/
theorem WF.ofRun {ds : List Doc} (h : WF ds) (r : Nat) : WF (ofRun r ds) := by
  induction h with
  | nil => exact WF.nil
  | @snoc ds' x hwf hok ih =>
    unfold Engine.ofRun at ih ⊢
    rw [List.filter_append]
    by_cases hx : x.run = r
    · have : List.filter (fun d => d.run == r) [x] = [x] := by simp [hx]
      rw [this]
      apply WF.snoc ih
      subst hx
      rcases hok with ⟨hk, hf⟩ | ⟨hk, hs, hn⟩ | ⟨hk, hs, hn, hd⟩ | ⟨hk, hs, hn⟩
      · exact Or.inl ⟨hk, fun d hd => hf d (List.mem_filter.mp hd).1⟩
      · exact Or.inr (Or.inl ⟨hk, (started_ofRun _ _).mpr hs, fun h => hn ((stopped_ofRun _ _).mp h)⟩)
      · exact Or.inr (Or.inr (Or.inl ⟨hk, (started_ofRun _ _).mpr hs, fun h => hn ((stopped_ofRun _ _).mp h),
          (described_ofRun _ _ _).mpr hd⟩))
      · exact Or.inr (Or.inr (Or.inr ⟨hk, (started_ofRun _ _).mpr hs, fun h => hn ((stopped_ofRun _ _).mp h)⟩))
    · have : List.filter (fun d => d.run == r) [x] = [] := by simp [hx]
      rw [this, List.append_nil]
      exact ih

end BlueskyVerif.Engine
