/-
Helper lemmas for C35 (flow model): the event handler re-emits every internal value.
-/
import BlueskyVerif.Lemmas.C35Ranges

namespace BlueskyVerif.NormFlow

/-- the data of the event document emitted for `e` in state `st` -/
def emittedData (st : St) (e : EventIn) : List (String × DVal) :=
  (renameAll e.data).filter (fun kv => inEventKeys st (renameAll e.filled) kv.1)

theorem handleEvent_outs (st : St) (e : EventIn) :
    ∃ rest, (handleEvent st e).outs = .event e.desc e.seq (emittedData st e) :: rest := by
  unfold handleEvent
  simp only
  rw [andThen_outs rfl]
  exact ⟨_, rfl⟩

/-- one event, any state: a value under a key that some earlier descriptor declared internal (and that the
    event does not mark as unfilled) is in the emitted event under the (possibly renamed) key;
    nothing is invented -/
theorem event_kept_step (st : St) (e : EventIn) (k : String) (v : DVal) (hkv : (k, v) ∈ e.data)
    (hk : rename k ∈ st.intKeys) (hf : filledGet (renameAll e.filled) (rename k) true = true) :
    (rename k, v) ∈ emittedData st e ∧
      ∀ kv ∈ emittedData st e, ∃ k0, (k0, kv.2) ∈ e.data ∧ kv.1 = rename k0 := by
  refine ⟨?_, ?_⟩
  · simp only [emittedData, List.mem_filter]
    refine ⟨?_, ?_⟩
    · simp only [renameAll, List.mem_map]
      exact ⟨(k, v), hkv, rfl⟩
    · simp only [inEventKeys, Bool.or_eq_true, Bool.and_eq_true]
      exact Or.inl ⟨by simpa using hk, hf⟩
  · intro kv hkv'
    simp only [emittedData, List.mem_filter, renameAll, List.mem_map] at hkv'
    obtain ⟨⟨kv0, h0, h1⟩, _⟩ := hkv'
    exact ⟨kv0.1, by rw [← h1]; exact h0, by rw [← h1]⟩

/-- a descriptor that was processed leaves its (renamed) internal keys in the state for the rest of the run -/
theorem intKeys_of_descriptor (d : Descriptor) (k : String) (hk : k ∈ d.intKeys) :
    ∀ (pre : List Doc) (st : St), Doc.descriptor d ∈ pre → (runFrom st pre).err = none →
      rename k ∈ (runFrom st pre).st.intKeys := by
  intro pre
  induction pre with
  | nil => intro st h; simp at h
  | cons x xs ih =>
    intro st hmem herr
    simp only [runFrom, seqFold] at herr ⊢
    obtain ⟨h1, h2⟩ := andThen_err_none.mp herr
    rw [andThen_st h1]
    rcases List.mem_cons.mp hmem with h | h
    · subst h
      have hin : rename k ∈ (step st (Doc.descriptor d)).st.intKeys := by
        simp only [step] at h1 ⊢
        cases hc : descClash d with
        | true => simp [handleDescriptor, hc] at h1
        | false =>
          simp only [handleDescriptor, hc, Bool.false_eq_true, ↓reduceIte]
          exact mem_addKeys_right _ _ _ (List.mem_map.mpr ⟨k, hk, rfl⟩)
      exact PM_lift.run_ok _ xs h2 _ hin
    · exact ih _ h h2

/-- whole runs: an event that follows a descriptor declaring `k` internal is re-emitted with the value of `k` -/
theorem event_kept_run (pre post : List Doc) (e : EventIn) (d : Descriptor) (hd : Doc.descriptor d ∈ pre)
    (hok : (run (pre ++ Doc.event e :: post)).err = none) (k : String) (v : DVal) (hk : k ∈ d.intKeys)
    (hkv : (k, v) ∈ e.data) (hf : filledGet (renameAll e.filled) (rename k) true = true) :
    ∃ data, Out.event e.desc e.seq data ∈ (run (pre ++ Doc.event e :: post)).outs ∧ (rename k, v) ∈ data ∧
      ∀ kv ∈ data, ∃ k0, (k0, kv.2) ∈ e.data ∧ kv.1 = rename k0 := by
  unfold run runFrom at hok ⊢
  rw [seqFold_append] at hok ⊢
  obtain ⟨h1, h2⟩ := andThen_err_none.mp hok
  rw [andThen_outs h1]
  simp only [seqFold] at h2 ⊢
  obtain ⟨h3, _⟩ := andThen_err_none.mp h2
  rw [andThen_outs h3]
  have hin := intKeys_of_descriptor d k hk pre {} hd h1
  simp only [runFrom] at hin
  obtain ⟨rest, hr⟩ := handleEvent_outs (seqFold step {} pre).st e
  obtain ⟨a, b⟩ := event_kept_step (seqFold step {} pre).st e k v hkv hin hf
  refine ⟨emittedData (seqFold step {} pre).st e, ?_, a, b⟩
  simp only [step, hr]
  simp

end BlueskyVerif.NormFlow
