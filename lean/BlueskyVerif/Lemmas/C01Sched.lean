/-
C01: the invariant through the environment actions, the scheduler and the API entry points.
-/
import BlueskyVerif.Lemmas.C01Run

namespace BlueskyVerif.Engine

/-- invariant + the `_run` task is not over -/
def Live (s : EState) : Prop := Inv s ∧ s.pc ≠ .finished

theorem Live.res {s : EState} (h : Live s) : Res s := res_of_live h.1 h.2

theorem Live.congr {s s' : EState} (e : dv s' = dv s) (h : Live s) : Live s' :=
  ⟨Inv.congr e h.1, by rw [pc_of_dv e]; exact h.2⟩

/-! ## requests -/

theorem dv_termPrep (s : EState) (k r : String) : dv (termPrep s k r) = dv s := by
  unfold termPrep; frame_dv

theorem dv_termAfter (s : EState) (k : String) (w : Bool) : dv (termAfter s k w) = dv s := by
  unfold termAfter; frame_dv

theorem dv_requestTerminate (s : EState) (k r : String) : dv (requestTerminate s k r) = dv s := by
  unfold requestTerminate
  split
  · rfl
  · split
    · rw [dv_refuse]
    · rename_i s' hs
      rw [dv_termAfter, dv_setState hs, dv_termPrep]

theorem dv_pushSuspender (f : Nat) (pre post : Option Gen) (j : Option String) (s : EState) :
    dv (pushSuspender f pre post j s) = dv s := by
  unfold pushSuspender
  simp only []
  split
  · split
    · rename_i s' hs
      exact (dv_ext rfl rfl rfl rfl rfl rfl).trans ((dv_setState hs).trans (dv_ext rfl rfl rfl rfl rfl rfl))
    · rfl
  · rfl

theorem dv_requestSuspend (s : EState) (f : Nat) (pre post : Option Gen) (j : Option String) :
    dv (requestSuspend s f pre post j) = dv s := by
  unfold requestSuspend
  split
  · simp only []
    split
    · rfl
    · rename_i s' hs
      rw [dv_pushSuspender]
      have e : dv s' = dv s := (dv_setState hs).trans (dv_ext rfl rfl rfl rfl rfl rfl)
      split
      · exact (dv_ext rfl rfl rfl rfl rfl rfl).trans e
      · exact e
  · exact dv_pushSuspender f pre post j s

/-! ## monitor updates -/

theorem assocGet_of_mem_pairwise {β} {k : String} {v : β} {l : List (String × β)} (hm : (k, v) ∈ l)
    (hp : (l.map (·.1)).Pairwise (· ≠ ·)) : assocGet k l = some v := by
  induction l with
  | nil => cases hm
  | cons q l ih =>
    obtain ⟨a, b⟩ := q
    simp only [List.map_cons, List.pairwise_cons] at hp
    simp only [assocGet]
    rcases List.mem_cons.mp hm with e | e
    · cases e; simp
    · have hne : a ≠ k := hp.1 k (List.mem_map_of_mem (f := (·.1)) e)
      simp only [hne, if_false]
      exact ih e hp.2

/-- one callback of `monitorUpdate` -/
def monStep (sig : String) (v : Int) (s : EState) (p : Nat × String) : EState :=
  match s.bundlers.find? (fun (_, b) => b.runId == p.1) with
  | none => refuse s "monitor-callback-after-run"
  | some (k, b) =>
    let (s, b) := emitEvent s b p.2 [(sig, v)]
    let b := if Src.bundlerCommits.contains "monitor" then b.commit p.2 else b
    { s with bundlers := assocSet k b s.bundlers }

theorem monitorUpdate_eq (s : EState) (sig : String) (v : Int) :
    monitorUpdate s sig v =
      (devOf (setDev s sig { (devOf s sig) with value := v }) sig).subs.foldl (monStep sig v)
        (setDev s sig { (devOf s sig) with value := v }) := rfl

theorem monStep_inv (sig : String) (v : Int) (s : EState) (p : Nat × String) (h : Inv s) (hd : described s.docs p.1 p.2) :
    Inv (monStep sig v s p) ∧ (∀ r st, described s.docs r st → described (monStep sig v s p).docs r st) := by
  unfold monStep
  split
  · exact ⟨h, fun _ _ x => x⟩
  · rename_i k b hfind
    have hmem : (k, b) ∈ s.bundlers := List.mem_of_find?_eq_some hfind
    have hrid : b.runId = p.1 := by
      have := List.find?_some hfind
      simpa using this
    have hget : getBundler s { cmd := "", run := some k } = some b := assocGet_of_mem_pairwise hmem h.2.2
    have ho := open_of_get h hget
    simp only []
    constructor
    · refine inv_update (m := { cmd := "", run := some k }) h hget (emitEvent s b p.2 [(sig, v)]).1 _ rfl ?_ ?_
      · intro pre post h0
        have h1 := DI_emitEvent (pre := pre) (post := post) b p.2 [(sig, v)] "" ho (hrid ▸ hd) h0
        split
        · rw [bview_commit]; exact h1
        · exact h1
      · split
        · exact congrArg BV.runOpen (bview_commit _ _)
        · rfl
    · intro r st hx
      exact described_mono _ hx

theorem monFold_inv (sig : String) (v : Int) (l : List (Nat × String)) (s : EState) (h : Inv s)
    (hd : ∀ p ∈ l, described s.docs p.1 p.2) : Inv (l.foldl (monStep sig v) s) := by
  induction l generalizing s with
  | nil => exact h
  | cons p l ih =>
    rw [List.foldl_cons]
    obtain ⟨h1, h2⟩ := monStep_inv sig v s p h (hd p List.mem_cons_self)
    exact ih _ h1 (fun q hq => h2 _ _ (hd q (List.mem_cons_of_mem _ hq)))

theorem inv_monitorUpdate (s : EState) (sig : String) (v : Int) (h : Inv s) : Inv (monitorUpdate s sig v) := by
  rw [monitorUpdate_eq]
  have e : dv (setDev s sig { (devOf s sig) with value := v }) = dv s :=
    dv_ext rfl rfl (subsOf_setDev_same _ _ _ rfl) rfl rfl rfl
  have h1 : Inv (setDev s sig { (devOf s sig) with value := v }) := Inv.congr e h
  apply monFold_inv _ _ _ _ h1
  intro p hp
  exact h1.1.subsOk sig p hp

theorem pc_foldl {α} (f : EState → α → EState) (h : ∀ s a, (f s a).pc = s.pc) (l : List α) (s : EState) :
    (l.foldl f s).pc = s.pc := by
  induction l generalizing s with
  | nil => rfl
  | cons a l ih => rw [List.foldl_cons, ih, h]

theorem pc_monitorUpdate (s : EState) (sig : String) (v : Int) : (monitorUpdate s sig v).pc = s.pc := by
  rw [monitorUpdate_eq, pc_foldl]
  · rfl
  · intro s p
    unfold monStep
    split <;> rfl

/-! ## actions -/

theorem applyAction_live (s : EState) (a : Action) (h : Live s) : Live (applyAction s a) := by
  cases a with
  | pause d =>
    simp only [applyAction]
    split
    · rename_i s' hs
      exact ⟨inv_requestPause hs h.1, by rw [requestPause_pc hs]; exact h.2⟩
    · exact h
  | suspend f pre post j => exact Live.congr (dv_requestSuspend s f pre post j) h
  | release f =>
    simp only [applyAction]
    split
    · exact h
    · exact Live.congr (dv_ext rfl rfl rfl rfl rfl rfl) h
  | abort => exact Live.congr (dv_requestTerminate s _ _) h
  | stop => exact Live.congr (dv_requestTerminate s _ _) h
  | halt => exact Live.congr (dv_requestTerminate s _ _) h
  | status k ok =>
    simp only [applyAction]
    split
    · split
      · exact h
      · exact Live.congr ((dv_completeStatus _ _).trans (dv_ext rfl rfl rfl rfl rfl rfl)) h
    · exact h
  | monitor sig v =>
    show Live (monitorUpdate s sig v)
    exact ⟨inv_monitorUpdate s sig v h.1, by rw [pc_monitorUpdate]; exact h.2⟩

theorem foldl_live {α} (f : EState → α → EState) (hf : ∀ s a, Live s → Live (f s a)) (l : List α) (s : EState)
    (h : Live s) : Live (l.foldl f s) := by
  induction l generalizing s with
  | nil => exact h
  | cons a l ih => rw [List.foldl_cons]; exact ih _ (hf s a h)

theorem releaseAll_live (s : EState) (h : Live s) : Live (releaseAll s).1 := by
  unfold releaseAll
  simp only []
  apply foldl_live _ (fun s f h => applyAction_live s _ h)
  exact foldl_live _ (fun s k h => applyAction_live s _ h) _ _ h

/-- The scheduler preserves the invariant, and when it hands back a finished task no bundler is
    registered: for every script, every arrival bound and every amount of fuel. -/
theorem schedule_res (maxArr : Nat) (sc : Script) (fuel : Nat) (s : EState) (h : Res s) :
    Res (schedule maxArr sc fuel s) := by
  induction fuel generalizing s with
  | zero => exact ⟨Inv.congr (dv_refuse _ _) h.1, h.2⟩
  | succ n ih =>
    unfold schedule
    have arrive : ∀ (s0 : EState) (kind : String), Live s0 →
        Live (flushCompletions { s0 with arrivals := s0.arrivals ++ [kind] }) := by
      intro s0 kind h0
      exact Live.congr ((dv_flushCompletions _).trans (dv_ext rfl rfl rfl rfl rfl rfl)) h0
    have acts : ∀ (s0 : EState) (c : Prop) [Decidable c] (as : List Action), Live s0 →
        Res (advance 4000 (if c then applyAction s0 .halt else as.foldl applyAction s0)) := by
      intro s0 c _ as h0
      apply advance_res
      split
      · exact (applyAction_live _ _ h0).res
      · exact (foldl_live _ applyAction_live _ _ h0).res
    split
    · exact h
    · split
      · exact h
      · exact h
      · split
        · exact ih _ (advance_res _ _ h)
        · exact h
      · exact ih _ (advance_res _ _ h)
      · rename_i hpc
        have hl : Live s := ⟨h.1, by rw [hpc]; intro e; cases e⟩
        simp only []
        exact ih _ (acts _ _ _ (arrive s _ hl))
      · rename_i hpc
        have hl : Live s := ⟨h.1, by rw [hpc]; intro e; cases e⟩
        simp only []
        exact ih _ (acts _ _ _ (arrive s _ hl))
      · rename_i hpc
        have hl : Live s := ⟨h.1, by rw [hpc]; intro e; cases e⟩
        simp only []
        exact ih _ (acts _ _ _ (arrive s _ hl))
      · rename_i hpc
        have hl : Live s := ⟨h.1, by rw [hpc]; intro e; cases e⟩
        simp only []
        exact ih _ (acts _ _ _ (arrive s _ hl))
      all_goals
        rename_i hpc
        have hne : s.pc ≠ .finished := by rw [hpc]; intro e; cases e
        simp only []
        have hf : Res (flushCompletions s) :=
          ⟨Inv.congr (dv_flushCompletions s) h.1, fun e => absurd ((pc_of_dv (dv_flushCompletions s)).symm.trans e) hne⟩
        have hadv := advance_res 4000 _ hf
        split
        · rename_i hcond
          have hpc' : (advance 4000 (flushCompletions s)).pc = s.pc := by
            simp only [Bool.and_eq_true, Bool.not_eq_true', beq_iff_eq] at hcond
            exact hcond.1.1.trans (pc_of_dv (dv_flushCompletions s))
          have hl : Live (advance 4000 (flushCompletions s)) := ⟨hadv.1, by rw [hpc']; exact hne⟩
          have hl' : Live { advance 4000 (flushCompletions s) with
              arrivals := (advance 4000 (flushCompletions s)).arrivals ++ ["quiesce"] } :=
            Live.congr (dv_ext rfl rfl rfl rfl rfl rfl) hl
          split
          · exact ih _ (applyAction_live _ _ hl').res
          · split
            · apply ih
              split
              · exact (releaseAll_live _ hl').res
              · exact (applyAction_live _ _ (releaseAll_live _ hl')).res
            · exact ih _ (foldl_live _ applyAction_live _ _ hl').res
        · exact ih _ hadv

/-! ## entry points -/

theorem startCall_res (s : EState) (plan : Gen) (h : Inv s) : Res (startCall s plan) :=
  res_of_live (Inv.of_data rfl rfl rfl rfl rfl h) (by intro e; cases e)

theorem startResume_live (s : EState) (h : Live s) : Live (startResume s) := by
  unfold startResume
  simp only []
  have h1 : Live (forBundlers { s with interrupted := false } (fun s b => recordInterruption s b "resume")) :=
    ⟨inv_forBundlers_ri _ _ (Inv.of_data rfl rfl rfl rfl rfl h.1), by rw [pc_forBundlers_ri]; exact h.2⟩
  have h2 := Live.congr (dv_rewindPlan _) h1
  refine Live.congr (dv_ext rfl rfl rfl rfl rfl rfl) (Live.congr (dv_resumeHooks _) (Live.congr (dv_ext rfl rfl rfl rfl rfl rfl) h2))

theorem startTerminate_live (s : EState) (kind : String) (h : Live s) : Live (startTerminate s kind) := by
  unfold startTerminate
  exact Live.congr ((dv_ext rfl rfl rfl rfl rfl rfl).trans (dv_requestTerminate s kind "")) h

/-- the initial engine state satisfies the invariant -/
theorem inv_init (devSpecs : List DevSpec) (ri : Bool) : Inv ({ devSpecs := devSpecs, recordInterruptions := ri } : EState) := by
  refine Inv.of_parts [] 0 (fun _ => []) [] [] rfl rfl ?_ rfl rfl (DocInv.init _ (fun _ => rfl)) ?_ List.Pairwise.nil
  · funext n; rfl
  · intro x hx; cases hx

/-! ## several blocking calls in a row (`simulate`): resume / abort / stop / halt after each pause -/

theorem closed_of_keys {s s' : EState} (hpc : s'.pc = s.pc) (hk : keysOf s' = keysOf s) (h : Closed s) : Closed s' := by
  intro e
  have hb := h (hpc ▸ e)
  unfold keysOf at hk
  rw [hb] at hk
  exact List.map_eq_nil_iff.mp hk

theorem startResume_res (s : EState) (h : Res s) : Res (startResume s) := by
  have e1 : dv (startResume s) = dv (forBundlers { s with interrupted := false } (fun s b => recordInterruption s b "resume")) := by
    unfold startResume
    simp only []
    exact (dv_ext rfl rfl rfl rfl rfl rfl).trans ((dv_resumeHooks _).trans ((dv_ext rfl rfl rfl rfl rfl rfl).trans (dv_rewindPlan _)))
  have hi : Inv (forBundlers { s with interrupted := false } (fun s b => recordInterruption s b "resume")) :=
    inv_forBundlers_ri _ _ (Inv.of_data rfl rfl rfl rfl rfl h.1)
  refine ⟨Inv.congr e1 hi, closed_of_keys ?_ ?_ h.2⟩
  · rw [pc_of_dv e1, pc_forBundlers_ri]
  · have : keysOf (startResume s) = keysOf (forBundlers { s with interrupted := false } (fun s b => recordInterruption s b "resume")) :=
      congrArg DV.keys e1
    rw [this, forBundlers_keys]; rfl

theorem startTerminate_res (s : EState) (kind : String) (h : Res s) : Res (startTerminate s kind) := by
  have e : dv (startTerminate s kind) = dv s := by
    unfold startTerminate
    exact (dv_ext rfl rfl rfl rfl rfl rfl).trans (dv_requestTerminate s kind "")
  exact ⟨Inv.congr e h.1, closed_of_keys (pc_of_dv e) (congrArg DV.keys e) h.2⟩

theorem decide_res (sc : Scenario) (n : Nat) (ds : List String) (s : EState) (acc : List CallOutcome) (h : Res s) :
    Res (decide sc n ds s acc).1 := by
  induction n generalizing ds s acc with
  | zero => exact h
  | succ n ih =>
    unfold decide
    split
    · exact h
    · simp only []
      have hstep : ∀ d : String, Res (if d == "resume" then startResume s else startTerminate s d) := by
        intro d
        split
        · exact startResume_res s h
        · exact startTerminate_res s _ h
      apply ih
      apply schedule_res
      split <;> exact hstep _

theorem simulate_res (sc : Scenario) : Res (simulate sc).1 := by
  unfold simulate
  simp only []
  apply decide_res
  apply schedule_res
  exact startCall_res _ _ (inv_init _ _)

end BlueskyVerif.Engine
