/-
Helper lemmas for C39 (LiveDispatcher).  The lemmas that mention `seqNumOf`, `bump`,
`numEventsOf`, `newDescName`, `stopRun` depend on the facts in `LiveDispatcherGenerated.lean`
(they are proved by unfolding the generated constants), so they stop checking when the source
changes one of those facts.
-/
import BlueskyVerif.IO.LiveDispatcher

namespace BlueskyVerif.LiveDispatcher
open Gen

/-! ### association lists -/

theorem getCnt_setCnt (m : List (String × Nat)) (k : String) (v : Nat) (k' : String) (d : Nat) :
    getCnt (setCnt m k v) k' d = if k' = k then v else getCnt m k' d := by
  induction m with
  | nil =>
    by_cases h : k' = k
    · simp [setCnt, getCnt, h]
    · have h' : ¬ k = k' := fun e => h e.symm
      simp [setCnt, getCnt, h, h']
  | cons p r ih =>
    by_cases hp : p.1 = k
    · by_cases h : k' = k
      · simp [setCnt, getCnt, hp, h]
      · have h' : ¬ k = k' := fun e => h e.symm
        simp [setCnt, getCnt, hp, h, h']
    · by_cases h : k' = k
      · subst h
        simp [setCnt, getCnt, hp, ih]
      · by_cases hq : p.1 = k'
        · simp [setCnt, getCnt, hq, h]
        · simp [setCnt, getCnt, hp, hq, ih, h]

theorem DescId.same_refl (d : DescId) : d.same d = true := by
  simp [DescId.same]

theorem findDesc_append_self (ds : List (DescId × Nat)) (d : DescId) (u : Nat)
    (h : findDesc ds d = none) : findDesc (ds ++ [(d, u)]) d = some u := by
  induction ds with
  | nil => simp [findDesc, DescId.same_refl]
  | cons p r ih =>
    by_cases hp : p.1.same d = true
    · simp [findDesc, hp] at h
    · simp [findDesc, hp] at h ⊢
      exact ih h

theorem lookupDesc_insertDesc_self (m : List (String × List (DescId × Nat))) (s : String) (d : DescId) (u : Nat)
    (h : lookupDesc m s d = none) : lookupDesc (insertDesc m s d u) s d = some u := by
  induction m with
  | nil => simp [insertDesc, lookupDesc, descsOf, findDesc, DescId.same_refl]
  | cons p r ih =>
    by_cases hp : p.1 = s
    · simp [lookupDesc, descsOf, hp] at h
      simp [insertDesc, lookupDesc, descsOf, hp]
      exact findDesc_append_self _ _ _ h
    · simp only [lookupDesc, descsOf, hp, if_false] at h
      simp only [insertDesc, lookupDesc, descsOf, hp, if_false]
      exact ih h

/-- all (stream, descriptor uid) pairs stored in `self._descriptors` -/
def entries (m : List (String × List (DescId × Nat))) : List (String × Nat) :=
  m.flatMap fun p => p.2.map fun q => (p.1, q.2)

theorem findDesc_mem (ds : List (DescId × Nat)) (d : DescId) (u : Nat) (h : findDesc ds d = some u) :
    ∃ d', (d', u) ∈ ds := by
  induction ds with
  | nil => simp [findDesc] at h
  | cons p r ih =>
    by_cases hp : p.1.same d = true
    · simp [findDesc, hp] at h
      exact ⟨p.1, by simp [← h]⟩
    · simp [findDesc, hp] at h
      obtain ⟨d', hd⟩ := ih h
      exact ⟨d', by simp [hd]⟩

theorem lookupDesc_mem_entries (m : List (String × List (DescId × Nat))) (s : String) (d : DescId) (u : Nat)
    (h : lookupDesc m s d = some u) : (s, u) ∈ entries m := by
  induction m with
  | nil => simp [lookupDesc, descsOf] at h
  | cons p r ih =>
    by_cases hp : p.1 = s
    · simp [lookupDesc, descsOf, hp] at h
      obtain ⟨d', hd⟩ := findDesc_mem _ _ _ h
      simp only [entries, List.flatMap_cons, List.mem_append, List.mem_map]
      exact Or.inl ⟨(d', u), hd, by simp [hp]⟩
    · simp only [lookupDesc, descsOf, hp, if_false] at h
      have := ih h
      simp only [entries, List.flatMap_cons, List.mem_append] at this ⊢
      exact Or.inr this

theorem entries_insertDesc (m : List (String × List (DescId × Nat))) (s : String) (d : DescId) (u : Nat)
    (p : String × Nat) (h : p ∈ entries (insertDesc m s d u)) : p = (s, u) ∨ p ∈ entries m := by
  induction m with
  | nil => simp [insertDesc, entries] at h; exact Or.inl h
  | cons q r ih =>
    by_cases hq : q.1 = s
    · simp only [insertDesc, hq, if_true, entries, List.flatMap_cons, List.mem_append, List.mem_map,
        List.map_append] at h ⊢
      rcases h with h | h
      · rcases h with ⟨a, ha, rfl⟩ | ⟨a, ha, rfl⟩
        · exact Or.inr (Or.inl ⟨a, ha, rfl⟩)
        · simp at ha; subst ha; exact Or.inl rfl
      · exact Or.inr (Or.inr h)
    · simp only [insertDesc, hq, if_false, entries, List.flatMap_cons, List.mem_append] at h ⊢
      rcases h with h | h
      · exact Or.inr (Or.inl h)
      · rcases ih h with h | h
        · exact Or.inl h
        · exact Or.inr (Or.inr h)

/-- the streams that are keys of `self._descriptors` -/
def streamKeys (m : List (String × List (DescId × Nat))) : List String := m.map (·.1)

theorem streamKeys_insertDesc (m : List (String × List (DescId × Nat))) (s : String) (d : DescId) (u : Nat) (x : String) :
    x ∈ streamKeys (insertDesc m s d u) ↔ x ∈ streamKeys m ∨ x = s := by
  induction m with
  | nil => simp [insertDesc, streamKeys]
  | cons q r ih =>
    by_cases hq : q.1 = s
    · simp only [insertDesc, hq, if_true, streamKeys, List.map_cons, List.mem_cons]
      constructor
      · rintro (h | h)
        · exact Or.inr h
        · exact Or.inl (Or.inr h)
      · rintro ((h | h) | h)
        · exact Or.inl h
        · exact Or.inr h
        · exact Or.inl h
    · simp only [insertDesc, hq, if_false, streamKeys, List.map_cons, List.mem_cons]
      simp only [streamKeys] at ih
      rw [ih]
      constructor
      · rintro (h | h | h)
        · exact Or.inl (Or.inl h)
        · exact Or.inl (Or.inr h)
        · exact Or.inr h
      · rintro ((h | h) | h)
        · exact Or.inl h
        · exact Or.inr (Or.inl h)
        · exact Or.inr (Or.inr h)

theorem streamKeys_insertDesc_nodup (m : List (String × List (DescId × Nat))) (s : String) (d : DescId) (u : Nat)
    (h : (streamKeys m).Nodup) : (streamKeys (insertDesc m s d u)).Nodup := by
  induction m with
  | nil => simp [insertDesc, streamKeys]
  | cons q r ih =>
    by_cases hq : q.1 = s
    · simpa [insertDesc, hq, streamKeys] using h
    · simp only [streamKeys, List.map_cons, List.nodup_cons] at h
      simp only [insertDesc, hq, if_false, streamKeys, List.map_cons, List.nodup_cons]
      refine ⟨?_, ih h.2⟩
      intro hmem
      have := (streamKeys_insertDesc r s d u q.1).1 hmem
      rcases this with h' | h'
      · exact h.1 h'
      · exact hq h'

theorem lookup_map_key (l : List (String × List (DescId × Nat))) (f : String → List (DescId × Nat) → Nat) (s : String) :
    List.lookup s (l.map fun p => (p.1, f p.1 p.2)) =
      match descsOf l s with
      | some ds => some (f s ds)
      | none => none := by
  induction l with
  | nil => simp [descsOf]
  | cons p r ih =>
    by_cases hp : p.1 = s
    · subst hp
      simp [descsOf]
    · have hp' : (s == p.1) = false := by
        simp only [beq_eq_false_iff_ne, ne_eq]
        exact fun e => hp e.symm
      simp [List.lookup, descsOf, hp, hp', ih]

theorem descsOf_isSome (l : List (String × List (DescId × Nat))) (s : String) :
    (descsOf l s).isSome = true ↔ s ∈ streamKeys l := by
  induction l with
  | nil => simp [descsOf, streamKeys]
  | cons p r ih =>
    by_cases hp : p.1 = s
    · simp [descsOf, streamKeys, hp]
    · have : ¬ s = p.1 := fun e => hp e.symm
      simp only [descsOf, hp, if_false, streamKeys, List.map_cons, List.mem_cons, this, false_or]
      simpa [streamKeys] using ih

/-! ### projections of the named blocks -/

@[simp] theorem bump_descriptors (st : St) (c : Call) : (bump st c).descriptors = st.descriptors := rfl
@[simp] theorem bump_nextUid (st : St) (c : Call) : (bump st c).nextUid = st.nextUid := rfl
@[simp] theorem bump_startUid (st : St) (c : Call) : (bump st c).startUid = st.startUid := rfl
@[simp] theorem bump_rawDescs (st : St) (c : Call) : (bump st c).rawDescs = st.rawDescs := rfl
@[simp] theorem withDesc_seqCounts (st : St) (c : Call) : (withDesc st c).seqCounts = st.seqCounts := rfl
@[simp] theorem withDesc_seqCount (st : St) (c : Call) : (withDesc st c).seqCount = st.seqCount := rfl
@[simp] theorem withDesc_nextUid (st : St) (c : Call) : (withDesc st c).nextUid = st.nextUid + 1 := rfl
@[simp] theorem withDesc_startUid (st : St) (c : Call) : (withDesc st c).startUid = st.startUid := rfl
@[simp] theorem withDesc_descriptors (st : St) (c : Call) :
    (withDesc st c).descriptors = insertDesc st.descriptors c.stream (descIdOf c) st.nextUid := rfl
@[simp] theorem afterEvent_seqCounts (st : St) : (afterEvent st).seqCounts = st.seqCounts := rfl
@[simp] theorem afterEvent_nextUid (st : St) : (afterEvent st).nextUid = st.nextUid + 1 := rfl
@[simp] theorem afterEvent_startUid (st : St) : (afterEvent st).startUid = st.startUid := rfl
@[simp] theorem afterEvent_descriptors (st : St) : (afterEvent st).descriptors = st.descriptors := rfl

/-- the per-stream counter after the counting statement (uses the extracted increment) -/
theorem bump_cnt (st : St) (c : Call) (s : String) :
    getCnt (bump st c).seqCounts s 0 = getCnt st.seqCounts s 0 + (if s = c.stream then 1 else 0) := by
  simp only [bump, hasPerStreamIncrement, incDefault, incStep, if_true, getCnt_setCnt]
  by_cases h : s = c.stream
  · simp [h]
  · simp [h]

/-- the value written into "seq_num" is the per-stream counter (uses the extracted source) -/
theorem seqNumOf_eq (st : St) (c : Call) : seqNumOf st c = getCnt st.seqCounts c.stream 0 := by
  simp [seqNumOf, seqNumSource]

/-- a new descriptor is named after the stream it is emitted in (uses the extracted fact) -/
theorem newDescName_eq (st : St) (c : Call) : newDescName st c = some c.stream := by
  simp [newDescName, descNameFromStream]

/-! ### the three ways a `process_event` call can go -/

theorem processEvent_cases (st : St) (c : Call) :
    processEvent st c = (st, []) ∨
    (∃ du, lookupDesc st.descriptors c.stream (descIdOf c) = some du ∧
      processEvent st c = (afterEvent (bump st c), [evDoc (bump st c) c du])) ∨
    (lookupDesc st.descriptors c.stream (descIdOf c) = none ∧
      processEvent st c =
        (afterEvent (bump (withDesc st c) c), [descDoc st c, evDoc (bump (withDesc st c) c) c st.nextUid])) := by
  unfold processEvent
  by_cases hk : keyErrorOnRaw st c = true
  · left; simp [hk]
  · right
    simp only [hk]
    cases hl : lookupDesc st.descriptors c.stream (descIdOf c) with
    | some du =>
      left
      refine ⟨du, rfl, ?_⟩
      simp [ensureDescriptor, described, hl, emitEvent]
    | none =>
      right
      refine ⟨rfl, ?_⟩
      have h2 := lookupDesc_insertDesc_self st.descriptors c.stream (descIdOf c) st.nextUid hl
      simp [ensureDescriptor, described, hl, emitEvent, h2]

end BlueskyVerif.LiveDispatcher
