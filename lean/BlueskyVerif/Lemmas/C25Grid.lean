/-
Helper lemmas for C25 (part 2, core Lean only): the outer-product trajectories of grid_scan /
list_grid_scan through the C26 closed form -- explicit position of every motor at every flat index.
-/
import BlueskyVerif.Lemmas.C25Scan
import BlueskyVerif.Lemmas.C26Arith
namespace BlueskyVerif.Pure.StepScan
open BlueskyVerif.Pure BlueskyVerif.Pure.Snake BlueskyVerif.Pure.Patterns

theorem getElem?_pick {α : Type} (cols : List (List α)) (is : List Nat) (h : inBox is (cols.map List.length))
    (i : Nat) :
    (pick cols is)[i]? = match cols[i]?, is[i]? with
      | some c, some k => c[k]?
      | _, _ => none := by
  induction cols generalizing is i with
  | nil => cases is <;> simp [pick]
  | cons v vs ih =>
    cases is with
    | nil => simp [inBox] at h
    | cons k ks =>
      simp only [List.map_cons, inBox] at h
      simp only [pick, List.getElem?_eq_getElem h.1, Option.toList_some, List.singleton_append]
      cases i with
      | zero => simp [List.getElem?_eq_getElem h.1]
      | succ i => simpa using ih ks h.2 i

theorem length_pick {α : Type} (cols : List (List α)) (is : List Nat) (h : inBox is (cols.map List.length)) :
    (pick cols is).length = cols.length := by
  induction cols generalizing is with
  | nil => cases is <;> simp [pick]
  | cons v vs ih =>
    cases is with
    | nil => simp [inBox] at h
    | cons k ks =>
      simp only [List.map_cons, inBox] at h
      simp [pick, List.getElem?_eq_getElem h.1, ih ks h.2]

/-- keys of a step built from a label point: 0, 1, 2, ... -/
theorem keys_toStep (pt : List Rat) : (pt.zipIdx.map fun x => (x.2, x.1)).map (·.1) = List.range pt.length := by
  rw [List.map_map, List.range_eq_range', ← List.zipIdx_map_snd 0 pt]
  rfl

theorem nodup_keys_toSteps (pts : List (List Rat)) : ∀ s ∈ toSteps pts, (s.map (·.1)).Nodup := by
  intro s hs
  simp only [toSteps, List.mem_map] at hs
  obtain ⟨pt, _, rfl⟩ := hs
  rw [keys_toStep]; exact List.nodup_range

/-- the trajectory `snake_cyclers` produces for label columns `cols` (C26 closed form), as steps -/
def outerTraj (cols : List (List Rat)) (flags : List Bool) : List Step :=
  toSteps ((traj (axesOf cols flags)).map (pick cols))

theorem ofRes_snakeCyclers (cols : List (List Rat)) (flags : List Bool)
    (hlen : flags.length = cols.length) (hne : cols ≠ []) :
    ofRes (snakeCyclers cols flags) = .ok (outerTraj cols flags) := by
  rw [snakeCyclers_closed_form cols flags hlen.symm hne]; rfl

theorem length_outerTraj (cols : List (List Rat)) (flags : List Bool) (hlen : flags.length = cols.length) :
    (outerTraj cols flags).length = prod (cols.map List.length) := by
  simp [outerTraj, toSteps, length_traj, axesOf_fst cols flags hlen.symm]

/-- explicit position of motor `i` at flat position `p` of an outer-product trajectory: the element of
    its own position list at the C26 index -/
theorem outerPoint (cols : List (List Rat)) (flags : List Bool) (hlen : flags.length = cols.length)
    (p : Nat) (hp : p < prod (cols.map List.length)) (i : Nat) (c : List Rat) (s : Bool)
    (hi : cols[i]? = some c) (hs : flags[i]? = some s) :
    ∃ step x, (outerTraj cols flags)[p]? = some step ∧
      c[idxAt c.length (prod ((cols.drop (i + 1)).map List.length)) s p]? = some x ∧
      step[i]? = some (i, x) := by
  have hfst : (axesOf cols flags).map (·.1) = cols.map List.length := axesOf_fst _ _ hlen.symm
  have hpos : ∀ x ∈ axesOf cols flags, 0 < x.1 := axes_pos_of_prod_pos (by rw [hfst]; omega)
  have hbox := idxs_inBox (axesOf cols flags) hpos p
  rw [hfst] at hbox
  have hax : (axesOf cols flags)[i]? = some (c.length, s) := by
    simp [axesOf, List.getElem?_zip_eq_some, hi, hs]
  have hidx := getElem?_idxs _ i c.length s p hax
  have hdrop : ((axesOf cols flags).drop (i + 1)).map (·.1) = (cols.drop (i + 1)).map List.length := by
    rw [List.map_drop, hfst, ← List.map_drop]
  rw [hdrop] at hidx
  have hlt : idxAt c.length (prod ((cols.drop (i + 1)).map List.length)) s p < c.length := by
    have hL : 0 < c.length := hpos (c.length, s) (List.mem_of_getElem? hax)
    rw [idxAt_eq_mirror]; exact mirror_lt _ (Nat.mod_lt _ hL)
  have hpk := getElem?_pick cols _ hbox i
  rw [hi, hidx] at hpk
  refine ⟨(pick cols (idxs (axesOf cols flags) p)).zipIdx.map (fun x => (x.2, x.1)), c[idxAt c.length _ s p], ?_, ?_, ?_⟩
  · simp only [outerTraj, toSteps, traj, hfst, List.map_map, List.getElem?_map, List.getElem?_range hp,
      Option.map_some, Function.comp]
  · exact List.getElem?_eq_getElem hlt
  · simp only [List.getElem?_eq_getElem hlt] at hpk
    simp [List.getElem?_zipIdx, hpk]

/-- the label columns handed to `snake_cyclers` by `outer_product` -/
def gridCols (axes : List (Rat × Rat × Nat)) : List (List Rat) := axes.map fun a => linspace a.1 a.2.1 a.2.2

theorem gridCols_lengths (axes : List (Rat × Rat × Nat)) :
    (gridCols axes).map List.length = axes.map (·.2.2) := by
  simp [gridCols, Function.comp_def, length_linspace]

theorem outerProduct_eq (axes : List (Rat × Rat × Nat)) (flags : List Bool)
    (hlen : flags.length = axes.length) (hne : axes ≠ []) :
    outerProduct axes flags = .ok (outerTraj (gridCols axes) flags) :=
  ofRes_snakeCyclers (gridCols axes) flags (by simp [gridCols, hlen]) (by simpa [gridCols] using hne)

/-- explicit position of motor `i` at flat position `p` of a grid_scan trajectory -/
theorem gridPoint (axes : List (Rat × Rat × Nat)) (flags : List Bool) (hlen : flags.length = axes.length)
    (p : Nat) (hp : p < prod (axes.map (·.2.2))) (i : Nat) (a : Rat × Rat × Nat) (s : Bool)
    (hi : axes[i]? = some a) (hs : flags[i]? = some s) :
    ∃ step, (outerTraj (gridCols axes) flags)[p]? = some step ∧
      step[i]? = some (i, a.1 + ((idxAt a.2.2 (prod ((axes.drop (i + 1)).map (·.2.2))) s p : Nat) : Rat)
        * ((a.2.1 - a.1) / ((a.2.2 : Rat) - 1))) := by
  have hcol : (gridCols axes)[i]? = some (linspace a.1 a.2.1 a.2.2) := by simp [gridCols, hi]
  obtain ⟨step, x, h1, h2, h3⟩ := outerPoint (gridCols axes) flags (by simp [gridCols, hlen]) p
    (by rw [gridCols_lengths]; exact hp) i _ s hcol hs
  refine ⟨step, h1, ?_⟩
  have hd : ((gridCols axes).drop (i + 1)).map List.length = (axes.drop (i + 1)).map (·.2.2) := by
    rw [List.map_drop, gridCols_lengths, ← List.map_drop]
  rw [hd, length_linspace] at h2
  have hlt : idxAt a.2.2 (prod ((axes.drop (i + 1)).map (·.2.2))) s p < a.2.2 := by
    rcases Nat.lt_or_ge (idxAt a.2.2 (prod ((axes.drop (i + 1)).map (·.2.2))) s p) a.2.2 with h | h
    · exact h
    · rw [List.getElem?_eq_none (by rw [length_linspace]; exact h)] at h2; simp at h2
  rw [getElem?_linspace _ _ _ _ hlt] at h2
  rw [h3, ← Option.some.inj h2]

end BlueskyVerif.Pure.StepScan
