/-
Helper lemmas for C44: facts about `statsOf` / `calcStats` as a whole.
-/
import BlueskyVerif.Lemmas.C44Stats

set_option linter.unusedSimpArgs false

namespace BlueskyVerif.PeakStats

theorem calcStats_some {n : Nat} {x y : Vec} {ec : Option Nat} {s : Stats} (h : calcStats n x y ec = some s) :
    ∃ bk, s = statsOf n x (ranked n x y ec) bk := by
  unfold calcStats at h
  cases ec with
  | none => simp only [Option.some.injEq] at h; exact ⟨none, by rw [← h]; rfl⟩
  | some e =>
    simp only at h
    cases hb : bkg n e x y with
    | none => simp [hb] at h
    | some bk =>
      simp only [hb, Option.some.injEq] at h
      exact ⟨some bk, by rw [← h]; simp [ranked, hb]⟩

theorem calcStats_isSome {n : Nat} {x : Vec} (y : Vec) {ec : Option Nat} (hm : StrictMonotonic n x)
    (hv : ValidEdge n ec) : ∃ s, calcStats n x y ec = some s := by
  unfold calcStats
  cases ec with
  | none => exact ⟨_, rfl⟩
  | some e =>
    obtain ⟨bk, hb⟩ := bkg_isSome y hm hv.1 hv.2
    simp only [hb]
    exact ⟨_, rfl⟩

theorem mem_zip_map_self {α β} (f : α → β) (l : List α) (p : α × β) (hp : p ∈ l.zip (l.map f)) :
    p.1 ∈ l ∧ p.2 = f p.1 := by
  induction l with
  | nil => simp at hp
  | cons a as ih =>
    simp only [List.map_cons, List.zip_cons_cons, List.mem_cons] at hp
    rcases hp with rfl | h
    · simp
    · exact ⟨List.mem_cons_of_mem _ (ih h).1, (ih h).2⟩

/-- with increasing x the crossings come out in increasing order, with decreasing x in decreasing order -/
theorem crossings_sorted_inc {n : Nat} {x : Vec} (y : Vec) (mid : Rat) (hm : StrictInc n x) :
    ((crossIdx n y mid).map (crossAt x y mid)).Pairwise (· ≤ ·) := by
  rw [List.pairwise_map]
  refine List.Pairwise.imp_of_mem ?_ (crossIdx_sorted n y mid)
  intro a b ha hb hab
  obtain ⟨ha1, ha2⟩ := mem_crossIdx.mp ha
  obtain ⟨hb1, hb2⟩ := mem_crossIdx.mp hb
  have xa := hm a (a + 1) (by omega) ha1
  have xb := hm b (b + 1) (by omega) hb1
  have xab : x (a + 1) ≤ x b := hm.le (by omega) (by omega)
  have ba := crossAt_between x y mid a (ne_of_lt xa) ha2
  have bb := crossAt_between x y mid b (ne_of_lt xb) hb2
  rcases ba with ⟨_, h1⟩ | ⟨_, h1⟩ <;> rcases bb with ⟨h2, _⟩ | ⟨h2, _⟩ <;> linarith

theorem crossings_sorted_dec {n : Nat} {x : Vec} (y : Vec) (mid : Rat) (hm : StrictDec n x) :
    ((crossIdx n y mid).map (crossAt x y mid)).Pairwise (· ≥ ·) := by
  rw [List.pairwise_map]
  refine List.Pairwise.imp_of_mem ?_ (crossIdx_sorted n y mid)
  intro a b ha hb hab
  obtain ⟨ha1, ha2⟩ := mem_crossIdx.mp ha
  obtain ⟨hb1, hb2⟩ := mem_crossIdx.mp hb
  have xa := hm a (a + 1) (by omega) ha1
  have xb := hm b (b + 1) (by omega) hb1
  have xab : x b ≤ x (a + 1) := hm.le (by omega) (by omega)
  have ba := crossAt_between x y mid a (ne_of_gt xa) ha2
  have bb := crossAt_between x y mid b (ne_of_gt xb) hb2
  show crossAt x y mid a ≥ crossAt x y mid b
  rcases ba with ⟨h1, _⟩ | ⟨h1, _⟩ <;> rcases bb with ⟨_, h2⟩ | ⟨_, h2⟩ <;> linarith

/-- every crossing lies between the first and the last one: these are the outermost crossings -/
theorem crossings_outermost {n : Nat} {x : Vec} (y : Vec) (mid : Rat) (hm : StrictMonotonic n x) :
    let cs := (crossIdx n y mid).map (crossAt x y mid)
    ∀ c ∈ cs, Between (cs.headD 0) (cs.getLastD 0) c := by
  intro cs c hc
  rcases hm with hm | hm
  · exact Or.inl (sorted_le_bounds cs (crossings_sorted_inc y mid hm) c hc)
  · exact Or.inr (sorted_ge_bounds cs (crossings_sorted_dec y mid hm) c hc)

/-- every crossing lies within the x range -/
theorem crossing_in_range {n : Nat} {x : Vec} (y : Vec) (mid : Rat) (hm : StrictMonotonic n x) (hn : 1 ≤ n) :
    ∀ c ∈ (crossIdx n y mid).map (crossAt x y mid), xLo n x ≤ c ∧ c ≤ xHi n x := by
  intro c hc
  obtain ⟨cr, hcr, rfl⟩ := List.mem_map.mp hc
  obtain ⟨h1, h2⟩ := mem_crossIdx.mp hcr
  have r1 := sample_in_range hm hn (show cr < n by omega)
  have r2 := sample_in_range hm hn h1
  rcases crossAt_between x y mid cr (adjacent_ne hm h1) h2 with ⟨a, b⟩ | ⟨a, b⟩ <;> constructor <;> linarith

/-- there is a crossing exactly when y is not constant (level = midpoint of max and min) -/
theorem crossIdx_ne_nil_iff (n : Nat) (y : Vec) (hn : 1 ≤ n) :
    crossIdx n y ((y (argmax n y) + y (argmin n y)) / 2) ≠ [] ↔ ∃ i j, i < n ∧ j < n ∧ y i ≠ y j := by
  obtain ⟨hM, hMax, _⟩ := argmax_spec n y hn
  obtain ⟨hm, hMin, _⟩ := argmin_spec n y hn
  constructor
  · intro h
    obtain ⟨i, hi⟩ := List.exists_mem_of_ne_nil _ h
    obtain ⟨h1, h2⟩ := mem_crossIdx.mp hi
    refine ⟨i, i + 1, by omega, h1, ?_⟩
    intro e
    unfold Straddles at h2
    rw [e] at h2
    exact h2 rfl
  · rintro ⟨i, j, hi, hj, hne⟩
    have hlt : y (argmin n y) < y (argmax n y) := by
      rcases lt_or_gt_of_ne hne with h | h
      · exact lt_of_le_of_lt (hMin i hi) (lt_of_lt_of_le h (hMax j hj))
      · exact lt_of_le_of_lt (hMin j hj) (lt_of_lt_of_le h (hMax i hi))
    set mid := (y (argmax n y) + y (argmin n y)) / 2 with hmid
    have p1 : mid < y (argmax n y) := by rw [hmid]; linarith
    have p2 : ¬ mid < y (argmin n y) := by rw [hmid]; intro h; linarith
    have hneq : argmax n y ≠ argmin n y := by intro e; rw [e] at p1; exact p2 p1
    have key : ∃ k, k + 1 < n ∧ ¬ ((mid < y k) ↔ (mid < y (k + 1))) := by
      rcases Nat.lt_or_ge (argmax n y) (argmin n y) with hab | hab
      · obtain ⟨k, _, h2, h3⟩ := exists_flip (fun k => mid < y k) _ _ hab (fun e => p2 (e.mp p1))
        exact ⟨k, by omega, h3⟩
      · have hab' : argmin n y < argmax n y := by omega
        obtain ⟨k, _, h2, h3⟩ := exists_flip (fun k => mid < y k) _ _ hab' (fun e => p2 (e.mpr p1))
        exact ⟨k, by omega, h3⟩
    obtain ⟨k, hk, hflip⟩ := key
    have : k ∈ crossIdx n y mid := mem_crossIdx.mpr ⟨hk, fun e => hflip (by rw [e])⟩
    exact List.ne_nil_of_mem this

end BlueskyVerif.PeakStats
