/-
Lemmas/C23Lazy.lean -- lazily_stage_wrapper: its drive (from the plan_mutator-with-closure
semantics of Lemmas/C23Mutator.lean and the closure finalizer of Lemmas/C23Try.lean) and the
invariants of `devices_staged`.
-/
import BlueskyVerif.Lemmas.C23Mutator
import BlueskyVerif.Lemmas.C23Wrappers
import BlueskyVerif.Lemmas.C23Tree

namespace BlueskyVerif.Gen
set_option linter.unusedSectionVars false

section
variable {R E : Type} [Inhabited R] [DecidableEq R] [PyExc E]

theorem lazySpec_ok (view : RespView R) (t : DevTree) : (lazySpec view t).OK where
  ask_isQuery := by
    intro env m q h
    simp only [lazySpec] at h ⊢
    split at h
    · split at h
      · split at h
        · cases h
        · cases h; rfl
      · cases h
    · cases h
  query_pass := by
    intro env q h
    simp only [lazySpec, beq_iff_eq] at h ⊢
    cases ho : q.obj with
    | none => rfl
    | some d => simp [h, Generated.lsCommands]
  silent_notQuery := by
    intro env m h
    simp only [lazySpec] at h
    split at h
    · split at h
      · split at h <;> cases h
      · cases h
    · cases h

/-- `devices_staged` when the wrapped part of lazily_stage_wrapper has received `used` -/
def lazyStaged (fuel : Nat) (view : RespView R) (t : DevTree) (plan : PBeh R E)
    (used : List (Inp R E)) : List Dev :=
  envAfter fuel PMsg.ident (lazySpec view t) [] plan (.send default :: used)

/-- the wrapped part of lazily_stage_wrapper: `plan_mutator(plan, inner)`, driven -/
def lazyBody (view : RespView R) (t : DevTree) (plan : PBeh R E) (c : Bool) (ins : List (Inp R E)) :
    Drv (PMsg × List Dev) R R E :=
  emOut c (lazySpec view t) PMsg.ident [] [] ((Pos.new plan).resume (.send default)) ins

/-- **lazily_stage_wrapper**: the mutated plan (`lazyBody`: every message, annotated with
    `devices_staged` at the time), then -- unless it ended with a GeneratorExit -- `unstage` of
    `devices_staged` reversed, then the pending outcome. -/
theorem drive_lazilyStageWrapper (f : Nat) (view : RespView R) (t : DevTree) (plan : PBeh R E)
    (c : Bool) (ins : List (Inp R E)) (hn : NoGenExit ins) :
    drive c (lazilyStageWrapper (f + 3) view t plan) ins
      = ((lazyBody view t plan c ins).map Prod.fst).bindH c [] ins
          (finallyK fun used => stageAllProg view .unstage 1
            (Generated.lsUnstageOrder.apply (lazyStaged (f + 3) view t plan used)) false) := by
  unfold lazilyStageWrapper
  simp only []
  rw [drive_finalizeProg _ _ c ins hn]
  unfold envMutator
  rw [drive_mapMsg, (drive_envMutatorA (lazySpec view t) (lazySpec_ok view t) PMsg.ident [] plan f c
    ins hn).1]
  rfl

/-- ... and `devices_staged` is the value the specification computes -/
theorem lazyStaged_eq (f : Nat) (view : RespView R) (t : DevTree) (plan : PBeh R E)
    (used : List (Inp R E)) (hn : NoGenExit used) :
    lazyStaged (f + 3) view t plan used
      = emEnvOut (lazySpec view t) PMsg.ident [] [] ((Pos.new plan).resume (.send default)) used :=
  (drive_envMutatorA (lazySpec view t) (lazySpec_ok view t) PMsg.ident [] plan f false used hn).2

/-! ### what the processor decides -/

/-- **when a `stage` is inserted**: for a message object not seen before whose command is in
    COMMANDS, whose device is not in `devices_staged` and whose root ancestor is not either -- then
    `stage root` goes out first (`query` mode: its response is appended to `devices_staged`, then
    the message follows); every other message goes out as it is.  `devices_staged` itself is not
    changed by the decision. -/
theorem lazy_decide (view : RespView R) (t : DevTree) (seen : List (List Nat)) (staged : List Dev)
    (m : PMsg) :
    (emDecide (lazySpec view t) PMsg.ident seen staged m).2.1 = staged ∧
    (((emDecide (lazySpec view t) PMsg.ident seen staged m).2.2.2 = m ∧
        (∀ m', (emDecide (lazySpec view t) PMsg.ident seen staged m).2.2.1 ≠ .query m')) ∨
      (∃ d, m.obj = some d ∧ Generated.lsCommands.contains m.cmd = true ∧ d ∉ staged ∧
        rootAncestor t d ∉ staged ∧ seen.contains m.ident = false ∧
        (emDecide (lazySpec view t) PMsg.ident seen staged m).2.2.2 = devMsg .stage (rootAncestor t d) ∧
        (emDecide (lazySpec view t) PMsg.ident seen staged m).2.2.1 = .query m)) := by
  by_cases hs : m.ident ∈ seen
  · simp [emDecide, hs]
  · cases ho : m.obj with
    | none => simp [emDecide, hs, lazySpec, ho]
    | some d =>
      by_cases h1 : m.cmd ∈ Generated.lsCommands
      · by_cases h2 : d ∈ staged
        · simp [emDecide, hs, lazySpec, ho, h1, h2]
        · by_cases h3 : rootAncestor t d ∈ staged
          · simp [emDecide, hs, lazySpec, ho, h1, h2, h3]
          · simp [emDecide, hs, lazySpec, ho, h1, h2, h3]
      · simp [emDecide, hs, lazySpec, ho, h1]

/-! ### `devices_staged` has no duplicates -/

theorem rootAncestor_root (t : DevTree) (r : Dev) (h : t.parent r = none) : rootAncestor t r = r := by
  unfold rootAncestor ancestry
  cases hd : t.depth with
  | zero => simp [ancestryAux]
  | succ n => simp [ancestryAux, h]

/-- what a `stage root` message is answered with: the root itself and devices of its tree, each
    once (`None` counts as `[root]`) -/
def StageRespOK (view : RespView R) (t : DevTree) : Prop :=
  ∀ root r, root ∈ (view.asDevs root r).getD [root] ∧ ((view.asDevs root r).getD [root]).Nodup ∧
    ∀ d ∈ (view.asDevs root r).getD [root], rootAncestor t d = root

/-- the invariant of `devices_staged` -/
def StagedInv (t : DevTree) (staged : List Dev) : Prop :=
  staged.Nodup ∧ ∀ d ∈ staged, rootAncestor t d ∈ staged

/-- ... together with what is known about a pending query -/
def LazyInv (t : DevTree) (staged : List Dev) : EmMode PMsg → PMsg → Prop
  | .plain, _ => StagedInv t staged
  | .query _, q => StagedInv t staged ∧ ∃ root, q = devMsg .stage root ∧ root ∉ staged ∧
      rootAncestor t root = root

theorem lazyInv_decide (view : RespView R) (t : DevTree) (ht : TreeOK t) (seen : List (List Nat))
    (staged : List Dev) (m : PMsg) (h : StagedInv t staged) :
    LazyInv t (emDecide (lazySpec view t) PMsg.ident seen staged m).2.1
      (emDecide (lazySpec view t) PMsg.ident seen staged m).2.2.1
      (emDecide (lazySpec view t) PMsg.ident seen staged m).2.2.2 := by
  obtain ⟨h1, h2⟩ := lazy_decide view t seen staged m
  rw [h1]
  rcases h2 with ⟨_, hm⟩ | ⟨d, _, _, _, hr, _, hq, hmode⟩
  · cases hmd : (emDecide (lazySpec view t) PMsg.ident seen staged m).2.2.1 with
    | plain => exact h
    | query m' => exact absurd hmd (hm m')
  · rw [hmode, hq]
    exact ⟨h, _, rfl, hr, rootAncestor_root t _ (ht d)⟩

theorem stagedInv_answer (view : RespView R) (t : DevTree) (hv : StageRespOK view t)
    (staged : List Dev) (root : Dev) (r : R) (h : StagedInv t staged) (hr : root ∉ staged) :
    StagedInv t ((lazySpec view t).updAsk (devMsg .stage root) r staged) := by
  obtain ⟨h1, h2, h3⟩ := hv root r
  simp only [lazySpec, devMsg]
  refine ⟨List.nodup_append.mpr ⟨h.1, h2, ?_⟩, ?_⟩
  · intro a ha b hb hab
    subst hab
    exact hr (h3 a hb ▸ h.2 a ha)
  · intro d hd
    rcases List.mem_append.mp hd with hd | hd
    · exact List.mem_append_left _ (h.2 d hd)
    · rw [h3 d hd]; exact List.mem_append_right _ h1

theorem lazy_env_inv (view : RespView R) (t : DevTree) (ht : TreeOK t) (hv : StageRespOK view t)
    (ins : List (Inp R E)) :
    ∀ (seen : List (List Nat)) (staged : List Dev) (p : Pos PMsg R R E) (mode : EmMode PMsg)
      (em : PMsg), LazyInv t staged mode em →
      StagedInv t (emEnvGo (lazySpec view t) PMsg.ident seen staged p mode em ins) := by
  induction ins with
  | nil =>
    intro seen staged p mode em h
    cases mode with
    | plain => exact h
    | query m => exact h.1
  | cons i rest ih =>
    intro seen staged p mode em h
    have hs : StagedInv t staged := by cases mode <;> first | exact h | exact h.1
    rw [emEnvGo]
    cases hin : emInput mode i with
    | answer r m =>
      have hm : mode = .query m := by
        cases mode <;> cases i <;> simp only [emInput] at hin
        · cases hin
        · split at hin <;> cases hin
        · cases hin; rfl
        · split at hin <;> cases hin
      subst hm
      obtain ⟨_, root, rfl, hr, _⟩ := h
      simp only []
      exact ih _ _ _ _ _ (stagedInv_answer view t hv staged root r hs hr)
    | leave e => exact hs
    | feed =>
      simp only []
      rcases p.resume i with ⟨o, p'⟩
      cases o with
      | yld m' => exact ih _ _ _ _ _ (lazyInv_decide view t ht seen staged m' hs)
      | ret v => exact hs
      | raise x => exact hs

/-- **`devices_staged` never lists a device twice** (so each is unstaged exactly once), for every
    wrapped plan and every script, when `stage` answers are well formed -/
theorem lazyStaged_nodup (f : Nat) (view : RespView R) (t : DevTree) (ht : TreeOK t)
    (hv : StageRespOK view t) (plan : PBeh R E) (used : List (Inp R E)) (hn : NoGenExit used) :
    (lazyStaged (f + 3) view t plan used).Nodup := by
  rw [lazyStaged_eq f view t plan used hn]
  unfold emEnvOut
  rcases (Pos.new plan).resume (.send default) with ⟨o, p'⟩
  have h0 : StagedInv t ([] : List Dev) := ⟨List.nodup_nil, by simp⟩
  cases o with
  | yld m' =>
    exact (lazy_env_inv view t ht hv used _ _ p' _ _ (lazyInv_decide view t ht [] [] m' h0)).1
  | ret v => exact h0.1
  | raise x => exact h0.1

end
end BlueskyVerif.Gen
