/-
C05: the abstract counter machine.  The ghost log `BState.log` of the bundler model is a list of
micro-events (`CEv`); here they are given a semantics on the two counter dictionaries alone
(`Ctr`), with a validity discipline (`stepP` returns `none` for a log the bundler cannot produce),
and the monotonicity facts every C05 theorem is derived from.  No `BState` in this file.
-/
import BlueskyVerif.Lemmas.BundlerBasic

namespace BlueskyVerif.Bundler
open Generated

structure Ctr where
  seq : List (Name × Nat) := []
  copy : List (Name × Nat) := []
  cleared : Bool := false
deriving DecidableEq, Repr

def Ctr.cur (c : Ctr) (n : Name) : Nat := (aget c.seq n).getD 1

/-- the value `rewind` would roll stream `n` back to -/
def Ctr.floor (c : Ctr) (n : Name) : Nat := if c.cleared then c.cur n else (aget c.copy n).getD 1

def readdL (l : List (Name × Nat)) (n : Name) : List (Name × Nat) := if ahas l n then l else aset l n 1

/-- one micro-event; the `Option Name` is the stream whose counter was just advanced by an event that
    is never replayed (monitor update, interruption record, non-empty collect) and that must be
    committed by the very next micro-event -/
def stepP (σ : Ctr × Option Name) (ev : CEv) : Option (Ctr × Option Name) :=
  let c := σ.1
  match ev, σ.2 with
  | .commit n, some m =>
    if n = m then
      match aget c.seq n with
      | some v => some ({ c with copy := aset c.copy n v }, none)
      | none => none
    else none
  | _, some _ => none
  | .commit n, none =>
    match aget c.seq n with
    | some v => some ({ c with copy := aset c.copy n v }, none)
    | none => some (c, none)
  | .newStream n, none => if ahas c.seq n then none else some ({ c with seq := aset c.seq n 1 }, none)
  | .ensure n, none =>
    if ahas c.seq n then none else some ({ c with seq := aset c.seq n 1, copy := aset c.copy n 1 }, none)
  | .emit n k r, none =>
    if aget c.seq n = some k then some ({ c with seq := aset c.seq n (k + 1) }, if r then none else some n) else none
  | .bump n k d, none =>
    if aget c.seq n = some k then some ({ c with seq := aset c.seq n (k + d) }, if d = 0 then none else some n) else none
  | .reset, none => some ({ c with copy := aupdate c.copy c.seq, cleared := false }, none)
  | .rewind descs, none =>
    -- only with a checkpoint copy that has not been cleared, and without losing any counter
    if c.cleared || !(c.seq.all fun kv => ahas c.copy kv.1 || descs.contains kv.1) then none
    else some ({ c with seq := descs.foldl readdL c.copy, copy := descs.foldl readdL c.copy }, none)
  | .clear, none => some ({ c with copy := [], cleared := true }, none)

def runP (σ : Ctr × Option Name) : List CEv → Option (Ctr × Option Name)
  | [] => some σ
  | ev :: l => match stepP σ ev with
    | some σ' => runP σ' l
    | none => none

theorem runP_append (σ : Ctr × Option Name) (l1 l2 : List CEv) :
    runP σ (l1 ++ l2) = match runP σ l1 with | some σ' => runP σ' l2 | none => none := by
  induction l1 generalizing σ with
  | nil => rfl
  | cons ev l ih =>
    simp only [List.cons_append, runP]
    cases stepP σ ev with
    | none => rfl
    | some σ' => exact ih σ'

/-! ### well-formedness of the two dictionaries -/

structure Ctr.WF (c : Ctr) : Prop where
  nds : (akeys c.seq).Nodup
  ndc : (akeys c.copy).Nodup
  sub : ∀ n, ahas c.copy n = true → ahas c.seq n = true        -- dom copy ⊆ dom seq
  pos : ∀ n v, aget c.seq n = some v → 1 ≤ v
  posc : ∀ n v, aget c.copy n = some v → 1 ≤ v
  fl : ∀ n, c.floor n ≤ c.cur n

theorem readdL_fold_get (l : List (Name × Nat)) (descs : List Name) (n : Name) :
    aget (descs.foldl readdL l) n = if ahas l n then aget l n else if n ∈ descs then some 1 else none := by
  induction descs generalizing l with
  | nil => simp [ahas]
  | cons d t ih =>
    simp only [List.foldl_cons]
    rw [ih]
    unfold readdL
    by_cases hd : ahas l d = true
    · simp only [hd, if_true]
      by_cases hn : ahas l n = true
      · simp [hn]
      · simp only [hn, Bool.false_eq_true, if_false]
        have : n ≠ d := by intro e; subst e; exact hn hd
        simp [this]
    · simp only [hd, Bool.false_eq_true, if_false]
      by_cases e : d = n
      · subst e
        have : ahas l d = false := by simpa using hd
        simp [ahas, this] at *
        simp [hd]
      · have e' : n ≠ d := fun h => e h.symm
        simp only [ahas, aget_aset_ne _ _ _ _ e, List.mem_cons, e', false_or]

theorem readdL_fold_nodup (l : List (Name × Nat)) (descs : List Name) (h : (akeys l).Nodup) :
    (akeys (descs.foldl readdL l)).Nodup := by
  induction descs generalizing l with
  | nil => exact h
  | cons d t ih =>
    simp only [List.foldl_cons]
    apply ih
    unfold readdL; split
    · exact h
    · exact nodup_akeys_aset _ _ _ h

theorem cur_def (c : Ctr) (n : Name) : c.cur n = (aget c.seq n).getD 1 := rfl

/-- a valid micro-event keeps the dictionaries well formed -/
theorem stepP_wf (σ σ' : Ctr × Option Name) (ev : CEv) (h : stepP σ ev = some σ') (hw : σ.1.WF) : σ'.1.WF := by
  obtain ⟨c, p⟩ := σ
  have commit_wf : ∀ n v, aget c.seq n = some v → Ctr.WF { c with copy := aset c.copy n v } := by
    intro n v hv
    refine ⟨hw.nds, nodup_akeys_aset _ _ _ hw.ndc, ?_, hw.pos, ?_, ?_⟩
    · intro m hm
      by_cases e : n = m
      · subst e; simp [ahas, hv]
      · simp only [ahas, aget_aset_ne _ _ _ _ e] at hm; exact hw.sub m hm
    · intro m u hu
      by_cases e : n = m
      · subst e; rw [aget_aset_same] at hu; cases hu; exact hw.pos _ _ hv
      · rw [aget_aset_ne _ _ _ _ e] at hu; exact hw.posc m u hu
    · intro m
      have := hw.fl m
      unfold Ctr.floor Ctr.cur at *
      simp only at *
      split
      · rename_i hc; simp only [hc, if_true] at this; exact this
      · rename_i hc
        simp only [hc, Bool.false_eq_true, if_false] at this
        by_cases e : n = m
        · subst e; simp [hv]
        · rw [aget_aset_ne _ _ _ _ e]; exact this
  have seq_up : ∀ n k k', aget c.seq n = some k → k ≤ k' → Ctr.WF { c with seq := aset c.seq n k' } := by
    intro n k k' hk hle
    refine ⟨nodup_akeys_aset _ _ _ hw.nds, hw.ndc, ?_, ?_, hw.posc, ?_⟩
    · intro m hm
      by_cases e : n = m
      · subst e; simp [ahas]
      · simp only [ahas, aget_aset_ne _ _ _ _ e]; exact hw.sub m hm
    · intro m u hu
      by_cases e : n = m
      · subst e; rw [aget_aset_same] at hu; cases hu; exact Nat.le_trans (hw.pos _ _ hk) hle
      · rw [aget_aset_ne _ _ _ _ e] at hu; exact hw.pos m u hu
    · intro m
      have := hw.fl m
      unfold Ctr.floor Ctr.cur at *
      simp only at *
      by_cases e : n = m
      · subst e
        rw [aget_aset_same]
        simp only [hk, Option.getD_some] at this
        split
        · simp
        · rename_i hc; simp only [hc, Bool.false_eq_true, if_false] at this; simp; omega
      · rw [aget_aset_ne _ _ _ _ e]; exact this
  have new_wf : ∀ n, ahas c.seq n = false → Ctr.WF { c with seq := aset c.seq n 1 } ∧
      Ctr.WF { c with seq := aset c.seq n 1, copy := aset c.copy n 1 } := by
    intro n hn
    have hnc : aget c.copy n = none := by
      cases hh : aget c.copy n with
      | none => rfl
      | some v =>
        have := hw.sub n (by simp [ahas, hh])
        rw [hn] at this; cases this
    have hns : aget c.seq n = none := (ahas_false_iff _ _).1 hn
    constructor
    · refine ⟨nodup_akeys_aset _ _ _ hw.nds, hw.ndc, ?_, ?_, hw.posc, ?_⟩
      · intro m hm
        by_cases e : n = m
        · subst e; simp [ahas]
        · simp only [ahas, aget_aset_ne _ _ _ _ e]; exact hw.sub m hm
      · intro m u hu
        by_cases e : n = m
        · subst e; rw [aget_aset_same] at hu; cases hu; exact Nat.le_refl _
        · rw [aget_aset_ne _ _ _ _ e] at hu; exact hw.pos m u hu
      · intro m
        have := hw.fl m
        unfold Ctr.floor Ctr.cur at *
        simp only at *
        by_cases e : n = m
        · subst e; rw [aget_aset_same]; simp [hnc]
        · rw [aget_aset_ne _ _ _ _ e]; exact this
    · refine ⟨nodup_akeys_aset _ _ _ hw.nds, nodup_akeys_aset _ _ _ hw.ndc, ?_, ?_, ?_, ?_⟩
      · intro m hm
        by_cases e : n = m
        · subst e; simp [ahas]
        · simp only [ahas, aget_aset_ne _ _ _ _ e] at hm ⊢; exact hw.sub m hm
      · intro m u hu
        by_cases e : n = m
        · subst e; rw [aget_aset_same] at hu; cases hu; exact Nat.le_refl _
        · rw [aget_aset_ne _ _ _ _ e] at hu; exact hw.pos m u hu
      · intro m u hu
        by_cases e : n = m
        · subst e; rw [aget_aset_same] at hu; cases hu; exact Nat.le_refl _
        · rw [aget_aset_ne _ _ _ _ e] at hu; exact hw.posc m u hu
      · intro m
        have := hw.fl m
        unfold Ctr.floor Ctr.cur at *
        simp only at *
        by_cases e : n = m
        · subst e; rw [aget_aset_same, aget_aset_same]; simp
        · rw [aget_aset_ne _ _ _ _ e, aget_aset_ne _ _ _ _ e]; exact this
  cases ev with
  | commit n =>
    cases p with
    | some m =>
      simp only [stepP] at h
      split at h
      · split at h
        · rename_i v hv; cases h; exact commit_wf n v hv
        · cases h
      · cases h
    | none =>
      simp only [stepP] at h
      split at h
      · rename_i v hv; cases h; exact commit_wf n v hv
      · cases h; exact hw
  | newStream n =>
    cases p with
    | some m => simp [stepP] at h
    | none =>
      simp only [stepP] at h
      split at h
      · cases h
      · rename_i hn; cases h; exact (new_wf n (by simpa using hn)).1
  | ensure n =>
    cases p with
    | some m => simp [stepP] at h
    | none =>
      simp only [stepP] at h
      split at h
      · cases h
      · rename_i hn; cases h; exact (new_wf n (by simpa using hn)).2
  | emit n k r =>
    cases p with
    | some m => simp [stepP] at h
    | none =>
      simp only [stepP] at h
      split at h
      · rename_i hk; cases h; exact seq_up n k (k + 1) hk (Nat.le_succ _)
      · cases h
  | bump n k d =>
    cases p with
    | some m => simp [stepP] at h
    | none =>
      simp only [stepP] at h
      split at h
      · rename_i hk; cases h; exact seq_up n k (k + d) hk (Nat.le_add_right _ _)
      · cases h
  | reset =>
    cases p with
    | some m => simp [stepP] at h
    | none =>
      simp only [stepP] at h
      cases h
      refine ⟨hw.nds, nodup_akeys_aupdate _ _ hw.ndc, ?_, hw.pos, ?_, ?_⟩
      · intro m hm
        simp only [ahas, aget_aupdate _ _ _ hw.nds] at hm
        cases hs : aget c.seq m with
        | some v => simp [ahas, hs]
        | none => simp only [hs] at hm; exact hw.sub m hm
      · intro m u hu
        rw [aget_aupdate _ _ _ hw.nds] at hu
        cases hs : aget c.seq m with
        | some v => simp only [hs] at hu; cases hu; exact hw.pos m _ hs
        | none => simp only [hs] at hu; exact hw.posc m u hu
      · intro m
        unfold Ctr.floor Ctr.cur
        simp only [Bool.false_eq_true, if_false]
        rw [aget_aupdate _ _ _ hw.nds]
        cases hs : aget c.seq m with
        | some v => simp
        | none =>
          simp only [Option.getD_none]
          cases hc : aget c.copy m with
          | none => simp
          | some u =>
            have := hw.sub m (by simp [ahas, hc])
            simp [ahas, hs] at this
  | rewind descs =>
    cases p with
    | some m => simp [stepP] at h
    | none =>
      simp only [stepP] at h
      split at h
      · cases h
      · rename_i hc0
        have hc : ¬ c.cleared = true := by
          intro hcl; apply hc0; simp [hcl]
        cases h
        have hpos : ∀ m u, aget (descs.foldl readdL c.copy) m = some u → 1 ≤ u := by
          intro m u hu
          rw [readdL_fold_get] at hu
          split at hu
          · exact hw.posc m u hu
          · split at hu
            · cases hu; exact Nat.le_refl _
            · cases hu
        refine ⟨readdL_fold_nodup _ _ hw.ndc, readdL_fold_nodup _ _ hw.ndc, fun m hm => hm, hpos, hpos, ?_⟩
        intro m
        unfold Ctr.floor Ctr.cur
        simp only [hc, if_false]
        exact Nat.le_refl _
  | clear =>
    cases p with
    | some m => simp [stepP] at h
    | none =>
      simp only [stepP] at h
      cases h
      refine ⟨hw.nds, List.nodup_nil, ?_, hw.pos, ?_, ?_⟩
      · intro m hm; simp [ahas] at hm
      · intro m u hu; simp at hu
      · intro m; unfold Ctr.floor; simp

theorem runP_wf (σ σ' : Ctr × Option Name) (l : List CEv) (h : runP σ l = some σ') (hw : σ.1.WF) : σ'.1.WF := by
  induction l generalizing σ with
  | nil => simp only [runP] at h; cases h; exact hw
  | cons ev t ih =>
    simp only [runP] at h
    cases hs : stepP σ ev with
    | none => rw [hs] at h; cases h
    | some σ1 => rw [hs] at h; exact ih σ1 h (stepP_wf σ σ1 ev hs hw)

theorem Ctr.wf_empty : ({} : Ctr).WF :=
  ⟨List.nodup_nil, List.nodup_nil, fun n h => by simp [ahas] at h, fun n v h => by simp at h,
   fun n v h => by simp at h, fun n => by simp [Ctr.floor, Ctr.cur]⟩

end BlueskyVerif.Bundler
