/-
C40 helper lemmas, engine level: which bundler operations the callers of `record_interruption`
(pause request, RE.resume, _start_suspender) perform, and in which order.
-/
import BlueskyVerif.Lemmas.C40

namespace BlueskyVerif.Engine

@[simp] theorem bundlers_logCall (s : EState) (c : Call) : (s.logCall c).bundlers = s.bundlers := rfl
@[simp] theorem bundlers_setDev (s : EState) (n : String) (d : DevState) : (setDev s n d).bundlers = s.bundlers := rfl
@[simp] theorem bundlers_nextMode (s : EState) (n op : String) : (nextMode s n op).2.bundlers = s.bundlers := rfl
@[simp] theorem bundlers_emit (s : EState) (d : Doc) : (s.emit d).bundlers = s.bundlers := rfl
@[simp] theorem msgCache_logCall (s : EState) (c : Call) : (s.logCall c).msgCache = s.msgCache := rfl
@[simp] theorem msgCache_nextMode (s : EState) (n op : String) : (nextMode s n op).2.msgCache = s.msgCache := rfl

theorem bundlers_foldl {α} (f : EState → α → EState) (h : ∀ s a, (f s a).bundlers = s.bundlers) (l : List α) (s : EState) :
    (l.foldl f s).bundlers = s.bundlers := by
  induction l generalizing s with
  | nil => rfl
  | cons a l ih => rw [List.foldl_cons, ih, h]

@[simp] theorem bundlers_stopMovables (s : EState) : (stopMovables s).bundlers = s.bundlers := by
  unfold stopMovables; apply bundlers_foldl; intro s x; rfl

@[simp] theorem bundlers_resumeHooks (s : EState) : (resumeHooks s).bundlers = s.bundlers := by
  unfold resumeHooks
  apply bundlers_foldl
  intro s n
  split
  · split <;> rfl
  · rfl

/-- all bundlers taken through the same bundler-level function -/
def mapB (h : Bundler → Bundler) (l : List (String × Bundler)) : List (String × Bundler) := l.map (fun kb => (kb.1, h kb.2))

theorem mapB_mapB (f g : Bundler → Bundler) (l : List (String × Bundler)) : mapB g (mapB f l) = mapB (g ∘ f) l := by
  simp [mapB]

theorem mapB_id (l : List (String × Bundler)) : mapB id l = l := by simp [mapB]

theorem resetCheckpointMeth_bundlers (s : EState) :
    (resetCheckpointMeth s).bundlers = if s.msgCache.isSome then mapB Bundler.resetCheckpoint s.bundlers else s.bundlers := by
  unfold resetCheckpointMeth; split
  · rename_i h; simp [h]
  · rename_i c h; simp only [h, Option.isSome_some, if_true]
    exact forBundlers_pure_bundlers _ _

/-- `reset_checkpoint_state` applied `j` times -/
def resetN : Nat → Bundler → Bundler
  | 0, b => b
  | j + 1, b => resetN j b.resetCheckpoint

theorem resetN_add (j k : Nat) (b : Bundler) : resetN (j + k) b = resetN j (resetN k b) := by
  induction k generalizing b with
  | zero => rfl
  | succ k ih => rw [← Nat.add_assoc]; exact ih b.resetCheckpoint

theorem mapB_resetN_zero (l : List (String × Bundler)) : mapB (resetN 0) l = l := by
  simp [mapB, resetN]

/-- one iteration of the `obj.pause()` loop -/
def pauseStep (s : EState) (n : String) : EState :=
  match specOf s n with
  | some sp => if sp.pausable then
      let (mode, s) := nextMode s n "pause"
      let s := s.logCall { dev := n, op := "pause" }
      if mode == "noreplay" then resetCheckpointMeth s else s
    else s
  | none => s

theorem pauseHooks_eq (s : EState) : pauseHooks s = s.objsSeen.foldl pauseStep s := rfl

theorem pauseStep_bundlers (s : EState) (n : String) : ∃ j : Nat, (pauseStep s n).bundlers = mapB (resetN j) s.bundlers := by
  unfold pauseStep
  split
  · split
    · simp only []
      split
      · rw [resetCheckpointMeth_bundlers]
        split
        · exact ⟨1, rfl⟩
        · exact ⟨0, (mapB_resetN_zero _).symm⟩
      · exact ⟨0, (mapB_resetN_zero _).symm⟩
    · exact ⟨0, (mapB_resetN_zero _).symm⟩
  · exact ⟨0, (mapB_resetN_zero _).symm⟩

theorem foldl_pauseStep_bundlers (l : List String) (s : EState) :
    ∃ j : Nat, (l.foldl pauseStep s).bundlers = mapB (resetN j) s.bundlers := by
  induction l generalizing s with
  | nil => exact ⟨0, (mapB_resetN_zero _).symm⟩
  | cons n l ih =>
    obtain ⟨j1, h1⟩ := pauseStep_bundlers s n
    obtain ⟨j2, h2⟩ := ih (pauseStep s n)
    refine ⟨j2 + j1, ?_⟩
    rw [List.foldl_cons, h2, h1, mapB_mapB]
    congr 1; funext b; exact (resetN_add j2 j1 b).symm

/-- the pause hooks reset the checkpoint some number of times (once per NoReplayAllowed) -/
theorem pauseHooks_bundlers (s : EState) : ∃ j : Nat, (pauseHooks s).bundlers = mapB (resetN j) s.bundlers := by
  rw [pauseHooks_eq]; exact foldl_pauseStep_bundlers _ _

theorem rewindPlan_bundlers (s : EState) :
    (rewindPlan s).2.bundlers = if (s.msgCache.getD []).isEmpty then s.bundlers else mapB Bundler.rewind s.bundlers := by
  unfold rewindPlan
  simp only []
  split
  · rfl
  · exact forBundlers_pure_bundlers _ _

theorem IInv.resetN {b : Bundler} {n : Nat} (h : IInv true b n) (j : Nat) : IInv true (resetN j b) n := by
  induction j generalizing b with
  | zero => exact h
  | succ j ih => exact ih h.resetCheckpoint

/-- `open_run` with `record_interruptions` set: start document, then the interruptions descriptor; the
    new bundler has the descriptor and its counter (set AFTER the checkpoint copy was taken) -/
theorem cmdOpenRun_on (s : EState) (m : Msg) (h : getBundler s m = none) (hr : s.recordInterruptions = true) :
    (cmdOpenRun s m).1.bundlers = s.bundlers ++ [(runKey m, { runId := s.nextRun, recordInt := true, seq := [("interruptions", 1)] })] ∧
    (cmdOpenRun s m).1.docs = s.docs ++ [{ kind := "start", run := s.nextRun, seq := s.scanId + 1 },
      { kind := "descriptor", run := s.nextRun, stream := "interruptions", keys := ["interruption"] }] := by
  simp [cmdOpenRun, h, hr, EState.emit, Bundler.resetCheckpoint, assocSet]

theorem cmdOpenRun_off (s : EState) (m : Msg) (h : getBundler s m = none) (hr : s.recordInterruptions = false) :
    (cmdOpenRun s m).1.bundlers = s.bundlers ++ [(runKey m, { runId := s.nextRun })] ∧
    (cmdOpenRun s m).1.docs = s.docs ++ [{ kind := "start", run := s.nextRun, seq := s.scanId + 1 }] := by
  simp [cmdOpenRun, h, hr, EState.emit, Bundler.resetCheckpoint]

theorem msgCache_forBundlers_record (s : EState) (c : String) :
    (forBundlers s (fun s b => recordInterruption s b c)).msgCache = s.msgCache := by
  have : ∀ (todo done : List (String × Bundler)) (t : EState),
      (forBundlers.go (fun s b => recordInterruption s b c) t todo done).msgCache = t.msgCache := by
    intro todo
    induction todo with
    | nil => intro done t; rfl
    | cons kb rest ih =>
      intro done t
      unfold forBundlers.go
      simp only []
      rw [ih]
      unfold recordInterruption; split <;> rfl
  exact this _ _ _

/-- `RE.resume()`: every bundler records, then (if anything is cached) rewinds -/
theorem startResume_bundlers (s : EState) :
    (startResume s).bundlers =
      mapB (fun b => if (s.msgCache.getD []).isEmpty then intBundler b else (intBundler b).rewind) s.bundlers := by
  unfold startResume
  simp only []
  show (resumeHooks _).bundlers = _
  rw [bundlers_resumeHooks]
  show (rewindPlan _).2.bundlers = _
  rw [rewindPlan_bundlers, forBundlers_record_bundlers, msgCache_forBundlers_record]
  split
  · simp [mapB, *]
  · simp [mapB, *]

theorem startResume_docs (s : EState) :
    (startResume s).docs = s.docs ++ s.bundlers.flatMap (fun kb => intDocs "resume" kb.2) := by
  unfold startResume
  simp only []
  show (resumeHooks _).docs = _
  rw [docs_resumeHooks]
  show (rewindPlan _).2.docs = _
  rw [docs_rewindPlan, forBundlers_record_docs]

/-- `_start_suspender`: every bundler records, the pause hooks may reset the checkpoint, then the
    bundlers are rewound (if anything is cached) -/
theorem cmdStartSuspender_bundlers (s : EState) (m : Msg) (rq : SuspReq)
    (h : s.suspReqs[(m.iargs.headD 0).toNat]? = some rq) :
    ∃ (j : Nat) (rw : Bool), (cmdStartSuspender s m).1.bundlers =
      mapB (fun b => if rw then (resetN j (intBundler b)).rewind else resetN j (intBundler b)) s.bundlers := by
  unfold cmdStartSuspender
  rw [h]
  simp only []
  obtain ⟨j, hj⟩ := pauseHooks_bundlers (stopMovables (forBundlers s (fun s b => recordInterruption s b (rq.just.getD "suspended"))))
  rw [bundlers_stopMovables, forBundlers_record_bundlers] at hj
  change _ = mapB (resetN j) (mapB intBundler s.bundlers) at hj
  rw [mapB_mapB] at hj
  rw [rewindPlan_bundlers, hj]
  split
  · exact ⟨j, false, by simp [mapB]⟩
  · exact ⟨j, true, by simp [mapB]⟩

theorem cmdStartSuspender_docs (s : EState) (m : Msg) (rq : SuspReq)
    (h : s.suspReqs[(m.iargs.headD 0).toNat]? = some rq) :
    (cmdStartSuspender s m).1.docs = s.docs ++ s.bundlers.flatMap (fun kb => intDocs (rq.just.getD "suspended") kb.2) := by
  unfold cmdStartSuspender
  rw [h]
  simp only []
  rw [docs_rewindPlan, docs_pauseHooks, docs_stopMovables, forBundlers_record_docs]

end BlueskyVerif.Engine
