/-
C03 -- Part 2 of the tie: the engine model's command handlers, run over a message list, SIMULATE the small
replay model.  `stepCmd` = `_run`'s bookkeeping for a message (`noteMsg`: msg_hook, objs_seen, message cache)
followed by its command handler; statuses complete immediately, so what a command awaits has no effect on
the recorded data.  The simulation relation `Sim` ties positions, the bundler's counters / snapshot / open
bundle and the emitted event documents to the small model's state and events.
-/
import BlueskyVerif.Lemmas.C03Engine

namespace BlueskyVerif.Engine.C03
open BlueskyVerif.Engine BlueskyVerif.Replay

/-- handler-level execution of one message -/
def stepCmd (s : EState) (m : Msg) : EState := (runCommand (noteMsg s m) m).1

def runCmds : EState → List Msg → EState
  | s, [] => s
  | s, m :: ms => runCmds (stepCmd s m) ms

theorem runCmds_append (s : EState) (A B : List Msg) : runCmds s (A ++ B) = runCmds (runCmds s A) B := by
  induction A generalizing s with
  | nil => rfl
  | cons m A ih => simp [runCmds, ih]

/-- the open bundle: stream and objects read so far -/
abbrev Cur := Option (String × List String)

/-- message-level abstraction: one engine message ↦ small-model messages (a bundle is emitted at `save`) -/
def absStep (cur : Cur) (m : Msg) : Cur × List RMsg :=
  if m.cmd = "set" then (cur, [.set (m.obj.getD "") (m.iargs.headD 0)])
  else if m.cmd = "create" then (some (m.name.getD "", []), [])
  else if m.cmd = "read" then
    match cur with
    | some (st, ds) => (some (st, ds ++ [m.obj.getD ""]), [])
    | none => (none, [])
  else if m.cmd = "save" then
    match cur with
    | some (st, ds) => (none, [.bundle st ds])
    | none => (none, [])
  else (cur, [])

def absMsgs : Cur → List Msg → Cur × List RMsg
  | cur, [] => (cur, [])
  | cur, m :: ms =>
    let r1 := absStep cur m
    let r2 := absMsgs r1.1 ms
    (r2.1, r1.2 ++ r2.2)

theorem absMsgs_append (cur : Cur) (A B : List Msg) :
    absMsgs cur (A ++ B) = ((absMsgs (absMsgs cur A).1 B).1, (absMsgs cur A).2 ++ (absMsgs (absMsgs cur A).1 B).2) := by
  induction A generalizing cur with
  | nil => simp [absMsgs]
  | cons m A ih => simp [absMsgs, ih, List.append_assoc]

/-- the data-neutral commands of a checkpointed point -/
def neutralCmds : List String := ["wait", "trigger", "sleep", "null"]

/-- well-formedness of one message of the segment (run key `rk`, stream table `T`: the objects of each
    stream; `specs`: the devices) given the open bundle -/
def MsgOK (specs : List DevSpec) (rk : String) (T : String → List String) (cur : Cur) (m : Msg) : Prop :=
  (m.cmd = "set" ∧ cur = none) ∨
  (m.cmd = "create" ∧ cur = none ∧ runKey m = rk ∧ m.name.isSome = true) ∨
  (m.cmd = "read" ∧ runKey m = rk ∧ ∃ st ds, cur = some (st, ds) ∧ (ds.contains (m.obj.getD "") = false) ∧
      ∀ sp, specs.find? (fun x => Decidable.decide (x.name = m.obj.getD "")) = some sp → (sp.kind == "sig") = false) ∨
  (m.cmd = "save" ∧ runKey m = rk ∧ ∃ st ds, cur = some (st, ds) ∧ ds = T st ∧ ds ≠ []) ∨
  (m.cmd ∈ neutralCmds)

def WF (specs : List DevSpec) (rk : String) (T : String → List String) : Cur → List Msg → Prop
  | _, [] => True
  | cur, m :: ms => MsgOK specs rk T cur m ∧ WF specs rk T (absStep cur m).1 ms

theorem WF_prefix {specs rk T} (cur : Cur) (A B : List Msg) (h : WF specs rk T cur (A ++ B)) : WF specs rk T cur A := by
  induction A generalizing cur with
  | nil => trivial
  | cons m A ih => exact ⟨h.1, ih _ h.2⟩

theorem WF_suffix {specs rk T} (cur : Cur) (A B : List Msg) (h : WF specs rk T cur (A ++ B)) :
    WF specs rk T (absMsgs cur A).1 B := by
  induction A generalizing cur with
  | nil => exact h
  | cons m A ih => exact ih _ h.2

/-- event documents as the small model's events -/
def eventsOf : List Doc → List REvent
  | [] => []
  | d :: ds => if d.kind = "event" then { stream := d.stream, seq := d.seq, data := d.data } :: eventsOf ds else eventsOf ds

theorem eventsOf_append (a b : List Doc) : eventsOf (a ++ b) = eventsOf a ++ eventsOf b := by
  induction a with
  | nil => rfl
  | cons d a ih => simp only [List.cons_append, eventsOf]; split <;> simp [ih]

/-- the bundler part of the simulation relation -/
structure BSim (D : Devices) (T : String → List String) (b : Bundler) (cur : Cur) (a : RState) (seqC : Seq) : Prop where
  counter : ∀ st, b.counter st = a.seq st
  copy : ∀ st, copyOf b st = seqC st
  fresh : ∀ st, assocGet st b.seq = none → seqC st = 1
  descs : ∀ st objs, assocGet st b.descriptors = some objs → objs = T st
  open_ : match cur with
    | none => b.bundling = false
    | some (st, ds) => b.bundling = true ∧ b.bundleName = st ∧ b.objsRead = ds ∧ b.readCache = readings D a.pos ds

/-- THE SIMULATION RELATION between an engine state and a small-model state -/
structure Sim (specs : List DevSpec) (rk : String) (T : String → List String) (s : EState) (cur : Cur) (a : RState)
    (seqC : Seq) : Prop where
  specs_eq : s.devSpecs = specs
  noModes : NoModes s
  pos : posOf s = a.pos
  bundler : ∃ b, assocGet rk s.bundlers = some b ∧ BSim (engDevices specs) T b cur a seqC

/-! ## dispatch -/

theorem runCommand_set (s : EState) (m : Msg) (h : m.cmd = "set") : runCommand s m = cmdSet s m := by
  unfold runCommand; simp [h]
theorem runCommand_create (s : EState) (m : Msg) (h : m.cmd = "create") : runCommand s m = cmdCreate s m := by
  unfold runCommand; simp [h]
theorem runCommand_read (s : EState) (m : Msg) (h : m.cmd = "read") : runCommand s m = cmdRead s m := by
  unfold runCommand; simp [h]
theorem runCommand_save (s : EState) (m : Msg) (h : m.cmd = "save") : runCommand s m = cmdSave s m := by
  unfold runCommand; simp [h]
theorem runCommand_wait (s : EState) (m : Msg) (h : m.cmd = "wait") : runCommand s m = cmdWait s m := by
  unfold runCommand; simp [h]
theorem runCommand_trigger (s : EState) (m : Msg) (h : m.cmd = "trigger") : runCommand s m = cmdTrigger s m := by
  unfold runCommand; simp [h]
theorem runCommand_sleep (s : EState) (m : Msg) (h : m.cmd = "sleep") : runCommand s m = (s, .suspend .inSleep) := by
  unfold runCommand; simp [h]
theorem runCommand_null (s : EState) (m : Msg) (h : m.cmd = "null") : runCommand s m = (s, .value .none) := by
  unfold runCommand; simp [h]

/-! ## the data view: what the simulation looks at besides positions -/

structure DView where
  devSpecs : List DevSpec
  bundlers : List (String × Bundler)
  docs : List Doc
  msgCache : Option (List Msg)
  rewindable : Bool

def dview (s : EState) : DView :=
  { devSpecs := s.devSpecs, bundlers := s.bundlers, docs := s.docs, msgCache := s.msgCache, rewindable := s.rewindable }

@[simp] theorem dview_logCall (s : EState) (c : Call) : dview (s.logCall c) = dview s := rfl
@[simp] theorem dview_setDev (s : EState) (n : String) (d : DevState) : dview (setDev s n d) = dview s := rfl
@[simp] theorem dview_nextMode (s : EState) (n op : String) : dview (nextMode s n op).2 = dview s := rfl
@[simp] theorem dview_newStatus (s : EState) (d o mo : String) (g : Option String) : dview (newStatus s d o mo g).2 = dview s := rfl

theorem noModes_of_specs {s s' : EState} (h : s'.devSpecs = s.devSpecs) (hn : NoModes s) : NoModes s' := by
  unfold NoModes at *; rw [h]; exact hn

theorem posOf_setDev_pos (s : EState) (n : String) (v : Int) :
    posOf (setDev s n { (devOf s n) with pos := v }) = setPos (posOf s) n v := by
  funext x
  unfold posOf setPos
  rw [devOf_setDev]
  by_cases h : x = n <;> simp [h]

/-- `set`: the position of the object becomes the value, nothing else the data depends on changes -/
theorem done_ne_raise : ("done" == "raise") = false := by decide

theorem cmdSet_spec (s : EState) (m : Msg) (hn : NoModes s) :
    dview (cmdSet s m).1 = dview s ∧ posOf (cmdSet s m).1 = setPos (posOf s) (m.obj.getD "") (m.iargs.headD 0) := by
  unfold cmdSet
  simp only []
  generalize hs1 : (if s.moved.contains (m.obj.getD "") = true then s else { s with moved := s.moved ++ [m.obj.getD ""] }) = s1
  have h1 : dview s1 = dview s ∧ posOf s1 = posOf s := by
    subst hs1; split <;> exact ⟨rfl, rfl⟩
  have hn1 : NoModes s1 := noModes_of_specs (congrArg DView.devSpecs h1.1) hn
  rw [nextMode_done s1 hn1]
  simp only [done_ne_raise, Bool.false_eq_true, if_false]
  refine ⟨h1.1, ?_⟩
  simp only [posOf_newStatus, posOf_logCall]
  rw [posOf_setDev_pos, posOf_nextMode, h1.2]

theorem cmdTrigger_spec (s : EState) (m : Msg) (hn : NoModes s) :
    dview (cmdTrigger s m).1 = dview s ∧ posOf (cmdTrigger s m).1 = posOf s := by
  unfold cmdTrigger
  simp only []
  rw [nextMode_done s hn]
  simp only [done_ne_raise, Bool.false_eq_true, if_false]
  refine ⟨rfl, ?_⟩
  simp only [posOf_newStatus, posOf_logCall, posOf_nextMode]

theorem cmdWait_spec (s : EState) (m : Msg) :
    dview (cmdWait s m).1 = dview s ∧ posOf (cmdWait s m).1 = posOf s := by
  unfold cmdWait
  simp only []
  split <;> exact ⟨rfl, rfl⟩

/-- the four data-neutral commands -/
theorem neutral_spec (s : EState) (m : Msg) (hn : NoModes s) (h : m.cmd ∈ neutralCmds) :
    dview (runCommand s m).1 = dview s ∧ posOf (runCommand s m).1 = posOf s := by
  simp only [neutralCmds, List.mem_cons, List.mem_nil_iff, or_false] at h
  rcases h with h | h | h | h
  · rw [runCommand_wait s m h]; exact cmdWait_spec s m
  · rw [runCommand_trigger s m h]; exact cmdTrigger_spec s m hn
  · rw [runCommand_sleep s m h]; exact ⟨rfl, rfl⟩
  · rw [runCommand_null s m h]; exact ⟨rfl, rfl⟩

/-! ## create / read / save -/

theorem cmdCreate_spec (s : EState) (m : Msg) (b : Bundler) (nm : String) (hb : getBundler s m = some b)
    (hnb : b.bundling = false) (hnm : m.name = some nm) :
    (cmdCreate s m).1 = putBundler s m { b with bundling := true, bundleName := nm, objsRead := [], readCache := [] } := by
  unfold cmdCreate
  simp [hb, hnb, hnm]

theorem readingOf_congr (s t : EState) (n : String) (hd : t.devSpecs = s.devSpecs) (hp : posOf t = posOf s)
    (hk : ∀ sp, s.devSpecs.find? (fun x => Decidable.decide (x.name = n)) = some sp → (sp.kind == "sig") = false) :
    readingOf t n = (engDevices s.devSpecs).reading (posOf s) n := by
  rw [readingOf_eq t n (by unfold specOf; rw [hd]; exact hk), hd, hp]

/-- `read` inside a bundle: the object and ITS READING OF THE CURRENT POSITIONS are appended to the bundle -/
theorem cmdRead_spec (s : EState) (m : Msg) (b : Bundler) (hn : NoModes s) (hb : getBundler s m = some b)
    (hbu : b.bundling = true) (hnew : b.objsRead.contains (m.obj.getD "") = false)
    (hk : ∀ sp, s.devSpecs.find? (fun x => Decidable.decide (x.name = m.obj.getD "")) = some sp → (sp.kind == "sig") = false) :
    (cmdRead s m).1.bundlers = assocSet (runKey m)
        { b with objsRead := b.objsRead ++ [m.obj.getD ""],
                 readCache := b.readCache ++ [(m.obj.getD "", (engDevices s.devSpecs).reading (posOf s) (m.obj.getD ""))] } s.bundlers ∧
    (cmdRead s m).1.docs = s.docs ∧ (cmdRead s m).1.devSpecs = s.devSpecs ∧ (cmdRead s m).1.msgCache = s.msgCache ∧
    (cmdRead s m).1.rewindable = s.rewindable ∧ posOf (cmdRead s m).1 = posOf s := by
  unfold cmdRead
  simp only []
  generalize hs1 : (if (specOf s (m.obj.getD "")).map (·.kind) == some "det" then nextMode s (m.obj.getD "") "read" else ("done", s)) = r1
  have h1 : r1.1 = "done" ∧ dview r1.2 = dview s ∧ posOf r1.2 = posOf s := by
    subst hs1
    split
    · exact ⟨nextMode_done s hn _ _, rfl, posOf_nextMode _ _ _⟩
    · exact ⟨rfl, rfl, rfl⟩
  obtain ⟨r1m, s1⟩ := r1
  simp only [] at h1 ⊢
  obtain ⟨hm, hdv, hps⟩ := h1
  subst hm
  simp only [done_ne_raise, Bool.false_eq_true, if_false]
  have hds : s1.devSpecs = s.devSpecs := congrArg DView.devSpecs hdv
  have hbs : s1.bundlers = s.bundlers := congrArg DView.bundlers hdv
  have hv : readingOf s1 (m.obj.getD "") = (engDevices s.devSpecs).reading (posOf s) (m.obj.getD "") :=
    readingOf_congr s s1 _ hds hps hk
  generalize hs2 : (if (specOf s1 (m.obj.getD "")).map (·.kind) == some "det" then
      s1.logCall { dev := m.obj.getD "", op := "read", arg := some (readingOf s1 (m.obj.getD "")) } else s1) = s2
  have h2 : dview s2 = dview s ∧ posOf s2 = posOf s := by
    subst hs2
    split
    · exact ⟨hdv, hps⟩
    · exact ⟨hdv, hps⟩
  have hb2 : getBundler s2 m = some b := by
    unfold getBundler at hb ⊢
    rw [show s2.bundlers = s.bundlers from congrArg DView.bundlers h2.1]; exact hb
  rw [hb2]
  simp only [hbu, if_true, hnew, Bool.false_eq_true, if_false]
  rw [hv]
  refine ⟨?_, congrArg DView.docs h2.1, congrArg DView.devSpecs h2.1, congrArg DView.msgCache h2.1,
    congrArg DView.rewindable h2.1, h2.2⟩
  unfold putBundler
  simp only []
  rw [show s2.bundlers = s.bundlers from congrArg DView.bundlers h2.1]

theorem sameSet_refl (l : List String) : sameSet l l = true := by
  unfold sameSet
  simp

/-- the bundler after `save` (bundle stream `b.bundleName`, objects `b.objsRead`) -/
def savedBundler (b : Bundler) : Bundler :=
  let st := b.bundleName
  let b1 : Bundler := { b with bundling := false, bundleName := "" }
  let b2 : Bundler := match assocGet st b1.descriptors with
    | none =>
      let b' : Bundler := { b1 with descriptors := assocSet st b1.objsRead b1.descriptors }
      if (assocGet st b'.seq).isNone then { b' with seq := assocSet st 1 b'.seq, seqCopy := assocSet st 1 b'.seqCopy } else b'
    | some _ => b1
  { b2 with seq := assocSet st (b2.counter st + 1) b2.seq }

/-- `save` of a non-empty bundle whose stream has no descriptor yet or one for the same objects: ONE event
    with seq_num = the stream's counter and data = the readings cached by the reads; the counter advances -/
theorem cmdSave_spec (s : EState) (m : Msg) (b : Bundler) (hb : getBundler s m = some b) (hbu : b.bundling = true)
    (hne : b.objsRead ≠ []) (hd : ∀ objs, assocGet b.bundleName b.descriptors = some objs → objs = b.objsRead) :
    (cmdSave s m).1.bundlers = assocSet (runKey m) (savedBundler b) s.bundlers ∧
    eventsOf (cmdSave s m).1.docs = eventsOf s.docs ++ [{ stream := b.bundleName, seq := b.counter b.bundleName, data := b.readCache }] ∧
    (cmdSave s m).1.devSpecs = s.devSpecs ∧ (cmdSave s m).1.msgCache = s.msgCache ∧
    (cmdSave s m).1.rewindable = s.rewindable ∧ posOf (cmdSave s m).1 = posOf s := by
  unfold cmdSave
  simp only [hb, hbu]
  have hne' : b.objsRead.isEmpty = false := by
    cases h : b.objsRead with
    | nil => exact absurd h hne
    | cons a l => rfl
  simp only [Bool.not_true, Bool.false_eq_true, if_false, hne']
  cases hdesc : assocGet b.bundleName b.descriptors with
  | some objs =>
    have ho := hd objs hdesc
    subst ho
    simp only [sameSet_refl, Bool.not_true, Bool.false_eq_true, if_false]
    unfold emitEvent putBundler savedBundler EState.emit
    simp only [hdesc, eventsOf_append]
    and_intros
    all_goals first | trivial | rfl | simp [eventsOf, Bundler.counter]
  | none =>
    simp only []
    unfold prepareStream emitEvent putBundler savedBundler EState.emit
    simp only [hdesc, eventsOf_append]
    by_cases hs : (assocGet b.bundleName b.seq).isNone = true
    · simp only [hs, if_true]
      have : assocGet b.bundleName b.seq = none := by simpa using hs
      and_intros
      all_goals first | trivial | rfl | simp [eventsOf, Bundler.counter, assocGet_assocSet, this]
    · simp only [hs]
      and_intros
      all_goals first | trivial | rfl | simp [eventsOf, Bundler.counter]

/-! ## the bundler after `save` keeps the simulation relation -/

theorem savedBundler_counter (b : Bundler) (st' : String) :
    (savedBundler b).counter st' = if st' = b.bundleName then b.counter b.bundleName + 1 else b.counter st' := by
  unfold savedBundler Bundler.counter
  simp only []
  cases hdesc : assocGet b.bundleName b.descriptors with
  | some objs =>
    simp only [assocGet_assocSet]
    by_cases h : st' = b.bundleName <;> simp [h]
  | none =>
    simp only []
    by_cases hs : (assocGet b.bundleName b.seq).isNone = true
    · have hn : assocGet b.bundleName b.seq = none := by simpa using hs
      simp only [hs, if_true, assocGet_assocSet]
      by_cases h : st' = b.bundleName
      · simp [h, hn]
      · simp [h]
    · simp only [hs, assocGet_assocSet]
      by_cases h : st' = b.bundleName <;> simp [h]

theorem savedBundler_copy (b : Bundler) (st' : String) (h1 : assocGet b.bundleName b.seq = none → copyOf b b.bundleName = 1) :
    copyOf (savedBundler b) st' = copyOf b st' := by
  unfold savedBundler copyOf
  simp only []
  cases hdesc : assocGet b.bundleName b.descriptors with
  | some objs => rfl
  | none =>
    simp only []
    by_cases hs : (assocGet b.bundleName b.seq).isNone = true
    · have hn : assocGet b.bundleName b.seq = none := by simpa using hs
      simp only [hs, if_true, assocGet_assocSet]
      by_cases h : st' = b.bundleName
      · have := h1 hn
        unfold copyOf at this
        simp [h, this]
      · simp [h]
    · simp only [hs]
      rfl

theorem savedBundler_seq_none (b : Bundler) (st' : String) (h : assocGet st' (savedBundler b).seq = none) :
    assocGet st' b.seq = none ∧ st' ≠ b.bundleName := by
  unfold savedBundler at h
  simp only [] at h
  have hne : st' ≠ b.bundleName := by
    intro e
    subst e
    rw [assocGet_assocSet] at h
    simp at h
  refine ⟨?_, hne⟩
  rw [assocGet_assocSet] at h
  simp only [hne, if_false] at h
  cases hdesc : assocGet b.bundleName b.descriptors with
  | some objs => simpa [hdesc] using h
  | none =>
    simp only [hdesc] at h
    by_cases hs : (assocGet b.bundleName b.seq).isNone = true
    · simp only [hs, if_true, assocGet_assocSet, hne, if_false] at h
      exact h
    · simp only [hs] at h
      exact h

theorem savedBundler_descs (b : Bundler) (st' : String) (objs : List String)
    (h : assocGet st' (savedBundler b).descriptors = some objs) :
    assocGet st' b.descriptors = some objs ∨ (st' = b.bundleName ∧ objs = b.objsRead) := by
  unfold savedBundler at h
  simp only [] at h
  cases hdesc : assocGet b.bundleName b.descriptors with
  | some o => left; simpa [hdesc] using h
  | none =>
    simp only [hdesc] at h
    have h' : assocGet st' (assocSet b.bundleName b.objsRead b.descriptors) = some objs := by
      by_cases hs : (assocGet b.bundleName b.seq).isNone = true
      · simpa [hs] using h
      · simpa [hs] using h
    rw [assocGet_assocSet] at h'
    by_cases e : st' = b.bundleName
    · right; simp only [e, if_true, Option.some.injEq] at h'; exact ⟨e, h'.symm⟩
    · left; simpa [e] using h'

theorem savedBundler_bundling (b : Bundler) : (savedBundler b).bundling = false := by
  unfold savedBundler
  simp only []
  cases assocGet b.bundleName b.descriptors with
  | some o => rfl
  | none => simp only []; split <;> rfl

theorem readings_append (D : Devices) (p : Pos) (ds : List Dev) (n : Dev) :
    readings D p (ds ++ [n]) = readings D p ds ++ [(n, D.reading p n)] := by
  unfold readings; simp

/-! ## one message: the simulation step -/

theorem Sim.transfer {specs rk T s s' cur a seqC} (h : Sim specs rk T s cur a seqC)
    (hd : s'.devSpecs = s.devSpecs) (hp : posOf s' = posOf s) (hb : s'.bundlers = s.bundlers) :
    Sim specs rk T s' cur a seqC :=
  { specs_eq := hd.trans h.specs_eq, noModes := noModes_of_specs hd h.noModes, pos := hp.trans h.pos,
    bundler := by rw [hb]; exact h.bundler }

theorem cacheable_cmds (c : String) (h : c = "set" ∨ c = "create" ∨ c = "read" ∨ c = "save" ∨ c ∈ neutralCmds) :
    Src.uncacheable.contains c = false := by
  simp only [neutralCmds, List.mem_cons, List.mem_nil_iff, or_false] at h
  rcases h with h | h | h | h | h | h | h | h <;> subst h <;> decide

theorem sim_step {specs : List DevSpec} {rk : String} {T : String → List String} {s : EState} {cur : Cur} {a : RState}
    {seqC : Seq} (h : Sim specs rk T s cur a seqC) (m : Msg) (hok : MsgOK specs rk T cur m) :
    Sim specs rk T (stepCmd s m) (absStep cur m).1 (exec (engDevices specs) a (absStep cur m).2).1 seqC ∧
    eventsOf (stepCmd s m).docs = eventsOf s.docs ++ (exec (engDevices specs) a (absStep cur m).2).2 ∧
    (stepCmd s m).rewindable = s.rewindable ∧
    (∀ c, s.msgCache = some c → s.rewindable = true → (stepCmd s m).msgCache = some (c ++ [m])) := by
  have hf := noteMsg_frame s m
  have h0 : Sim specs rk T (noteMsg s m) cur a seqC := h.transfer hf.1 hf.2.2.2.1 hf.2.1
  have hcache : ∀ c, s.msgCache = some c → s.rewindable = true → Src.uncacheable.contains m.cmd = false →
      (noteMsg s m).msgCache = some (c ++ [m]) := fun c hc hr hu => noteMsg_appends s m c hc hr hu
  generalize hs0 : noteMsg s m = s0 at hf h0 hcache
  have hstep : stepCmd s m = (runCommand s0 m).1 := by unfold stepCmd; rw [hs0]
  rw [hstep]
  obtain ⟨b, hb, hB⟩ := h0.bundler
  rcases hok with ⟨hc, hcur⟩ | ⟨hc, hcur, hrk, hnm⟩ | ⟨hc, hrk, st, ds, hcur, hnew, hk⟩ | ⟨hc, hrk, st, ds, hcur, hT, hne⟩ | hc
  · -- set
    have hu := cacheable_cmds m.cmd (Or.inl hc)
    have hsp := cmdSet_spec s0 m h0.noModes
    rw [runCommand_set s0 m hc]
    have habs : absStep cur m = (cur, [.set (m.obj.getD "") (m.iargs.headD 0)]) := by simp [absStep, hc]
    rw [habs]
    subst hcur
    refine ⟨?_, ?_, ?_, ?_⟩
    · refine { specs_eq := (congrArg DView.devSpecs hsp.1).trans h0.specs_eq,
               noModes := noModes_of_specs (congrArg DView.devSpecs hsp.1) h0.noModes,
               pos := ?_, bundler := ?_ }
      · rw [hsp.2, h0.pos]; rfl
      · rw [show (cmdSet s0 m).1.bundlers = s0.bundlers from congrArg DView.bundlers hsp.1]
        exact ⟨b, hb, { counter := hB.counter, copy := hB.copy, fresh := hB.fresh, descs := hB.descs, open_ := hB.open_ }⟩
    · rw [show (cmdSet s0 m).1.docs = s0.docs from congrArg DView.docs hsp.1, hf.2.2.1]
      simp [exec, step]
    · rw [show (cmdSet s0 m).1.rewindable = s0.rewindable from congrArg DView.rewindable hsp.1, hf.2.2.2.2]
    · intro c hcc hr
      rw [show (cmdSet s0 m).1.msgCache = s0.msgCache from congrArg DView.msgCache hsp.1]
      exact hcache c hcc hr hu
  · -- create
    have hu := cacheable_cmds m.cmd (Or.inr (Or.inl hc))
    obtain ⟨nm, hnm'⟩ := Option.isSome_iff_exists.mp hnm
    subst hcur
    have hgb : getBundler s0 m = some b := by unfold getBundler; rw [hrk]; exact hb
    have hsp := cmdCreate_spec s0 m b nm hgb hB.open_ hnm'
    rw [runCommand_create s0 m hc, hsp]
    have habs : absStep none m = (some (nm, []), []) := by
      have : ¬ m.cmd = "set" := by rw [hc]; decide
      simp [absStep, hc, hnm']
    rw [habs]
    refine ⟨?_, ?_, ?_, ?_⟩
    · refine { specs_eq := h0.specs_eq, noModes := h0.noModes, pos := h0.pos, bundler := ?_ }
      refine ⟨{ b with bundling := true, bundleName := nm, objsRead := [], readCache := [] }, ?_, ?_⟩
      · unfold putBundler; simp only []; rw [hrk, assocGet_assocSet]; simp
      · exact { counter := hB.counter, copy := hB.copy, fresh := hB.fresh, descs := hB.descs,
                open_ := ⟨rfl, rfl, rfl, rfl⟩ }
    · show eventsOf s0.docs = _
      rw [hf.2.2.1]; simp [exec]
    · exact hf.2.2.2.2
    · intro c hcc hr; exact hcache c hcc hr hu
  · -- read
    have hu := cacheable_cmds m.cmd (Or.inr (Or.inr (Or.inl hc)))
    subst hcur
    have hgb : getBundler s0 m = some b := by unfold getBundler; rw [hrk]; exact hb
    obtain ⟨hbu, hbn, hbo, hbc⟩ := hB.open_
    have hsp := cmdRead_spec s0 m b h0.noModes hgb hbu (by rw [hbo]; exact hnew) (by rw [h0.specs_eq]; exact hk)
    rw [runCommand_read s0 m hc]
    have habs : absStep (some (st, ds)) m = (some (st, ds ++ [m.obj.getD ""]), []) := by
      have h1 : ¬ m.cmd = "set" := by rw [hc]; decide
      have h2 : ¬ m.cmd = "create" := by rw [hc]; decide
      simp [absStep, hc]
    rw [habs]
    refine ⟨?_, ?_, ?_, ?_⟩
    · refine { specs_eq := hsp.2.2.1.trans h0.specs_eq, noModes := noModes_of_specs hsp.2.2.1 h0.noModes,
               pos := hsp.2.2.2.2.2.trans h0.pos, bundler := ?_ }
      rw [hsp.1, hrk, assocGet_assocSet]
      simp only [if_true]
      refine ⟨_, rfl, ?_⟩
      refine { counter := hB.counter, copy := hB.copy, fresh := hB.fresh, descs := hB.descs, open_ := ⟨hbu, hbn, ?_, ?_⟩ }
      · simp [hbo]
      · simp only [exec]
        rw [readings_append, hbc, h0.specs_eq, h0.pos]
    · rw [hsp.2.1, hf.2.2.1]; simp [exec]
    · rw [hsp.2.2.2.2.1, hf.2.2.2.2]
    · intro c hcc hr; rw [hsp.2.2.2.1]; exact hcache c hcc hr hu
  · -- save
    have hu := cacheable_cmds m.cmd (Or.inr (Or.inr (Or.inr (Or.inl hc))))
    subst hcur
    have hgb : getBundler s0 m = some b := by unfold getBundler; rw [hrk]; exact hb
    obtain ⟨hbu, hbn, hbo, hbc⟩ := hB.open_
    have hd : ∀ objs, assocGet b.bundleName b.descriptors = some objs → objs = b.objsRead := by
      intro objs ho; rw [hbo, hT, ← hbn]; exact hB.descs _ _ ho
    have hsp := cmdSave_spec s0 m b hgb hbu (by rw [hbo]; exact hne) hd
    rw [runCommand_save s0 m hc]
    have habs : absStep (some (st, ds)) m = (none, [.bundle st ds]) := by
      have h1 : ¬ m.cmd = "set" := by rw [hc]; decide
      have h2 : ¬ m.cmd = "create" := by rw [hc]; decide
      have h3 : ¬ m.cmd = "read" := by rw [hc]; decide
      simp [absStep, hc]
    rw [habs]
    refine ⟨?_, ?_, ?_, ?_⟩
    · refine { specs_eq := hsp.2.2.1.trans h0.specs_eq, noModes := noModes_of_specs hsp.2.2.1 h0.noModes,
               pos := ?_, bundler := ?_ }
      · rw [hsp.2.2.2.2.2, h0.pos]; simp [exec, step]
      · rw [hsp.1, hrk, assocGet_assocSet]
        simp only [if_true]
        refine ⟨_, rfl, ?_⟩
        refine { counter := ?_, copy := ?_, fresh := ?_, descs := ?_, open_ := savedBundler_bundling b }
        · intro st'
          rw [savedBundler_counter, hbn]
          simp only [exec, step, bump]
          by_cases e : st' = st
          · simp [e, hB.counter st]
          · simp [e, hB.counter st']
        · intro st'
          rw [savedBundler_copy b st' (fun hn => by rw [hB.copy]; exact hB.fresh _ hn)]
          exact hB.copy st'
        · intro st' hn
          exact hB.fresh st' (savedBundler_seq_none b st' hn).1
        · intro st' objs ho
          rcases savedBundler_descs b st' objs ho with h1 | ⟨h1, h2⟩
          · exact hB.descs st' objs h1
          · rw [h2, hbo, hT, h1, hbn]
    · rw [hsp.2.1, hf.2.2.1, hbn, hB.counter st, hbc]
      simp [exec, step]
    · rw [hsp.2.2.2.2.1, hf.2.2.2.2]
    · intro c hcc hr; rw [hsp.2.2.2.1]; exact hcache c hcc hr hu
  · -- wait / trigger / sleep / null
    have hu := cacheable_cmds m.cmd (Or.inr (Or.inr (Or.inr (Or.inr hc))))
    have hsp := neutral_spec s0 m h0.noModes hc
    have habs : absStep cur m = (cur, []) := by
      simp only [neutralCmds, List.mem_cons, List.mem_nil_iff, or_false] at hc
      rcases hc with e | e | e | e <;> simp [absStep, e]
    rw [habs]
    refine ⟨?_, ?_, ?_, ?_⟩
    · exact h0.transfer (congrArg DView.devSpecs hsp.1) hsp.2 (congrArg DView.bundlers hsp.1)
    · rw [show (runCommand s0 m).1.docs = s0.docs from congrArg DView.docs hsp.1, hf.2.2.1]; simp [exec]
    · rw [show (runCommand s0 m).1.rewindable = s0.rewindable from congrArg DView.rewindable hsp.1, hf.2.2.2.2]
    · intro c hcc hr
      rw [show (runCommand s0 m).1.msgCache = s0.msgCache from congrArg DView.msgCache hsp.1]
      exact hcache c hcc hr hu

end BlueskyVerif.Engine.C03
