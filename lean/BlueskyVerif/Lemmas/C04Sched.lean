/-
C04 helper: `CacheInv` through the environment actions, the scheduler and the API entry points.
-/
import BlueskyVerif.Lemmas.C04Run

namespace BlueskyVerif.Engine

theorem keep_refuse (s : EState) (w : String) : Keep s (refuse s w) := ⟨rfl, rfl, rfl⟩

theorem keep_termPrep (s : EState) (k r : String) : Keep s (termPrep s k r) := by
  unfold termPrep; simp only []; split <;> exact ⟨rfl, rfl, rfl⟩

theorem keep_termAfter (s : EState) (k : String) (w : Bool) : Keep s (termAfter s k w) := by
  unfold termAfter
  split
  · simp only []; split <;> exact ⟨rfl, rfl, rfl⟩
  · exact ⟨rfl, rfl, rfl⟩

theorem keep_requestTerminate (s : EState) (k r : String) : Keep s (requestTerminate s k r) := by
  unfold requestTerminate
  split
  · exact keep_refuse _ _
  · split
    · exact keep_refuse _ _
    · rename_i s' hs
      exact ((keep_termPrep s k r).trans (keep_setState hs)).trans (keep_termAfter _ _ _)

theorem keep_pushSuspender (f : Nat) (pre post : Option Gen) (j : Option String) (s : EState) :
    Keep s (pushSuspender f pre post j s) := by
  unfold pushSuspender
  simp only []
  split
  · split
    · rename_i s' hs
      exact (Keep.trans ⟨rfl, rfl, rfl⟩ (keep_setState hs)).trans ⟨rfl, rfl, rfl⟩
    · exact ⟨rfl, rfl, rfl⟩
  · exact ⟨rfl, rfl, rfl⟩

theorem keep_requestSuspend (s : EState) (f : Nat) (pre post : Option Gen) (j : Option String) :
    Keep s (requestSuspend s f pre post j) := by
  unfold requestSuspend
  split
  · simp only []
    split
    · exact ⟨rfl, rfl, rfl⟩
    · rename_i s' hs
      have h1 : Keep s s' := Keep.trans (b := { s with interrupted := true, exceptionSlot := some .failedPause }) ⟨rfl, rfl, rfl⟩ (keep_setState hs)
      split
      · exact (h1.trans ⟨rfl, rfl, rfl⟩).trans (keep_pushSuspender _ _ _ _ _)
      · exact h1.trans (keep_pushSuspender _ _ _ _ _)
  · exact keep_pushSuspender f pre post j s

theorem keep_foldl {α} (f : EState → α → EState) (h : ∀ s a, Keep s (f s a)) (l : List α) (s : EState) :
    Keep s (l.foldl f s) := by
  induction l generalizing s with
  | nil => exact Keep.refl s
  | cons a l ih => rw [List.foldl_cons]; exact (h s a).trans (ih _)

theorem keep_monitorUpdate (s : EState) (sig : String) (v : Int) : Keep s (monitorUpdate s sig v) := by
  unfold monitorUpdate
  simp only []
  refine Keep.trans (b := setDev s sig { (devOf s sig) with value := v }) ⟨rfl, rfl, rfl⟩ ?_
  apply keep_foldl
  intro s a
  split <;> exact ⟨rfl, rfl, rfl⟩

theorem keep_applyAction (s : EState) (a : Action) : Keep s (applyAction s a) := by
  cases a with
  | pause d =>
    simp only [applyAction]; split
    · rename_i s' h; exact keep_of_ck (ck_requestPause h)
    · exact keep_refuse _ _
  | suspend f pre post j => exact keep_requestSuspend s f pre post j
  | release f => simp only [applyAction]; split <;> exact ⟨rfl, rfl, rfl⟩
  | abort => exact keep_requestTerminate s _ _
  | stop => exact keep_requestTerminate s _ _
  | halt => exact keep_requestTerminate s _ _
  | status k ok =>
    simp only [applyAction]; split
    · split
      · exact Keep.refl s
      · exact Keep.trans (b := { s with statuses := _ }) ⟨rfl, rfl, rfl⟩ (keep_of_ck (ck_completeStatus _ _))
    · exact Keep.refl s
  | monitor sig v => exact keep_monitorUpdate s sig v

theorem keep_releaseAll (s : EState) : Keep s (releaseAll s).1 := by
  unfold releaseAll
  simp only []
  exact (keep_foldl _ (fun s k => keep_applyAction s _) _ s).trans (keep_foldl _ (fun s f => keep_applyAction s _) _ _)

/-- the invariant holds along every run of the scheduler: for every script, arrival bound and fuel -/
theorem schedule_ci (maxArr : Nat) (sc : Script) (fuel : Nat) (s : EState) (h : CacheInv s) :
    CacheInv (schedule maxArr sc fuel s) := by
  induction fuel generalizing s with
  | zero => exact (keep_refuse _ _).inv h
  | succ n ih =>
    unfold schedule
    split
    · exact h
    · split
      · exact h
      · exact h
      · split
        · exact ih _ (advance_ci _ _ h)
        · exact h
      · exact ih _ (advance_ci _ _ h)
      · simp only []
        apply ih; apply advance_ci
        have h0 : CacheInv (flushCompletions { s with arrivals := s.arrivals ++ [arrivalKind s.pc] }) :=
          (keep_of_ck (ck_flushCompletions _)).inv (Keep.inv ⟨rfl, rfl, rfl⟩ h)
        split
        · exact (keep_applyAction _ _).inv h0
        · exact (keep_foldl _ keep_applyAction _ _).inv h0
      · simp only []
        apply ih; apply advance_ci
        have h0 : CacheInv (flushCompletions { s with arrivals := s.arrivals ++ [arrivalKind s.pc] }) :=
          (keep_of_ck (ck_flushCompletions _)).inv (Keep.inv ⟨rfl, rfl, rfl⟩ h)
        split
        · exact (keep_applyAction _ _).inv h0
        · exact (keep_foldl _ keep_applyAction _ _).inv h0
      · simp only []
        apply ih; apply advance_ci
        have h0 : CacheInv (flushCompletions { s with arrivals := s.arrivals ++ [arrivalKind s.pc] }) :=
          (keep_of_ck (ck_flushCompletions _)).inv (Keep.inv ⟨rfl, rfl, rfl⟩ h)
        split
        · exact (keep_applyAction _ _).inv h0
        · exact (keep_foldl _ keep_applyAction _ _).inv h0
      · simp only []
        apply ih; apply advance_ci
        have h0 : CacheInv (flushCompletions { s with arrivals := s.arrivals ++ [arrivalKind s.pc] }) :=
          (keep_of_ck (ck_flushCompletions _)).inv (Keep.inv ⟨rfl, rfl, rfl⟩ h)
        split
        · exact (keep_applyAction _ _).inv h0
        · exact (keep_foldl _ keep_applyAction _ _).inv h0
      all_goals
        simp only []
        have hf : CacheInv (flushCompletions s) := (keep_of_ck (ck_flushCompletions _)).inv h
        have hadv := advance_ci 4000 _ hf
        split
        · have h1 : CacheInv { advance 4000 (flushCompletions s) with
              arrivals := (advance 4000 (flushCompletions s)).arrivals ++ ["quiesce"] } :=
            Keep.inv ⟨rfl, rfl, rfl⟩ hadv
          split
          · exact ih _ ((keep_applyAction _ _).inv h1)
          · split
            · apply ih
              split
              · exact (keep_releaseAll _).inv h1
              · exact (keep_applyAction _ _).inv ((keep_releaseAll _).inv h1)
            · exact ih _ ((keep_foldl _ keep_applyAction _ _).inv h1)
        · exact ih _ hadv

/-- `RE(plan)` starts with an empty cache, whatever was left behind -/
theorem startCall_ci (s : EState) (plan : Gen) : CacheInv (startCall s plan) :=
  cacheInv_empty _ rfl

/-- `RE.resume()`: the rewind plan -- the cache as a generator -- goes on top of the plan stack with response
    None; an empty cache remains; nothing else of the checkpoint projection moves -/
theorem ck_startResume (s : EState) :
    ck (startResume s) =
      { (ck s).fresh with
        plans := Gen.list (s.msgCache.getD []) :: s.planStack
        resps := .none :: s.respStack } := by
  unfold startResume
  simp only []
  have hr := ck_rewindPlan (forBundlers { s with interrupted := false } fun s b => recordInterruption s b "resume")
  have hf := rewindPlan_fst (forBundlers { s with interrupted := false } fun s b => recordInterruption s b "resume")
  have h0 : ck (forBundlers { s with interrupted := false } fun s b => recordInterruption s b "resume") = ck s := by
    rw [ck_forBundlers_ri]; rfl
  generalize rewindPlan (forBundlers { s with interrupted := false } fun s b => recordInterruption s b "resume") = p at hr hf
  obtain ⟨rw, s2⟩ := p
  simp only at hr hf ⊢
  rw [ck_cache h0] at hf
  subst hf
  have e : ∀ x : EState, ck { x with permit := true, blockingEvent := false } = ck x := fun _ => rfl
  rw [e, ck_resumeHooks]
  have h2 : ck s2 = (ck s).fresh := by rw [hr, h0]
  simp only [ck, Ck.fresh] at h2 ⊢
  injection h2 with c1 c2 c3 c4 c5
  simp only [c1, c2, c3, c4, c5]

theorem startResume_cache (s : EState) : (startResume s).msgCache = some [] :=
  congrArg Ck.cache (ck_startResume s)

theorem startResume_ci (s : EState) : CacheInv (startResume s) := cacheInv_empty _ (startResume_cache s)

theorem startTerminate_ci (s : EState) (kind : String) (h : CacheInv s) : CacheInv (startTerminate s kind) := by
  unfold startTerminate
  exact Keep.inv ⟨rfl, rfl, rfl⟩ ((keep_requestTerminate _ _ _).inv h)

end BlueskyVerif.Engine
