/-
Helper lemmas for C33: Python's `split(sep, maxsplit)` in terms of `cutAt` (partition at the
first separator), and the characterisation of the messages that split into three parts.
-/
import BlueskyVerif.IO.Zmq

namespace BlueskyVerif.Zmq

theorem pySplit_zero (sep : Nat) (bs : Bytes) : pySplit sep bs (some 0) = [bs] := by
  cases bs <;> simp [pySplit]

theorem pySplit_cons_sep (sep : Nat) (bs : Bytes) (m : Option Nat) (hm : m ≠ some 0) :
    pySplit sep (sep :: bs) m = [] :: pySplit sep bs (m.map (· - 1)) := by
  cases m with
  | none => simp [pySplit]
  | some k =>
    cases k with
    | zero => exact absurd rfl hm
    | succ k => simp [pySplit]

theorem pySplit_cons_ne (sep b : Nat) (bs : Bytes) (m : Option Nat) (hm : m ≠ some 0) (hb : b ≠ sep) :
    pySplit sep (b :: bs) m = consHead b (pySplit sep bs m) := by
  cases m with
  | none => simp [pySplit, hb]
  | some k =>
    cases k with
    | zero => exact absurd rfl hm
    | succ k => simp [pySplit, hb]

/-- one split step: cut at the first separator, continue on the rest with one split less -/
theorem pySplit_succ (sep : Nat) (msg : Bytes) (k : Nat) :
    pySplit sep msg (some (k + 1)) =
      match cutAt sep msg with
      | none => [msg]
      | some (a, r) => a :: pySplit sep r (some k) := by
  induction msg with
  | nil => simp [pySplit, cutAt]
  | cons b bs ih =>
    by_cases hb : b = sep
    · subst hb
      rw [pySplit_cons_sep _ _ _ (by simp)]
      simp [cutAt]
    · rw [pySplit_cons_ne _ _ _ _ (by simp) hb, ih]
      simp only [cutAt, hb, if_false]
      cases cutAt sep bs with
      | none => simp [consHead]
      | some p => obtain ⟨a, r⟩ := p; simp [consHead]

/-- with no maxsplit every separator is a cut -/
theorem pySplit_none (sep : Nat) (msg : Bytes) :
    pySplit sep msg none =
      match cutAt sep msg with
      | none => [msg]
      | some (a, r) => a :: pySplit sep r none := by
  induction msg with
  | nil => simp [pySplit, cutAt]
  | cons b bs ih =>
    by_cases hb : b = sep
    · subst hb
      rw [pySplit_cons_sep _ _ _ (by simp)]
      simp [cutAt]
    · rw [pySplit_cons_ne _ _ _ _ (by simp) hb, ih]
      simp only [cutAt, hb, if_false]
      cases cutAt sep bs with
      | none => simp [consHead]
      | some p => obtain ⟨a, r⟩ := p; simp [consHead]

theorem cutAt_append_sep (sep : Nat) (a r : Bytes) (h : sep ∉ a) :
    cutAt sep (a ++ sep :: r) = some (a, r) := by
  induction a with
  | nil => simp [cutAt]
  | cons x a ih =>
    have hx : x ≠ sep := by intro e; apply h; simp [e]
    have ha : sep ∉ a := by intro e; apply h; simp [e]
    simp [cutAt, hx, ih ha]

theorem cutAt_none_iff (sep : Nat) (a : Bytes) : cutAt sep a = none ↔ sep ∉ a := by
  induction a with
  | nil => simp [cutAt]
  | cons x a ih =>
    by_cases hx : x = sep
    · subst hx; simp [cutAt]
    · unfold cutAt
      simp only [hx, if_false]
      cases h : cutAt sep a with
      | none => simp [ih.mp h]; exact fun e => hx e.symm
      | some p =>
        obtain ⟨a', r'⟩ := p
        have : ¬ (sep ∉ a) := fun hn => by rw [ih.mpr hn] at h; cases h
        simp only [reduceCtorEq, false_iff, List.mem_cons, not_or, not_and]
        intro _; exact this

/-- what `cutAt` returns: the separator-free part before the first separator and everything after it -/
theorem cutAt_some (sep : Nat) (msg a r : Bytes) (h : cutAt sep msg = some (a, r)) :
    msg = a ++ sep :: r ∧ sep ∉ a := by
  induction msg generalizing a r with
  | nil => simp [cutAt] at h
  | cons x xs ih =>
    by_cases hx : x = sep
    · subst hx
      simp [cutAt] at h
      obtain ⟨ha, hr⟩ := h
      subst ha; subst hr
      simp
    · unfold cutAt at h
      simp only [hx, if_false] at h
      cases hp : cutAt sep xs with
      | none => simp [hp] at h
      | some p =>
        obtain ⟨a', r'⟩ := p
        simp [hp] at h
        obtain ⟨h1, h2⟩ := ih a' r' hp
        obtain ⟨ha, hr⟩ := h
        subst ha; subst hr
        refine ⟨by simp [h1], ?_⟩
        simp only [List.mem_cons, not_or]
        exact ⟨fun e => hx e.symm, h2⟩

theorem count_append_sep (sep : Nat) (a r : Bytes) (h : sep ∉ a) :
    (a ++ sep :: r).count sep = r.count sep + 1 := by
  simp [List.count_append, List.count_eq_zero_of_not_mem h]

theorem filterMap_congr_mem {α β} (f g : α → Option β) (l : List α) (h : ∀ a ∈ l, f a = g a) :
    l.filterMap f = l.filterMap g := by
  induction l with
  | nil => rfl
  | cons a l ih =>
    have ha := h a (List.mem_cons_self ..)
    have hl := ih (fun x hx => h x (List.mem_cons_of_mem _ hx))
    simp [List.filterMap_cons, ha, hl]

/-- the frame `Publisher.__call__` builds -/
theorem frame_eq (pfx name payload : Bytes) : frame pfx name payload = pfx ++ 32 :: (name ++ 32 :: payload) := by
  simp [frame, joinParts, joinSep, pyJoin, partOf]

theorem mkPublisher_some {δ} {pfx : Bytes} {dumps : δ → Bytes} {p : Publisher δ}
    (h : mkPublisher pfx dumps = some p) : p.pfx = pfx ∧ p.dumps = dumps ∧ 32 ∉ pfx := by
  unfold mkPublisher at h
  split at h
  · cases h
  · rename_i hr
    cases h
    simp [publisherRejects] at hr
    exact ⟨rfl, rfl, hr⟩

/-- every DocumentNames member is space-free, valid UTF-8 -/
theorem documentNames_ok : ∀ n ∈ documentNames, 32 ∉ n ∧ validUtf8 n = true := by
  decide

theorem fail_cases {δ} (cfg : Dispatcher δ) (s : Stage) :
    (fail cfg s = .raise s ∧ cfg.strict = true) ∨ (fail cfg s = .drop s ∧ cfg.strict = false) := by
  cases hs : cfg.strict <;> cases s <;> simp [fail, onFailure, hs]

end BlueskyVerif.Zmq
