/-
C10 helper: the lifecycle state through the blocks of `_run`.  `paused` is entered only by the pause sequence
(`pauseBlock`), which the top of the loop reaches only when a message cache exists.
-/
import BlueskyVerif.Lemmas.C09Frame

namespace BlueskyVerif.Engine

theorem st_of_ctl {s s' : EState} (h : ctl s' = ctl s) : s'.state = s.state := congrArg Ctl.state h

@[simp] theorem st_logCall (s : EState) (c : Call) : (s.logCall c).state = s.state := rfl
@[simp] theorem st_emit (s : EState) (d : Doc) : (s.emit d).state = s.state := rfl
@[simp] theorem st_setDev (s : EState) (n : String) (d : DevState) : (setDev s n d).state = s.state := rfl
@[simp] theorem st_nextMode (s : EState) (n op : String) : (nextMode s n op).2.state = s.state := rfl
@[simp] theorem st_putBundler (s : EState) (m : Msg) (b : Bundler) : (putBundler s m b).state = s.state := rfl
@[simp] theorem st_emitEvent (s : EState) (b : Bundler) (st : String) (d : List (String × Int)) (n : String) :
    (emitEvent s b st d n).1.state = s.state := rfl
@[simp] theorem st_prepareStream (s : EState) (b : Bundler) (st : String) (o : List String) :
    (prepareStream s b st o).1.state = s.state := rfl
@[simp] theorem st_closeRunDoc (s : EState) (b : Bundler) (e r : String) :
    (closeRunDoc s b e r).1.state = s.state := st_of_ctl (ctl_closeRunDoc s b e r)
@[simp] theorem st_resetCheckpointMeth (s : EState) : (resetCheckpointMeth s).state = s.state :=
  st_of_ctl (ctl_resetCheckpointMeth s)
@[simp] theorem st_stopMovables (s : EState) : (stopMovables s).state = s.state := st_of_ctl (ctl_stopMovables s)
@[simp] theorem st_pauseHooks (s : EState) : (pauseHooks s).state = s.state := st_of_ctl (ctl_pauseHooks s)
@[simp] theorem st_resumeHooks (s : EState) : (resumeHooks s).state = s.state := st_of_ctl (ctl_resumeHooks s)
@[simp] theorem st_rewindPlan (s : EState) : (rewindPlan s).2.state = s.state := st_of_ctl (ctl_rewindPlan s)
@[simp] theorem st_newStatus (s : EState) (d o m : String) (g : Option String) :
    (newStatus s d o m g).2.state = s.state := rfl
@[simp] theorem st_forBundlers_ri (s : EState) (c : String) :
    (forBundlers s (fun s b => recordInterruption s b c)).state = s.state :=
  st_of_ctl (ctl_forBundlers _ (fun s b => ctl_recordInterruption s b c) _)
@[simp] theorem st_forBundlers_restore (s : EState) : (forBundlers s restoreMonitors).state = s.state :=
  st_of_ctl (ctl_forBundlers _ ctl_restoreMonitors _)
@[simp] theorem st_forBundlers_suspend (s : EState) : (forBundlers s suspendMonitors).state = s.state :=
  st_of_ctl (ctl_forBundlers _ ctl_suspendMonitors _)
@[simp] theorem st_forBundlers_clear (s : EState) : (forBundlers s clearMonitors).state = s.state :=
  st_of_ctl (ctl_forBundlers _ ctl_clearMonitors _)
@[simp] theorem st_forBundlers_pure (s : EState) (g : Bundler → Bundler) :
    (forBundlers s (fun s b => (s, g b))).state = s.state :=
  st_of_ctl (ctl_forBundlers _ (fun _ _ => rfl) _)

macro "frame_st" : tactic =>
  `(tactic| repeat' (first | rfl | (simp; done) | split | (simp only []; (first | rfl | split))))

/-- not paused -/
def NP (s : EState) : Prop := s.state ≠ .paused

theorem setState_np {s s' : EState} {n : St} (h : setState s n = .ok s') (hn : n ≠ .paused) : NP s' := by
  unfold NP; rw [setState_state h]; exact hn

/-- an accepted pause request leaves the state alone (deferred) or moves to `pausing` -/
theorem requestPause_st {s s' : EState} {d : Bool} (h : requestPause s d = .ok s') :
    s'.state = s.state ∨ s'.state = .pausing := by
  unfold requestPause at h
  split at h
  · cases h
  · split at h
    · cases h; exact Or.inl rfl
    · split at h
      · cases h
      · rename_i s1 hs
        cases h
        right
        show (forBundlers s1 _).state = _
        rw [st_forBundlers_ri]
        exact setState_state hs

theorem requestPause_np {s s' : EState} {d : Bool} (h : requestPause s d = .ok s') (hs : NP s) : NP s' := by
  rcases requestPause_st h with h1 | h1
  · unfold NP; rw [h1]; exact hs
  · unfold NP; rw [h1]; decide

/-- no command handler other than `pause` changes the lifecycle state -/
theorem runCommand_st (s : EState) (m : Msg) (h : m.cmd ≠ "pause") : (runCommand s m).1.state = s.state := by
  unfold runCommand
  split
  · unfold cmdOpenRun; frame_st
  · unfold cmdCloseRun; frame_st
  · unfold cmdCreate; frame_st
  · unfold cmdRead; frame_st
  · unfold cmdSave; frame_st
  · unfold cmdDrop; frame_st
  · unfold cmdCheckpoint; frame_st
  · unfold cmdClearCheckpoint; frame_st
  · unfold cmdRewindable; frame_st
  · unfold cmdSet; frame_st
  · unfold cmdTrigger; frame_st
  · unfold cmdWait; frame_st
  · rfl
  · unfold cmdStage; frame_st
  · unfold cmdStage; frame_st
  · unfold cmdMonitor; frame_st
  · unfold cmdUnmonitor; frame_st
  · rfl
  · rename_i hp; exact absurd hp h
  · unfold cmdStartSuspender; frame_st
  · unfold cmdResumeFromSuspender; frame_st
  · unfold cmdWaitFor; frame_st
  · rfl

theorem runCommand_np (s : EState) (m : Msg) (hs : NP s) : NP (runCommand s m).1 := by
  by_cases h : m.cmd = "pause"
  · unfold runCommand
    simp only [h]
    split
    · rename_i s' hr; exact requestPause_np hr hs
    · exact hs
  · unfold NP; rw [runCommand_st s m h]; exact hs

theorem noteMsg_st (s : EState) (m : Msg) : (noteMsg s m).state = s.state :=
  congrArg Ctl.state (noteMsg_ctl s m).1

theorem fin_st (s : EState) (r : Resp) : (fin s r).state = s.state := by
  unfold fin; split <;> rfl

theorem leaveLoop_st (s : EState) (e : Exc) : (leaveLoop s e).state = s.state := by
  unfold leaveLoop; simp only []; split <;> rfl

theorem takeResp_st (s : EState) (r : Resp) (rs : List Resp) : (takeResp s r rs).state = s.state := by
  unfold takeResp; frame_st

theorem logYield_st (s : EState) (g : Gen) (i : Inp) : (logYield s g i).state = s.state := by
  unfold logYield; frame_st

/-- the final `idle` assignment: the state becomes idle or stays what it was -/
theorem cleanup_st (s : EState) : (cleanup s).state = .idle ∨ (cleanup s).state = s.state := by
  unfold cleanup
  simp only []
  have hb : (cleanupBody s).state = s.state := st_of_ctl (cleanupBody_ctl s)
  split
  · rename_i s' hs; exact Or.inl (setState_state hs)
  · exact Or.inr hb

theorem cleanup_np (s : EState) (h : NP s) : NP (cleanup s) := by
  rcases cleanup_st s with h1 | h1
  · unfold NP; rw [h1]; decide
  · unfold NP; rw [h1]; exact h

theorem finishTask_st (s : EState) : (finishTask s).state = s.state := rfl

/-- both kinds of block result are not paused -/
def Flow.NPs (f : Flow) : Prop := NP f.state

theorem popPlan_nps (s : EState) (how : Option Exc) (h : NP s) : (popPlan s how).NPs := by
  unfold popPlan; simp only []
  split
  · show NP (leaveLoop _ _); unfold NP; rw [leaveLoop_st]; exact h
  · split <;> exact h

theorem afterCommand_nps (m : Msg) (p : EState × CmdOut) (h : NP p.1) : (afterCommand m p).NPs := by
  obtain ⟨s, o⟩ := p
  cases o with
  | value r => show NP (fin s _); unfold NP; rw [fin_st]; exact h
  | raised e => show NP (fin s _); unfold NP; rw [fin_st]; exact h
  | suspend pc => exact h

theorem processMsg_nps (s : EState) (m : Msg) (h : NP s) : (processMsg s m).NPs := by
  unfold processMsg
  simp only []
  have hn : NP (noteMsg s m) := by unfold NP; rw [noteMsg_st]; exact h
  split
  · show NP (fin _ _); unfold NP; rw [fin_st]; exact hn
  · exact afterCommand_nps m _ (runCommand_np _ m hn)

theorem afterResume_nps (s : EState) (gs : List Gen) (t : Option Exc) (r : Out × Gen) (h : NP s) :
    (afterResume s gs t r).NPs := by
  obtain ⟨o, g'⟩ := r
  cases o with
  | yld m => exact processMsg_nps _ m h
  | ret => simp only [afterResume]; split <;> exact popPlan_nps _ _ h
  | raise e =>
    simp only [afterResume]
    split
    · exact popPlan_nps _ _ h
    · show NP (leaveLoop (fin _ _) _); unfold NP; rw [leaveLoop_st, fin_st]; exact h

theorem afterSleep_nps (s : EState) (h : NP s) : (afterSleep s).NPs := by
  unfold afterSleep
  split
  · simp only []
    apply afterResume_nps
    unfold NP; rw [logYield_st, takeResp_st]; exact h
  · simp only [Flow.NPs, Flow.state, NP, leaveLoop_st]; exact h

theorem hCancel_nps (s : EState) (r : Resp) (h : NP s) : (hCancel s r).NPs := by
  unfold hCancel
  repeat' split
  all_goals (simp only [Flow.NPs, Flow.state, NP, fin_st, leaveLoop_st]; exact h)

/-- what a block result may look like: not paused, or paused by the pause sequence with a cache in place -/
def Flow.PausedOk : Flow → Prop
  | .loopTop s => NP s
  | .stop s => s.state = .paused → (s.msgCache.isSome = true ∧ s.pc = .pausedWait ∧ s.blockingEvent = true)

theorem Flow.pausedOk_of_nps {f : Flow} (h : f.NPs) : f.PausedOk := by
  cases f with
  | loopTop s => exact h
  | stop s => intro hp; exact absurd hp h

theorem isSome_resetOpt (c : Option (List Msg)) (h : c.isSome = true) : (resetOpt c).isSome = true := by
  cases c with
  | none => cases h
  | some x => rfl

/-- the pause sequence: if it does reach `paused`, it started in `pausing` (generated table), so -- under the
    guard of the loop top -- with a cache, and the hooks cannot remove a cache -/
theorem pauseBlock_pausedOk (x : EState) (hx : NP x) (hc : x.state = .pausing → x.msgCache.isSome = true) :
    (pauseBlock x).PausedOk := by
  unfold pauseBlock
  simp only []
  split
  · apply Flow.pausedOk_of_nps
    show NP (leaveLoop _ _)
    unfold NP
    rw [leaveLoop_st, st_pauseHooks, st_stopMovables, st_forBundlers_suspend]; exact hx
  · rename_i s' hs
    intro _
    refine ⟨?_, rfl, rfl⟩
    have hsrc := setState_source hs
    rw [st_pauseHooks, st_stopMovables, st_forBundlers_suspend] at hsrc
    have hxs := hc (paused_only_from_pausing _ hsrc)
    show s'.msgCache.isSome = true
    rw [ck_cache (ck_setState hs)]
    have h0 : (stopMovables (forBundlers x suspendMonitors)).msgCache = x.msgCache :=
      ck_cache (by rw [ck_stopMovables, ck_forBundlers_suspend])
    rcases ck_pauseHooks (stopMovables (forBundlers x suspendMonitors)) with h | h
    · rw [ck_cache h, h0]; exact hxs
    · have := congrArg Ck.cache h
      simp only [ck, Ck.reset] at this
      rw [this, h0]; exact isSome_resetOpt _ hxs

theorem loopTop_pausedOk (s : EState) (h : NP s) : (loopTop s).PausedOk := by
  unfold loopTop
  split
  · split
    · rename_i s' hs; exact setState_np hs (by decide)
    · apply Flow.pausedOk_of_nps; show NP (leaveLoop _ _); unfold NP; rw [leaveLoop_st]; exact h
  · rename_i hguard
    simp only []
    split
    · apply Flow.pausedOk_of_nps; show NP (leaveLoop _ _); unfold NP; rw [leaveLoop_st]; exact h
    · rename_i s' hs
      have hs' : NP s' ∧ (s'.state = .pausing → s'.msgCache.isSome = true) := by
        split at hs
        · refine ⟨setState_np hs (by decide), fun hp => ?_⟩
          rw [setState_state hs] at hp; cases hp
        · cases hs
          refine ⟨h, fun hp => ?_⟩
          cases hc : s.msgCache with
          | some c => rfl
          | none =>
            exfalso
            apply hguard
            rw [hp, hc]; rfl
      split
      · exact pauseBlock_pausedOk s' hs'.1 hs'.2
      · split
        · apply Flow.pausedOk_of_nps; exact hs'.1
        · exact Flow.pausedOk_of_nps (afterSleep_nps _ hs'.1)

/-- the result of a step: if it is `paused`, a message cache exists and `_run` sits at its pause point with the
    blocking event set -/
def PausedWithCache (s : EState) : Prop :=
  s.state = .paused → (s.msgCache.isSome = true ∧ s.pc = .pausedWait ∧ s.blockingEvent = true)

theorem pwc_of_np {s : EState} (h : NP s) : PausedWithCache s := fun hp => absurd hp h

theorem finish_pwc (s : EState) (h : NP s) : PausedWithCache (finishTask (cleanup s)) :=
  pwc_of_np (cleanup_np s h)

theorem runLoop_pwc (n : Nat) (s : EState) (h : NP s) : PausedWithCache (runLoop n s) := by
  induction n generalizing s with
  | zero => exact pwc_of_np h
  | succ n ih =>
    unfold runLoop
    have := loopTop_pausedOk s h
    split
    · rename_i s' heq
      rw [heq] at this
      split
      · rename_i hf
        have hpc : s'.pc = .finished := by simpa using hf
        apply finish_pwc
        intro hp
        have := (this hp).2.1
        rw [hpc] at this; cases this
      · exact this
    · rename_i s' heq
      rw [heq] at this
      exact ih s' this

theorem contFlow_pwc (n : Nat) (f : Flow) (h : f.PausedOk) : PausedWithCache (contFlow n f) := by
  cases f with
  | loopTop s => exact runLoop_pwc n s h
  | stop s =>
    simp only [contFlow]
    split
    · rename_i hf
      have hpc : s.pc = .finished := by simpa using hf
      apply finish_pwc
      intro hp
      have := (h hp).2.1
      rw [hpc] at this; cases this
    · exact h

end BlueskyVerif.Engine
