/-
C05: from the bundler model to the abstract counter machine.  For engine-admissible histories the
ghost log of the reached state is a valid run of the counter machine ending in the state's counters
(`RefInv`), and the event documents in the output are, in order, the `emit` entries of the log.
-/
import BlueskyVerif.Bundler.Guards
import BlueskyVerif.Lemmas.BundlerKeepsCtrRef
import BlueskyVerif.Lemmas.BundlerKeepsEvLog
import BlueskyVerif.Lemmas.C15Docs

namespace BlueskyVerif.Bundler
open Generated
open KeepsCtrRef (ctrOf Sub)
open KeepsEvLog (evItem emitItem)

/-! ### `rewind` (the one operation outside the generated frames) -/

theorem rewindFold_same (l : List (Name × Nat)) (descs : List Name) (a : BState)
    (h1 : a.seq = l) (h2 : a.seqCopy = l) :
    (descs.foldl rewindReadd a).seq = descs.foldl readdL l ∧
    (descs.foldl rewindReadd a).seqCopy = descs.foldl readdL l ∧
    (descs.foldl rewindReadd a).cpCleared = a.cpCleared ∧ (descs.foldl rewindReadd a).log = a.log ∧
    (descs.foldl rewindReadd a).streams = a.streams ∧ (descs.foldl rewindReadd a).descriptors = a.descriptors ∧
    (descs.foldl rewindReadd a).out = a.out := by
  induction descs generalizing l a with
  | nil => exact ⟨h1, h2, rfl, rfl, rfl, rfl, rfl⟩
  | cons d t ih =>
    simp only [List.foldl_cons]
    have hstep : (rewindReadd a d).seq = readdL l d ∧ (rewindReadd a d).seqCopy = readdL l d ∧
        (rewindReadd a d).cpCleared = a.cpCleared ∧ (rewindReadd a d).log = a.log ∧
        (rewindReadd a d).streams = a.streams ∧ (rewindReadd a d).descriptors = a.descriptors ∧
        (rewindReadd a d).out = a.out := by
      unfold rewindReadd readdL
      rw [h1]
      split
      · exact ⟨h1, h2, rfl, rfl, rfl, rfl, rfl⟩
      · simp only [firstSeq, h2]; exact ⟨trivial, trivial, trivial, trivial, trivial, trivial, trivial⟩
    obtain ⟨a1, a2, a3, a4, a5, a6, a7⟩ := hstep
    obtain ⟨b1, b2, b3, b4, b5, b6, b7⟩ := ih (readdL l d) (rewindReadd a d) a1 a2
    exact ⟨b1, b2, b3.trans a3, b4.trans a4, b5.trans a5, b6.trans a6, b7.trans a7⟩

theorem rewindOp_fields (s : BState) :
    (rewindOp s).seq = (akeys s.descriptors).foldl readdL s.seqCopy ∧
    (rewindOp s).seqCopy = (akeys s.descriptors).foldl readdL s.seqCopy ∧
    (rewindOp s).cpCleared = s.cpCleared ∧ (rewindOp s).log = s.log ++ [.rewind (akeys s.descriptors)] ∧
    (rewindOp s).streams = s.streams ∧ (rewindOp s).descriptors = s.descriptors ∧ (rewindOp s).out = s.out := by
  unfold rewindOp
  simp only [rewindReaddsDescriptorStreams, rewindCancelsBundle, if_true]
  exact rewindFold_same s.seqCopy (akeys s.descriptors)
    { s with seq := s.seqCopy, log := s.log ++ [.rewind (akeys s.descriptors)] } rfl rfl

/-- an admissible `rewind` refines the `rewind` micro-event -/
theorem rewind_ref (s : BState) (hs : Sub s) (hadm : rewindAdmissible s = true) :
    Sub (rewindOp s) ∧
    runP (ctrOf s, none) [.rewind (akeys s.descriptors)] = some (ctrOf (rewindOp s), none) := by
  obtain ⟨f1, f2, f3, f4, f5, f6, f7⟩ := rewindOp_fields s
  unfold rewindAdmissible at hadm
  simp only [Bool.and_eq_true, Bool.not_eq_true'] at hadm
  have hkeys : ∀ m, ahas ((akeys s.descriptors).foldl readdL s.seqCopy) m = true → ahas s.streams m = true := by
    intro m hm
    simp only [ahas] at hm
    rw [readdL_fold_get] at hm
    split at hm
    · rename_i hc; exact hs.copy m hc
    · split at hm
      · rename_i hd; exact hs.desc m hd
      · simp at hm
  refine ⟨⟨by rw [f1, f5]; exact hkeys, by rw [f6, f5]; exact hs.desc, by rw [f2, f5]; exact hkeys,
    by rw [f1]; exact readdL_fold_nodup _ _ hs.ndc, by rw [f2]; exact readdL_fold_nodup _ _ hs.ndc⟩, ?_⟩
  have hall : (s.seq.all fun kv => ahas s.seqCopy kv.1 || (akeys s.descriptors).contains kv.1) = true := hadm.2
  have hcond : (s.cpCleared || !(s.seq.all fun kv => ahas s.seqCopy kv.1 || (akeys s.descriptors).contains kv.1)) = false := by
    rw [hadm.1, hall]; rfl
  simp only [runP, stepP, ctrOf, hcond, Bool.false_eq_true, if_false, f1, f2, f3]

/-! ### admissible histories -/

/-- the invariant reached by every admissible history -/
structure RefInv (s : BState) : Prop where
  sub : Sub s
  run : runP ({}, none) s.log = some (ctrOf s, none)
  evs : s.out.filterMap evItem = s.log.filterMap emitItem

theorem refInv_step (w : World) (s : BState) (op : Op) (h : RefInv s)
    (hadm : op = .rewind → rewindAdmissible s = true) : RefInv (step w s op).st := by
  by_cases hr : op = .rewind
  · subst hr
    obtain ⟨a1, a2⟩ := rewind_ref s h.sub (hadm rfl)
    obtain ⟨f1, f2, f3, f4, f5, f6, f7⟩ := rewindOp_fields s
    simp only [step, Res.ok_st]
    refine ⟨a1, ?_, ?_⟩
    · rw [f4, runP_append, h.run]; exact a2
    · rw [f7, f4, List.filterMap_append, h.evs]; simp [emitItem]
  · have h1 := KeepsCtrRef.keeps_step w s op (by cases op <;> first | rfl | exact absurd rfl hr)
    have h2 := KeepsEvLog.keeps_step w s op (by cases op <;> first | rfl | exact absurd rfl hr)
    obtain ⟨b1, nl, b2, b3⟩ := h1 h.sub
    obtain ⟨nd, nl', c1, c2, c3, _⟩ := h2
    refine ⟨b1, ?_, ?_⟩
    · rw [b2, runP_append, h.run]; exact b3
    · rw [c1, c2, List.filterMap_append, List.filterMap_append, h.evs, c3]

/-- `admissibleFrom` as a proposition over the final-state run -/
theorem refInv_run (w : World) (s : BState) (ops : List Op) (h : RefInv s) (hadm : admissibleFrom w s ops = true) :
    RefInv (runState w s ops) := by
  induction ops generalizing s with
  | nil => exact h
  | cons op ops ih =>
    simp only [admissibleFrom, Bool.and_eq_true] at hadm
    simp only [runState]
    apply ih _ _ hadm.2
    apply refInv_step w s op h
    intro e; subst e; exact hadm.1

theorem openRun_refInv (cfg : BCfg) (u : Nat) (env : List (Obj × Config)) : RefInv (openRun cfg u env) := by
  unfold openRun
  simp only [openRunResets, if_true, resetCp]
  split
  · refine ⟨⟨?_, ?_, ?_, ?_, ?_⟩, ?_, ?_⟩
    · intro n hn
      by_cases e : "interruptions" = n
      · subst e; simp [ahas]
      · simp [ahas, aget_aset_ne _ _ _ _ e, aupdate] at hn
    · intro n hn; simp [akeys] at hn
    · intro n hn; simp [ahas, aupdate] at hn
    · simp [akeys, aset]
    · simp [akeys, aupdate]
    · simp [runP, stepP, ctrOf, aupdate, firstSeq, ahas]
    · simp [evItem, emitItem]
  · refine ⟨⟨?_, ?_, ?_, ?_, ?_⟩, ?_, ?_⟩
    · intro n hn; simp [ahas] at hn
    · intro n hn; simp [akeys] at hn
    · intro n hn; simp [ahas, aupdate] at hn
    · simp [akeys]
    · simp [akeys, aupdate]
    · simp [runP, stepP, ctrOf, aupdate]
    · simp [evItem, emitItem]

theorem admissible_append (w : World) (s : BState) (l1 l2 : List Op) :
    admissibleFrom w s (l1 ++ l2) = (admissibleFrom w s l1 && admissibleFrom w (runState w s l1) l2) := by
  induction l1 generalizing s with
  | nil => simp [admissibleFrom, runState]
  | cons op t ih => simp only [List.cons_append, admissibleFrom, runState, ih, Bool.and_assoc]

theorem runState_append (w : World) (s : BState) (l1 l2 : List Op) :
    runState w s (l1 ++ l2) = runState w (runState w s l1) l2 := by
  induction l1 generalizing s with
  | nil => rfl
  | cons op t ih => simp only [List.cons_append, runState]; exact ih _

theorem adm_of_no_rewind (w : World) (s : BState) (ops : List Op) (hno : ¬ Op.rewind ∈ ops) :
    admissibleFrom w s ops = true := by
  induction ops generalizing s with
  | nil => rfl
  | cons op t ih =>
    simp only [admissibleFrom, Bool.and_eq_true]
    refine ⟨?_, ih _ (fun hm => hno (List.mem_cons_of_mem _ hm))⟩
    cases op <;> first | rfl | exact absurd List.mem_cons_self hno

/-- the log grows along a history -/
theorem log_grows (w : World) (s : BState) (ops : List Op) :
    ∃ nd nl, (runState w s ops).out = s.out ++ nd ∧ (runState w s ops).log = s.log ++ nl ∧
      (¬ Op.rewind ∈ ops → ∀ ev ∈ nl, ev.isRewind = false) := by
  induction ops generalizing s with
  | nil => exact ⟨[], [], by simp [runState], by simp [runState], fun _ => by simp⟩
  | cons op t ih =>
    obtain ⟨nd2, nl2, o2, g2, r2⟩ := ih (step w s op).st
    by_cases hr : op = .rewind
    · subst hr
      obtain ⟨f1, f2, f3, f4, f5, f6, f7⟩ := rewindOp_fields s
      refine ⟨nd2, [.rewind (akeys s.descriptors)] ++ nl2, ?_, ?_, fun hno => absurd List.mem_cons_self hno⟩
      · simp only [runState, step, Res.ok_st] at o2 ⊢; rw [o2, f7]
      · simp only [runState, step, Res.ok_st] at g2 ⊢; rw [g2, f4, List.append_assoc]
    · obtain ⟨nd1, nl1, o1, g1, _, r1⟩ := KeepsEvLog.keeps_step w s op (by cases op <;> first | rfl | exact absurd rfl hr)
      refine ⟨nd1 ++ nd2, nl1 ++ nl2, ?_, ?_, fun hno ev hev => ?_⟩
      · simp only [runState]; rw [o2, o1, List.append_assoc]
      · simp only [runState]; rw [g2, g1, List.append_assoc]
      · rcases List.mem_append.1 hev with h | h
        · exact r1 ev h
        · exact r2 (fun hm => hno (List.mem_cons_of_mem _ hm)) ev h

/-- splitting a `filterMap` image -/
theorem filterMap_split {α β : Type} (f : α → Option β) (l : List α) (A B : List β) (x : β)
    (h : l.filterMap f = A ++ x :: B) :
    ∃ l1 e l2, l = l1 ++ e :: l2 ∧ f e = some x ∧ l1.filterMap f = A ∧ l2.filterMap f = B := by
  induction l generalizing A with
  | nil => simp at h
  | cons a t ih =>
    simp only [List.filterMap_cons] at h
    cases hfa : f a with
    | none =>
      rw [hfa] at h
      obtain ⟨l1, e, l2, h1, h2, h3, h4⟩ := ih A h
      exact ⟨a :: l1, e, l2, by rw [h1]; rfl, h2, by simp [List.filterMap_cons, hfa, h3], h4⟩
    | some y =>
      rw [hfa] at h
      cases A with
      | nil =>
        simp only [List.nil_append, List.cons.injEq] at h
        exact ⟨[], a, t, rfl, by rw [hfa, h.1], rfl, h.2⟩
      | cons a0 A' =>
        simp only [List.cons_append, List.cons.injEq] at h
        obtain ⟨l1, e, l2, h1, h2, h3, h4⟩ := ih A' h.2
        exact ⟨a :: l1, e, l2, by rw [h1]; rfl, h2, by simp [List.filterMap_cons, hfa, h3, h.1], h4⟩

end BlueskyVerif.Bundler
