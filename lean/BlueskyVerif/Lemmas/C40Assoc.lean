/-
Association-list facts used by the engine properties C40 / C41 / C06 (assocGet / assocSet of
Engine/Types.lean; `keys` with Nodup so that "first occurrence" and "last write" coincide).
-/
import BlueskyVerif.Engine.Sim

namespace BlueskyVerif.Engine

theorem assocGet_assocSet_same {β} (k : String) (v : β) (l : List (String × β)) :
    assocGet k (assocSet k v l) = some v := by
  induction l with
  | nil => simp [assocSet, assocGet]
  | cons x xs ih =>
    obtain ⟨k', v'⟩ := x
    unfold assocSet
    split
    · simp [assocGet]
    · rename_i h; simp [assocGet, h, ih]

theorem assocGet_assocSet_ne {β} (k k' : String) (v : β) (l : List (String × β)) (h : k' ≠ k) :
    assocGet k (assocSet k' v l) = assocGet k l := by
  induction l with
  | nil => simp [assocSet, assocGet, h]
  | cons x xs ih =>
    obtain ⟨k'', v''⟩ := x
    unfold assocSet
    split
    · rename_i h2; subst h2; simp [assocGet, h]
    · rename_i h2
      by_cases h3 : k'' = k
      · simp [assocGet, h3]
      · simp [assocGet, h3, ih]

def keys {β} (l : List (String × β)) : List String := l.map (·.1)

theorem keys_assocSet {β} (k : String) (v : β) (l : List (String × β)) :
    keys (assocSet k v l) = if k ∈ keys l then keys l else keys l ++ [k] := by
  induction l with
  | nil => simp [assocSet, keys]
  | cons x xs ih =>
    obtain ⟨k', v'⟩ := x
    unfold assocSet
    split
    · rename_i h; subst h; simp [keys]
    · rename_i h
      have h' : ¬ k = k' := fun e => h e.symm
      simp only [keys, List.map_cons, List.mem_cons, h', false_or] at ih ⊢
      rw [ih]; split <;> simp [*]

theorem nodup_keys_assocSet {β} (k : String) (v : β) (l : List (String × β)) (h : (keys l).Nodup) :
    (keys (assocSet k v l)).Nodup := by
  rw [keys_assocSet]; split
  · exact h
  · rename_i hk
    rw [List.nodup_append]
    refine ⟨h, by simp, ?_⟩
    intro a ha b hb
    simp at hb; subst hb
    intro e; subst e; exact hk ha

theorem assocGet_none_of_not_mem {β} (k : String) (l : List (String × β)) (h : k ∉ keys l) : assocGet k l = none := by
  induction l with
  | nil => rfl
  | cons x xs ih =>
    obtain ⟨k', v'⟩ := x
    simp only [keys, List.map_cons, List.mem_cons, not_or] at h
    have h1 : ¬ k' = k := fun e => h.1 e.symm
    simp only [assocGet, h1, if_false]
    exact ih h.2

/-- `dict.update`-style overlay: `for k, v in l: acc[k] = v` -/
def overlay {β} (l acc : List (String × β)) : List (String × β) := l.foldl (fun acc (kv : String × β) => assocSet kv.1 kv.2 acc) acc

theorem overlay_get_not_mem {β} (k : String) (l acc : List (String × β)) (h : k ∉ keys l) :
    assocGet k (overlay l acc) = assocGet k acc := by
  induction l generalizing acc with
  | nil => rfl
  | cons x xs ih =>
    obtain ⟨k', v'⟩ := x
    simp only [keys, List.map_cons, List.mem_cons, not_or] at h
    simp only [overlay, List.foldl_cons]
    have := ih (assocSet k' v' acc) h.2
    simp only [overlay] at this
    rw [this]
    exact assocGet_assocSet_ne k k' v' acc (fun e => h.1 e.symm)

theorem overlay_get_mem {β} (k : String) (v : β) (l acc : List (String × β)) (hn : (keys l).Nodup)
    (h : assocGet k l = some v) : assocGet k (overlay l acc) = some v := by
  induction l generalizing acc with
  | nil => simp [assocGet] at h
  | cons x xs ih =>
    obtain ⟨k', v'⟩ := x
    simp only [keys, List.map_cons, List.nodup_cons] at hn
    simp only [overlay, List.foldl_cons]
    by_cases hk : k' = k
    · subst hk
      simp only [assocGet, if_true] at h
      injection h with hv
      subst hv
      have := overlay_get_not_mem k' xs (assocSet k' v' acc) hn.1
      simp only [overlay] at this
      rw [this]; exact assocGet_assocSet_same k' v' acc
    · simp only [assocGet, hk, if_false] at h
      have := ih (assocSet k' v' acc) hn.2 h
      simpa only [overlay] using this

theorem nodup_keys_overlay {β} (l acc : List (String × β)) (h : (keys acc).Nodup) : (keys (overlay l acc)).Nodup := by
  induction l generalizing acc with
  | nil => exact h
  | cons x xs ih =>
    simp only [overlay, List.foldl_cons]
    exact ih _ (nodup_keys_assocSet _ _ _ h)

theorem mem_keys_assocSet {β} (k k' : String) (v : β) (l : List (String × β)) :
    k ∈ keys (assocSet k' v l) ↔ k = k' ∨ k ∈ keys l := by
  rw [keys_assocSet]
  split
  · rename_i h
    constructor
    · exact Or.inr
    · rintro (e | e)
      · subst e; exact h
      · exact e
  · simp [or_comm]

theorem mem_keys_overlay {β} (k : String) (l acc : List (String × β)) (h : k ∈ keys (overlay l acc)) :
    k ∈ keys l ∨ k ∈ keys acc := by
  induction l generalizing acc with
  | nil => exact Or.inr h
  | cons x xs ih =>
    simp only [overlay, List.foldl_cons] at h
    rcases ih _ h with h | h
    · exact Or.inl (by simp only [keys, List.map_cons, List.mem_cons]; exact Or.inr h)
    · rcases (mem_keys_assocSet _ _ _ _).mp h with h | h
      · exact Or.inl (by simp only [keys, List.map_cons, List.mem_cons]; exact Or.inl h)
      · exact Or.inr h

theorem assocGet_isSome_iff_mem_keys {β} (k : String) (l : List (String × β)) : (assocGet k l).isSome ↔ k ∈ keys l := by
  induction l with
  | nil => simp [assocGet, keys]
  | cons x xs ih =>
    obtain ⟨k', v'⟩ := x
    by_cases h : k' = k
    · subst h; simp [assocGet, keys]
    · have h' : ¬ k = k' := fun e => h e.symm
      simp only [assocGet, h, if_false, keys, List.map_cons, List.mem_cons, h', false_or]
      exact ih

theorem assocGet_map_val {β γ} (k : String) (f : β → γ) (l : List (String × β)) :
    assocGet k (l.map (fun kv => (kv.1, f kv.2))) = (assocGet k l).map f := by
  induction l with
  | nil => rfl
  | cons x xs ih =>
    obtain ⟨k', v'⟩ := x
    by_cases h : k' = k
    · simp [assocGet, h]
    · simp [assocGet, h, ih]

end BlueskyVerif.Engine
