/-
C41 helper lemmas: `monitor`, `unmonitor`, signal updates, `_start_suspender`, `_resume_from_suspender`.
-/
import BlueskyVerif.Lemmas.C41Main

namespace BlueskyVerif.Engine

theorem cleanup_subsOf (s : EState) (n : String) : subsOf (cleanup s) n = subsOf (cleanupBody s) n := by
  unfold cleanup
  simp only []
  split
  · rename_i s' hs; exact setState_subsOf hs n
  · rfl

theorem cleanup_bundlers (s : EState) : (cleanup s).bundlers = [] := by
  unfold cleanup
  simp only []
  split
  · rename_i s' hs; rw [setState_bundlers hs]; exact cleanupBody_bundlers s
  · exact cleanupBody_bundlers s

/-! ## signal updates -/

/-- the callback of one registration -/
def monStep (sig : String) (v : Int) (s : EState) (p : Nat × String) : EState :=
  match s.bundlers.find? (fun kb => kb.2.runId == p.1) with
  | none => refuse s "monitor-callback-after-run"
  | some (k, b) =>
    let r := emitEvent s b p.2 [(sig, v)]
    let b' := if Src.bundlerCommits.contains "monitor" then r.2.commit p.2 else r.2
    { r.1 with bundlers := assocSet k b' r.1.bundlers }

theorem monitorUpdate_eq (s : EState) (sig : String) (v : Int) :
    monitorUpdate s sig v =
      (subsOf s sig).foldl (monStep sig v) (setDev s sig { (devOf s sig) with value := v }) := by
  unfold monitorUpdate subsOf
  simp only [devOf_setDev_same]
  rfl

/-- (kind, run, stream, data) of a document -/
def Doc.core (d : Doc) : String × Nat × String × List (String × Int) := (d.kind, d.run, d.stream, d.data)

theorem runId_commit (b : Bundler) (st : String) : (b.commit st).runId = b.runId := by
  unfold Bundler.commit; split
  · rfl
  · split <;> rfl

theorem map_assocSet_of_mem {γ} (g : Bundler → γ) (l : List (String × Bundler)) (k : String) (b b' : Bundler)
    (hn : (keys l).Nodup) (hm : (k, b) ∈ l) (hg : g b' = g b) :
    (assocSet k b' l).map (fun kb => g kb.2) = l.map (fun kb => g kb.2) := by
  induction l with
  | nil => cases hm
  | cons x xs ih =>
    obtain ⟨k0, b0⟩ := x
    simp only [keys, List.map_cons, List.nodup_cons] at hn
    unfold assocSet
    split
    · rename_i hk; subst hk
      rcases List.mem_cons.mp hm with e | e
      · cases e; simp [hg]
      · exact absurd (List.mem_map.mpr ⟨(k0, b), e, rfl⟩) hn.1
    · rename_i hk
      rcases List.mem_cons.mp hm with e | e
      · cases e; exact absurd rfl hk
      · simp only [List.map_cons]; rw [ih hn.2 e]

theorem keys_assocSet_of_mem {β} (l : List (String × β)) (k : String) (b b' : β) (hm : (k, b) ∈ l) :
    keys (assocSet k b' l) = keys l := by
  rw [keys_assocSet, if_pos]
  exact List.mem_map.mpr ⟨(k, b), hm, rfl⟩

/-- one callback, for a run that has a bundler: exactly one event, of that run, in the registration's
    stream, with the new value; bundler keys and run ids stay what they are -/
theorem monStep_spec (sig : String) (v : Int) (s : EState) (p : Nat × String)
    (hn : (keys s.bundlers).Nodup) (hp : p.1 ∈ s.bundlers.map (fun kb => kb.2.runId)) :
    ∃ d, (monStep sig v s p).docs = s.docs ++ [d] ∧ d.core = ("event", p.1, p.2, [(sig, v)]) ∧
      keys (monStep sig v s p).bundlers = keys s.bundlers ∧
      (monStep sig v s p).bundlers.map (fun kb => kb.2.runId) = s.bundlers.map (fun kb => kb.2.runId) ∧
      ∀ n, subsOf (monStep sig v s p) n = subsOf s n := by
  unfold monStep
  split
  · rename_i hnone
    obtain ⟨kb, hkb, hrid⟩ := List.mem_map.mp hp
    have := List.find?_eq_none.mp hnone kb hkb
    simp [hrid] at this
  · rename_i k b hsome
    have hmem : (k, b) ∈ s.bundlers := List.mem_of_find?_eq_some hsome
    have hrid : b.runId = p.1 := by
      have := List.find?_some hsome
      simpa using this
    refine ⟨_, rfl, ?_, ?_, ?_, fun n => rfl⟩
    · simp [Doc.core, hrid]
    · exact keys_assocSet_of_mem _ _ _ _ hmem
    · apply map_assocSet_of_mem (fun b => b.runId) _ _ _ _ hn hmem
      split
      · rw [runId_commit]; rfl
      · rfl

theorem foldl_monStep_spec (sig : String) (v : Int) (subs : List (Nat × String)) (s : EState)
    (hn : (keys s.bundlers).Nodup) (hp : ∀ p ∈ subs, p.1 ∈ s.bundlers.map (fun kb => kb.2.runId)) :
    ∃ new, (subs.foldl (monStep sig v) s).docs = s.docs ++ new ∧
      new.map Doc.core = subs.map (fun p => ("event", p.1, p.2, [(sig, v)])) := by
  induction subs generalizing s with
  | nil => exact ⟨[], by simp, rfl⟩
  | cons p subs ih =>
    obtain ⟨d, hd, hcore, hk, hr, _⟩ := monStep_spec sig v s p hn (hp p List.mem_cons_self)
    obtain ⟨new, hnew, hmap⟩ := ih (monStep sig v s p) (hk ▸ hn) (fun q hq => hr ▸ hp q (List.mem_cons_of_mem _ hq))
    refine ⟨d :: new, ?_, ?_⟩
    · rw [List.foldl_cons, hnew, hd]; simp
    · simp [hcore, hmap]

/-! ## monitor / unmonitor -/

theorem msgCache_forBundlers_pure (s : EState) (h : Bundler → Bundler) : (forBundlers s (fun s b => (s, h b))).msgCache = s.msgCache := by
  have : ∀ (todo done : List (String × Bundler)) (t : EState),
      (forBundlers.go (fun s b => (s, h b)) t todo done).msgCache = t.msgCache := by
    intro todo
    induction todo with
    | nil => intro done t; rfl
    | cons kb rest ih => intro done t; unfold forBundlers.go; simp only []; rw [ih]
  exact this _ _ _

theorem resetCheckpointMeth_msgCache (s : EState) : (resetCheckpointMeth s).msgCache = s.msgCache.map (fun _ => []) := by
  unfold resetCheckpointMeth; split
  · rename_i h; simp [h]
  · rename_i c h; rw [msgCache_forBundlers_pure]; simp [h]

theorem assocGet_mapB (k : String) (h : Bundler → Bundler) (l : List (String × Bundler)) :
    assocGet k (mapB h l) = (assocGet k l).map h := assocGet_map_val k h l

theorem getBundler_resetCheckpointMeth (s : EState) (m : Msg) :
    ∃ j, getBundler (resetCheckpointMeth s) m = (getBundler s m).map (resetN j) := by
  unfold getBundler
  rw [resetCheckpointMeth_bundlers]
  split
  · exact ⟨1, assocGet_mapB _ _ _⟩
  · refine ⟨0, ?_⟩
    cases assocGet (runKey m) s.bundlers <;> rfl

theorem prepareStream_runId (s : EState) (b : Bundler) (st : String) (o : List String) : (prepareStream s b st o).2.runId = b.runId := by
  unfold prepareStream; simp only []; split <;> rfl

theorem prepareStream_monitors (s : EState) (b : Bundler) (st : String) (o : List String) : (prepareStream s b st o).2.monitors = b.monitors := by
  unfold prepareStream; simp only []; split <;> rfl

theorem prepareStream_docs (s : EState) (b : Bundler) (st : String) (o : List String) :
    (prepareStream s b st o).1.docs = s.docs ++ [{ kind := "descriptor", run := b.runId, stream := st, keys := o }] := rfl

theorem prepareStream_subsOf (s : EState) (b : Bundler) (st : String) (o : List String) (n : String) :
    subsOf (prepareStream s b st o).1 n = subsOf s n := rfl

theorem prepareStream_msgCache (s : EState) (b : Bundler) (st : String) (o : List String) :
    (prepareStream s b st o).1.msgCache = s.msgCache := rfl

theorem cmdMonitor_state (s : EState) (m : Msg) (b : Bundler) (hb : getBundler s m = some b)
    (hfree : assocGet (m.obj.getD "") b.monitors = none) :
    (cmdMonitor s m).1 =
      resetCheckpointMeth (putBundler
        (restStep (prepareStream s b (m.name.getD (m.obj.getD "" ++ "_monitor")) [m.obj.getD ""]).2.runId
          (prepareStream s b (m.name.getD (m.obj.getD "" ++ "_monitor")) [m.obj.getD ""]).1
          (m.obj.getD "", m.name.getD (m.obj.getD "" ++ "_monitor"))) m
        { (prepareStream s b (m.name.getD (m.obj.getD "" ++ "_monitor")) [m.obj.getD ""]).2 with
          monitors := (prepareStream s b (m.name.getD (m.obj.getD "" ++ "_monitor")) [m.obj.getD ""]).2.monitors ++
            [(m.obj.getD "", m.name.getD (m.obj.getD "" ++ "_monitor"))] }) := by
  unfold cmdMonitor
  rw [hb]
  simp only [hfree, Option.isSome_none, Bool.false_eq_true, if_false]
  rfl

theorem cmdUnmonitor_state (s : EState) (m : Msg) (b : Bundler) (stream : String) (hb : getBundler s m = some b)
    (hmon : assocGet (m.obj.getD "") b.monitors = some stream) :
    (cmdUnmonitor s m).1 =
      resetCheckpointMeth (putBundler (suspStep b.runId s (m.obj.getD "", stream)) m
        ({ b with monitors := assocErase (m.obj.getD "") b.monitors } : Bundler).resetCheckpoint) := by
  unfold cmdUnmonitor
  rw [hb]
  simp only [hmon, Option.isNone_some, Bool.false_eq_true, if_false, Option.getD_some]
  rfl

/-! ## the suspension handlers and the calls made while paused -/

theorem subsOf_recordInterruption (s : EState) (b : Bundler) (c : String) (n : String) :
    subsOf (recordInterruption s b c).1 n = subsOf s n := by
  unfold recordInterruption; split <;> rfl

theorem subsOf_forBundlers_record (s : EState) (c : String) (n : String) :
    subsOf (forBundlers s (fun s b => recordInterruption s b c)) n = subsOf s n := by
  rw [forBundlers_eq _ intBundler (fun s b => recordInterruption_bundler s b c)]
  show subsOf (s.bundlers.foldl (fun s kb => (recordInterruption s kb.2 c).1) s) n = subsOf s n
  exact subsOf_foldl _ (fun s kb n => subsOf_recordInterruption s kb.2 c n) _ _ _

theorem intBundler_monitors (b : Bundler) : (intBundler b).monitors = b.monitors := by
  unfold intBundler Bundler.commit
  split
  · split
    · rfl
    · split <;> rfl
  · rfl

theorem intBundler_runId (b : Bundler) : (intBundler b).runId = b.runId := by
  rw [← recordInterruption_bundler default b ""]; exact runId_recordInterruption _ _ _

theorem rewind_monitors (b : Bundler) : b.rewind.monitors = b.monitors := rfl
theorem rewind_runId (b : Bundler) : b.rewind.runId = b.runId := rfl

/-- `_start_suspender` does not touch any subscription (it never calls suspend_monitors) -/
theorem subsOf_cmdStartSuspender (s : EState) (m : Msg) (n : String) : subsOf (cmdStartSuspender s m).1 n = subsOf s n := by
  unfold cmdStartSuspender
  split
  · rfl
  · simp only []
    show subsOf (rewindPlan _).2 n = _
    rw [subsOf_rewindPlan, subsOf_pauseHooks, subsOf_stopMovables, subsOf_forBundlers_record]

/-- `_resume_from_suspender` subscribes every monitor once more -/
theorem subsOf_cmdResumeFromSuspender (s : EState) (n : String) :
    subsOf (cmdResumeFromSuspender s).1 n = subsOf s n ++ restored s.bundlers n := by
  unfold cmdResumeFromSuspender
  simp only []
  rw [subsOf_resumeHooks, subsOf_forBundlers_restore]

theorem bundlers_cmdResumeFromSuspender (s : EState) : (cmdResumeFromSuspender s).1.bundlers = s.bundlers := by
  unfold cmdResumeFromSuspender
  simp only []
  rw [bundlers_resumeHooks, forBundlers_restore_bundlers]

theorem resume_from_suspender_oneSubEach (s : EState) (hw : MonWF s) (h0 : NoMonSubs s) : OneSubEach (cmdResumeFromSuspender s).1 := by
  intro kb hkb ms hms
  rw [bundlers_cmdResumeFromSuspender] at hkb
  rw [subsOf_cmdResumeFromSuspender, List.count_append, count_restored s.bundlers kb ms hw.runs hw.sigs hkb hms]
  have : (subsOf s ms.1).count (kb.2.runId, ms.2) = 0 := List.count_eq_zero.mpr (h0 kb hkb ms hms)
  rw [this]

end BlueskyVerif.Engine
