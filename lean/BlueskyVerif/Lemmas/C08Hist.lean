/-
C08 helper lemmas: the HISTORY invariant `J` -- whenever `_interrupted` is set during a call, this is
explained by what the call's own logs show:

* a transition into aborting / stopping / halting happened (abort, stop, halt request or FailedPause), or
* the transition pausing -> idle happened (the engine went idle while a pause was pending: finding F4), or
* a request was refused during the call (the request coroutines store `_interrupted` before the state
  assignment that raises TransitionError), or
* the engine is pausing, or paused at its pause point with the run permit cleared.

Part 1: definitions, the blocks of `_run`.
-/
import BlueskyVerif.Lemmas.C08
import BlueskyVerif.Lemmas.C08Fields

namespace BlueskyVerif.Engine

def St.terminating : St → Bool
  | .aborting | .stopping | .halting => true
  | _ => false

/-- agreement on everything `J` reads -/
def SameJ (a b : EState) : Prop :=
  a.state = b.state ∧ a.interrupted = b.interrupted ∧ a.permit = b.permit ∧ a.pc = b.pc ∧
  a.trans = b.trans ∧ a.refused = b.refused

theorem SameJ.of_ctl {a b : EState} (h : ctl a = ctl b) (hr : a.refused = b.refused) : SameJ a b :=
  ⟨congrArg Ctl.state h, congrArg Ctl.interrupted h, congrArg Ctl.permit h, congrArg Ctl.pc h, congrArg Ctl.trans h, hr⟩

theorem SameJ.refl (a : EState) : SameJ a a := ⟨rfl, rfl, rfl, rfl, rfl, rfl⟩

theorem SameJ.trans {a b c : EState} (h1 : SameJ a b) (h2 : SameJ b c) : SameJ a c :=
  ⟨h1.1.trans h2.1, h1.2.1.trans h2.2.1, h1.2.2.1.trans h2.2.2.1, h1.2.2.2.1.trans h2.2.2.2.1,
   h1.2.2.2.2.1.trans h2.2.2.2.2.1, h1.2.2.2.2.2.trans h2.2.2.2.2.2⟩

section
variable (bt : List (St × St)) (nr : Nat)

/-- a transition into aborting / stopping / halting was logged since the call began -/
def TermSeen (s : EState) : Prop := ∃ l, s.trans = bt ++ l ∧ ∃ p ∈ l, p.2.terminating = true
/-- the transition pausing -> idle was logged since the call began -/
def PISeen (s : EState) : Prop := ∃ l, s.trans = bt ++ l ∧ (St.pausing, St.idle) ∈ l
/-- a request was refused since the call began -/
def Refd (s : EState) : Prop := nr < s.refused.length

def Expl (s : EState) : Prop := TermSeen bt s ∨ PISeen bt s ∨ Refd nr s

def J (s : EState) : Prop :=
  (∃ l, s.trans = bt ++ l) ∧ nr ≤ s.refused.length ∧
  (s.state = .paused → (s.pc = .pausedWait ∨ s.pc = .exitSleep ∨ s.pc = .finished) ∧ (s.permit = false → s.pc = .pausedWait)) ∧
  (s.interrupted = true → Expl bt nr s ∨ s.state = .pausing ∨ (s.state = .paused ∧ s.permit = false))

/-- the logs only grow -/
def Grow (s s' : EState) : Prop := (∃ l, s'.trans = s.trans ++ l) ∧ s.refused.length ≤ s'.refused.length

variable {bt nr}

theorem Expl.mono {s s' : EState} (g : Grow s s') (h : Expl bt nr s) : Expl bt nr s' := by
  obtain ⟨⟨l', hl'⟩, hr⟩ := g
  rcases h with ⟨l, hl, p, hp, ht⟩ | ⟨l, hl, hp⟩ | h
  · exact Or.inl ⟨l ++ l', by rw [hl', hl, List.append_assoc], p, List.mem_append_left _ hp, ht⟩
  · exact Or.inr (Or.inl ⟨l ++ l', by rw [hl', hl, List.append_assoc], List.mem_append_left _ hp⟩)
  · exact Or.inr (Or.inr (Nat.lt_of_lt_of_le h hr))

theorem J.of_same {a b : EState} (h : SameJ a b) (hb : J bt nr b) : J bt nr a := by
  obtain ⟨h1, h2, h3, h4, h5, h6⟩ := h
  obtain ⟨⟨l, hl⟩, b2, b3, b4⟩ := hb
  refine ⟨⟨l, h5.trans hl⟩, h6 ▸ b2, ?_, ?_⟩
  · intro hs; rw [h4, h3]; exact b3 (h1 ▸ hs)
  · intro hi
    rcases b4 (h2 ▸ hi) with he | hs | ⟨hs, hp⟩
    · exact Or.inl (he.mono ⟨⟨[], by rw [h5]; simp⟩, by rw [h6]; exact Nat.le_refl _⟩)
    · exact Or.inr (Or.inl (h1.trans hs))
    · exact Or.inr (Or.inr ⟨h1.trans hs, h3.trans hp⟩)

theorem J.afterRefuse {s : EState} (h : J bt nr s) (w : String) : J bt nr (refuse s w) := by
  obtain ⟨h1, h2, h3, h4⟩ := h
  refine ⟨h1, ?_, h3, ?_⟩
  · show nr ≤ (s.refused ++ [w]).length
    rw [List.length_append]; exact Nat.le_trans h2 (Nat.le_add_right _ _)
  · intro hi
    rcases h4 hi with he | hs | hp
    · exact Or.inl (he.mono ⟨⟨[], by simp [BlueskyVerif.Engine.refuse]⟩, by simp [BlueskyVerif.Engine.refuse]⟩)
    · exact Or.inr (Or.inl hs)
    · exact Or.inr (Or.inr hp)

/-- after a refusal everything is explained -/
theorem J.refused_explains {s : EState} (h : J bt nr s) (w : String) :
    J bt nr (refuse s w) ∧ Expl bt nr (refuse s w) := by
  refine ⟨h.afterRefuse w, Or.inr (Or.inr ?_)⟩
  show nr < (s.refused ++ [w]).length
  rw [List.length_append]; exact Nat.lt_of_le_of_lt h.2.1 (by simp)

theorem from_pausing (n : St) (h : (Src.transitions .pausing).contains n = true) (h1 : n ≠ .paused) (h2 : n ≠ .panicked) :
    n = .idle ∨ n.terminating = true := by
  cases n <;> first | (exact absurd rfl h1) | (exact absurd rfl h2) | (exact Or.inl rfl) | (exact Or.inr rfl) | (exact absurd h (by decide))

/-- a state assignment (other than to pausing / paused / panicked) keeps `J`; from `paused` with the
    permit cleared only the terminating assignments of abort/stop/halt happen -/
theorem J.assign {s s' : EState} {n : St} (h : setState s n = .ok s') (hj : J bt nr s)
    (h1 : n ≠ .paused) (h2 : n ≠ .pausing) (h3 : n ≠ .panicked)
    (hp : s.state = .paused → s.permit = false → n.terminating = true) : J bt nr s' := by
  obtain ⟨k1, k2, k3, _, _, _, _, k8, _, _, _, _, k13⟩ := setState_keep h
  obtain ⟨_, _, _, j3, _⟩ := setState_keep2 h
  obtain ⟨⟨l, hl⟩, b2, b3, b4⟩ := hj
  have g : Grow s s' := ⟨⟨_, k13⟩, by rw [j3]; exact Nat.le_refl _⟩
  have hnew : s'.trans = bt ++ (l ++ [(s.state, n)]) := by rw [k13, hl, List.append_assoc]
  refine ⟨⟨_, hnew⟩, j3 ▸ b2, ?_, ?_⟩
  · intro hs; rw [k1] at hs; exact absurd hs h1
  · intro hi
    left
    by_cases hn : n.terminating = true
    · exact Or.inl ⟨_, hnew, (s.state, n), by simp, hn⟩
    · rcases b4 (k2 ▸ hi) with he | hs | ⟨hs, hpm⟩
      · exact he.mono g
      · have hfrom := setState_from h
        rw [hs] at hfrom
        rcases from_pausing n hfrom h1 h3 with hidle | ht
        · exact Or.inr (Or.inl ⟨_, hnew, by rw [hs, hidle]; simp⟩)
        · exact absurd ht hn
      · exact absurd (hp hs hpm) hn

theorem J.setState_term {s s' : EState} {n : St} (h : setState s n = .ok s') (hj : J bt nr s)
    (hn : n.terminating = true) : J bt nr s' :=
  hj.assign h (by intro e; rw [e] at hn; cases hn) (by intro e; rw [e] at hn; cases hn)
    (by intro e; rw [e] at hn; cases hn) (fun _ _ => hn)

/-- ... and makes `_interrupted` explained -/
theorem setState_term_explains {s s' : EState} {n : St} (h : setState s n = .ok s') (hj : J bt nr s)
    (hn : n.terminating = true) : Expl bt nr s' := by
  obtain ⟨⟨l, hl⟩, _⟩ := hj
  have k13 := (setState_keep h).2.2.2.2.2.2.2.2.2.2.2.2
  exact Or.inl ⟨l ++ [(s.state, n)], by rw [k13, hl, List.append_assoc], (s.state, n), by simp, hn⟩

/-- changing only fields `J` does not read -/
theorem J.frame {s s' : EState} (hj : J bt nr s) (h : SameJ s' s) : J bt nr s' := hj.of_same h

/-- `_request_pause_coro` -/
theorem requestPause_J {s s' : EState} {d : Bool} (h : requestPause s d = .ok s') (hj : J bt nr s) :
    J bt nr s' ∧ (s.state ≠ .paused → s'.state ≠ .paused) := by
  unfold requestPause at h
  split at h
  · cases h
  · split at h
    · cases h; exact ⟨hj.of_same ⟨rfl, rfl, rfl, rfl, rfl, rfl⟩, id⟩
    · split at h
      · cases h
      · rename_i s1 hs
        cases h
        obtain ⟨k1, k2, k3, _, _, _, _, k8, _, _, _, _, k13⟩ := setState_keep hs
        obtain ⟨_, _, _, j3, _⟩ := setState_keep2 hs
        have hc : ctl (forBundlers s1 (fun s b => recordInterruption s b "pause")) = ctl s1 :=
          ctl_forBundlers _ (fun s b => ctl_recordInterruption s b "pause") _
        have hsame : SameJ { forBundlers s1 (fun s b => recordInterruption s b "pause") with cancelPending := true } s1 :=
          ⟨congrArg Ctl.state hc, congrArg Ctl.interrupted hc, congrArg Ctl.permit hc, congrArg Ctl.pc hc,
           congrArg Ctl.trans hc, rf_forBundlers_ri s1 "pause"⟩
        have hj1 : J bt nr s1 := by
          obtain ⟨⟨l, hl⟩, b2, _, _⟩ := hj
          have k13' : s1.trans = s.trans ++ [(s.state, .pausing)] := k13
          refine ⟨⟨l ++ [(s.state, .pausing)], by rw [k13', hl, List.append_assoc]⟩, ?_, ?_, ?_⟩
          · rw [j3]; exact b2
          · intro hst; rw [k1] at hst; cases hst
          · intro _; exact Or.inr (Or.inl k1)
        refine ⟨hj1.of_same hsame, ?_⟩
        intro _ hst
        have : s1.state = .paused := hsame.1.symm.trans hst
        rw [k1] at this; cases this

end

end BlueskyVerif.Engine
