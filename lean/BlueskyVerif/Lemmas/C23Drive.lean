/-
Lemmas/C23Drive.lean -- trace semantics of generators: `drive c b ins` is what a caller observes
when it creates a generator from behaviour `b`, calls `next`, then resumes it with the inputs `ins`
one by one while it keeps yielding, and finally (`c = true`) calls `close()`:

* `msgs`  -- the messages yielded, in order;
* `stand` -- `alive` (suspended after the last input), `closed r` (`close()` returned (`none`) or
  raised `r`), or `ended o rest` (the generator returned / raised `o`; `rest` = inputs not consumed).

Generic composition lemmas: generators given by machines (`drive_machine`), straight-line code
(`Prog.drive_beh`), relabelling (`drive_mapMsg`), sequencing (`drive_bind`).  All for input lists
without GeneratorExit throws in the middle (`NoGenExit`); `close()` at the end is covered exactly,
including sub-generators that answer `close()` with an exception or a yield (`Drv.bind`).
-/
import BlueskyVerif.Lemmas.C20
import BlueskyVerif.Gen.PairedBasic
import BlueskyVerif.Gen.Wrappers

namespace BlueskyVerif.Gen
set_option linter.unusedSectionVars false

/-- how a driven generator stands at the end of the script -/
inductive Stand (R V E : Type) where
  | alive
  | closed (r : Option E)
  | ended (o : Pending V E) (rest : List (Inp R E))

/-- observation of a drive -/
structure Drv (M R V E : Type) where
  msgs : List M
  stand : Stand R V E

section
variable {M R V E : Type}

def Drv.cons (m : M) (d : Drv M R V E) : Drv M R V E := ⟨m :: d.msgs, d.stand⟩
def Drv.pre (ms : List M) (d : Drv M R V E) : Drv M R V E := ⟨ms ++ d.msgs, d.stand⟩

@[simp] theorem Drv.pre_nil (d : Drv M R V E) : Drv.pre [] d = d := rfl
@[simp] theorem Drv.pre_cons (m : M) (ms : List M) (d : Drv M R V E) :
    Drv.pre (m :: ms) d = (Drv.pre ms d).cons m := rfl
theorem Drv.cons_eq_pre (m : M) (d : Drv M R V E) : d.cons m = Drv.pre [m] d := rfl
@[simp] theorem Drv.pre_pre (a b : List M) (d : Drv M R V E) :
    Drv.pre a (Drv.pre b d) = Drv.pre (a ++ b) d := by simp [Drv.pre]

def Drv.done (o : Pending V E) (rest : List (Inp R E)) : Drv M R V E := ⟨[], .ended o rest⟩

/-- no GeneratorExit (sub)class instance is thrown -/
def NoGenExit [PyExc E] (ins : List (Inp R E)) : Prop := ∀ e, Inp.throw e ∈ ins → isGenExit e = false

theorem NoGenExit.tail [PyExc E] {i : Inp R E} {ins : List (Inp R E)} (h : NoGenExit (i :: ins)) :
    NoGenExit ins := fun e he => h e (List.mem_cons_of_mem _ he)

theorem NoGenExit.head [PyExc E] {e : E} {ins : List (Inp R E)} (h : NoGenExit (.throw e :: ins)) :
    isGenExit e = false := h e (by simp)

end

section
variable {M R V E : Type} [Inhabited R] [DecidableEq R] [Inhabited V] [PyExc E]

/-- the generator object `p` has just yielded `m`; feed it `ins` -/
def driveGo (c : Bool) : Pos M R V E → M → List (Inp R E) → Drv M R V E
  | p, m, [] => ⟨[m], if c then .closed p.close.1 else .alive⟩
  | p, m, i :: rest =>
    match p.resume i with
    | (.yld m', p') => (driveGo c p' m' rest).cons m
    | (.ret v, _) => ⟨[m], .ended (.ret v) rest⟩
    | (.raise e, _) => ⟨[m], .ended (.exc e) rest⟩

/-- continue from the result of a resume -/
def driveOut (c : Bool) : Out M V E × Pos M R V E → List (Inp R E) → Drv M R V E
  | (.yld m, p), ins => driveGo c p m ins
  | (.ret v, _), ins => Drv.done (.ret v) ins
  | (.raise e, _), ins => Drv.done (.exc e) ins

theorem driveGo_cons (c : Bool) (p : Pos M R V E) (m : M) (i : Inp R E) (rest : List (Inp R E)) :
    driveGo c p m (i :: rest) = (driveOut c (p.resume i) rest).cons m := by
  rw [driveGo]
  rcases p.resume i with ⟨o, p'⟩
  cases o <;> rfl

/-- `g = b(); next(g); g.send/throw(ins...); [g.close()]` -/
def drive (c : Bool) (b : Beh M R V E) (ins : List (Inp R E)) : Drv M R V E :=
  driveOut c ((Pos.new b).resume (.send default)) ins

/-- what `close()` reports when the generator's answer to `throw GeneratorExit` is the first
    thing the drive `d` (run without further inputs) shows -/
def closeOf (d : Drv M R V E) : Stand R V E :=
  match d.msgs, d.stand with
  | _ :: _, _ => .closed (some PyExc.closeIgnored)
  | [], .ended (.ret _) _ => .closed none
  | [], .ended (.exc e) _ => .closed (if isGenExit e then none else some e)
  | [], _ => .closed none

/-- Sequencing inside one generator: `d` is the drive of a sub-generator delegated to with
    `yield from`; when it ends with `o`, the delegating generator goes on as `k c o rest`.  When the
    script ends with `close()`, the sub-generator is closed; the delegating generator then goes on
    with GeneratorExit (or with the exception `x` the sub-generator's `close()` raised) and no
    further inputs, and whatever it does first decides what `close()` reports (`closeOf`). -/
def Drv.bind {W : Type} (c : Bool) (d : Drv M R V E)
    (k : Bool → Pending V E → List (Inp R E) → Drv M R W E) : Drv M R W E :=
  match d.stand with
  | .alive => ⟨d.msgs, .alive⟩
  | .closed r => ⟨d.msgs, closeOf (k false (.exc (r.getD PyExc.genExit)) [])⟩
  | .ended o rest => Drv.pre d.msgs (k c o rest)

@[simp] theorem Drv.bind_cons {W : Type} (c : Bool) (m : M) (d : Drv M R V E)
    (k : Bool → Pending V E → List (Inp R E) → Drv M R W E) :
    (d.cons m).bind c k = (d.bind c k).cons m := by
  rcases d with ⟨ms, st⟩
  rcases st with _ | r | ⟨o, rest⟩ <;> rfl

@[simp] theorem Drv.bind_done {W : Type} (c : Bool) (o : Pending V E) (rest : List (Inp R E))
    (k : Bool → Pending V E → List (Inp R E) → Drv M R W E) :
    (Drv.done o rest : Drv M R V E).bind c k = k c o rest := by
  simp [Drv.bind, Drv.done, Drv.pre]

/-! ### generators given by machines -/

variable {σ : Type}

def mGo (c : Bool) (step : σ → Inp R E → Out M V E × σ) : σ → M → List (Inp R E) → Drv M R V E
  | s, m, [] => ⟨[m], if c then .closed (closeObs (step s (.throw PyExc.genExit)).1) else .alive⟩
  | s, m, i :: rest =>
    match step s i with
    | (.yld m', s') => (mGo c step s' m' rest).cons m
    | (.ret v, _) => ⟨[m], .ended (.ret v) rest⟩
    | (.raise e, _) => ⟨[m], .ended (.exc e) rest⟩

def mOut (c : Bool) (step : σ → Inp R E → Out M V E × σ) :
    Out M V E × σ → List (Inp R E) → Drv M R V E
  | (.yld m, s), ins => mGo c step s m ins
  | (.ret v, _), ins => Drv.done (.ret v) ins
  | (.raise e, _), ins => Drv.done (.exc e) ins

theorem mGo_cons (c : Bool) (step : σ → Inp R E → Out M V E × σ) (s : σ) (m : M) (i : Inp R E)
    (rest : List (Inp R E)) : mGo c step s m (i :: rest) = (mOut c step (step s i) rest).cons m := by
  rw [mGo]
  rcases step s i with ⟨o, s'⟩
  cases o <;> rfl

theorem driveOut_mpos_aux (c : Bool) (step : σ → Inp R E → Out M V E × σ) (init : σ)
    (h : List (Inp R E)) (ins : List (Inp R E))
    (ih : ∀ (m : M), driveGo c (mpos step init h .live) m ins
      = mGo c step (Machine.state step init h) m ins) (r : Out M V E × σ)
    (hr : Machine.state step init h = r.2) :
    driveOut c (r.1, mpos step init h (if r.1.isYld then .live else .dead)) ins
      = mOut c step r ins := by
  rcases r with ⟨o, s'⟩
  cases o with
  | yld m => simp only [Out.isYld, ↓reduceIte, driveOut, mOut]; rw [ih m, hr]
  | ret v => simp [driveOut, mOut]
  | raise e => simp [driveOut, mOut]

theorem driveGo_mpos (c : Bool) (step : σ → Inp R E → Out M V E × σ) (init : σ) (ins : List (Inp R E)) :
    ∀ (h : List (Inp R E)) (m : M),
      driveGo c (mpos step init h .live) m ins = mGo c step (Machine.state step init h) m ins := by
  induction ins with
  | nil =>
    intro h m
    simp only [driveGo, mGo]
    rw [close_live _ (by simp [mpos] : (mpos step init h .live).status = .live), advance_mpos]
  | cons i rest ih =>
    intro h m
    rw [driveGo_cons, mGo_cons, resume_live _ (by simp [mpos]), advance_mpos]
    rw [driveOut_mpos_aux c step init (h ++ [i]) rest (ih (h ++ [i])) _ (by simp)]

theorem drive_machine (c : Bool) (step : σ → Inp R E → Out M V E × σ) (init : σ)
    (ins : List (Inp R E)) :
    drive c (Beh.ofMachine step init) ins = mOut c step (step init (.send default)) ins := by
  unfold drive
  have h1 : (Pos.new (Beh.ofMachine step init)).resume (.send default)
      = (mpos step init [] .fresh).advance (.send default) := by
    simp [Pos.resume, Pos.new, mpos]
  rw [h1, advance_mpos]
  simp only [Machine.state_nil, List.nil_append]
  exact driveOut_mpos_aux c step init [.send default] ins
    (driveGo_mpos c step init ins [.send default]) _ (by simp [Machine.state, Machine.fold])

end

/-! ### straight-line code -/

section
variable {M R V E : Type} [Inhabited R] [DecidableEq R] [Inhabited V] [PyExc E]

namespace Prog

/-- the drive of a generator running the program -/
def drive (c : Bool) : Prog M R V E → List (Inp R E) → Drv M R V E
  | .ret v, ins => Drv.done (.ret v) ins
  | .raise e, ins => Drv.done (.exc e) ins
  | .yield m _, [] => ⟨[m], if c then .closed none else .alive⟩
  | .yield m k, .send r :: rest => ((k r).drive c rest).cons m
  | .yield m _, .throw e :: rest => ⟨[m], .ended (.exc e) rest⟩

theorem drive_yield_cons (c : Bool) (m : M) (k : R → Prog M R V E) (i : Inp R E)
    (rest : List (Inp R E)) :
    (Prog.yield m k).drive c (i :: rest) = (((Prog.yield m k).step i).drive c rest).cons m := by
  cases i <;> rfl

theorem driveOut_prog_aux (c : Bool) (b : Beh M R V E) (hist : List (Inp R E)) (rest : List (Inp R E))
    (q : Prog M R V E)
    (ih : ∀ m k, q = .yield m k → driveGo c ⟨b, hist, .live⟩ m rest = (Prog.yield m k).drive c rest) :
    driveOut c (q.after [], ⟨b, hist, if (q.after []).isYld then .live else .dead⟩) rest
      = q.drive c rest := by
  cases q with
  | ret v => simp [after, driveOut, drive]
  | raise e => simp [after, driveOut, drive]
  | yield m k => simp only [after, Out.isYld, ↓reduceIte, driveOut]; exact ih m k rfl

/-- a generator object running `p0`, having consumed `i0 :: h` -/
theorem driveGo_prog (c : Bool) (p0 : Prog M R V E) (i0 : Inp R E) (ins : List (Inp R E)) :
    ∀ (h : List (Inp R E)) (m : M) (k : R → Prog M R V E), h.foldl step p0 = .yield m k →
      driveGo c ⟨p0.beh, i0 :: h, .live⟩ m ins = (Prog.yield m k).drive c ins := by
  induction ins with
  | nil =>
    intro h m k hk
    simp only [driveGo, drive]
    cases c
    · rfl
    · simp only [↓reduceIte]
      rw [close_live _ rfl]
      have : p0.beh (i0 :: (h ++ [Inp.throw PyExc.genExit])) = .raise PyExc.genExit := by
        show p0.after (h ++ [_]) = _
        rw [after_foldl, List.foldl_append, hk]; rfl
      simp only [Pos.advance, List.cons_append, this, closeObs, PyExc.genExit_isGenExit, ↓reduceIte]
  | cons i rest ih =>
    intro h m k hk
    rw [driveGo_cons, resume_live _ rfl, drive_yield_cons]
    have hout : p0.beh (i0 :: (h ++ [i])) = ((Prog.yield m k).step i).after [] := by
      show p0.after (h ++ [_]) = _
      rw [after_foldl, List.foldl_append, hk]; rfl
    simp only [Pos.advance, List.cons_append, hout]
    rw [driveOut_prog_aux c p0.beh (i0 :: (h ++ [i])) rest ((Prog.yield m k).step i)
      (fun m' k' hq => by
        have := ih (h ++ [i]) m' k' (by simp [List.foldl_append, hk, hq])
        simpa using this)]

theorem drive_beh (c : Bool) (p : Prog M R V E) (ins : List (Inp R E)) :
    Gen.drive c p.beh ins = p.drive c ins := by
  unfold Gen.drive
  have h1 : (Pos.new p.beh).resume (.send default) = (Pos.new p.beh).advance (.send default) := by
    simp [Pos.resume, Pos.new]
  rw [h1]
  have hout : p.beh ([] ++ [Inp.send default]) = p.after [] := rfl
  simp only [Pos.advance, Pos.new, hout]
  exact driveOut_prog_aux c p.beh _ ins p
    (fun m k hq => by
      have := driveGo_prog c p (.send default) ins [] m k (by simpa using hq)
      simpa using this)

/-- `for m in ms: yield m` then `tail`, driven -/
theorem drive_msgs_send (c : Bool) (ms : List M) (tail : Prog M R V E) (rs : List R)
    (rest : List (Inp R E)) (h : rs.length = ms.length) :
    (Prog.msgs ms tail).drive c (rs.map .send ++ rest) = Drv.pre ms (tail.drive c rest) := by
  induction ms generalizing rs with
  | nil => cases rs <;> simp_all [Prog.msgs]
  | cons m ms ih =>
    cases rs with
    | nil => simp at h
    | cons r rs =>
      simp only [Prog.msgs, List.foldr_cons, List.map_cons, List.cons_append, drive]
      have := ih rs (by simpa using h)
      simp only [Prog.msgs] at this
      rw [this]; rfl

end Prog

/-! ### relabelling -/

def mapPos {M' : Type} (f : M → M') (p : Pos M R V E) : Pos M' R V E :=
  ⟨Beh.mapMsg f p.beh, p.hist, p.status⟩

theorem isYld_mapMsg {M' : Type} (f : M → M') (o : Out M V E) : (o.mapMsg f).isYld = o.isYld := by
  cases o <;> rfl

theorem advance_map {M' : Type} (f : M → M') (p : Pos M R V E) (i : Inp R E) :
    (mapPos f p).advance i = ((p.advance i).1.mapMsg f, mapPos f (p.advance i).2) := by
  simp [Pos.advance, mapPos, Beh.mapMsg, isYld_mapMsg]

theorem resume_map {M' : Type} (f : M → M') (p : Pos M R V E) (i : Inp R E) :
    (mapPos f p).resume i = ((p.resume i).1.mapMsg f, mapPos f (p.resume i).2) := by
  rcases p with ⟨b, h, st⟩
  cases st with
  | dead => cases i <;> simp [Pos.resume, mapPos, Out.mapMsg]
  | live =>
    have := advance_map f ⟨b, h, .live⟩ i
    simpa [Pos.resume, mapPos] using this
  | fresh =>
    cases i with
    | throw e => simp [Pos.resume, mapPos, Out.mapMsg]
    | send r =>
      by_cases hr : r = default
      · have := advance_map f ⟨b, h, .fresh⟩ (.send r)
        simpa [Pos.resume, mapPos, hr] using this
      · simp [Pos.resume, mapPos, hr, Out.mapMsg]

theorem close_map {M' : Type} (f : M → M') (p : Pos M R V E) : (mapPos f p).close.1 = p.close.1 := by
  rcases p with ⟨b, h, st⟩
  cases st with
  | dead => rfl
  | fresh => rfl
  | live =>
    rw [close_live _ (by rfl : (mapPos f ⟨b, h, .live⟩).status = .live), close_live _ rfl, advance_map]
    generalize (Pos.advance ⟨b, h, .live⟩ (Inp.throw PyExc.genExit)).1 = o
    cases o <;> rfl

def Drv.map {M' : Type} (f : M → M') (d : Drv M R V E) : Drv M' R V E := ⟨d.msgs.map f, d.stand⟩

theorem driveOut_map_aux {M' : Type} (c : Bool) (f : M → M') (ins : List (Inp R E))
    (ih : ∀ (p : Pos M R V E) (m : M), driveGo c (mapPos f p) (f m) ins = (driveGo c p m ins).map f)
    (r : Out M V E × Pos M R V E) :
    driveOut c (r.1.mapMsg f, mapPos f r.2) ins = (driveOut c r ins).map f := by
  rcases r with ⟨o, p⟩
  cases o with
  | yld m => simp only [Out.mapMsg, driveOut]; exact ih p m
  | ret v => simp [Out.mapMsg, driveOut, Drv.done, Drv.map]
  | raise e => simp [Out.mapMsg, driveOut, Drv.done, Drv.map]

theorem driveGo_mapMsg {M' : Type} (c : Bool) (f : M → M') (ins : List (Inp R E)) :
    ∀ (p : Pos M R V E) (m : M), driveGo c (mapPos f p) (f m) ins = (driveGo c p m ins).map f := by
  induction ins with
  | nil =>
    intro p m
    simp only [driveGo, close_map, Drv.map, List.map_cons, List.map_nil]
  | cons i rest ih =>
    intro p m
    rw [driveGo_cons, driveGo_cons, resume_map, driveOut_map_aux c f rest ih]
    simp [Drv.map, Drv.cons]

theorem drive_mapMsg {M' : Type} (c : Bool) (f : M → M') (b : Beh M R V E) (ins : List (Inp R E)) :
    drive c (Beh.mapMsg f b) ins = (drive c b ins).map f := by
  unfold drive
  have : Pos.new (Beh.mapMsg f b) = mapPos f (Pos.new b) := rfl
  rw [this, resume_map, driveOut_map_aux c f ins (driveGo_mapMsg c f ins)]

/-! ### sequencing: `v = yield from a; return (yield from k(v))` -/

theorem yfStep_of_noGenExit (p : Pos M R V E) (i : Inp R E) (h : ∀ e, i = .throw e → isGenExit e = false) :
    yfStep p i = yfOfOut (p.resume i) := by
  cases i with
  | send r => rfl
  | throw e => simp [yfStep, h e rfl]

/-- what a delegating generator sees when it is being closed while suspended in `yield from p` -/
theorem yfStep_genExit (p : Pos M R V E) :
    yfStep p (.throw PyExc.genExit) = .raised (p.close.1.getD PyExc.genExit) := by
  simp only [yfStep, PyExc.genExit_isGenExit, ↓reduceIte]
  rcases p.close with ⟨o, p'⟩
  cases o <;> rfl

variable {W : Type} [Inhabited W]

/-- continuation of `Beh.bind` after the first part ended -/
def bindK (k : V → Beh M R W E) (c : Bool) (o : Pending V E) (rest : List (Inp R E)) : Drv M R W E :=
  match o with
  | .ret v => drive c (k v) rest
  | .exc e => Drv.done (.exc e) rest

theorem mGo_bind_second (c : Bool) (a : Beh M R V E) (k : V → Beh M R W E) (ins : List (Inp R E))
    (hn : NoGenExit ins) :
    ∀ (p : Pos M R W E) (m : M),
      mGo c (Beh.bindStep a k) (.second p) m ins = driveGo c p m ins := by
  induction ins with
  | nil =>
    intro p m
    simp only [mGo, driveGo, Beh.bindStep, yfStep_genExit]
    cases c
    · rfl
    · cases hc : p.close.1 with
      | none => simp [Beh.bindSecond, closeObs, PyExc.genExit_isGenExit]
      | some x => simp [Beh.bindSecond, closeObs, close_some_not_genExit p x hc]
  | cons i rest ih =>
    intro p m
    rw [mGo_cons, driveGo_cons]
    simp only [Beh.bindStep]
    rw [yfStep_of_noGenExit p i (fun e he => hn e (by simp [he]))]
    rcases p.resume i with ⟨o, p'⟩
    cases o with
    | yld m' => simp [yfOfOut, Beh.bindSecond, mOut, driveOut, ih hn.tail]
    | ret v => simp [yfOfOut, Beh.bindSecond, mOut, driveOut]
    | raise e => simp [yfOfOut, Beh.bindSecond, mOut, driveOut]

theorem mOut_bindSecond (c : Bool) (a : Beh M R V E) (k : V → Beh M R W E) (ins : List (Inp R E))
    (hn : NoGenExit ins) (r : Out M W E × Pos M R W E) :
    mOut c (Beh.bindStep a k) (Beh.bindSecond (yfOfOut r)) ins = driveOut c r ins := by
  rcases r with ⟨o, p⟩
  cases o with
  | yld m => simp [yfOfOut, Beh.bindSecond, mOut, driveOut, mGo_bind_second c a k ins hn]
  | ret v => simp [yfOfOut, Beh.bindSecond, mOut, driveOut]
  | raise e => simp [yfOfOut, Beh.bindSecond, mOut, driveOut]

theorem mGo_bind_first (c : Bool) (a : Beh M R V E) (k : V → Beh M R W E) (ins : List (Inp R E))
    (hn : NoGenExit ins) :
    ∀ (p : Pos M R V E) (m : M),
      mGo c (Beh.bindStep a k) (.first p) m ins = (driveGo c p m ins).bind c (bindK k) := by
  induction ins with
  | nil =>
    intro p m
    simp only [mGo, driveGo, Beh.bindStep, yfStep_genExit]
    cases c
    · rfl
    · cases hc : p.close.1 with
      | none =>
        simp [Beh.bindFirst, closeObs, PyExc.genExit_isGenExit, Drv.bind, bindK, closeOf, Drv.done]
      | some x =>
        simp [Beh.bindFirst, closeObs, close_some_not_genExit p x hc, Drv.bind, bindK, closeOf,
          Drv.done]
  | cons i rest ih =>
    intro p m
    rw [mGo_cons, driveGo_cons]
    simp only [Beh.bindStep]
    rw [yfStep_of_noGenExit p i (fun e he => hn e (by simp [he]))]
    rcases p.resume i with ⟨o, p'⟩
    cases o with
    | yld m' => simp [yfOfOut, Beh.bindFirst, mOut, driveOut, ih hn.tail]
    | ret v =>
      simp only [yfOfOut, Beh.bindFirst, driveOut, Drv.bind_cons, Drv.bind_done, bindK]
      rw [yfStart, mOut_bindSecond c a k rest hn.tail]
      rfl
    | raise e => simp [yfOfOut, Beh.bindFirst, mOut, driveOut, bindK]

/-- **sequencing** -/
theorem drive_bind (c : Bool) (a : Beh M R V E) (k : V → Beh M R W E) (ins : List (Inp R E))
    (hn : NoGenExit ins) :
    drive c (Beh.bind a k) ins = (drive c a ins).bind c (bindK k) := by
  unfold Beh.bind
  rw [drive_machine]
  simp only [Beh.bindStep]
  unfold drive yfStart
  rcases (Pos.new a).resume (.send default) with ⟨o, p⟩
  cases o with
  | yld m => simp [yfOfOut, Beh.bindFirst, mOut, driveOut, mGo_bind_first c a k ins hn]
  | ret v =>
    simp only [yfOfOut, Beh.bindFirst, driveOut, Drv.bind_done, bindK]
    rw [yfStart, mOut_bindSecond c a k ins hn]
    rfl
  | raise e => simp [yfOfOut, Beh.bindFirst, mOut, driveOut, bindK]

theorem drive_pure (c : Bool) (v : V) (ins : List (Inp R E)) :
    drive c (Beh.pure v : Beh M R V E) ins = Drv.done (.ret v) ins := by
  simp [drive, Pos.resume, Pos.new, Pos.advance, Beh.pure, driveOut]

end
end BlueskyVerif.Gen
