/-
C11 helper lemmas, part 1: a projection `view` of the engine state onto what the suspension machinery
reads and writes (program counter, lifecycle state, stacks, cancellation, futures, message log ...), and
frame lemmas: the data operations (documents, device calls, bundlers) leave it untouched.
-/
import BlueskyVerif.Lemmas.EngineSched

namespace BlueskyVerif.Engine

structure View where
  pc : PC
  state : St
  cancelPending : Bool
  permit : Bool
  stashed : Option Exc
  exceptionSlot : Option Exc
  resp : Option Resp
  respStack : List Resp
  planStack : List Gen
  cacheSome : Bool
  futs : List Nat
  suspReqs : List SuspReq
  msgs : List Msg
  blockingEvent : Bool

def view (s : EState) : View :=
  { pc := s.pc, state := s.state, cancelPending := s.cancelPending, permit := s.permit, stashed := s.stashed,
    exceptionSlot := s.exceptionSlot, resp := s.resp, respStack := s.respStack, planStack := s.planStack,
    cacheSome := s.msgCache.isSome, futs := s.futs, suspReqs := s.suspReqs, msgs := s.msgs,
    blockingEvent := s.blockingEvent }

@[simp] theorem view_logCall (s : EState) (c : Call) : view (s.logCall c) = view s := rfl
@[simp] theorem view_emit (s : EState) (d : Doc) : view (s.emit d) = view s := rfl
@[simp] theorem view_setDev (s : EState) (n : String) (d : DevState) : view (setDev s n d) = view s := rfl
@[simp] theorem view_nextMode (s : EState) (n op : String) : view (nextMode s n op).2 = view s := rfl
@[simp] theorem view_emitEvent (s : EState) (b : Bundler) (st : String) (d : List (String × Int)) (n : String) :
    view (emitEvent s b st d n).1 = view s := rfl

theorem view_foldl {α} (f : EState → α → EState) (h : ∀ s a, view (f s a) = view s) (l : List α) (s : EState) :
    view (l.foldl f s) = view s := by
  induction l generalizing s with
  | nil => rfl
  | cons a l ih => rw [List.foldl_cons, ih, h]

@[simp] theorem view_recordInterruption (s : EState) (b : Bundler) (c : String) :
    view (recordInterruption s b c).1 = view s := by
  unfold recordInterruption; split <;> rfl

theorem view_forBundlers_go (f : EState → Bundler → EState × Bundler) (h : ∀ s b, view (f s b).1 = view s)
    (todo done : List (String × Bundler)) (s : EState) : view (forBundlers.go f s todo done) = view s := by
  induction todo generalizing s done with
  | nil => rfl
  | cons kb rest ih =>
    obtain ⟨k, b⟩ := kb
    unfold forBundlers.go
    simp only []
    rw [ih]; exact h s b

theorem view_forBundlers (f : EState → Bundler → EState × Bundler) (h : ∀ s b, view (f s b).1 = view s) (s : EState) :
    view (forBundlers s f) = view s := view_forBundlers_go f h _ _ s

@[simp] theorem view_forBundlers_ri (s : EState) (c : String) :
    view (forBundlers s (fun s b => recordInterruption s b c)) = view s :=
  view_forBundlers _ (fun s b => view_recordInterruption s b c) s

@[simp] theorem view_forBundlers_pure (s : EState) (g : Bundler → Bundler) :
    view (forBundlers s (fun s b => (s, g b))) = view s := view_forBundlers _ (fun _ _ => rfl) s

@[simp] theorem view_restoreMonitors (s : EState) (b : Bundler) : view (restoreMonitors s b).1 = view s := by
  unfold restoreMonitors; apply view_foldl; intro s x; rfl

@[simp] theorem view_resetCheckpointMeth (s : EState) : view (resetCheckpointMeth s) = view s := by
  unfold resetCheckpointMeth
  split
  · rfl
  · rename_i c hc
    rw [view_forBundlers _ (fun _ _ => rfl)]
    simp only [view, hc]; rfl

@[simp] theorem view_stopMovables (s : EState) : view (stopMovables s) = view s := by
  unfold stopMovables; apply view_foldl; intro s x; rfl

@[simp] theorem view_pauseHooks (s : EState) : view (pauseHooks s) = view s := by
  unfold pauseHooks
  apply view_foldl
  intro s n
  split
  · split
    · simp only []; split <;> simp
    · rfl
  · rfl

@[simp] theorem view_resumeHooks (s : EState) : view (resumeHooks s) = view s := by
  unfold resumeHooks
  apply view_foldl
  intro s n
  split
  · split <;> rfl
  · rfl

/-- the rewind empties the cache (so it exists afterwards) and touches nothing else of the view -/
theorem view_rewindPlan (s : EState) : view (rewindPlan s).2 = { view s with cacheSome := true } := by
  unfold rewindPlan
  simp only []
  split
  · rfl
  · rw [view_forBundlers _ (fun _ _ => rfl)]; rfl

end BlueskyVerif.Engine
