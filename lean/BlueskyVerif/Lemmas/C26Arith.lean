/-
Helper lemmas for C26 (part 2): arithmetic of the closed form `idxs` -- mixed-radix bijection with
mirrored digits, behaviour between consecutive flat positions, counting slower-axis advances.
Core Lean only.
-/
import BlueskyVerif.Lemmas.C26List
namespace BlueskyVerif.Pure.Snake


theorem prod_pos {Ls : List Nat} (h : ∀ x ∈ Ls, 0 < x) : 0 < prod Ls := by
  induction Ls with
  | nil => simp [prod]
  | cons L rest ih =>
    simp only [prod]
    exact Nat.mul_pos (h L (by simp)) (ih (fun x hx => h x (by simp [hx])))

theorem pos_of_prod_pos {Ls : List Nat} (h : 0 < prod Ls) : ∀ x ∈ Ls, 0 < x := by
  induction Ls with
  | nil => simp
  | cons L rest ih =>
    simp only [prod] at h
    intro x hx
    simp only [List.mem_cons] at hx
    rcases hx with hx | hx
    · subst hx; exact Nat.pos_of_mul_pos_right h
    · exact ih (Nat.pos_of_mul_pos_left h) x hx

theorem idxAt_eq_mirror (L R : Nat) (s : Bool) (p : Nat) :
    idxAt L R s p = mirror L (s && (p / (L * R)) % 2 == 1) (p / R % L) := by
  simp [idxAt, mirror]

theorem mirror_lt {L r : Nat} (b : Bool) (h : r < L) : mirror L b r < L := by
  unfold mirror; split <;> omega

theorem mirror_inj {L r r' : Nat} (b : Bool) (h : r < L) (h' : r' < L) (e : mirror L b r = mirror L b r') : r = r' := by
  unfold mirror at e; split at e <;> omega

theorem mirror_mirror {L r : Nat} (b : Bool) (h : r < L) : mirror L b (mirror L b r) = r := by
  unfold mirror; split <;> omega

theorem idxs_inBox (axes : List (Nat × Bool)) (hpos : ∀ x ∈ axes, 0 < x.1) (p : Nat) :
    inBox (idxs axes p) (axes.map (·.1)) := by
  induction axes with
  | nil => simp [idxs, inBox]
  | cons x rest ih =>
    obtain ⟨L, s⟩ := x
    simp only [idxs, List.map_cons, inBox]
    refine ⟨?_, ih (fun y hy => hpos y (by simp [hy]))⟩
    rw [idxAt_eq_mirror]
    exact mirror_lt _ (Nat.mod_lt _ (hpos (L, s) (by simp)))

theorem idxs_inj (axes : List (Nat × Bool)) (hpos : ∀ x ∈ axes, 0 < x.1) (p q : Nat)
    (hc : p / prod (axes.map (·.1)) = q / prod (axes.map (·.1))) (h : idxs axes p = idxs axes q) : p = q := by
  induction axes with
  | nil => simpa [prod] using hc
  | cons x rest ih =>
    obtain ⟨L, s⟩ := x
    have hL : 0 < L := hpos (L, s) (by simp)
    simp only [idxs, List.cons.injEq, List.map_cons, prod] at h hc
    obtain ⟨h1, h2⟩ := h
    generalize hR : prod (rest.map (·.1)) = R at *
    apply ih (fun y hy => hpos y (by simp [hy])) _ h2
    rw [idxAt_eq_mirror, idxAt_eq_mirror, hc] at h1
    have hr := mirror_inj _ (Nat.mod_lt _ hL) (Nat.mod_lt _ hL) h1
    rw [Nat.mul_comm L R, ← Nat.div_div_eq_div_mul, ← Nat.div_div_eq_div_mul] at hc
    rw [← Nat.div_add_mod (p / R) L, ← Nat.div_add_mod (q / R) L, hc, hr]

theorem idxs_surj (axes : List (Nat × Bool)) (hpos : ∀ x ∈ axes, 0 < x.1) (t : List Nat)
    (ht : inBox t (axes.map (·.1))) (c : Nat) :
    ∃ p, p / prod (axes.map (·.1)) = c ∧ idxs axes p = t := by
  induction axes generalizing t c with
  | nil =>
    cases t with
    | nil => exact ⟨c, by simp [prod], by simp [idxs]⟩
    | cons a t => simp [inBox] at ht
  | cons x rest ih =>
    obtain ⟨L, s⟩ := x
    have hL : 0 < L := hpos (L, s) (by simp)
    cases t with
    | nil => simp [inBox] at ht
    | cons a t =>
      simp only [List.map_cons, inBox] at ht
      obtain ⟨ha, ht'⟩ := ht
      let b : Bool := s && c % 2 == 1
      have hr : mirror L b a < L := mirror_lt _ ha
      obtain ⟨p, hp1, hp2⟩ := ih (fun y hy => hpos y (by simp [hy])) t ht' (L * c + mirror L b a)
      refine ⟨p, ?_, ?_⟩
      · simp only [List.map_cons, prod]
        rw [Nat.mul_comm L, ← Nat.div_div_eq_div_mul, hp1, Nat.mul_add_div hL, Nat.div_eq_of_lt hr]; simp
      · simp only [idxs, hp2, List.cons.injEq, and_true]
        rw [idxAt_eq_mirror, Nat.mul_comm L, ← Nat.div_div_eq_div_mul, hp1, Nat.mul_add_div hL,
          Nat.div_eq_of_lt hr, Nat.mul_add_mod, Nat.mod_eq_of_lt hr, Nat.add_zero]
        exact mirror_mirror _ ha


theorem axes_pos_of_prod_pos {axes : List (Nat × Bool)} (h : 0 < prod (axes.map (·.1))) :
    ∀ x ∈ axes, 0 < x.1 := by
  intro x hx
  exact pos_of_prod_pos h x.1 (List.mem_map_of_mem hx)

theorem prod_pos_of_axes_pos {axes : List (Nat × Bool)} (h : ∀ x ∈ axes, 0 < x.1) :
    0 < prod (axes.map (·.1)) := by
  apply prod_pos
  intro y hy
  obtain ⟨x, hx, rfl⟩ := List.mem_map.mp hy
  exact h x hx

theorem length_traj (axes : List (Nat × Bool)) : (traj axes).length = prod (axes.map (·.1)) := by
  simp [traj]

theorem mem_traj (axes : List (Nat × Bool)) (hpos : ∀ x ∈ axes, 0 < x.1) (t : List Nat) :
    t ∈ traj axes ↔ inBox t (axes.map (·.1)) := by
  constructor
  · intro h
    simp only [traj, List.mem_map, List.mem_range] at h
    obtain ⟨p, _, rfl⟩ := h
    exact idxs_inBox axes hpos p
  · intro h
    obtain ⟨p, hp1, hp2⟩ := idxs_surj axes hpos t h 0
    simp only [traj, List.mem_map, List.mem_range]
    refine ⟨p, ?_, hp2⟩
    have hP : 0 < prod (axes.map (·.1)) := prod_pos_of_axes_pos hpos
    exact (Nat.div_eq_zero_iff_lt hP).mp hp1

theorem nodup_traj (axes : List (Nat × Bool)) : (traj axes).Nodup := by
  unfold traj
  rcases Nat.eq_zero_or_pos (prod (axes.map (·.1))) with h0 | hP
  · rw [h0]; simp
  · have hpos : ∀ x ∈ axes, 0 < x.1 := axes_pos_of_prod_pos hP
    rw [List.Nodup, List.pairwise_map]
    apply List.Pairwise.imp_of_mem _ List.nodup_range
    intro p q hp hq hne heq
    apply hne
    simp only [List.mem_range] at hp hq
    exact idxs_inj axes hpos p q (by rw [Nat.div_eq_of_lt hp, Nat.div_eq_of_lt hq]) heq

theorem grid_eq_traj (Ls : List Nat) : grid Ls = traj (Ls.map (·, false)) := by
  have hm : (Ls.map (·, false)).map (·.1) = Ls := by simp [Function.comp_def]
  rw [grid_eq_digits, traj, hm]
  apply List.map_congr_left
  intro p _
  rw [idxs_unsnaked _ (by simp), hm]

theorem traj_perm_grid (axes : List (Nat × Bool)) : (traj axes).Perm (grid (axes.map (·.1))) := by
  rcases Nat.eq_zero_or_pos (prod (axes.map (·.1))) with h0 | hP
  · have h1 : traj axes = [] := by simp [traj, h0]
    have h2 : grid (axes.map (·.1)) = [] := by simp [grid_eq_digits, h0]
    rw [h1, h2]
  · have hpos : ∀ x ∈ axes, 0 < x.1 := axes_pos_of_prod_pos hP
    rw [grid_eq_traj]
    rw [List.perm_ext_iff_of_nodup (nodup_traj _) (nodup_traj _)]
    intro t
    rw [mem_traj axes hpos, mem_traj _ (by intro x hx; rw [List.mem_map] at hx; obtain ⟨y, hy, rfl⟩ := hx; exact pos_of_prod_pos hP y hy)]
    simp [Function.comp_def]


theorem succ_mod_cases (m L : Nat) (hL : 0 < L) :
    (L ∣ m + 1 ∧ m % L = L - 1 ∧ (m + 1) % L = 0 ∧ (m + 1) / L = m / L + 1) ∨
    (¬ L ∣ m + 1 ∧ (m + 1) % L = m % L + 1 ∧ (m + 1) / L = m / L) := by
  have hb : m % L < L := Nat.mod_lt _ hL
  have hm : (m + 1) % L = (m % L + 1) % L := by
    conv => lhs; rw [← Nat.div_add_mod m L, Nat.add_assoc, Nat.mul_add_mod]
  by_cases hd : L ∣ m + 1
  · left
    have h0 : (m + 1) % L = 0 := Nat.mod_eq_zero_of_dvd hd
    refine ⟨hd, ?_, h0, by rw [Nat.succ_div, if_pos hd]⟩
    rw [hm] at h0
    by_cases hlt : m % L + 1 < L
    · rw [Nat.mod_eq_of_lt hlt] at h0; omega
    · omega
  · right
    have h0 : (m + 1) % L ≠ 0 := fun h => hd (Nat.dvd_of_mod_eq_zero h)
    refine ⟨hd, ?_, by rw [Nat.succ_div, if_neg hd]; rfl⟩
    rw [hm] at h0 ⊢
    by_cases hlt : m % L + 1 < L
    · exact Nat.mod_eq_of_lt hlt
    · have : m % L + 1 = L := by omega
      rw [this, Nat.mod_self] at h0; exact absurd rfl h0


/-- `idxAt` through the quotient `m = p / R` -/
theorem idxAt_eq_mirror' (L R : Nat) (s : Bool) (p : Nat) :
    idxAt L R s p = mirror L (s && (p / R / L) % 2 == 1) (p / R % L) := by
  simp [idxAt, mirror, Nat.div_div_eq_div_mul, Nat.mul_comm R L]


theorem mirror_flip (L : Nat) (c : Nat) :
    mirror L (c % 2 == 1) (L - 1) = mirror L ((c + 1) % 2 == 1) 0 := by
  unfold mirror
  rcases Nat.mod_two_eq_zero_or_one c with h | h
  · have : (c + 1) % 2 = 1 := by omega
    simp [h, this]
  · have : (c + 1) % 2 = 0 := by omega
    simp [h, this]

theorem wrapStep_idxs (axes : List (Nat × Bool)) (hpos : ∀ x ∈ axes, 0 < x.1) (p : Nat)
    (h : (p + 1) % prod (axes.map (·.1)) = 0) : WrapStep axes (idxs axes p) (idxs axes (p + 1)) := by
  induction axes with
  | nil => simp [idxs, WrapStep]
  | cons x rest ih =>
    obtain ⟨L, s⟩ := x
    have hL : 0 < L := hpos (L, s) (by simp)
    simp only [List.map_cons, prod] at h
    simp only [idxs, WrapStep]
    generalize hR : prod (rest.map (·.1)) = R at *
    have hd : L * R ∣ p + 1 := Nat.dvd_of_mod_eq_zero h
    have hdR : R ∣ p + 1 := Nat.dvd_trans (Nat.dvd_mul_left R L) hd
    have hR0 : 0 < R := by
      rcases Nat.eq_zero_or_pos R with h0 | h0
      · subst h0; simp at hdR
      · exact h0
    refine ⟨?_, ih (fun y hy => hpos y (by simp [hy])) (Nat.mod_eq_zero_of_dvd hdR)⟩
    have h1 : (p + 1) / R = p / R + 1 := by rw [Nat.succ_div, if_pos hdR]
    have hdL : L ∣ p / R + 1 := by
      rw [← h1]
      apply Nat.dvd_of_mul_dvd_mul_left hR0
      rw [Nat.mul_div_cancel' hdR, Nat.mul_comm]; exact hd
    rcases succ_mod_cases (p / R) L hL with ⟨_, h2, h3, h4⟩ | ⟨hn, _⟩
    · rw [idxAt_eq_mirror', idxAt_eq_mirror', h1, h2, h3, h4]
      cases s with
      | false => simp [mirror]
      | true => simp only [Bool.true_and, if_true]; exact (mirror_flip L _).symm
    · exact absurd hdL hn


theorem adjStep_idxs (axes : List (Nat × Bool)) (hpos : ∀ x ∈ axes, 0 < x.1) (p : Nat)
    (h : (p + 1) % prod (axes.map (·.1)) ≠ 0) : AdjStep axes (idxs axes p) (idxs axes (p + 1)) := by
  induction axes with
  | nil => simp [prod, Nat.mod_one] at h
  | cons x rest ih =>
    obtain ⟨L, s⟩ := x
    have hL : 0 < L := hpos (L, s) (by simp)
    have hpos' : ∀ y ∈ rest, 0 < y.1 := fun y hy => hpos y (by simp [hy])
    simp only [List.map_cons, prod] at h
    simp only [idxs, AdjStep]
    generalize hR : prod (rest.map (·.1)) = R at *
    have hnd : ¬ L * R ∣ p + 1 := fun hd => h (Nat.mod_eq_zero_of_dvd hd)
    by_cases hdR : R ∣ p + 1
    · -- this axis moves, everything faster wraps
      left
      have hR0 : 0 < R := by
        rcases Nat.eq_zero_or_pos R with h0 | h0
        · subst h0; simp at hdR
        · exact h0
      have h1 : (p + 1) / R = p / R + 1 := by rw [Nat.succ_div, if_pos hdR]
      have hndL : ¬ L ∣ p / R + 1 := by
        intro hd
        apply hnd
        rw [← h1] at hd
        rw [← Nat.mul_div_cancel' hdR, Nat.mul_comm L R]
        exact Nat.mul_dvd_mul_left R hd
      refine ⟨?_, wrapStep_idxs rest hpos' p (by rw [hR]; exact Nat.mod_eq_zero_of_dvd hdR)⟩
      rcases succ_mod_cases (p / R) L hL with ⟨hd, _⟩ | ⟨_, h3, h4⟩
      · exact absurd hd hndL
      · rw [idxAt_eq_mirror', idxAt_eq_mirror', h1, h3, h4]
        have hlt : p / R % L + 1 < L := by rw [← h3]; exact Nat.mod_lt _ hL
        unfold mirror
        split <;> omega
    · -- this axis and everything slower stays, recurse
      right
      have h1 : (p + 1) / R = p / R := by rw [Nat.succ_div, if_neg hdR]; rfl
      refine ⟨by rw [idxAt_eq_mirror', idxAt_eq_mirror', h1], ih hpos' ?_⟩
      exact fun h0 => hdR (Nat.dvd_of_mod_eq_zero h0)


theorem length_idxs (axes : List (Nat × Bool)) (p : Nat) : (idxs axes p).length = axes.length := by
  induction axes with
  | nil => simp [idxs]
  | cons x rest ih => obtain ⟨L, s⟩ := x; simp [idxs, ih]

theorem idxs_append (a b : List (Nat × Bool)) (p : Nat) :
    idxs (a ++ b) p = idxs a (p / prod (b.map (·.1))) ++ idxs b p := by
  induction a with
  | nil => simp [idxs]
  | cons x rest ih =>
    obtain ⟨L, s⟩ := x
    simp only [List.cons_append, idxs, ih, List.map_append, prod_append, List.cons.injEq, and_true]
    simp only [idxAt, Nat.div_div_eq_div_mul]
    rw [Nat.mul_comm (prod (List.map (fun x => x.fst) rest)), ← Nat.mul_assoc,
      Nat.mul_comm L (prod (List.map (fun x => x.fst) b)), Nat.mul_assoc]

theorem idxs_take (axes : List (Nat × Bool)) (i p : Nat) :
    (idxs axes p).take i = idxs (axes.take i) (p / prod ((axes.drop i).map (·.1))) := by
  rcases Nat.le_total i axes.length with hi | hi
  · conv => lhs; rw [← List.take_append_drop i axes, idxs_append]
    rw [List.take_left' (by rw [length_idxs, List.length_take]; omega)]
  · rw [List.take_of_length_le (by rw [length_idxs]; exact hi), List.take_of_length_le hi,
      List.drop_eq_nil_of_le hi]
    simp [prod]


theorem getElem?_idxs (axes : List (Nat × Bool)) (i : Nat) (L : Nat) (s : Bool) (p : Nat)
    (h : axes[i]? = some (L, s)) :
    (idxs axes p)[i]? = some (idxAt L (prod ((axes.drop (i + 1)).map (·.1))) s p) := by
  induction axes generalizing i with
  | nil => simp at h
  | cons x rest ih =>
    obtain ⟨L', s'⟩ := x
    cases i with
    | zero => simp at h; obtain ⟨rfl, rfl⟩ := h; simp [idxs]
    | succ i => simp at h; simp [idxs, ih i h]

theorem prod_drop (Ls : List Nat) (i L : Nat) (h : Ls[i]? = some L) :
    prod (Ls.drop i) = L * prod (Ls.drop (i + 1)) := by
  induction Ls generalizing i with
  | nil => simp at h
  | cons x rest ih =>
    cases i with
    | zero => simp at h; subst h; simp [prod]
    | succ i => simp at h; simpa using ih i h

theorem prod_take_drop (Ls : List Nat) (i : Nat) : prod (Ls.take i) * prod (Ls.drop i) = prod Ls := by
  rw [← prod_append, List.take_append_drop]

theorem wrapStep_allSnaked (axes : List (Nat × Bool)) (hs : ∀ x ∈ axes, x.2 = true) (t t' : List Nat)
    (h : WrapStep axes t t') : t' = t := by
  induction axes generalizing t t' with
  | nil =>
    cases t <;> cases t' <;> simp [WrapStep] at h ⊢
  | cons x rest ih =>
    obtain ⟨L, s⟩ := x
    have : s = true := hs (L, s) (by simp)
    subst this
    cases t with
    | nil => simp [WrapStep] at h
    | cons a t =>
      cases t' with
      | nil => simp [WrapStep] at h
      | cons a' t' =>
        simp only [WrapStep, if_true] at h
        rw [h.1, ih (fun y hy => hs y (by simp [hy])) t t' h.2]

theorem oneStep_of_adjStep (axes : List (Nat × Bool)) (hs : ∀ x ∈ axes.drop 1, x.2 = true)
    (t t' : List Nat) (h : AdjStep axes t t') : OneStep t t' := by
  induction axes generalizing t t' with
  | nil => simp [AdjStep] at h
  | cons x rest ih =>
    obtain ⟨L, s⟩ := x
    simp only [List.drop_succ_cons, List.drop_zero] at hs
    cases t with
    | nil => simp [AdjStep] at h
    | cons a t =>
      cases t' with
      | nil => simp [AdjStep] at h
      | cons a' t' =>
        simp only [AdjStep] at h
        simp only [OneStep]
        rcases h with ⟨h1, h2⟩ | ⟨h1, h2⟩
        · left; exact ⟨h1, wrapStep_allSnaked rest hs t t' h2⟩
        · right
          refine ⟨h1, ih ?_ t t' h2⟩
          intro y hy
          exact hs y (List.mem_of_mem_drop hy)

theorem slowerAdvances_eq (axes : List (Nat × Bool)) (i p : Nat)
    (hp : p < prod (axes.map (·.1))) :
    slowerAdvances axes i p = p / prod ((axes.drop i).map (·.1)) := by
  have hpos : ∀ x ∈ axes, 0 < x.1 := axes_pos_of_prod_pos (by omega)
  have hposT : ∀ x ∈ axes.take i, 0 < x.1 := fun x hx => hpos x (List.mem_of_mem_take hx)
  have hsplit := prod_take_drop (axes.map (·.1)) i
  rw [← List.map_take, ← List.map_drop] at hsplit
  generalize hP : prod ((axes.drop i).map (·.1)) = P at *
  generalize hT : prod ((axes.take i).map (·.1)) = T at *
  have hP0 : 0 < P := by
    rcases Nat.eq_zero_or_pos P with h | h
    · subst h; simp at hsplit; omega
    · exact h
  unfold slowerAdvances
  induction p with
  | zero => simp
  | succ p ih =>
    have ih' := ih (by omega)
    rw [List.range_succ, List.filter_append, List.length_append, ih', Nat.succ_div]
    congr 1
    have hlt : ∀ q, q < T * P → q / P < T := fun q hq => (Nat.div_lt_iff_lt_mul hP0).mpr hq
    have key : ((idxs axes p).take i != (idxs axes (p + 1)).take i) = decide (P ∣ p + 1) := by
      rw [idxs_take, idxs_take, hP]
      by_cases hd : P ∣ p + 1
      · have h1 : (p + 1) / P = p / P + 1 := by rw [Nat.succ_div, if_pos hd]
        simp only [hd, decide_true, bne_iff_ne, ne_eq]
        intro heq
        have := idxs_inj (axes.take i) hposT _ _ (by
          rw [hT, Nat.div_eq_of_lt (hlt p (by omega)), Nat.div_eq_of_lt (hlt (p + 1) (by omega))]) heq
        omega
      · have h1 : (p + 1) / P = p / P := by rw [Nat.succ_div, if_neg hd]; rfl
        simp [hd, h1]
    simp only [List.filter_cons, List.filter_nil, key]
    by_cases hd : P ∣ p + 1 <;> simp [hd]

end BlueskyVerif.Pure.Snake
