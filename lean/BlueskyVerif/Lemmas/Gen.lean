/-
Lemmas/Gen.lean -- generic facts about generator objects whose behaviour is given by a state
machine (`Beh.ofMachine`), and the simulation argument used by the transparency theorems (C20):
a wrapper machine that, whenever it is suspended, holds the wrapped generator `q` in a state
related to `q` by `T`, and answers every input exactly like `q` does, is observationally equal
to the wrapped plan on every script of sends / allowed throws optionally ended by `close`.
-/
import BlueskyVerif.Gen.YieldFrom

namespace BlueskyVerif.Gen
set_option linter.unusedSectionVars false

section
variable {M R V E σ : Type} [Inhabited R] [DecidableEq R] [Inhabited V] [PyExc E]

/-- the caller's view of a sequence of inputs, optionally followed by `close()` -/
def Cmd.ofInp : Inp R E → Cmd R E
  | .send r => .send r
  | .throw e => .throw e

/-- a script: sends / throws, optionally ended by `close` -/
def script (ins : List (Inp R E)) (closeAtEnd : Bool) : List (Cmd R E) :=
  ins.map Cmd.ofInp ++ (if closeAtEnd then [.close] else [])

/-- an invariant of the step function holds after every input history -/
theorem Machine.state_inv (step : σ → Inp R E → Out M V E × σ) (P : σ → Prop)
    (hstep : ∀ s i, P s → P (step s i).2) (init : σ) (h0 : P init) (hist : List (Inp R E)) :
    P (Machine.state step init hist) := by
  have key : ∀ (hist : List (Inp R E)) (acc : Out M V E × σ), P acc.2 →
      P (hist.foldl (fun acc i => step acc.2 i) acc).2 := by
    intro hist
    induction hist with
    | nil => intro acc h; exact h
    | cons i hist ih => intro acc h; exact ih _ (hstep _ i h)
  exact key hist _ h0

/-- a generator object running the machine `step` -/
def mpos (step : σ → Inp R E → Out M V E × σ) (init : σ) (h : List (Inp R E)) (st : Status) :
    Pos M R V E := ⟨Beh.ofMachine step init, h, st⟩

theorem advance_mpos (step : σ → Inp R E → Out M V E × σ) (init : σ) (h : List (Inp R E))
    (st : Status) (i : Inp R E) :
    (mpos step init h st).advance i =
      ((step (Machine.state step init h) i).1,
       mpos step init (h ++ [i])
         (if (step (Machine.state step init h) i).1.isYld then .live else .dead)) := by
  simp [mpos, Pos.advance]

theorem new_ofMachine (step : σ → Inp R E → Out M V E × σ) (init : σ) :
    Pos.new (Beh.ofMachine step init) = mpos step init [] .fresh := rfl

/-- how `close()` classifies the answer to `throw GeneratorExit` -/
def closeObs : Out M V E → Option E
  | .yld _ => some PyExc.closeIgnored
  | .ret _ => none
  | .raise e => if isGenExit e then none else some e

theorem close_live (p : Pos M R V E) (h : p.status = .live) :
    p.close.1 = closeObs (p.advance (.throw PyExc.genExit)).1 := by
  unfold Pos.close
  rw [h]
  simp only
  generalize p.advance (.throw PyExc.genExit) = r
  obtain ⟨o, p'⟩ := r
  cases o <;> simp [closeObs]

theorem exec_send (p : Pos M R V E) (r : R) :
    p.exec (.send r) = ((p.resume (.send r)).1.toObs, (p.resume (.send r)).2) := rfl
theorem exec_throw (p : Pos M R V E) (e : E) :
    p.exec (.throw e) = ((p.resume (.throw e)).1.toObs, (p.resume (.throw e)).2) := rfl

theorem resume_live (p : Pos M R V E) (h : p.status = .live) (i : Inp R E) :
    p.resume i = p.advance i := by
  unfold Pos.resume; rw [h]

theorem advance_status (p : Pos M R V E) (i : Inp R E) :
    (p.advance i).2.status = if (p.advance i).1.isYld then .live else .dead := rfl

theorem resume_live_status (p : Pos M R V E) (h : p.status = .live) (i : Inp R E) :
    (p.resume i).2.status = if (p.resume i).1.isYld then .live else .dead := by
  rw [resume_live p h]; rfl

/-- the simulation relation between the wrapper generator object and the bare one -/
inductive SimRel (step : σ → Inp R E → Out M V E × σ) (init : σ) (p : Beh M R V E)
    (T : σ → Pos M R V E → Prop) : Pos M R V E → Pos M R V E → Prop where
  | fresh : SimRel step init p T (mpos step init [] .fresh) (Pos.new p)
  | live (h : List (Inp R E)) (q : Pos M R V E) (hq : q.status = .live)
      (hs : T (Machine.state step init h) q) : SimRel step init p T (mpos step init h .live) q
  | dead (w q : Pos M R V E) (hw : w.status = .dead) (hq : q.status = .dead) :
      SimRel step init p T w q

/-- hypotheses of the simulation argument -/
structure Simulates (step : σ → Inp R E → Out M V E × σ) (init : σ) (p : Beh M R V E)
    (T : σ → Pos M R V E → Prop) (okE : E → Prop) : Prop where
  /-- first `next`: the wrapper answers like the fresh plan and ends up holding it -/
  start : (step init (.send default)).1 = ((Pos.new p).resume (.send default)).1 ∧
    (((Pos.new p).resume (.send default)).1.isYld = true →
      T (step init (.send default)).2 ((Pos.new p).resume (.send default)).2)
  /-- every later allowed input: same answer, relation kept while the plan is alive -/
  next : ∀ s q i, T s q → q.status = .live → (∀ e, i = .throw e → okE e) →
    (step s i).1 = (q.resume i).1 ∧ ((q.resume i).1.isYld = true → T (step s i).2 (q.resume i).2)
  /-- `close()` is observed identically -/
  close : ∀ s q, T s q → q.status = .live →
    closeObs (step s (.throw PyExc.genExit)).1 = q.close.1

variable {step : σ → Inp R E → Out M V E × σ} {init : σ} {p : Beh M R V E}
  {T : σ → Pos M R V E → Prop} {okE : E → Prop}

theorem SimRel.resume (hsim : Simulates step init p T okE) {w q : Pos M R V E}
    (h : SimRel step init p T w q) (i : Inp R E) (hi : ∀ e, i = .throw e → okE e) :
    (w.resume i).1 = (q.resume i).1 ∧ SimRel step init p T (w.resume i).2 (q.resume i).2 := by
  cases h with
  | fresh =>
    cases i with
    | throw e => exact ⟨rfl, .dead _ _ rfl rfl⟩
    | send r =>
      by_cases hr : r = default
      · subst hr
        have h1 : (mpos step init [] .fresh).resume (.send default)
            = (mpos step init [] .fresh).advance (.send default) := by
          simp [Pos.resume, mpos]
        have h2 : (Pos.new p).resume (.send default) = (Pos.new p).advance (.send default) := by
          simp [Pos.resume, Pos.new]
        rw [h1, advance_mpos]
        obtain ⟨ha, hb⟩ := hsim.start
        simp only [Machine.state_nil, List.nil_append]
        refine ⟨ha, ?_⟩
        simp only [ha]
        cases hy : ((Pos.new p).resume (.send default)).1.isYld
        · refine .dead _ _ (by simp [mpos]) ?_
          rw [h2, advance_status, ← h2, hy]; simp
        · have := SimRel.live (step := step) (init := init) (p := p) (T := T)
            [Inp.send default] ((Pos.new p).resume (.send default)).2
            (by rw [h2, advance_status, ← h2, hy]; simp)
            (by simpa [Machine.state, Machine.fold] using hb hy)
          simpa using this
      · have h1 : (mpos step init [] .fresh).resume (.send r) =
            (.raise PyExc.sendFresh, mpos step init [] .fresh) := by
          simp [Pos.resume, mpos, hr]
        have h2 : (Pos.new p).resume (.send r) = (.raise PyExc.sendFresh, Pos.new p) := by
          simp [Pos.resume, Pos.new, hr]
        rw [h1, h2]; exact ⟨rfl, .fresh⟩
  | live h q hq hs =>
    have h1 : (mpos step init h .live).resume i = (mpos step init h .live).advance i :=
      resume_live _ rfl i
    rw [h1, advance_mpos]
    obtain ⟨ha, hb⟩ := hsim.next _ q i hs hq hi
    refine ⟨ha, ?_⟩
    simp only [ha]
    cases hy : (q.resume i).1.isYld
    · refine .dead _ _ (by simp [mpos]) ?_
      rw [resume_live_status q hq, hy]; simp
    · have := SimRel.live (step := step) (init := init) (p := p) (T := T) (h ++ [i])
        (q.resume i).2 (by rw [resume_live_status q hq, hy]; simp)
        (by simpa using hb hy)
      simpa using this
  | dead w q hw hq =>
    have h1 : ∀ x : Pos M R V E, x.status = .dead → x.resume i =
        ((match i with | .send _ => .ret default | .throw e => .raise e), x) := by
      intro x hx; unfold Pos.resume; rw [hx]; cases i <;> rfl
    rw [h1 w hw, h1 q hq]
    exact ⟨rfl, .dead _ _ hw hq⟩

theorem SimRel.close (hsim : Simulates step init p T okE) {w q : Pos M R V E}
    (h : SimRel step init p T w q) : w.close.1 = q.close.1 := by
  cases h with
  | fresh => rfl
  | live h q hq hs =>
    rw [close_live _ (by simp [mpos] : (mpos step init h .live).status = .live), advance_mpos]
    exact hsim.close _ q hs hq
  | dead w q hw hq => simp [Pos.close, hw, hq]

theorem exec_close_obs (p : Pos M R V E) :
    (p.exec .close).1 = (match p.close.1 with | none => .closed | some e => .raise e) := by
  unfold Pos.exec
  generalize p.close = r
  obtain ⟨o, p'⟩ := r
  cases o <;> rfl

/-- **Simulation theorem**: same observations on every script of sends / allowed throws,
    optionally ended by `close`. -/
theorem SimRel.run_eq (hsim : Simulates step init p T okE) (ins : List (Inp R E))
    (closeAtEnd : Bool) (hok : ∀ e, Inp.throw e ∈ ins → okE e) :
    ∀ {w q : Pos M R V E}, SimRel step init p T w q →
      w.run (script ins closeAtEnd) = q.run (script ins closeAtEnd) := by
  induction ins with
  | nil =>
    intro w q h
    cases closeAtEnd
    · rfl
    · simp [script, Pos.run, exec_close_obs, h.close hsim]
  | cons i ins ih =>
    intro w q h
    have hi : ∀ e, i = .throw e → okE e := fun e he => hok e (by simp [he])
    obtain ⟨h1, h2⟩ := h.resume hsim i hi
    have ih' := ih (fun e he => hok e (List.mem_cons_of_mem _ he)) h2
    cases i with
    | send r =>
      simp only [script, List.map_cons, List.cons_append, Cmd.ofInp, Pos.run, exec_send] at ih' ⊢
      rw [h1]; exact congrArg _ ih'
    | throw e =>
      simp only [script, List.map_cons, List.cons_append, Cmd.ofInp, Pos.run, exec_throw] at ih' ⊢
      rw [h1]; exact congrArg _ ih'

theorem resume_beh (q : Pos M R V E) (i : Inp R E) : (q.resume i).2.beh = q.beh := by
  unfold Pos.resume
  cases q.status <;> cases i <;> simp [Pos.advance] <;> split <;> rfl

/-- Extend a simulation to more thrown exceptions `okE'` for which the wrapped plan (whose
    behaviour is known to be `p`) and the wrapper both answer without yielding, identically. -/
theorem Simulates.extend (hsim : Simulates step init p T okE) (okE' : E → Prop)
    (h : ∀ s q e, T s q → q.status = .live → q.beh = p → okE' e → ¬ okE e →
      (step s (.throw e)).1 = (q.resume (.throw e)).1 ∧ (q.resume (.throw e)).1.isYld = false) :
    Simulates step init p (fun s q => T s q ∧ q.beh = p) (fun e => okE e ∨ okE' e) where
  start := ⟨hsim.start.1, fun hy => ⟨hsim.start.2 hy, by rw [resume_beh]; rfl⟩⟩
  next := by
    intro s q i hT hq hi
    have hb : (q.resume i).2.beh = p := by rw [resume_beh]; exact hT.2
    cases i with
    | send r =>
      obtain ⟨h1, h2⟩ := hsim.next s q (.send r) hT.1 hq (by intro e he; cases he)
      exact ⟨h1, fun hy => ⟨h2 hy, hb⟩⟩
    | throw e =>
      by_cases hok : okE e
      · obtain ⟨h1, h2⟩ := hsim.next s q (.throw e) hT.1 hq
          (by intro e' he; cases he; exact hok)
        exact ⟨h1, fun hy => ⟨h2 hy, hb⟩⟩
      · have hok' : okE' e := (hi e rfl).resolve_left hok
        obtain ⟨h1, h2⟩ := h s q e hT.1 hq hT.2 hok' hok
        exact ⟨h1, fun hy => by rw [h2] at hy; cases hy⟩
  close := fun s q hT hq => hsim.close s q hT.1 hq

/-- ... stated for behaviours -/
theorem sim_run_eq (hsim : Simulates step init p T okE) (ins : List (Inp R E))
    (closeAtEnd : Bool) (hok : ∀ e, Inp.throw e ∈ ins → okE e) :
    run (Beh.ofMachine step init) (script ins closeAtEnd) = run p (script ins closeAtEnd) :=
  SimRel.run_eq hsim ins closeAtEnd hok .fresh

end
end BlueskyVerif.Gen
