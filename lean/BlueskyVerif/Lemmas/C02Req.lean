/-
C02 helper lemmas, part 6: what abort()/stop()/halt() store and leave for `_run`; the result of the
task; the entry points `RE(...)`, `resume()`, `abort()/stop()/halt()` from paused establish `Res`.
-/
import BlueskyVerif.Lemmas.C02Sched
import BlueskyVerif.Lemmas.C02Docs

namespace BlueskyVerif.Engine

theorem setState_keep2 {s s' : EState} {n : St} (h : setState s n = .ok s') :
    s'.exceptionSlot = s.exceptionSlot ∧ s'.cancelPending = s.cancelPending ∧ s'.reason = s.reason ∧
    s'.refused = s.refused ∧ s'.docs = s.docs := by
  unfold setState at h; split at h
  · cases h; exact ⟨rfl, rfl, rfl, rfl, rfl⟩
  · cases h

theorem termPrep_fields (s : EState) (k r : String) :
    (termPrep s k r).state = s.state ∧ (termPrep s k r).interrupted = true ∧
    (termPrep s k r).reason = (if k == "abort" then r else s.reason) ∧
    (termPrep s k r).exitStatus = (if k == "abort" then (termTarget k).2.2.getD s.exitStatus else s.exitStatus) ∧
    (termPrep s k r).exceptionSlot = s.exceptionSlot ∧ (termPrep s k r).cancelPending = s.cancelPending := by
  unfold termPrep
  simp only []
  split <;> exact ⟨rfl, rfl, rfl, rfl, rfl, rfl⟩

theorem termAfter_fields (s : EState) (k : String) (w : Bool) :
    (termAfter s k w).state = s.state ∧ (termAfter s k w).interrupted = s.interrupted ∧
    (termAfter s k w).reason = s.reason ∧
    (termAfter s k w).exitStatus = (if w && k == "halt" then (termTarget k).2.2.getD s.exitStatus else s.exitStatus) ∧
    (w = true → (termAfter s k w).exceptionSlot = some (termTarget k).2.1 ∧ (termAfter s k w).cancelPending = s.cancelPending) ∧
    (w = false → (termAfter s k w).cancelPending = true ∧ (termAfter s k w).exceptionSlot = s.exceptionSlot) := by
  unfold termAfter
  cases w
  · simp
  · simp only [if_true]
    split
    · rename_i hk; simp [hk]
    · rename_i hk; simp [hk]

/-- an accepted abort()/stop()/halt(): everything the request coroutine stores -/
theorem requestTerminate_accepted (s : EState) (k r : String) (hi : s.state ≠ .idle)
    (ht : (Src.transitions s.state).contains (termTarget k).1 = true) :
    (requestTerminate s k r).state = (termTarget k).1 ∧ (requestTerminate s k r).interrupted = true ∧
    (requestTerminate s k r).reason = (if k == "abort" then r else s.reason) ∧
    (requestTerminate s k r).exitStatus =
      (if k == "abort" then (termTarget k).2.2.getD s.exitStatus
       else if s.state == .paused && k == "halt" then (termTarget k).2.2.getD s.exitStatus else s.exitStatus) ∧
    (s.state = .paused → (requestTerminate s k r).exceptionSlot = some (termTarget k).2.1 ∧
        (requestTerminate s k r).cancelPending = s.cancelPending) ∧
    (s.state ≠ .paused → (requestTerminate s k r).cancelPending = true ∧
        (requestTerminate s k r).exceptionSlot = s.exceptionSlot) := by
  have hidle : (s.state == .idle) = false := by simpa using hi
  obtain ⟨p1, p2, p3, p4, p5, p6⟩ := termPrep_fields s k r
  obtain ⟨s1, hs1⟩ := setState_ok_of (s := termPrep s k r) (n := (termTarget k).1) (by rw [p1]; exact ht)
  obtain ⟨k1, k2, _, _, _, k6, _⟩ := setState_keep hs1
  obtain ⟨j1, j2, j3, _⟩ := setState_keep2 hs1
  obtain ⟨a1, a2, a3, a4, a5, a6⟩ := termAfter_fields s1 k (s.state == .paused)
  have hrt : requestTerminate s k r = termAfter s1 k (s.state == .paused) := by
    simp only [requestTerminate, hidle, Bool.false_eq_true, if_false, hs1]
  rw [hrt]
  refine ⟨a1.trans k1, a2.trans (k2.trans p2), a3.trans (j3.trans p3), ?_, ?_, ?_⟩
  · rw [a4, k6, p4]
    by_cases ka : k = "abort"
    · subst ka; simp
    · simp [ka]
  · intro hp
    have hp' : (s.state == .paused) = true := by simpa using hp
    obtain ⟨b1, b2⟩ := a5 hp'
    exact ⟨b1, b2.trans (j2.trans p6)⟩
  · intro hp
    have hp' : (s.state == .paused) = false := by simpa using hp
    obtain ⟨b1, b2⟩ := a6 hp'
    exact ⟨b1, b2.trans (j1.trans p5)⟩

/-- a refused abort()/stop()/halt() (TransitionError) records nothing but the refusal: the state assignment is the
    first thing the request coroutines do -/
theorem requestTerminate_refused (s : EState) (k r : String) (hi : s.state ≠ .idle)
    (ht : (Src.transitions s.state).contains (termTarget k).1 = false) :
    requestTerminate s k r = refuse s k := by
  have hidle : (s.state == .idle) = false := by simpa using hi
  have p1 := (termPrep_fields s k r).1
  have : setState (termPrep s k r) (termTarget k).1 = .error .transitionError := by
    unfold setState
    rw [dif_neg (by rw [p1, ht]; exact Bool.false_ne_true)]
  simp only [requestTerminate, hidle, Bool.false_eq_true, if_false, this]

/-- the CancelledError handler turns the cancellation of an abort()/stop()/halt() into the control
    exception of the GENERATED `exception_map` -/
theorem hCancel_control (s : EState) (r : Resp) (e : Exc) (h : Src.cancelMap s.state = some e)
    (hs : s.stashed = none) : hCancel s r = .loopTop (fin { s with stashed := some e } r) := by
  have hnp : (s.state == .pausing) = false := by
    cases hst : s.state <;> rw [hst] at h <;> first | rfl | (simp [Src.cancelMap] at h)
  unfold hCancel
  simp only [hnp, Bool.false_eq_true, if_false, h]
  simp [hs]

/-! ### the result of the task -/

theorem cleanup_keep (x : EState) :
    (cleanup x).exitExc = x.exitExc ∧ (cleanup x).stashed = x.stashed ∧ (cleanup x).exitStatus = x.exitStatus ∧
    (cleanup x).interrupted = x.interrupted := by
  have hc := cleanupBody_ctl x
  unfold cleanup
  simp only []
  split
  · rename_i s' hs
    obtain ⟨_, k2, _, _, k5, k6, _, _, k9, _⟩ := setState_keep hs
    exact ⟨k5.trans (congrArg Ctl.exitExc hc), k9.trans (congrArg Ctl.stashed hc), k6.trans (congrArg Ctl.exitStatus hc),
      k2.trans (congrArg Ctl.interrupted hc)⟩
  · exact ⟨congrArg Ctl.exitExc hc, congrArg Ctl.stashed hc, congrArg Ctl.exitStatus hc, congrArg Ctl.interrupted hc⟩

/-- `_run` returns for the classes whose handler swallows the exception and re-raises the exception
    itself otherwise (`raise err`); GeneratorExit becomes ValueError (`raise ValueError from err`) -/
theorem finishTask_result (s : EState) (e : Exc) (hc : s.cleanupExc = none) (he : s.exitExc = some e)
    (hs : s.stashed ≠ some .cancelled) :
    (finishTask s).taskResult =
      (if e = .genExit then .raised .valueError else if e.sleeper then .returned else .raised e) := by
  unfold finishTask
  simp only [hc, he]
  have hs' : (s.stashed == some Exc.cancelled) = false := by simpa using hs
  cases e <;> simp [hs', Exc.sleeper]

/-! ### entry points -/

theorem startCall_res (s0 : EState) (plan : Gen) (h : s0.state = .idle) : Res (startCall s0 plan) := by
  refine ⟨?_, ?_, ?_, ?_⟩
  · intro hp
    have : s0.state = .pausing := hp
    rw [h] at this; cases this
  · intro hp; cases hp
  · intro hp; cases hp
  · intro hb; cases hb

theorem startResume_same (s : EState) : (startResume s).state = s.state ∧ (startResume s).pc = s.pc ∧
    (startResume s).blockingEvent = false := by
  unfold startResume
  simp only []
  refine ⟨?_, ?_, trivial⟩
  · show (resumeHooks _).state = s.state
    rw [st_resumeHooks]
    show (rewindPlan _).2.state = s.state
    rw [st_rewindPlan, st_forBundlers_ri]
  · show (resumeHooks _).pc = s.pc
    rw [pc_resumeHooks]
    show (rewindPlan _).2.pc = s.pc
    rw [pc_rewindPlan, pc_forBundlers_ri]

theorem startResume_res (s : EState) (hs : s.state = .paused) (hp : s.pc = .pausedWait) : Res (startResume s) := by
  obtain ⟨k1, k2, k3⟩ := startResume_same s
  refine ⟨?_, ?_, ?_, ?_⟩
  · intro h; rw [k1, hs] at h; cases h
  · intro h; rw [k2, hp] at h; cases h
  · intro h; rw [k2, hp] at h; cases h
  · intro h; rw [k3] at h; cases h

theorem startTerminate_res (s : EState) (kind : String) (hs : s.state = .paused) (hp : s.pc = .pausedWait) :
    Res (startTerminate s kind) := by
  have k := requestTerminate_act s kind ""
  have hq : Q s := by intro h; rw [hs] at h; cases h
  have hpc : (startTerminate s kind).pc = .pausedWait := k.1.trans hp
  refine ⟨?_, ?_, ?_, ?_⟩
  · exact k.2.2.2.2.1 hq
  · intro h; rw [hpc] at h; cases h
  · intro h; rw [hpc] at h; cases h
  · intro hb; cases hb

end BlueskyVerif.Engine
