/-
C02 helper lemmas, part 5: the documents written by the outer `finally` of `_run` (`cleanupBody`):
exactly one RunStop per run that is still open, carrying the stored exit status and the reason
"exception text if any, else the abort reason"; nothing else is emitted; no bundler survives.
-/
import BlueskyVerif.Lemmas.C02Core

namespace BlueskyVerif.Engine

theorem foldl_proj {α β} (π : EState → β) (f : EState → α → EState) (h : ∀ s a, π (f s a) = π s)
    (l : List α) (s : EState) : π (l.foldl f s) = π s := by
  induction l generalizing s with
  | nil => rfl
  | cons a l ih => rw [List.foldl_cons, ih, h]

/-- the part of the state the closing loop reads and writes -/
structure DB where
  docs : List Doc
  bundlers : List (String × Bundler)
  exitStatus : ExitStatus

def db (s : EState) : DB := { docs := s.docs, bundlers := s.bundlers, exitStatus := s.exitStatus }

theorem stopMovables_db (s : EState) : db (stopMovables s) = db s := by
  unfold stopMovables
  apply foldl_proj db
  intro s a; rfl

theorem suspendMonitors_db (s : EState) (b : Bundler) : db (suspendMonitors s b).1 = db s := by
  unfold suspendMonitors
  apply foldl_proj db
  intro s a; rfl

theorem clearMonitors_db (s : EState) (b : Bundler) : db (clearMonitors s b).1 = db s := by
  unfold clearMonitors; exact suspendMonitors_db s b

theorem clearMonitors_snd (s : EState) (b : Bundler) : (clearMonitors s b).2 = { b with monitors := [] } := rfl

/-- run ids of the bundlers whose run is open, in insertion order -/
def openIds (l : List (String × Bundler)) : List Nat := (l.filter (·.2.runOpen)).map (·.2.runId)

theorem openIds_append (a b : List (String × Bundler)) : openIds (a ++ b) = openIds a ++ openIds b := by
  simp [openIds]

theorem openIds_cons (k : String) (b : Bundler) (l : List (String × Bundler)) :
    openIds ((k, b) :: l) = if b.runOpen then b.runId :: openIds l else openIds l := by
  simp only [openIds, List.filter_cons]
  split <;> simp

/-- a loop over the bundlers that emits nothing and keeps run ids / openness -/
theorem forBundlers_go_quiet (f : EState → Bundler → EState × Bundler)
    (hd : ∀ s b, (f s b).1.docs = s.docs) (he : ∀ s b, (f s b).1.exitStatus = s.exitStatus)
    (hb : ∀ s b, (f s b).2.runId = b.runId ∧ (f s b).2.runOpen = b.runOpen)
    (todo done : List (String × Bundler)) (s : EState) :
    (forBundlers.go f s todo done).docs = s.docs ∧ (forBundlers.go f s todo done).exitStatus = s.exitStatus ∧
    openIds (forBundlers.go f s todo done).bundlers = openIds (done.reverse ++ todo) := by
  induction todo generalizing s done with
  | nil => simp [forBundlers.go]
  | cons kb rest ih =>
    obtain ⟨k, b⟩ := kb
    unfold forBundlers.go
    simp only []
    obtain ⟨i1, i2, i3⟩ := ih ((k, (f s b).2) :: done) (f s b).1
    refine ⟨i1.trans (hd s b), i2.trans (he s b), ?_⟩
    rw [i3]
    simp only [List.reverse_cons, List.append_assoc, List.singleton_append, openIds_append, openIds_cons,
      (hb s b).1, (hb s b).2]

/-- the RunStop written by `RunBundler.close_run` -/
def stopDoc (b : Bundler) (e r : String) : Doc :=
  { kind := "stop", run := b.runId, exit := e, reason := r, numEvents := b.seq.map (fun (k, v) => (k, v - 1)) }

theorem closeRunDoc_docs (s : EState) (b : Bundler) (e r : String) :
    (closeRunDoc s b e r).1.docs = s.docs ++ [stopDoc b e r] := by
  unfold closeRunDoc
  simp only []
  show (clearMonitors s b).1.docs ++ _ = _
  rw [show (clearMonitors s b).1.docs = s.docs from congrArg DB.docs (clearMonitors_db s b)]
  rfl

/-- what the closing loop of the outer `finally` does with one bundler -/
def closing (reason : String) (s : EState) (b : Bundler) : EState × Bundler :=
  if b.runOpen then closeRunDoc s b s.exitStatus.name reason else (s, b)

/-- the closing loop: one RunStop per open run with the CURRENT exit status, in insertion order -/
theorem closing_go (reason : String) (todo done : List (String × Bundler)) (s : EState) :
    ∃ ds, (forBundlers.go (closing reason) s todo done).docs = s.docs ++ ds ∧
      (∀ d ∈ ds, d.kind = "stop" ∧ d.exit = s.exitStatus.name ∧ d.reason = reason) ∧
      ds.map (·.run) = openIds todo := by
  induction todo generalizing s done with
  | nil => exact ⟨[], by simp [forBundlers.go], by simp, rfl⟩
  | cons kb rest ih =>
    obtain ⟨k, b⟩ := kb
    unfold forBundlers.go
    simp only []
    by_cases ho : b.runOpen = true
    · have hcl : closing reason s b = closeRunDoc s b s.exitStatus.name reason := by simp [closing, ho]
      rw [hcl]
      have hd := closeRunDoc_docs s b s.exitStatus.name reason
      have hes : (closeRunDoc s b s.exitStatus.name reason).1.exitStatus = s.exitStatus :=
        congrArg Ctl.exitStatus (ctl_closeRunDoc s b s.exitStatus.name reason)
      obtain ⟨ds, h1, h2, h3⟩ := ih ((k, (closeRunDoc s b s.exitStatus.name reason).2) :: done)
        (closeRunDoc s b s.exitStatus.name reason).1
      refine ⟨stopDoc b s.exitStatus.name reason :: ds, ?_, ?_, ?_⟩
      · rw [h1, hd, List.append_assoc]; rfl
      · intro x hx
        rcases List.mem_cons.mp hx with hx | hx
        · subst hx; exact ⟨rfl, rfl, rfl⟩
        · have := h2 x hx; rw [hes] at this; exact this
      · rw [openIds_cons, if_pos ho, List.map_cons, h3]; rfl
    · have ho' : b.runOpen = false := by simpa using ho
      have hcl : closing reason s b = (s, b) := by simp [closing, ho']
      rw [hcl]
      obtain ⟨ds, h1, h2, h3⟩ := ih ((k, b) :: done) s
      refine ⟨ds, h1, h2, ?_⟩
      rw [openIds_cons, ho']; exact h3

theorem closeGen_keep (s : EState) (g : Gen) :
    (closeGen s g).docs = s.docs ∧ (closeGen s g).bundlers = s.bundlers := by
  unfold closeGen; split <;> exact ⟨rfl, rfl⟩

/-! ### the outer `finally`, stage by stage -/

def stage1 (s : EState) : EState := if Src.finallyStopsMovables then stopMovables s else s
def stage2 (s : EState) : EState := if Src.finallyClearsMonitors then forBundlers s clearMonitors else s
def stage3 (s : EState) : EState :=
  { (if Src.finallyUnstages then
      s.staged.foldl (fun s n => let (_, s) := nextMode s n "unstage"; s.logCall { dev := n, op := "unstage" }) s
     else s) with staged := [] }
def stage4 (reason : String) (s : EState) : EState :=
  if Src.finallyClosesRuns then forBundlers s (fun s b => if b.runOpen then closeRunDoc s b s.exitStatus.name reason else (s, b)) else s
def stage5 (s : EState) : EState := s.planStack.foldl closeGen { s with bundlers := [] }

theorem cleanupBody_eq (s : EState) :
    cleanupBody s = stage5 (stage4 (if s.exitReason == "" then s.reason else s.exitReason)
      (stage3 (stage2 (stage1 { s with pardon := true })))) := rfl

/-- `a` has the same documents, exit status and open runs as `b` -/
def Quiet (a b : EState) : Prop :=
  a.docs = b.docs ∧ a.exitStatus = b.exitStatus ∧ openIds a.bundlers = openIds b.bundlers

theorem Quiet.of_db {a b : EState} (h : db a = db b) : Quiet a b :=
  ⟨congrArg DB.docs h, congrArg DB.exitStatus h, congrArg (fun d => openIds d.bundlers) h⟩

theorem Quiet.trans {a b c : EState} (h1 : Quiet a b) (h2 : Quiet b c) : Quiet a c :=
  ⟨h1.1.trans h2.1, h1.2.1.trans h2.2.1, h1.2.2.trans h2.2.2⟩

theorem stage1_quiet (s : EState) : Quiet (stage1 s) s := by
  unfold stage1; split
  · exact Quiet.of_db (stopMovables_db s)
  · exact ⟨rfl, rfl, rfl⟩

theorem stage2_quiet (s : EState) : Quiet (stage2 s) s := by
  unfold stage2; split
  · obtain ⟨h1, h2, h3⟩ := forBundlers_go_quiet clearMonitors
      (fun s b => congrArg DB.docs (clearMonitors_db s b)) (fun s b => congrArg DB.exitStatus (clearMonitors_db s b))
      (fun s b => ⟨rfl, rfl⟩) s.bundlers [] s
    have h3' : openIds (forBundlers s clearMonitors).bundlers = openIds s.bundlers := by
      show openIds (forBundlers.go clearMonitors s s.bundlers []).bundlers = _
      simpa using h3
    exact ⟨h1, h2, h3'⟩
  · exact ⟨rfl, rfl, rfl⟩

theorem stage3_quiet (s : EState) : Quiet (stage3 s) s := by
  unfold stage3; split
  · have : db (s.staged.foldl (fun s n => let (_, s) := nextMode s n "unstage"; s.logCall { dev := n, op := "unstage" }) s) = db s := by
      apply foldl_proj db
      intro s a; rfl
    exact Quiet.of_db (a := { (s.staged.foldl (fun s n => let (_, s) := nextMode s n "unstage"; s.logCall { dev := n, op := "unstage" }) s) with staged := [] }) this
  · exact ⟨rfl, rfl, rfl⟩

theorem stage4_docs (reason : String) (s : EState) (hc : Src.finallyClosesRuns = true) :
    ∃ ds, (stage4 reason s).docs = s.docs ++ ds ∧
      (∀ d ∈ ds, d.kind = "stop" ∧ d.exit = s.exitStatus.name ∧ d.reason = reason) ∧
      ds.map (·.run) = openIds s.bundlers := by
  unfold stage4
  rw [if_pos hc]
  exact closing_go reason s.bundlers [] s

theorem stage5_keep (s : EState) : (stage5 s).docs = s.docs ∧ (stage5 s).bundlers = [] := by
  unfold stage5
  constructor
  · exact foldl_proj (fun s => s.docs) _ (fun s g => (closeGen_keep s g).1) _ _
  · exact foldl_proj (fun s => s.bundlers) _ (fun s g => (closeGen_keep s g).2) _ _

/-- the documents of the outer `finally` -/
theorem cleanupBody_docs (s : EState) (hc : Src.finallyClosesRuns = true) :
    ∃ ds, (cleanupBody s).docs = s.docs ++ ds ∧
      (∀ d ∈ ds, d.kind = "stop" ∧ d.exit = s.exitStatus.name ∧
        d.reason = (if s.exitReason == "" then s.reason else s.exitReason)) ∧
      ds.map (·.run) = openIds s.bundlers := by
  rw [cleanupBody_eq]
  have q : Quiet (stage3 (stage2 (stage1 { s with pardon := true }))) s :=
    (stage3_quiet _).trans ((stage2_quiet _).trans ((stage1_quiet _).trans ⟨rfl, rfl, rfl⟩))
  obtain ⟨ds, h1, h2, h3⟩ := stage4_docs (if s.exitReason == "" then s.reason else s.exitReason) _ hc
  refine ⟨ds, ?_, ?_, ?_⟩
  · rw [(stage5_keep _).1, h1, q.1]
  · intro d hd; have := h2 d hd; rw [q.2.1] at this; exact this
  · rw [h3, q.2.2]

theorem cleanupBody_bundlers (s : EState) : (cleanupBody s).bundlers = [] := by
  rw [cleanupBody_eq]; exact (stage5_keep _).2

/-- after the task has ended no bundler is left -/
theorem finish_bundlers (x : EState) : (finishTask (cleanup x)).bundlers = [] := by
  show (cleanup x).bundlers = []
  unfold cleanup
  simp only []
  split
  · rename_i s' hs
    exact (setState_keep hs).2.2.2.2.2.2.2.2.2.1.trans (cleanupBody_bundlers x)
  · exact cleanupBody_bundlers x

/-- ... and the documents / status of `cleanup` are those of `cleanupBody` -/
theorem cleanup_docs (x : EState) : (finishTask (cleanup x)).docs = (cleanupBody x).docs := by
  show (cleanup x).docs = _
  unfold cleanup
  simp only []
  split
  · rename_i s' hs
    unfold setState at hs; split at hs
    · cases hs; rfl
    · cases hs
  · rfl

/-! ### `planDone` through the outer `finally` -/

theorem forBundlers_go_proj {β} (π : EState → β) (f : EState → Bundler → EState × Bundler)
    (h : ∀ s b, π (f s b).1 = π s) (hb : ∀ (s : EState) l, π { s with bundlers := l } = π s)
    (todo done : List (String × Bundler)) (s : EState) : π (forBundlers.go f s todo done) = π s := by
  induction todo generalizing s done with
  | nil => exact hb s _
  | cons kb rest ih =>
    obtain ⟨k, b⟩ := kb
    unfold forBundlers.go
    simp only []
    rw [ih]; exact h s b

theorem forBundlers_proj {β} (π : EState → β) (f : EState → Bundler → EState × Bundler)
    (h : ∀ s b, π (f s b).1 = π s) (hb : ∀ (s : EState) l, π { s with bundlers := l } = π s)
    (s : EState) : π (forBundlers s f) = π s := forBundlers_go_proj π f h hb _ _ s

theorem clearMonitors_pd (s : EState) (b : Bundler) : (clearMonitors s b).1.planDone = s.planDone := by
  unfold clearMonitors suspendMonitors
  apply foldl_proj (fun s => s.planDone)
  intro s a; rfl

theorem closeRunDoc_pd (s : EState) (b : Bundler) (e r : String) : (closeRunDoc s b e r).1.planDone = s.planDone := by
  unfold closeRunDoc
  simp only []
  show (clearMonitors s b).1.planDone = _
  exact clearMonitors_pd s b

theorem cleanupBody_planDone (s : EState) : (cleanupBody s).planDone = s.planDone := by
  rw [cleanupBody_eq]
  have h5 : ∀ s, (stage5 s).planDone = s.planDone := by
    intro s; unfold stage5
    exact foldl_proj (fun s => s.planDone) _ (fun s g => by unfold closeGen; split <;> rfl) _ _
  have h4 : ∀ r s, (stage4 r s).planDone = s.planDone := by
    intro r s; unfold stage4; split
    · apply forBundlers_proj (fun s => s.planDone)
      · intro s b; split
        · exact closeRunDoc_pd s b _ _
        · rfl
      · intro s l; rfl
    · rfl
  have h3 : ∀ s, (stage3 s).planDone = s.planDone := by
    intro s; unfold stage3; split
    · show (List.foldl _ s s.staged).planDone = _
      apply foldl_proj (fun s => s.planDone)
      intro s a; rfl
    · rfl
  have h2 : ∀ s, (stage2 s).planDone = s.planDone := by
    intro s; unfold stage2; split
    · exact forBundlers_proj (fun s => s.planDone) _ clearMonitors_pd (fun _ _ => rfl) s
    · rfl
  have h1 : ∀ s, (stage1 s).planDone = s.planDone := by
    intro s; unfold stage1; split
    · unfold stopMovables
      apply foldl_proj (fun s => s.planDone)
      intro s a; rfl
    · rfl
  rw [h5, h4, h3, h2, h1]

theorem cleanup_planDone (x : EState) : (cleanup x).planDone = x.planDone := by
  unfold cleanup
  simp only []
  split
  · rename_i s' hs
    exact (setState_keep hs).2.2.2.2.2.2.1.trans (cleanupBody_planDone x)
  · exact cleanupBody_planDone x

end BlueskyVerif.Engine
