/-
C06 helper lemmas: no command other than set / stage / unstage touches `dv` (the staging / motion
bookkeeping and the set / stage / unstage entries of the ledger).
-/
import BlueskyVerif.Lemmas.C06Cleanup

namespace BlueskyVerif.Engine

@[simp] theorem dv_with_bundlers (s : EState) (x : List (String × Bundler)) : dv { s with bundlers := x } = dv s := rfl
@[simp] theorem dv_with_msgCache (s : EState) (x : Option (List Msg)) : dv { s with msgCache := x } = dv s := rfl
@[simp] theorem dv_with_stacks (s : EState) (x : List Gen) (y : List Resp) : dv { s with planStack := x, respStack := y } = dv s := rfl
@[simp] theorem dv_with_rewindable (s : EState) (x : Bool) : dv { s with rewindable := x } = dv s := rfl
@[simp] theorem dv_with_cancel (s : EState) (x : Bool) : dv { s with cancelPending := x } = dv s := rfl

/-- close a goal `dv (f ... s ...) = dv s` after unfolding `f` -/
macro "frame_dv" : tactic =>
  `(tactic| repeat' (first | rfl | (simp; done) | split | (simp only []; (first | rfl | split))))

theorem cmdStartSuspender_dv (s : EState) (m : Msg) : dv (cmdStartSuspender s m).1 = dv s := by
  unfold cmdStartSuspender
  split
  · rfl
  · simp only []
    show dv (rewindPlan _).2 = _
    simp

theorem cmdResumeFromSuspender_dv (s : EState) : dv (cmdResumeFromSuspender s).1 = dv s := by
  unfold cmdResumeFromSuspender; simp

theorem cmdCloseRun_dv (s : EState) (m : Msg) : dv (cmdCloseRun s m).1 = dv s := by
  unfold cmdCloseRun
  split
  · rfl
  · split
    · rfl
    · simp only []
      split
      · simp
      · simp

theorem cmdMonitor_dv (s : EState) (m : Msg) : dv (cmdMonitor s m).1 = dv s := by
  unfold cmdMonitor
  split
  · rfl
  · simp only []
    split
    · rfl
    · simp

theorem cmdUnmonitor_dv (s : EState) (m : Msg) : dv (cmdUnmonitor s m).1 = dv s := by
  unfold cmdUnmonitor
  split
  · rfl
  · simp only []
    split
    · rfl
    · simp

theorem cmdRead_dv (s : EState) (m : Msg) : dv (cmdRead s m).1 = dv s := by
  unfold cmdRead
  simp only []
  repeat' split
  all_goals (first | rfl | (simp; done))

theorem cmdTrigger_dv (s : EState) (m : Msg) : dv (cmdTrigger s m).1 = dv s := by
  unfold cmdTrigger
  simp only []
  split
  · simp
  · simp

/-- every command except set / stage / unstage leaves `_staged`, `_movable_objs_touched` and the
    set / stage / unstage part of the ledger exactly as they were -/
theorem runCommand_dv (s : EState) (m : Msg) (h1 : m.cmd ≠ "set") (h2 : m.cmd ≠ "stage") (h3 : m.cmd ≠ "unstage") :
    dv (runCommand s m).1 = dv s := by
  unfold runCommand
  split
  · unfold cmdOpenRun; frame_dv
  · exact cmdCloseRun_dv s m
  · unfold cmdCreate; frame_dv
  · exact cmdRead_dv s m
  · unfold cmdSave; frame_dv
  · unfold cmdDrop; frame_dv
  · unfold cmdCheckpoint; frame_dv
  · unfold cmdClearCheckpoint; frame_dv
  · unfold cmdRewindable; frame_dv
  · exact absurd ‹m.cmd = "set"› h1
  · exact cmdTrigger_dv s m
  · unfold cmdWait; frame_dv
  · rfl
  · exact absurd ‹m.cmd = "stage"› h2
  · exact absurd ‹m.cmd = "unstage"› h3
  · exact cmdMonitor_dv s m
  · exact cmdUnmonitor_dv s m
  · rfl
  · split
    · rename_i s' h; exact requestPause_dv h
    · rfl
  · exact cmdStartSuspender_dv s m
  · exact cmdResumeFromSuspender_dv s
  · unfold cmdWaitFor; frame_dv
  · rfl

end BlueskyVerif.Engine
