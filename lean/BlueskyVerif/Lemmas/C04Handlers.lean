/-
C04 helper: effect of every command handler on the checkpoint projection `ck`.
-/
import BlueskyVerif.Lemmas.C04Cmd

namespace BlueskyVerif.Engine

/-- close a frame goal `ck (f ... s ...) = ck s` after unfolding `f` -/
macro "frame_ck" : tactic =>
  `(tactic| repeat' (first | rfl | (simp; done) | split | (simp only []; (first | rfl | split))))

def Ck.clear (c : Ck) : Ck := { c with cache := none }

theorem ck_cmdOpenRun (s : EState) (m : Msg) : ck (cmdOpenRun s m).1 = ck s := by
  unfold cmdOpenRun; frame_ck

theorem ck_cmdCreate (s : EState) (m : Msg) : ck (cmdCreate s m).1 = ck s := by
  unfold cmdCreate; frame_ck

theorem ck_cmdRead (s : EState) (m : Msg) : ck (cmdRead s m).1 = ck s := by
  unfold cmdRead; frame_ck

theorem ck_cmdSave (s : EState) (m : Msg) : ck (cmdSave s m).1 = ck s := by
  unfold cmdSave; frame_ck

theorem ck_cmdDrop (s : EState) (m : Msg) : ck (cmdDrop s m).1 = ck s := by
  unfold cmdDrop; frame_ck

theorem ck_cmdSet (s : EState) (m : Msg) : ck (cmdSet s m).1 = ck s := by
  unfold cmdSet; frame_ck

theorem ck_cmdTrigger (s : EState) (m : Msg) : ck (cmdTrigger s m).1 = ck s := by
  unfold cmdTrigger; frame_ck

theorem ck_cmdWait (s : EState) (m : Msg) : ck (cmdWait s m).1 = ck s := by
  unfold cmdWait; frame_ck

theorem ck_cmdResumeFromSuspender (s : EState) : ck (cmdResumeFromSuspender s).1 = ck s := by
  unfold cmdResumeFromSuspender; simp

theorem ck_cmdWaitFor (s : EState) (m : Msg) : ck (cmdWaitFor s m).1 = ck s := by
  unfold cmdWaitFor; frame_ck

theorem ck_requestPause {s s' : EState} {d : Bool} (h : requestPause s d = .ok s') : ck s' = ck s := by
  unfold requestPause at h
  split at h
  · cases h
  · split at h
    · cases h; rfl
    · split at h
      · cases h
      · rename_i s1 hs
        cases h
        have := ck_setState hs
        have e : ∀ x : EState, ck { x with cancelPending := true } = ck x := fun _ => rfl
        rw [e, ck_forBundlers_ri, this]; rfl

/-! ### the (implicit) checkpoints -/

theorem closeRun_in_table : Src.resetsCheckpoint.contains "close_run" = true := by decide

/-- `close_run`: when it succeeds the cache is reset (fix F1; the flag comes from the GENERATED table) -/
theorem ck_cmdCloseRun (s : EState) (m : Msg) :
    ((cmdCloseRun s m).2.isRaised = true → ck (cmdCloseRun s m).1 = ck s) ∧
    ((cmdCloseRun s m).2.isRaised = false → ck (cmdCloseRun s m).1 = (ck s).reset) := by
  unfold cmdCloseRun
  split
  · exact ⟨fun _ => rfl, fun h => by simp [CmdOut.isRaised] at h⟩
  · split
    · exact ⟨fun _ => rfl, fun h => by simp [CmdOut.isRaised] at h⟩
    · simp only []
      refine ⟨fun h => by simp [CmdOut.isRaised] at h, fun _ => ?_⟩
      rw [if_pos closeRun_in_table, ck_resetCheckpointMeth]
      have e : ∀ (x : EState) (l : List (String × Bundler)), ck { x with bundlers := l } = ck x := fun _ _ => rfl
      rw [e, ck_closeRunDoc]

theorem ck_cmdCheckpoint (s : EState) :
    ((cmdCheckpoint s).2.isRaised = true → ck (cmdCheckpoint s).1 = ck s) ∧
    ((cmdCheckpoint s).2.isRaised = false → ck (cmdCheckpoint s).1 = (ck s).reset) := by
  unfold cmdCheckpoint
  split
  · exact ⟨fun _ => rfl, fun h => by simp [CmdOut.isRaised] at h⟩
  · simp only []
    split
    · exact ⟨fun h => by simp [CmdOut.isRaised] at h, fun _ => ck_resetCheckpointMeth s⟩
    · exact ⟨fun h => by simp [CmdOut.isRaised] at h, fun _ => ck_resetCheckpointMeth s⟩

theorem ck_cmdStage (s : EState) (m : Msg) (op : String) :
    ((cmdStage s m op).2.isRaised = true → ck (cmdStage s m op).1 = ck s) ∧
    ((cmdStage s m op).2.isRaised = false → ck (cmdStage s m op).1 = (ck s).reset) := by
  unfold cmdStage
  simp only []
  split
  · exact ⟨fun _ => rfl, fun h => by simp [CmdOut.isRaised] at h⟩
  · refine ⟨fun h => by simp [CmdOut.isRaised] at h, fun _ => ?_⟩
    rw [ck_resetCheckpointMeth]
    split
    · split <;> rfl
    · rfl

theorem ck_cmdMonitor (s : EState) (m : Msg) :
    ((cmdMonitor s m).2.isRaised = true → ck (cmdMonitor s m).1 = ck s) ∧
    ((cmdMonitor s m).2.isRaised = false → ck (cmdMonitor s m).1 = (ck s).reset) := by
  unfold cmdMonitor
  split
  · exact ⟨fun _ => rfl, fun h => by simp [CmdOut.isRaised] at h⟩
  · simp only []
    split
    · exact ⟨fun _ => rfl, fun h => by simp [CmdOut.isRaised] at h⟩
    · simp only []
      refine ⟨fun h => by simp [CmdOut.isRaised] at h, fun _ => ?_⟩
      rw [ck_resetCheckpointMeth]; rfl

theorem ck_cmdUnmonitor (s : EState) (m : Msg) :
    ((cmdUnmonitor s m).2.isRaised = true → ck (cmdUnmonitor s m).1 = ck s) ∧
    ((cmdUnmonitor s m).2.isRaised = false → ck (cmdUnmonitor s m).1 = (ck s).reset) := by
  unfold cmdUnmonitor
  split
  · exact ⟨fun _ => rfl, fun h => by simp [CmdOut.isRaised] at h⟩
  · simp only []
    split
    · exact ⟨fun _ => rfl, fun h => by simp [CmdOut.isRaised] at h⟩
    · simp only []
      refine ⟨fun h => by simp [CmdOut.isRaised] at h, fun _ => ?_⟩
      rw [ck_resetCheckpointMeth]; rfl

/-- `clear_checkpoint`: the cache is gone -/
theorem ck_cmdClearCheckpoint (s : EState) : ck (cmdClearCheckpoint s).1 = (ck s).clear := by
  unfold cmdClearCheckpoint
  simp only []
  rw [ck_forBundlers_pure]; rfl

theorem toggle_resets : Src.rewindableToggleResets = true := by decide

/-- `rewindable`: a query changes nothing; setting the flag to its current value changes nothing; a toggle
    sets the flag and resets the cache -/
theorem ck_cmdRewindable (s : EState) (m : Msg) :
    (m.iargs = [] → ck (cmdRewindable s m).1 = ck s) ∧
    (m.iargs ≠ [] → m.flag = s.rewindable → ck (cmdRewindable s m).1 = ck s) ∧
    (m.iargs ≠ [] → m.flag ≠ s.rewindable →
      ck (cmdRewindable s m).1 = { (ck s).reset with rew := m.flag }) := by
  unfold cmdRewindable
  refine ⟨?_, ?_, ?_⟩
  · intro h; rw [h]
  · intro h hf
    split
    · rename_i h0; exact absurd h0 h
    · simp only []
      have : (m.flag != s.rewindable) = false := by rw [hf]; simp
      simp only [this, Bool.and_false, Bool.false_and]
      simp only [ck, hf]; rfl
  · intro h hf
    split
    · rename_i h0; exact absurd h0 h
    · simp only []
      have hne : (m.flag != s.rewindable) = true := by simpa using hf
      simp only [hne, toggle_resets, Bool.and_true]
      cases hc : s.msgCache with
      | none => simp [ck, Ck.reset, hc]
      | some c =>
        simp only [Option.isSome_some, if_true]
        rw [ck_resetCheckpointMeth]
        simp [ck, Ck.reset, hc]

/-- `_start_suspender` (request found): the helper plan is pushed with response None; the cache handed to
    the helper is the one left by the pause hooks; an empty cache remains -/
theorem ck_cmdStartSuspender (s : EState) (m : Msg) (rq : SuspReq)
    (h : s.suspReqs[(m.iargs.headD 0).toNat]? = some rq) :
    ∃ s1 : EState, (ck s1 = ck s ∨ ck s1 = (ck s).reset) ∧
      ck (cmdStartSuspender s m).1 =
        { (ck s).fresh with
          plans := Gen.chain (.list [{ cmd := "rewindable", iargs := [0], flag := false }])
            ((rq.pre.toList) ++ [Gen.list [{ cmd := "wait_for", iargs := [rq.fut] }, { cmd := "_resume_from_suspender" }]]
              ++ rq.post.toList ++ [Gen.list [{ cmd := "rewindable", iargs := [0], flag := s.rewindable }],
                Gen.list (s1.msgCache.getD [])]) :: s.planStack,
          resps := .none :: s.respStack } := by
  unfold cmdStartSuspender
  rw [h]
  simp only []
  let s0 := stopMovables (forBundlers s (fun s b => recordInterruption s b (rq.just.getD "suspended")))
  have h0 : ck s0 = ck s := by
    show ck (stopMovables _) = ck s
    rw [ck_stopMovables, ck_forBundlers_ri]
  refine ⟨pauseHooks s0, ?_, ?_⟩
  · rcases ck_pauseHooks s0 with h1 | h1
    · left; rw [h1, h0]
    · right; rw [h1, h0]
  · have hr := ck_rewindPlan (pauseHooks s0)
    have hf := rewindPlan_fst (pauseHooks s0)
    generalize rewindPlan (pauseHooks s0) = p at hr hf
    obtain ⟨rw, s2⟩ := p
    simp only at hr hf
    subst hf
    have hrew : s2.rewindable = s.rewindable := by
      have := congrArg Ck.rew hr
      rcases ck_pauseHooks s0 with h1 | h1
      · exact this.trans ((congrArg Ck.rew h1).trans (ck_rew h0))
      · exact this.trans ((congrArg Ck.rew h1).trans (ck_rew h0))
    have hplans : s2.planStack = s.planStack := by
      have := congrArg Ck.plans hr
      rcases ck_pauseHooks s0 with h1 | h1
      · exact this.trans ((congrArg Ck.plans h1).trans (ck_plans h0))
      · exact this.trans ((congrArg Ck.plans h1).trans (ck_plans h0))
    have hresps : s2.respStack = s.respStack := by
      have := congrArg Ck.resps hr
      rcases ck_pauseHooks s0 with h1 | h1
      · exact this.trans ((congrArg Ck.resps h1).trans (ck_resps h0))
      · exact this.trans ((congrArg Ck.resps h1).trans (ck_resps h0))
    have hmsgs : s2.msgs = s.msgs := by
      have := congrArg Ck.msgs hr
      rcases ck_pauseHooks s0 with h1 | h1
      · exact this.trans ((congrArg Ck.msgs h1).trans (ck_msgs h0))
      · exact this.trans ((congrArg Ck.msgs h1).trans (ck_msgs h0))
    have hcache : s2.msgCache = some [] := congrArg Ck.cache hr
    simp only [ck, Ck.fresh, hrew, hplans, hresps, hmsgs, hcache]

theorem ck_cmdStartSuspender_none (s : EState) (m : Msg)
    (h : s.suspReqs[(m.iargs.headD 0).toNat]? = none) : ck (cmdStartSuspender s m).1 = ck s := by
  unfold cmdStartSuspender; rw [h]

end BlueskyVerif.Engine
