/-
Helper lemmas for C36 (consolidators): sums of `listSummands`, validity of `chunks`,
row count and the seq_num -> index map.
-/
import BlueskyVerif.Pure.Consolidator

namespace BlueskyVerif.C36
open BlueskyVerif.PyList BlueskyVerif.Consolidator BlueskyVerif.StreamDatum

theorem pyMulList_sum (l : List Nat) (n : Nat) : (pyMulList l n).sum = l.sum * n := by
  induction n with
  | zero => simp [pyMulList]
  | succ n ih => simp [pyMulList, ih, Nat.mul_succ, Nat.add_comm]

theorem mem_pyMulList {l : List Nat} {n x : Nat} (h : x ∈ pyMulList l n) : x ∈ l := by
  induction n with
  | zero => simp [pyMulList] at h
  | succ n ih =>
    simp only [pyMulList, List.mem_append] at h
    rcases h with h | h
    · exact h
    · exact ih h

theorem pyOrList_sum (a : List Nat) : (pyOrList a [0]).sum = a.sum := by
  unfold pyOrList
  cases a <;> simp

/-- ∀ A b repeat, b > 0 → sum (list_summands A b repeat) = A * repeat -/
theorem listSummands_sum (A b r : Nat) (hb : 0 < b) : (listSummands A b r).sum = A * r := by
  unfold listSummands
  rw [pyOrList_sum, pyMulList_sum, List.sum_append, pyMulList_sum]
  congr 1
  have h1 := Nat.div_add_mod A b
  have h2 := Nat.div_add_mod' A b
  split <;> simp <;> omega

/-- every chunk is positive and at most `b`, unless the whole list is the placeholder `(0,)` -/
theorem listSummands_entries (A b r : Nat) (hb : 0 < b) :
    listSummands A b r = [0] ∨ ∀ x ∈ listSummands A b r, 0 < x ∧ x ≤ b := by
  have hin : ∀ x ∈ (pyMulList [b] (A / b) ++ (if A % b > 0 then [A % b] else [])), 0 < x ∧ x ≤ b := by
    intro x hx
    rcases List.mem_append.mp hx with h | h
    · have := mem_pyMulList h
      simp at this; omega
    · by_cases hm : A % b > 0
      · rw [if_pos hm] at h
        simp at h
        have := Nat.mod_lt A hb
        omega
      · rw [if_neg hm] at h; simp at h
  unfold listSummands
  generalize (pyMulList [b] (A / b) ++ (if A % b > 0 then [A % b] else [])) = inner at hin
  unfold pyOrList
  by_cases he : (pyMulList inner r).isEmpty = true
  · rw [if_pos he]; exact Or.inl rfl
  · rw [if_neg he]; exact Or.inr (fun x hx => hin x (mem_pyMulList hx))

theorem zipWith_summands_sum (xs cs : List Nat) (hlen : xs.length ≤ cs.length) (hpos : ∀ c ∈ cs, 0 < c) :
    (List.zipWith (fun ddim cdim => listSummands ddim cdim) xs cs).map List.sum = xs := by
  induction xs generalizing cs with
  | nil => simp
  | cons x xs ih =>
    cases cs with
    | nil => simp at hlen
    | cons c cs =>
      simp only [List.zipWith_cons_cons, List.map_cons]
      rw [listSummands_sum x c 1 (hpos c (by simp)), ih cs (by simpa using hlen) (fun d hd => hpos d (by simp [hd]))]
      simp

theorem map_singleton_sum (l : List Nat) : (l.map (fun d => [d])).map List.sum = l := by
  induction l with
  | nil => rfl
  | cons a l ih => simp [ih]

/-- whenever `chunks` returns, it has one entry per dimension of `shape`, each summing to that dimension -/
theorem chunks_sum (c : Cons) (cs : List (List Nat)) (hpos : ∀ d ∈ c.chunkShape, 0 < d)
    (h : chunks c = .ok cs) : cs.map List.sum = shape c := by
  unfold chunks at h
  simp only at h
  split at h
  next hlen =>
    split at h
    next =>
      injection h with h; subst h
      rw [List.map_append, map_singleton_sum, zipWith_summands_sum _ _ (by simp [List.length_take]; omega) hpos,
        List.take_append_drop]
    next hbr =>
      split at h
      next d0 dt c0 ct hds hcs =>
        injection h with h; subst h
        have hj : c.join = .concat := by
          cases hjn : c.join with
          | stack => simp [hjn] at hbr
          | concat => rfl
        have hsh : shape c = (c.numRows * d0) :: dt := by simp [shape, hj, hds]
        rw [hcs, hsh] at hlen ⊢
        simp only [List.length_cons] at hlen ⊢
        simp only [List.take_succ_cons, List.drop_succ_cons, List.drop_zero, List.cons_append, List.map_cons,
          List.map_append, map_singleton_sum]
        rw [listSummands_sum d0 c0 c.numRows (hpos c0 (by simp [hcs])),
          zipWith_summands_sum _ _ (by simp [List.length_take]; omega) (fun d hd => hpos d (by simp [hcs, hd])),
          List.take_append_drop, Nat.mul_comm]
      next => cases h
  next => cases h

theorem mem_zipWith_summands {xs cs : List Nat} {ch : List Nat} (hpos : ∀ c ∈ cs, 0 < c)
    (h : ch ∈ List.zipWith (fun ddim cdim => listSummands ddim cdim) xs cs) :
    ch = [0] ∨ ∀ x ∈ ch, 0 < x := by
  induction xs generalizing cs with
  | nil => simp at h
  | cons x xs ih =>
    cases cs with
    | nil => simp at h
    | cons c cs =>
      simp only [List.zipWith_cons_cons, List.mem_cons] at h
      rcases h with rfl | h
      · rcases listSummands_entries x c 1 (hpos c (by simp)) with h0 | hp
        · exact Or.inl h0
        · exact Or.inr (fun y hy => (hp y hy).1)
      · exact ih (fun d hd => hpos d (by simp [hd])) h

/-- every advertised chunk size is positive, except that an empty dimension is advertised as `(0,)` -/
theorem chunks_entries (c : Cons) (cs : List (List Nat)) (hpos : ∀ d ∈ c.chunkShape, 0 < d)
    (h : chunks c = .ok cs) : ∀ ch ∈ cs, ch = [0] ∨ ∀ x ∈ ch, 0 < x := by
  have single : ∀ (l : List Nat) (ch : List Nat), ch ∈ l.map (fun d => [d]) → ch = [0] ∨ ∀ x ∈ ch, 0 < x := by
    intro l ch hch
    simp only [List.mem_map] at hch
    obtain ⟨d, _, rfl⟩ := hch
    cases d with
    | zero => exact Or.inl rfl
    | succ d => right; intro x hx; simp at hx; omega
  unfold chunks at h
  simp only at h
  split at h
  next hlen =>
    split at h
    next =>
      injection h with h; subst h
      intro ch hch
      rcases List.mem_append.mp hch with hch | hch
      · exact mem_zipWith_summands hpos hch
      · exact single _ _ hch
    next hbr =>
      split at h
      next d0 dt c0 ct hds hcs =>
        injection h with h; subst h
        intro ch hch
        simp only [List.cons_append, List.mem_cons, List.mem_append] at hch
        rcases hch with rfl | hch | hch
        · rcases listSummands_entries d0 c0 c.numRows (hpos c0 (by simp [hcs])) with h0 | hp
          · exact Or.inl h0
          · exact Or.inr (fun y hy => (hp y hy).1)
        · exact mem_zipWith_summands (fun d hd => hpos d (by simp [hcs, hd])) hch
        · exact single _ _ hch
      next => cases h
  next => cases h

theorem listSummands_le (A b r : Nat) (hb : 0 < b) : ∀ x ∈ listSummands A b r, x ≤ b := by
  intro x hx
  rcases listSummands_entries A b r hb with h | h
  · rw [h] at hx; simp at hx; omega
  · exact (h x hx).2

theorem zipWith_summands_le (xs cs : List Nat) (hpos : ∀ c ∈ cs, 0 < c) (k : Nat) (ch : List Nat) (b : Nat)
    (hch : (List.zipWith (fun ddim cdim => listSummands ddim cdim) xs cs)[k]? = some ch) (hb : cs[k]? = some b) :
    ∀ x ∈ ch, x ≤ b := by
  induction xs generalizing cs k with
  | nil => simp at hch
  | cons x xs ih =>
    cases cs with
    | nil => simp at hch
    | cons c cs =>
      cases k with
      | zero =>
        simp at hch hb
        subst hch hb
        exact listSummands_le x c 1 (hpos c (by simp))
      | succ k =>
        simp at hch hb
        exact ih cs (fun d hd => hpos d (by simp [hd])) k hch hb

/-- along the dimensions that chunk_shape specifies, no advertised chunk is larger than chunk_shape says -/
theorem chunks_bounded (c : Cons) (cs : List (List Nat)) (hpos : ∀ d ∈ c.chunkShape, 0 < d)
    (h : chunks c = .ok cs) (k : Nat) (ch : List Nat) (b : Nat) (hch : cs[k]? = some ch) (hb : c.chunkShape[k]? = some b) :
    ∀ x ∈ ch, x ≤ b := by
  have hk : k < c.chunkShape.length := by
    rcases Nat.lt_or_ge k c.chunkShape.length with h | h
    · exact h
    · rw [List.getElem?_eq_none h] at hb; cases hb
  unfold chunks at h
  simp only at h
  split at h
  next hlen =>
    split at h
    next =>
      injection h with h; subst h
      have hl : (List.zipWith (fun ddim cdim => listSummands ddim cdim) ((shape c).take c.chunkShape.length) c.chunkShape).length = c.chunkShape.length := by
        simp [List.length_take]; omega
      rw [List.getElem?_append_left (by rw [hl]; exact hk)] at hch
      exact zipWith_summands_le _ _ hpos k ch b hch hb
    next hbr =>
      split at h
      next d0 dt c0 ct hds hcs =>
        injection h with h; subst h
        rw [hcs] at hb hk hlen
        cases k with
        | zero =>
          simp at hch hb
          subst hch hb
          exact listSummands_le d0 _ _ (hpos _ (by simp [hcs]))
        | succ k =>
          simp only [List.cons_append, List.getElem?_cons_succ] at hch hb
          have hl : (List.zipWith (fun ddim cdim => listSummands ddim cdim) (((shape c).take (c0 :: ct).length).drop 1) ct).length = ct.length := by
            simp [List.length_take] at hlen ⊢; omega
          rw [hcs] at hch
          rw [List.getElem?_append_left (by rw [hl]; simpa using hk)] at hch
          exact zipWith_summands_le _ _ (fun d hd => hpos d (by simp [hcs, hd])) k ch b hch hb
      next => cases h
  next => cases h
/-! constructor / consume invariants -/

theorem construct_chunkShape_pos (a : CtorArgs) (c : Cons) (h : construct a = .ok c) : ∀ d ∈ c.chunkShape, 0 < d := by
  unfold construct at h
  simp only at h
  split at h
  · cases h
  · split at h
    · cases h
    · rename_i hbad
      injection h with h
      subst h
      intro d hd
      simp only [List.mem_map] at hd
      obtain ⟨x, hx, rfl⟩ := hd
      have : chunkDimBad x = false := by
        cases hb : chunkDimBad x with
        | false => rfl
        | true => exact absurd (List.any_eq_true.mpr ⟨x, hx, hb⟩) hbad
      simp [chunkDimBad] at this
      omega

theorem construct_fresh (a : CtorArgs) (c : Cons) (h : construct a = .ok c) : c.numRows = 0 ∧ c.map = [] := by
  unfold construct at h
  simp only at h
  split at h
  · cases h
  · split at h
    · cases h
    · injection h with h; subst h; exact ⟨rfl, rfl⟩

theorem consumeAll_params (c : Cons) (docs : List SD) :
    (consumeAll c docs).chunkShape = c.chunkShape ∧ (consumeAll c docs).datumShape = c.datumShape ∧
    (consumeAll c docs).join = c.join ∧ (consumeAll c docs).joinChunks = c.joinChunks := by
  induction docs generalizing c with
  | nil => simp [consumeAll]
  | cons d ds ih =>
    have := ih (consume c d)
    simp only [consumeAll, List.foldl_cons] at this ⊢
    simpa [consume] using this

theorem consumeAll_numRows (c : Cons) (docs : List SD) :
    (consumeAll c docs).numRows = c.numRows + (docs.map (fun d => d.iStop - d.iStart)).sum := by
  induction docs generalizing c with
  | nil => simp [consumeAll]
  | cons d ds ih =>
    have := ih (consume c d)
    simp only [consumeAll, List.foldl_cons] at this ⊢
    rw [this]
    simp [consume, Nat.add_assoc]

/-! the seq_num -> index dict -/

/-- `s` is one of the seq_nums that `zip(range(seq_nums), range(indices))` pairs up for document `d` -/
def covers (d : SD) (s : Nat) : Bool :=
  decide (d.sStart ≤ s ∧ s < d.sStart + min (d.sStop - d.sStart) (d.iStop - d.iStart))

theorem lookup_rangeMap (a b n s : Nat) :
    ((List.range n).map (fun k => (a + k, b + k))).lookup s =
      if a ≤ s ∧ s < a + n then some (b + (s - a)) else none := by
  induction n with
  | zero => simp
  | succ n ih =>
    rw [List.range_succ, List.map_append, List.lookup_append, ih]
    by_cases h1 : a ≤ s ∧ s < a + n
    · have h2 : a ≤ s ∧ s < a + (n + 1) := ⟨h1.1, by omega⟩
      simp [h1, h2]
    · by_cases h3 : s = a + n
      · subst h3
        simp
      · have h2 : ¬ (a ≤ s ∧ s < a + (n + 1)) := by omega
        have h4 : (s == a + n) = false := by simpa using h3
        simp [h1, h2, h4]

/-- one step: the new document's pairs shadow the older entries -/
theorem lookup_consume (c : Cons) (d : SD) (s : Nat) :
    lookup (consume c d) s = if covers d s then some (d.iStart + (s - d.sStart)) else lookup c s := by
  unfold lookup consume zipRanges covers
  simp only [List.lookup_append, lookup_rangeMap]
  by_cases h : d.sStart ≤ s ∧ s < d.sStart + min (d.sStop - d.sStart) (d.iStop - d.iStart)
  · simp [h]
  · simp [h]

/-- after any list of documents: the LAST document covering `s` decides; else the old entry -/
theorem lookup_consumeAll (c : Cons) (docs : List SD) (s : Nat) :
    lookup (consumeAll c docs) s =
      match docs.reverse.find? (fun d => covers d s) with
      | some d => some (d.iStart + (s - d.sStart))
      | none => lookup c s := by
  induction docs generalizing c with
  | nil => simp [consumeAll]
  | cons d ds ih =>
    have := ih (consume c d)
    simp only [consumeAll, List.foldl_cons] at this ⊢
    rw [this, List.reverse_cons, List.find?_append]
    cases hf : ds.reverse.find? (fun d => covers d s) with
    | some e => simp
    | none =>
      simp only [Option.none_or, List.find?_cons, List.find?_nil, lookup_consume]
      cases covers d s <;> simp

end BlueskyVerif.C36
