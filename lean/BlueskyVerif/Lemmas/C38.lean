/-
Helper lemmas for C38: what the GENERATED numeric chain (`truncLeaf`, Pure/TruncateGenerated.lean) does on
each kind of scalar.  The proofs unfold the generated definitions, so they are re-checked against whatever
the extractor produced from the current source.
-/
import BlueskyVerif.Pure.Truncate
import Mathlib.Tactic.Linarith
import Mathlib.Tactic.NormNum
import Mathlib.Algebra.Order.Field.Rat

set_option linter.unusedSimpArgs false

namespace BlueskyVerif.Truncate

@[simp] theorem le_pyI (a b : Int) : Scalar.le (pyI a) (pyI b) = decide (a ≤ b) := by
  simp [Scalar.le, seenBy, pyI, pyIntVal, weakOf, numOf, Num.le]

@[simp] theorem lt_pyI (a b : Int) : Scalar.lt (pyI a) (pyI b) = decide (a < b) := by
  simp [Scalar.lt, seenBy, pyI, pyIntVal, weakOf, numOf, Num.lt]

@[simp] theorem lt_pyF (x : Num) (b : Rat) : Scalar.lt (.flt .py x) (pyF b) = Num.lt x (.fin b) := by
  simp [Scalar.lt, seenBy, pyF, pyIntVal, weakOf, numOf]

@[simp] theorem pyF_lt (x : Num) (b : Rat) : Scalar.lt (pyF b) (.flt .py x) = Num.lt (.fin b) x := by
  simp [Scalar.lt, seenBy, pyF, pyIntVal, weakOf, numOf]

/-- the float bound of the source dwarfs the integer bound -/
theorem floatLit0_big : (2 ^ 53 : Rat) ≤ floatLit0 := by
  unfold floatLit0; norm_num

theorem ratIsInt_iff (q : Rat) : ratIsInt q = true ↔ q - ((q.floor : Int) : Rat) = 0 := by
  simp [ratIsInt]
  constructor <;> intro h <;> linarith

theorem ratTrunc_of_int (q : Rat) (h : ratIsInt q = true) : ((ratTrunc q : Int) : Rat) = q := by
  simp [ratIsInt] at h
  unfold ratTrunc
  split
  · exact h
  · rw [← h, show (-((q.floor : Int) : Rat)) = ((-q.floor : Int) : Rat) by push_cast; rfl, Rat.floor_intCast]
    simp

theorem isinst_int1 (t : IntTy) (n : Int) :
    isinst (.int t n) [.int, .float, .npInteger, .npFloating] = !(t == .npBool) := by
  cases t <;> rfl
theorem isinst_int2 (t : IntTy) (n : Int) : isinst (.int t n) [.float, .npFloating] = false := by
  cases t <;> rfl
theorem isinst_flt1 (t : FltTy) (x : Num) : isinst (.flt t x) [.int, .float, .npInteger, .npFloating] = true := by
  cases t <;> rfl
theorem isinst_flt2 (t : FltTy) (x : Num) : isinst (.flt t x) [.float, .npFloating] = true := by
  cases t <;> rfl

/-- the clamp `min(max(n, 1 - 2**53), 2**53 - 1)` on Python ints -/
theorem clamp_pyI (n : Int) :
    pyMin (pyMax (pyI n) (pyI (1 - 2 ^ 53))) (pyI (2 ^ 53 - 1)) =
      if n < 1 - 2 ^ 53 then pyI (1 - 2 ^ 53) else if 2 ^ 53 - 1 < n then pyI (2 ^ 53 - 1) else pyI n := by
  simp only [pyMin, pyMax, Scalar.gt, lt_pyI]
  by_cases h1 : n < -9007199254740991
  · have h3 : ¬ (9007199254740991 < n) := by omega
    simp [h1, h3]
  · by_cases h3 : (9007199254740991 : Int) < n
    · simp [h1, h3]
    · simp [h1, h3]

/-- the numeric chain on an integer-typed scalar -/
theorem truncLeaf_int (t : IntTy) (n : Int) :
    truncLeaf (.int t n) =
      if t = .npBool then .int t n
      else if 1 - 2 ^ 53 ≤ n ∧ n ≤ 2 ^ 53 - 1 then .int t n
      else if n < 1 - 2 ^ 53 then pyI (1 - 2 ^ 53) else pyI (2 ^ 53 - 1) := by
  have hm : Scalar.truthy (Scalar.modInt (.int t n) 1) = false := by
    simp [Scalar.modInt, Scalar.truthy]
  have hp : toPyInt (.int t n) = pyI n := rfl
  simp only [truncLeaf, cond1, ret1, cond2, isinst_int1, isinst_int2, hm, hp, le_pyI, clamp_pyI]
  by_cases ht : t = .npBool
  · simp [ht]
  · by_cases h1 : n < -9007199254740991
    · have : ¬ (-9007199254740991 ≤ n ∧ n ≤ 9007199254740991) := by omega
      simp [ht, h1, this]
    · by_cases h3 : (9007199254740991 : Int) < n
      · have : ¬ (-9007199254740991 ≤ n ∧ n ≤ 9007199254740991) := by omega
        simp [ht, h1, h3, this]
      · have : (-9007199254740991 ≤ n ∧ n ≤ 9007199254740991) := by omega
        simp [ht, h1, h3, this]

theorem truthy_mod_fin (t : FltTy) (q : Rat) :
    Scalar.truthy (Scalar.modInt (.flt t (.fin q)) 1) = !ratIsInt q := by
  have := ratIsInt_iff q
  simp only [Scalar.modInt, Scalar.truthy, Int.cast_one, one_mul, div_one]
  by_cases h : ratIsInt q = true
  · simp [h, this.mp h]
  · have h' : ¬ (q - ((q.floor : Int) : Rat) = 0) := fun e => h (this.mpr e)
    simp [h, h']

theorem truncLeaf_posInf (t : FltTy) : truncLeaf (.flt t .posInf) = pyF floatLit0 := by
  have hpos : ¬ (floatLit0 < -floatLit0) := by have := floatLit0_big; intro h; linarith
  simp [truncLeaf, cond1, cond2, ret2, isinst_flt1, isinst_flt2, Scalar.modInt, Scalar.truthy, toPyFloat,
    pyMin, pyMax, Scalar.gt, Num.lt]

theorem truncLeaf_negInf (t : FltTy) : truncLeaf (.flt t .negInf) = pyF (-floatLit0) := by
  have hpos : ¬ (floatLit0 < -floatLit0) := by have := floatLit0_big; intro h; linarith
  simp [truncLeaf, cond1, cond2, ret2, isinst_flt1, isinst_flt2, Scalar.modInt, Scalar.truthy, toPyFloat,
    pyMin, pyMax, Scalar.gt, Num.lt, pyF, hpos]
  simp [Scalar.lt, seenBy, pyIntVal, weakOf, numOf, Num.lt, hpos]

theorem truncLeaf_nan (t : FltTy) : truncLeaf (.flt t .nan) = .flt t .nan := by
  simp [truncLeaf, cond1, cond2, ret2, isinst_flt1, isinst_flt2, Scalar.modInt, Scalar.truthy, toPyFloat,
    pyMin, pyMax, Scalar.gt, Num.lt]

/-- the numeric chain on a finite float whose value is an integer -/
theorem truncLeaf_fin_int (t : FltTy) (q : Rat) (n : Int) (hq : q = n) :
    truncLeaf (.flt t (.fin q)) =
      if 1 - 2 ^ 53 ≤ n ∧ n ≤ 2 ^ 53 - 1 then .flt t (.fin q)
      else if n < 1 - 2 ^ 53 then pyI (1 - 2 ^ 53) else pyI (2 ^ 53 - 1) := by
  have hint : ratIsInt q = true := by simp [ratIsInt, hq, Rat.floor_intCast]
  have htr : ratTrunc q = n := by
    have := ratTrunc_of_int q hint
    rw [hq] at this ⊢
    exact_mod_cast this
  have hp : toPyInt (.flt t (.fin q)) = pyI n := by simp [toPyInt, htr, pyI]
  simp only [truncLeaf, cond1, ret1, cond2, ret2, isinst_flt1, isinst_flt2, truthy_mod_fin, hint, hp, le_pyI, clamp_pyI]
  by_cases h1 : n < -9007199254740991
  · have : ¬ (-9007199254740991 ≤ n ∧ n ≤ 9007199254740991) := by omega
    simp [h1, this]
  · by_cases h3 : (9007199254740991 : Int) < n
    · have : ¬ (-9007199254740991 ≤ n ∧ n ≤ 9007199254740991) := by omega
      simp [h1, h3, this]
    · have hr : (-9007199254740991 ≤ n ∧ n ≤ 9007199254740991) := by omega
      have hb := floatLit0_big
      have h4 : ((n : Int) : Rat) ≤ 9007199254740991 := by exact_mod_cast hr.2
      have h5 : (-9007199254740991 : Rat) ≤ ((n : Int) : Rat) := by exact_mod_cast hr.1
      have h6 : ¬ (q < -floatLit0) := by rw [hq]; intro h; linarith
      have h7 : ¬ (floatLit0 < q) := by rw [hq]; intro h; linarith
      simp [hr, toPyFloat, Scalar.gt, Num.lt, h6, h7]

/-- the numeric chain on a finite float that is not an integer and is smaller than 2**53 in magnitude -/
theorem truncLeaf_fin_frac (t : FltTy) (q : Rat) (hint : ratIsInt q = false)
    (h1 : -(2 ^ 53 : Rat) < q) (h2 : q < (2 ^ 53 : Rat)) :
    truncLeaf (.flt t (.fin q)) = .flt t (.fin q) := by
  have hb := floatLit0_big
  have h6 : ¬ (q < -floatLit0) := by intro h; linarith
  have h7 : ¬ (floatLit0 < q) := by intro h; linarith
  simp [truncLeaf, cond1, cond2, isinst_flt1, isinst_flt2, truthy_mod_fin, hint, toPyFloat, Scalar.gt, Num.lt, h6, h7]

theorem truncLeaf_str (np : Bool) (s : String) : truncLeaf (.str np s) = .str np s := by
  have h1 : isinst (.str np s) [.int, .float, .npInteger, .npFloating] = false := rfl
  have h2 : isinst (.str np s) [.float, .npFloating] = false := rfl
  simp [truncLeaf, cond1, cond2, h1, h2]

theorem truncLeaf_none : truncLeaf .none = .none := by
  have h1 : isinst .none [.int, .float, .npInteger, .npFloating] = false := rfl
  have h2 : isinst .none [.float, .npFloating] = false := rfl
  simp [truncLeaf, cond1, cond2, h1, h2]

theorem ratIsInt_floor (q : Rat) (h : ratIsInt q = true) : q = ((q.floor : Int) : Rat) := by
  simp [ratIsInt] at h; exact h.symm

/-! ### the three leaf-level facts behind C38 -/

/-- every output leaf meets the property's demand -/
theorem leaf_ok (d : Scalar) (h : ieeeLike d = true) : leafOK d (truncLeaf d) = true := by
  cases d with
  | str np s => simp [truncLeaf_str, leafOK]
  | none => simp [truncLeaf_none, leafOK]
  | int t n =>
    rw [truncLeaf_int]
    by_cases ht : t = .npBool
    · subst ht; simp [leafOK]
    · by_cases hr : (1 - 2 ^ 53 ≤ n ∧ n ≤ 2 ^ 53 - 1)
      · simp only [ht, hr, and_self, if_true, if_false]
        cases t <;> simp_all [leafOK, specBound] <;> omega
      · simp only [ht, hr, if_false]
        split <;> simp [leafOK, pyI, specBound]
  | flt t x =>
    cases x with
    | posInf => simp [truncLeaf_posInf, leafOK, pyF, isInfinite]
    | negInf => simp [truncLeaf_negInf, leafOK, pyF, isInfinite]
    | nan => simp [truncLeaf_nan, leafOK]
    | fin q =>
      by_cases hint : ratIsInt q = true
      · have hq := ratIsInt_floor q hint
        rw [truncLeaf_fin_int t q q.floor hq]
        by_cases hr : (1 - 2 ^ 53 ≤ q.floor ∧ q.floor ≤ 2 ^ 53 - 1)
        · have h1 : -((specBound : Int) : Rat) ≤ q := by
            rw [hq]; exact_mod_cast (by simp [specBound]; omega : -specBound ≤ q.floor)
          have h2 : q ≤ ((specBound : Int) : Rat) := by rw [hq]; exact_mod_cast (by simp [specBound]; omega : q.floor ≤ specBound)
          rw [if_pos hr]
          simp [leafOK, h1, h2]
        · simp only [hr, if_false]
          split <;> simp [leafOK, pyI, specBound]
      · have hint' : ratIsInt q = false := by simpa using hint
        simp only [ieeeLike, hint', Bool.false_or, Bool.and_eq_true, decide_eq_true_eq] at h
        have h1 : -(2 ^ 53 : Rat) < q := by exact_mod_cast h.1
        have h2 : q < (2 ^ 53 : Rat) := by exact_mod_cast h.2
        rw [truncLeaf_fin_frac t q hint' h1 h2]
        simp [leafOK, hint']

/-- a leaf that is in range is returned as it is (same type, same value) -/
theorem leaf_safe (d : Scalar) (hr : leafInRange d = true) (h : ieeeLike d = true) : truncLeaf d = d := by
  cases d with
  | str np s => exact truncLeaf_str np s
  | none => exact truncLeaf_none
  | int t n =>
    rw [truncLeaf_int]
    by_cases ht : t = .npBool
    · simp [ht]
    · have : (1 - 2 ^ 53 ≤ n ∧ n ≤ 2 ^ 53 - 1) := by
        cases t <;> first | exact absurd rfl ht | (simp only [leafInRange, specBound, Bool.and_eq_true] at hr; have h1 := of_decide_eq_true hr.1; have h2 := of_decide_eq_true hr.2; omega)
      rw [if_neg ht, if_pos this]
  | flt t x =>
    cases x with
    | posInf => simp [leafInRange] at hr
    | negInf => simp [leafInRange] at hr
    | nan => exact truncLeaf_nan t
    | fin q =>
      by_cases hint : ratIsInt q = true
      · have hq := ratIsInt_floor q hint
        rw [truncLeaf_fin_int t q q.floor hq]
        simp only [leafInRange, hint, Bool.not_true, Bool.false_or, Bool.and_eq_true, decide_eq_true_eq] at hr
        have h1 : -specBound ≤ q.floor := by have := hr.1; rw [hq] at this; exact_mod_cast this
        have h2 : q.floor ≤ specBound := by have := hr.2; rw [hq] at this; exact_mod_cast this
        have : (1 - 2 ^ 53 ≤ q.floor ∧ q.floor ≤ 2 ^ 53 - 1) := by simp [specBound] at h1 h2; omega
        rw [if_pos this]
      · have hint' : ratIsInt q = false := by simpa using hint
        simp only [ieeeLike, hint', Bool.false_or, Bool.and_eq_true, decide_eq_true_eq] at h
        have h1 : -(2 ^ 53 : Rat) < q := by exact_mod_cast h.1
        have h2 : q < (2 ^ 53 : Rat) := by exact_mod_cast h.2
        exact truncLeaf_fin_frac t q hint' h1 h2

/-- `int(data)` raises only on inf / NaN / non-numbers; both are excluded once `isinstance` and
    `not data % 1` have passed -/
theorem int_guard (d : Scalar) (h : intGuard1 d = true) : intRaises d = false := by
  cases d with
  | str np s => simp [intGuard1, show isinst (.str np s) [.int, .float, .npInteger, .npFloating] = false from rfl] at h
  | none => simp [intGuard1, show isinst .none [.int, .float, .npInteger, .npFloating] = false from rfl] at h
  | int t n => rfl
  | flt t x =>
    cases x with
    | fin q => rfl
    | posInf => simp [intGuard1, Scalar.modInt, Scalar.truthy] at h
    | negInf => simp [intGuard1, Scalar.modInt, Scalar.truthy] at h
    | nan => simp [intGuard1, Scalar.modInt, Scalar.truthy] at h

theorem isInfinite_pyMin (a b : Scalar) (ha : isInfinite a = false) (hb : isInfinite b = false) :
    isInfinite (pyMin a b) = false := by
  unfold pyMin; split <;> assumption

theorem isInfinite_pyMax (a b : Scalar) (ha : isInfinite a = false) (hb : isInfinite b = false) :
    isInfinite (pyMax a b) = false := by
  unfold pyMax; split <;> assumption

/-- no output of the numeric chain is +-inf (no hypothesis on the input) -/
theorem truncLeaf_not_infinite (a : Scalar) : isInfinite (truncLeaf a) = false := by
  cases a with
  | str np s => simp [truncLeaf_str, isInfinite]
  | none => simp [truncLeaf_none, isInfinite]
  | int t n => rw [truncLeaf_int]; simp only [apply_ite isInfinite, pyI]; simp [isInfinite]
  | flt t x =>
    cases x with
    | posInf => simp [truncLeaf_posInf, pyF, isInfinite]
    | negInf => simp [truncLeaf_negInf, pyF, isInfinite]
    | nan => simp [truncLeaf_nan, isInfinite]
    | fin q =>
      simp only [truncLeaf]
      split
      · exact isInfinite_pyMin _ _ (isInfinite_pyMax _ _ rfl rfl) rfl
      · split
        · exact isInfinite_pyMin _ _ (isInfinite_pyMax _ _ rfl rfl) rfl
        · rfl

theorem mem_zip_map_self {α β} (f : α → β) (l : List α) (p : α × β) (hp : p ∈ l.zip (l.map f)) :
    p.1 ∈ l ∧ p.2 = f p.1 := by
  induction l with
  | nil => simp at hp
  | cons x xs ih =>
    simp only [List.map_cons, List.zip_cons_cons, List.mem_cons] at hp
    rcases hp with rfl | h
    · simp
    · exact ⟨List.mem_cons_of_mem _ (ih h).1, (ih h).2⟩

/-! ### lifting to nested values (mutual structural induction over `Val`) -/

mutual
theorem shape_trunc (v : Val) : shapeOf (trunc v) = shapeOf v := by
  cases v with
  | leaf s => simp [trunc, shapeOf]
  | arr0 s => simp [trunc, shapeOf]
  | seq t xs => simp [trunc, shapeOf, shapeList_trunc xs]
  | map es => simp [trunc, shapeOf, shapeEntries_trunc es]
theorem shapeList_trunc (xs : List Val) : shapeList (truncList xs) = shapeList xs := by
  cases xs with
  | nil => simp [truncList, shapeList]
  | cons x xs => simp [truncList, shapeList, shape_trunc x, shapeList_trunc xs]
theorem shapeEntries_trunc (es : List (String × Val)) : shapeEntries (truncEntries es) = shapeEntries es := by
  cases es with
  | nil => simp [truncEntries, shapeEntries]
  | cons e es => obtain ⟨k, v⟩ := e; simp [truncEntries, shapeEntries, shape_trunc v, shapeEntries_trunc es]
end

mutual
theorem leaves_trunc (v : Val) : leaves (trunc v) = (leaves v).map truncLeaf := by
  cases v with
  | leaf s => simp [trunc, leaves]
  | arr0 s => simp [trunc, leaves]
  | seq t xs => simp [trunc, leaves, leavesList_trunc xs]
  | map es => simp [trunc, leaves, leavesEntries_trunc es]
theorem leavesList_trunc (xs : List Val) : leavesList (truncList xs) = (leavesList xs).map truncLeaf := by
  cases xs with
  | nil => simp [truncList, leavesList]
  | cons x xs => simp [truncList, leavesList, leaves_trunc x, leavesList_trunc xs]
theorem leavesEntries_trunc (es : List (String × Val)) :
    leavesEntries (truncEntries es) = (leavesEntries es).map truncLeaf := by
  cases es with
  | nil => simp [truncEntries, leavesEntries]
  | cons e es => obtain ⟨k, v⟩ := e; simp [truncEntries, leavesEntries, leaves_trunc v, leavesEntries_trunc es]
end

mutual
theorem trunc_eq_normalize (v : Val) (h : ∀ d ∈ leaves v, truncLeaf d = d) : trunc v = normalize v := by
  cases v with
  | leaf s => simp [trunc, normalize, h s (by simp [leaves])]
  | arr0 s => simp [trunc, normalize, h (item s) (by simp [leaves])]
  | seq t xs => simp [trunc, normalize, truncList_eq_normalize xs (by simpa [leaves] using h)]
  | map es => simp [trunc, normalize, truncEntries_eq_normalize es (by simpa [leaves] using h)]
theorem truncList_eq_normalize (xs : List Val) (h : ∀ d ∈ leavesList xs, truncLeaf d = d) :
    truncList xs = normalizeList xs := by
  cases xs with
  | nil => simp [truncList, normalizeList]
  | cons x xs =>
    simp only [leavesList, List.mem_append] at h
    simp [truncList, normalizeList, trunc_eq_normalize x (fun d hd => h d (Or.inl hd)),
      truncList_eq_normalize xs (fun d hd => h d (Or.inr hd))]
theorem truncEntries_eq_normalize (es : List (String × Val)) (h : ∀ d ∈ leavesEntries es, truncLeaf d = d) :
    truncEntries es = normalizeEntries es := by
  cases es with
  | nil => simp [truncEntries, normalizeEntries]
  | cons e es =>
    obtain ⟨k, v⟩ := e
    simp only [leavesEntries, List.mem_append] at h
    simp [truncEntries, normalizeEntries, trunc_eq_normalize v (fun d hd => h d (Or.inl hd)),
      truncEntries_eq_normalize es (fun d hd => h d (Or.inr hd))]
end

end BlueskyVerif.Truncate
