/-
C29 helper lemmas for the ℚ-model of `tune_centroid` (Pure/Tune.lean): facts about the GENERATED
expressions, induction over loop iterations, the centroid invariant (non-negative signals) and the
pass-counting invariant (geometric shrinking of the scan range).
-/
import BlueskyVerif.Pure.Tune
import BlueskyVerif.Lemmas.C29Basic

namespace BlueskyVerif.C29.TuneLemmas
open BlueskyVerif.Pure.C29 BlueskyVerif.Pure.TuneGen BlueskyVerif.Pure.Tune

/-! ### facts read off the generated expressions -/

theorem rejected_false {P : Params} (h : P.rejected = false) : 0 < P.minStep ∧ 1 < P.stepFactor := by
  simp only [Params.rejected, rejects, Bool.or_eq_false_iff, decide_eq_false_iff_not, not_le] at h
  exact h

theorem low_le_high (P : Params) : P.low ≤ P.high := rmin_le_rmax _ _

theorem low_eq (P : Params) : P.low = min P.start P.stop := rmin_eq_min _ _
theorem high_eq (P : Params) : P.high = max P.start P.stop := rmax_eq_max _ _

theorem live_iff (P : Params) (s : St) :
    live P s = true ↔ P.minStep ≤ |s.step| ∧ P.low ≤ s.nextPos ∧ s.nextPos ≤ P.high := by
  simp [live, BlueskyVerif.Pure.TuneGen.guard, rabs_eq_abs]

theorem inRange_iff (a b x : Rat) : inRange a b x = true ↔ min a b ≤ x ∧ x ≤ max a b := by
  simp only [inRange, Bool.and_eq_true, decide_eq_true_eq, rmin_eq_min, rmax_eq_max]

theorem zeroGuard_iff (a b : Rat) : zeroGuard a b = true ↔ a = 0 := by
  simp [zeroGuard]

theorem zeroDiv_false {P : Params} (h : P.zeroDiv = false) : stepDen P.numR ≠ 0 := by
  simpa [Params.zeroDiv] using h

/-- the final clamp puts the park position inside the original limits, whatever the centroid was -/
theorem parkPos_mem (P : Params) (pk : Rat) :
    P.low ≤ parkPos pk P.low P.high ∧ parkPos pk P.low P.high ≤ P.high := by
  have h := low_le_high P
  unfold parkPos
  exact ⟨le_rmin (le_rmax_right _ _) h, rmin_le_right _ _⟩

/-- ... and is the identity on centroids that already lie inside -/
theorem parkPos_id {P : Params} {pk : Rat} (h1 : P.low ≤ pk) (h2 : pk ≤ P.high) :
    parkPos pk P.low P.high = pk := by
  unfold parkPos rmin rmax
  split_ifs <;> linarith

/-- number of steps per pass as a natural number: |num - 1| -/
def L (P : Params) : Nat := (P.num - 1).natAbs

theorem L_cast (P : Params) : ((L P : Nat) : Rat) = |stepDen P.numR| := by
  unfold L stepDen Params.numR
  rw [Nat.cast_natAbs]; push_cast; rfl

theorem L_pos {P : Params} (h : P.zeroDiv = false) : 0 < ((L P : Nat) : Rat) := by
  rw [L_cast]; exact abs_pos.mpr (zeroDiv_false h)

/-- the two ways the loop body can keep the generator running -/
theorem body_run {P : Params} {I : Resp} {s s' : St} (hb : body P I s = .run s') :
    (inRange s.start s.stop (nextUpd s.nextPos s.step) = true ∧ s' = cont I s) ∨
    (inRange s.start s.stop (nextUpd s.nextPos s.step) = false ∧ sumI' I s ≠ 0 ∧ s' = recentre P I s) := by
  revert hb
  unfold body
  split_ifs with hr hz
  · intro hb; simp only [Phase.run.injEq] at hb; exact Or.inl ⟨hr, hb.symm⟩
  · intro hb; simp at hb
  · intro hb; simp only [Phase.run.injEq] at hb
    rw [zeroGuard_iff] at hz
    exact Or.inr ⟨by simpa using hr, hz, hb.symm⟩

theorem body_not_exited {P : Params} {I : Resp} {s : St} {p : Option Rat} : body P I s ≠ .exited p := by
  unfold body; split_ifs <;> simp

/-! ### iteration -/

theorem iterN_finished_succ {P : Params} {I : Resp} {n : Nat} {ph : Phase}
    (h : (iterN P I n ph).finished = true) : (iterN P I (n + 1) ph).finished = true := by
  simp only [iterN]
  cases hp : iterN P I n ph with
  | run s => rw [hp] at h; simp [Phase.finished] at h
  | exited p => simp [iter, Phase.finished]
  | returned => simp [iter, Phase.finished]

theorem iterN_finished_mono {P : Params} {I : Resp} {n m : Nat} {ph : Phase}
    (h : (iterN P I n ph).finished = true) (hnm : n ≤ m) : (iterN P I m ph).finished = true := by
  induction hnm with
  | refl => exact h
  | step _ ih => exact iterN_finished_succ ih

/-- induction over loop iterations for properties of *running* states -/
theorem run_induction {P : Params} {I : Resp} (Inv : Nat → St → Prop)
    (h0 : Inv 0 (init P))
    (hstep : ∀ n s s', Inv n s → live P s = true → body P I s = .run s' → Inv (n + 1) s') :
    ∀ n s, iterN P I n (start0 P) = .run s → Inv n s := by
  intro n
  induction n with
  | zero => intro s h; simp [iterN, start0] at h; subst h; exact h0
  | succ n ih =>
    intro s' h
    simp only [iterN] at h
    cases hp : iterN P I n (start0 P) with
    | run s =>
      rw [hp] at h
      simp only [iter] at h
      by_cases hl : live P s = true
      · simp only [hl, if_true] at h
        exact hstep n s s' (ih s hp) hl h
      · simp [hl] at h
    | exited p => rw [hp] at h; simp [iter] at h
    | returned => rw [hp] at h; simp [iter] at h

/-- if no state reachable in exactly `N` iterations is live, the plan has finished within `N + 1` -/
theorem finished_of_not_live {P : Params} {I : Resp} {N : Nat}
    (h : ∀ s, iterN P I N (start0 P) = .run s → live P s = false) :
    (iterN P I (N + 1) (start0 P)).finished = true := by
  simp only [iterN]
  cases hp : iterN P I N (start0 P) with
  | run s => simp [iter, h s hp, Phase.finished]
  | exited p => simp [iter, Phase.finished]
  | returned => simp [iter, Phase.finished]

/-- an `exited p` phase arises from a running state whose (clamped) park position is `p` -/
theorem exited_from_run {P : Params} {I : Resp} {n : Nat} {p : Option Rat}
    (h : iterN P I n (start0 P) = .exited p) :
    ∃ m s, iterN P I m (start0 P) = .run s ∧ park P s = p := by
  induction n with
  | zero => simp [iterN, start0] at h
  | succ n ih =>
    simp only [iterN] at h
    cases hp : iterN P I n (start0 P) with
    | run s =>
      rw [hp] at h
      simp only [iter] at h
      by_cases hl : live P s = true
      · simp only [hl, if_true] at h
        exact absurd h body_not_exited
      · simp only [hl] at h
        simp at h
        exact ⟨n, s, hp, h⟩
    | exited q => rw [hp] at h; simp only [iter] at h; exact ih (by rw [hp, h])
    | returned => rw [hp] at h; simp [iter] at h

/-! ### the centroid invariant (non-negative signals) -/

/-- the accumulators describe a non-negative weighting of positions inside [low, high],
    and any centroid computed so far lies inside [low, high] -/
def NN (P : Params) (s : St) : Prop :=
  0 ≤ s.sumI ∧ P.low * s.sumI ≤ s.sumXI ∧ s.sumXI ≤ P.high * s.sumI ∧
    ∀ p, s.peak = some p → P.low ≤ p ∧ p ≤ P.high

theorem nn_init (P : Params) : NN P (init P) := by
  refine ⟨by simp [init], by simp [init], by simp [init], ?_⟩
  intro p hp; simp [init] at hp

theorem nn_body {P : Params} {I : Resp} (hI : ∀ k p, 0 ≤ I k p) {s s' : St}
    (hn : NN P s) (hl : live P s = true) (hb : body P I s = .run s') : NN P s' := by
  obtain ⟨h0, h1, h2, h3⟩ := hn
  obtain ⟨_, hlo, hhi⟩ := (live_iff P s).mp hl
  have hc := hI s.k s.nextPos
  have e1 : P.low * I s.k s.nextPos ≤ s.nextPos * I s.k s.nextPos := mul_le_mul_of_nonneg_right hlo hc
  have e2 : s.nextPos * I s.k s.nextPos ≤ P.high * I s.k s.nextPos := mul_le_mul_of_nonneg_right hhi hc
  rcases body_run hb with ⟨_, rfl⟩ | ⟨_, hz, rfl⟩
  · refine ⟨?_, ?_, ?_, h3⟩
    · simp only [cont, sumI', sumIUpd]; linarith
    · simp only [cont, sumI', sumXI', sumIUpd, sumXIUpd]; linarith
    · simp only [cont, sumI', sumXI', sumIUpd, sumXIUpd]; linarith
  · refine ⟨by simp [recentre], by simp [recentre], by simp [recentre], ?_⟩
    intro p hp
    simp only [recentre, Option.some.injEq] at hp
    subst hp
    simp only [sumI', sumXI', sumIUpd, sumXIUpd] at hz ⊢
    have hpos : 0 < s.sumI + I s.k s.nextPos := lt_of_le_of_ne (by linarith) (Ne.symm hz)
    unfold peak
    constructor
    · rw [le_div_iff₀ hpos]; linarith
    · rw [div_le_iff₀ hpos]; linarith

theorem nn_reach {P : Params} {I : Resp} (hI : ∀ k p, 0 ≤ I k p) :
    ∀ n s, iterN P I n (start0 P) = .run s → NN P s :=
  run_induction (fun _ s => NN P s) (nn_init P) (fun _ _ _ hn hl hb => nn_body hI hn hl hb)

/-! ### the pass-counting invariant -/

/-- `j` = completed passes, `i` = points already taken in the current pass -/
def Cnt (P : Params) (n : Nat) (s : St) : Prop :=
  ∃ j i : Nat, n ≤ j * (L P + 1) + i ∧ i ≤ L P ∧
    |s.stop - s.start| * P.stepFactor ^ j ≤ |P.stop - P.start| ∧
    s.step = (s.stop - s.start) / stepDen P.numR ∧ s.nextPos = s.start + i * s.step

theorem cnt_init (P : Params) : Cnt P 0 (init P) :=
  ⟨0, 0, by simp, Nat.zero_le _, by simp [init], by simp [init, passStep, stepNum], by simp [init]⟩

theorem cnt_body {P : Params} {I : Resp} (h : P.rejected = false) (hz : P.zeroDiv = false)
    {n : Nat} {s s' : St} (hc : Cnt P n s) (hl : live P s = true) (hb : body P I s = .run s') :
    Cnt P (n + 1) s' := by
  obtain ⟨j, i, hn, hiL, hW, hstep, hpos⟩ := hc
  obtain ⟨hmin, _, _⟩ := (live_iff P s).mp hl
  have hv := rejected_false h
  have hLpos := L_pos hz
  have hLc := L_cast P
  have hden := zeroDiv_false hz
  have hsf : 0 < P.stepFactor := by linarith
  rcases body_run hb with ⟨hr, rfl⟩ | ⟨_, _, rfl⟩
  · -- the pass continues: (j, i + 1)
    have habs : |s.step| = |s.stop - s.start| / |stepDen P.numR| := by rw [hstep, abs_div]
    have hWpos : 0 < |s.stop - s.start| := by
      by_contra hcon
      have h0 : |s.stop - s.start| = 0 := le_antisymm (not_lt.mp hcon) (abs_nonneg _)
      rw [habs, h0, zero_div] at hmin
      linarith
    -- the in-range test bounds the distance from the pass start
    rw [inRange_iff] at hr
    simp only [nextUpd] at hr
    have hdist : |((i : Rat) + 1) * s.step| ≤ |s.stop - s.start| := by
      have e : s.nextPos + s.step = s.start + ((i : Rat) + 1) * s.step := by rw [hpos]; ring
      rw [e] at hr
      obtain ⟨hr1, hr2⟩ := hr
      rcases le_total s.start s.stop with hle | hle
      · rw [min_eq_left hle] at hr1; rw [max_eq_right hle] at hr2
        rw [abs_le, abs_of_nonneg (by linarith : 0 ≤ s.stop - s.start)]
        constructor <;> linarith
      · rw [min_eq_right hle] at hr1; rw [max_eq_left hle] at hr2
        rw [abs_le, abs_of_nonpos (by linarith : s.stop - s.start ≤ 0)]
        constructor <;> linarith
    have hi1 : ((i : Rat) + 1) ≤ (L P : Rat) := by
      rw [abs_mul, abs_of_nonneg (by positivity : (0 : Rat) ≤ (i : Rat) + 1), habs, ← hLc] at hdist
      have h1 : ((i : Rat) + 1) * |s.stop - s.start| ≤ |s.stop - s.start| * (L P : Rat) :=
        (div_le_iff₀ hLpos).mp (by rw [← mul_div_assoc] at hdist; exact hdist)
      have h2 : ((i : Rat) + 1) * |s.stop - s.start| ≤ (L P : Rat) * |s.stop - s.start| := by
        linarith [mul_comm (L P : Rat) |s.stop - s.start|]
      exact le_of_mul_le_mul_right h2 hWpos
    have hi1' : i + 1 ≤ L P := by exact_mod_cast hi1
    refine ⟨j, i + 1, by omega, hi1', hW, hstep, ?_⟩
    simp only [cont, nextUpd]; rw [hpos]; push_cast; ring
  · -- recentre: (j + 1, 0)
    refine ⟨j + 1, 0, ?_, Nat.zero_le _, ?_, ?_, by simp [recentre]⟩
    · have : (j + 1) * (L P + 1) = j * (L P + 1) + L P + 1 := by ring
      omega
    · -- the new range is at most the old one divided by step_factor
      have hll := low_le_high P
      have hclip : ∀ pk r : Rat, |newStop pk r P.low P.high - newStart pk r P.low P.high| ≤ |r| := by
        intro pk r
        unfold newStop newStart
        have := rclip_sub_abs_le (pk + r / 2) (pk - r / 2) hll
        have e : pk + r / 2 - (pk - r / 2) = r := by ring
        rwa [e] at this
      have hr : |newRange s.start s.stop P.stepFactor| = |s.stop - s.start| / P.stepFactor := by
        unfold newRange; rw [abs_div, abs_of_pos hsf]
      have hnew : |(recentre P I s).stop - (recentre P I s).start| ≤ |s.stop - s.start| / P.stepFactor := by
        rw [← hr]
        simp only [recentre]
        split_ifs
        · rw [abs_sub_comm]; exact hclip _ _
        · exact hclip _ _
      calc _ ≤ |s.stop - s.start| / P.stepFactor * P.stepFactor ^ (j + 1) :=
              mul_le_mul_of_nonneg_right hnew (le_of_lt (pow_pos hsf (j + 1)))
        _ = |s.stop - s.start| * P.stepFactor ^ j := by
              rw [pow_succ]; field_simp
        _ ≤ _ := hW
    · simp only [recentre, passStep, stepNum]

theorem cnt_reach {P : Params} {I : Resp} (h : P.rejected = false) (hz : P.zeroDiv = false) :
    ∀ n s, iterN P I n (start0 P) = .run s → Cnt P n s :=
  run_induction (Cnt P) (cnt_init P) (fun _ _ _ hc hl hb => cnt_body h hz hc hl hb)

/-- a live state reachable in `n` iterations has `n < K * (L + 1)` -/
theorem live_bound {P : Params} {I : Resp} (h : P.rejected = false) (hz : P.zeroDiv = false)
    {K : Nat} (hK : |P.stop - P.start| < P.minStep * (L P : Rat) * P.stepFactor ^ K)
    {n : Nat} {s : St} (hs : iterN P I n (start0 P) = .run s) (hl : live P s = true) :
    n < K * (L P + 1) := by
  obtain ⟨j, i, hn, hiL, hW, hstep, _⟩ := cnt_reach h hz n s hs
  obtain ⟨hmin, _, _⟩ := (live_iff P s).mp hl
  have hv := rejected_false h
  have hLpos := L_pos hz
  have hsf : 0 < P.stepFactor := by linarith
  have habs : |s.step| = |s.stop - s.start| / (L P : Rat) := by rw [hstep, abs_div, L_cast]
  rw [habs, le_div_iff₀ hLpos] at hmin
  have hjK : j < K := by
    by_contra hcon
    have hKj : K ≤ j := not_lt.mp hcon
    have hp : P.stepFactor ^ K ≤ P.stepFactor ^ j := pow_le_pow_right₀ (le_of_lt hv.2) hKj
    have hm : 0 ≤ P.minStep * (L P : Rat) := mul_nonneg (le_of_lt hv.1) (le_of_lt hLpos)
    have h1 : P.minStep * (L P : Rat) * P.stepFactor ^ K ≤ |s.stop - s.start| * P.stepFactor ^ j := by
      calc _ ≤ P.minStep * (L P : Rat) * P.stepFactor ^ j := mul_le_mul_of_nonneg_left hp hm
        _ ≤ _ := mul_le_mul_of_nonneg_right hmin (le_of_lt (pow_pos hsf j))
    linarith
  have : (j + 1) * (L P + 1) ≤ K * (L P + 1) := Nat.mul_le_mul_right _ hjK
  have e : (j + 1) * (L P + 1) = j * (L P + 1) + L P + 1 := by ring
  omega

end BlueskyVerif.C29.TuneLemmas
