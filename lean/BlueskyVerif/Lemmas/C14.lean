/-
C14: run keys.  A bundle-level command touches only the bundler registered under the key of its message
(up to the engine-global implicit checkpoint of monitor / unmonitor / close_run) and the documents it emits
carry the run index of that bundler.
-/
import BlueskyVerif.Lemmas.C01Sched
import BlueskyVerif.Lemmas.C01Spec

namespace BlueskyVerif.Engine

/-- bundlers under every key other than `key` are literally unchanged -/
def OtherKeys (s s' : EState) (key : String) : Prop :=
  ∀ k, k ≠ key → assocGet k s'.bundlers = assocGet k s.bundlers

/-- ... unchanged up to the engine-wide checkpoint reset (which only copies the sequence counters) -/
def OtherKeysCk (s s' : EState) (key : String) : Prop :=
  ∀ k, k ≠ key → assocGet k s'.bundlers = assocGet k s.bundlers ∨
    assocGet k s'.bundlers = (assocGet k s.bundlers).map Bundler.resetCheckpoint

/-- `s'` has emitted, after `s`, only documents of run `rid` -/
def EmitsFor (s s' : EState) (rid : Nat) : Prop := ∃ new, s'.docs = s.docs ++ new ∧ ∀ d ∈ new, d.run = rid

theorem EmitsFor.none {s s' : EState} {rid : Nat} (h : s'.docs = s.docs) : EmitsFor s s' rid :=
  ⟨[], by rw [h, List.append_nil], by intro d hd; cases hd⟩

theorem EmitsFor.emit {s s' : EState} {rid : Nat} (h : EmitsFor s s' rid) (d : Doc) (hd : d.run = rid) :
    EmitsFor s (s'.emit d) rid := by
  obtain ⟨new, e, hn⟩ := h
  refine ⟨new ++ [d], by show s'.docs ++ [d] = _; rw [e, List.append_assoc], ?_⟩
  intro x hx
  rcases List.mem_append.mp hx with hx | hx
  · exact hn x hx
  · simp only [List.mem_singleton] at hx; subst hx; exact hd

theorem EmitsFor.congr {s s' s'' : EState} {rid : Nat} (h : EmitsFor s s' rid) (e : s''.docs = s'.docs) : EmitsFor s s'' rid := by
  obtain ⟨new, e', hn⟩ := h
  exact ⟨new, e.trans e', hn⟩

theorem OtherKeys.refl (s : EState) (key : String) : OtherKeys s s key := fun _ _ => rfl

theorem otherKeys_put {s s' : EState} (m : Msg) (b : Bundler) (h : s'.bundlers = s.bundlers) :
    OtherKeys s (putBundler s' m b) (runKey m) := by
  intro k hk
  show assocGet k (assocSet (runKey m) b s'.bundlers) = _
  rw [assocGet_assocSet_ne hk, h]

theorem OtherKeys.ck {s s' : EState} {key : String} (h : OtherKeys s s' key) : OtherKeysCk s s' key :=
  fun k hk => Or.inl (h k hk)

theorem assocGet_map {β} (g : β → β) (k : String) (l : List (String × β)) :
    assocGet k (l.map (fun kb => (kb.1, g kb.2))) = (assocGet k l).map g := by
  induction l with
  | nil => rfl
  | cons p l ih =>
    obtain ⟨a, b⟩ := p
    simp only [List.map_cons, assocGet]
    split
    · rfl
    · exact ih

/-- the engine-wide checkpoint reset applied on top -/
theorem OtherKeys.resetCk {s s' : EState} {key : String} (h : OtherKeys s s' key) :
    OtherKeysCk s (resetCheckpointMeth s') key := by
  intro k hk
  unfold resetCheckpointMeth
  split
  · exact Or.inl (h k hk)
  · right
    rw [forBundlers_pure]
    show assocGet k (List.map _ s'.bundlers) = _
    rw [assocGet_map, h k hk]

theorem docs_resetCheckpointMeth (s : EState) : (resetCheckpointMeth s).docs = s.docs :=
  congrArg DV.docs (dv_resetCheckpointMeth s)

theorem docs_suspendMonitors (s : EState) (b : Bundler) : (suspendMonitors s b).1.docs = s.docs := by
  unfold suspendMonitors
  simp only []
  generalize b.monitors = l
  induction l generalizing s with
  | nil => rfl
  | cons a l ih => rw [List.foldl_cons, ih]; rfl

theorem closeRunDoc_fst (s : EState) (b : Bundler) (e r : String) :
    (closeRunDoc s b e r).1 = (suspendMonitors s b).1.emit
      { kind := "stop", run := b.runId, exit := e, reason := r, numEvents := b.seq.map (fun kv => (kv.1, kv.2 - 1)) } := rfl

/-! ## create / read / save / drop: the other bundlers are literally unchanged -/

theorem route_cmdCreate (s : EState) (m : Msg) : OtherKeys s (cmdCreate s m).1 (runKey m) ∧ (cmdCreate s m).1.docs = s.docs := by
  unfold cmdCreate
  split
  · exact ⟨OtherKeys.refl _ _, rfl⟩
  · split
    · exact ⟨OtherKeys.refl _ _, rfl⟩
    · split <;> exact ⟨otherKeys_put m _ rfl, rfl⟩

theorem route_cmdDrop (s : EState) (m : Msg) : OtherKeys s (cmdDrop s m).1 (runKey m) ∧ (cmdDrop s m).1.docs = s.docs := by
  unfold cmdDrop
  split
  · exact ⟨OtherKeys.refl _ _, rfl⟩
  · split
    · exact ⟨OtherKeys.refl _ _, rfl⟩
    · exact ⟨otherKeys_put m _ rfl, rfl⟩

theorem route_cmdRead (s : EState) (m : Msg) : OtherKeys s (cmdRead s m).1 (runKey m) ∧ (cmdRead s m).1.docs = s.docs := by
  unfold cmdRead
  simp only []
  have h1 : (if (specOf s (m.obj.getD "")).map (·.kind) == some "det" then nextMode s (m.obj.getD "") "read" else ("done", s)).2.bundlers = s.bundlers ∧
      (if (specOf s (m.obj.getD "")).map (·.kind) == some "det" then nextMode s (m.obj.getD "") "read" else ("done", s)).2.docs = s.docs := by
    split <;> exact ⟨rfl, rfl⟩
  generalize (if (specOf s (m.obj.getD "")).map (·.kind) == some "det" then nextMode s (m.obj.getD "") "read" else ("done", s)) = p at h1 ⊢
  obtain ⟨mode, s1⟩ := p
  obtain ⟨hb1, hd1⟩ := h1
  simp only [] at hb1 hd1 ⊢
  have base : ∀ s2 : EState, s2.bundlers = s1.bundlers → s2.docs = s1.docs → OtherKeys s s2 (runKey m) ∧ s2.docs = s.docs := by
    intro s2 e1 e2
    exact ⟨fun k _ => by rw [e1, hb1], e2.trans hd1⟩
  split
  · exact base _ rfl rfl
  · have h2 : (if (specOf s1 (m.obj.getD "")).map (·.kind) == some "det" then
        s1.logCall { dev := m.obj.getD "", op := "read", arg := some (readingOf s1 (m.obj.getD "")) } else s1).bundlers = s1.bundlers ∧
        (if (specOf s1 (m.obj.getD "")).map (·.kind) == some "det" then
        s1.logCall { dev := m.obj.getD "", op := "read", arg := some (readingOf s1 (m.obj.getD "")) } else s1).docs = s1.docs := by
      split <;> exact ⟨rfl, rfl⟩
    generalize (if (specOf s1 (m.obj.getD "")).map (·.kind) == some "det" then
        s1.logCall { dev := m.obj.getD "", op := "read", arg := some (readingOf s1 (m.obj.getD "")) } else s1) = s2 at h2 ⊢
    obtain ⟨hb2, hd2⟩ := h2
    split
    · exact base _ hb2 hd2
    · split
      · split
        · exact base _ hb2 hd2
        · refine ⟨?_, hd2.trans hd1⟩
          intro k hk
          show assocGet k (assocSet (runKey m) _ s2.bundlers) = _
          rw [assocGet_assocSet_ne hk, hb2, hb1]
      · exact base _ hb2 hd2

theorem route_cmdSave (s : EState) (m : Msg) (b : Bundler) (hb : getBundler s m = some b) :
    OtherKeys s (cmdSave s m).1 (runKey m) ∧ EmitsFor s (cmdSave s m).1 b.runId := by
  unfold cmdSave
  simp only [hb]
  split
  · exact ⟨OtherKeys.refl _ _, EmitsFor.none rfl⟩
  · split
    · exact ⟨otherKeys_put m _ rfl, EmitsFor.none rfl⟩
    · split
      · refine ⟨otherKeys_put m _ rfl, ?_⟩
        have hrun : (prepareStream s { b with bundling := false, bundleName := "" } b.bundleName b.objsRead).2.runId = b.runId := by
          unfold prepareStream; simp only []; split <;> rfl
        have h1 : EmitsFor s (prepareStream s { b with bundling := false, bundleName := "" } b.bundleName b.objsRead).1 b.runId :=
          (EmitsFor.none rfl).emit _ rfl
        exact (h1.emit _ hrun).congr rfl
      · split
        · exact ⟨otherKeys_put m _ rfl, EmitsFor.none rfl⟩
        · exact ⟨otherKeys_put m _ rfl, ((EmitsFor.none rfl).emit _ rfl).congr rfl⟩

/-! ## monitor / unmonitor / close_run: implicit (engine-wide) checkpoint on top -/

theorem route_cmdMonitor (s : EState) (m : Msg) (b : Bundler) (hb : getBundler s m = some b) :
    OtherKeysCk s (cmdMonitor s m).1 (runKey m) ∧ EmitsFor s (cmdMonitor s m).1 b.runId := by
  unfold cmdMonitor
  simp only [hb]
  split
  · exact ⟨(OtherKeys.refl _ _).ck, EmitsFor.none rfl⟩
  · refine ⟨(otherKeys_put m _ rfl).resetCk, ?_⟩
    refine EmitsFor.congr ?_ (docs_resetCheckpointMeth _)
    exact ((EmitsFor.none rfl).emit _ rfl).congr rfl

theorem route_cmdUnmonitor (s : EState) (m : Msg) (b : Bundler) (hb : getBundler s m = some b) :
    OtherKeysCk s (cmdUnmonitor s m).1 (runKey m) ∧ (cmdUnmonitor s m).1.docs = s.docs := by
  unfold cmdUnmonitor
  simp only [hb]
  split
  · exact ⟨(OtherKeys.refl _ _).ck, rfl⟩
  · exact ⟨(otherKeys_put m _ rfl).resetCk, docs_resetCheckpointMeth _⟩

theorem route_cmdCloseRun (s : EState) (m : Msg) (b : Bundler) (hb : getBundler s m = some b) :
    OtherKeysCk s (cmdCloseRun s m).1 (runKey m) ∧ EmitsFor s (cmdCloseRun s m).1 b.runId := by
  unfold cmdCloseRun
  simp only [hb]
  split
  · exact ⟨(OtherKeys.refl _ _).ck, EmitsFor.none rfl⟩
  · simp only []
    have hk : OtherKeys s { (closeRunDoc s b (m.name.getD "success") "").1 with
        bundlers := assocErase (runKey m) (closeRunDoc s b (m.name.getD "success") "").1.bundlers } (runKey m) := by
      intro k hk
      show assocGet k (assocErase (runKey m) (closeRunDoc s b (m.name.getD "success") "").1.bundlers) = _
      rw [assocGet_assocErase_ne hk, closeRunDoc_bundlers]
    have hd : EmitsFor s { (closeRunDoc s b (m.name.getD "success") "").1 with
        bundlers := assocErase (runKey m) (closeRunDoc s b (m.name.getD "success") "").1.bundlers } b.runId := by
      have h0 : EmitsFor s (suspendMonitors s b).1 b.runId := EmitsFor.none (docs_suspendMonitors s b)
      refine EmitsFor.congr (s' := (closeRunDoc s b (m.name.getD "success") "").1) ?_ rfl
      rw [closeRunDoc_fst]
      exact h0.emit _ rfl
    split
    · exact ⟨hk.resetCk, hd.congr (docs_resetCheckpointMeth _)⟩
    · exact ⟨hk.ck, hd⟩

/-- `open_run` (accepted or rejected) leaves the bundlers under all other keys alone -/
theorem route_cmdOpenRun (s : EState) (m : Msg) : OtherKeys s (cmdOpenRun s m).1 (runKey m) := by
  by_cases hn : (getBundler s m).isSome = true
  · rw [cmdOpenRun_rejected s m hn]; exact OtherKeys.refl _ _
  · obtain ⟨b, _, _, _, _, _, e4, _⟩ := cmdOpenRun_shape s m hn
    intro k hk
    rw [e4]
    have : ∀ l : List (String × Bundler), assocGet k (l ++ [(runKey m, b)]) = assocGet k l := by
      intro l
      induction l with
      | nil =>
        have hk' : ¬ runKey m = k := fun e => hk e.symm
        simp [assocGet, hk']
      | cons p l ih =>
        obtain ⟨a, c⟩ := p
        simp only [List.cons_append, assocGet]
        split
        · rfl
        · exact ih
    exact this _

end BlueskyVerif.Engine
