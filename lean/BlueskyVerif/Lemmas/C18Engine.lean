/-
Helper lemmas for C18/C19: the refinement lifted to the RunEngine's per-call bookkeeping and to
whole histories.
-/
import BlueskyVerif.Lemmas.C18Rel

namespace BlueskyVerif.Disp
open OD

/-! ### facts about the spec alone -/

theorem Spec.restrict_congr (s : Spec) (p q : Sub → Bool) (h : ∀ x ∈ s.live, p x = q x) :
    s.restrict p = s.restrict q := by
  have : s.live.filter p = s.live.filter q := List.filter_congr h
  simp only [Spec.restrict, this]

theorem Spec.restrict_restrict (s : Spec) (p q : Sub → Bool) :
    (s.restrict p).restrict q = s.restrict (fun x => p x && q x) := by
  have hl : (s.live.filter p).filter q = s.live.filter (fun x => p x && q x) := by
    rw [List.filter_filter]
    apply List.filter_congr; intro x _; exact Bool.and_comm _ _
  simp only [Spec.restrict, hl]
  congr 1
  funext k
  rw [List.filter_filter]
  apply List.filter_congr
  intro f _
  cases h2 : liveFor (s.live.filter (fun x => p x && q x)) f k with
  | false => simp
  | true =>
    have : liveFor (s.live.filter p) f k = true := by
      apply liveFor_mono _ h2
      intro x hx
      have := List.mem_filter.1 hx
      exact List.mem_filter.2 ⟨this.1, by have := this.2; simp at this; exact this.1⟩
    simp [this]

theorem Spec.restrict_all (s : Spec) (hs : ∀ k f, f ∈ s.order k → liveFor s.live f k = true)
    (p : Sub → Bool) (hp : ∀ x ∈ s.live, p x = true) : s.restrict p = s := by
  have hl : s.live.filter p = s.live := List.filter_eq_self.2 hp
  cases s with
  | mk live next order =>
    simp only [Spec.restrict] at hl ⊢
    rw [hl]
    congr 1
    funext k
    exact List.filter_eq_self.2 (fun f hf => hs k f hf)

/-! ### the engine level -/

structure RelE (ig : Bool) (e : Engine) (s : Spec) : Prop where
  rel : Rel ig e.disp s
  temp : ∀ sub ∈ s.live, sub.temp = true ↔ sub.tok ∈ e.temp
  tempBound : ∀ t ∈ e.temp, t < s.next

theorem relE_init (ig : Bool) : RelE ig { disp := { reg := { ignoreExceptions := ig } } } {} :=
  ⟨rel_init ig, by intro sub h; simp at h, by intro t h; simp at h⟩

theorem mem_tempAdd (l : List Token) (x t : Token) : t ∈ Engine.tempAdd l x ↔ t ∈ l ∨ t = x := by
  unfold Engine.tempAdd
  split
  · constructor
    · intro h; left; exact h
    · rintro (h | h)
      · exact h
      · subst h; assumption
  · simp

theorem foldl_unsubscribe_rel {ig : Bool} (ts : List Token) {d : Dispatcher} {s : Spec} (h : Rel ig d s) :
    Rel ig (ts.foldl (fun d t => d.unsubscribe t) d) (s.restrict (fun x => !ts.contains x.tok)) := by
  induction ts generalizing d s with
  | nil =>
    rw [Spec.restrict_all s (fun k f hf => (h.sinv k f).1 hf) _ (by intro x _; simp)]
    exact h
  | cons t ts ih =>
    simp only [List.foldl_cons]
    have h1 := ih (unsubscribe_rel h t)
    have : (s.remove t).restrict (fun x => !ts.contains x.tok) = s.restrict (fun x => !(t :: ts).contains x.tok) := by
      unfold Spec.remove
      rw [Spec.restrict_restrict]
      apply Spec.restrict_congr
      intro x _
      simp only [List.contains_cons, Bool.not_or]
      congr 1
    rw [← this]
    exact h1

theorem clearCallCache_rel {ig : Bool} {e : Engine} {s : Spec} (h : RelE ig e s) :
    RelE ig e.clearCallCache s.dropTemp := by
  have hd : s.dropTemp = s.restrict (fun x => !e.temp.contains x.tok) := by
    unfold Spec.dropTemp
    apply Spec.restrict_congr
    intro x hx
    have := h.temp x hx
    cases ht : x.temp
    · have : x.tok ∉ e.temp := fun hm => by simpa [ht] using this.2 hm
      simp [this]
    · have : x.tok ∈ e.temp := this.1 ht
      simp [this]
  simp only [Engine.clearCallCache, Generated.clearUnsubscribes, Generated.clearClears, if_true]
  refine ⟨?_, ?_, ?_⟩
  · rw [hd]; exact foldl_unsubscribe_rel e.temp h.rel
  · intro sub hs
    have : sub.temp = false := by
      have := (List.mem_filter.1 hs).2
      simpa using this
    simp [this]
  · intro t ht; simp at ht

theorem add_temp_rel {ig : Bool} {e : Engine} {s : Spec} (h : RelE ig e s) (f : Callable) (name : Name)
    (hv : name.valid = true) :
    (e.disp.subscribe f name).2 = some s.next ∧
    RelE ig { disp := (e.disp.subscribe f name).1, temp := Engine.tempAdd e.temp s.next } (s.add f name true) := by
  obtain ⟨ht, hr⟩ := subscribe_rel h.rel f name true hv
  refine ⟨ht, hr, ?_, ?_⟩
  · intro sub hs
    show sub.temp = true ↔ sub.tok ∈ Engine.tempAdd e.temp s.next
    rw [mem_tempAdd]
    rcases List.mem_append.1 hs with hs | hs
    · have h1 := h.temp sub hs
      have h2 := h.rel.fresh sub hs
      constructor
      · intro a; left; exact h1.1 a
      · rintro (a | a)
        · exact h1.2 a
        · nomega
    · simp at hs; subst hs; simp
  · intro t ht
    show t < s.next + 1
    rcases (mem_tempAdd _ _ _).1 ht with a | a
    · have := h.tempBound t a; nomega
    · nomega

theorem add_perm_rel {ig : Bool} {e : Engine} {s : Spec} (h : RelE ig e s) (f : Callable) (name : Name)
    (hv : name.valid = true) :
    (e.disp.subscribe f name).2 = some s.next ∧
    RelE ig { e with disp := (e.disp.subscribe f name).1 } (s.add f name false) := by
  obtain ⟨ht, hr⟩ := subscribe_rel h.rel f name false hv
  refine ⟨ht, hr, ?_, ?_⟩
  · intro sub hs
    show sub.temp = true ↔ sub.tok ∈ e.temp
    rcases List.mem_append.1 hs with hs | hs
    · exact h.temp sub hs
    · simp at hs; subst hs
      simp only [Bool.false_eq_true, false_iff]
      intro a
      have := h.tempBound _ a
      nomega
  · intro t ht
    show t < s.next + 1
    have := h.tempBound t ht; nomega

theorem subscribePerCall_rel {ig : Bool} (subs : List (Name × Callable)) {e : Engine} {s : Spec} (h : RelE ig e s) :
    RelE ig (e.subscribePerCall subs) (s.addPerCall subs) := by
  induction subs generalizing e s with
  | nil => exact h
  | cons p rest ih =>
    obtain ⟨name, f⟩ := p
    cases hv : name.valid with
    | true =>
      obtain ⟨ht, hr⟩ := add_temp_rel h f name hv
      have e1 : e.disp.subscribe f name = ((e.disp.subscribe f name).1, some s.next) := by rw [← ht]
      unfold Engine.subscribePerCall Spec.addPerCall
      rw [e1]
      simp only [hv, if_true, Generated.perCallSubsTemp]
      exact ih hr
    | false =>
      unfold Engine.subscribePerCall Spec.addPerCall
      rw [Dispatcher.subscribe_invalid _ _ _ hv]
      simp only [hv, Bool.false_eq_true, if_false]
      exact h

theorem remove_relE {ig : Bool} {e : Engine} {s : Spec} (h : RelE ig e s) (tok : Token) (temp' : List Token)
    (hsub : ∀ t ∈ temp', t ∈ e.temp)
    (hkeep : ∀ t ∈ e.temp, t ≠ tok → t ∈ temp') :
    RelE ig { disp := e.disp.unsubscribe tok, temp := temp' } (s.remove tok) := by
  refine ⟨unsubscribe_rel h.rel tok, ?_, ?_⟩
  · intro sub hs
    have hs' := List.mem_filter.1 hs
    have hne : sub.tok ≠ tok := by simpa using hs'.2
    have := h.temp sub hs'.1
    show sub.temp = true ↔ sub.tok ∈ temp'
    constructor
    · intro a; exact hkeep _ (this.1 a) hne
    · intro a; exact this.2 (hsub _ a)
  · intro t ht'
    exact h.tempBound t (hsub t ht')

theorem step_rel {ig : Bool} (beh : Beh) {e : Engine} {s : Spec} (h : RelE ig e s) (log : Log) (op : Op) :
    RelE ig (Engine.step beh e log op).1 (s.step op) ∧
    (Engine.step beh e log op).2.1 = s.stepLog beh ig log op := by
  cases op with
  | subscribe f name =>
    cases hv : name.valid with
    | true =>
      obtain ⟨_, hr⟩ := add_perm_rel h f name hv
      simp only [Engine.step, Spec.step, Spec.stepLog, hv, if_true]
      exact ⟨hr, by first | rfl | trivial⟩
    | false =>
      simp only [Engine.step, Spec.step, Spec.stepLog, hv, Dispatcher.subscribe_invalid _ _ _ hv, Bool.false_eq_true, if_false]
      exact ⟨h, by first | rfl | trivial⟩
  | unsubscribe tok =>
    simp only [Engine.step, Spec.step, Spec.stepLog]
    exact ⟨remove_relE h tok e.temp (fun _ a => a) (fun _ a _ => a), by first | rfl | trivial⟩
  | callStart subs =>
    simp only [Engine.step, Spec.step, Spec.stepLog]
    exact ⟨subscribePerCall_rel subs (clearCallCache_rel h), by first | rfl | trivial⟩
  | planSubscribe f name =>
    cases hv : name.valid with
    | true =>
      obtain ⟨ht, hr⟩ := add_temp_rel h f name hv
      have e1 : e.disp.subscribe f name = ((e.disp.subscribe f name).1, some s.next) := by rw [← ht]
      simp only [Engine.step, Spec.step, Spec.stepLog, hv, if_true, Generated.inPlanSubscribeTemp]
      rw [e1]
      exact ⟨hr, by first | rfl | trivial⟩
    | false =>
      simp only [Engine.step, Spec.step, Spec.stepLog, hv, Dispatcher.subscribe_invalid _ _ _ hv, Bool.false_eq_true, if_false]
      exact ⟨h, by first | rfl | trivial⟩
  | planUnsubscribe tok =>
    simp only [Engine.step, Spec.step, Spec.stepLog, Generated.inPlanUnsubscribeForgets, if_true]
    split
    · refine ⟨remove_relE h tok (e.temp.filter (· != tok)) ?_ ?_, by first | rfl | trivial⟩
      · intro t a; exact (List.mem_filter.1 a).1
      · intro t a b; exact List.mem_filter.2 ⟨a, by simpa using b⟩
    · exact ⟨remove_relE h tok e.temp (fun _ a => a) (fun _ a _ => a), by first | rfl | trivial⟩
  | emit k doc =>
    simp only [Engine.step, Spec.step, Spec.stepLog, Dispatcher.process, Registry.process, Registry.callees,
      Generated.processForward, if_true]
    rw [h.rel.order k, h.rel.ig]
    exact ⟨h, by first | rfl | trivial⟩

theorem run_rel {ig : Bool} (beh : Beh) (ops : List Op) {e : Engine} {s : Spec} (h : RelE ig e s) (log : Log) :
    RelE ig (Engine.run beh e log ops).1 (Spec.run beh ig s log ops).1 ∧
    (Engine.run beh e log ops).2.1 = (Spec.run beh ig s log ops).2 := by
  induction ops generalizing e s log with
  | nil => exact ⟨h, rfl⟩
  | cons op ops ih =>
    obtain ⟨hr, hl⟩ := step_rel beh h log op
    have := ih hr (Engine.step beh e log op).2.1
    simp only [Engine.run, Spec.run]
    rw [← hl]
    exact this

end BlueskyVerif.Disp
