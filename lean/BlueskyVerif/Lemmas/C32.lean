/-
Helper lemmas for C32 (simulate_plan loop, handler list, check_limits loop).
-/
import BlueskyVerif.Pure.Simulator

namespace BlueskyVerif.Simulator

section sim
variable {M R V E : Type}

/-- The plan, when every yield `m` is answered with `ρ m`, yields exactly `msgs` (in order) as
    its first `msgs.length` outputs.  Stated without reference to the simulator's loop. -/
def Yields (p : Plan M R V E) (ρ : M → Option R) (msgs : List M) : Prop :=
  ∀ i (h : i < msgs.length), p ((msgs.take i).map ρ) = .yld msgs[i]

theorem Yields.nil (p : Plan M R V E) (ρ : M → Option R) : Yields p ρ [] := by
  intro i h; simp at h

theorem Yields.snoc {p : Plan M R V E} {ρ : M → Option R} {acc : List M} {m : M}
    (hy : Yields p ρ acc) (hm : p (acc.map ρ) = .yld m) : Yields p ρ (acc ++ [m]) := by
  intro i h
  by_cases hi : i < acc.length
  · have := hy i hi
    rw [List.take_append_of_le_length (by omega), List.getElem_append_left hi]
    exact this
  · have : i = acc.length := by simp at h; omega
    subst this
    simp [hm]

theorem Yields.at_end {p : Plan M R V E} {ρ : M → Option R} {acc rest : List M} {m : M}
    (hy : Yields p ρ (acc ++ m :: rest)) : p (acc.map ρ) = .yld m := by
  have := hy acc.length (by simp)
  simpa using this

theorem Yields.prefix {p : Plan M R V E} {ρ : M → Option R} {a b : List M}
    (hy : Yields p ρ (a ++ b)) : Yields p ρ a := by
  intro i h
  have := hy i (by simp; omega)
  rw [List.take_append_of_le_length (by omega), List.getElem_append_left h] at this
  exact this

theorem respond_prev (hs : List (Handler M R V E)) (prev : Option R) (m : M) :
    respond hs prev m = respond hs none m := by
  simp [respond, Gen.resetSendValue]

theorem respond_val_sent {hs : List (Handler M R V E)} {m : M} {r : Option R}
    (h : respond hs none m = .val r) : sent hs m = r := by
  simp [sent, h]

/-- the current `send_value` does not influence the loop (it is reset at the top of the body) -/
theorem simLoop_prev (truthy : M → Bool) (hs : List (Handler M R V E)) (p : Plan M R V E)
    (fuel : Nat) (hist : List (Option R)) (prev : Option R) (msgs : List M) :
    simLoop truthy hs p fuel hist prev msgs = simLoop truthy hs p fuel hist none msgs := by
  cases fuel with
  | zero => rfl
  | succ f => simp only [simLoop, respond_prev hs prev]

/-- how a finished call ended -/
def Final (truthy : M → Bool) (hs : List (Handler M R V E)) (p : Plan M R V E)
    (msgs : List M) (rv : Option V) : Prop :=
  (∃ v, p (msgs.map (sent hs)) = .ret v ∧ rv = record v) ∨
  (∃ m, p (msgs.map (sent hs)) = .yld m ∧ truthy m = false ∧ rv = none) ∨
  (∃ pre m v, msgs = pre ++ [m] ∧ respond hs none m = .stop v ∧ rv = record v)

theorem simLoop_sound (truthy : M → Bool) (hs : List (Handler M R V E)) (p : Plan M R V E)
    (fuel : Nat) (acc : List M) (prev : Option R) (msgs : List M) (rv : Option V)
    (hy : Yields p (sent hs) acc) (ht : ∀ m ∈ acc, truthy m = true)
    (h : simLoop truthy hs p fuel (acc.map (sent hs)) prev acc = .done msgs rv) :
    Yields p (sent hs) msgs ∧ (∀ m ∈ msgs, truthy m = true) ∧ Final truthy hs p msgs rv ∧
      ∃ rest, msgs = acc ++ rest := by
  induction fuel generalizing acc prev with
  | zero => simp [simLoop] at h
  | succ f ih =>
    rw [simLoop_prev] at h
    unfold simLoop at h
    cases hp : p (acc.map (sent hs)) with
    | ret v =>
      simp only [hp] at h
      injection h with h1 h2; subst h1; subst h2
      exact ⟨hy, ht, Or.inl ⟨v, hp, rfl⟩, [], by simp⟩
    | raise e => simp [hp] at h
    | yld m =>
      simp only [hp] at h
      cases htm : truthy m with
      | false =>
        simp only [htm, Bool.not_false, ↓reduceIte] at h
        injection h with h1 h2; subst h1; subst h2
        exact ⟨hy, ht, Or.inr (Or.inl ⟨m, hp, htm, rfl⟩), [], by simp⟩
      | true =>
        simp only [htm, Bool.not_true, Bool.false_eq_true, ↓reduceIte] at h
        have ht' : ∀ x ∈ acc ++ [m], truthy x = true := by
          intro x hx; simp at hx; rcases hx with hx | hx
          · exact ht x hx
          · subst hx; exact htm
        cases hr : respond hs none m with
        | val r =>
          simp only [hr] at h
          have hs' : sent hs m = r := respond_val_sent hr
          have hmap : acc.map (sent hs) ++ [r] = (acc ++ [m]).map (sent hs) := by simp [hs']
          rw [hmap] at h
          obtain ⟨a, b, c, rest, hrest⟩ := ih (acc ++ [m]) r (hy.snoc hp) ht' h
          exact ⟨a, b, c, m :: rest, by simp [hrest]⟩
        | stop v =>
          simp only [hr] at h
          injection h with h1 h2; subst h1; subst h2
          exact ⟨hy.snoc hp, ht', Or.inr (Or.inr ⟨acc, m, v, rfl, hr, rfl⟩), [m], rfl⟩
        | err e => simp [hr] at h

/-- after `rest.length` iterations over truthy messages answered by well-behaved handlers the
    loop has recorded exactly `acc ++ rest` -/
theorem simLoop_advance (truthy : M → Bool) (hs : List (Handler M R V E)) (p : Plan M R V E)
    (rest : List M) (acc : List M) (k : Nat)
    (hy : Yields p (sent hs) (acc ++ rest)) (ht : ∀ m ∈ rest, truthy m = true)
    (hv : ∀ m ∈ rest, ∃ r, respond hs none m = .val r) :
    simLoop truthy hs p (rest.length + k) (acc.map (sent hs)) none acc =
      simLoop truthy hs p k ((acc ++ rest).map (sent hs)) none (acc ++ rest) := by
  induction rest generalizing acc with
  | nil => simp
  | cons m rest ih =>
    have hm : p (acc.map (sent hs)) = .yld m := hy.at_end
    have htm : truthy m = true := ht m (by simp)
    obtain ⟨r, hr⟩ := hv m (by simp)
    have hs' : sent hs m = r := respond_val_sent hr
    have hlen : (m :: rest).length + k = (rest.length + k) + 1 := by simp; omega
    rw [hlen]
    conv => lhs; unfold simLoop
    simp only [hm, htm, hr, Bool.not_true, Bool.false_eq_true, ↓reduceIte]
    rw [simLoop_prev]
    have hmap : acc.map (sent hs) ++ [r] = (acc ++ [m]).map (sent hs) := by simp [hs']
    rw [hmap]
    have hy' : Yields p (sent hs) ((acc ++ [m]) ++ rest) := by simpa using hy
    have := ih (acc ++ [m]) hy' (fun x hx => ht x (by simp [hx])) (fun x hx => hv x (by simp [hx]))
    rw [this]
    simp

/-- more fuel does not change a finished result -/
theorem simLoop_mono (truthy : M → Bool) (hs : List (Handler M R V E)) (p : Plan M R V E)
    (fuel k : Nat) (hist : List (Option R)) (prev : Option R) (acc : List M) (res : Res M V E)
    (h : simLoop truthy hs p fuel hist prev acc = res) (hr : ∀ ms, res ≠ .running ms) :
    simLoop truthy hs p (fuel + k) hist prev acc = res := by
  induction fuel generalizing hist prev acc with
  | zero => simp [simLoop] at h; exact absurd h.symm (hr acc)
  | succ f ih =>
    have : f + 1 + k = (f + k) + 1 := by omega
    rw [this]
    unfold simLoop at h ⊢
    split
    · rename_i v hv; simp only [hv] at h; exact h
    · rename_i e he; simp only [he] at h; exact h
    · rename_i m hm
      simp only [hm] at h
      split
      · rename_i ht; simp only [ht, ↓reduceIte] at h; exact h
      · rename_i ht
        simp only [ht] at h
        split
        · rename_i r hr'; simp only [hr'] at h; exact ih _ _ _ h
        · rename_i v hv; simp only [hv] at h; exact h
        · rename_i e he; simp only [he] at h; exact h

/-! ### the handler list -/

theorem pyInsert_zero {α : Type} (l : List α) (x : α) : pyInsert l 0 x = x :: l := by
  have : ¬ ((l.length : Int) < 0) := by omega
  simp [pyInsert, this]

theorem pyInsert_length {α : Type} (l : List α) (x : α) : pyInsert l l.length x = l ++ [x] := by
  have : ¬ ((l.length : Int) < 0) := by omega
  simp [pyInsert, this]

theorem lookup_cons (h : Handler M R V E) (hs : List (Handler M R V E)) (m : M) :
    lookup (h :: hs) m = if h.pred m then some h else lookup hs m := by
  simp only [lookup, Gen.lookupReversed, Bool.false_eq_true, ↓reduceIte, List.find?_cons]
  cases h.pred m <;> simp

theorem lookup_append (a b : List (Handler M R V E)) (m : M) :
    lookup (a ++ b) m = (lookup a m).or (lookup b m) := by
  simp [lookup, Gen.lookupReversed, List.find?_append]

theorem lookup_nil (m : M) : lookup ([] : List (Handler M R V E)) m = none := by
  simp [lookup]

end sim

/-! ### check_limits -/

section cl
variable {R V E : Type}

/-- the plan, driven by `for msg in plan` (every yield receives None), yields `msgs` first -/
def YieldsNone (p : Plan Msg R V E) (msgs : List Msg) : Prop :=
  ∀ i (h : i < msgs.length), p (List.replicate i none) = .yld msgs[i]

/-- only objects without `check_value` are put on the ignore list -/
def IgnoreInv (ig : List Dev) : Prop := ∀ d ∈ ig, d.limits = none

theorem exists_first {α : Type} (P : α → Bool) (l : List α) (h : ∃ x ∈ l, P x = true) :
    ∃ pre m post, l = pre ++ m :: post ∧ (∀ x ∈ pre, P x = false) ∧ P m = true := by
  induction l with
  | nil => simp at h
  | cons a l ih =>
    by_cases ha : P a = true
    · exact ⟨[], a, l, rfl, by simp, ha⟩
    · have ha' : P a = false := by simpa using ha
      obtain ⟨x, hx, hp⟩ := h
      have : ∃ x ∈ l, P x = true := by
        simp at hx
        rcases hx with rfl | hx
        · simp [hp] at ha'
        · exact ⟨x, hx, hp⟩
      obtain ⟨pre, m, post, e, hpre, hm⟩ := ih this
      refine ⟨a :: pre, m, post, by simp [e], ?_, hm⟩
      intro y hy; simp at hy; rcases hy with rfl | hy; exact ha'; exact hpre y hy

theorem checkLoop_succ (p : Plan Msg R V E) (fuel k : Nat) (ignore : List Dev) :
    checkLoop p (fuel + 1) k ignore =
      match p (List.replicate k none) with
      | .ret _ => .ok ignore
      | .raise e => .planRaised e
      | .yld m =>
        if m.command == Gen.checkedCommand then
          match m.obj with
          | none => .attributeError k
          | some d =>
            if ignore.contains d then checkLoop p fuel (k + 1) ignore
            else match m.args[Gen.checkedArgIndex]? with
              | none => .indexError k
              | some v =>
                match d.limits with
                | some lim => if outOfLimits lim v then .limitError k else checkLoop p fuel (k + 1) ignore
                | none => checkLoop p fuel (k + 1) (ignore ++ [d])
        else checkLoop p fuel (k + 1) ignore := by
  rfl

/-- one harmless message: the loop moves on (possibly extending the ignore list) -/
theorem checkLoop_step (p : Plan Msg R V E) (f k : Nat) (ig : List Dev) (m : Msg)
    (hm : p (List.replicate k none) = .yld m) (hw : wfSet m = true) (ho : offending m = false)
    (hi : IgnoreInv ig) :
    ∃ ig', IgnoreInv ig' ∧ checkLoop p (f + 1) k ig = checkLoop p f (k + 1) ig' := by
  rw [checkLoop_succ]
  simp only [hm]
  by_cases hc : (m.command == Gen.checkedCommand) = true
  · simp only [hc, ↓reduceIte]
    simp only [wfSet, offending, hc, Bool.true_and, bne, Bool.not_true, Bool.false_or,
      Bool.and_eq_true, Option.isSome_iff_exists] at hw ho
    obtain ⟨⟨d, hd⟩, ⟨v, hv⟩⟩ := hw
    simp only [hd, hv] at ho ⊢
    by_cases hg : ig.contains d = true
    · simp only [hg, ↓reduceIte]; exact ⟨ig, hi, rfl⟩
    · simp only [hg, Bool.false_eq_true, ↓reduceIte]
      cases hl : d.limits with
      | none =>
        refine ⟨ig ++ [d], ?_, rfl⟩
        intro x hx; simp at hx; rcases hx with hx | hx
        · exact hi x hx
        · subst hx; exact hl
      | some lim =>
        simp only [hl] at ho
        simp only [ho, Bool.false_eq_true, ↓reduceIte]
        exact ⟨ig, hi, rfl⟩
  · simp only [hc, Bool.false_eq_true, ↓reduceIte]; exact ⟨ig, hi, rfl⟩

theorem checkLoop_advance (p : Plan Msg R V E) (rest : List Msg) (f k : Nat) (ig : List Dev)
    (hy : ∀ j (h : j < rest.length), p (List.replicate (k + j) none) = .yld rest[j])
    (hw : ∀ m ∈ rest, wfSet m = true) (ho : ∀ m ∈ rest, offending m = false) (hi : IgnoreInv ig) :
    ∃ ig', IgnoreInv ig' ∧ checkLoop p (rest.length + f) k ig = checkLoop p f (k + rest.length) ig' := by
  induction rest generalizing k ig with
  | nil => exact ⟨ig, hi, by simp⟩
  | cons m rest ih =>
    have hm : p (List.replicate k none) = .yld m := by
      have := hy 0 (by simp)
      simp only [List.getElem_cons_zero, Nat.add_zero] at this
      exact this
    obtain ⟨ig1, hi1, e1⟩ := checkLoop_step p (rest.length + f) k ig m hm (hw m (by simp)) (ho m (by simp)) hi
    have hy' : ∀ j (h : j < rest.length), p (List.replicate (k + 1 + j) none) = .yld rest[j] := by
      intro j h
      have := hy (j + 1) (by simp; omega)
      have e : k + (j + 1) = k + 1 + j := by omega
      rw [e] at this
      simpa using this
    obtain ⟨ig2, hi2, e2⟩ := ih (k + 1) ig1 hy' (fun x hx => hw x (by simp [hx])) (fun x hx => ho x (by simp [hx])) hi1
    refine ⟨ig2, hi2, ?_⟩
    have hl : (m :: rest).length + f = (rest.length + f) + 1 := by simp; omega
    rw [hl, e1, e2]
    congr 1
    simp; omega

/-- an offending message makes `check_value` raise, whatever is on the ignore list -/
theorem checkLoop_offending (p : Plan Msg R V E) (f k : Nat) (ig : List Dev) (m : Msg)
    (hm : p (List.replicate k none) = .yld m) (ho : offending m = true) (hi : IgnoreInv ig) :
    checkLoop p (f + 1) k ig = .limitError k := by
  rw [checkLoop_succ]
  simp only [hm]
  simp only [offending, Bool.and_eq_true] at ho
  obtain ⟨hc, ho⟩ := ho
  simp only [hc, ↓reduceIte]
  cases hd : m.obj with
  | none => simp [hd] at ho
  | some d =>
    cases hv : m.args[Gen.checkedArgIndex]? with
    | none => simp [hd, hv] at ho
    | some v =>
      cases hl : d.limits with
      | none => simp [hd, hv, hl] at ho
      | some lim =>
        simp only [hd, hv, hl] at ho
        have hg : ig.contains d = false := by
          cases hgc : ig.contains d with
          | false => rfl
          | true =>
            have := hi d (by simpa using hgc)
            simp [hl] at this
        have hg' : d ∉ ig := by simpa using hg
        simp [hg', hl, ho]

end cl

end BlueskyVerif.Simulator
