/-
Helper lemmas for C17: dictionary operations, ChainMap flattening, case analysis of `openRun`.
-/
import BlueskyVerif.Pure.Metadata

namespace BlueskyVerif.Metadata

theorem get?_set (d : Dict) (k : String) (v : Val) (k' : String) :
    get? (set d k v) k' = if k = k' then some v else get? d k' := by
  induction d with
  | nil => simp [set, get?]
  | cons p r ih =>
    obtain ⟨k1, v1⟩ := p
    by_cases h1 : k1 = k
    · subst h1
      simp only [set, if_true, get?]
      split <;> rfl
    · simp only [set, h1, if_false, get?, ih]
      by_cases h2 : k1 = k'
      · have : k ≠ k' := fun e => h1 (h2.trans e.symm)
        simp [h2, this]
      · simp [h2]

theorem get?_update (d e : Dict) (k : String) : get? (update d e) k = (get? e k).or (get? d k) := by
  induction e with
  | nil => simp [update, get?]
  | cons p r ih =>
    obtain ⟨k1, v1⟩ := p
    have : update d ((k1, v1) :: r) = set (update d r) k1 v1 := rfl
    rw [this, get?_set, ih]
    simp only [get?]
    split <;> simp

theorem chainGet_cons (m : Dict) (ms : List Dict) (k : String) :
    chainGet (m :: ms) k = (get? m k).or (chainGet ms k) := by
  simp only [chainGet]
  cases get? m k <;> simp

theorem flatten_cons (m : Dict) (ms : List Dict) : flatten (m :: ms) = update (flatten ms) m := by
  simp [flatten, List.foldl_append]

/-- `dict(ChainMap(*maps))[k] == ChainMap(*maps)[k]`: the first mapping that has the key wins -/
theorem get?_flatten (maps : List Dict) (k : String) : get? (flatten maps) k = chainGet maps k := by
  induction maps with
  | nil => simp [flatten, chainGet, get?]
  | cons m ms ih => rw [flatten_cons, get?_update, chainGet_cons, ih]

/-! ### `openRun` by cases (the store happens where the source says: Generated.storeStage) -/

theorem openRun_registered (st : St) (a : Attempt) (h : st.registered = true) :
    openRun st a = (st, .illegalSequence) := by simp [openRun, h]

theorem openRun_scanIdError (st : St) (a : Attempt) (h : st.registered = false)
    (hs : defaultScanIdSource st.md = none) : openRun st a = (st, .scanIdError) := by
  simp [openRun, h, hs]

theorem openRun_rejected (st : St) (a : Attempt) (sid : Int) (h : st.registered = false)
    (hs : defaultScanIdSource st.md = some sid) (hv : a.validator (merged a sid st.md) = false) :
    openRun st a = (st, .rejected) := by
  simp [openRun, h, hs, Generated.storeStage, hv]

theorem openRun_normalizerError (st : St) (a : Attempt) (sid : Int) (h : st.registered = false)
    (hs : defaultScanIdSource st.md = some sid) (hv : a.validator (merged a sid st.md) = true)
    (hn : a.normalizer (merged a sid st.md) = none) :
    openRun st a = (st, .normalizerError) := by
  simp [openRun, h, hs, Generated.storeStage, hv, hn]

theorem openRun_started (st : St) (a : Attempt) (sid : Int) (doc : Dict) (h : st.registered = false)
    (hs : defaultScanIdSource st.md = some sid) (hv : a.validator (merged a sid st.md) = true)
    (hn : a.normalizer (merged a sid st.md) = some doc) (hc : composes doc = true) :
    openRun st a = ({ store st sid with registered := true }, .started sid doc) := by
  simp [openRun, h, hs, Generated.storeStage, hv, hn, hc]

theorem openRun_composeError (st : St) (a : Attempt) (sid : Int) (doc : Dict) (h : st.registered = false)
    (hs : defaultScanIdSource st.md = some sid) (hv : a.validator (merged a sid st.md) = true)
    (hn : a.normalizer (merged a sid st.md) = some doc) (hc : composes doc = false) :
    openRun st a = ({ store st sid with registered := true }, .composeError) := by
  simp [openRun, h, hs, Generated.storeStage, hv, hn, hc]

/-- every `openRun` is one of the six cases -/
theorem openRun_cases (st : St) (a : Attempt) :
    (st.registered = true ∧ openRun st a = (st, .illegalSequence)) ∨
    (st.registered = false ∧ defaultScanIdSource st.md = none ∧ openRun st a = (st, .scanIdError)) ∨
    (∃ sid, st.registered = false ∧ defaultScanIdSource st.md = some sid ∧
      ((a.validator (merged a sid st.md) = false ∧ openRun st a = (st, .rejected)) ∨
       (a.validator (merged a sid st.md) = true ∧ a.normalizer (merged a sid st.md) = none ∧
          openRun st a = (st, .normalizerError)) ∨
       (∃ doc, a.validator (merged a sid st.md) = true ∧ a.normalizer (merged a sid st.md) = some doc ∧
          ((composes doc = true ∧ openRun st a = ({ store st sid with registered := true }, .started sid doc)) ∨
           (composes doc = false ∧ openRun st a = ({ store st sid with registered := true }, .composeError)))))) := by
  cases hr : st.registered with
  | true => exact Or.inl ⟨rfl, openRun_registered st a hr⟩
  | false =>
    right
    cases hs : defaultScanIdSource st.md with
    | none => exact Or.inl ⟨rfl, rfl, openRun_scanIdError st a hr hs⟩
    | some sid =>
      right
      refine ⟨sid, rfl, rfl, ?_⟩
      cases hv : a.validator (merged a sid st.md) with
      | false => exact Or.inl ⟨rfl, openRun_rejected st a sid hr hs hv⟩
      | true =>
        right
        cases hn : a.normalizer (merged a sid st.md) with
        | none => exact Or.inl ⟨rfl, rfl, openRun_normalizerError st a sid hr hs hv hn⟩
        | some doc =>
          right
          refine ⟨doc, rfl, rfl, ?_⟩
          cases hc : composes doc with
          | true => exact Or.inl ⟨rfl, openRun_started st a sid doc hr hs hv hn hc⟩
          | false => exact Or.inr ⟨rfl, openRun_composeError st a sid doc hr hs hv hn hc⟩

end BlueskyVerif.Metadata
