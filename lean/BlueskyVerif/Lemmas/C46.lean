/-
Helper lemmas for C46: invariants of the `_RunWriter` batching model.
-/
import BlueskyVerif.IO.TiledWriter

namespace BlueskyVerif.TiledWriter

theorem upd_self {β : Type} (f : String → β) (k : String) (v : β) : upd f k v k = v := by simp [upd]
theorem upd_ne {β : Type} (f : String → β) (k k' : String) (v : β) (h : k' ≠ k) : upd f k v k' = f k' := by simp [upd, h]

/-! ### rows -/

theorem event_batch {α} (w : W α) (s : String) (row : α) : (event w s row).batch = w.batch := by
  unfold event; split <;> rfl

theorem mergeCached_fields {α} (w : W α) (c d : SD) :
    (mergeCached w c d).batch = w.batch ∧ (mergeCached w c d).rows = w.rows ∧ (mergeCached w c d).parts = w.parts := by
  unfold mergeCached
  split
  · split <;> exact ⟨rfl, rfl, rfl⟩
  · exact ⟨rfl, rfl, rfl⟩

theorem streamDatum_fields {α} (w : W α) (d : SD) :
    (streamDatum w d).batch = w.batch ∧ (streamDatum w d).rows = w.rows ∧ (streamDatum w d).parts = w.parts := by
  unfold streamDatum
  split
  · exact ⟨rfl, rfl, rfl⟩
  · split
    · exact ⟨rfl, rfl, rfl⟩
    · exact mergeCached_fields w _ d

theorem streamDatum_batch {α} (w : W α) (d : SD) : (streamDatum w d).batch = w.batch := (streamDatum_fields w d).1

theorem streamDatum_rows {α} (w : W α) (d : SD) : (streamDatum w d).rows = w.rows ∧ (streamDatum w d).parts = w.parts :=
  (streamDatum_fields w d).2

theorem event_ext {α} (w : W α) (s : String) (row : α) : (event w s row).ext = w.ext ∧ (event w s row).extW = w.extW := by
  unfold event; split <;> exact ⟨rfl, rfl⟩

/-- one event: what was written plus what is cached grows by exactly this row (for the event's stream) -/
theorem event_rows {α} (w : W α) (s : String) (row : α) (s' : String) :
    ((event w s row).parts s').flatten ++ (event w s row).rows s' =
      (w.parts s').flatten ++ w.rows s' ++ (if s' = s then [row] else []) := by
  unfold event
  by_cases hs : s' = s
  · subst hs
    split <;> simp [upd_self, eventClears]
  · split <;> simp [upd_ne _ _ _ _ hs, hs]

theorem apply_rows {α} (w : W α) (op : Op α) (s' : String) :
    ((apply w op).parts s').flatten ++ (apply w op).rows s' =
      (w.parts s').flatten ++ w.rows s' ++ rowsOf s' [op] := by
  cases op with
  | event s row =>
    simp only [apply, rowsOf]
    rw [event_rows]
    by_cases hs : s' = s
    · subst hs; simp
    · have : ¬ s = s' := fun h => hs h.symm
      simp [hs, this]
  | sdat d =>
    simp only [apply, rowsOf, List.append_nil]
    rw [(streamDatum_rows w d).1, (streamDatum_rows w d).2]

theorem rowsOf_cons {α} (s : String) (op : Op α) (r : List (Op α)) : rowsOf s (op :: r) = rowsOf s [op] ++ rowsOf s r := by
  cases op with
  | event s' row => simp only [rowsOf]; split <;> simp
  | sdat d => simp [rowsOf]

theorem foldl_rows {α} (s' : String) : ∀ (ops : List (Op α)) (w : W α),
    ((ops.foldl apply w).parts s').flatten ++ (ops.foldl apply w).rows s' =
      (w.parts s').flatten ++ w.rows s' ++ rowsOf s' ops := by
  intro ops
  induction ops with
  | nil => intro w; simp [rowsOf]
  | cons op r ih =>
    intro w
    rw [List.foldl_cons, ih, apply_rows, rowsOf_cons s' op r]
    simp [List.append_assoc]

theorem stop_rows {α} (w : W α) (s : String) :
    ((stop w).parts s).flatten = (w.parts s).flatten ++ w.rows s ∧ (stop w).rows s = [] := by
  simp only [stop, stopFlushesRows, stopClearsRows, Bool.true_and, Bool.and_self, ↓reduceIte, and_true]
  cases h : w.rows s with
  | nil => simp
  | cons x xs => simp

/-! ### no empty partition is ever appended -/

theorem event_nonempty {α} (w : W α) (s : String) (row : α) (s' : String) (h : ∀ p ∈ w.parts s', p ≠ []) :
    ∀ p ∈ (event w s row).parts s', p ≠ [] := by
  unfold event
  by_cases hs : s' = s
  · subst hs
    split
    · simp only [upd_self]
      intro p hp
      simp only [List.mem_append, List.mem_singleton] at hp
      rcases hp with hp | hp
      · exact h p hp
      · subst hp; simp
    · exact h
  · split
    · simp only [upd_ne _ _ _ _ hs]; exact h
    · exact h

theorem foldl_nonempty {α} (s' : String) : ∀ (ops : List (Op α)) (w : W α), (∀ p ∈ w.parts s', p ≠ []) →
    ∀ p ∈ (ops.foldl apply w).parts s', p ≠ [] := by
  intro ops
  induction ops with
  | nil => intro w h; exact h
  | cons op r ih =>
    intro w h
    rw [List.foldl_cons]
    apply ih
    cases op with
    | event s row => exact event_nonempty w s row s' h
    | sdat d => simp only [apply]; rw [(streamDatum_rows w d).2]; exact h

theorem apply_batch {α} (w : W α) (op : Op α) : (apply w op).batch = w.batch := by
  cases op with
  | event s row => exact event_batch w s row
  | sdat d => exact streamDatum_batch w d

theorem foldl_batch {α} : ∀ (ops : List (Op α)) (w : W α), (ops.foldl apply w).batch = w.batch := by
  intro ops
  induction ops with
  | nil => intro w; rfl
  | cons op r ih => intro w; rw [List.foldl_cons, ih, apply_batch]

/-! ### stream datums -/

theorem concat2_width {c d m : SD} (h : concat2 c d = some m) : m.width = c.width + d.width := by
  unfold concat2 at h
  by_cases hd : (c.desc != d.desc) = true
  · simp [hd] at h
  · by_cases hle : c.i0 ≤ d.i0
    · simp only [hd, Bool.false_eq_true, ↓reduceIte, hle, bne_iff_ne, ne_eq, ite_not, Option.ite_none_right_eq_some,
        Option.some.injEq] at h
      obtain ⟨h1, h2⟩ := h
      subst h2
      simp only [SD.width]; omega
    · simp only [hd, Bool.false_eq_true, ↓reduceIte, hle, bne_iff_ne, ne_eq, ite_not, Option.ite_none_right_eq_some,
        Option.some.injEq] at h
      obtain ⟨h1, h2⟩ := h
      subst h2
      simp only [SD.width]; omega

def cachedWidth (o : Option SD) : Int :=
  match o with
  | some c => c.width
  | none => 0

theorem totalWidth_append (a b : List SD) : totalWidth (a ++ b) = totalWidth a + totalWidth b := by
  simp [totalWidth]

theorem mergeCached_width {α} (w : W α) (c d : SD) (hc : w.ext d.sres = some c) (k : String) :
    totalWidth ((mergeCached w c d).extW k) + cachedWidth ((mergeCached w c d).ext k) =
      totalWidth (w.extW k) + cachedWidth (w.ext k) + (if k = d.sres then d.width else 0) := by
  unfold mergeCached
  by_cases hk : k = d.sres
  · subst hk
    simp only [↓reduceIte, hc]
    cases hm : concat2 c d with
    | none =>
      simp only [upd_self, totalWidth_append, cachedWidth]
      simp [totalWidth]; omega
    | some m =>
      simp only
      have hw := concat2_width hm
      split
      · simp only [upd_self, totalWidth_append, cachedWidth]
        simp [totalWidth]; omega
      · simp only [upd_self, cachedWidth]; omega
  · simp only [hk, ↓reduceIte, Int.add_zero]
    split
    · split <;> simp [upd_ne _ _ _ _ hk]
    · simp [upd_ne _ _ _ _ hk]

/-- one stream datum: written + cached width grows by exactly this datum's width (for its stream resource) -/
theorem streamDatum_width {α} (w : W α) (d : SD) (k : String) :
    totalWidth ((streamDatum w d).extW k) + cachedWidth ((streamDatum w d).ext k) =
      totalWidth (w.extW k) + cachedWidth (w.ext k) + (if k = d.sres then d.width else 0) := by
  unfold streamDatum
  split
  · by_cases hk : k = d.sres
    · subst hk; simp [upd_self, totalWidth]; omega
    · simp [upd_ne _ _ _ _ hk, hk]
  · cases hc : w.ext d.sres with
    | none =>
      simp only
      by_cases hk : k = d.sres
      · subst hk; simp [upd_self, cachedWidth, hc]
      · simp [upd_ne _ _ _ _ hk, hk]
    | some c => exact mergeCached_width w c d hc k

theorem sdatsOf_cons {α} (k : String) (op : Op α) (r : List (Op α)) : sdatsOf k (op :: r) = sdatsOf k [op] ++ sdatsOf k r := by
  cases op with
  | event s' row => simp [sdatsOf]
  | sdat d => simp only [sdatsOf]; split <;> simp

theorem apply_width {α} (w : W α) (op : Op α) (k : String) :
    totalWidth ((apply w op).extW k) + cachedWidth ((apply w op).ext k) =
      totalWidth (w.extW k) + cachedWidth (w.ext k) + totalWidth (sdatsOf k [op]) := by
  cases op with
  | event s row =>
    simp only [apply, sdatsOf]
    rw [(event_ext w s row).1, (event_ext w s row).2]
    simp [totalWidth]
  | sdat d =>
    simp only [apply, sdatsOf]
    rw [streamDatum_width]
    by_cases hk : k = d.sres
    · simp [hk, totalWidth]
    · have : ¬ d.sres = k := fun h => hk h.symm
      simp [hk, this, totalWidth]

theorem foldl_width {α} (k : String) : ∀ (ops : List (Op α)) (w : W α),
    totalWidth ((ops.foldl apply w).extW k) + cachedWidth ((ops.foldl apply w).ext k) =
      totalWidth (w.extW k) + cachedWidth (w.ext k) + totalWidth (sdatsOf k ops) := by
  intro ops
  induction ops with
  | nil => intro w; simp [sdatsOf, totalWidth]
  | cons op r ih =>
    intro w
    rw [List.foldl_cons, ih, apply_width, sdatsOf_cons k op r, totalWidth_append]
    omega

theorem stop_width {α} (w : W α) (k : String) :
    totalWidth ((stop w).extW k) = totalWidth (w.extW k) + cachedWidth (w.ext k) := by
  simp only [stop, stopFlushesExt, ↓reduceIte]
  cases h : w.ext k with
  | none => simp [cachedWidth]
  | some c => simp [cachedWidth, totalWidth_append, totalWidth]

end BlueskyVerif.TiledWriter
