/-
Lemmas/C24.lean -- the relative-move wrappers: msg_mutator with a processor that never drops a
message relabels the trace; the drives of relative_set_wrapper / reset_positions_wrapper from the
plan_mutator-with-closure semantics (Lemmas/C23Mutator.lean); invariants of `initial_positions`.
-/
import BlueskyVerif.Lemmas.C23Mutator
import BlueskyVerif.Lemmas.C23Wrappers
import BlueskyVerif.Gen.Relative

namespace BlueskyVerif.Gen
set_option linter.unusedSectionVars false

section mm
variable {M M' R V E : Type} [Inhabited R] [DecidableEq R] [Inhabited V] [PyExc E]

theorem mmGo_some' (g : M → M') (f : Nat) (r : Out M V E × Pos M R V E) :
    mmGo (fun m => some (g m)) (f + 1) r
      = (r.1.mapMsg g, match r.1 with | .yld _ => MMSt.atYield r.2 | _ => .fin) := by
  rcases r with ⟨o, p⟩
  cases o <;> simp [mmGo, Out.mapMsg]

theorem mGo_mm (g : M → M') (f : Nat) (plan : Beh M R V E) (c : Bool) (ins : List (Inp R E))
    (hn : NoGenExit ins) :
    ∀ (p : Pos M R V E) (m : M),
      mGo c (mmStep (f + 1) (fun m => some (g m)) plan) (.atYield p) (g m) ins
        = (driveGo c p m ins).map g := by
  induction ins with
  | nil =>
    intro p m
    simp only [mGo, driveGo, Drv.map, List.map_cons, List.map_nil, mmStep,
      mmYield_genExit _ PyExc.genExit_isGenExit]
    cases c
    · rfl
    · cases hc : p.close with
      | mk o p' =>
        cases o with
        | none => simp [closeObs, PyExc.genExit_isGenExit]
        | some x =>
          have := close_some_not_genExit p x (by rw [hc])
          simp [closeObs, this]
  | cons i rest ih =>
    intro p m
    rw [mGo_cons, driveGo_cons]
    have hstep : mmStep (f + 1) (fun m => some (g m)) plan (.atYield p) i
        = mmGo (fun m => some (g m)) (f + 1) (p.resume i) := by
      cases i with
      | send r => rfl
      | throw e => simp [mmStep, mmYield_other e (hn e (by simp))]
    rw [hstep, mmGo_some']
    rcases p.resume i with ⟨o, p'⟩
    cases o with
    | yld m' => simp [Out.mapMsg, mOut, driveOut, ih hn.tail, Drv.map, Drv.cons]
    | ret v => simp [Out.mapMsg, mOut, driveOut, Drv.map, Drv.cons, Drv.done]
    | raise e => simp [Out.mapMsg, mOut, driveOut, Drv.map, Drv.cons, Drv.done]

/-- **msg_mutator with a processor that rewrites but never drops**: the trace is relabelled -/
theorem drive_msgMutator_map (g : M → M') (f : Nat) (plan : Beh M R V E) (c : Bool)
    (ins : List (Inp R E)) (hn : NoGenExit ins) :
    drive c (msgMutator (f + 1) (fun m => some (g m)) plan) ins = (drive c plan ins).map g := by
  unfold msgMutator
  rw [drive_machine]
  simp only [mmStep, mmGo_some']
  unfold drive
  rcases (Pos.new plan).resume (.send default) with ⟨o, p⟩
  cases o with
  | yld m => simp [Out.mapMsg, mOut, driveOut, mGo_mm g f plan c ins hn]
  | ret v => simp [Out.mapMsg, mOut, driveOut, Drv.map, Drv.done]
  | raise e => simp [Out.mapMsg, mOut, driveOut, Drv.map, Drv.done]

end mm

section
variable {R E : Type} [Inhabited R] [DecidableEq R] [PyExc E]

/-- what `rewrite_pos` makes of a message, given `initial_positions` -/
def rewriteMsg (x : PMsg × Positions) : PMsg :=
  if x.1.cmd = .set then
    match x.1.obj, x.1.num with
    | some d, some rel =>
      match posGet x.2 d with
      | some init => { x.1 with ident := 9 :: x.1.ident, num := some (Generated.rsCombine.apply init rel) }
      | none => x.1
    | _, _ => x.1
  else x.1

theorem rewritePos_eq : rewritePos = fun x => some (rewriteMsg x) := by
  funext ⟨m, env⟩
  rfl

/-- `set` on an eligible device whose initial position is not recorded yet -/
def relTrigger (devices : Option (List Dev)) (env : Positions) (m : PMsg) (d : Dev) : Bool :=
  m.cmd = .set && (match devices with | none => true | some ds => ds.contains d) &&
    (posGet env d).isNone

theorem rel_decide_eq (mi : MotorInfo) (view : PosView R) (devices : Option (List Dev))
    (env : Positions) (m : PMsg) :
    (relSpec mi view devices).decide env m =
      match m.obj with
      | none => .pass
      | some d =>
        if relTrigger devices env m d then
          match posSource mi d with
          | .locate => .ask (queryMsg .locate d)
          | .attribute => .silent
          | .read => .ask (queryMsg .read d)
        else .pass := by
  cases ho : m.obj with
  | none => simp [relSpec, ho]
  | some d => simp only [relSpec, ho, relTrigger]; rfl

theorem relSpec_ok (mi : MotorInfo) (view : PosView R) (devices : Option (List Dev)) :
    (relSpec mi view devices).OK where
  ask_isQuery := by
    intro env m q h
    rw [rel_decide_eq] at h
    cases ho : m.obj with
    | none => simp [ho] at h
    | some d =>
      simp only [ho] at h
      by_cases ht : relTrigger devices env m d = true
      · simp only [ht, ↓reduceIte] at h
        cases hs : posSource mi d <;> simp only [hs] at h <;> cases h <;> simp [relSpec, queryMsg]
      · simp [ht] at h
  query_pass := by
    intro env q h
    rw [rel_decide_eq]
    cases ho : q.obj with
    | none => rfl
    | some d =>
      have : relTrigger devices env q d = false := by
        simp only [relSpec, Bool.or_eq_true, beq_iff_eq] at h
        rcases h with h | h <;> simp [relTrigger, h]
      simp [this]
  silent_notQuery := by
    intro env m h
    rw [rel_decide_eq] at h
    cases ho : m.obj with
    | none => simp [ho] at h
    | some d =>
      simp only [ho] at h
      by_cases ht : relTrigger devices env m d = true
      · have hset : m.cmd = .set := by
          simp only [relTrigger, Bool.and_eq_true, decide_eq_true_eq] at ht; exact ht.1.1
        simp [relSpec, hset]
      · simp [ht] at h

/-- the wrapped part of both wrappers: `plan_mutator(plan, insert_reads)`, driven; every message
    annotated with `initial_positions` at the time it goes out -/
def relBody (mi : MotorInfo) (view : PosView R) (devices : Option (List Dev)) (plan : PBeh R E)
    (c : Bool) (ins : List (Inp R E)) : Drv (PMsg × Positions) R R E :=
  emOut c (relSpec mi view devices) PMsg.ident [] [] ((Pos.new plan).resume (.send default)) ins

theorem drive_relativeSetWrapper (f : Nat) (mi : MotorInfo) (view : PosView R)
    (devices : Option (List Dev)) (plan : PBeh R E) (c : Bool) (ins : List (Inp R E))
    (hn : NoGenExit ins) :
    drive c (relativeSetWrapper (f + 3) mi view devices plan) ins
      = (relBody mi view devices plan c ins).map rewriteMsg := by
  unfold relativeSetWrapper
  rw [drive_retFrom _ _ _ hn, rewritePos_eq, drive_msgMutator_map rewriteMsg (f + 2) _ c ins hn,
    (drive_envMutatorA (relSpec mi view devices) (relSpec_ok mi view devices) PMsg.ident [] plan f c
      ins hn).1]
  rfl

theorem drive_resetPositionsWrapper (f : Nat) (mi : MotorInfo) (view : PosView R)
    (devices : Option (List Dev)) (plan : PBeh R E) (c : Bool) (ins : List (Inp R E))
    (hn : NoGenExit ins) :
    drive c (resetPositionsWrapper (f + 3) mi view devices plan) ins
      = ((relBody mi view devices plan c ins).map Prod.fst).bindH c [] ins
          (finallyK fun used => resetProg (resetPositions (f + 3) mi view devices plan used)) := by
  unfold resetPositionsWrapper
  simp only []
  rw [drive_finalizeProg _ _ c ins hn]
  unfold envMutator
  rw [drive_mapMsg, (drive_envMutatorA (relSpec mi view devices) (relSpec_ok mi view devices)
    PMsg.ident [] plan f c ins hn).1]
  rfl

theorem resetPositions_eq (f : Nat) (mi : MotorInfo) (view : PosView R) (devices : Option (List Dev))
    (plan : PBeh R E) (used : List (Inp R E)) (hn : NoGenExit used) :
    resetPositions (f + 3) mi view devices plan used
      = emEnvOut (relSpec mi view devices) PMsg.ident [] [] ((Pos.new plan).resume (.send default)) used :=
  (drive_envMutatorA (relSpec mi view devices) (relSpec_ok mi view devices) PMsg.ident [] plan f false
    used hn).2

/-! ### `initial_positions` -/

theorem posGet_append_new (env : Positions) (d : Dev) (x : Int) (h : posGet env d = none) (d' : Dev) :
    posGet (env ++ [(d, x)]) d' = if d' = d then some x else posGet env d' := by
  unfold posGet at *
  by_cases hd : d' = d
  · subst hd
    rw [List.find?_append]
    cases hf : env.find? (fun p => decide (p.1 = d')) with
    | none => simp
    | some y => simp [hf] at h
  · rw [List.find?_append]
    cases hf : env.find? (fun p => decide (p.1 = d')) with
    | none => simp [hd, Ne.symm hd]
    | some y => simp [hd]

theorem posSet_new (env : Positions) (d : Dev) (x : Int) (h : posGet env d = none) :
    posSet env d x = env ++ [(d, x)] := by
  simp [posSet, h]

/-- every recorded position stays what it is -/
def PosExt (env env' : Positions) : Prop := ∀ d x, posGet env d = some x → posGet env' d = some x

theorem PosExt.refl (env : Positions) : PosExt env env := fun _ _ h => h
theorem PosExt.trans {a b c : Positions} (h1 : PosExt a b) (h2 : PosExt b c) : PosExt a c :=
  fun d x h => h2 d x (h1 d x h)

theorem posExt_set_new (env : Positions) (d : Dev) (x : Int) (h : posGet env d = none) :
    PosExt env (posSet env d x) ∧ posGet (posSet env d x) d = some x := by
  rw [posSet_new env d x h]
  refine ⟨fun d' y hy => ?_, by simp [posGet_append_new env d x h]⟩
  rw [posGet_append_new env d x h]
  by_cases hd : d' = d
  · subst hd; rw [h] at hy; cases hy
  · simp [hd, hy]

/-- **what `insert_reads` decides** for a message object `m` not seen before: if `m` is a `set` on
an eligible device `d` without recorded position (`relTrigger`), the position is obtained first --
by a `locate` / `read` query that goes out before `m` (`query m` mode: its answer, 0 for None, is
recorded, then `m` follows) or, when the device has a `.position`, silently (recorded at once, `m`
goes out with `initial_positions[d]` known); every other message goes out with
`initial_positions` unchanged. -/
theorem rel_decide (mi : MotorInfo) (view : PosView R) (devices : Option (List Dev))
    (seen : List (List Nat)) (env : Positions) (m : PMsg) (hs : m.ident ∉ seen) :
    let dec := emDecide (relSpec mi view devices) PMsg.ident seen env m
    (∃ d, m.obj = some d ∧ relTrigger devices env m d = true ∧ posSource mi d ≠ .attribute ∧
        dec.2.1 = env ∧ dec.2.2.1 = .query m ∧
        dec.2.2.2 = queryMsg (if posSource mi d = .locate then .locate else .read) d) ∨
    (∃ d, m.obj = some d ∧ relTrigger devices env m d = true ∧ posSource mi d = .attribute ∧
        dec.2.1 = posSet env d (mi.position d) ∧ (∀ m', dec.2.2.1 ≠ .query m') ∧ dec.2.2.2 = m) ∨
    ((∀ d, m.obj = some d → relTrigger devices env m d = false) ∧
        dec.2.1 = env ∧ (∀ m', dec.2.2.1 ≠ .query m') ∧ dec.2.2.2 = m) := by
  intro dec
  show _ ∨ _ ∨ _
  cases ho : m.obj with
  | none =>
    refine .inr (.inr ⟨by simp, ?_, ?_, ?_⟩) <;>
      simp [dec, emDecide, hs, rel_decide_eq, ho]
  | some d =>
    by_cases ht : relTrigger devices env m d = true
    · cases hsrc : posSource mi d with
      | locate =>
        refine .inl ⟨d, rfl, ht, by simp [hsrc], ?_, ?_, ?_⟩ <;>
          simp [dec, emDecide, hs, rel_decide_eq, ho, ht, hsrc]
      | read =>
        refine .inl ⟨d, rfl, ht, by simp [hsrc], ?_, ?_, ?_⟩ <;>
          simp [dec, emDecide, hs, rel_decide_eq, ho, ht, hsrc]
      | «attribute» =>
        refine .inr (.inl ⟨d, rfl, ht, hsrc, ?_, ?_, ?_⟩) <;>
          simp only [dec, emDecide, rel_decide_eq, ho, ht, hsrc] <;> simp [hs, relSpec, ho]
    · have ht' : relTrigger devices env m d = false := by simpa using ht
      refine .inr (.inr ⟨by intro d' hd'; cases hd'; exact ht', ?_, ?_, ?_⟩) <;>
        simp [dec, emDecide, hs, rel_decide_eq, ho, ht']

/-- what is known about a pending query -/
def RelInv (env : Positions) : EmMode PMsg → PMsg → Prop
  | .plain, _ => True
  | .query _, q => ∃ d, q.obj = some d ∧ posGet env d = none

theorem relTrigger_none {devices : Option (List Dev)} {env : Positions} {m : PMsg} {d : Dev}
    (h : relTrigger devices env m d = true) : posGet env d = none := by
  simp only [relTrigger, Bool.and_eq_true, Option.isNone_iff_eq_none] at h
  exact h.2

theorem rel_decide_inv (mi : MotorInfo) (view : PosView R) (devices : Option (List Dev))
    (seen : List (List Nat)) (env : Positions) (m : PMsg) :
    PosExt env (emDecide (relSpec mi view devices) PMsg.ident seen env m).2.1 ∧
    RelInv (emDecide (relSpec mi view devices) PMsg.ident seen env m).2.1
      (emDecide (relSpec mi view devices) PMsg.ident seen env m).2.2.1
      (emDecide (relSpec mi view devices) PMsg.ident seen env m).2.2.2 := by
  by_cases hs : m.ident ∈ seen
  · simp [emDecide, hs, PosExt.refl, RelInv]
  · rcases rel_decide mi view devices seen env m hs with
      ⟨d, _, ht, _, h1, h2, h3⟩ | ⟨d, _, ht, _, h1, h2, _⟩ | ⟨_, h1, h2, _⟩
    · rw [h1, h2, h3]
      exact ⟨PosExt.refl _, d, by simp [queryMsg], relTrigger_none ht⟩
    · rw [h1]
      refine ⟨(posExt_set_new env d _ (relTrigger_none ht)).1, ?_⟩
      cases hm : (emDecide (relSpec mi view devices) PMsg.ident seen env m).2.2.1 with
      | plain => trivial
      | query m' => exact absurd hm (h2 m')
    · rw [h1]
      refine ⟨PosExt.refl _, ?_⟩
      cases hm : (emDecide (relSpec mi view devices) PMsg.ident seen env m).2.2.1 with
      | plain => trivial
      | query m' => exact absurd hm (h2 m')

/-- **The initial position of a device is obtained once**: along the whole run, whatever the plan
and the script do, a position recorded in `initial_positions` is never changed -- every later
message is annotated with an extension of it, and so is the final value. -/
theorem rel_env_ext (mi : MotorInfo) (view : PosView R) (devices : Option (List Dev)) (c : Bool)
    (ins : List (Inp R E)) :
    ∀ (seen : List (List Nat)) (env : Positions) (p : Pos PMsg R R E) (mode : EmMode PMsg) (em : PMsg),
      RelInv env mode em →
      (∀ x ∈ (emGo c (relSpec mi view devices) PMsg.ident seen env p mode em ins).msgs, PosExt env x.2) ∧
      PosExt env (emEnvGo (relSpec mi view devices) PMsg.ident seen env p mode em ins) := by
  induction ins with
  | nil =>
    intro seen env p mode em _
    exact ⟨by simp [emGo, PosExt.refl], PosExt.refl _⟩
  | cons i rest ih =>
    intro seen env p mode em hinv
    rw [emGo, emEnvGo]
    cases hin : emInput mode i with
    | answer r m =>
      have hm : mode = .query m := by
        cases mode <;> cases i <;> simp only [emInput] at hin
        · cases hin
        · split at hin <;> cases hin
        · cases hin; rfl
        · split at hin <;> cases hin
      subst hm
      obtain ⟨d, hd, hnone⟩ := hinv
      simp only []
      have hupd : (relSpec mi view devices).updAsk em r env = posSet env d ((view.asPos em r).getD 0) := by
        simp [relSpec, hd]
      obtain ⟨e1, _⟩ := posExt_set_new env d ((view.asPos em r).getD 0) hnone
      obtain ⟨g1, g2⟩ := ih seen ((relSpec mi view devices).updAsk em r env) p .plain m trivial
      rw [hupd] at g1 g2 ⊢
      refine ⟨?_, e1.trans g2⟩
      intro x hx
      simp only [Drv.cons, List.mem_cons] at hx
      rcases hx with rfl | hx
      · exact PosExt.refl _
      · exact e1.trans (g1 x hx)
    | leave e => exact ⟨by simp [PosExt.refl], PosExt.refl _⟩
    | feed =>
      simp only []
      rcases p.resume i with ⟨o, p'⟩
      cases o with
      | yld m' =>
        obtain ⟨e1, e2⟩ := rel_decide_inv mi view devices seen env m'
        obtain ⟨g1, g2⟩ := ih _ _ p' _ _ e2
        refine ⟨?_, e1.trans g2⟩
        intro x hx
        simp only [Drv.cons, List.mem_cons] at hx
        rcases hx with rfl | hx
        · exact PosExt.refl _
        · exact e1.trans (g1 x hx)
      | ret v => exact ⟨by simp [PosExt.refl], PosExt.refl _⟩
      | raise x => exact ⟨by simp [PosExt.refl], PosExt.refl _⟩

theorem rel_pairwise (mi : MotorInfo) (view : PosView R) (devices : Option (List Dev)) (c : Bool)
    (ins : List (Inp R E)) :
    ∀ (seen : List (List Nat)) (env : Positions) (p : Pos PMsg R R E) (mode : EmMode PMsg) (em : PMsg),
      RelInv env mode em →
      (emGo c (relSpec mi view devices) PMsg.ident seen env p mode em ins).msgs.Pairwise
        (fun a b => PosExt a.2 b.2) := by
  induction ins with
  | nil => intro seen env p mode em _; simp [emGo]
  | cons i rest ih =>
    intro seen env p mode em hinv
    have hext := (rel_env_ext mi view devices c (i :: rest) seen env p mode em hinv).1
    rw [emGo] at hext ⊢
    cases hin : emInput mode i with
    | answer r m =>
      have hm : mode = .query m := by
        cases mode <;> cases i <;> simp only [emInput] at hin
        · cases hin
        · split at hin <;> cases hin
        · cases hin; rfl
        · split at hin <;> cases hin
      subst hm
      simp only [hin] at hext ⊢
      simp only [Drv.cons, List.pairwise_cons]
      exact ⟨fun x hx => hext x (List.mem_cons_of_mem _ hx), ih _ _ _ _ _ trivial⟩
    | leave e => simp
    | feed =>
      simp only [hin] at hext ⊢
      generalize p.resume i = r0 at hext ⊢
      rcases r0 with ⟨o, p'⟩
      cases o with
      | yld m' =>
        simp only [Drv.cons, List.pairwise_cons] at hext ⊢
        exact ⟨fun x hx => hext x (List.mem_cons_of_mem _ hx),
          ih _ _ _ _ _ (rel_decide_inv mi view devices seen env m').2⟩
      | ret v => simp
      | raise x => simp

/-- along the whole wrapped part, recorded positions never change -/
theorem relBody_pairwise (mi : MotorInfo) (view : PosView R) (devices : Option (List Dev))
    (plan : PBeh R E) (c : Bool) (ins : List (Inp R E)) :
    (relBody mi view devices plan c ins).msgs.Pairwise (fun a b => PosExt a.2 b.2) := by
  unfold relBody emOut
  rcases (Pos.new plan).resume (.send default) with ⟨o, p'⟩
  cases o with
  | yld m' => exact rel_pairwise mi view devices c ins _ _ p' _ _ (rel_decide_inv mi view devices [] [] m').2
  | ret v => simp [Drv.done]
  | raise x => simp [Drv.done]

/-! ### `rewrite_pos` and `reset` -/

/-- a `set d rel` goes out as `set d (init + rel)` when `initial_positions[d] = init` -/
theorem rewrite_set (m : PMsg) (env : Positions) (d : Dev) (rel init : Int) (hc : m.cmd = .set)
    (ho : m.obj = some d) (hn : m.num = some rel) (hi : posGet env d = some init) :
    rewriteMsg (m, env) = { m with ident := 9 :: m.ident, num := some (init + rel) } := by
  simp [rewriteMsg, hc, ho, hn, hi, Generated.rsCombine, RelOp.apply]

/-- every other message, and a `set` on a device without recorded position, goes out unchanged -/
theorem rewrite_other (m : PMsg) (env : Positions)
    (h : m.cmd ≠ .set ∨ ∀ d, m.obj = some d → posGet env d = none) : rewriteMsg (m, env) = m := by
  rcases h with h | h
  · simp [rewriteMsg, h]
  · simp only [rewriteMsg]
    split
    · cases ho : m.obj with
      | none => simp
      | some d => cases hnum : m.num <;> simp [h d ho]
    · rfl

/-- **`reset()`** answered throughout: `set d (init d)` (group 0) for every recorded device, in
recording order, then `wait` on that group -/
theorem resetProg_drive (env : Positions) (c : Bool) (rs : List R) (rest : List (Inp R E))
    (h : rs.length = env.length + 1) :
    (resetProg env : Prog PMsg R R E).drive c (rs.map .send ++ rest)
      = Drv.pre (env.map (fun p => setMsg p.1 p.2 (some 0)) ++ [waitMsg 0])
          (Drv.done (.ret default) rest) := by
  unfold resetProg
  simp only [Generated.rpResetOrder, Order.apply]
  rw [Prog.drive_msgs_send c _ _ rs rest (by simp [h])]
  rfl

end
end BlueskyVerif.Gen
