/-
Lemmas/C24.lean -- the relative-move wrappers: msg_mutator with a processor that never drops a
message relabels the trace; the drives of relative_set_wrapper / reset_positions_wrapper from the
plan_mutator-with-closure semantics (Lemmas/C23Mutator.lean); invariants of `initial_positions`.
-/
import BlueskyVerif.Lemmas.C23Mutator
import BlueskyVerif.Lemmas.C23Wrappers
import BlueskyVerif.Gen.Relative

namespace BlueskyVerif.Gen
set_option linter.unusedSectionVars false

section mm
variable {M M' R V E : Type} [Inhabited R] [DecidableEq R] [Inhabited V] [PyExc E]

theorem mmGo_some' (g : M → M') (f : Nat) (r : Out M V E × Pos M R V E) :
    mmGo (fun m => some (g m)) (f + 1) r
      = (r.1.mapMsg g, match r.1 with | .yld _ => MMSt.atYield r.2 | _ => .fin) := by
  rcases r with ⟨o, p⟩
  cases o <;> simp [mmGo, Out.mapMsg]

theorem mGo_mm (g : M → M') (f : Nat) (plan : Beh M R V E) (c : Bool) (ins : List (Inp R E))
    (hn : NoGenExit ins) :
    ∀ (p : Pos M R V E) (m : M),
      mGo c (mmStep (f + 1) (fun m => some (g m)) plan) (.atYield p) (g m) ins
        = (driveGo c p m ins).map g := by
  induction ins with
  | nil =>
    intro p m
    simp only [mGo, driveGo, Drv.map, List.map_cons, List.map_nil, mmStep,
      mmYield_genExit _ PyExc.genExit_isGenExit]
    cases c
    · rfl
    · cases hc : p.close with
      | mk o p' =>
        cases o with
        | none => simp [closeObs, PyExc.genExit_isGenExit]
        | some x =>
          have := close_some_not_genExit p x (by rw [hc])
          simp [closeObs, this]
  | cons i rest ih =>
    intro p m
    rw [mGo_cons, driveGo_cons]
    have hstep : mmStep (f + 1) (fun m => some (g m)) plan (.atYield p) i
        = mmGo (fun m => some (g m)) (f + 1) (p.resume i) := by
      cases i with
      | send r => rfl
      | throw e => simp [mmStep, mmYield_other e (hn e (by simp))]
    rw [hstep, mmGo_some']
    rcases p.resume i with ⟨o, p'⟩
    cases o with
    | yld m' => simp [Out.mapMsg, mOut, driveOut, ih hn.tail, Drv.map, Drv.cons]
    | ret v => simp [Out.mapMsg, mOut, driveOut, Drv.map, Drv.cons, Drv.done]
    | raise e => simp [Out.mapMsg, mOut, driveOut, Drv.map, Drv.cons, Drv.done]

/-- **msg_mutator with a processor that rewrites but never drops**: the trace is relabelled -/
theorem drive_msgMutator_map (g : M → M') (f : Nat) (plan : Beh M R V E) (c : Bool)
    (ins : List (Inp R E)) (hn : NoGenExit ins) :
    drive c (msgMutator (f + 1) (fun m => some (g m)) plan) ins = (drive c plan ins).map g := by
  unfold msgMutator
  rw [drive_machine]
  simp only [mmStep, mmGo_some']
  unfold drive
  rcases (Pos.new plan).resume (.send default) with ⟨o, p⟩
  cases o with
  | yld m => simp [Out.mapMsg, mOut, driveOut, mGo_mm g f plan c ins hn]
  | ret v => simp [Out.mapMsg, mOut, driveOut, Drv.map, Drv.done]
  | raise e => simp [Out.mapMsg, mOut, driveOut, Drv.map, Drv.done]

end mm

section
variable {R E : Type} [Inhabited R] [DecidableEq R] [PyExc E]

/-- what `rewrite_pos` makes of a message, given `initial_positions` -/
def rewriteMsg (x : PMsg × Positions) : PMsg :=
  if x.1.cmd = .set then
    match x.1.obj, x.1.num with
    | some d, some rel =>
      match posGet x.2 d with
      | some init => { x.1 with ident := 9 :: x.1.ident, num := some (Generated.rsCombine.apply init rel) }
      | none => x.1
    | _, _ => x.1
  else x.1

theorem rewritePos_eq : rewritePos = fun x => some (rewriteMsg x) := by
  funext ⟨m, env⟩
  rfl

/-- `set` on an eligible device whose initial position is not recorded yet -/
def relTrigger (devices : Option (List Dev)) (env : Positions) (m : PMsg) (d : Dev) : Bool :=
  m.cmd = .set && (match devices with | none => true | some ds => ds.contains d) &&
    (posGet env d).isNone

theorem rel_decide_eq (mi : MotorInfo) (view : PosView R) (devices : Option (List Dev))
    (env : Positions) (m : PMsg) :
    (relSpec mi view devices).decide env m =
      match m.obj with
      | none => .pass
      | some d =>
        if relTrigger devices env m d then
          match posSource mi d with
          | .locate => .ask (queryMsg .locate d)
          | .attribute => .silent
          | .read => .ask (queryMsg .read d)
        else .pass := by
  cases ho : m.obj with
  | none => simp [relSpec, ho]
  | some d => simp only [relSpec, ho, relTrigger]

theorem relSpec_ok (mi : MotorInfo) (view : PosView R) (devices : Option (List Dev)) :
    (relSpec mi view devices).OK where
  ask_isQuery := by
    intro env m q h
    rw [rel_decide_eq] at h
    cases ho : m.obj with
    | none => simp [ho] at h
    | some d =>
      simp only [ho] at h
      by_cases ht : relTrigger devices env m d = true
      · simp only [ht, ↓reduceIte] at h
        cases hs : posSource mi d <;> simp only [hs] at h <;> cases h <;> simp [relSpec, queryMsg]
      · simp [ht] at h
  query_pass := by
    intro env q h
    rw [rel_decide_eq]
    cases ho : q.obj with
    | none => rfl
    | some d =>
      have : relTrigger devices env q d = false := by
        simp only [relSpec, Bool.or_eq_true, beq_iff_eq] at h
        rcases h with h | h <;> simp [relTrigger, h]
      simp [this]
  silent_notQuery := by
    intro env m h
    rw [rel_decide_eq] at h
    cases ho : m.obj with
    | none => simp [ho] at h
    | some d =>
      simp only [ho] at h
      by_cases ht : relTrigger devices env m d = true
      · have hset : m.cmd = .set := by
          simp only [relTrigger, Bool.and_eq_true, decide_eq_true_eq] at ht; exact ht.1.1
        simp [relSpec, hset]
      · simp [ht] at h

/-- the wrapped part of both wrappers: `plan_mutator(plan, insert_reads)`, driven; every message
    annotated with `initial_positions` at the time it goes out -/
def relBody (mi : MotorInfo) (view : PosView R) (devices : Option (List Dev)) (plan : PBeh R E)
    (c : Bool) (ins : List (Inp R E)) : Drv (PMsg × Positions) R R E :=
  emOut c (relSpec mi view devices) PMsg.ident [] [] ((Pos.new plan).resume (.send default)) ins

theorem drive_relativeSetWrapper (f : Nat) (mi : MotorInfo) (view : PosView R)
    (devices : Option (List Dev)) (plan : PBeh R E) (c : Bool) (ins : List (Inp R E))
    (hn : NoGenExit ins) :
    drive c (relativeSetWrapper (f + 3) mi view devices plan) ins
      = (relBody mi view devices plan c ins).map rewriteMsg := by
  unfold relativeSetWrapper
  rw [drive_retFrom _ _ _ hn, rewritePos_eq, drive_msgMutator_map rewriteMsg (f + 2) _ c ins hn,
    (drive_envMutatorA (relSpec mi view devices) (relSpec_ok mi view devices) PMsg.ident [] plan f c
      ins hn).1]
  rfl

theorem drive_resetPositionsWrapper (f : Nat) (mi : MotorInfo) (view : PosView R)
    (devices : Option (List Dev)) (plan : PBeh R E) (c : Bool) (ins : List (Inp R E))
    (hn : NoGenExit ins) :
    drive c (resetPositionsWrapper (f + 3) mi view devices plan) ins
      = ((relBody mi view devices plan c ins).map Prod.fst).bindH c [] ins
          (finallyK fun used => resetProg (resetPositions (f + 3) mi view devices plan used)) := by
  unfold resetPositionsWrapper
  simp only []
  rw [drive_finalizeProg _ _ c ins hn]
  unfold envMutator
  rw [drive_mapMsg, (drive_envMutatorA (relSpec mi view devices) (relSpec_ok mi view devices)
    PMsg.ident [] plan f c ins hn).1]
  rfl

theorem resetPositions_eq (f : Nat) (mi : MotorInfo) (view : PosView R) (devices : Option (List Dev))
    (plan : PBeh R E) (used : List (Inp R E)) (hn : NoGenExit used) :
    resetPositions (f + 3) mi view devices plan used
      = emEnvOut (relSpec mi view devices) PMsg.ident [] [] ((Pos.new plan).resume (.send default)) used :=
  (drive_envMutatorA (relSpec mi view devices) (relSpec_ok mi view devices) PMsg.ident [] plan f false
    used hn).2

end
end BlueskyVerif.Gen
