/-
C13 helper lemmas, part 1: the parallel plan-stack / response-stack discipline of `RunEngine._run`
(`assert len(self._response_stack) == len(self._plan_stack)` at the loop top, with the popped
response `resp` in flight) as an invariant of every block of the `_run` machine.
-/
import BlueskyVerif.Lemmas.EngineSched

namespace BlueskyVerif.Engine

/-- The stack discipline: one response slot per plan on the stack; the slot of the top plan may be
    "in flight" (popped into the local `resp`, not yet replaced by the new response). -/
def StackInv (s : EState) : Prop :=
  s.respStack.length + (if s.resp.isSome then 1 else 0) = s.planStack.length

/-- the suspension points that lie INSIDE a command (between `resp = pop()` and the inner `finally`) -/
def inCmd : PC → Bool
  | .inSleep | .inCkptSleep | .inWait _ | .inWaitFor _ => true
  | _ => false

/-- `Bal b s`: the stacks are in step and `resp` is in flight iff `b` -/
def Bal (b : Bool) (s : EState) : Prop :=
  s.resp.isSome = b ∧ s.respStack.length + (if b then 1 else 0) = s.planStack.length

/-- the invariant at a suspension point: stacks in step, and a response is in flight only while `_run`
    is suspended inside a command -/
def PcInv (s : EState) : Prop :=
  StackInv s ∧ (s.resp.isSome = true → inCmd s.pc = true)

theorem Bal.stackInv {b : Bool} {s : EState} (h : Bal b s) : StackInv s := by
  unfold StackInv; rw [h.1]; exact h.2

theorem bal_false_pcinv {s : EState} (h : Bal false s) : PcInv s :=
  ⟨h.stackInv, fun hs => by rw [h.1] at hs; cases hs⟩

theorem StackInv.bal {s : EState} (h : StackInv s) : Bal s.resp.isSome s := ⟨rfl, h⟩

/-! ### transport along the control projection -/

theorem bal_of_ctl {b : Bool} {s s' : EState} (h : ctl s' = ctl s) (hb : Bal b s) : Bal b s' := by
  have h1 : s'.resp.isSome = s.resp.isSome := congrArg Ctl.respSome h
  have h2 : s'.respStack.length = s.respStack.length := congrArg Ctl.respLen h
  have h3 : s'.planStack.length = s.planStack.length := congrArg Ctl.planLen h
  unfold Bal; rw [h1, h2, h3]; exact hb

/-- `Grow s s'`: `s'` has the same program counter and the same in-flight response flag as `s`, and
    the two stacks grew by the same number of entries (0 for every data operation; 1 for
    `_start_suspender`, `request_suspend`, `resume`). -/
def Grow (s s' : EState) : Prop :=
  s'.pc = s.pc ∧ s'.resp.isSome = s.resp.isSome ∧
    ∃ k, s'.planStack.length = s.planStack.length + k ∧ s'.respStack.length = s.respStack.length + k

theorem Grow.refl (s : EState) : Grow s s := ⟨rfl, rfl, 0, rfl, rfl⟩

theorem Grow.trans {a b c : EState} (h1 : Grow a b) (h2 : Grow b c) : Grow a c := by
  obtain ⟨p1, r1, k1, a1, b1⟩ := h1
  obtain ⟨p2, r2, k2, a2, b2⟩ := h2
  exact ⟨p2.trans p1, r2.trans r1, k1 + k2, by omega, by omega⟩

theorem grow_of_ctl {s s' : EState} (h : ctl s' = ctl s) : Grow s s' :=
  ⟨congrArg Ctl.pc h, congrArg Ctl.respSome h, 0, congrArg Ctl.planLen h, congrArg Ctl.respLen h⟩

theorem Grow.bal {b : Bool} {s s' : EState} (g : Grow s s') (h : Bal b s) : Bal b s' := by
  obtain ⟨_, r, k, a, c⟩ := g
  refine ⟨r.trans h.1, ?_⟩
  have := h.2
  omega

theorem Grow.pcinv {s s' : EState} (g : Grow s s') (h : PcInv s) : PcInv s' := by
  refine ⟨(g.bal h.1.bal).stackInv, ?_⟩
  intro hs
  rw [g.1]
  apply h.2
  rw [← g.2.1]; exact hs

theorem grow_foldl {α} (f : EState → α → EState) (h : ∀ s a, Grow s (f s a)) (l : List α) (s : EState) :
    Grow s (l.foldl f s) := by
  induction l generalizing s with
  | nil => exact Grow.refl s
  | cons a l ih => rw [List.foldl_cons]; exact (h s a).trans (ih _)

/-! ### the blocks of `_run` -/

theorem setState_ctl_stk {s s' : EState} {n : St} (h : setState s n = .ok s') : Grow s s' := by
  unfold setState at h; split at h
  · cases h; exact ⟨rfl, rfl, 0, rfl, rfl⟩
  · cases h

theorem setState_bal {b : Bool} {s s' : EState} {n : St} (h : setState s n = .ok s') (hb : Bal b s) : Bal b s' :=
  (setState_ctl_stk h).bal hb

/-- the inner `finally`: whatever was in flight is replaced by the new response -/
theorem fin_bal {b : Bool} {s : EState} (r : Resp) (h : Bal b s) : Bal false (fin s r) := by
  obtain ⟨h1, h2⟩ := h
  unfold fin
  split
  · rename_i hn
    rw [hn] at h1
    cases b
    · exact ⟨hn ▸ rfl, h2⟩
    · cases h1
  · rename_i x hx
    rw [hx] at h1
    cases b
    · cases h1
    · refine ⟨rfl, ?_⟩
      simp only [List.length_cons] at *
      simpa using h2

theorem leaveLoop_grow_stk (s : EState) (e : Exc) :
    (leaveLoop s e).resp = s.resp ∧ (leaveLoop s e).planStack = s.planStack ∧ (leaveLoop s e).respStack = s.respStack := by
  unfold leaveLoop; simp only []; split <;> exact ⟨rfl, rfl, rfl⟩

theorem leaveLoop_pcinv {s : EState} (e : Exc) (h : Bal false s) : PcInv (leaveLoop s e) := by
  obtain ⟨h1, h2, h3⟩ := leaveLoop_grow_stk s e
  apply bal_false_pcinv
  unfold Bal; rw [h1, h2, h3]; exact h

/-- the part of the state the stack discipline speaks about: program counter, in-flight response, and the
    two stacks themselves -/
structure Stk where
  pc : PC
  resp : Option Resp
  plans : List Gen
  resps : List Resp

def stk (s : EState) : Stk := { pc := s.pc, resp := s.resp, plans := s.planStack, resps := s.respStack }

theorem grow_of_stk {s s' : EState} (h : stk s' = stk s) : Grow s s' := by
  have a : s'.pc = s.pc := congrArg Stk.pc h
  have b : s'.resp = s.resp := congrArg Stk.resp h
  have c : s'.planStack = s.planStack := congrArg Stk.plans h
  have d : s'.respStack = s.respStack := congrArg Stk.resps h
  exact ⟨a, by rw [b], 0, by rw [c]; rfl, by rw [d]; rfl⟩

theorem stk_foldl {α} (f : EState → α → EState) (h : ∀ s a, stk (f s a) = stk s) (l : List α) (s : EState) :
    stk (l.foldl f s) = stk s := by
  induction l generalizing s with
  | nil => rfl
  | cons a l ih => rw [List.foldl_cons, ih, h]

theorem stk_forBundlers_go (f : EState → Bundler → EState × Bundler) (h : ∀ s b, stk (f s b).1 = stk s)
    (todo done : List (String × Bundler)) (s : EState) : stk (forBundlers.go f s todo done) = stk s := by
  induction todo generalizing s done with
  | nil => rfl
  | cons kb rest ih =>
    obtain ⟨k, b⟩ := kb
    unfold forBundlers.go
    simp only []
    rw [ih]; exact h s b

theorem stk_forBundlers (f : EState → Bundler → EState × Bundler) (h : ∀ s b, stk (f s b).1 = stk s) (s : EState) :
    stk (forBundlers s f) = stk s := stk_forBundlers_go f h _ _ s

@[simp] theorem stk_logCall (s : EState) (c : Call) : stk (s.logCall c) = stk s := rfl
@[simp] theorem stk_emit (s : EState) (d : Doc) : stk (s.emit d) = stk s := rfl
@[simp] theorem stk_setDev (s : EState) (n : String) (d : DevState) : stk (setDev s n d) = stk s := rfl
@[simp] theorem stk_nextMode (s : EState) (n op : String) : stk (nextMode s n op).2 = stk s := rfl
@[simp] theorem stk_putBundler (s : EState) (m : Msg) (b : Bundler) : stk (putBundler s m b) = stk s := rfl
@[simp] theorem stk_emitEvent (s : EState) (b : Bundler) (st : String) (d : List (String × Int)) (n : String) :
    stk (emitEvent s b st d n).1 = stk s := rfl
@[simp] theorem stk_prepareStream (s : EState) (b : Bundler) (st : String) (o : List String) :
    stk (prepareStream s b st o).1 = stk s := rfl
@[simp] theorem stk_newStatus (s : EState) (d o m : String) (g : Option String) : stk (newStatus s d o m g).2 = stk s := rfl

@[simp] theorem stk_recordInterruption (s : EState) (b : Bundler) (c : String) : stk (recordInterruption s b c).1 = stk s := by
  unfold recordInterruption; split <;> rfl

@[simp] theorem stk_suspendMonitors (s : EState) (b : Bundler) : stk (suspendMonitors s b).1 = stk s := by
  unfold suspendMonitors; apply stk_foldl; intro s x; rfl

@[simp] theorem stk_restoreMonitors (s : EState) (b : Bundler) : stk (restoreMonitors s b).1 = stk s := by
  unfold restoreMonitors; apply stk_foldl; intro s x; rfl

@[simp] theorem stk_clearMonitors (s : EState) (b : Bundler) : stk (clearMonitors s b).1 = stk s := by
  unfold clearMonitors; simp

@[simp] theorem stk_closeRunDoc (s : EState) (b : Bundler) (e r : String) : stk (closeRunDoc s b e r).1 = stk s := by
  unfold closeRunDoc; simp

@[simp] theorem stk_forBundlers_pure (s : EState) (g : Bundler → Bundler) :
    stk (forBundlers s (fun s b => (s, g b))) = stk s := stk_forBundlers _ (fun _ _ => rfl) _

@[simp] theorem stk_forBundlers_ri (s : EState) (c : String) :
    stk (forBundlers s (fun s b => recordInterruption s b c)) = stk s :=
  stk_forBundlers _ (fun s b => stk_recordInterruption s b c) _

@[simp] theorem stk_forBundlers_restore (s : EState) : stk (forBundlers s restoreMonitors) = stk s :=
  stk_forBundlers _ stk_restoreMonitors _

@[simp] theorem stk_forBundlers_suspend (s : EState) : stk (forBundlers s suspendMonitors) = stk s :=
  stk_forBundlers _ stk_suspendMonitors _

@[simp] theorem stk_forBundlers_clear (s : EState) : stk (forBundlers s clearMonitors) = stk s :=
  stk_forBundlers _ stk_clearMonitors _

@[simp] theorem stk_resetCheckpointMeth (s : EState) : stk (resetCheckpointMeth s) = stk s := by
  unfold resetCheckpointMeth; split
  · rfl
  · rw [stk_forBundlers_pure]; rfl

@[simp] theorem stk_stopMovables (s : EState) : stk (stopMovables s) = stk s := by
  unfold stopMovables; apply stk_foldl; intro s x; rfl

@[simp] theorem stk_pauseHooks (s : EState) : stk (pauseHooks s) = stk s := by
  unfold pauseHooks
  apply stk_foldl
  intro s n
  split
  · split
    · simp only []; split <;> simp
    · rfl
  · rfl

@[simp] theorem stk_resumeHooks (s : EState) : stk (resumeHooks s) = stk s := by
  unfold resumeHooks
  apply stk_foldl
  intro s n
  split
  · split <;> rfl
  · rfl

@[simp] theorem stk_rewindPlan (s : EState) : stk (rewindPlan s).2 = stk s := by
  unfold rewindPlan
  simp only []
  split
  · rfl
  · rw [stk_forBundlers_pure]; rfl

theorem stk_setState {s s' : EState} {n : St} (h : setState s n = .ok s') : stk s' = stk s := by
  unfold setState at h; split at h
  · cases h; rfl
  · cases h

theorem stk_requestPause {s s' : EState} {d : Bool} (h : requestPause s d = .ok s') : stk s' = stk s := by
  unfold requestPause at h
  split at h
  · cases h
  · split at h
    · cases h; rfl
    · split at h
      · cases h
      · rename_i s1 hs
        cases h
        have h1 := stk_setState hs
        have e : ∀ (x : EState) (b : Bool), stk { x with cancelPending := b } = stk x := fun _ _ => rfl
        rw [e, stk_forBundlers_ri, h1]; rfl

theorem stk_noteMsg (s : EState) (m : Msg) : stk (noteMsg s m) = stk s := by
  unfold noteMsg; frame_be

/-- close a goal `stk (f ... s ...) = stk s` after unfolding `f` -/
macro "frame_stk" : tactic =>
  `(tactic| repeat' (first | rfl | (simp; done) | split | (simp only []; (first | rfl | split))))

theorem stk_cmdOpenRun (s : EState) (m : Msg) : stk (cmdOpenRun s m).1 = stk s := by unfold cmdOpenRun; frame_stk
theorem stk_with_bundlers (x : EState) (l : List (String × Bundler)) : stk { x with bundlers := l } = stk x := rfl
theorem stk_with_msgCache (x : EState) (l : Option (List Msg)) : stk { x with msgCache := l } = stk x := rfl
theorem stk_with_rewindable (x : EState) (l : Bool) : stk { x with rewindable := l } = stk x := rfl
theorem stk_with_staged (x : EState) (l : List String) : stk { x with staged := l } = stk x := rfl

theorem stk_cmdCloseRun (s : EState) (m : Msg) : stk (cmdCloseRun s m).1 = stk s := by
  unfold cmdCloseRun
  split
  · rfl
  · rename_i b hb
    split
    · rfl
    · simp only []
      have h1 := stk_closeRunDoc s b (m.name.getD "success") ""
      generalize closeRunDoc s b (m.name.getD "success") "" = p at h1
      obtain ⟨s1, b1⟩ := p
      simp only [] at h1 ⊢
      split
      · rw [stk_resetCheckpointMeth, stk_with_bundlers]; exact h1
      · rw [stk_with_bundlers]; exact h1
theorem stk_cmdCreate (s : EState) (m : Msg) : stk (cmdCreate s m).1 = stk s := by unfold cmdCreate; frame_stk
theorem stk_cmdRead (s : EState) (m : Msg) : stk (cmdRead s m).1 = stk s := by unfold cmdRead; frame_stk
theorem stk_cmdSave (s : EState) (m : Msg) : stk (cmdSave s m).1 = stk s := by unfold cmdSave; frame_stk
theorem stk_cmdDrop (s : EState) (m : Msg) : stk (cmdDrop s m).1 = stk s := by unfold cmdDrop; frame_stk
theorem stk_cmdCheckpoint (s : EState) : stk (cmdCheckpoint s).1 = stk s := by unfold cmdCheckpoint; frame_stk
theorem stk_cmdClearCheckpoint (s : EState) : stk (cmdClearCheckpoint s).1 = stk s := by
  unfold cmdClearCheckpoint
  simp only []
  rw [stk_forBundlers_pure]; rfl
theorem stk_cmdRewindable (s : EState) (m : Msg) : stk (cmdRewindable s m).1 = stk s := by
  unfold cmdRewindable
  split
  · rfl
  · simp only []
    split
    · rw [stk_resetCheckpointMeth]; rfl
    · rfl
theorem stk_cmdSet (s : EState) (m : Msg) : stk (cmdSet s m).1 = stk s := by unfold cmdSet; frame_stk
theorem stk_cmdTrigger (s : EState) (m : Msg) : stk (cmdTrigger s m).1 = stk s := by unfold cmdTrigger; frame_stk
theorem stk_cmdWait (s : EState) (m : Msg) : stk (cmdWait s m).1 = stk s := by unfold cmdWait; frame_stk
theorem stk_cmdStage (s : EState) (m : Msg) (op : String) : stk (cmdStage s m op).1 = stk s := by
  unfold cmdStage
  simp only []
  split
  · rfl
  · rw [stk_resetCheckpointMeth]
    split
    · split <;> rfl
    · rfl
theorem stk_cmdMonitor (s : EState) (m : Msg) : stk (cmdMonitor s m).1 = stk s := by unfold cmdMonitor; frame_stk
theorem stk_cmdUnmonitor (s : EState) (m : Msg) : stk (cmdUnmonitor s m).1 = stk s := by unfold cmdUnmonitor; frame_stk
theorem stk_cmdResumeFromSuspender (s : EState) : stk (cmdResumeFromSuspender s).1 = stk s := by
  unfold cmdResumeFromSuspender; frame_stk
theorem stk_cmdWaitFor (s : EState) (m : Msg) : stk (cmdWaitFor s m).1 = stk s := by unfold cmdWaitFor; frame_stk

/-- `_start_suspender` is the only command that touches the stacks: it pushes the helper plan TOGETHER with
    a response slot for it (`self._plan_stack.append(...)`, `self._response_stack.append(None)`). -/
theorem cmdStartSuspender_stacks (s : EState) (m : Msg) :
    stk (cmdStartSuspender s m).1 = stk s ∨
    ∃ helper, (cmdStartSuspender s m).1.pc = s.pc ∧ (cmdStartSuspender s m).1.resp = s.resp ∧
      (cmdStartSuspender s m).1.planStack = helper :: s.planStack ∧
      (cmdStartSuspender s m).1.respStack = Resp.none :: s.respStack := by
  unfold cmdStartSuspender
  split
  · exact Or.inl rfl
  · rename_i rq hrq
    right
    simp only []
    have h := stk_rewindPlan (pauseHooks (stopMovables (forBundlers s fun s b => recordInterruption s b (rq.just.getD "suspended"))))
    rw [stk_pauseHooks, stk_stopMovables, stk_forBundlers_ri] at h
    generalize rewindPlan (pauseHooks (stopMovables (forBundlers s fun s b => recordInterruption s b (rq.just.getD "suspended")))) = p at h
    obtain ⟨rw, s1⟩ := p
    simp only [] at h ⊢
    have a : s1.pc = s.pc := congrArg Stk.pc h
    have b : s1.resp = s.resp := congrArg Stk.resp h
    have c : s1.planStack = s.planStack := congrArg Stk.plans h
    have d : s1.respStack = s.respStack := congrArg Stk.resps h
    exact ⟨_, a, b, by rw [c], by rw [d]⟩

theorem grow_cmdStartSuspender (s : EState) (m : Msg) : Grow s (cmdStartSuspender s m).1 := by
  rcases cmdStartSuspender_stacks s m with h | ⟨helper, a, b, c, d⟩
  · exact grow_of_stk h
  · exact ⟨a, by rw [b], 1, by rw [c]; rfl, by rw [d]; rfl⟩

/-- every command keeps the two stacks in step -/
theorem runCommand_grow (s : EState) (m : Msg) : Grow s (runCommand s m).1 := by
  unfold runCommand
  split
  · exact grow_of_stk (stk_cmdOpenRun s m)
  · exact grow_of_stk (stk_cmdCloseRun s m)
  · exact grow_of_stk (stk_cmdCreate s m)
  · exact grow_of_stk (stk_cmdRead s m)
  · exact grow_of_stk (stk_cmdSave s m)
  · exact grow_of_stk (stk_cmdDrop s m)
  · exact grow_of_stk (stk_cmdCheckpoint s)
  · exact grow_of_stk (stk_cmdClearCheckpoint s)
  · exact grow_of_stk (stk_cmdRewindable s m)
  · exact grow_of_stk (stk_cmdSet s m)
  · exact grow_of_stk (stk_cmdTrigger s m)
  · exact grow_of_stk (stk_cmdWait s m)
  · exact Grow.refl s
  · exact grow_of_stk (stk_cmdStage s m _)
  · exact grow_of_stk (stk_cmdStage s m _)
  · exact grow_of_stk (stk_cmdMonitor s m)
  · exact grow_of_stk (stk_cmdUnmonitor s m)
  · exact Grow.refl s
  · split
    · rename_i s' h; exact grow_of_stk (stk_requestPause h)
    · exact Grow.refl s
  · exact grow_cmdStartSuspender s m
  · exact grow_of_stk (stk_cmdResumeFromSuspender s)
  · exact grow_of_stk (stk_cmdWaitFor s m)
  · exact Grow.refl s

/-- every command other than `_start_suspender` leaves the stacks literally unchanged -/
theorem runCommand_stk (s : EState) (m : Msg) (h : m.cmd ≠ "_start_suspender") : stk (runCommand s m).1 = stk s := by
  unfold runCommand
  split
  · exact stk_cmdOpenRun s m
  · exact stk_cmdCloseRun s m
  · exact stk_cmdCreate s m
  · exact stk_cmdRead s m
  · exact stk_cmdSave s m
  · exact stk_cmdDrop s m
  · exact stk_cmdCheckpoint s
  · exact stk_cmdClearCheckpoint s
  · exact stk_cmdRewindable s m
  · exact stk_cmdSet s m
  · exact stk_cmdTrigger s m
  · exact stk_cmdWait s m
  · rfl
  · exact stk_cmdStage s m _
  · exact stk_cmdStage s m _
  · exact stk_cmdMonitor s m
  · exact stk_cmdUnmonitor s m
  · rfl
  · split
    · rename_i s' h; exact stk_requestPause h
    · rfl
  · rename_i hc; exact absurd hc h
  · exact stk_cmdResumeFromSuspender s
  · exact stk_cmdWaitFor s m
  · rfl

/-- a command only ever suspends at one of the four in-command suspension points -/
theorem runCommand_suspend_pc (s : EState) (m : Msg) (pc : PC) (s' : EState)
    (h : runCommand s m = (s', .suspend pc)) : inCmd pc = true := by
  unfold runCommand at h
  split at h
  · unfold cmdOpenRun at h; (try simp only [] at h); split at h <;> cases h
  · unfold cmdCloseRun at h; (try simp only [] at h); repeat' split at h
    all_goals cases h
  · unfold cmdCreate at h; (try simp only [] at h); repeat' split at h
    all_goals cases h
  · unfold cmdRead at h; (try simp only [] at h); repeat' split at h
    all_goals cases h
  · unfold cmdSave at h; (try simp only [] at h); repeat' split at h
    all_goals cases h
  · unfold cmdDrop at h; (try simp only [] at h); repeat' split at h
    all_goals cases h
  · unfold cmdCheckpoint at h; (try simp only [] at h); repeat' split at h
    all_goals first | (cases h; rfl) | cases h
  · unfold cmdClearCheckpoint at h; cases h
  · unfold cmdRewindable at h; (try simp only [] at h); repeat' split at h
    all_goals cases h
  · unfold cmdSet at h; (try simp only [] at h); repeat' split at h
    all_goals cases h
  · unfold cmdTrigger at h; (try simp only [] at h); repeat' split at h
    all_goals cases h
  · unfold cmdWait at h; (try simp only [] at h); repeat' split at h
    all_goals first | (cases h; rfl) | cases h
  · cases h; rfl
  · unfold cmdStage at h; (try simp only [] at h); repeat' split at h
    all_goals cases h
  · unfold cmdStage at h; (try simp only [] at h); repeat' split at h
    all_goals cases h
  · unfold cmdMonitor at h; (try simp only [] at h); repeat' split at h
    all_goals cases h
  · unfold cmdUnmonitor at h; (try simp only [] at h); repeat' split at h
    all_goals cases h
  · cases h
  · split at h <;> cases h
  · unfold cmdStartSuspender at h; (try simp only [] at h); repeat' split at h
    all_goals cases h
  · unfold cmdResumeFromSuspender at h; cases h
  · unfold cmdWaitFor at h; (try simp only [] at h); repeat' split at h
    all_goals first | (cases h; rfl) | cases h
  · cases h

end BlueskyVerif.Engine
