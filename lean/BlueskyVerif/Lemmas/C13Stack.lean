/-
C13 helper lemmas, part 1: the parallel plan-stack / response-stack discipline of `RunEngine._run`
(`assert len(self._response_stack) == len(self._plan_stack)` at the loop top, with the popped
response `resp` in flight) as an invariant of every block of the `_run` machine.
-/
import BlueskyVerif.Lemmas.EngineSched

namespace BlueskyVerif.Engine

/-- The stack discipline: one response slot per plan on the stack; the slot of the top plan may be
    "in flight" (popped into the local `resp`, not yet replaced by the new response). -/
def StackInv (s : EState) : Prop :=
  s.respStack.length + (if s.resp.isSome then 1 else 0) = s.planStack.length

/-- the suspension points that lie INSIDE a command (between `resp = pop()` and the inner `finally`) -/
def inCmd : PC → Bool
  | .inSleep | .inCkptSleep | .inWait _ | .inWaitFor _ => true
  | _ => false

/-- `Bal b s`: the stacks are in step and `resp` is in flight iff `b` -/
def Bal (b : Bool) (s : EState) : Prop :=
  s.resp.isSome = b ∧ s.respStack.length + (if b then 1 else 0) = s.planStack.length

/-- the invariant at a suspension point: stacks in step, and a response is in flight only while `_run`
    is suspended inside a command -/
def PcInv (s : EState) : Prop :=
  StackInv s ∧ (s.resp.isSome = true → inCmd s.pc = true)

theorem Bal.stackInv {b : Bool} {s : EState} (h : Bal b s) : StackInv s := by
  unfold StackInv; rw [h.1]; exact h.2

theorem bal_false_pcinv {s : EState} (h : Bal false s) : PcInv s :=
  ⟨h.stackInv, fun hs => by rw [h.1] at hs; cases hs⟩

theorem StackInv.bal {s : EState} (h : StackInv s) : Bal s.resp.isSome s := ⟨rfl, h⟩

/-! ### transport along the control projection -/

theorem bal_of_ctl {b : Bool} {s s' : EState} (h : ctl s' = ctl s) (hb : Bal b s) : Bal b s' := by
  have h1 : s'.resp.isSome = s.resp.isSome := congrArg Ctl.respSome h
  have h2 : s'.respStack.length = s.respStack.length := congrArg Ctl.respLen h
  have h3 : s'.planStack.length = s.planStack.length := congrArg Ctl.planLen h
  unfold Bal; rw [h1, h2, h3]; exact hb

/-- `Grow s s'`: `s'` has the same program counter and the same in-flight response flag as `s`, and
    the two stacks grew by the same number of entries (0 for every data operation; 1 for
    `_start_suspender`, `request_suspend`, `resume`). -/
def Grow (s s' : EState) : Prop :=
  s'.pc = s.pc ∧ s'.resp.isSome = s.resp.isSome ∧
    ∃ k, s'.planStack.length = s.planStack.length + k ∧ s'.respStack.length = s.respStack.length + k

theorem Grow.refl (s : EState) : Grow s s := ⟨rfl, rfl, 0, rfl, rfl⟩

theorem Grow.trans {a b c : EState} (h1 : Grow a b) (h2 : Grow b c) : Grow a c := by
  obtain ⟨p1, r1, k1, a1, b1⟩ := h1
  obtain ⟨p2, r2, k2, a2, b2⟩ := h2
  exact ⟨p2.trans p1, r2.trans r1, k1 + k2, by omega, by omega⟩

theorem grow_of_ctl {s s' : EState} (h : ctl s' = ctl s) : Grow s s' :=
  ⟨congrArg Ctl.pc h, congrArg Ctl.respSome h, 0, congrArg Ctl.planLen h, congrArg Ctl.respLen h⟩

theorem Grow.bal {b : Bool} {s s' : EState} (g : Grow s s') (h : Bal b s) : Bal b s' := by
  obtain ⟨_, r, k, a, c⟩ := g
  refine ⟨r.trans h.1, ?_⟩
  have := h.2
  omega

theorem Grow.pcinv {s s' : EState} (g : Grow s s') (h : PcInv s) : PcInv s' := by
  refine ⟨(g.bal h.1.bal).stackInv, ?_⟩
  intro hs
  rw [g.1]
  apply h.2
  rw [← g.2.1]; exact hs

theorem grow_foldl {α} (f : EState → α → EState) (h : ∀ s a, Grow s (f s a)) (l : List α) (s : EState) :
    Grow s (l.foldl f s) := by
  induction l generalizing s with
  | nil => exact Grow.refl s
  | cons a l ih => rw [List.foldl_cons]; exact (h s a).trans (ih _)

/-! ### the blocks of `_run` -/

theorem setState_ctl_stk {s s' : EState} {n : St} (h : setState s n = .ok s') : Grow s s' := by
  unfold setState at h; split at h
  · cases h; exact ⟨rfl, rfl, 0, rfl, rfl⟩
  · cases h

theorem setState_bal {b : Bool} {s s' : EState} {n : St} (h : setState s n = .ok s') (hb : Bal b s) : Bal b s' :=
  (setState_ctl_stk h).bal hb

/-- the inner `finally`: whatever was in flight is replaced by the new response -/
theorem fin_bal {b : Bool} {s : EState} (r : Resp) (h : Bal b s) : Bal false (fin s r) := by
  obtain ⟨h1, h2⟩ := h
  unfold fin
  split
  · rename_i hn
    rw [hn] at h1
    cases b
    · exact ⟨hn ▸ rfl, h2⟩
    · cases h1
  · rename_i x hx
    rw [hx] at h1
    cases b
    · cases h1
    · refine ⟨rfl, ?_⟩
      simp only [List.length_cons] at *
      simpa using h2

theorem leaveLoop_grow_stk (s : EState) (e : Exc) :
    (leaveLoop s e).resp = s.resp ∧ (leaveLoop s e).planStack = s.planStack ∧ (leaveLoop s e).respStack = s.respStack := by
  unfold leaveLoop; simp only []; split <;> exact ⟨rfl, rfl, rfl⟩

theorem leaveLoop_pcinv {s : EState} (e : Exc) (h : Bal false s) : PcInv (leaveLoop s e) := by
  obtain ⟨h1, h2, h3⟩ := leaveLoop_grow_stk s e
  apply bal_false_pcinv
  unfold Bal; rw [h1, h2, h3]; exact h

/-- `Same s s'`: the stacks, the in-flight response and the program counter are literally unchanged -/
def Same (s s' : EState) : Prop :=
  s'.pc = s.pc ∧ s'.resp = s.resp ∧ s'.planStack = s.planStack ∧ s'.respStack = s.respStack

theorem Same.grow {s s' : EState} (h : Same s s') : Grow s s' := by
  obtain ⟨a, b, c, d⟩ := h
  exact ⟨a, by rw [b], 0, by rw [c]; rfl, by rw [d]; rfl⟩

theorem noteMsg_same (s : EState) (m : Msg) : Same s (noteMsg s m) := by
  refine ⟨?_, ?_, ?_, ?_⟩ <;> (unfold noteMsg; frame_be)

/-! ### the command handlers: none of them touches the stacks, except `_start_suspender`, which pushes
the helper plan together with a response slot -/

/-- close `Same s (f s ..)` goals after unfolding `f` -/
macro "frame_same" : tactic =>
  `(tactic| (refine ⟨?_, ?_, ?_, ?_⟩ <;> frame_be))

theorem same_of_eqs {s s' : EState} (a : s'.pc = s.pc) (b : s'.resp = s.resp) (c : s'.planStack = s.planStack)
    (d : s'.respStack = s.respStack) : Same s s' := ⟨a, b, c, d⟩

theorem Same.refl (s : EState) : Same s s := ⟨rfl, rfl, rfl, rfl⟩

theorem Same.trans {a b c : EState} (h1 : Same a b) (h2 : Same b c) : Same a c :=
  ⟨h2.1.trans h1.1, h2.2.1.trans h1.2.1, h2.2.2.1.trans h1.2.2.1, h2.2.2.2.trans h1.2.2.2⟩

theorem same_foldl {α} (f : EState → α → EState) (h : ∀ s a, Same s (f s a)) (l : List α) (s : EState) :
    Same s (l.foldl f s) := by
  induction l generalizing s with
  | nil => exact Same.refl s
  | cons a l ih => rw [List.foldl_cons]; exact (h s a).trans (ih _)

theorem forBundlers_go_same (f : EState → Bundler → EState × Bundler) (h : ∀ s b, Same s (f s b).1)
    (todo done : List (String × Bundler)) (s : EState) : Same s (forBundlers.go f s todo done) := by
  induction todo generalizing s done with
  | nil => exact ⟨rfl, rfl, rfl, rfl⟩
  | cons kb rest ih =>
    obtain ⟨k, b⟩ := kb
    unfold forBundlers.go
    simp only []
    exact (h s b).trans (ih _ _)

theorem forBundlers_same (f : EState → Bundler → EState × Bundler) (h : ∀ s b, Same s (f s b).1) (s : EState) :
    Same s (forBundlers s f) := forBundlers_go_same f h _ _ s

theorem logCall_same (s : EState) (c : Call) : Same s (s.logCall c) := ⟨rfl, rfl, rfl, rfl⟩
theorem emit_same (s : EState) (d : Doc) : Same s (s.emit d) := ⟨rfl, rfl, rfl, rfl⟩
theorem setDev_same (s : EState) (n : String) (d : DevState) : Same s (setDev s n d) := ⟨rfl, rfl, rfl, rfl⟩
theorem nextMode_same (s : EState) (n op : String) : Same s (nextMode s n op).2 := ⟨rfl, rfl, rfl, rfl⟩
theorem putBundler_same (s : EState) (m : Msg) (b : Bundler) : Same s (putBundler s m b) := ⟨rfl, rfl, rfl, rfl⟩
theorem emitEvent_same (s : EState) (b : Bundler) (st : String) (d : List (String × Int)) (n : String) :
    Same s (emitEvent s b st d n).1 := ⟨rfl, rfl, rfl, rfl⟩
theorem prepareStream_same (s : EState) (b : Bundler) (st : String) (o : List String) :
    Same s (prepareStream s b st o).1 := ⟨rfl, rfl, rfl, rfl⟩
theorem newStatus_same (s : EState) (d o m : String) (g : Option String) : Same s (newStatus s d o m g).2 :=
  ⟨rfl, rfl, rfl, rfl⟩

theorem recordInterruption_same (s : EState) (b : Bundler) (c : String) : Same s (recordInterruption s b c).1 := by
  unfold recordInterruption; split <;> exact ⟨rfl, rfl, rfl, rfl⟩

theorem suspendMonitors_same (s : EState) (b : Bundler) : Same s (suspendMonitors s b).1 := by
  unfold suspendMonitors; apply same_foldl; intro s x; exact ⟨rfl, rfl, rfl, rfl⟩

theorem restoreMonitors_same (s : EState) (b : Bundler) : Same s (restoreMonitors s b).1 := by
  unfold restoreMonitors; apply same_foldl; intro s x; exact ⟨rfl, rfl, rfl, rfl⟩

theorem clearMonitors_same (s : EState) (b : Bundler) : Same s (clearMonitors s b).1 := by
  unfold clearMonitors; exact suspendMonitors_same s b

theorem closeRunDoc_same (s : EState) (b : Bundler) (e r : String) : Same s (closeRunDoc s b e r).1 := by
  unfold closeRunDoc
  exact (clearMonitors_same s b).trans ⟨rfl, rfl, rfl, rfl⟩

theorem resetCheckpointMeth_same (s : EState) : Same s (resetCheckpointMeth s) := by
  unfold resetCheckpointMeth; split
  · exact Same.refl s
  · exact Same.trans ⟨rfl, rfl, rfl, rfl⟩ (forBundlers_same _ (fun s _ => Same.refl s) _)

theorem stopMovables_same (s : EState) : Same s (stopMovables s) := by
  unfold stopMovables; apply same_foldl; intro s x; exact ⟨rfl, rfl, rfl, rfl⟩

theorem pauseHooks_same (s : EState) : Same s (pauseHooks s) := by
  unfold pauseHooks
  apply same_foldl
  intro s n
  split
  · split
    · simp only []
      split
      · exact Same.trans ⟨rfl, rfl, rfl, rfl⟩ (resetCheckpointMeth_same _)
      · exact ⟨rfl, rfl, rfl, rfl⟩
    · exact Same.refl s
  · exact Same.refl s

theorem resumeHooks_same (s : EState) : Same s (resumeHooks s) := by
  unfold resumeHooks
  apply same_foldl
  intro s n
  split
  · split
    · exact ⟨rfl, rfl, rfl, rfl⟩
    · exact Same.refl s
  · exact Same.refl s

theorem rewindPlan_same (s : EState) : Same s (rewindPlan s).2 := by
  unfold rewindPlan
  simp only []
  split
  · exact ⟨rfl, rfl, rfl, rfl⟩
  · exact Same.trans ⟨rfl, rfl, rfl, rfl⟩ (forBundlers_same _ (fun s _ => Same.refl s) _)

theorem requestPause_same {s s' : EState} {d : Bool} (h : requestPause s d = .ok s') : Same s s' := by
  unfold requestPause at h
  split at h
  · cases h
  · split at h
    · cases h; exact ⟨rfl, rfl, rfl, rfl⟩
    · split at h
      · cases h
      · rename_i s1 hs
        cases h
        have h1 : Same s s1 := by
          unfold setState at hs; split at hs
          · cases hs; exact ⟨rfl, rfl, rfl, rfl⟩
          · cases hs
        exact h1.trans (Same.trans (forBundlers_same _ (fun s b => recordInterruption_same s b "pause") _) ⟨rfl, rfl, rfl, rfl⟩)

end BlueskyVerif.Engine
