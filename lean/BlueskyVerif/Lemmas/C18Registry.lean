/-
Helper lemmas for C18/C19: well-formedness of the registry model and what `connect` /
`disconnect` do to the per-signal views.
-/
import BlueskyVerif.Lemmas.C18OD

namespace BlueskyVerif.Disp
open OD

/-- invariants of the registry's dictionaries (all established by the code itself, see `wf_empty`,
    `connect_spec`, `disconnect_spec`) -/
structure Registry.WF (r : Registry) : Prop where
  outer : (r.callbacks.map (·.1)).Nodup
  mirror : ∀ k, r.fc k = (r.cbs k).map (fun p => (p.2, p.1))
  cidNodup : ∀ k, ((r.cbs k).map (·.1)).Nodup
  fnNodup : ∀ k, ((r.cbs k).map (·.2)).Nodup
  bound : ∀ k (p : Nat × Nat), p ∈ r.cbs k → p.1 ≤ r.cid
  uniq : ∀ k k' c f f', (c, f) ∈ r.cbs k → (c, f') ∈ r.cbs k' → k = k'

theorem Registry.wf_empty (ig : Bool) : ({ ignoreExceptions := ig } : Registry).WF := by
  constructor <;> simp [Registry.cbs, Registry.fc]

theorem Registry.WF.fn_unique {r : Registry} (h : r.WF) {k c c' f} (h1 : (c, f) ∈ r.cbs k) (h2 : (c', f) ∈ r.cbs k) :
    c = c' := by
  have hn := h.fnNodup k
  generalize r.cbs k = l at h1 h2 hn
  induction l with
  | nil => simp at h1
  | cons p rest ih =>
    simp only [List.map_cons, List.nodup_cons] at hn
    rcases List.mem_cons.1 h1 with e1 | m1 <;> rcases List.mem_cons.1 h2 with e2 | m2
    · rw [← e2] at e1; exact (Prod.mk.inj e1).1
    · exact absurd (List.mem_map.2 ⟨(c', f), m2, by simp [← e1]⟩) hn.1
    · exact absurd (List.mem_map.2 ⟨(c, f), m1, by simp [← e2]⟩) hn.1
    · exact ih m1 m2 hn.2

theorem Registry.WF.cid_unique {r : Registry} (h : r.WF) {k c f f'} (h1 : (c, f) ∈ r.cbs k) (h2 : (c, f') ∈ r.cbs k) :
    f = f' := by
  have hn := h.cidNodup k
  generalize r.cbs k = l at h1 h2 hn
  induction l with
  | nil => simp at h1
  | cons p rest ih =>
    simp only [List.map_cons, List.nodup_cons] at hn
    rcases List.mem_cons.1 h1 with e1 | m1 <;> rcases List.mem_cons.1 h2 with e2 | m2
    · rw [← e2] at e1; exact (Prod.mk.inj e1).2
    · exact absurd (List.mem_map.2 ⟨(c, f'), m2, by simp [← e1]⟩) hn.1
    · exact absurd (List.mem_map.2 ⟨(c, f), m1, by simp [← e2]⟩) hn.1
    · exact ih m1 m2 hn.2

/-- the registry after `connect` took the "new cid" branch -/
def Registry.connectNew (r : Registry) (sig : Sig) (f : Callable) : Registry :=
  let fcm := OD.setdefault r.funcCid sig []
  let cb := OD.setdefault r.callbacks sig []
  { r with
    cid := r.cid + 1
    funcCid := OD.set fcm sig (OD.set (OD.getD fcm sig) f (r.cid + 1))
    callbacks := OD.set cb sig (OD.set (OD.getD cb sig) (r.cid + 1) f) }

theorem Registry.connect_eq (r : Registry) (sig : Sig) (f : Callable) :
    r.connect sig f =
      match OD.find? (r.fc sig) f with
      | some c => ({ r with funcCid := OD.setdefault r.funcCid sig [] }, c)
      | none => (r.connectNew sig f, r.cid + 1) := by
  unfold Registry.connect Registry.connectNew Registry.fc
  simp only [Generated.connectDedup, if_true, OD.getD_setdefault]
  split <;> simp_all

theorem Registry.connectNew_cbs (r : Registry) (h : r.WF) (sig : Sig) (f : Callable) (k : Sig) :
    (r.connectNew sig f).cbs k = if k = sig then r.cbs k ++ [(r.cid + 1, f)] else r.cbs k := by
  have hfresh : ∀ (p : Nat × Nat), p ∈ r.cbs sig → p.1 ≠ r.cid + 1 := by
    intro p hp; have := h.bound sig p hp; omega
  show OD.getD (OD.set _ _ _) k = _
  rw [OD.getD_set, OD.getD_setdefault, OD.getD_setdefault]
  by_cases hk : sig = k
  · subst hk
    simp only [if_true]
    exact OD.set_fresh _ _ _ hfresh
  · have : ¬ k = sig := fun e => hk e.symm
    simp only [hk, this, if_false]; rfl

theorem Registry.connectNew_fc (r : Registry) (h : r.WF) (sig : Sig) (f : Callable)
    (hnin : f ∉ (r.cbs sig).map (·.2)) (k : Sig) :
    (r.connectNew sig f).fc k = if k = sig then r.fc k ++ [(f, r.cid + 1)] else r.fc k := by
  show OD.getD (OD.set _ _ _) k = _
  rw [OD.getD_set, OD.getD_setdefault, OD.getD_setdefault]
  by_cases hk : sig = k
  · subst hk
    simp only [if_true]
    apply OD.set_fresh
    intro p hp
    have hp' : p ∈ r.fc sig := hp
    rw [h.mirror sig] at hp'
    obtain ⟨q, hq, rfl⟩ := List.mem_map.1 hp'
    intro e
    exact hnin (List.mem_map.2 ⟨q, hq, e⟩)
  · have : ¬ k = sig := fun e => hk e.symm
    simp only [hk, this, if_false]; rfl

theorem Registry.connectNew_wf (r : Registry) (h : r.WF) (sig : Sig) (f : Callable)
    (hnin : f ∉ (r.cbs sig).map (·.2)) : (r.connectNew sig f).WF := by
  have hfresh : ∀ k, ∀ (p : Nat × Nat), p ∈ r.cbs k → p.1 ≠ r.cid + 1 := by
    intro k p hp; have := h.bound k p hp; omega
  have hcid : (r.connectNew sig f).cid = r.cid + 1 := rfl
  constructor
  · exact OD.nodup_keys_set _ _ _ (OD.nodup_keys_setdefault _ _ _ h.outer)
  · intro k
    rw [connectNew_cbs r h, connectNew_fc r h sig f hnin]
    by_cases hk : k = sig
    · simp [hk, h.mirror sig]
    · simp [hk, h.mirror k]
  · intro k
    rw [connectNew_cbs r h]
    by_cases hk : k = sig
    · simp only [hk, if_true, List.map_append, List.map_cons, List.map_nil]
      refine List.nodup_append.2 ⟨h.cidNodup sig, by simp, ?_⟩
      intro a ha b hb
      simp at hb; subst hb
      obtain ⟨q, hq, rfl⟩ := List.mem_map.1 ha
      exact hfresh sig q hq
    · simp only [hk, if_false]; exact h.cidNodup k
  · intro k
    rw [connectNew_cbs r h]
    by_cases hk : k = sig
    · simp only [hk, if_true, List.map_append, List.map_cons, List.map_nil]
      refine List.nodup_append.2 ⟨h.fnNodup sig, by simp, ?_⟩
      intro a ha b hb
      simp at hb; subst hb
      intro e; subst e
      exact hnin ha
    · simp only [hk, if_false]; exact h.fnNodup k
  · intro k p
    rw [connectNew_cbs r h, hcid]
    intro hp
    by_cases hk : k = sig
    · simp only [hk, if_true, List.mem_append, List.mem_singleton] at hp
      rcases hp with hp | hp
      · have := h.bound sig p hp; omega
      · subst hp; simp
    · simp only [hk, if_false] at hp
      have := h.bound k p hp; omega
  · intro k k' c g g'
    rw [connectNew_cbs r h, connectNew_cbs r h]
    intro h1 h2
    have old_or_new : ∀ kk gg, (c, gg) ∈ (if kk = sig then r.cbs kk ++ [(r.cid + 1, f)] else r.cbs kk) →
        ((c, gg) ∈ r.cbs kk ∧ c ≠ r.cid + 1) ∨ (kk = sig ∧ c = r.cid + 1) := by
      intro kk gg hm
      by_cases hk : kk = sig
      · simp only [hk, if_true, List.mem_append, List.mem_singleton, Prod.mk.injEq] at hm
        rcases hm with hm | hm
        · left; rw [hk]; exact ⟨hm, hfresh sig _ hm⟩
        · right; exact ⟨hk, hm.1⟩
      · simp only [hk, if_false] at hm
        left; exact ⟨hm, hfresh kk _ hm⟩
    rcases old_or_new k g h1 with ⟨a1, n1⟩ | ⟨a1, n1⟩ <;> rcases old_or_new k' g' h2 with ⟨a2, n2⟩ | ⟨a2, n2⟩
    · exact h.uniq k k' c g g' a1 a2
    · exact absurd n2 n1
    · exact absurd n1 n2
    · rw [a1, a2]

/-- What `connect` does, in terms of the per-signal views. -/
theorem Registry.connect_spec (r : Registry) (h : r.WF) (sig : Sig) (f : Callable) :
    (r.connect sig f).1.WF ∧ (r.connect sig f).1.ignoreExceptions = r.ignoreExceptions ∧
    ((r.connect sig f).2, f) ∈ (r.connect sig f).1.cbs sig ∧
    (∀ k, (r.connect sig f).1.cbs k =
      if k = sig ∧ f ∉ (r.cbs sig).map (·.2) then r.cbs k ++ [((r.connect sig f).2, f)] else r.cbs k) := by
  rw [Registry.connect_eq, h.mirror sig]
  cases hfind : OD.find? ((r.cbs sig).map (fun p => (p.2, p.1))) f with
  | some c =>
    have hmem : (c, f) ∈ r.cbs sig := (OD.find?_swap_some (h.fnNodup sig) f c).1 hfind
    have hin : f ∈ (r.cbs sig).map (·.2) := List.mem_map.2 ⟨(c, f), hmem, rfl⟩
    refine ⟨?_, rfl, hmem, ?_⟩
    · constructor
      · exact h.outer
      · intro k
        show OD.getD (OD.setdefault r.funcCid sig []) k = _
        rw [OD.getD_setdefault]; exact h.mirror k
      · exact h.cidNodup
      · exact h.fnNodup
      · exact h.bound
      · exact h.uniq
    · intro k
      show r.cbs k = _
      simp [hin]
  | none =>
    have hnin : f ∉ (r.cbs sig).map (·.2) := (OD.find?_swap_none _ f).1 hfind
    refine ⟨connectNew_wf r h sig f hnin, rfl, ?_, ?_⟩
    · show (r.cid + 1, f) ∈ (r.connectNew sig f).cbs sig
      rw [connectNew_cbs r h]; simp
    · intro k
      show (r.connectNew sig f).cbs k = _
      rw [connectNew_cbs r h]
      by_cases hk : k = sig
      · simp [hk, hnin]
      · simp [hk]

/-! ### disconnect -/

theorem Registry.disconnectCbs_none (m : List (Sig × List (Cid × Callable))) (c : Cid)
    (h : Registry.disconnectCbs m c = none) : ∀ k, ∀ p ∈ OD.getD m k, p.1 ≠ c := by
  induction m with
  | nil => intro k p hp; simp at hp
  | cons e rest ih =>
    obtain ⟨s, d⟩ := e
    unfold Registry.disconnectCbs at h
    by_cases hh : OD.has d c = true
    · simp [hh] at h
    · simp only [hh, if_false, Option.map_eq_none_iff, Bool.false_eq_true] at h
      intro k p hp
      rw [OD.getD_cons] at hp
      by_cases hk : s = k
      · simp only [hk, if_true] at hp
        have := (OD.has_false_iff d c).1 (by simpa using hh)
        exact this p hp
      · simp only [hk, if_false] at hp
        exact ih h k p hp

theorem Registry.disconnectCbs_some (m : List (Sig × List (Cid × Callable))) (hn : (m.map (·.1)).Nodup) (c : Cid)
    (m' : List (Sig × List (Cid × Callable))) (h : Registry.disconnectCbs m c = some m') :
    m'.map (·.1) = m.map (·.1) ∧
    ∃ k0, OD.has (OD.getD m k0) c = true ∧ OD.getD m' k0 = OD.del (OD.getD m k0) c ∧
      ∀ k, k ≠ k0 → OD.getD m' k = OD.getD m k := by
  induction m generalizing m' with
  | nil => simp [Registry.disconnectCbs] at h
  | cons e rest ih =>
    obtain ⟨s, d⟩ := e
    simp only [List.map_cons, List.nodup_cons] at hn
    unfold Registry.disconnectCbs at h
    by_cases hh : OD.has d c = true
    · simp only [hh, if_true, Option.some.injEq] at h
      subst h
      refine ⟨by simp, s, ?_, ?_, ?_⟩
      · simpa [OD.getD_cons] using hh
      · simp [OD.getD_cons]
      · intro k hk
        have : ¬ s = k := fun e => hk e.symm
        simp [OD.getD_cons, this]
    · simp only [hh, if_false, Bool.false_eq_true] at h
      cases hr : Registry.disconnectCbs rest c with
      | none => simp [hr] at h
      | some m'' =>
        simp only [hr, Option.map_some, Option.some.injEq] at h
        subst h
        obtain ⟨hkeys, k0, h1, h2, h3⟩ := ih hn.2 m'' hr
        have hk0 : s ≠ k0 := by
          intro e
          subst e
          have : OD.getD rest s = [] := OD.getD_of_not_has rest s (by
            intro p hp e
            exact hn.1 (List.mem_map.2 ⟨p, hp, e⟩))
          rw [this] at h1
          simp [OD.has] at h1
        refine ⟨by simp [hkeys], k0, ?_, ?_, ?_⟩
        · simpa [OD.getD_cons, hk0] using h1
        · simpa [OD.getD_cons, hk0] using h2
        · intro k hk
          simp only [OD.getD_cons]
          by_cases hs : s = k
          · simp [hs]
          · simp only [hs, if_false]; exact h3 k hk

theorem List.filter_map_swap (l : List (Nat × Nat)) (c : Nat) :
    (l.map (fun p => (p.2, p.1))).filter (fun q => q.2 != c) = (l.filter (fun p => p.1 != c)).map (fun p => (p.2, p.1)) := by
  induction l with
  | nil => rfl
  | cons p r ih =>
    simp only [List.map_cons, List.filter_cons]
    split <;> simp [ih]

/-- What `disconnect` does, in terms of the per-signal views. -/
theorem Registry.disconnect_spec (r : Registry) (h : r.WF) (c : Cid) :
    (r.disconnect c).WF ∧ (r.disconnect c).ignoreExceptions = r.ignoreExceptions ∧
    (r.disconnect c).cid = r.cid ∧
    (∀ k, (r.disconnect c).cbs k = (r.cbs k).filter (fun p => p.1 != c)) := by
  unfold Registry.disconnect
  cases hd : Registry.disconnectCbs r.callbacks c with
  | none =>
    refine ⟨h, rfl, rfl, ?_⟩
    intro k
    show r.cbs k = _
    symm
    rw [List.filter_eq_self]
    intro p hp
    have := Registry.disconnectCbs_none _ _ hd k p hp
    simpa using this
  | some m' =>
    obtain ⟨hkeys, k0, h1, h2, h3⟩ := Registry.disconnectCbs_some r.callbacks h.outer c m' hd
    have hcbs : ∀ k, OD.getD m' k = (r.cbs k).filter (fun p => p.1 != c) := by
      intro k
      by_cases hk : k = k0
      · subst hk; exact h2
      · rw [h3 k hk]
        show r.cbs k = _
        symm
        rw [List.filter_eq_self]
        intro p hp
        obtain ⟨q, hq, hqc⟩ := (OD.has_iff _ _).1 h1
        simp only [bne_iff_ne, ne_eq]
        intro e
        have hq' : (c, q.2) ∈ r.cbs k0 := by rw [← hqc]; exact hq
        have hp' : (c, p.2) ∈ r.cbs k := by rw [← e]; exact hp
        exact hk (h.uniq k k0 c p.2 q.2 hp' hq')
    have hfc : ∀ k, OD.getD (r.funcCid.map (fun p => (p.1, p.2.filter (fun q => q.2 != c)))) k =
        (r.fc k).filter (fun q => q.2 != c) := by
      intro k
      exact OD.getD_map_vals r.funcCid (fun l => l.filter (fun q => q.2 != c)) rfl k
    refine ⟨?_, rfl, rfl, hcbs⟩
    constructor
    · show (m'.map (·.1)).Nodup
      rw [hkeys]; exact h.outer
    · intro k
      show OD.getD (r.funcCid.map _) k = List.map _ (OD.getD m' k)
      rw [hfc k, hcbs k, h.mirror k, List.filter_map_swap]
    · intro k
      show ((OD.getD m' k).map (·.1)).Nodup
      rw [hcbs k]
      exact (h.cidNodup k).sublist (List.Sublist.map _ List.filter_sublist)
    · intro k
      show ((OD.getD m' k).map (·.2)).Nodup
      rw [hcbs k]
      exact (h.fnNodup k).sublist (List.Sublist.map _ List.filter_sublist)
    · intro k p
      show p ∈ OD.getD m' k → p.1 ≤ r.cid
      rw [hcbs k]
      intro hp
      exact h.bound k p (List.mem_filter.1 hp).1
    · intro k k' c' g g'
      show (c', g) ∈ OD.getD m' k → (c', g') ∈ OD.getD m' k' → k = k'
      rw [hcbs k, hcbs k']
      intro a b
      exact h.uniq k k' c' g g' (List.mem_filter.1 a).1 (List.mem_filter.1 b).1

end BlueskyVerif.Disp
