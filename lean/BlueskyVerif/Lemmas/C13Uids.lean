/-
C13 helper lemmas, part 5: `RE(...)` returns the uids of the runs it opened.  `_run_start_uids` is appended to by
`_open_run` only, together with the emission of the RunStart document; no other operation emits a `start`
document or touches the list.  `Ext s s'`: from `s` to `s'` the list of returned uids and the list of runs of the
`start` documents were extended by THE SAME entries.
-/
import BlueskyVerif.Lemmas.C13Resp

namespace BlueskyVerif.Engine

/-- runs of the RunStart documents, in emission order -/
def startsOf (docs : List Doc) : List Nat := (docs.filter (fun d => d.kind == "start")).map (·.run)

structure Ru where
  uids : List Nat
  starts : List Nat

def ru (s : EState) : Ru := { uids := s.runStartUids, starts := startsOf s.docs }

theorem startsOf_append_other (docs : List Doc) (d : Doc) (h : (d.kind == "start") = false) :
    startsOf (docs ++ [d]) = startsOf docs := by
  unfold startsOf
  rw [List.filter_append]
  simp [h]

theorem startsOf_append_start (docs : List Doc) (d : Doc) (h : (d.kind == "start") = true) :
    startsOf (docs ++ [d]) = startsOf docs ++ [d.run] := by
  unfold startsOf
  rw [List.filter_append]
  simp [h]

theorem kind_event : ("event" == "start") = false := by decide
theorem kind_descriptor : ("descriptor" == "start") = false := by decide
theorem kind_stop : ("stop" == "start") = false := by decide
theorem kind_start : ("start" == "start") = true := by decide

theorem ru_emit_other (s : EState) (d : Doc) (h : (d.kind == "start") = false) : ru (s.emit d) = ru s := by
  unfold ru EState.emit
  simp only [startsOf_append_other _ _ h]

theorem ru_foldl {α} (f : EState → α → EState) (h : ∀ s a, ru (f s a) = ru s) (l : List α) (s : EState) :
    ru (l.foldl f s) = ru s := by
  induction l generalizing s with
  | nil => rfl
  | cons a l ih => rw [List.foldl_cons, ih, h]

theorem ru_forBundlers_go (f : EState → Bundler → EState × Bundler) (h : ∀ s b, ru (f s b).1 = ru s)
    (todo done : List (String × Bundler)) (s : EState) : ru (forBundlers.go f s todo done) = ru s := by
  induction todo generalizing s done with
  | nil => rfl
  | cons kb rest ih =>
    obtain ⟨k, b⟩ := kb
    unfold forBundlers.go
    simp only []
    rw [ih]; exact h s b

theorem ru_forBundlers (f : EState → Bundler → EState × Bundler) (h : ∀ s b, ru (f s b).1 = ru s) (s : EState) :
    ru (forBundlers s f) = ru s := ru_forBundlers_go f h _ _ s

@[simp] theorem ru_logCall (s : EState) (c : Call) : ru (s.logCall c) = ru s := rfl
@[simp] theorem ru_setDev (s : EState) (n : String) (d : DevState) : ru (setDev s n d) = ru s := rfl
@[simp] theorem ru_nextMode (s : EState) (n op : String) : ru (nextMode s n op).2 = ru s := rfl
@[simp] theorem ru_putBundler (s : EState) (m : Msg) (b : Bundler) : ru (putBundler s m b) = ru s := rfl
@[simp] theorem ru_emitEvent (s : EState) (b : Bundler) (st : String) (d : List (String × Int)) (n : String) :
    ru (emitEvent s b st d n).1 = ru s := by
  unfold emitEvent; exact ru_emit_other s _ kind_event
@[simp] theorem ru_prepareStream (s : EState) (b : Bundler) (st : String) (o : List String) :
    ru (prepareStream s b st o).1 = ru s := by
  unfold prepareStream; exact ru_emit_other s _ kind_descriptor
@[simp] theorem ru_newStatus (s : EState) (d o m : String) (g : Option String) : ru (newStatus s d o m g).2 = ru s := rfl

@[simp] theorem ru_recordInterruption (s : EState) (b : Bundler) (c : String) : ru (recordInterruption s b c).1 = ru s := by
  unfold recordInterruption; split
  · simp only []; exact ru_emitEvent s b "interruptions" [] c
  · rfl

@[simp] theorem ru_suspendMonitors (s : EState) (b : Bundler) : ru (suspendMonitors s b).1 = ru s := by
  unfold suspendMonitors; apply ru_foldl; intro s x; rfl

@[simp] theorem ru_restoreMonitors (s : EState) (b : Bundler) : ru (restoreMonitors s b).1 = ru s := by
  unfold restoreMonitors; apply ru_foldl; intro s x; rfl

@[simp] theorem ru_clearMonitors (s : EState) (b : Bundler) : ru (clearMonitors s b).1 = ru s := by
  unfold clearMonitors; simp

@[simp] theorem ru_closeRunDoc (s : EState) (b : Bundler) (e r : String) : ru (closeRunDoc s b e r).1 = ru s := by
  unfold closeRunDoc
  simp only []
  rw [ru_emit_other _ _ kind_stop]
  exact ru_clearMonitors s b

@[simp] theorem ru_forBundlers_pure (s : EState) (g : Bundler → Bundler) :
    ru (forBundlers s (fun s b => (s, g b))) = ru s := ru_forBundlers _ (fun _ _ => rfl) _

@[simp] theorem ru_forBundlers_ri (s : EState) (c : String) :
    ru (forBundlers s (fun s b => recordInterruption s b c)) = ru s :=
  ru_forBundlers _ (fun s b => ru_recordInterruption s b c) _

@[simp] theorem ru_forBundlers_restore (s : EState) : ru (forBundlers s restoreMonitors) = ru s :=
  ru_forBundlers _ ru_restoreMonitors _

@[simp] theorem ru_forBundlers_suspend (s : EState) : ru (forBundlers s suspendMonitors) = ru s :=
  ru_forBundlers _ ru_suspendMonitors _

@[simp] theorem ru_forBundlers_clear (s : EState) : ru (forBundlers s clearMonitors) = ru s :=
  ru_forBundlers _ ru_clearMonitors _

@[simp] theorem ru_resetCheckpointMeth (s : EState) : ru (resetCheckpointMeth s) = ru s := by
  unfold resetCheckpointMeth; split
  · rfl
  · rw [ru_forBundlers_pure]; rfl

@[simp] theorem ru_stopMovables (s : EState) : ru (stopMovables s) = ru s := by
  unfold stopMovables; apply ru_foldl; intro s x; rfl

@[simp] theorem ru_pauseHooks (s : EState) : ru (pauseHooks s) = ru s := by
  unfold pauseHooks
  apply ru_foldl
  intro s n
  split
  · split
    · simp only []; split <;> simp
    · rfl
  · rfl

@[simp] theorem ru_resumeHooks (s : EState) : ru (resumeHooks s) = ru s := by
  unfold resumeHooks
  apply ru_foldl
  intro s n
  split
  · split <;> rfl
  · rfl

@[simp] theorem ru_rewindPlan (s : EState) : ru (rewindPlan s).2 = ru s := by
  unfold rewindPlan
  simp only []
  split
  · rfl
  · rw [ru_forBundlers_pure]; rfl

theorem ru_setState {s s' : EState} {n : St} (h : setState s n = .ok s') : ru s' = ru s := by
  unfold setState at h; split at h
  · cases h; rfl
  · cases h

theorem ru_requestPause {s s' : EState} {d : Bool} (h : requestPause s d = .ok s') : ru s' = ru s := by
  unfold requestPause at h
  split at h
  · cases h
  · split at h
    · cases h; rfl
    · split at h
      · cases h
      · rename_i s1 hs
        cases h
        have h1 := ru_setState hs
        have e : ∀ (x : EState) (b : Bool), ru { x with cancelPending := b } = ru x := fun _ _ => rfl
        rw [e, ru_forBundlers_ri, h1]; rfl

/-- close a goal `ru (f ... s ...) = ru s` after unfolding `f` -/
macro "frame_ru" : tactic =>
  `(tactic| repeat' (first | rfl | (simp; done) | split | (simp only []; (first | rfl | split))))

/-- `Ext s s'`: the returned uids and the runs of the start documents grew by the same entries -/
def Ext (s s' : EState) : Prop :=
  ∃ l, s'.runStartUids = s.runStartUids ++ l ∧ startsOf s'.docs = startsOf s.docs ++ l

theorem ext_same {s s' : EState} (h1 : s'.runStartUids = s.runStartUids) (h2 : s'.docs = s.docs) : Ext s s' :=
  ⟨[], by rw [h1]; simp, by rw [h2]; simp⟩

theorem Ext.refl (s : EState) : Ext s s := ext_same rfl rfl

theorem Ext.trans {a b c : EState} (h1 : Ext a b) (h2 : Ext b c) : Ext a c := by
  obtain ⟨l1, a1, b1⟩ := h1
  obtain ⟨l2, a2, b2⟩ := h2
  exact ⟨l1 ++ l2, by rw [a2, a1, List.append_assoc], by rw [b2, b1, List.append_assoc]⟩

theorem ext_of_ru {s s' : EState} (h : ru s' = ru s) : Ext s s' :=
  ⟨[], by
    have : s'.runStartUids = s.runStartUids := congrArg Ru.uids h
    simpa using this, by
    have : startsOf s'.docs = startsOf s.docs := congrArg Ru.starts h
    simpa using this⟩

theorem ext_foldl {α} (f : EState → α → EState) (h : ∀ s a, Ext s (f s a)) (l : List α) (s : EState) :
    Ext s (l.foldl f s) := by
  induction l generalizing s with
  | nil => exact Ext.refl s
  | cons a l ih => rw [List.foldl_cons]; exact (h s a).trans (ih _)

/-- `_open_run`: the new uid goes to `_run_start_uids` and into the RunStart document, nothing else is a start -/
theorem ext_cmdOpenRun (s : EState) (m : Msg) : Ext s (cmdOpenRun s m).1 := by
  unfold cmdOpenRun
  split
  · exact Ext.refl s
  · simp only []
    split
    · refine ⟨[s.nextRun], rfl, ?_⟩
      show startsOf ((s.docs ++ [_]) ++ [_]) = _
      rw [startsOf_append_other _ _ kind_descriptor, startsOf_append_start _ _ kind_start]
    · refine ⟨[s.nextRun], rfl, ?_⟩
      show startsOf (s.docs ++ [_]) = _
      rw [startsOf_append_start _ _ kind_start]
theorem ru_with_bundlers (x : EState) (l : List (String × Bundler)) : ru { x with bundlers := l } = ru x := rfl
theorem ru_with_msgCache (x : EState) (l : Option (List Msg)) : ru { x with msgCache := l } = ru x := rfl
theorem ru_with_rewindable (x : EState) (l : Bool) : ru { x with rewindable := l } = ru x := rfl
theorem ru_with_staged (x : EState) (l : List String) : ru { x with staged := l } = ru x := rfl

theorem ru_cmdCloseRun (s : EState) (m : Msg) : ru (cmdCloseRun s m).1 = ru s := by
  unfold cmdCloseRun
  split
  · rfl
  · rename_i b hb
    split
    · rfl
    · simp only []
      have h1 := ru_closeRunDoc s b (m.name.getD "success") ""
      generalize closeRunDoc s b (m.name.getD "success") "" = p at h1
      obtain ⟨s1, b1⟩ := p
      simp only [] at h1 ⊢
      split
      · rw [ru_resetCheckpointMeth, ru_with_bundlers]; exact h1
      · rw [ru_with_bundlers]; exact h1
theorem ru_cmdCreate (s : EState) (m : Msg) : ru (cmdCreate s m).1 = ru s := by unfold cmdCreate; frame_ru
theorem ru_cmdRead (s : EState) (m : Msg) : ru (cmdRead s m).1 = ru s := by unfold cmdRead; frame_ru
theorem ru_cmdSave (s : EState) (m : Msg) : ru (cmdSave s m).1 = ru s := by unfold cmdSave; frame_ru
theorem ru_cmdDrop (s : EState) (m : Msg) : ru (cmdDrop s m).1 = ru s := by unfold cmdDrop; frame_ru
theorem ru_cmdCheckpoint (s : EState) : ru (cmdCheckpoint s).1 = ru s := by unfold cmdCheckpoint; frame_ru
theorem ru_cmdClearCheckpoint (s : EState) : ru (cmdClearCheckpoint s).1 = ru s := by
  unfold cmdClearCheckpoint
  simp only []
  rw [ru_forBundlers_pure]; rfl
theorem ru_cmdRewindable (s : EState) (m : Msg) : ru (cmdRewindable s m).1 = ru s := by
  unfold cmdRewindable
  split
  · rfl
  · simp only []
    split
    · rw [ru_resetCheckpointMeth]; rfl
    · rfl
theorem ru_cmdSet (s : EState) (m : Msg) : ru (cmdSet s m).1 = ru s := by unfold cmdSet; frame_ru
theorem ru_cmdTrigger (s : EState) (m : Msg) : ru (cmdTrigger s m).1 = ru s := by unfold cmdTrigger; frame_ru
theorem ru_cmdWait (s : EState) (m : Msg) : ru (cmdWait s m).1 = ru s := by unfold cmdWait; frame_ru
theorem ru_cmdStage (s : EState) (m : Msg) (op : String) : ru (cmdStage s m op).1 = ru s := by
  unfold cmdStage
  simp only []
  split
  · rfl
  · rw [ru_resetCheckpointMeth]
    split
    · split <;> rfl
    · rfl
theorem ru_cmdMonitor (s : EState) (m : Msg) : ru (cmdMonitor s m).1 = ru s := by unfold cmdMonitor; frame_ru
theorem ru_cmdUnmonitor (s : EState) (m : Msg) : ru (cmdUnmonitor s m).1 = ru s := by unfold cmdUnmonitor; frame_ru
theorem ru_cmdResumeFromSuspender (s : EState) : ru (cmdResumeFromSuspender s).1 = ru s := by
  unfold cmdResumeFromSuspender; frame_ru
theorem ru_cmdWaitFor (s : EState) (m : Msg) : ru (cmdWaitFor s m).1 = ru s := by unfold cmdWaitFor; frame_ru


theorem ru_cmdStartSuspender (s : EState) (m : Msg) : ru (cmdStartSuspender s m).1 = ru s := by
  unfold cmdStartSuspender
  split
  · rfl
  · rename_i rq hrq
    simp only []
    have h := ru_rewindPlan (pauseHooks (stopMovables (forBundlers s fun s b => recordInterruption s b (rq.just.getD "suspended"))))
    rw [ru_pauseHooks, ru_stopMovables, ru_forBundlers_ri] at h
    generalize rewindPlan (pauseHooks (stopMovables (forBundlers s fun s b => recordInterruption s b (rq.just.getD "suspended")))) = p at h
    obtain ⟨rw, s1⟩ := p
    simp only [] at h ⊢
    exact h

theorem ext_runCommand (s : EState) (m : Msg) : Ext s (runCommand s m).1 := by
  unfold runCommand
  split
  · exact ext_cmdOpenRun s m
  · exact ext_of_ru (ru_cmdCloseRun s m)
  · exact ext_of_ru (ru_cmdCreate s m)
  · exact ext_of_ru (ru_cmdRead s m)
  · exact ext_of_ru (ru_cmdSave s m)
  · exact ext_of_ru (ru_cmdDrop s m)
  · exact ext_of_ru (ru_cmdCheckpoint s)
  · exact ext_of_ru (ru_cmdClearCheckpoint s)
  · exact ext_of_ru (ru_cmdRewindable s m)
  · exact ext_of_ru (ru_cmdSet s m)
  · exact ext_of_ru (ru_cmdTrigger s m)
  · exact ext_of_ru (ru_cmdWait s m)
  · exact Ext.refl s
  · exact ext_of_ru (ru_cmdStage s m _)
  · exact ext_of_ru (ru_cmdStage s m _)
  · exact ext_of_ru (ru_cmdMonitor s m)
  · exact ext_of_ru (ru_cmdUnmonitor s m)
  · exact Ext.refl s
  · split
    · rename_i s' h; exact ext_of_ru (ru_requestPause h)
    · exact Ext.refl s
  · exact ext_of_ru (ru_cmdStartSuspender s m)
  · exact ext_of_ru (ru_cmdResumeFromSuspender s)
  · exact ext_of_ru (ru_cmdWaitFor s m)
  · exact Ext.refl s

/-! ### the control blocks never touch documents or the uid list themselves -/

theorem ru_fin (s : EState) (r : Resp) : ru (fin s r) = ru s := by unfold fin; split <;> rfl
theorem ru_leaveLoop (s : EState) (e : Exc) : ru (leaveLoop s e) = ru s := by
  unfold leaveLoop; simp only []; split <;> rfl
theorem ru_noteMsg (s : EState) (m : Msg) : ru (noteMsg s m) = ru s := by unfold noteMsg; frame_be
theorem ru_takeResp (s : EState) (r : Resp) (rs : List Resp) : ru (takeResp s r rs) = ru s := by
  unfold takeResp; simp only []; split <;> rfl
theorem ru_logYield (s : EState) (g : Gen) (i : Inp) : ru (logYield s g i) = ru s := by
  unfold logYield; split <;> rfl

def Flow.Ext (s : EState) : Flow → Prop
  | .loopTop x => Engine.Ext s x
  | .stop x => Engine.Ext s x

theorem ext_flow_trans {a b : EState} {f : Flow} (h1 : Engine.Ext a b) (h2 : f.Ext b) : f.Ext a := by
  cases f with
  | loopTop x => exact h1.trans h2
  | stop x => exact h1.trans h2

theorem ext_afterCommand (m : Msg) (s0 : EState) (p : EState × CmdOut) (h : Ext s0 p.1) : (afterCommand m p).Ext s0 := by
  obtain ⟨s, o⟩ := p
  cases o with
  | value r => exact h.trans (ext_of_ru (ru_fin s r))
  | raised e => exact h.trans (ext_of_ru (ru_fin s _))
  | suspend pc => exact h.trans (ext_same rfl rfl)

theorem ext_processMsg (s : EState) (m : Msg) : (processMsg s m).Ext s := by
  unfold processMsg
  simp only []
  have hn : Ext s (noteMsg s m) := ext_of_ru (ru_noteMsg s m)
  split
  · exact hn.trans (ext_of_ru (ru_fin _ _))
  · exact ext_afterCommand m s _ (hn.trans (ext_runCommand _ m))

theorem ext_popPlan (s : EState) (how : Option Exc) : (popPlan s how).Ext s := by
  have h0 : Ext s { s with planStack := s.planStack.tail, resp := none } := (ext_same rfl rfl)
  unfold popPlan
  simp only []
  split
  · exact h0.trans (ext_of_ru (ru_leaveLoop _ _))
  · split
    · exact h0.trans (ext_same rfl rfl)
    · exact h0

theorem ext_afterResume (s : EState) (gs : List Gen) (t : Option Exc) (r : Out × Gen) : (afterResume s gs t r).Ext s := by
  obtain ⟨o, g'⟩ := r
  have h0 : Ext s { s with planStack := g' :: gs } := (ext_same rfl rfl)
  cases o with
  | yld m => exact ext_flow_trans h0 (ext_processMsg _ m)
  | ret => simp only [afterResume]; split <;> exact ext_flow_trans h0 (ext_popPlan _ _)
  | raise e =>
    simp only [afterResume]
    split
    · exact ext_flow_trans h0 (ext_popPlan _ _)
    · exact h0.trans ((ext_of_ru (ru_fin _ _)).trans (ext_of_ru (ru_leaveLoop _ _)))

theorem ext_afterSleep (s : EState) : (afterSleep s).Ext s := by
  unfold afterSleep
  split
  · simp only []
    exact ext_flow_trans ((ext_of_ru (ru_takeResp s _ _)).trans (ext_of_ru (ru_logYield _ _ _))) (ext_afterResume _ _ _ _)
  · exact ext_of_ru (ru_leaveLoop _ _)

theorem ext_hCancel (s : EState) (r : Resp) : (hCancel s r).Ext s := by
  have e1 : Ext s { s with permit := false } := (ext_same rfl rfl)
  have e2 : ∀ e : Exc, Ext s { s with stashed := some e } := fun _ => (ext_same rfl rfl)
  unfold hCancel
  split
  · exact e1.trans (ext_of_ru (ru_fin _ _))
  · split
    · split
      · exact (e2 _).trans (ext_of_ru (ru_fin _ _))
      · exact ext_of_ru (ru_fin _ _)
    · split
      · exact ext_of_ru (ru_fin _ _)
      · split
        · exact (ext_of_ru (ru_fin _ _)).trans (ext_of_ru (ru_leaveLoop _ _))
        · split
          · exact (e2 _).trans (ext_of_ru (ru_fin _ _))
          · exact ext_of_ru (ru_fin _ _)

theorem ext_setState {s s' : EState} {n : St} (h : setState s n = .ok s') : Ext s s' := by
  unfold setState at h; split at h
  · cases h; exact (ext_same rfl rfl)
  · cases h

theorem ext_pauseBlock (s : EState) : (pauseBlock s).Ext s := by
  unfold pauseBlock
  simp only []
  have h1 : Ext s (pauseHooks (stopMovables (forBundlers s suspendMonitors))) := by
    apply ext_of_ru
    rw [ru_pauseHooks, ru_stopMovables, ru_forBundlers_suspend]
  split
  · exact h1.trans (ext_of_ru (ru_leaveLoop _ _))
  · rename_i s' hs
    exact (h1.trans (ext_setState hs)).trans (ext_same rfl rfl)

theorem ext_loopTop (s : EState) : (loopTop s).Ext s := by
  unfold loopTop
  split
  · split
    · rename_i s' hs
      exact (show Ext s { s with permit := true, stashed := some .failedPause } from (ext_same rfl rfl)).trans (ext_setState hs)
    · exact ext_of_ru (ru_leaveLoop _ _)
  · simp only []
    split
    · exact ext_of_ru (ru_leaveLoop _ _)
    · rename_i s' hs
      have hs' : Ext s s' := by
        split at hs
        · exact ext_setState hs
        · cases hs; exact Ext.refl s
      split
      · exact ext_flow_trans hs' (ext_pauseBlock s')
      · split
        · exact hs'.trans (ext_same rfl rfl)
        · exact ext_flow_trans (hs'.trans (show Ext s' { s' with resp := none } from ext_same rfl rfl)) (ext_afterSleep _)

/-! ### cleanup: the runs the engine closes get `stop` documents, never a `start` -/

theorem ru_foldl_closeGen (l : List Gen) (s : EState) : ru (l.foldl closeGen s) = ru s := by
  apply ru_foldl
  intro s g; unfold closeGen; split <;> rfl

theorem ru_cleanupBody (s : EState) : ru (cleanupBody s) = ru s := by
  unfold cleanupBody
  simp only []
  rw [ru_foldl_closeGen]
  have e1 : ∀ (x : EState) (l : List (String × Bundler)), ru { x with bundlers := l } = ru x := fun _ _ => rfl
  have e2 : ∀ (x : EState) (l : List String), ru { x with staged := l } = ru x := fun _ _ => rfl
  have e3 : ∀ (x : EState), ru { x with pardon := true } = ru x := fun _ => rfl
  rw [e1]
  have step4 : ∀ (x : EState) (r : String), ru (if Src.finallyClosesRuns = true then
      forBundlers x (fun s b => if b.runOpen = true then closeRunDoc s b s.exitStatus.name r else (s, b)) else x) = ru x := by
    intro x r; split
    · apply ru_forBundlers; intro s b; split
      · simp
      · rfl
    · rfl
  rw [step4, e2]
  have step3 : ∀ (x : EState), ru (if Src.finallyUnstages = true then
      x.staged.foldl (fun s n => let (_, s) := nextMode s n "unstage"; s.logCall { dev := n, op := "unstage" }) x else x) = ru x := by
    intro x; split
    · apply ru_foldl; intro s n; rfl
    · rfl
  rw [step3]
  have step2 : ∀ (x : EState), ru (if Src.finallyClearsMonitors = true then forBundlers x clearMonitors else x) = ru x := by
    intro x; split
    · exact ru_forBundlers _ ru_clearMonitors _
    · rfl
  rw [step2]
  have step1 : ∀ (x : EState), ru (if Src.finallyStopsMovables = true then stopMovables x else x) = ru x := by
    intro x; split <;> simp
  rw [step1, e3]

theorem ext_cleanup (s : EState) : Ext s (cleanup s) := by
  unfold cleanup
  simp only []
  split
  · rename_i s' hs; exact (ext_of_ru (ru_cleanupBody s)).trans (ext_setState hs)
  · exact (ext_of_ru (ru_cleanupBody s)).trans (ext_same rfl rfl)

theorem ext_finishTask (s : EState) : Ext s (finishTask s) := by
  unfold finishTask; exact ext_same rfl rfl

theorem ext_stopped (s : EState) : Ext s (if s.pc == .finished then finishTask (cleanup s) else s) := by
  split
  · exact (ext_cleanup s).trans (ext_finishTask _)
  · exact Ext.refl s

theorem ext_runLoop (n : Nat) (s : EState) : Ext s (runLoop n s) := by
  induction n generalizing s with
  | zero => exact ext_same rfl rfl
  | succ n ih =>
    unfold runLoop
    have := ext_loopTop s
    split
    · rename_i s' heq
      rw [heq] at this
      exact Ext.trans this (ext_stopped s')
    · rename_i s' heq
      rw [heq] at this
      exact Ext.trans this (ih s')

theorem ext_contFlow (n : Nat) (s : EState) (f : Flow) (h : f.Ext s) : Ext s (contFlow n f) := by
  cases f with
  | loopTop x => exact Ext.trans h (ext_runLoop n x)
  | stop x => exact Ext.trans h (ext_stopped x)

theorem ext_advanceAt (n : Nat) (c : Bool) (s : EState) : Ext s (advanceAt n c s) := by
  unfold advanceAt
  split
  · exact Ext.refl s
  · exact Ext.refl s
  · split
    · exact Ext.refl s
    · split
      · rename_i s' hs
        exact ((show Ext s { s with stashed := none, reason := "", exitReason := "", exitExc := none, planDone := false }
          from ext_same rfl rfl).trans (ext_setState hs)).trans (ext_runLoop _ _)
      · exact ext_contFlow _ s _ (ext_of_ru (ru_leaveLoop _ _))
  · split
    · exact ext_contFlow _ s _ (ext_hCancel _ _)
    · exact ext_contFlow _ s _ (ext_afterSleep _)
  · split
    · exact ext_contFlow _ s _ (ext_hCancel _ _)
    · exact (ext_of_ru (ru_fin _ _)).trans (ext_runLoop _ _)
  · split
    · exact ext_contFlow _ s _ (ext_hCancel _ _)
    · split
      · rename_i s' hs
        exact ((ext_of_ru (ru_requestPause hs)).trans (ext_of_ru (ru_fin _ _))).trans (ext_runLoop _ _)
      · exact (ext_of_ru (ru_fin _ _)).trans (ext_runLoop _ _)
  · split
    · exact ext_contFlow _ s _ (ext_hCancel _ _)
    · simp only []
      split
      · exact (ext_of_ru (ru_fin _ _)).trans (ext_runLoop _ _)
      · split
        · exact ((show Ext s { s with groups := assocSet _ s.waiting s.groups } from ext_same rfl rfl).trans
            (ext_of_ru (ru_fin _ _))).trans (ext_runLoop _ _)
        · exact Ext.refl s
  · split
    · exact ext_contFlow _ s _ (ext_hCancel _ _)
    · split
      · exact (ext_of_ru (ru_fin _ _)).trans (ext_runLoop _ _)
      · exact Ext.refl s
  · split
    · exact Ext.refl s
    · split
      · exact ext_contFlow _ s _ (ext_of_ru (ru_leaveLoop _ _))
      · simp only []
        have hr : Ext s (forBundlers s restoreMonitors) := ext_of_ru (ru_forBundlers_restore s)
        split
        · exact hr.trans (ext_contFlow _ _ _ (ext_of_ru (ru_leaveLoop _ _)))
        · rename_i s' hs
          have hs' : Ext s s' := by
            split at hs
            · exact hr.trans (ext_setState hs)
            · cases hs; exact hr
          split
          · exact hs'.trans (ext_same rfl rfl)
          · exact hs'.trans ((show Ext s' { s' with resp := none } from ext_same rfl rfl).trans (ext_contFlow _ _ _ (ext_afterSleep _)))
  · exact ((show Ext s (if c then { s with stashed := some .cancelled, exitExc := some .cancelled } else s) from by
      split
      · exact ext_same rfl rfl
      · exact Ext.refl s).trans (ext_cleanup _)).trans (ext_finishTask _)

theorem ext_advance (n : Nat) (s : EState) : Ext s (advance n s) := by
  unfold advance
  exact (show Ext s { s with cancelPending := false } from ext_same rfl rfl).trans (ext_advanceAt n _ _)

/-! ### the API layer -/

theorem ext_refuse (s : EState) (w : String) : Ext s (refuse s w) := ext_same rfl rfl

theorem ext_requestTerminate (s : EState) (k r : String) : Ext s (requestTerminate s k r) := by
  have hp : ru (termPrep s k r) = ru s := by unfold termPrep; frame_ru
  have ha : ∀ (x : EState) (w : Bool), ru (termAfter x k w) = ru x := by
    intro x w; unfold termAfter; frame_ru
  unfold requestTerminate
  split
  · exact ext_refuse s k
  · split
    · exact ext_refuse _ _
    · rename_i s' hs
      exact (ext_of_ru hp).trans ((ext_setState hs).trans (ext_of_ru (ha _ _)))

theorem ext_pushSuspender (f : Nat) (pre post : Option Gen) (j : Option String) (s : EState) :
    Ext s (pushSuspender f pre post j s) := by
  unfold pushSuspender
  simp only []
  split
  · split
    · rename_i s' hs
      refine Ext.trans ?_ ((ext_setState hs).trans (ext_same rfl rfl))
      exact ext_same rfl rfl
    · refine Ext.trans ?_ (ext_refuse _ _)
      exact ext_same rfl rfl
  · exact ext_same rfl rfl

theorem ext_requestSuspend (s : EState) (f : Nat) (pre post : Option Gen) (j : Option String) :
    Ext s (requestSuspend s f pre post j) := by
  unfold requestSuspend
  split
  · simp only []
    split
    · exact (show Ext s { s with interrupted := true, exceptionSlot := some .failedPause } from ext_same rfl rfl).trans
        (ext_refuse _ _)
    · rename_i s' hs
      have h0 : Ext s s' :=
        (show Ext s { s with interrupted := true, exceptionSlot := some .failedPause } from ext_same rfl rfl).trans
          (ext_setState hs)
      refine h0.trans (Ext.trans ?_ (ext_pushSuspender f pre post j _))
      split
      · exact ext_same rfl rfl
      · exact Ext.refl _
  · exact ext_pushSuspender f pre post j s

theorem ru_completeStatus (s : EState) (k : Nat) : ru (completeStatus s k) = ru s := by
  unfold completeStatus; frame_ru

theorem ru_flushCompletions (s : EState) : ru (flushCompletions s) = ru s := by
  unfold flushCompletions
  rw [ru_foldl _ ru_completeStatus]; rfl

theorem ru_monitorUpdate (s : EState) (sig : String) (v : Int) : ru (monitorUpdate s sig v) = ru s := by
  unfold monitorUpdate
  simp only []
  rw [ru_foldl]
  · rfl
  · intro s a
    have e1 : ∀ (x : EState) (l : List (String × Bundler)), ru { x with bundlers := l } = ru x := fun _ _ => rfl
    split
    · rfl
    · rename_i k b hb
      rw [e1]
      exact ru_emitEvent _ _ _ _ _

theorem ext_applyAction (s : EState) (a : Action) : Ext s (applyAction s a) := by
  cases a with
  | pause d =>
    simp only [applyAction]; split
    · rename_i s' h; exact ext_of_ru (ru_requestPause h)
    · exact ext_refuse _ _
  | suspend f pre post j => exact ext_requestSuspend s f pre post j
  | release f => simp only [applyAction]; split <;> exact ext_same rfl rfl
  | abort => exact ext_requestTerminate s _ _
  | stop => exact ext_requestTerminate s _ _
  | halt => exact ext_requestTerminate s _ _
  | status k ok =>
    simp only [applyAction]; split
    · split
      · exact Ext.refl s
      · exact ext_of_ru ((ru_completeStatus _ _).trans rfl)
    · exact Ext.refl s
  | monitor sig v => exact ext_of_ru (ru_monitorUpdate s sig v)

theorem ext_releaseAll (s : EState) : Ext s (releaseAll s).1 := by
  unfold releaseAll
  simp only []
  exact (ext_foldl _ (fun s k => ext_applyAction s _) _ _).trans (ext_foldl _ (fun s f => ext_applyAction s _) _ _)

/-- THE GLOBAL STATEMENT: whatever the scheduler does, `_run_start_uids` and the RunStart documents grow together -/
theorem ext_schedule (maxArr : Nat) (sc : Script) (fuel : Nat) (s : EState) : Ext s (schedule maxArr sc fuel s) := by
  induction fuel generalizing s with
  | zero => exact ext_refuse s _
  | succ n ih =>
    have harr : ∀ (x : EState) (k : String), Ext x { x with arrivals := x.arrivals ++ [k] } :=
      fun _ _ => ext_same rfl rfl
    have hstep : ∀ (x : EState) (l : List Action),
        Ext x (if x.arrivals.length ≥ maxArr then
            applyAction (flushCompletions { x with arrivals := x.arrivals ++ [arrivalKind x.pc] }) .halt
          else l.foldl applyAction
            (flushCompletions { x with arrivals := x.arrivals ++ [arrivalKind x.pc] })) := by
      intro x l
      have h1 : Ext x (flushCompletions { x with arrivals := x.arrivals ++ [arrivalKind x.pc] }) :=
        (harr x _).trans (ext_of_ru (ru_flushCompletions _))
      split
      · exact h1.trans (ext_applyAction _ _)
      · exact h1.trans (ext_foldl _ ext_applyAction _ _)
    unfold schedule
    split
    · exact Ext.refl s
    · split
      · exact Ext.refl s
      · exact Ext.refl s
      · split
        · exact (ext_advance _ _).trans (ih _)
        · exact Ext.refl s
      · exact (ext_advance _ _).trans (ih _)
      · exact ((hstep s _).trans (ext_advance _ _)).trans (ih _)
      · exact ((hstep s _).trans (ext_advance _ _)).trans (ih _)
      · exact ((hstep s _).trans (ext_advance _ _)).trans (ih _)
      · exact ((hstep s _).trans (ext_advance _ _)).trans (ih _)
      all_goals
        simp only []
        have hf : Ext s (flushCompletions s) := ext_of_ru (ru_flushCompletions s)
        have hadv : Ext s (advance 4000 (flushCompletions s)) := hf.trans (ext_advance 4000 _)
        split
        · have hq := hadv.trans (harr (advance 4000 (flushCompletions s)) "quiesce")
          split
          · exact (hq.trans (ext_applyAction _ _)).trans (ih _)
          · split
            · refine Ext.trans ?_ (ih _)
              split
              · exact hq.trans (ext_releaseAll _)
              · exact (hq.trans (ext_releaseAll _)).trans (ext_applyAction _ _)
            · exact (hq.trans (ext_foldl _ ext_applyAction _ _)).trans (ih _)
        · exact hadv.trans (ih _)

theorem ext_startResume (s : EState) : Ext s (startResume s) := by
  unfold startResume
  simp only []
  have h0 := ru_rewindPlan (forBundlers { s with interrupted := false } fun s b => recordInterruption s b "resume")
  rw [ru_forBundlers_ri] at h0
  generalize rewindPlan (forBundlers { s with interrupted := false } fun s b => recordInterruption s b "resume") = p at h0
  obtain ⟨rw, s1⟩ := p
  simp only [] at h0 ⊢
  have g1 : Ext s s1 := ext_of_ru (h0.trans rfl)
  refine g1.trans (Ext.trans ?_ ((ext_of_ru (ru_resumeHooks _)).trans (ext_same rfl rfl)))
  exact ext_same rfl rfl

theorem ext_startTerminate (s : EState) (kind : String) : Ext s (startTerminate s kind) := by
  unfold startTerminate
  exact (ext_requestTerminate s kind "").trans (ext_same rfl rfl)

/-- the invariant behind "RE(...) returns the uids of the runs it opened": the runs of the RunStart documents
    emitted since the call began are exactly `_run_start_uids` -/
def UidsInv (pre : List Nat) (s : EState) : Prop := startsOf s.docs = pre ++ s.runStartUids

theorem Ext.uidsInv {pre : List Nat} {s s' : EState} (h : Ext s s') (hi : UidsInv pre s) : UidsInv pre s' := by
  obtain ⟨l, a, b⟩ := h
  unfold UidsInv at *
  rw [b, a, hi, List.append_assoc]

end BlueskyVerif.Engine
