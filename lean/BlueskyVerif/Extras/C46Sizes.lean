/-
C46 -- extra fact, NOT a proof obligation of the property (it depends on the exact comparison operator of the
flush test, which the property does not prescribe): with the current `len(data_cache) >= batch_size` every
partition except possibly the last has exactly `max batch 1` rows.
-/
import BlueskyVerif.Lemmas.C46

namespace BlueskyVerif.TiledWriter


/-- every partition written so far is full, and the cache is not yet full -/
def SizeInv {α} (w : W α) (s : String) : Prop :=
  (∀ p ∈ w.parts s, (p.length : Int) = max w.batch 1) ∧ ((w.rows s).length : Int) < max w.batch 1

theorem event_size {α} (w : W α) (s : String) (row : α) (s' : String) (h : SizeInv w s') : SizeInv (event w s row) s' := by
  obtain ⟨h1, h2⟩ := h
  unfold SizeInv
  rw [event_batch]
  unfold event
  by_cases hs : s' = s
  · subst hs
    by_cases hc : flushCond ((w.rows s' ++ [row]).length : Int) w.batch = true
    · simp only [hc, ↓reduceIte, eventClears, upd_self]
      simp only [flushCond, decide_eq_true_eq, List.length_append, List.length_cons, List.length_nil] at hc
      refine ⟨?_, ?_⟩
      · intro p hp
        simp only [List.mem_append, List.mem_singleton] at hp
        rcases hp with hp | hp
        · exact h1 p hp
        · subst hp
          simp only [List.length_append, List.length_cons, List.length_nil]
          omega
      · simp; omega
    · simp only [hc, Bool.false_eq_true, ↓reduceIte, upd_self]
      simp only [flushCond, decide_eq_true_eq, List.length_append, List.length_cons, List.length_nil] at hc
      refine ⟨h1, ?_⟩
      simp only [List.length_append, List.length_cons, List.length_nil]
      omega
  · split <;> simp only [upd_ne _ _ _ _ hs] <;> exact ⟨h1, h2⟩

theorem apply_size {α} (w : W α) (op : Op α) (s' : String) (h : SizeInv w s') : SizeInv (apply w op) s' := by
  cases op with
  | event s row => exact event_size w s row s' h
  | sdat d =>
    unfold SizeInv at h ⊢
    simp only [apply]
    rw [streamDatum_batch, (streamDatum_rows w d).1, (streamDatum_rows w d).2]
    exact h

theorem foldl_size {α} (s' : String) : ∀ (ops : List (Op α)) (w : W α), SizeInv w s' → SizeInv (ops.foldl apply w) s' := by
  intro ops
  induction ops with
  | nil => intro w h; exact h
  | cons op r ih => intro w h; exact ih _ (apply_size w op s' h)


/-- all partitions are full (`max batch 1` rows) except possibly the last one, written at `stop`, which is
    non-empty and shorter -/
theorem partition_sizes {α : Type} (batch : Int) (ops : List (Op α)) (s : String) :
    ∃ full last, (runOps batch ops).parts s = full ++ last ∧ (∀ p ∈ full, (p.length : Int) = max batch 1) ∧
      (last = [] ∨ ∃ l, last = [l] ∧ l ≠ [] ∧ (l.length : Int) < max batch 1) := by
  have hinv : SizeInv (ops.foldl apply ({ batch := batch } : W α)) s :=
    foldl_size s ops _ ⟨by intro p hp; simp at hp, by simp; omega⟩
  have hb : (ops.foldl apply ({ batch := batch } : W α)).batch = batch := foldl_batch ops _
  obtain ⟨h1, h2⟩ := hinv
  rw [hb] at h1 h2
  unfold runOps
  generalize ops.foldl apply ({ batch := batch } : W α) = w at h1 h2
  refine ⟨w.parts s, if (w.rows s).isEmpty then [] else [w.rows s], ?_, h1, ?_⟩
  · simp only [stop, stopFlushesRows, Bool.true_and]
    cases w.rows s <;> simp
  · cases hr : w.rows s with
    | nil => left; simp
    | cons x xs => right; exact ⟨x :: xs, by simp, by simp, by rw [hr] at h2; exact h2⟩

end BlueskyVerif.TiledWriter
