/-
Line protocol shared by all drivers (`lake env lean --run Drivers/Cxx.lean`):
one JSON request per stdin line, one JSON reply per stdout line.
-/
import Lean.Data.Json

namespace BlueskyVerif.Driver
open Lean

partial def loop (h : IO.FS.Stream) (out : IO.FS.Stream) (f : Json → Json) : IO Unit := do
  let line ← h.getLine
  if line.isEmpty then
    return ()
  let reply :=
    match Json.parse line with
    | .ok j => f j
    | .error e => Json.mkObj [("error", Json.str s!"bad-json: {e}")]
  out.putStrLn reply.compress
  loop h out f

def serve (f : Json → Json) : IO Unit := do
  let i ← IO.getStdin
  let o ← IO.getStdout
  loop i o f
  o.flush

def getInt? (j : Json) (k : String) : Option Int :=
  match j.getObjVal? k with
  | .ok v => match v.getInt? with
    | .ok i => some i
    | .error _ => none
  | .error _ => none

def getInt (j : Json) (k : String) (d : Int := 0) : Int := (getInt? j k).getD d

def getNat (j : Json) (k : String) (d : Nat := 0) : Nat :=
  match getInt? j k with
  | some i => i.toNat
  | none => d

def getBool (j : Json) (k : String) (d : Bool := false) : Bool :=
  match j.getObjVal? k with
  | .ok (Json.bool b) => b
  | _ => d

def getStr (j : Json) (k : String) (d : String := "") : String :=
  match j.getObjVal? k with
  | .ok (Json.str s) => s
  | _ => d

def getArr (j : Json) (k : String) : List Json :=
  match j.getObjVal? k with
  | .ok (Json.arr a) => a.toList
  | _ => []

def getObj (j : Json) (k : String) : Json :=
  match j.getObjVal? k with
  | .ok v => v
  | .error _ => Json.null

def asInt (j : Json) (d : Int := 0) : Int :=
  match j.getInt? with
  | .ok i => i
  | .error _ => d

def asNat (j : Json) (d : Nat := 0) : Nat :=
  match j.getInt? with
  | .ok i => i.toNat
  | .error _ => d

def asStr (j : Json) (d : String := "") : String :=
  match j with
  | Json.str s => s
  | _ => d

def asArr (j : Json) : List Json :=
  match j with
  | Json.arr a => a.toList
  | _ => []

def getIntList (j : Json) (k : String) : List Int := (getArr j k).map asInt
def getNatList (j : Json) (k : String) : List Nat := (getArr j k).map asNat

def jInt (i : Int) : Json := Json.num (JsonNumber.fromInt i)
def jNat (n : Nat) : Json := Json.num (JsonNumber.fromNat n)
def jList {α} (f : α → Json) (l : List α) : Json := Json.arr (l.map f).toArray
def jOptInt : Option Int → Json
  | none => Json.null
  | some i => jInt i

end BlueskyVerif.Driver
