/-
The abstract specification side of C18/C19, written without reference to private tokens, the
func->cid map or the temporary-token set: the live subscriptions
`token ↦ (callable, name, scope)` and, per document kind, the callables that are live for that kind
in the order in which they became live.  The theorems of Props/C18.lean and Props/C19.lean say that
the transcription of the code (Registry/Dispatcher/PerCall) refines this machine for every history.
-/
import BlueskyVerif.Disp.PerCall

namespace BlueskyVerif.Disp

/-- `DocumentNames[name]` succeeds -/
def Name.valid : Name → Bool
  | .all => true
  | .one k => allKinds.contains k

/-- the document kinds a subscription name stands for -/
def Name.kinds : Name → List Sig
  | .all => allKinds
  | .one k => [k]

def Name.covers (n : Name) (k : Sig) : Bool := n.kinds.contains k

/-- one live subscription -/
structure Sub where
  tok : Token
  f : Callable
  name : Name
  /-- scope: `true` = made for one call (`RE(plan, subs)` or an in-plan `subscribe` message),
      `false` = permanent (`RE.subscribe`) -/
  temp : Bool
deriving Repr, DecidableEq

/-- does callable `f` have at least one live subscription covering kind `k`? -/
def liveFor (live : List Sub) (f : Callable) (k : Sig) : Bool :=
  live.any (fun s => s.f == f && s.name.covers k)

structure Spec where
  live : List Sub := []
  /-- the next token -/
  next : Token := 0
  /-- per kind: the callables live for it, in the order in which they became live -/
  order : Sig → List Callable := fun _ => []

namespace Spec

/-- a new subscription: a fresh token; the callable goes to the end of the order of every kind it
    was not already live for -/
def add (s : Spec) (f : Callable) (name : Name) (temp : Bool) : Spec :=
  { live := s.live ++ [{ tok := s.next, f := f, name := name, temp := temp }]
    next := s.next + 1
    order := fun k => if name.covers k && !(s.order k).contains f then s.order k ++ [f] else s.order k }

/-- keep exactly the subscriptions satisfying `keep`; a callable leaves the order of a kind when its
    last live subscription covering the kind is gone (the others keep their relative order) -/
def restrict (s : Spec) (keep : Sub → Bool) : Spec :=
  { s with
    live := s.live.filter keep
    order := fun k => (s.order k).filter (fun f => liveFor (s.live.filter keep) f k) }

/-- unsubscribe one token: only that token goes -/
def remove (s : Spec) (tok : Token) : Spec := s.restrict (fun x => x.tok != tok)

/-- the start of a new call: every temporary subscription goes, every permanent one stays -/
def dropTemp (s : Spec) : Spec := s.restrict (fun x => !x.temp)

def addPerCall (s : Spec) : List (Name × Callable) → Spec
  | [] => s
  | (name, f) :: rest => if name.valid then addPerCall (s.add f name true) rest else s

def step (s : Spec) : Op → Spec
  | .subscribe f name => if name.valid then s.add f name false else s
  | .unsubscribe tok => s.remove tok
  | .callStart subs => s.dropTemp.addPerCall subs
  | .planSubscribe f name => if name.valid then s.add f name true else s
  | .planUnsubscribe tok => s.remove tok
  | .emit _ _ => s

/-- the invocation log after one operation: an emitted document of kind `k` is delivered to
    `order k` under the exception policy; nothing else invokes a callable -/
def stepLog (beh : Beh) (ignore : Bool) (s : Spec) (log : Log) : Op → Log
  | .emit k doc => (runCbs beh ignore k doc (s.order k) log []).1
  | _ => log

/-- run a history on the specification: final state and invocation log -/
def run (beh : Beh) (ignore : Bool) : Spec → Log → List Op → Spec × Log
  | s, log, [] => (s, log)
  | s, log, op :: ops => run beh ignore (s.step op) (stepLog beh ignore s log op) ops

end Spec
end BlueskyVerif.Disp
