/-
JSON front-end shared by the C18 and C19 drivers: runs a history of operations on the model
(`Engine.step`) and reports every reply, the callables invoked per emitted document and a snapshot
of the internal dictionaries after every operation.
-/
import BlueskyVerif.Util.DriverLib
import BlueskyVerif.Disp.PerCall

namespace BlueskyVerif.Disp.DriverCore
open Lean BlueskyVerif.Driver BlueskyVerif.Disp

def nameOf (s : String) : Name :=
  if s == "all" then .all
  else match Generated.documentNames.idxOf? s with
    | some i => .one i
    | none => .one Generated.documentNames.length

def sigName (k : Sig) : String := Generated.documentNames.getD k "?"

def opOf (j : Json) : Option Op :=
  match getStr j "op" with
  | "sub" => some (.subscribe (getNat j "f") (nameOf (getStr j "name")))
  | "unsub" => some (.unsubscribe (getNat j "tok"))
  | "call" => some (.callStart ((getArr j "subs").map fun p =>
      match asArr p with
      | [n, f] => (nameOf (asStr n), asNat f)
      | _ => (.all, 0)))
  | "psub" => some (.planSubscribe (getNat j "f") (nameOf (getStr j "name")))
  | "punsub" => some (.planUnsubscribe (getNat j "tok"))
  | "emit" => match nameOf (getStr j "k") with
    | .one k => some (.emit k (getNat j "doc"))
    | .all => none
  | _ => none

/-- callable `f` raises at its n-th invocation (n = number of earlier invocations of `f`) for the listed (f, n) -/
def behOf (raiseAt : List (Nat × Nat)) : Beh := fun log f _ _ =>
  raiseAt.contains (f, (log.filter (fun c => c.1 == f)).length)

def jPair (a b : Json) : Json := Json.arr #[a, b]

def snapshot (e : Engine) : Json :=
  let r := e.disp.reg
  Json.mkObj [
    ("tokens", jList (fun p => jPair (jNat p.1) (jList jNat p.2)) e.disp.tokenMap),
    ("counter", jNat e.disp.counter),
    ("cid", jNat r.cid),
    ("callbacks", Json.mkObj ((r.callbacks.filter (fun p => !p.2.isEmpty)).map fun p =>
        (sigName p.1, jList (fun q => jPair (jNat q.1) (jNat q.2)) p.2))),
    ("funcCid", Json.mkObj ((r.funcCid.filter (fun p => !p.2.isEmpty)).map fun p =>
        (sigName p.1, jList (fun q => jPair (jNat q.1) (jNat q.2)) (p.2.mergeSort (fun a b => a.2 ≤ b.2))))),
    ("temp", jList jNat (e.temp.mergeSort (· ≤ ·)))]

def replyJson (newCalls : Log) : Reply → Json
  | .token (some t) => jNat t
  | .token none => Json.str "KeyError"
  | .done => Json.null
  | .keyError => Json.str "KeyError"
  | .outcome (.returned c) => Json.mkObj [("called", jList (fun c => jNat c.1) newCalls), ("collected", jList jNat c)]
  | .outcome (.raised f) => Json.mkObj [("called", jList (fun c => jNat c.1) newCalls), ("raised", jNat f)]

def handle (j : Json) : Json :=
  let raiseAt := (getArr j "raise_at").map fun p =>
    match asArr p with
    | [f, n] => (asNat f, asNat n)
    | _ => (0, 0)
  let beh := behOf raiseAt
  let snap := getBool j "snap"
  let e0 : Engine := { disp := { reg := { ignoreExceptions := getBool j "ignore" } } }
  let rec go (e : Engine) (log : Log) (ops : List Json) (acc : Array Json) (snaps : Array Json) : Array Json × Array Json :=
    match ops with
    | [] => (acc, snaps)
    | oj :: rest =>
      if getStr oj "op" == "unsuball" then
        -- Dispatcher.unsubscribe_all(): the GENERATED fact says it is the loop over the public tokens
        let e' := (Engine.run beh e log (Engine.unsubscribeAllOps e)).1
        go e' log rest (acc.push Json.null) (if snap then snaps.push (snapshot e') else snaps)
      else
      match opOf oj with
      | none => (acc.push (Json.str "bad-op"), snaps)
      | some op =>
        let (e', log', r) := Engine.step beh e log op
        go e' log' rest (acc.push (replyJson (log'.drop log.length) r)) (if snap then snaps.push (snapshot e') else snaps)
  let (acc, snaps) := go e0 [] (getArr j "ops") #[] #[]
  Json.mkObj [("replies", Json.arr acc), ("snaps", Json.arr snaps)]

end BlueskyVerif.Disp.DriverCore
