/-
The RunEngine's bookkeeping of per-call subscriptions (src/bluesky/run_engine.py):
`RE.subscribe/unsubscribe` (pass-through to the dispatcher), `RE(plan, subs)` (`__call__`:
`_clear_call_cache()` unsubscribes every token in `_temp_callback_ids` and clears the set, then the
normalised `subs` are subscribed and their tokens added to the set), the in-plan messages
`subscribe` / `unsubscribe` (`_subscribe` adds the token to the set, `_unsubscribe` removes it), and
the emission of a document (`emit_sync` -> `dispatcher.process`).
Which of these touch `_temp_callback_ids` is read from the source on every run (Generated.lean).
-/
import BlueskyVerif.Disp.Dispatcher

namespace BlueskyVerif.Disp

structure Engine where
  disp : Dispatcher := {}
  /-- `self._temp_callback_ids` (a set of public tokens; the order is immaterial) -/
  temp : List Token := []
deriving Repr

inductive Op where
  | subscribe (f : Callable) (name : Name)          -- RE.subscribe(f, name)
  | unsubscribe (tok : Token)                       -- RE.unsubscribe(tok)
  | callStart (subs : List (Name × Callable))       -- RE(plan, subs) up to the start of the plan
  | planSubscribe (f : Callable) (name : Name)      -- Msg('subscribe', None, f, name)
  | planUnsubscribe (tok : Token)                   -- Msg('unsubscribe', None, tok)
  | emit (k : Sig) (doc : Doc)                      -- RE.emit_sync(DocumentNames[k], doc)
deriving Repr

inductive Reply where
  | token (t : Option Token)     -- `none` = KeyError (unknown document name)
  | done
  | keyError                     -- `_temp_callback_ids.remove(token)` of a token that is not temporary
  | outcome (o : Outcome)
deriving Repr, DecidableEq

namespace Engine

/-- `set.add` -/
def tempAdd (l : List Token) (t : Token) : List Token := if t ∈ l then l else l ++ [t]

/-- the tail of `_clear_call_cache`:
    `for cid in self._temp_callback_ids: self.unsubscribe(cid)`; `self._temp_callback_ids.clear()` -/
def clearCallCache (e : Engine) : Engine :=
  { disp := if Generated.clearUnsubscribes then e.temp.foldl (fun d t => d.unsubscribe t) e.disp else e.disp
    temp := if Generated.clearClears then [] else e.temp }

/-- `for name, funcs in normalize_subs_input(subs).items(): for func in funcs:
       self._temp_callback_ids.add(self.subscribe(func, name))`
    (a KeyError from `subscribe` would leave `__call__`; `normalize_subs_input` only lets valid names through) -/
def subscribePerCall (e : Engine) : List (Name × Callable) → Engine
  | [] => e
  | (name, f) :: rest =>
    match e.disp.subscribe f name with
    | (d, some t) => subscribePerCall { disp := d, temp := if Generated.perCallSubsTemp then tempAdd e.temp t else e.temp } rest
    | (_, none) => e

def step (beh : Beh) (e : Engine) (log : Log) : Op → Engine × Log × Reply
  | .subscribe f name =>
    let (d, t) := e.disp.subscribe f name
    ({ e with disp := d }, log, .token t)
  | .unsubscribe tok => ({ e with disp := e.disp.unsubscribe tok }, log, .done)
  | .callStart subs => (subscribePerCall (clearCallCache e) subs, log, .done)
  | .planSubscribe f name =>
    -- token = self.subscribe(*args); self._temp_callback_ids.add(token)
    match e.disp.subscribe f name with
    | (d, some t) => ({ disp := d, temp := if Generated.inPlanSubscribeTemp then tempAdd e.temp t else e.temp }, log, .token (some t))
    | (d, none) => ({ e with disp := d }, log, .token none)
  | .planUnsubscribe tok =>
    -- self.unsubscribe(token); self._temp_callback_ids.remove(token)
    let d := e.disp.unsubscribe tok
    if tok ∈ e.temp then ({ disp := d, temp := if Generated.inPlanUnsubscribeForgets then e.temp.filter (· != tok) else e.temp }, log, .done)
    else ({ e with disp := d }, log, if Generated.inPlanUnsubscribeForgets then .keyError else .done)
  | .emit k doc =>
    let (log', o) := e.disp.process beh log k doc
    (e, log', .outcome o)

/-- run a history; returns the final state, the global invocation log and the reply to every operation -/
def run (beh : Beh) : Engine → Log → List Op → Engine × Log × List Reply
  | e, log, [] => (e, log, [])
  | e, log, op :: ops =>
    let (e1, log1, r) := step beh e log op
    let (e2, log2, rs) := run beh e1 log1 ops
    (e2, log2, r :: rs)

/-- `RE.dispatcher.unsubscribe_all()` as a history: one `unsubscribe` per public token currently mapped (GENERATED
    fact `unsubAllIsLoop`: the method is exactly that loop; were it anything else this is the empty history and
    `C18_unsubscribe_all` is no longer provable) -/
def unsubscribeAllOps (e : Engine) : List Op :=
  if Generated.unsubAllIsLoop then e.disp.tokenMap.map (fun p => Op.unsubscribe p.1) else []

end Engine
end BlueskyVerif.Disp
