/-
Model of `bluesky.run_engine.Dispatcher` (src/bluesky/run_engine.py), on top of the registry model.
The structure of `unsubscribe` (is the disconnect guarded by `private_token not in still_in_use`,
and is `still_in_use` computed after the token was popped) is read from the source on every run
(Disp/Generated.lean).  NOT modelled: the swapped-argument convenience `subscribe('start', f)`,
the text of the warnings `process` prints for ignored exceptions.
-/
import BlueskyVerif.Disp.Registry

namespace BlueskyVerif.Disp

/-- the `name` argument of `subscribe` -/
inductive Name where
  | all
  | one (k : Sig)     -- `DocumentNames[name]`; a `k` that is not a member models an unknown name (KeyError)
deriving Repr, DecidableEq

/-- `for key in DocumentNames` -/
def allKinds : List Sig := List.range Generated.documentNames.length

structure Dispatcher where
  reg : Registry := {}
  /-- next value of `self._counter = count()` -/
  counter : Nat := 0
  /-- `self._token_mapping : public token ↦ [private tokens]` -/
  tokenMap : List (Token × List Cid) := []
deriving Repr

namespace Dispatcher

/-- `for key in ...: private_tokens.append(self.cb_registry.connect(key, func))` -/
def connectMany (r : Registry) (f : Callable) : List Sig → Registry × List Cid
  | [] => (r, [])
  | k :: ks =>
    let r1 := r.connect k f
    let r2 := connectMany r1.1 f ks
    (r2.1, r1.2 :: r2.2)

/-- `Dispatcher.subscribe(func, name)` -> (dispatcher, token), `none` = KeyError from `DocumentNames[name]`
    (nothing has been changed at that point). -/
def subscribe (d : Dispatcher) (f : Callable) (name : Name) : Dispatcher × Option Token :=
  match name with
  | .all =>
    let res := connectMany d.reg f allKinds      -- (registry, private_tokens)
    ({ reg := res.1, counter := d.counter + 1, tokenMap := OD.set d.tokenMap d.counter res.2 }, some d.counter)
  | .one k =>
    if k ∈ allKinds then
      let res := d.reg.connect k f               -- (registry, private_token)
      ({ reg := res.1, counter := d.counter + 1, tokenMap := OD.set d.tokenMap d.counter [res.2] }, some d.counter)
    else (d, none)

/-- `Dispatcher.unsubscribe(token)` -/
def unsubscribe (d : Dispatcher) (tok : Token) : Dispatcher :=
  -- private_tokens = self._token_mapping.pop(token, [])
  let privs := (OD.find? d.tokenMap tok).getD []
  let tm := OD.del d.tokenMap tok
  -- still_in_use = {t for tokens in self._token_mapping.values() for t in tokens}
  let scanned := if Generated.unsubScanAfterPop then tm else d.tokenMap
  let stillInUse := scanned.flatMap (fun p => p.2)
  -- for private_token in private_tokens: if private_token not in still_in_use: disconnect
  let reg := privs.foldl
    (fun r c => if Generated.unsubGuarded && stillInUse.contains c then r else r.disconnect c) d.reg
  { d with reg := reg, tokenMap := tm }

/-- `Dispatcher.process(name, doc)`: the collected exceptions are only warned about. -/
def process (d : Dispatcher) (beh : Beh) (log : Log) (k : Sig) (doc : Doc) : Log × Outcome :=
  d.reg.process beh log k doc

end Dispatcher
end BlueskyVerif.Disp
