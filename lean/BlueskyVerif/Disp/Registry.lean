/-
Model of `bluesky.utils.CallbackRegistry` (src/bluesky/utils/__init__.py), transcribed statement by
statement.  Python dictionaries are insertion-ordered association lists with natural-number keys
(`OD.*`).  Callables are abstract identities (`Nat`) with decidable equality: two Python callables
get the same identity iff their `_BoundMethodProxy` objects compare equal (same function, and for
bound methods the same instance).  NOT modelled: the weak-reference aspect (`_remove_proxy`, the
`ReferenceError` branch of `process`) -- callables stay alive; re-entrant calls from inside a
callback; pickling.

Facts read from the source on every run (Disp/Generated.lean): whether `connect` returns the existing
cid for an equal callable, whether `process` walks `list(self.callbacks[sig].items())` forwards, and
how `process` treats an exception under `ignore_exceptions`.
-/
import BlueskyVerif.Disp.Generated

namespace BlueskyVerif.Disp

abbrev Sig := Nat        -- index into `Generated.documentNames` (the members of DocumentNames)
abbrev Cid := Nat        -- private token of the registry
abbrev Callable := Nat   -- identity of a callable (equality class of its proxy)
abbrev Token := Nat      -- public token of the Dispatcher
abbrev Doc := Nat        -- identity of an emitted document

/-! ### insertion-ordered dictionaries with `Nat` keys -/
namespace OD

/-- `d[k]` for a dict of lists with "missing = empty" (`d.get(k, [])`). -/
def getD {β : Type} : List (Nat × List β) → Nat → List β
  | [], _ => []
  | (k', v) :: r, k => if k' = k then v else getD r k

/-- `d.get(k)` -/
def find? {β : Type} : List (Nat × β) → Nat → Option β
  | [], _ => none
  | (k', v) :: r, k => if k' = k then some v else find? r k

/-- `k in d` -/
def has {β : Type} (m : List (Nat × β)) (k : Nat) : Bool := m.any (fun p => p.1 == k)

/-- `d[k] = v` (keeps the position of an existing key, appends a new one) -/
def set {β : Type} : List (Nat × β) → Nat → β → List (Nat × β)
  | [], k, v => [(k, v)]
  | (k', v') :: r, k, v => if k' = k then (k, v) :: r else (k', v') :: set r k v

/-- `d.setdefault(k, v)` (only the effect on the dict) -/
def setdefault {β : Type} (m : List (Nat × β)) (k : Nat) (v : β) : List (Nat × β) :=
  if has m k then m else m ++ [(k, v)]

/-- `del d[k]` (keys of a dict are unique, so this removes at most one entry) -/
def del {β : Type} (m : List (Nat × β)) (k : Nat) : List (Nat × β) := m.filter (fun p => p.1 != k)

end OD

structure Registry where
  ignoreExceptions : Bool := false
  /-- `self.callbacks : sig ↦ (cid ↦ proxy)` -/
  callbacks : List (Sig × List (Cid × Callable)) := []
  /-- `self._cid` -/
  cid : Nat := 0
  /-- `self._func_cid_map : sig ↦ (proxy ↦ cid)` -/
  funcCid : List (Sig × List (Callable × Cid)) := []
deriving Repr

namespace Registry

/-- the callbacks of one signal, in dictionary order -/
def cbs (r : Registry) (k : Sig) : List (Cid × Callable) := OD.getD r.callbacks k
def fc (r : Registry) (k : Sig) : List (Callable × Cid) := OD.getD r.funcCid k

/-- `CallbackRegistry.connect(sig, func)` for an allowed `sig` -> (registry, cid). -/
def connect (r : Registry) (sig : Sig) (f : Callable) : Registry × Cid :=
  -- self._func_cid_map.setdefault(sig, WeakKeyDictionary())
  let fcm := OD.setdefault r.funcCid sig []
  -- if proxy in self._func_cid_map[sig]: return self._func_cid_map[sig][proxy]
  match (if Generated.connectDedup then OD.find? (OD.getD fcm sig) f else none) with
  | some c => ({ r with funcCid := fcm }, c)
  | none =>
    -- self._cid += 1; cid = self._cid
    let cid := r.cid + 1
    -- self._func_cid_map[sig][proxy] = cid
    let fcm := OD.set fcm sig (OD.set (OD.getD fcm sig) f cid)
    -- self.callbacks.setdefault(sig, dict()); self.callbacks[sig][cid] = proxy
    let cb := OD.setdefault r.callbacks sig []
    let cb := OD.set cb sig (OD.set (OD.getD cb sig) cid f)
    ({ r with cid := cid, funcCid := fcm, callbacks := cb }, cid)

/-- the loop of `disconnect` over `self.callbacks.items()`: delete `cid` from the first signal that
    has it; `none` when no signal has it (every `del` raised KeyError) -/
def disconnectCbs : List (Sig × List (Cid × Callable)) → Cid → Option (List (Sig × List (Cid × Callable)))
  | [], _ => none
  | (s, d) :: rest, cid =>
    if OD.has d cid then some ((s, OD.del d cid) :: rest)
    else (disconnectCbs rest cid).map (fun m => (s, d) :: m)

/-- `CallbackRegistry.disconnect(cid)` -/
def disconnect (r : Registry) (cid : Cid) : Registry :=
  match disconnectCbs r.callbacks cid with
  | none => r
  | some cb =>
    -- for sig, functions in self._func_cid_map.items(): delete every entry whose value == cid
    { r with callbacks := cb, funcCid := r.funcCid.map (fun p => (p.1, p.2.filter (fun q => q.2 != cid))) }

end Registry

/-! ### `process` -/

/-- one invocation of a callable: (callable, signal, document) -/
abbrev Call := Callable × Sig × Doc
abbrev Log := List Call

/-- Behaviour of the user callables: does this invocation raise?  It may depend on everything that
    was invoked before (the whole log), so any deterministic callable is covered. -/
abbrev Beh := Log → Callable → Sig → Doc → Bool

/-- result of `CallbackRegistry.process`: the list of collected exceptions (identified by the callable
    that raised), or the exception that left `process` -/
inductive Outcome where
  | returned (collected : List Callable)
  | raised (by_ : Callable)
deriving Repr, DecidableEq

/-- the `for cid, func in list(self.callbacks[sig].items())` loop:
    ```
    try: func(*args)
    except Exception as e:
        if self.ignore_exceptions: exceptions.append(e)
        else: raise
    ``` -/
def runCbs (beh : Beh) (ignore : Bool) (sig : Sig) (doc : Doc) :
    List Callable → Log → List Callable → Log × Outcome
  | [], log, exc => (log, .returned exc)
  | f :: rest, log, exc =>
    let log' := log ++ [(f, sig, doc)]
    if beh log f sig doc then
      if Generated.processCollectsWhenIgnoring && ignore then runCbs beh ignore sig doc rest log' (exc ++ [f])
      else (log', .raised f)
    else runCbs beh ignore sig doc rest log' exc

/-- the callables `process(sig, ...)` walks over, in the order it walks -/
def Registry.callees (r : Registry) (sig : Sig) : List Callable :=
  let items := (r.cbs sig).map (fun p => p.2)
  if Generated.processForward then items else items.reverse

/-- `CallbackRegistry.process(sig, name, doc)` -/
def Registry.process (r : Registry) (beh : Beh) (log : Log) (sig : Sig) (doc : Doc) : Log × Outcome :=
  runCbs beh r.ignoreExceptions sig doc (r.callees sig) log []

end BlueskyVerif.Disp
