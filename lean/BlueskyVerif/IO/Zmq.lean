/-
Byte-level model of the 0MQ framing in src/bluesky/callbacks/zmq.py:
`Publisher.__call__` (b" ".join([prefix, name.encode(), serializer(doc)])) and
`RemoteDispatcher._poll` (split / decode / prefix filter / DocumentNames lookup / deserialize /
deliver, with its try/except ladder).  Constants, part orders, the prefix filter, the constructor
guards and the failure-handling table come from ZmqGenerated.lean (re-extracted from the source on
every run).  Bytes are `List Nat` (every theorem holds in particular for lists of values < 256).
-/
import BlueskyVerif.IO.ZmqGenerated

namespace BlueskyVerif.Zmq

/-- Python `sep.join(parts)` for a one-byte separator -/
def pyJoin (sep : Nat) : List Bytes → Bytes
  | [] => []
  | [a] => a
  | a :: b :: rest => a ++ sep :: pyJoin sep (b :: rest)

/-- put one more byte in front of the part currently being read -/
def consHead (b : Nat) : List Bytes → List Bytes
  | h :: t => (b :: h) :: t
  | [] => [[b]]

/-- Python `bs.split(sep, maxsplit)` for a one-byte separator; `none` = no maxsplit argument (-1).
    Splits at the first `maxsplit` occurrences of `sep`, the remainder is the last part. -/
def pySplit (sep : Nat) : Bytes → Option Nat → List Bytes
  | [], _ => [[]]
  | b :: bs, m =>
    match m with
    | some 0 => [b :: bs]
    | _ =>
      if b = sep then [] :: pySplit sep bs (m.map (· - 1))
      else consHead b (pySplit sep bs m)

/-- what `name.encode()` etc. contribute to the joined message -/
def partOf (pfx name payload : Bytes) : Part → Bytes
  | .pfx => pfx
  | .name => name
  | .payload => payload

/-- the message `Publisher.__call__` sends -/
def frame (pfx name payload : Bytes) : Bytes :=
  pyJoin joinSep (joinParts.map (partOf pfx name payload))

/-- `prefix, name, doc = message.split(b" ", 2)`: `none` = ValueError (wrong number of parts) -/
def unpack (parts : List Bytes) : Option (Bytes × Bytes × Bytes) :=
  if parts.length = splitTargets.length then
    let env := splitTargets.zip parts
    some ((env.lookup .pfx).getD [], (env.lookup .name).getD [], (env.lookup .payload).getD [])
  else none

def split3 (msg : Bytes) : Option (Bytes × Bytes × Bytes) := unpack (pySplit splitSep msg splitMax)

def isCont (b : Nat) : Bool := 0x80 ≤ b && b ≤ 0xBF

/-- `name.decode()` succeeds (strict UTF-8: no overlong forms, no surrogates, ≤ U+10FFFF) -/
def validUtf8 : Bytes → Bool
  | [] => true
  | b0 :: rest =>
    if b0 < 0x80 then validUtf8 rest
    else if 0xC2 ≤ b0 && b0 ≤ 0xDF then
      match rest with
      | b1 :: r => isCont b1 && validUtf8 r
      | _ => false
    else if 0xE0 ≤ b0 && b0 ≤ 0xEF then
      match rest with
      | b1 :: b2 :: r =>
        (if b0 = 0xE0 then 0xA0 ≤ b1 && b1 ≤ 0xBF else if b0 = 0xED then 0x80 ≤ b1 && b1 ≤ 0x9F else isCont b1)
          && isCont b2 && validUtf8 r
      | _ => false
    else if 0xF0 ≤ b0 && b0 ≤ 0xF4 then
      match rest with
      | b1 :: b2 :: b3 :: r =>
        (if b0 = 0xF0 then 0x90 ≤ b1 && b1 ≤ 0xBF else if b0 = 0xF4 then 0x80 ≤ b1 && b1 ≤ 0x8F else isCont b1)
          && isCont b2 && isCont b3 && validUtf8 r
      | _ => false
    else false

/-- a Publisher: its (validated) prefix and its serializer -/
structure Publisher (δ : Type) where
  pfx : Bytes
  dumps : δ → Bytes

/-- `Publisher.__init__`: `none` = ValueError -/
def mkPublisher {δ} (pfx : Bytes) (dumps : δ → Bytes) : Option (Publisher δ) :=
  if publisherRejects pfx then none else some ⟨pfx, dumps⟩

/-- `Publisher.__call__(name, doc)`: the frame put on the wire (`name` = `name.encode()`) -/
def Publisher.call {δ} (p : Publisher δ) (name : Bytes) (d : δ) : Bytes := frame p.pfx name (p.dumps d)

/-- a RemoteDispatcher: its (validated) prefix, strictness and deserializer (`none` = it raised) -/
structure Dispatcher (δ : Type) where
  ourPrefix : Bytes
  strict : Bool
  loads : Bytes → Option δ

def mkDispatcher {δ} (pfx : Bytes) (strict : Bool) (loads : Bytes → Option δ) : Option (Dispatcher δ) :=
  if dispatcherRejects pfx then none else some ⟨pfx, strict, loads⟩

/-- what one iteration of the `while True` loop of `_poll` does with one received message -/
inductive Step (δ : Type) where
  | deliver (name : Bytes) (doc : δ)   -- loop.call_soon(self.process, document_name, doc)
  | ignore                              -- prefix filter false: next iteration
  | drop (s : Stage)                    -- handler printed and `continue`d
  | raise (s : Stage)                   -- handler raised Bluesky0MQDecodeError
  | crash (s : Stage)                   -- no handler: the stage's own exception leaves `_poll`
deriving Repr

def fail {δ} (cfg : Dispatcher δ) (s : Stage) : Step δ :=
  match onFailure s cfg.strict with
  | .raiseDecodeError => .raise s
  | .dropContinue => .drop s
  | .propagate => .crash s

def pollStep {δ} (cfg : Dispatcher δ) (msg : Bytes) : Step δ :=
  match split3 msg with
  | none => fail cfg .split
  | some (pfx, name, payload) =>
    if !validUtf8 name then fail cfg .decode
    else if prefixAccepts cfg.ourPrefix pfx then
      if !documentNames.contains name then fail cfg .lookup
      else
        match cfg.loads payload with
        | none => fail cfg .deser
        | some d => .deliver name d
    else .ignore

inductive Ending where
  | waiting                    -- every message consumed, loop still awaiting `recv`
  | decodeError (s : Stage)    -- Bluesky0MQDecodeError left `_poll`
  | crashed (s : Stage)        -- another exception left `_poll`
deriving Repr, DecidableEq

structure Outcome (δ : Type) where
  delivered : List (Bytes × δ)
  ending : Ending
  consumed : Nat

/-- `_poll` on a queue of messages -/
def poll {δ} (cfg : Dispatcher δ) : List Bytes → Outcome δ
  | [] => ⟨[], .waiting, 0⟩
  | m :: ms =>
    match pollStep cfg m with
    | .deliver n d => let o := poll cfg ms; ⟨(n, d) :: o.delivered, o.ending, o.consumed + 1⟩
    | .ignore => let o := poll cfg ms; ⟨o.delivered, o.ending, o.consumed + 1⟩
    | .drop _ => let o := poll cfg ms; ⟨o.delivered, o.ending, o.consumed + 1⟩
    | .raise s => ⟨[], .decodeError s, 1⟩
    | .crash s => ⟨[], .crashed s, 1⟩

/-! Specification side: what a well-formed frame is, written independently of `split`. -/

/-- cut at the first occurrence of `sep` (Python's `partition`): `none` when `sep` does not occur -/
def cutAt (sep : Nat) : Bytes → Option (Bytes × Bytes)
  | [] => none
  | b :: bs =>
    if b = sep then some ([], bs)
    else match cutAt sep bs with
      | none => none
      | some (a, r) => some (b :: a, r)

/-- a message read as `prefix SP name SP payload`: cut at the first two 0x20 bytes -/
def specSplit3 (msg : Bytes) : Option (Bytes × Bytes × Bytes) :=
  match cutAt 32 msg with
  | none => none
  | some (a, r) =>
    match cutAt 32 r with
    | none => none
    | some (b, c) => some (a, b, c)

end BlueskyVerif.Zmq
