/-
C35 -- statement vocabulary of `_ConditionalBackup.__call__` (tiled_writer.py 138-160); the body itself is
GENERATED into BackupGenerated.lean by harness/props/C35.py.
-/
namespace BlueskyVerif.Backup

inductive Stmt where
  | append                              -- `self._buffer.append((name, doc))`
  | primary                             -- unprotected `self.primary_callback(name, doc)`
  | tryPrimary (handler : List Stmt)    -- `try: self.primary_callback(name, doc)  except Exception: <handler>`
  | setFlag (b : Bool)                  -- `self._push_to_backup = b`
  | ifFlag (body : List Stmt)           -- `if self._push_to_backup: <body>`
  | replay                              -- `for name, doc in self._buffer: for bcb in self.backup_callbacks: try: bcb(name, doc) ...`
  | clear                               -- `self._buffer.clear()`
  | backupCall                          -- a direct `bcb(name, doc)` with the current document
deriving Repr, Inhabited

end BlueskyVerif.Backup
