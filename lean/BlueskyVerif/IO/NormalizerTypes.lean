/-
C35 -- heap model of Python dictionaries with object identities, and the vocabulary of the table that
harness/props/C35.py extracts from `RunNormalizer` (src/bluesky/callbacks/tiled_writer.py).

A Python document is a *reference* to a dict object; nested dicts/lists are further objects.
`copy.copy` allocates ONE new object whose fields hold the same references; `copy.deepcopy` allocates a
fresh copy of everything reachable; `pop` / item assignment / `update` / `remove` / `append` mutate the
object the reference points to.  No Mathlib (the driver loads this file).
-/
namespace BlueskyVerif.Normalizer

/-! object references are heap positions (`Nat`) -/

/-- a field value: an immutable scalar (number, string, None ... all abstracted to an integer code) or a
    reference to another mutable object (dict or list) -/
inductive Val where
  | atom (a : Int)
  | ref (r : Nat)
deriving Repr, DecidableEq, Inhabited

/-- a dict object (lists are dicts keyed by position) -/
abbrev Obj := List (String × Val)
/-- the heap: object identity = position -/
abbrev Heap := List Obj

def hget (h : Heap) (r : Nat) : Obj := h.getD r []

def Obj.lookup (o : Obj) (k : String) : Option Val :=
  match o with
  | [] => none
  | (k', v) :: rest => if k' == k then some v else Obj.lookup rest k

/-- `d.pop(k, default)` / `del d[k]` / `l.remove(x)` : the entry disappears -/
def Obj.pop (o : Obj) (k : String) : Obj := o.filter (fun kv => kv.1 != k)

/-- `d[k] = <scalar>` : the value written is abstracted to an atom (see `Normalizer.lean` for why that
    is faithful for the handlers at hand) -/
def Obj.setAtom (o : Obj) (k : String) (a : Int) : Obj := o.pop k ++ [(k, Val.atom a)]

def valRefs : Val → List Nat
  | .atom _ => []
  | .ref r => [r]

/-- references held by an object -/
def refsOf (o : Obj) : List Nat := o.flatMap (fun kv => valRefs kv.2)

/-- `copy.copy(x)`: one new top-level object, nested references shared -/
def shallowCopy (h : Heap) (r : Nat) : Heap × Nat := (h ++ [hget h r], h.length)

/-- the field loop of a deep copy: copy the values left to right with `cp`, threading the heap -/
def copyFields (cp : Heap → Val → Heap × Val) (h : Heap) (fields : Obj) : Heap × Obj :=
  fields.foldl
    (fun (acc : Heap × Obj) kv =>
      let c := cp acc.1 kv.2
      (c.1, acc.2 ++ [(kv.1, c.2)]))
    (h, [])

/-- `copy.deepcopy(x)` with fuel (documents are finite trees; the driver passes the heap size).
    Children are copied first, the copy of the object itself is allocated last. When the fuel runs
    out the sub-tree is replaced by an atom -- still nothing is shared with the original. -/
def deepCopyVal : Nat → Heap → Val → Heap × Val
  | _, h, .atom a => (h, .atom a)
  | 0, h, .ref _ => (h, .atom 0)
  | f + 1, h, .ref r =>
    let res := copyFields (deepCopyVal f) h (hget h r)
    (res.1 ++ [res.2], .ref res.1.length)

def deepCopy (fuel : Nat) (h : Heap) (r : Nat) : Heap × Nat :=
  match deepCopyVal (fuel + 1) h (.ref r) with
  | (h', .ref r') => (h', r')
  | (h', .atom _) => (h' ++ [[]], h'.length)   -- unreachable (fuel + 1 > 0)

/-- selectors of a mutation path: a literal dictionary key or "any key / any element" -/
inductive Sel where
  | key (s : String)
  | any
deriving Repr, DecidableEq, Inhabited

def children (o : Obj) : Sel → List Nat
  | .key s => match o.lookup s with
    | some (.ref r) => [r]
    | _ => []
  | .any => refsOf o

/-- all objects reached from `rs` by following the path (a `*` step fans out) -/
def followAll (h : Heap) : List Nat → List Sel → List Nat
  | rs, [] => rs
  | rs, s :: p => followAll h (rs.flatMap (fun r => children (hget h r) s)) p

/-- in-place update of the object `t` -/
def writeAt (h : Heap) (t : Nat) (f : Obj → Obj) : Heap := h.set t (f (hget h t))

/-! ### vocabulary of the extracted table -/

inductive Handler where
  | start | stop | descriptor | event | eventPage | resource | streamResource | streamDatum | datum | datumPage
deriving Repr, DecidableEq, Inhabited

def Handler.all : List Handler :=
  [.start, .stop, .descriptor, .event, .eventPage, .resource, .streamResource, .streamDatum, .datum, .datumPage]

inductive CopyKind where
  | shallow | deep
deriving Repr, DecidableEq, Inhabited

/-- the normalizer's two document caches (`_datum_cache`, `_sres_cache`) -/
inductive Cache where
  | datum | sres
deriving Repr, DecidableEq, Inhabited

/-- where a mutated object is reached from -/
inductive Base where
  | input                -- the caller's document itself (a handler that mutates without copying)
  | work                 -- the handler's working copy (`doc = copy.X(doc)`)
  | cached (c : Cache)   -- a document taken out of a cache (put there by an earlier call)
deriving Repr, DecidableEq, Inhabited

inductive Root where
  | base (b : Base)
  | copyOf (k : CopyKind) (b : Base)   -- a copy made inside the handler / conversion helper
deriving Repr, DecidableEq, Inhabited

inductive OpKind where
  | pop   -- pop / del / remove / clear : an entry disappears
  | set   -- item assignment / update / append / setdefault : an entry is (over)written
deriving Repr, DecidableEq, Inhabited

/-- one mutating statement found in a handler (or in a conversion helper it calls) -/
structure Mut where
  root : Root
  path : List Sel
  op : OpKind
  key : Sel
  line : Nat
deriving Repr, DecidableEq, Inhabited

inductive Action where
  | mutate (m : Mut)
  | store (c : Cache)      -- `self._X_cache[...] = <working copy>`
deriving Repr, DecidableEq, Inhabited

end BlueskyVerif.Normalizer
