/-
C46 -- batching logic of `_RunWriter` (src/bluesky/callbacks/tiled_writer.py 496-727).

What is modelled: the row cache per stream (`_internal_data_cache`), when it is handed to Tiled
(`_write_internal_data` = one `append_partition`), the stream-datum cache per stream resource
(`_external_data_cache`), concatenation, and when a (concatenated) stream datum is handed to the
consolidator (`_write_external_data`).  The flush conditions and the presence of the flush / clear
statements are GENERATED from the source (TiledWriterGenerated.lean).

Caches of different streams / stream resources never interact, and the check observes the writes per
stream and per stream resource; the caches are therefore functions of the key.  `α` = a table row.
What Tiled, pyarrow and the consolidators do with what they are handed is NOT modelled (trusted).
No Mathlib (loaded by the driver).
-/
import BlueskyVerif.IO.TiledWriterGenerated

namespace BlueskyVerif.TiledWriter

/-- a StreamDatum as far as the writer looks at it -/
structure SD where
  uid : String
  sres : String
  desc : String
  i0 : Int
  i1 : Int
  s0 : Int
  s1 : Int
deriving Repr, DecidableEq, Inhabited

def SD.width (d : SD) : Int := d.i1 - d.i0

/-- `concatenate_stream_datums(cached, doc)` for two documents of the same stream resource (own small model;
    the function itself is property C36): `none` = ValueError.  Sorting by `indices.start` is stable. -/
def concat2 (c d : SD) : Option SD :=
  if c.desc != d.desc then none else
  let a := if c.i0 ≤ d.i0 then c else d
  let b := if c.i0 ≤ d.i0 then d else c
  if a.i1 != b.i0 then none else
  some { uid := b.uid, sres := b.sres, desc := b.desc, i0 := a.i0, i1 := b.i1, s0 := a.s0, s1 := b.s1 }

structure W (α : Type) where
  batch : Int
  rows : String → List α := fun _ => []            -- `_internal_data_cache[desc_name]`
  parts : String → List (List α) := fun _ => []    -- partitions appended to the stream's table, in order
  ext : String → Option SD := fun _ => none        -- `_external_data_cache[sres_uid]`
  extW : String → List SD := fun _ => []           -- stream datums consumed by the consolidator, in order

def upd {β : Type} (f : String → β) (k : String) (v : β) : String → β := fun k' => if k' = k then v else f k'

/-- `_RunWriter.event` for an event of stream `s` whose table row is `row`:
    `data_cache.append(row); if <flushCond>: write(data_cache); data_cache.clear()` -/
def event {α} (w : W α) (s : String) (row : α) : W α :=
  if flushCond ((w.rows s ++ [row]).length : Int) w.batch then
    { w with parts := upd w.parts s (w.parts s ++ [w.rows s ++ [row]]),
             rows := upd w.rows s (if eventClears then [] else w.rows s ++ [row]) }
  else { w with rows := upd w.rows s (w.rows s ++ [row]) }

/-- the non-immediate part of `_RunWriter.stream_datum` when a datum `c` is already cached -/
def mergeCached {α} (w : W α) (c d : SD) : W α :=
  match concat2 c d with
  | some m =>
    if extFlushCond m.i0 m.i1 w.batch then
      { w with ext := upd w.ext d.sres none, extW := upd w.extW d.sres (w.extW d.sres ++ [m]) }
    else { w with ext := upd w.ext d.sres (some m) }
  | none => { w with ext := upd w.ext d.sres none, extW := upd w.extW d.sres (w.extW d.sres ++ [c, d]) }

/-- `_RunWriter.stream_datum` -/
def streamDatum {α} (w : W α) (d : SD) : W α :=
  if immediateCond w.batch then { w with extW := upd w.extW d.sres (w.extW d.sres ++ [d]) } else
  match w.ext d.sres with
  | none => { w with ext := upd w.ext d.sres (some d) }
  | some c => mergeCached w c d

/-- `_RunWriter.stop`: flush what is still cached (the stream-datum cache itself is not emptied) -/
def stop {α} (w : W α) : W α :=
  { w with
    parts := fun s => if stopFlushesRows && !(w.rows s).isEmpty then w.parts s ++ [w.rows s] else w.parts s
    rows := fun s => if stopFlushesRows && stopClearsRows then [] else w.rows s
    extW := fun k => match w.ext k with
      | some c => if stopFlushesExt then w.extW k ++ [c] else w.extW k
      | none => w.extW k }

inductive Op (α : Type) where
  | event (s : String) (row : α)
  | sdat (d : SD)
deriving Repr

def apply {α} (w : W α) : Op α → W α
  | .event s row => event w s row
  | .sdat d => streamDatum w d

/-- a whole run: the documents between descriptor(s) and stop, then stop -/
def runOps {α} (batch : Int) (ops : List (Op α)) : W α := stop (ops.foldl apply { batch := batch })

/-- rows received for stream `s`, in arrival order -/
def rowsOf {α} (s : String) : List (Op α) → List α
  | [] => []
  | .event s' row :: r => if s' = s then row :: rowsOf s r else rowsOf s r
  | .sdat _ :: r => rowsOf s r

/-- stream datums received for stream resource `k`, in arrival order -/
def sdatsOf {α} (k : String) : List (Op α) → List SD
  | [] => []
  | .sdat d :: r => if d.sres = k then d :: sdatsOf k r else sdatsOf k r
  | .event _ _ :: r => sdatsOf k r

def totalWidth (l : List SD) : Int := (l.map SD.width).sum

end BlueskyVerif.TiledWriter
