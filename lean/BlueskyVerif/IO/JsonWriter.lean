/-
Model of src/bluesky/callbacks/json_writer.py: `JSONWriter.__call__` and `JSONLinesWriter.__call__`
transcribed statement by statement over a file system `path ↦ text`.  The literal strings written,
the open() modes, the document names tested and the file-name pieces come from
JsonWriterGenerated.lean (re-extracted from the source on every run).  `json.dump` of one record is a
parameter: each document arrives with the text `json.dumps({"name": name, "doc": doc})` produced.
-/
import BlueskyVerif.IO.JsonWriterGenerated

namespace BlueskyVerif.JsonWriter

/-- the directory the writer writes into: file name ↦ content (first entry for a name wins) -/
abbrev FS := List (String × String)

def FS.get (fs : FS) (p : String) : Option String := fs.lookup p

def FS.set : FS → String → String → FS
  | [], p, c => [(p, c)]
  | (q, d) :: r, p, c => if q = p then (p, c) :: r else (q, d) :: FS.set r p c

/-- `with open(path, mode) as file:` followed by writes whose concatenation is `text` -/
def openWrite (fs : FS) (path : String) (m : Mode) (text : String) : FS :=
  let base := match m with
    | .w => ""                          -- created or truncated
    | .a => (fs.get path).getD ""       -- created if missing, else positioned at the end
  fs.set path (base ++ text)

/-- the text the body of a `with` block writes, given `json.dumps` of the record -/
def render : List Op → String → String
  | [], _ => ""
  | .lit s :: r, t => s ++ render r t
  | .dump :: r, t => t ++ render r t

/-- one `(name, doc)` call as the writers see it -/
structure Doc where
  name : String
  text : String            -- json.dumps({"name": name, "doc": doc})
  uid : Option String      -- doc["uid"] (none: KeyError)
deriving Repr

/-- `s.split(sep)[0]` -/
def splitHead (s sep : String) : String := (s.splitOn sep).headD ""

/-- Python truthiness of `self.filename` (None or "" are falsy) -/
def truthy : Option String → Bool
  | some s => s != ""
  | none => false

inductive Outcome where
  | ok
  | keyError     -- doc['uid'] on a document without uid
  | typeError    -- self.dirname / None
  | fileNotFound -- path.stat() on a missing file
deriving Repr, DecidableEq

structure Writer where
  filename : Option String
deriving Repr

/-- `JSONWriter.__call__(name, doc)` -/
def arrayCall (w : Writer) (fs : FS) (d : Doc) : Writer × FS × Outcome :=
  if d.name = arrayStartName then
    -- self.filename = self.filename or f"{doc['uid'].split('-')[0]}.json"
    let fn? := if truthy w.filename then w.filename else d.uid.map fun u => splitHead u arrayUidSep ++ arrayExt
    match fn? with
    | none => (w, fs, .keyError)
    | some fn => (⟨some fn⟩, openWrite fs fn arrayStartMode (render arrayStartOps d.text), .ok)
  else
    let (mode, ops) := if d.name = arrayStopName then (arrayStopMode, arrayStopOps) else (arrayOtherMode, arrayOtherOps)
    match w.filename with
    | none => (w, fs, .typeError)
    | some fn => (w, openWrite fs fn mode (render ops d.text), .ok)

/-- the text ends with the character `c` (the last BYTE of a UTF-8 file is 0x0A iff its last
    character is '\n') -/
def endsWith (c : Char) (s : String) : Bool := s.toList.getLast? == some c

/-- `JSONLinesWriter.__call__(name, doc)`; `today` = datetime.today().strftime('%Y-%m-%d') -/
def linesCall (today : String) (w : Writer) (fs : FS) (d : Doc) : Writer × FS × Outcome :=
  let fn? :=
    if truthy w.filename then w.filename
    else if d.name = linesStartName then d.uid.map fun u => splitHead u linesUidSep ++ linesExt
    else some (today ++ linesExt)
  match fn? with
  | none => (w, fs, .keyError)
  | some fn =>
    let existing := fs.get fn
    let mode := if existing.isSome then linesModeIfExists else linesModeIfMissing
    -- needs_newline = False
    -- if mode == M and path.stat().st_size > 0: needs_newline = (last byte != terminator)
    let guard := linesRepairs && mode == linesRepairGuardMode
    match guard, existing with
    | true, none => (⟨some fn⟩, fs, .fileNotFound)
    | _, _ =>
      let needsNewline := guard &&
        (match existing with
         | some c => c != "" && !(endsWith linesTerminator c)
         | none => false)
      -- with open(path, mode) as file: [if needs_newline: file.write("\n")]; json.dump(...); file.write("\n")
      let text := (if needsNewline then render linesRepairOps d.text else "") ++ render linesOps d.text
      (⟨some fn⟩, openWrite fs fn mode text, .ok)

/-- a sequence of calls on one writer; outcomes are recorded, an exception leaves the state unchanged -/
def runCalls (call : Writer → FS → Doc → Writer × FS × Outcome) : Writer → FS → List Doc → Writer × FS × List Outcome
  | w, fs, [] => (w, fs, [])
  | w, fs, d :: ds =>
    let (w1, fs1, o) := call w fs d
    let (w2, fs2, os) := runCalls call w1 fs1 ds
    (w2, fs2, o :: os)

/-! ### specification side: which file, what text, reading the files back -/

/-- the file a JSONWriter writes a run to: the constructor's `filename` if given (non-empty),
    else the first `-`-separated piece of the start document's uid + ".json" -/
def arrayFile (w : Writer) (u : String) : String :=
  if truthy w.filename then w.filename.getD "" else splitHead u "-" ++ ".json"

/-- the file a JSONLinesWriter appends to, fixed by its first call -/
def linesFile (today : String) (w : Writer) (d : Doc) (u : String) : String :=
  if truthy w.filename then w.filename.getD ""
  else if d.name = "start" then splitHead u "-" ++ ".jsonl" else today ++ ".jsonl"

/-- what is put between the old content and the first new record: a newline iff the old content is
    non-empty and its last line is unterminated -/
def lineFix (pre : String) : String := if pre ≠ "" ∧ endsWith '\n' pre = false then "\n" else ""


/-- concatenation of texts -/
def concatAll : List String → String
  | [] => ""
  | a :: r => a ++ concatAll r

/-- `sep.join(parts)` -/
def sepJoin (sep : String) : List String → String
  | [] => ""
  | [a] => a
  | a :: b :: r => a ++ sep ++ sepJoin sep (b :: r)

def sepJoinL (sep : List Char) : List (List Char) → List Char
  | [] => []
  | [a] => a
  | a :: b :: r => a ++ sep ++ sepJoinL sep (b :: r)

def isWs (c : Char) : Bool := c = ' ' || c = '\n' || c = '\r' || c = '\t'

def skipWs : List Char → List Char
  | [] => []
  | c :: cs => if isWs c then skipWs cs else c :: cs

/-- RFC 8259 `array = [ ws ] | [ ws value ws (, ws value ws)* ]` over an element parser `pv`
    (`pv input = some (value, rest)`); `fuel` bounds the number of elements. -/
def parseElems {V} (pv : List Char → Option (V × List Char)) : Nat → List Char → Option (List V × List Char)
  | 0, _ => none
  | fuel + 1, cs =>
    match pv (skipWs cs) with
    | none => none
    | some (v, rest) =>
      match skipWs rest with
      | ',' :: rest' =>
        match parseElems pv fuel rest' with
        | none => none
        | some (vs, r) => some (v :: vs, r)
      | ']' :: rest' => some ([v], rest')
      | _ => none

def parseArray {V} (pv : List Char → Option (V × List Char)) (cs : List Char) : Option (List V × List Char) :=
  match skipWs cs with
  | '[' :: r =>
    if (skipWs r).head? = some ']' then some ([], (skipWs r).tail)
    else parseElems pv (r.length + 1) r
  | _ => none

/-- a whole file that is one JSON array (trailing whitespace allowed, nothing else) -/
def parseArrayFile {V} (pv : List Char → Option (V × List Char)) (cs : List Char) : Option (List V) :=
  match parseArray pv cs with
  | some (vs, r) => if skipWs r = [] then some vs else none
  | none => none

def consLine (c : Char) : List (List Char) → List (List Char)
  | l :: ls => (c :: l) :: ls
  | [] => [[c]]

/-- the lines of a text (terminator '\n'; an unterminated last fragment counts as a line) -/
def linesOf : List Char → List (List Char)
  | [] => []
  | c :: cs => if c = '\n' then [] :: linesOf cs else consLine c (linesOf cs)

end BlueskyVerif.JsonWriter
