/-
C35 -- `_ConditionalBackup`: interpreter for the GENERATED body of `__call__`, over a buffer that
behaves like `collections.deque(maxlen=...)`.  `α` = documents.  The primary callback is a parameter:
for every document a Boolean says whether it raises.  All backup callbacks see the same sequence
(each `bcb(name, doc)` is protected on its own), so one log stands for all of them.
No Mathlib (loaded by the driver).
-/
import BlueskyVerif.IO.BackupGenerated

namespace BlueskyVerif.Backup

structure BState (α : Type) where
  buffer : List α := []
  flag : Bool := false        -- `_push_to_backup`
  log : List α := []          -- what every backup callback has been called with, in order
  raised : Bool := false      -- an exception escaped `__call__`
deriving Repr

/-- the last `n` elements -/
def lastN {α} (n : Nat) (l : List α) : List α := l.drop (l.length - n)

/-- `deque(maxlen=n).append(x)`: the oldest entries fall out on the left -/
def appendBounded {α} (n : Nat) (buf : List α) (x : α) : List α := lastN n (buf ++ [x])

mutual
def exec {α} (maxlen : Nat) (doc : α) (fails : Bool) (s : BState α) : Stmt → BState α
  | .append => { s with buffer := appendBounded maxlen s.buffer doc }
  | .primary => if fails then { s with raised := true } else s
  | .tryPrimary h => if fails then execList maxlen doc fails s h else s
  | .setFlag b => { s with flag := b }
  | .ifFlag body => if s.flag then execList maxlen doc fails s body else s
  | .replay => { s with log := s.log ++ s.buffer }
  | .clear => { s with buffer := [] }
  | .backupCall => { s with log := s.log ++ [doc] }
def execList {α} (maxlen : Nat) (doc : α) (fails : Bool) (s : BState α) : List Stmt → BState α
  | [] => s
  | st :: rest =>
    let s' := exec maxlen doc fails s st
    if s'.raised then s' else execList maxlen doc fails s' rest
end

/-- one `__call__(name, doc)` -/
def callOnce {α} (maxlen : Nat) (s : BState α) (x : α × Bool) : BState α :=
  execList maxlen x.1 x.2 { s with raised := false } callBody

/-- a whole run: documents paired with "the primary raises on this one" -/
def runAll {α} (maxlen : Nat) (xs : List (α × Bool)) : BState α := xs.foldl (callOnce maxlen) {}

end BlueskyVerif.Backup
