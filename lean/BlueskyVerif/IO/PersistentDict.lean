/-
Model of `bluesky.utils.PersistentDict` (src/bluesky/utils/__init__.py) together with the parts
of `zict.File` / `zict.Func` / `collections.abc.MutableMapping` it is built from.

State: the directory (`zict.File`: key ↦ bytes, in `filenames` order), `self._cache`
(a dict: key ↦ value object, insertion ordered) and the dict object the `weakref.finalize`
callback captured in `__init__` (`fin = none`: it is the very object `self._cache` points to;
`fin = some d`: `self._cache` has been rebound and the finalizer still holds the old object `d`).

Which methods write through to `self._func`, whether `reload` rebinds or updates in place and what
the finalizer captured are NOT written here: they come from `PersistentDictGenerated.lean`,
regenerated from the current source on every check.

`pop`, `setdefault`, `update`, `clear` are the MutableMapping mixins (not overridden): transcribed
from `_collections_abc.py` in terms of `__getitem__/__setitem__/__delitem__/popitem`.
msgpack is a parameter (`Codec`): `load (dump v) = norm v`, `norm` being msgpack's normalisation
(tuples come back as lists); checked against the real codec in the correspondence run.
Dicts are association lists read with first-match `lookup`; `erase` removes every entry of a key.
-/
import BlueskyVerif.IO.PersistentDictGenerated

namespace BlueskyVerif.PersistentDict
open Gen

/-- msgpack + msgpack_numpy as used by `_dump`/`_load` -/
structure Codec (V B : Type) where
  dump : V → B
  load : B → V
  norm : V → V
  roundtrip : ∀ v, load (dump v) = norm v

section
variable {K : Type} [DecidableEq K] {α : Type}

def lookup (m : List (K × α)) (k : K) : Option α :=
  match m with
  | [] => none
  | p :: r => if p.1 = k then some p.2 else lookup r k

def erase (m : List (K × α)) (k : K) : List (K × α) :=
  m.filter fun p => !decide (p.1 = k)

/-- `d[k] = v` on a Python dict: an existing key keeps its position, a new key goes to the end -/
def dictSet (m : List (K × α)) (k : K) (v : α) : List (K × α) :=
  match m with
  | [] => [(k, v)]
  | p :: r => if p.1 = k then (k, v) :: r else p :: dictSet r k v

/-- `zict.File.__setitem__`: `self.discard(key)`, then a new file name at the end of `filenames` -/
def fileSet (m : List (K × α)) (k : K) (b : α) : List (K × α) := erase m k ++ [(k, b)]

def keysOf (m : List (K × α)) : List K := m.map (·.1)

end

structure St (K V B : Type) where
  disk : List (K × B)
  cache : List (K × V)
  fin : Option (List (K × V))

inductive Ret (K V : Type) where
  | none                      -- returns None
  | val (v : V)               -- returns a value
  | item (k : K) (v : V)      -- returns a (key, value) pair
  | keyError                  -- raises KeyError
deriving Repr, DecidableEq

inductive Op (K V : Type) where
  | set (k : K) (v : V)                 -- d[k] = v
  | del (k : K)                         -- del d[k]
  | pop (k : K) (dflt : Option V)       -- d.pop(k) / d.pop(k, default)
  | popitem                             -- d.popitem()
  | setdefault (k : K) (v : V)          -- d.setdefault(k, v)
  | update (kvs : List (K × V))         -- d.update(kvs)
  | clear                               -- d.clear()
  | flush                               -- d.flush()
  | reload                              -- d.reload()
  | mutate (k : K) (v : V)              -- nested mutation: the object d[k] is changed in place and now equals v
  | gcReopen (order : List K)           -- the instance is collected (finalizer runs), a new one is opened; `order` = os.listdir order
  | crashReopen (order : List K)        -- the process dies without the finalizer, a new instance is opened
deriving Repr

section
variable {K V B : Type} [DecidableEq K]

/-! ### the methods PersistentDict defines itself -/

/-- `__setitem__` -/
def setitem (c : Codec V B) (st : St K V B) (k : K) (v : V) : St K V B :=
  { st with
    cache := if setWritesCache then dictSet st.cache k v else st.cache
    disk := if setWritesThrough then fileSet st.disk k (c.dump v) else st.disk }

/-- `__delitem__`; the Bool says whether it returned normally (false = KeyError).  `del self._cache[key]`
    raises first when the key is missing; `del self._func[key]` can only raise afterwards. -/
def delitem (st : St K V B) (k : K) : St K V B × Bool :=
  match lookup st.cache k with
  | none => if delDeletesCache then (st, false) else
      (match lookup st.disk k with
       | none => (st, false)
       | some _ => ({ st with disk := if delWritesThrough then erase st.disk k else st.disk }, true))
  | some _ =>
    let st1 : St K V B := { st with cache := if delDeletesCache then erase st.cache k else st.cache }
    if delWritesThrough then
      match lookup st1.disk k with
      | none => (st1, false)
      | some _ => ({ st1 with disk := erase st1.disk k }, true)
    else (st1, true)

/-- `popitem`: `key, value = self._cache.popitem(); del self._func[key]; return key, value` -/
def popitemP (st : St K V B) : St K V B × Ret K V :=
  match st.cache.getLast? with
  | none => (st, .keyError)                       -- popitem(): dictionary is empty
  | some (k, v) =>
    let st1 : St K V B := { st with cache := erase st.cache k }   -- the last-inserted key leaves the dict
    if popitemWritesThrough then
      match lookup st1.disk k with
      | none => (st1, .keyError)
      | some _ => ({ st1 with disk := erase st1.disk k }, .item k v)
    else (st1, .item k v)

/-- one step of `Mapping.items()` feeding `zict`: `(key, d[key])` is dumped into the directory -/
def writeOne (c : Codec V B) (d : List (K × V)) (dk : List (K × B)) (k : K) : List (K × B) :=
  match lookup d k with
  | some v => fileSet dk k (c.dump v)
  | none => dk

/-- write every item of the dict `d` through `dump` into the directory, as `Mapping.items()` yields them:
    `for key in d: yield (key, d[key])` -/
def writeAll (c : Codec V B) (d : List (K × V)) (disk : List (K × B)) : List (K × B) :=
  (keysOf d).foldl (writeOne c d) disk

/-- `flush` -/
def flushP (c : Codec V B) (st : St K V B) : St K V B :=
  { st with disk := if flushWritesAll then writeAll c st.cache st.disk else st.disk }

/-- `dict(self._func.items())` -/
def loaded (c : Codec V B) (disk : List (K × B)) : List (K × V) := disk.map fun p => (p.1, c.load p.2)

/-- `reload` -/
def reloadP (c : Codec V B) (st : St K V B) : St K V B :=
  if reloadInPlace then { st with cache := loaded c st.disk }
  else { st with cache := loaded c st.disk, fin := some (st.fin.getD st.cache) }

/-- the `weakref.finalize` callback: `zfile.update((k, dump(v)) for k, v in cache.items())` on the captured dict -/
def finalizeP (c : Codec V B) (st : St K V B) : St K V B :=
  let d := if finalizerCapturesCache then st.fin.getD st.cache else []
  { st with disk := if finalizerWritesAll then writeAll c d st.disk else st.disk }

/-- a new `zict.File` lists the directory: same files, `os.listdir` order -/
def reorder (disk : List (K × B)) (order : List K) : List (K × B) :=
  order.filterMap (fun k => (lookup disk k).map fun b => (k, b)) ++ disk.filter (fun p => !order.contains p.1)

/-- `PersistentDict(directory)`: fresh `self._cache = {}`, `self.reload()`, finalizer registered on that dict -/
def reopenP (c : Codec V B) (st : St K V B) (order : List K) : St K V B :=
  let d := reorder st.disk order
  { disk := d, cache := loaded c d, fin := none }

/-! ### the MutableMapping mixins -/

/-- `pop`: `try: value = self[key] except KeyError: (default or raise) else: del self[key]; return value` -/
def popP (st : St K V B) (k : K) (dflt : Option V) : St K V B × Ret K V :=
  match lookup st.cache k with
  | none => (st, match dflt with | none => .keyError | some d => .val d)
  | some v => let r := delitem st k; (r.1, if r.2 then .val v else .keyError)

/-- `setdefault`: `try: return self[key] except KeyError: self[key] = default; return default` -/
def setdefaultP (c : Codec V B) (st : St K V B) (k : K) (v : V) : St K V B × Ret K V :=
  match lookup st.cache k with
  | some x => (st, .val x)
  | none => (setitem c st k v, .val v)

/-- `update`: `for key, value in other: self[key] = value` -/
def updateP (c : Codec V B) (st : St K V B) (kvs : List (K × V)) : St K V B :=
  kvs.foldl (fun s p => setitem c s p.1 p.2) st

/-- `clear`: `try: while True: self.popitem() except KeyError: pass` -/
def clearLoop : Nat → St K V B → St K V B
  | 0, st => st
  | n + 1, st =>
    match popitemP st with
    | (st', .keyError) => st'
    | (st', _) => clearLoop n st'

def clearP (st : St K V B) : St K V B := clearLoop (st.cache.length + 1) st

/-- a nested mutation `d[k][...] = ...`: `d[k]` raises KeyError for a missing key; otherwise the value
    object changes in place (position kept) and nothing is written -/
def mutateP (st : St K V B) (k : K) (v : V) : St K V B × Ret K V :=
  match lookup st.cache k with
  | none => (st, .keyError)
  | some _ => ({ st with cache := dictSet st.cache k v }, .none)

def step (c : Codec V B) (st : St K V B) : Op K V → St K V B × Ret K V
  | .set k v => (setitem c st k v, .none)
  | .del k => let r := delitem st k; (r.1, if r.2 then .none else .keyError)
  | .pop k d => popP st k d
  | .popitem => popitemP st
  | .setdefault k v => setdefaultP c st k v
  | .update kvs => (updateP c st kvs, .none)
  | .clear => (clearP st, .none)
  | .flush => (flushP c st, .none)
  | .reload => (reloadP c st, .none)
  | .mutate k v => mutateP st k v
  | .gcReopen order => (reopenP c (finalizeP c st) order, .none)
  | .crashReopen order => (reopenP c st order, .none)

/-- a whole history: final state and what every operation returned -/
def run (c : Codec V B) (st : St K V B) : List (Op K V) → St K V B × List (Ret K V)
  | [] => (st, [])
  | op :: ops =>
    let r1 := step c st op
    let r2 := run c r1.1 ops
    (r2.1, r1.2 :: r2.2)

/-- a PersistentDict opened on a new, empty directory -/
def init : St K V B := { disk := [], cache := [], fin := none }

/-- what the user sees in the instance: `dict(d)` -/
def content (st : St K V B) : K → Option V := lookup st.cache

/-! ### the abstract specification: two plain maps

`vis` is the mapping the user sees, `dur` is what has been made durable.  `set / del / pop /
popitem / setdefault / update / clear` act on both (write-through, values normalised by msgpack);
a nested mutation changes `vis` only; `flush` and a collected instance make everything visible
durable; `reload` and a re-opened instance show what is durable.  The user-visible result `r` of the
operation resolves the one choice the map does not determine (which item `popitem` removed). -/

structure Spec (K V : Type) where
  vis : K → Option V
  dur : K → Option V

def upd {β : Type} (f : K → Option β) (k : K) (x : Option β) : K → Option β :=
  fun k' => if k' = k then x else f k'

def Spec.set (norm : V → V) (s : Spec K V) (k : K) (v : V) : Spec K V :=
  { vis := upd s.vis k (some v), dur := upd s.dur k (some (norm v)) }

def Spec.remove (s : Spec K V) (k : K) : Spec K V :=
  { vis := upd s.vis k none, dur := upd s.dur k none }

def Spec.step (norm : V → V) (s : Spec K V) (op : Op K V) (r : Ret K V) : Spec K V :=
  match op with
  | .set k v => s.set norm k v
  | .del k => if (s.vis k).isSome then s.remove k else s
  | .pop k _ => if (s.vis k).isSome then s.remove k else s
  | .popitem => match r with
    | .item k _ => s.remove k
    | _ => s
  | .setdefault k v => if (s.vis k).isSome then s else s.set norm k v
  | .update kvs => kvs.foldl (fun s p => s.set norm p.1 p.2) s
  | .clear => { vis := fun _ => none, dur := fun _ => none }
  | .flush => { vis := s.vis, dur := fun k => (s.vis k).map norm }
  | .reload => { vis := s.dur, dur := s.dur }
  | .mutate k v => if (s.vis k).isSome then { vis := upd s.vis k (some v), dur := s.dur } else s
  | .gcReopen _ => { vis := fun k => (s.vis k).map norm, dur := fun k => (s.vis k).map norm }
  | .crashReopen _ => { vis := s.dur, dur := s.dur }

/-- the specification run over the history as the user observed it (operations with their results) -/
def Spec.run (norm : V → V) (s : Spec K V) (tr : List (Op K V × Ret K V)) : Spec K V :=
  tr.foldl (fun s p => Spec.step norm s p.1 p.2) s

def Spec.empty : Spec K V := { vis := fun _ => none, dur := fun _ => none }

/-- the history of `ops` from state `st` as the user observes it -/
def trace (c : Codec V B) (st : St K V B) (ops : List (Op K V)) : List (Op K V × Ret K V) :=
  ops.zip (run c st ops).2

/-- abstraction function -/
def absSt (c : Codec V B) (st : St K V B) : Spec K V :=
  { vis := lookup st.cache, dur := fun k => (lookup st.disk k).map c.load }

/-- representation invariant of a live instance: the finalizer holds `self._cache` itself, and the
    directory has a file for exactly the keys of the cache -/
def Inv (st : St K V B) : Prop :=
  st.fin = none ∧ ∀ k, (lookup st.cache k).isSome = (lookup st.disk k).isSome

end

/-! ### concrete values for the driver: msgpack-able Python values up to the tuple/list distinction -/

inductive PVal where
  | atom (repr : String)                -- int, float, str, bytes, None, bool, numpy scalar/array: canonical text
  | list (xs : List PVal)
  | tuple (xs : List PVal)
  | dict (kvs : List (String × PVal))
deriving Repr

mutual
/-- msgpack's normalisation: tuples are stored as arrays and come back as lists -/
def PVal.norm : PVal → PVal
  | .atom r => .atom r
  | .list xs => .list (PVal.normList xs)
  | .tuple xs => .list (PVal.normList xs)
  | .dict kvs => .dict (PVal.normKvs kvs)
def PVal.normList : List PVal → List PVal
  | [] => []
  | x :: xs => x.norm :: PVal.normList xs
def PVal.normKvs : List (String × PVal) → List (String × PVal)
  | [] => []
  | (k, v) :: r => (k, v.norm) :: PVal.normKvs r
end

/-- the codec instance used by the driver: bytes are represented by the normalised value -/
def pvalCodec : Codec PVal PVal := { dump := PVal.norm, load := id, norm := PVal.norm, roundtrip := fun _ => rfl }

end BlueskyVerif.PersistentDict
