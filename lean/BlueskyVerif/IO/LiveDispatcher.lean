/-
Model of `bluesky.callbacks.stream.LiveDispatcher` (src/bluesky/callbacks/stream.py):
the state a dispatcher keeps between documents and the documents it re-emits.

Transcribed statement by statement from `start`, `descriptor`, `process_event`, `stop`.
The facts the C39 theorems hinge on (which counter is written into "seq_num", how the counter is
incremented, which expression builds `num_events`, whether the new descriptor is named after
`stream_name`, what `stop` clears) are NOT written here: they come from
`LiveDispatcherGenerated.lean`, regenerated from the current source on every check.

Not modelled: document payloads (data, timestamps, configuration, metadata), `emit`'s schema
validation (assumed to pass: the raw run is valid and subclasses pass well-formed events).
uids are natural numbers handed out in emission order (`new_uid()` is only required to be fresh).
-/
import BlueskyVerif.IO.LiveDispatcherGenerated

namespace BlueskyVerif.LiveDispatcher
open Gen

/-- `desc_id = frozenset((tuple(doc["data"].keys()), stream_name, id_args))` -/
structure DescId where
  keys : List String
  stream : String
  idArgs : List String
deriving Repr, DecidableEq

/-- equality of the frozensets `{keys, stream, idArgs}`: `stream` is a str, the other two are tuples,
    so the sets are equal iff the streams are and the two tuples agree in either order. -/
def DescId.same (a b : DescId) : Bool :=
  a.stream == b.stream &&
    ((a.keys == b.keys && a.idArgs == b.idArgs) || (a.keys == b.idArgs && a.idArgs == b.keys))

/-- one call `process_event(doc, stream_name, id_args)` -/
structure Call where
  stream : String := "primary"     -- stream_name
  keys : List String := []         -- tuple(doc["data"].keys())
  rawDesc : String := ""           -- doc["descriptor"]
  idArgs : List String := []       -- id_args; [] = omitted / empty (falsy)
deriving Repr, DecidableEq

/-- what reaches the dispatcher between a raw start and a raw stop -/
inductive BodyInp where
  | rawDescriptor (uid : String) (name : Option String)   -- `descriptor(doc)`
  | call (c : Call)                                        -- `process_event(...)`
deriving Repr, DecidableEq

/-- re-emitted documents (skeletons).  `stream` in descriptor/event is a ghost field: the
    `stream_name` of the `process_event` call that emitted the document (the harness observes it
    by wrapping `process_event`); everything else is a field of the real document. -/
inductive Doc where
  | start (uid : Nat)
  | descriptor (uid : Nat) (runStart : Option Nat) (name : Option String) (stream : String) (keys : List String)
  | event (uid : Nat) (descriptor : Nat) (seqNum : Nat) (stream : String)
  | stop (uid : Nat) (runStart : Option Nat) (numEvents : List (String × Nat))
deriving Repr, DecidableEq

def Doc.uid : Doc → Nat
  | .start u => u
  | .descriptor u _ _ _ _ => u
  | .event u _ _ _ => u
  | .stop u _ _ => u

structure St where
  seqCount : Nat := 0                                        -- self.seq_count
  seqCounts : List (String × Nat) := []                      -- self._seq_counts
  rawDescs : List (String × Option String) := []             -- self.raw_descriptors (uid ↦ name)
  startUid : Option Nat := none                              -- self._stream_start_uid
  descriptors : List (String × List (DescId × Nat)) := []    -- self._descriptors (stream ↦ desc_id ↦ uid)
  nextUid : Nat := 0                                         -- new_uid(): fresh
deriving Repr, DecidableEq

/-! ### str-keyed dictionaries as association lists -/

/-- `m.get(k, d)` -/
def getCnt (m : List (String × Nat)) (k : String) (d : Nat) : Nat :=
  match m with
  | [] => d
  | p :: r => if p.1 = k then p.2 else getCnt r k d

/-- `m[k] = v` (keeps the position of an existing key, appends a new one) -/
def setCnt (m : List (String × Nat)) (k : String) (v : Nat) : List (String × Nat) :=
  match m with
  | [] => [(k, v)]
  | p :: r => if p.1 = k then (k, v) :: r else p :: setCnt r k v

/-- `self._descriptors.get(stream)` -/
def descsOf (m : List (String × List (DescId × Nat))) (s : String) : Option (List (DescId × Nat)) :=
  match m with
  | [] => none
  | p :: r => if p.1 = s then some p.2 else descsOf r s

/-- `ds.get(desc_id)` with frozenset equality -/
def findDesc (ds : List (DescId × Nat)) (d : DescId) : Option Nat :=
  match ds with
  | [] => none
  | p :: r => if p.1.same d then some p.2 else findDesc r d

/-- `self._descriptors[stream][desc_id]` if both keys exist -/
def lookupDesc (m : List (String × List (DescId × Nat))) (s : String) (d : DescId) : Option Nat :=
  match descsOf m s with
  | none => none
  | some ds => findDesc ds d

/-- `if stream not in self._descriptors: self._descriptors[stream] = {}` then
    `self._descriptors[stream][desc_id] = desc` (only executed when `desc_id` is not yet there) -/
def insertDesc (m : List (String × List (DescId × Nat))) (s : String) (d : DescId) (u : Nat) :
    List (String × List (DescId × Nat)) :=
  match m with
  | [] => [(s, [(d, u)])]
  | p :: r => if p.1 = s then (s, p.2 ++ [(d, u)]) :: r else p :: insertDesc r s d u

def rawLookup (m : List (String × Option String)) (uid : String) : Option (Option String) :=
  match m with
  | [] => none
  | p :: r => if p.1 = uid then some p.2 else rawLookup r uid

def rawSet (m : List (String × Option String)) (uid : String) (n : Option String) : List (String × Option String) :=
  match m with
  | [] => [(uid, n)]
  | p :: r => if p.1 = uid then (uid, n) :: r else p :: rawSet r uid n

/-! ### process_event -/

/-- `id_args = id_args or (doc["descriptor"],)` -/
def effIdArgs (c : Call) : List String := if c.idArgs.isEmpty then [c.rawDesc] else c.idArgs

def descIdOf (c : Call) : DescId := { keys := c.keys, stream := c.stream, idArgs := effIdArgs c }

/-- negation of `stream_name not in self._descriptors or desc_id not in self._descriptors[stream_name]` -/
def described (st : St) (c : Call) : Bool := (lookupDesc st.descriptors c.stream (descIdOf c)).isSome

/-- `raw_desc = self.raw_descriptors.get(doc["descriptor"], {})` followed by `raw_desc["data_keys"]`
    for the first data key: KeyError when the raw descriptor is unknown and there is a data key.
    Nothing has been changed or emitted at that point. -/
def keyErrorOnRaw (st : St) (c : Call) : Bool :=
  !described st c && (rawLookup st.rawDescs c.rawDesc).isNone && !c.keys.isEmpty

/-- `name` of a new descriptor: the first ChainMap layer, else inherited from `raw_desc` -/
def newDescName (st : St) (c : Call) : Option String :=
  if descNameFromStream then some c.stream
  else match rawLookup st.rawDescs c.rawDesc with
    | some n => n
    | none => none

/-- state after `self._descriptors[stream_name][desc_id] = desc` (uid drawn from `new_uid()`) -/
def withDesc (st : St) (c : Call) : St :=
  { st with descriptors := insertDesc st.descriptors c.stream (descIdOf c) st.nextUid, nextUid := st.nextUid + 1 }

def descDoc (st : St) (c : Call) : Doc :=
  Doc.descriptor st.nextUid st.startUid (newDescName st c) c.stream c.keys

/-- the `if ...:` block that creates, stores and emits a new descriptor -/
def ensureDescriptor (st : St) (c : Call) : St × List Doc :=
  if described st c then (st, []) else (withDesc st c, [descDoc st c])

/-- `self.seq_count += 1; self._seq_counts[stream_name] = self._seq_counts.get(stream_name, D) + S` -/
def bump (st : St) (c : Call) : St :=
  { st with
    seqCount := st.seqCount + globalStep
    seqCounts := if hasPerStreamIncrement then
        setCnt st.seqCounts c.stream (getCnt st.seqCounts c.stream incDefault + incStep)
      else st.seqCounts }

/-- the value written into "seq_num" -/
def seqNumOf (st : St) (c : Call) : Nat :=
  match seqNumSource with
  | .perStream => getCnt st.seqCounts c.stream 0
  | .global => st.seqCount

def afterEvent (st : St) : St := { st with nextUid := st.nextUid + 1 }

def evDoc (st : St) (c : Call) (du : Nat) : Doc := Doc.event st.nextUid du (seqNumOf st c) c.stream

/-- the tail of `process_event`: count, look the descriptor uid up, emit the event -/
def emitEvent (st : St) (c : Call) : St × List Doc :=
  match lookupDesc (bump st c).descriptors c.stream (descIdOf c) with
  | none => (bump st c, [])      -- KeyError in `self._descriptors[stream_name][desc_id]` (proved unreachable)
  | some du => (afterEvent (bump st c), [evDoc (bump st c) c du])

def processEvent (st : St) (c : Call) : St × List Doc :=
  if keyErrorOnRaw st c then (st, [])
  else
    let r1 := ensureDescriptor st c
    let r2 := emitEvent r1.1 c
    (r2.1, r1.2 ++ r2.2)

/-! ### start / descriptor / stop -/

def startRun (st : St) : St × List Doc :=
  ({ st with startUid := some st.nextUid, nextUid := st.nextUid + 1 }, [Doc.start st.nextUid])

def stepBody (st : St) : BodyInp → St × List Doc
  | .rawDescriptor uid name => ({ st with rawDescs := rawSet st.rawDescs uid name }, [])
  | .call c => processEvent st c

def runBody (st : St) : List BodyInp → St × List Doc
  | [] => (st, [])
  | i :: is =>
    let r1 := stepBody st i
    let r2 := runBody r1.1 is
    (r2.1, r1.2 ++ r2.2)

/-- `dict((stream, EXPR) for stream in self._descriptors.keys())` -/
def numEventsOf (st : St) : List (String × Nat) :=
  st.descriptors.map fun p =>
    (p.1, match numEventsSource with
          | .perStreamCount => getCnt st.seqCounts p.1 numEventsDefault
          | .numDescriptors => p.2.length)

def stopRun (st : St) : St × List Doc :=
  ({ seqCount := if stopResetsSeqCount then 0 else st.seqCount
     seqCounts := if stopClearsSeqCounts then [] else st.seqCounts
     rawDescs := if stopClearsRawDescriptors then [] else st.rawDescs
     startUid := if stopResetsStartUid then none else st.startUid
     descriptors := if stopClearsDescriptors then [] else st.descriptors
     nextUid := st.nextUid + 1 },
   [Doc.stop st.nextUid st.startUid (numEventsOf st)])

/-- one raw run: start, body, stop -/
def runOne (st : St) (body : List BodyInp) : St × List Doc :=
  let r1 := startRun st
  let r2 := runBody r1.1 body
  let r3 := stopRun r2.1
  (r3.1, r1.2 ++ (r2.2 ++ r3.2))

/-- several raw runs through the same dispatcher object; the documents of each run -/
def session (st : St) : List (List BodyInp) → List (List Doc)
  | [] => []
  | b :: bs => (runOne st b).2 :: session (runOne st b).1 bs

/-- the state `__init__` and `stop` leave behind (up to the uid supply) -/
def Clean (st : St) : Prop :=
  st.seqCount = 0 ∧ st.seqCounts = [] ∧ st.rawDescs = [] ∧ st.startUid = none ∧ st.descriptors = []

/-! ### reading the re-emitted documents (what a subscriber of the dispatcher sees) -/

/-- seq_nums of the events emitted by calls with `stream_name = s`, in order -/
def evSeqs (s : String) (docs : List Doc) : List Nat :=
  docs.filterMap fun d => match d with
    | .event _ _ n s' => if s' = s then some n else none
    | _ => none

/-- the `name` of the descriptor document with uid `u` among `docs` -/
def descName (docs : List Doc) (u : Nat) : Option String :=
  match docs.find? (fun d => match d with | .descriptor u' _ _ _ _ => u' == u | _ => false) with
  | some (.descriptor _ _ name _ _) => name
  | _ => none

/-- seq_nums of the events whose descriptor (looked up by uid in `docs`) is named `n` -/
def evSeqsByName (n : String) (docs : List Doc) : List Nat :=
  docs.filterMap fun d => match d with
    | .event _ du k _ => if descName docs du = some n then some k else none
    | _ => none

def hasDescriptorNamed (n : String) (docs : List Doc) : Prop :=
  ∃ u rs s ks, Doc.descriptor u rs (some n) s ks ∈ docs

def hasDescriptorFor (s : String) (docs : List Doc) : Prop :=
  ∃ u rs n ks, Doc.descriptor u rs n s ks ∈ docs

/-- the num_events of the last document if it is a stop document -/
def stopNumEvents (docs : List Doc) : Option (List (String × Nat)) :=
  match docs.getLast? with
  | some (.stop _ _ ne) => some ne
  | _ => none

end BlueskyVerif.LiveDispatcher
