/-
C35 -- value-level ("flow") model of `RunNormalizer`: which documents are emitted for a stream of
input documents.  Transcribes `descriptor`, `event`, `stop`, `datum`, `resource`, the page handlers and
`_convert_datum_to_stream_datum` (tiled_writer.py 242-477); the index arithmetic is the GENERATED one.
Documents are abstracted to what C35 talks about: data keys, values, datum ids, frames, seq_nums, ranges.

Emitted stream datums carry a *ghost* record (never compared with the implementation): the event
reference that caused them, the datum's `frame` and the stream name used for the frame counters.
No Mathlib (loaded by the driver).
-/
import BlueskyVerif.IO.NormalizerGenerated

namespace BlueskyVerif.NormFlow
open BlueskyVerif.Normalizer (reservedKeys frameCounterInit frameNextIndex frameCarryCond frameCarryVal
  framelessRange indicesOf seqNumsOf)

/-- an event value: a number code (any internal value) or a string (datum ids are strings) -/
inductive DVal where
  | num (n : Int)
  | str (s : String)
deriving Repr, DecidableEq, Inhabited

structure Descriptor where
  uid : String
  name : String
  intKeys : List String      -- data keys without an "external" entry (names as received)
  extKeys : List String      -- data keys with an "external" entry
deriving Repr, DecidableEq, Inhabited

structure Datum where
  id : String
  resource : String
  frame : Option Int         -- datum_kwargs.get("frame")
deriving Repr, DecidableEq, Inhabited

structure EventIn where
  desc : String
  seq : Int
  data : List (String × DVal)
  filled : List (String × Bool)
deriving Repr, DecidableEq, Inhabited

structure SDat where
  uid : String
  sres : String
  desc : String
  i0 : Int
  i1 : Int
  s0 : Int
  s1 : Int
deriving Repr, DecidableEq, Inhabited

inductive Doc where
  | start
  | stop
  | descriptor (d : Descriptor)
  | resource (uid : String) (valid : Bool)                 -- valid: has spec/root/resource_path/resource_kwargs
  | streamResource (uid dataKey : String) (valid : Bool)
  | datum (d : Datum)
  | datumPage (ds : List Datum)
  | event (e : EventIn)
  | eventPage (es : List EventIn)
  | streamDatum (sd : SDat)
deriving Repr, Inhabited

/-- `ExternalEventDataReference` -/
structure ExtRef where
  datumId : DVal
  key : String
  desc : String
  seq : Int
deriving Repr, DecidableEq, Inhabited

structure Ghost where
  src : ExtRef
  frame : Option Int
  name : String        -- stream name used for the frame counters ("" when there is no frame)
deriving Repr, DecidableEq, Inhabited

inductive Out where
  | start
  | stop
  | descriptor (uid name : String) (intKeys extKeys : List String)
  | event (desc : String) (seq : Int) (data : List (String × DVal))
  | streamResource (uid dataKey : String)
  | streamDatum (sd : SDat) (g : Option Ghost)
deriving Repr, DecidableEq, Inhabited

structure St where
  intKeys : List String := []                     -- `_int_keys`
  extKeys : List String := []                     -- `_ext_keys`
  descName : List (String × String) := []         -- `_desc_name_by_uid`
  datumCache : List (String × Datum) := []        -- `_datum_cache`
  sresCache : List String := []                   -- keys of `_sres_cache`
  emitted : List String := []                     -- `_emitted`
  extRefs : List ExtRef := []                     -- `_ext_ref_cache`
  nextFrame : List ((String × String) × (Int × Int)) := []   -- `_next_frame_index`: (carry, index)
deriving Repr, Inhabited

/-- result of a handler: new state, emitted documents, exception class if it raised -/
structure Res where
  st : St
  outs : List Out := []
  err : Option String := none
deriving Repr, Inhabited

/-! dictionaries as association lists -/
def alErase {α β} [BEq α] (k : α) (l : List (α × β)) : List (α × β) := l.filter (fun kv => !(kv.1 == k))
def alSet {α β} [BEq α] (k : α) (v : β) (l : List (α × β)) : List (α × β) := (k, v) :: alErase k l

def rename (k : String) : String := if reservedKeys.contains k then "_" ++ k else k
/-- `d["_name"] = d.pop(name)` for the reserved names (the position in the dict is not modelled) -/
def renameAll {β} (l : List (String × β)) : List (String × β) := l.map (fun kv => (rename kv.1, kv.2))

def addKeys (s : List String) (ks : List String) : List String := ks.foldl (fun s k => if s.contains k then s else s ++ [k]) s

/-- `if name in data_keys and f"_{name}" in data_keys: raise ValueError` -/
def descClash (d : Descriptor) : Bool :=
  reservedKeys.any (fun n => (d.intKeys ++ d.extKeys).contains n && (d.intKeys ++ d.extKeys).contains ("_" ++ n))

def handleDescriptor (st : St) (d : Descriptor) : Res :=
  if descClash d then { st := st, err := some "ValueError" } else
  { st := { st with intKeys := addKeys st.intKeys (d.intKeys.map rename), extKeys := addKeys st.extKeys (d.extKeys.map rename),
                    descName := alSet d.uid d.name st.descName },
    outs := [.descriptor d.uid d.name (d.intKeys.map rename) (d.extKeys.map rename)] }

def filledGet (f : List (String × Bool)) (k : String) (dflt : Bool) : Bool := (f.lookup k).getD dflt

/-- `k in event_keys` -/
def inEventKeys (st : St) (filled : List (String × Bool)) (k : String) : Bool :=
  (st.intKeys.contains k && filledGet filled k true) || (st.extKeys.contains k && filledGet filled k false)

/-- `data_key in set(self._ext_keys).difference(event_keys)` -/
def isExtRef (st : St) (filled : List (String × Bool)) (k : String) : Bool :=
  st.extKeys.contains k && !inEventKeys st filled k

/-- `self._datum_cache.pop(datum_id, None)` -/
def popDatum (st : St) (v : DVal) : Option (Datum × St) :=
  match v with
  | .num _ => none
  | .str id =>
    match st.datumCache.lookup id with
    | none => none
    | some d => some (d, { st with datumCache := alErase id st.datumCache })

/-- the index part of `_convert_datum_to_stream_datum`: new state, index_start, index_stop, stream name -/
def convert (st : St) (d : Datum) (ref : ExtRef) : Except String (St × Int × Int × String) :=
  match d.frame with
  | none => let r := framelessRange ref.seq; .ok (st, r.1, r.2, "")
  | some f =>
    match st.descName.lookup ref.desc with
    | none => .error "KeyError"
    | some name =>
      let c := (st.nextFrame.lookup (name, ref.key)).getD frameCounterInit
      let start := c.1 + c.2
      let idx := frameNextIndex f
      let stop := c.1 + idx
      let carry' := if frameCarryCond start stop then frameCarryVal start stop else c.1
      .ok ({ st with nextFrame := alSet (name, ref.key) (carry', idx) st.nextFrame }, start, carry' + idx, name)

/-- convert one datum + emit (stream_resource if not yet emitted for this data key, then stream_datum) -/
def emitRef (st : St) (d : Datum) (ref : ExtRef) (uid : String) : Res :=
  match convert st d ref with
  | .error e => { st := st, err := some e }
  | .ok (st', i0, i1, name) =>
    let newUid := d.resource ++ "-" ++ ref.key
    let sd : SDat := ⟨uid, newUid, ref.desc, (indicesOf i0 i1).1, (indicesOf i0 i1).2, (seqNumsOf i0 i1).1, (seqNumsOf i0 i1).2⟩
    let emitS := st'.sresCache.contains d.resource && !st'.emitted.contains newUid
    { st := { st' with emitted := if emitS then newUid :: st'.emitted else st'.emitted },
      outs := (if emitS then [.streamResource newUid ref.key] else []) ++ [.streamDatum sd (some ⟨ref, d.frame, name⟩)] }

/-- `datum_doc["datum_id"]` of the document found under this key (the cache is keyed by datum_id) -/
def uidOf : DVal → String
  | .str s => s
  | .num _ => ""

/-- sequential composition with exception propagation: what was emitted before the exception stays emitted -/
def Res.andThen (r : Res) (f : St → Res) : Res :=
  match r.err with
  | some _ => r
  | none => let r' := f r.st; { st := r'.st, outs := r.outs ++ r'.outs, err := r'.err }

/-- a Python `for x in xs: body(x)` whose body may raise -/
def seqFold {X : Type} (f : St → X → Res) : St → List X → Res
  | st, [] => { st := st }
  | st, x :: xs => (f st x).andThen (fun st' => seqFold f st' xs)

def mkRef (e : EventIn) (kv : String × DVal) : ExtRef := ⟨kv.2, kv.1, e.desc, e.seq⟩

/-- one iteration of the loop over `doc["data"].items()` in `event` (`st0` = state at entry: the key
    sets and `filled` do not change inside the loop) -/
def eventItem (st0 : St) (filled : List (String × Bool)) (e : EventIn) (st : St) (kv : String × DVal) : Res :=
  if !isExtRef st0 filled kv.1 then { st := st } else
  match popDatum st kv.2 with
  | some (d, st1) => emitRef st1 d (mkRef e kv) (uidOf kv.2)
  | none => { st := { st with extRefs := st.extRefs ++ [mkRef e kv] } }   -- datum not received yet

def handleEvent (st : St) (e : EventIn) : Res :=
  let data := renameAll e.data
  let filled := renameAll e.filled
  let ev : Out := .event e.desc e.seq (data.filter (fun kv => inEventKeys st filled kv.1))
  ({ st := st, outs := [ev] } : Res).andThen (fun s => seqFold (eventItem st filled e) s data)

/-- one iteration of the loop over `_ext_ref_cache` in `stop` -/
def stopItem (st : St) (ref : ExtRef) : Res :=
  match popDatum st ref.datumId with
  | some (d, st1) => emitRef st1 d ref (uidOf ref.datumId)
  | none => { st := st, err := some "RuntimeError" }

def handleStop (st : St) : Res :=
  (seqFold stopItem st st.extRefs).andThen (fun s => { st := s, outs := [.stop] })

def handleDatum (st : St) (d : Datum) : St := { st with datumCache := alSet d.id d st.datumCache }

def step (st : St) : Doc → Res
  | .start => { st := st, outs := [.start] }
  | .stop => handleStop st
  | .descriptor d => handleDescriptor st d
  | .resource uid valid =>
    if !valid then { st := st, err := some "RuntimeError" } else
    { st := { st with sresCache := if st.sresCache.contains uid then st.sresCache else uid :: st.sresCache } }
  | .streamResource uid dk valid =>
    if !valid then { st := st, err := some "RuntimeError" } else { st := st, outs := [.streamResource uid dk] }
  | .datum d => { st := handleDatum st d }
  | .datumPage ds => { st := ds.foldl handleDatum st }
  | .event e => handleEvent st e
  | .eventPage es => seqFold handleEvent st es
  | .streamDatum sd => { st := st, outs := [.streamDatum sd none] }

def runFrom (st : St) (ds : List Doc) : Res := seqFold step st ds

def run (ds : List Doc) : Res := runFrom {} ds

/-! ### what the property talks about -/

/-- events of a stream, pages unpacked -/
def inputEvents : List Doc → List EventIn
  | [] => []
  | .event e :: ds => e :: inputEvents ds
  | .eventPage es :: ds => es ++ inputEvents ds
  | _ :: ds => inputEvents ds

/-- the references to external data in one event, as seen in state `st` -/
def refsOfEvent (st : St) (e : EventIn) : List ExtRef :=
  ((renameAll e.data).filter (fun kv => isExtRef st (renameAll e.filled) kv.1)).map (mkRef e)

def srcOf : Out → List ExtRef
  | .streamDatum _ (some g) => [g.src]
  | _ => []

/-- the event references of the converted stream datums, in emission order -/
def srcs (outs : List Out) : List ExtRef := outs.flatMap srcOf

def eventOf : Out → List (String × Int)
  | .event d s _ => [(d, s)]
  | _ => []

end BlueskyVerif.NormFlow
