/-
C35 -- aliasing model of `RunNormalizer` (src/bluesky/callbacks/tiled_writer.py).

The handlers are interpreted from the GENERATED table (`NormalizerGenerated.lean`: copy function of
each handler, every mutating statement with the path from its root object, cache stores):

  call h doc  =  work := copy.X(doc)                       (X from `copyKind h`; page handlers: the
                                                            unpacked document, then the delegate's copy)
                 then ANY finite sequence of the handler's actions, in any order, any number of times,
                 on any cached document (`Step.pick`) and with any concrete key where the table says "any"

Loops, branches and the choice of cached document are thus over-approximated by a schedule
(`List Step`) that the theorems quantify over.  A root `copyOf k b` is resolved by making the copy at
that point.  Values written by `set` are abstracted to atoms: the extractor refuses sources in which a
later mutation path runs through a location that received a reference from a foreign object, so the
objects that can be *written to* are exactly those the abstract run writes to.
No Mathlib (loaded by the driver).
-/
import BlueskyVerif.IO.NormalizerGenerated

namespace BlueskyVerif.Normalizer

/-- the facts about the source the semantics depends on -/
structure Table where
  copyKind : Handler → Option CopyKind
  delegate : Handler → Option Handler
  actions : Handler → List Action

/-- the table extracted from the current source -/
def generatedTable : Table := ⟨copyKind, delegate, actions⟩

structure NState where
  heap : Heap
  datumCache : List Nat := []
  sresCache : List Nat := []
deriving Repr

def NState.cache (σ : NState) : Cache → List Nat
  | .datum => σ.datumCache
  | .sres => σ.sresCache

def NState.pushCache (σ : NState) (c : Cache) (r : Nat) : NState :=
  match c with
  | .datum => { σ with datumCache := σ.datumCache ++ [r] }
  | .sres => { σ with sresCache := σ.sresCache ++ [r] }

structure Step where
  idx : Nat          -- which entry of the handler's action list
  pick : Nat := 0    -- which cached document a `cached c` root denotes
  key : String := "" -- the concrete key where the table says `any`
deriving Repr

structure Call where
  handler : Handler
  input : Nat
  steps : List Step
deriving Repr

/-- the handler whose body does the work (page handlers delegate) -/
def eff (T : Table) (hd : Handler) : Handler := (T.delegate hd).getD hd

def copyWith (k : CopyKind) (h : Heap) (r : Nat) : Heap × Nat :=
  match k with
  | .shallow => shallowCopy h r
  | .deep => deepCopy h.length h r

/-- page handlers first unpack (`unpack_*_page`: fresh top-level documents; modelled as a shallow
    copy, the worst case for sharing) -/
def pagePart (T : Table) (h : Heap) (hd : Handler) (input : Nat) : Heap × Nat :=
  match T.delegate hd with
  | some _ => shallowCopy h input
  | none => (h, input)

/-- `doc = copy.X(doc)`: returns the heap, the document the body sees as its input, the working copy -/
def copyPart (T : Table) (hd : Handler) (p : Heap × Nat) : Heap × Nat × Nat :=
  match T.copyKind (eff T hd) with
  | some k => let c := copyWith k p.1 p.2; (c.1, p.2, c.2)
  | none => (p.1, p.2, p.2)

/-- first statement(s) of a call -/
def prologue (T : Table) (h : Heap) (hd : Handler) (input : Nat) : Heap × Nat × Nat :=
  copyPart T hd (pagePart T h hd input)

def resolveBase (σ : NState) (inp work : Nat) (pick : Nat) : Base → Option Nat
  | .input => some inp
  | .work => some work
  | .cached c => (σ.cache c)[pick]?

def resolveRoot (σ : NState) (inp work : Nat) (pick : Nat) : Root → NState × Option Nat
  | .base b => (σ, resolveBase σ inp work pick b)
  | .copyOf k b =>
    match resolveBase σ inp work pick b with
    | none => (σ, none)
    | some r => let (h', r') := copyWith k σ.heap r; ({ σ with heap := h' }, some r')

def selKey (s : Sel) (dflt : String) : String :=
  match s with
  | .key k => k
  | .any => dflt

def applyOp (op : OpKind) (k : String) (o : Obj) : Obj :=
  match op with
  | .pop => o.pop k
  | .set => o.setAtom k 0

def writeAll (h : Heap) (ts : List Nat) (f : Obj → Obj) : Heap := ts.foldl (fun h t => writeAt h t f) h

def doMut (σ : NState) (inp work : Nat) (m : Mut) (st : Step) : NState :=
  match resolveRoot σ inp work st.pick m.root with
  | (σ1, none) => σ1
  | (σ1, some r) =>
    { σ1 with heap := writeAll σ1.heap (followAll σ1.heap [r] m.path) (applyOp m.op (selKey m.key st.key)) }

def doAction (σ : NState) (inp work : Nat) (a : Action) (st : Step) : NState :=
  match a with
  | .mutate m => doMut σ inp work m st
  | .store c => σ.pushCache c work

def doStep (T : Table) (hd : Handler) (inp work : Nat) (σ : NState) (st : Step) : NState :=
  match (T.actions (eff T hd))[st.idx]? with
  | none => σ
  | some a => doAction σ inp work a st

def call (T : Table) (σ : NState) (c : Call) : NState :=
  let p := prologue T σ.heap c.handler c.input
  c.steps.foldl (doStep T c.handler p.2.1 p.2.2) { σ with heap := p.1 }

def run (T : Table) (σ : NState) (cs : List Call) : NState := cs.foldl (call T) σ

/-! ### the decidable safety criterion on the generated table -/

/-- the working copy and everything reachable from it is freshly allocated -/
def workDeep (T : Table) (hd : Handler) : Bool := T.copyKind (eff T hd) == some .deep
/-- the working copy's top-level object is freshly allocated -/
def workTop (T : Table) (hd : Handler) : Bool := (T.copyKind (eff T hd)).isSome

def storesIn (T : Table) (hd : Handler) (c : Cache) : Bool := (T.actions (eff T hd)).any (fun a => a == .store c)

def cacheDeep (T : Table) (c : Cache) : Bool := Handler.all.all (fun hd => !storesIn T hd c || workDeep T hd)
def cacheTop (T : Table) (c : Cache) : Bool := Handler.all.all (fun hd => !storesIn T hd c || workTop T hd)

def baseDeep (T : Table) (hd : Handler) : Base → Bool
  | .input => false
  | .work => workDeep T hd
  | .cached c => cacheDeep T c

def baseTop (T : Table) (hd : Handler) : Base → Bool
  | .input => false
  | .work => workTop T hd
  | .cached c => cacheTop T c

/-- a mutation is harmless for the caller's documents when the mutated object is owned by the
    normalizer: it deep-copied, or the object is the freshly copied top level -/
def mutSafe (T : Table) (hd : Handler) (m : Mut) : Bool :=
  match m.root with
  | .base b => if m.path.isEmpty then baseTop T hd b else baseDeep T hd b
  | .copyOf .deep _ => true
  | .copyOf .shallow b => m.path.isEmpty || baseDeep T hd b

def actionSafe (T : Table) (hd : Handler) : Action → Bool
  | .mutate m => mutSafe T hd m
  | .store _ => true

def Table.safe (T : Table) : Bool := Handler.all.all (fun hd => (T.actions (eff T hd)).all (actionSafe T hd))

/-- objects reachable from `r` (used to state the property on *nested* dictionaries) -/
inductive Reach (h : Heap) : Nat → Nat → Prop where
  | refl (r : Nat) : Reach h r r
  | step {a b c : Nat} : Reach h a b → c ∈ refsOf (hget h b) → Reach h a c

end BlueskyVerif.Normalizer
