import BlueskyVerif.Gen.Driver
import BlueskyVerif.Gen.Wrappers
open Lean BlueskyVerif.Driver BlueskyVerif.Gen BlueskyVerif.Gen.Driver

def jPending : Pending Val Exc → List Json
  | .ret v => [Json.str "ret", jVal v]
  | .exc e => [Json.str "exc", Json.str (excClsName e.cls), jNat e.tag]

def jEv : Ev Val Exc → Json
  | .bodyEnd o => Json.arr (Json.str "bodyEnd" :: jPending o).toArray
  | .pauseStart => Json.arr #[Json.str "pauseStart"]
  | .pauseEnd o => Json.arr (Json.str "pauseEnd" :: jPending o).toArray
  | .exceptStart e => Json.arr #[Json.str "exceptStart", Json.str (excClsName e.cls), jNat e.tag]
  | .exceptEnd o => Json.arr (Json.str "exceptEnd" :: jPending o).toArray
  | .elseStart => Json.arr #[Json.str "elseStart"]
  | .elseEnd o => Json.arr (Json.str "elseEnd" :: jPending o).toArray
  | .finalStart => Json.arr #[Json.str "finalStart"]
  | .finalEnd o => Json.arr (Json.str "finalEnd" :: jPending o).toArray

def optPlan (j : Json) (k : String) (path : List Nat) : Except String (Option (Beh Msg Val Val Exc)) :=
  match getObj j k with
  | Json.null => pure none
  | a => do pure (some (interp path (← parsePlan a)))

/-- the `pause()` plan: `return (yield Msg('pause', None, defer=False))`, payload 777 -/
def pausePlan : Beh Msg Val Val Exc := Beh.single ⟨[6], 777⟩

/-- the state of the wrapper machine after the inputs of the script that reach the body
    (mirrors `Pos.resume`: a fresh generator only starts on `send None`) -/
def logAfter (cfg : TryCfg Msg Val Val Exc) (plan : Beh Msg Val Val Exc)
    (script : List (Cmd Val Exc)) : List (Ev Val Exc) :=
  let rec go (p : Pos Msg Val Val Exc) : List (Cmd Val Exc) → Pos Msg Val Val Exc
    | [] => p
    | c :: cs => go (p.exec c).2 cs
  let p := go (Pos.new (tryWrap cfg plan)) script
  (Machine.state (tryStep cfg plan) ⟨.init, []⟩ p.hist).log

/-- request: {"wrapper", "plan", "final", "except", "else", "pause", "auto_raise", "scripts"}
    reply: {"traces": [...], "logs": [...]} -/
def handle (j : Json) : Json :=
  let r : Except String Json := do
    let plan ← parsePlan (getObj j "plan")
    let scripts ← (getArr j "scripts").mapM parseScript
    let final ← optPlan j "final" [3]
    let exc ← optPlan j "except" [4]
    let els ← optPlan j "else" [5]
    let p := interp [0] plan
    let pause := getBool j "pause"
    let cfg : Option (TryCfg Msg Val Val Exc) :=
      match getStr j "wrapper", final with
      | "finalize_wrapper", some f =>
        some { clauses := Generated.fwClauses, pausePlan := if pause then some pausePlan else none,
               exceptPlan := none, autoRaise := true, elsePlan := none, finalPlan := some f }
      | "finalize_decorator", some f =>
        some { clauses := Generated.fdClauses, pausePlan := none, exceptPlan := none,
               autoRaise := true, elsePlan := none, finalPlan := some f }
      | "contingency_wrapper", f =>
        some { clauses := Generated.cwClauses, pausePlan := if pause then some pausePlan else none,
               exceptPlan := exc.map (fun b _ => b), autoRaise := getBool j "auto_raise" true,
               elsePlan := els, finalPlan := f }
      | _, _ => none
    match cfg with
    | none => throw "bad wrapper"
    | some cfg =>
      pure (Json.mkObj [("traces", jList (fun s => jTrace (run (tryWrap cfg p) s)) scripts),
                        ("logs", jList (fun s => jList jEv (logAfter cfg p s)) scripts)])
  match r with
  | .ok j => j
  | .error e => jErr e

def main : IO Unit := serve handle
