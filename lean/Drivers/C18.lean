import BlueskyVerif.Disp.DriverCore
open BlueskyVerif.Driver BlueskyVerif.Disp.DriverCore

def main : IO Unit := serve handle
