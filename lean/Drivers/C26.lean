import BlueskyVerif.Util.DriverLib
import BlueskyVerif.Pure.Snake
import BlueskyVerif.Pure.Patterns
open Lean BlueskyVerif.Driver BlueskyVerif.Pure.Snake BlueskyVerif.Pure.Patterns

/-- cyclers whose labels are the row indices 0..L-1 -/
def labelCyclers (lengths : List Nat) : List (List Nat) := lengths.map List.range

def resJson : Res Nat → Json
  | .valueError => Json.mkObj [("res", "ValueError")]
  | .typeError => Json.mkObj [("res", "TypeError")]
  | .ok pts => Json.mkObj [("res", "ok"), ("points", jList (jList jNat) pts)]

def getBoolList (j : Json) (k : String) : List Bool :=
  (getArr j k).map fun x => match x with | Json.bool b => b | _ => false

def snakeAxesOf (j : Json) : SnakeAxes :=
  match j.getObjVal? "snake_axes" with
  | .ok (Json.bool true) => .all
  | .ok (Json.arr a) => .these (a.toList.map asNat)
  | _ => .off

def handle (j : Json) : Json :=
  let lengths := getNatList j "lengths"
  match getStr j "fn" with
  | "snake_cyclers" => resJson (snakeCyclers (labelCyclers lengths) (getBoolList j "flags"))
  | "outer_list_product" => resJson (outerListProduct (labelCyclers lengths) (snakeAxesOf j))
  | "outer_product" =>
    let snakes : Option (List Bool) :=
      match j.getObjVal? "snakes" with
      | .ok (Json.arr _) => some (getBoolList j "snakes")
      | _ => none
    resJson (snakeCyclers (labelCyclers lengths) (outerProductFlags lengths.length snakes))
  | _ => Json.mkObj [("error", "bad-fn")]

def main : IO Unit := serve handle
