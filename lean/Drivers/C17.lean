import BlueskyVerif.Util.DriverLib
import BlueskyVerif.Pure.Metadata
open Lean BlueskyVerif.Driver BlueskyVerif.Metadata

def valOf (j : Json) : Val :=
  match j with
  | .str s => .str s
  | .num _ => match j.getInt? with
    | .ok i => .int i
    | .error _ => .other j.compress
  | .obj _ => match j.getObjVal? "json" with
    | .ok (.str s) => .other s
    | _ => .other j.compress
  | _ => .other j.compress

def dictOf (j : Json) : Dict :=
  match j with
  | .obj kvs => kvs.toList.map (fun p => (p.1, valOf p.2))
  | _ => []

def valJson : Val → Json
  | .int i => jInt i
  | .str s => Json.str s
  | .other s => Json.mkObj [("json", Json.str s)]

def dictJson (d : Dict) : Json := Json.mkObj (d.map fun p => (p.1, valJson p.2))

def del (d : Dict) (k : String) : Dict := d.filter (fun p => p.1 != k)

/-- the named validators of the harness; `true` = accepts -/
def validatorOf (j : Json) : Dict → Bool :=
  match j with
  | .str "accept" => fun _ => true
  | .str "reject" => fun _ => false
  | .str "default" => fun m =>      -- bluesky's _default_md_validator
    match get? m "sample" with
    | none => true
    | some (.str _) => true
    | some (.other s) => s.toList.head? == some '{'
    | some (.int _) => false
  | .arr a =>
    match a.toList with
    | [.str "reject_if_has", .str k] => fun m => (get? m k).isNone
    | [.str "reject_if_scan_id_ge", n] => fun m =>
      match get? m "scan_id" with
      | some (.int i) => decide (i < asInt n)
      | _ => true
    | _ => fun _ => true
  | _ => fun _ => true

/-- the named normalizers of the harness; `none` = raises -/
def normalizerOf (j : Json) : Dict → Option Dict :=
  match j with
  | .str "identity" => some
  | .str "raise" => fun _ => none
  | .str "upper" => fun m => some (m.map fun p => (p.1.toUpper, p.2))
  | .arr a =>
    match a.toList with
    | [.str "drop", .str k] => fun m => some (del m k)
    | [.str "set", .str k, v] => fun m => some (set m k (valOf v))
    | _ => some
  | _ => some

def outcomeJson : Outcome → Json
  | .illegalSequence => Json.mkObj [("o", "illegalSequence")]
  | .scanIdError => Json.mkObj [("o", "scanIdError")]
  | .rejected => Json.mkObj [("o", "rejected")]
  | .normalizerError => Json.mkObj [("o", "normalizerError")]
  | .composeError => Json.mkObj [("o", "composeError")]
  | .started sid doc => Json.mkObj [("o", "started"), ("sid", jInt sid), ("doc", dictJson doc)]

def handle (j : Json) : Json :=
  let st0 : St := { md := dictOf (getObj j "md") }
  let rec calls (st : St) (cs : List Json) (acc : Array Json) : St × Array Json :=
    match cs with
    | [] => (st, acc)
    | c :: rest =>
      let kw := dictOf (getObj c "kw")
      let rec runs (st : St) (rs : List Json) (acc : Array Json) : St × Array Json :=
        match rs with
        | [] => (st, acc)
        | r :: more =>
          let a : Attempt := { callKw := kw, openKw := dictOf (getObj r "open"), planType := getStr c "plan_type",
                               planName := getStr c "plan_name", validator := validatorOf (getObj r "validator"),
                               normalizer := normalizerOf (getObj r "normalizer") }
          let res := attempt st a
          let entry := (outcomeJson res.2).setObjVal! "md" (dictJson res.1.md)
          -- a plan given as a list of messages does not survive a failing open_run
          let stop := getBool c "stop_on_error" && (match res.2 with | .started _ _ => false | _ => true)
          if stop then (res.1, acc.push entry) else runs res.1 more (acc.push entry)
      let (st1, acc1) := runs st (getArr c "runs") acc
      calls { st1 with registered := false } rest acc1
  let (st, acc) := calls st0 (getArr j "calls") #[]
  Json.mkObj [("attempts", Json.arr acc), ("final_md", dictJson st.md)]

def main : IO Unit := serve handle
