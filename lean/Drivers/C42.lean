import BlueskyVerif.Util.DriverLib
import BlueskyVerif.Engine.TracingGenerated
open Lean BlueskyVerif.Driver BlueskyVerif.Engine.Tracing

/-- exit-status values travel as JSON: null = None, "" = empty, "other:<n>" = any other string -/
def statusOfJson : Json → Status
  | Json.null => .pyNone
  | Json.str "success" => .success
  | Json.str "abort" => .abort
  | Json.str "fail" => .fail
  | Json.str "aborted" => .aborted
  | Json.str "" => .empty
  | Json.str s => .other ((s.drop 6).toNat?.getD 0)
  | _ => .other 0

def statusToJson : Status → Json
  | .success => "success"
  | .abort => "abort"
  | .fail => "fail"
  | .aborted => "aborted"
  | .pyNone => Json.null
  | .empty => ""
  | .other n => Json.str s!"other:{n}"

def opOfJson (j : Json) : Option Op :=
  match getStr j "op" with
  | "open" => some (.openRun (getNat j "key") (getBool j "ok" true))
  | "close" =>
    let kw := if getBool j "absent" then Kw.absent else Kw.given (statusOfJson (getObj j "es"))
    some (.closeRun (getNat j "key") kw)
  | "abort" => some .abort
  | "halt" => some (.halt (getBool j "paused"))
  | "call_end" => some (.callEnd (statusOfJson (getObj j "es")))
  | "call_begin" => some .callBegin
  | _ => none

def pairJson (x : Nat × Status) : Json := Json.arr #[jNat x.1, statusToJson x.2]

def handle (j : Json) : Json :=
  let raw := getArr j "ops"
  let ops := raw.filterMap opOfJson
  if ops.length != raw.length then Json.mkObj [("error", "bad-op")] else
  let s := run facts ops
  let n := s.next
  Json.mkObj [
    ("accepted", jList (fun i => Json.bool (s.opened.contains i)) (List.range n)),
    ("ended", jList pairJson s.ended.reverse),
    ("stops", jList pairJson s.stops.reverse),
    ("stack", jList jNat s.spans.reverse),
    ("open", jList jNat (ids s.runs).reverse),
    ("first_hazard", match firstHazardFrom facts {} 0 ops with
                     | none => Json.null
                     | some i => jNat i)]

def main : IO Unit := serve handle
