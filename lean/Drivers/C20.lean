import BlueskyVerif.Gen.Driver
import BlueskyVerif.Gen.Mutators
open Lean BlueskyVerif.Driver BlueskyVerif.Gen BlueskyVerif.Gen.Driver

def wrapperOf (p : Beh Msg Val Val Exc) : String → Option (Beh Msg Val Val Exc)
  | "bare" => some p
  | "msg_mutator" => some (msgMutator driverFuel some p)
  | "plan_mutator" => some (planMutator driverFuel Msg.ident Proc.nothing p)
  | _ => none

/-- request: {"plan": AST, "scripts": [script...], "wrappers": ["bare"|"msg_mutator"|"plan_mutator"...]}
    reply: {"traces": [[trace per script] per wrapper]} -/
def handle (j : Json) : Json :=
  match parsePlan (getObj j "plan"), (getArr j "scripts").mapM parseScript with
  | .error e, _ => jErr e
  | _, .error e => jErr e
  | .ok plan, .ok scripts =>
    let p := interp [0] plan
    let per (w : Json) : Json :=
      match wrapperOf p (asStr w) with
      | none => jErr "bad wrapper"
      | some b => jList (fun s => jTrace (run b s)) scripts
    Json.mkObj [("traces", jList per (getArr j "wrappers"))]

def main : IO Unit := serve handle
