import BlueskyVerif.Util.DriverLib
import BlueskyVerif.IO.PersistentDict
open Lean BlueskyVerif.Driver BlueskyVerif.PersistentDict

/-- values: a JSON string is an atom (canonical text of a leaf), {"l":[..]} a list, {"t":[..]} a tuple,
    {"d":[[k,v],..]} a dict -/
instance : Inhabited PVal := ⟨.atom "?"⟩

partial def pvalOf (j : Json) : PVal :=
  match j with
  | Json.str s => .atom s
  | _ =>
    match j.getObjVal? "l" with
    | .ok (Json.arr a) => .list (a.toList.map pvalOf)
    | _ =>
      match j.getObjVal? "t" with
      | .ok (Json.arr a) => .tuple (a.toList.map pvalOf)
      | _ =>
        match j.getObjVal? "d" with
        | .ok (Json.arr a) => .dict (a.toList.map fun kv =>
            match kv with
            | Json.arr #[Json.str k, v] => (k, pvalOf v)
            | _ => ("?", .atom "?"))
        | _ => .atom "?"

partial def pvalJson : PVal → Json
  | .atom s => Json.str s
  | .list xs => Json.mkObj [("l", Json.arr (xs.map pvalJson).toArray)]
  | .tuple xs => Json.mkObj [("t", Json.arr (xs.map pvalJson).toArray)]
  | .dict kvs => Json.mkObj [("d", Json.arr (kvs.map fun kv => Json.arr #[Json.str kv.1, pvalJson kv.2]).toArray)]

def strList (j : Json) (k : String) : List String := (getArr j k).map asStr

def opOf (j : Json) : Op String PVal :=
  let k := getStr j "k"
  let v := pvalOf (getObj j "v")
  match getStr j "op" with
  | "set" => .set k v
  | "del" => .del k
  | "pop" => .pop k (match j.getObjVal? "default" with | .ok d => some (pvalOf d) | .error _ => none)
  | "popitem" => .popitem
  | "setdefault" => .setdefault k v
  | "update" => .update ((getArr j "kvs").map fun kv =>
      match kv with
      | Json.arr #[Json.str k, v] => (k, pvalOf v)
      | _ => ("?", .atom "?"))
  | "clear" => .clear
  | "flush" => .flush
  | "reload" => .reload
  | "mutate" => .mutate k v
  | "gc_reopen" => .gcReopen (strList j "order")
  | "crash_reopen" => .crashReopen (strList j "order")
  | _ => .flush

def retJson : Ret String PVal → Json
  | .none => Json.null
  | .val v => Json.mkObj [("val", pvalJson v)]
  | .item k v => Json.mkObj [("item", Json.arr #[Json.str k, pvalJson v])]
  | .keyError => Json.str "KeyError"

def contentJson (st : St String PVal PVal) : Json :=
  Json.arr (st.cache.map fun kv => Json.arr #[Json.str kv.1, pvalJson kv.2]).toArray

def isSync : Op String PVal → Bool
  | .reload | .gcReopen _ | .crashReopen _ => true
  | _ => false

def go (st : St String PVal PVal) : List (Op String PVal) → List Json → St String PVal PVal × List Json
  | [], acc => (st, acc.reverse)
  | op :: ops, acc =>
    let r := step pvalCodec st op
    let base := [("ret", retJson r.2), ("keys", jList Json.str (keysOf r.1.cache))]
    let o := if isSync op then Json.mkObj (base ++ [("content", contentJson r.1)]) else Json.mkObj base
    go r.1 ops (o :: acc)

def handle (j : Json) : Json :=
  let ops := (getArr j "ops").map opOf
  let r := go init ops []
  Json.mkObj [("steps", Json.arr r.2.toArray), ("final", contentJson r.1)]

def main : IO Unit := serve handle
