import BlueskyVerif.Util.DriverLib
import BlueskyVerif.IO.Zmq
open Lean BlueskyVerif.Driver BlueskyVerif.Zmq

def hexVal (c : Char) : Nat :=
  if '0' ≤ c && c ≤ '9' then c.toNat - '0'.toNat
  else if 'a' ≤ c && c ≤ 'f' then c.toNat - 'a'.toNat + 10
  else 0

def unhexL : List Char → Bytes
  | a :: b :: r => (hexVal a * 16 + hexVal b) :: unhexL r
  | _ => []

def unhex (s : String) : Bytes := unhexL s.toList

def hexDigit (n : Nat) : Char := if n < 10 then Char.ofNat (n + 48) else Char.ofNat (n - 10 + 97)
def hex (b : Bytes) : String := String.ofList (b.flatMap fun x => [hexDigit (x / 16), hexDigit (x % 16)])

/-- the deserializer, tabulated by the harness with the REAL deserializer on the payloads of this case:
    key of the document, or null when it raised.  A payload outside the table is answered with a
    marker that can never agree with the implementation. -/
def mkLoads (tbl : List (Bytes × Option String)) (b : Bytes) : Option String :=
  match tbl.lookup b with
  | some r => r
  | none => some "?payload-not-tabulated"

def stageName : Stage → String
  | .split => "split" | .decode => "decode" | .lookup => "lookup" | .deser => "deser"

def handle (j : Json) : Json :=
  match getStr j "op" with
  | "utf8" => Json.mkObj [("valid", Json.bool (validUtf8 (unhex (getStr j "name"))))]
  | "split" =>
    let msg := unhex (getStr j "msg")
    Json.mkObj [("parts", match split3 msg with
      | none => Json.null
      | some (a, b, c) => jList (fun x => Json.str (hex x)) [a, b, c]),
      ("spec", match specSplit3 msg with
      | none => Json.null
      | some (a, b, c) => jList (fun x => Json.str (hex x)) [a, b, c])]
  | _ =>
    let pubs := (getArr j "pubs").map fun p => unhex (asStr p)
    let pubRes := pubs.map fun p => (mkPublisher p (fun (b : Bytes) => b)).isSome
    let frames : List Bytes := (getArr j "sends").map fun s =>
      match getStr s "k" with
      | "pub" => frame (pubs.getD (getNat s "p") []) (unhex (getStr s "name")) (unhex (getStr s "payload"))
      | _ => unhex (getStr s "hex")
    let tbl : List (Bytes × Option String) := (getArr j "loads").map fun e =>
      match asArr e with
      | [p, Json.str k] => (unhex (asStr p), some k)
      | [p, _] => (unhex (asStr p), none)
      | _ => ([], none)
    let d := getObj j "disp"
    let base : List (String × Json) := [("pubs", jList (fun b => Json.str (if b then "ok" else "ValueError")) pubRes),
                 ("frames", jList (fun x => Json.str (hex x)) frames)]
    match mkDispatcher (unhex (getStr d "prefix")) (getBool d "strict") (mkLoads tbl) with
    | none => Json.mkObj (base ++ [("disp", Json.str "ValueError")])
    | some cfg =>
      let o := poll cfg frames
      let ending := match o.ending with
        | .waiting => "waiting" | .decodeError _ => "decodeError" | .crashed _ => "crashed"
      let stage := match o.ending with
        | .waiting => "" | .decodeError s => stageName s | .crashed s => stageName s
      Json.mkObj (base ++ [("disp", Json.str "ok"),
        ("delivered", jList (fun (nd : Bytes × String) => Json.arr #[Json.str (hex nd.1), Json.str nd.2]) o.delivered),
        ("ending", Json.str ending), ("stage", Json.str stage), ("consumed", jNat o.consumed)])

def main : IO Unit := serve handle
