import BlueskyVerif.Util.DriverLib
import BlueskyVerif.Engine.Replay
open Lean BlueskyVerif.Driver BlueskyVerif.Replay

/-!
Driver for the small replay model of C03.
  {"op":"trace","devices":[{name,kind,offset}],"steps":[{"k":"set","dev":d,"v":n} | {"k":"bundle","stream":s,"objs":[..]}
        | {"k":"checkpoint"} | {"k":"rewind","nonempty":b}]}          -> {"events":[[stream,seq,[[dev,value],..]],..]}
  {"op":"safe","devices":[..],"K":[set/bundle steps],"posT":{dev:n},"posC":{dev:n}}   -> {"safe":bool}
-/

def parseDevs (j : Json) : List FakeDev :=
  (getArr j "devices").map (fun d => { name := getStr d "name", kind := getStr d "kind", offset := getInt d "offset" })

def parseRMsg (j : Json) : RMsg :=
  match getStr j "k" with
  | "set" => .set (getStr j "dev") (getInt j "v")
  | "bundle" => .bundle (getStr j "stream") ((getArr j "objs").map asStr)
  | _ => .other

def parseStep (j : Json) : RStep :=
  match getStr j "k" with
  | "checkpoint" => .checkpoint
  | "rewind" => .rewind (getBool j "nonempty")
  | _ => .msg (parseRMsg j)

def posOfJson (j : Json) : Pos := fun d => getInt j d

def jEvent (e : REvent) : Json :=
  Json.arr #[Json.str e.stream, jNat e.seq, jList (fun (p : Dev × Int) => Json.arr #[Json.str p.1, jInt p.2]) e.data]

def handle (j : Json) : Json :=
  let D := fakeDevices (parseDevs j)
  match getStr j "op" with
  | "trace" =>
    let t0 : TState := { pos := fun _ => 0, seq := fun _ => 1, seqCopy := fun _ => 1 }
    let r := execTrace D t0 ((getArr j "steps").map parseStep)
    Json.mkObj [("events", jList jEvent r.2)]
  | "safe" =>
    let K := (getArr j "K").map parseRMsg
    Json.mkObj [("safe", Json.bool (replaySafeB D (posOfJson (getObj j "posT")) (posOfJson (getObj j "posC")) [] K))]
  | _ => Json.mkObj [("error", "bad-op")]

def main : IO Unit := serve handle
