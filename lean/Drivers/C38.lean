import BlueskyVerif.Util.DriverLib
import BlueskyVerif.Pure.Truncate
open Lean BlueskyVerif.Driver BlueskyVerif.Truncate

def npIntOf : String → Option NpInt
  | "int8" => some .i8 | "int16" => some .i16 | "int32" => some .i32 | "int64" => some .i64
  | "uint8" => some .u8 | "uint16" => some .u16 | "uint32" => some .u32 | "uint64" => some .u64
  | _ => none

def npIntName : NpInt → String
  | .i8 => "int8" | .i16 => "int16" | .i32 => "int32" | .i64 => "int64"
  | .u8 => "uint8" | .u16 => "uint16" | .u32 => "uint32" | .u64 => "uint64"

def fltOf : String → Option FltTy
  | "float" => some .py | "float16" => some .f16 | "float32" => some .f32 | "float64" => some .f64
  | _ => none

def fltName : FltTy → String
  | .py => "float" | .f16 => "float16" | .f32 => "float32" | .f64 => "float64"

def parseNum (s : String) : Option Num :=
  match s with
  | "inf" => some .posInf
  | "-inf" => some .negInf
  | "nan" => some .nan
  | _ =>
    match s.splitOn "/" with
    | [a, b] =>
      match a.toInt?, b.toNat? with
      | some n, some d => if d = 0 then none else some (.fin (mkRat n d))
      | _, _ => none
    | _ => none

def parseLeaf (j : Json) : Option Scalar :=
  let t := getStr j "t"
  let v := getStr j "v"
  match t with
  | "str" => some (.str false v)
  | "npstr" => some (.str true v)
  | "none" => some .none
  | "int" => v.toInt?.map (.int .py)
  | "bool" => v.toInt?.map (.int .bool)
  | "npbool" => v.toInt?.map (.int .npBool)
  | _ =>
    match npIntOf t with
    | some k => v.toInt?.map (.int (.np k))
    | none =>
      match fltOf t with
      | some k => (parseNum v).map (.flt k)
      | none => none

partial def parseVal (j : Json) : Option Val :=
  let t := getStr j "t"
  match t with
  | "map" =>
    (getArr j "items").foldr (fun e acc =>
      match acc, e with
      | some es, Json.arr a =>
        if a.size = 2 then
          match parseVal a[1]! with
          | some v => some ((asStr a[0]!, v) :: es)
          | none => none
        else none
      | _, _ => none) (some []) |>.map Val.map
  | "list" | "tuple" | "ndarray" =>
    let k : SeqTy := if t = "list" then .list else if t = "tuple" then .tuple else .ndarray
    (getArr j "items").foldr (fun e acc =>
      match acc, parseVal e with
      | some xs, some v => some (v :: xs)
      | _, _ => none) (some []) |>.map (Val.seq k)
  | "arr0" => (parseLeaf (getObj j "v")).map Val.arr0
  | _ => (parseLeaf j).map Val.leaf

def numStr : Num → String
  | .fin q => s!"{q.num}/{q.den}"
  | .posInf => "inf"
  | .negInf => "-inf"
  | .nan => "nan"

def leafJson : Scalar → Json
  | .str np s => Json.mkObj [("t", if np then "npstr" else "str"), ("v", s)]
  | .none => Json.mkObj [("t", "none")]
  | .int t n =>
    let name := match t with
      | .py => "int" | .bool => "bool" | .npBool => "npbool" | .np k => npIntName k
    Json.mkObj [("t", name), ("v", toString n)]
  | .flt t x => Json.mkObj [("t", fltName t), ("v", numStr x)]

partial def valJson : Val → Json
  | .leaf s => leafJson s
  | .arr0 s => Json.mkObj [("t", "arr0"), ("v", leafJson s)]
  | .seq t xs =>
    let name := match t with
      | .list => "list" | .tuple => "tuple" | .ndarray => "ndarray"
    Json.mkObj [("t", name), ("items", Json.arr (xs.map valJson).toArray)]
  | .map es => Json.mkObj [("t", "map"), ("items", Json.arr (es.map fun (k, v) => Json.arr #[Json.str k, valJson v]).toArray)]

def handle (j : Json) : Json :=
  match parseVal j with
  | none => Json.mkObj [("error", "bad-case")]
  | some v => valJson (trunc v)

def main : IO Unit := serve handle
