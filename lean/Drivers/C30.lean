import BlueskyVerif.Util.DriverLib
import BlueskyVerif.Suspender.Model
open Lean BlueskyVerif.Driver BlueskyVerif.Suspender

def clsOf : String → Option Cls
  | "SuspendBoolHigh" => some .suspendBoolHigh
  | "SuspendBoolLow" => some .suspendBoolLow
  | "SuspendFloor" => some .suspendFloor
  | "SuspendCeil" => some .suspendCeil
  | "SuspendWhenOutsideBand" => some .suspendWhenOutsideBand
  | "SuspendInBand" => some .suspendInBand
  | "SuspendOutBand" => some .suspendOutBand
  | "SuspendWhenChanged" => some .suspendWhenChanged
  | _ => none

def handle (j : Json) : Json :=
  match clsOf (getStr j "cls") with
  | none => Json.mkObj [("error", "bad-class")]
  | some c =>
    let a : Args := { suspend := getInt j "suspend", resume := getInt? j "resume", bot := getInt j "bot",
                      top := getInt j "top", expected := getInt? j "expected", allow := getBool j "allow",
                      signal := getInt j "signal" }
    let p := construct a
    if !valid c p then Json.mkObj [("ctor", "ValueError")] else
    let stored : Json :=
      match c with
      | .suspendFloor | .suspendCeil => Json.mkObj [("suspend", jInt p.suspendThresh), ("resume", jInt p.resumeThresh)]
      | .suspendWhenChanged => Json.mkObj [("expected", jInt p.expected), ("allow", Json.bool p.allowResume)]
      | .suspendWhenOutsideBand | .suspendInBand | .suspendOutBand => Json.mkObj [("bot", jInt p.bot), ("top", jInt p.top)]
      | _ => Json.mkObj []
    Json.mkObj [("ctor", "ok"), ("stored", stored),
                ("flags", jList Json.bool (flagsFrom c p false (getIntList j "values")))]

def main : IO Unit := serve handle
