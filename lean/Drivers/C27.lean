import BlueskyVerif.Util.DriverLib
import BlueskyVerif.Pure.Spiral
import BlueskyVerif.Pure.SpiralSquare
open Lean BlueskyVerif.Driver BlueskyVerif.Pure.Spiral BlueskyVerif.Pure.SpiralSquare

/-- "num/den" or "num" -> Rat -/
def parseRat (s : String) : Rat :=
  match s.splitOn "/" with
  | [n] => (n.toInt?.getD 0 : Int)
  | [n, d] => mkRat (n.toInt?.getD 0) (d.toNat?.getD 1)
  | _ => 0

def showRat (q : Rat) : String := s!"{q.num}/{q.den}"
def jRat (q : Rat) : Json := Json.str (showRat q)
def getRat (j : Json) (k : String) : Rat := parseRat (getStr j k "0")
def getRat? (j : Json) (k : String) : Option Rat :=
  match j.getObjVal? k with
  | .ok (Json.str s) => some (parseRat s)
  | _ => none

def handleSquare (j : Json) : Json :=
  let x := getInt j "x_num"
  let y := getInt j "y_num"
  if raisesZeroDivision x y then Json.mkObj [("error", "ZeroDivisionError")] else
  let idx := spiralIdx x y
  let cx := getRat j "xc"; let rx := getRat j "xr"; let cy := getRat j "yc"; let ry := getRat j "yr"
  Json.mkObj [
    ("idx", jList (fun p : Pt => Json.arr #[jInt p.1, jInt p.2]) idx),
    ("grid", jList (fun p : Pt => let g := gridIdx x y p; Json.arr #[jInt g.1, jInt g.2]) idx),
    ("coords", if getBool j "coords" then
        jList (fun p : Pt => Json.arr #[jRat (coordX cx rx x p.1), jRat (coordY cy ry y p.2)]) idx
      else Json.null)]

def handleSpiral (k : Kind) (j : Json) : Json :=
  let p : Params := { xStart := getRat j "x_start", yStart := getRat j "y_start", xRange := getRat j "x_range",
                      yRange := getRat j "y_range", dr := getRat j "dr", drY := getRat? j "dr_y",
                      tiltTan := getRat j "tilt_tan" }
  let cands : List (Rat × Rat) := (getArr j "cands").map (fun c =>
    match c with
    | Json.arr #[Json.str a, Json.str b] => (parseRat a, parseRat b)
    | _ => (0, 0))
  let pts := points k p cands
  if pts.isEmpty then Json.mkObj [("error", "StopIteration"), ("accepted", Json.arr #[])] else
  Json.mkObj [("accepted", jList jNat (acceptedIdx k p cands)),
              ("points", jList (fun q : Rat × Rat => Json.arr #[jRat q.1, jRat q.2]) pts)]

def handle (j : Json) : Json :=
  match getStr j "kind" with
  | "square" => handleSquare j
  | "spiral" => handleSpiral .spiral j
  | "fermat" => handleSpiral .fermat j
  | _ => Json.mkObj [("error", "bad-kind")]

def main : IO Unit := serve handle
