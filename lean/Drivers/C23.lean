import BlueskyVerif.Gen.Driver
import BlueskyVerif.Gen.Paired
open Lean BlueskyVerif.Driver BlueskyVerif.Gen BlueskyVerif.Gen.Driver

/-! Driver of C23: the paired-action wrapper models (Gen/Paired.lean) around plans of the AST
grammar whose payload numbers are decoded into concrete messages by a per-case table. -/

def commandOf : String → BlueskyVerif.Gen.Command
  | "null" => .null | "open_run" => .openRun | "close_run" => .closeRun | "stage" => .stage
  | "unstage" => .unstage | "subscribe" => .subscribe | "unsubscribe" => .unsubscribe
  | "install_suspender" => .installSuspender | "remove_suspender" => .removeSuspender
  | "monitor" => .monitor | "unmonitor" => .unmonitor | "kickoff" => .kickoff
  | "complete" => .complete | "collect" => .collect | "wait" => .wait | "read" => .read
  | "set" => .set | "trigger" => .trigger | "locate" => .locate | "create" => .create
  | "save" => .save | "checkpoint" => .checkpoint | "pause" => .pause | _ => .other

def commandName : BlueskyVerif.Gen.Command → String
  | .null => "null" | .openRun => "open_run" | .closeRun => "close_run" | .stage => "stage"
  | .unstage => "unstage" | .subscribe => "subscribe" | .unsubscribe => "unsubscribe"
  | .installSuspender => "install_suspender" | .removeSuspender => "remove_suspender"
  | .monitor => "monitor" | .unmonitor => "unmonitor" | .kickoff => "kickoff"
  | .complete => "complete" | .collect => "collect" | .wait => "wait" | .read => "read"
  | .set => "set" | .trigger => "trigger" | .locate => "locate" | .create => "create"
  | .save => "save" | .checkpoint => "checkpoint" | .pause => "pause" | .other => "other"

def statusName : ExitStatus → String
  | .success => "success" | .abort => "abort" | .fail => "fail"

def jOptNat : Option Nat → Json
  | none => Json.null
  | some n => jNat n

def jPMsg (m : PMsg) : Json :=
  Json.arr #[Json.str "yld", Json.str (commandName m.cmd), jOptNat m.obj, jOptInt m.num,
    jOptNat m.group, (match m.status with | none => Json.null | some s => Json.str (statusName s)),
    jOptNat m.reason, Json.str (if m.ident.head? == some 9 then "w" else "p")]

def jPObs : Obs PMsg Val Exc → Json
  | .yld m => jPMsg m
  | .ret v => Json.arr #[Json.str "ret", jVal v]
  | .raise e => Json.arr #[Json.str "raise", Json.str (excClsName e.cls), jNat e.tag]
  | .closed => Json.arr #[Json.str "closed"]

def optNat (j : Json) : Option Nat :=
  match j with
  | Json.null => none
  | j => some (asNat j)

def optInt (j : Json) : Option Int :=
  match j with
  | Json.null => none
  | j => some (asInt j)

/-- table rows `[k, cmd, obj|null, num|null]` -/
def decodeMsg (table : List Json) (m : Msg) : PMsg :=
  match table.find? (fun row => (asArr row).head?.map asNat == some m.payload) with
  | some row =>
    match asArr row with
    | [_, c, o, n] => { ident := m.ident, cmd := commandOf (asStr c), obj := optNat o, num := optInt n }
    | _ => { ident := m.ident, cmd := .null, num := some m.payload }
  | none => { ident := m.ident, cmd := .null, num := some m.payload }

def excInfo : ExcInfo Exc where
  exitStatus := fun e =>
    match e.cls with
    | .requestStop => .success
    | .requestAbort => .abort
    | _ => .fail
  text := fun e => e.tag

def mkTree (j : Json) : DevTree where
  parent := fun d =>
    match (getArr j "parents").find? (fun row => (asArr row).head?.map asNat == some d) with
    | some row => match asArr row with
      | [_, p] => optNat p
      | _ => none
    | none => none
  depth := getNat j "depth" 8

def mkView (j : Json) : RespView Val where
  asDevs := fun d r =>
    match r with
    | none => none
    | some k =>
      match (getArr j "stageResp").find? (fun row =>
        match asArr row with
        | [d', k', _] => asNat d' == d && asInt k' == k
        | _ => false) with
      | some row => match asArr row with
        | [_, _, ds] => some ((asArr ds).map asNat)
        | _ => some []
      | none => some []
  isStatus := fun r =>
    match r with
    | none => false
    | some k => (getIntList j "statusCodes").contains k
  asInt := id

def handle (j : Json) : Json :=
  let r : Except String Json := do
    let ast ← parsePlan (getObj j "plan")
    let scripts ← (getArr j "scripts").mapM parseScript
    let plan : PBeh Val Exc := Beh.mapMsg (decodeMsg (getArr j "msgs")) (interp [0] ast)
    let devs := getNatList j "devices"
    let view := mkView j
    let tree := mkTree j
    let w : Option (PBeh Val Exc) :=
      match getStr j "wrapper" with
      | "bare" => some plan
      | "run_wrapper" => some (runWrapper excInfo (optInt (getObj j "md")) plan)
      | "stage_wrapper" => some (stageWrapper view tree devs plan)
      | "lazily_stage_wrapper" => some (lazilyStageWrapper driverFuel view tree plan)
      | "subs_wrapper" =>
        some (subsWrapper view ((getArr j "subs").map fun row =>
          match asArr row with
          | [a, b] => (asNat a, asNat b)
          | _ => (0, 0)) plan)
      | "suspend_wrapper" => some (suspendWrapper devs plan)
      | "monitor_during_wrapper" => some (monitorDuringWrapper driverFuel devs plan)
      | "fly_during_wrapper" => some (flyDuringWrapper driverFuel devs plan)
      | _ => none
    match w with
    | none => throw "bad wrapper"
    | some b => pure (Json.mkObj [("traces", jList (fun s => jList jPObs (run b s)) scripts)])
  match r with
  | .ok j => j
  | .error e => jErr e

def main : IO Unit := serve handle
