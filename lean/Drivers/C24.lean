import BlueskyVerif.Gen.Driver
import BlueskyVerif.Gen.Relative
open Lean BlueskyVerif.Driver BlueskyVerif.Gen BlueskyVerif.Gen.Driver

/-! Driver of C24: the relative-move wrapper models (Gen/Relative.lean) around plans of the AST
grammar whose payload numbers are decoded into concrete messages by a per-case table. -/

def commandOf : String → BlueskyVerif.Gen.Command
  | "null" => .null | "open_run" => .openRun | "close_run" => .closeRun | "stage" => .stage
  | "unstage" => .unstage | "wait" => .wait | "read" => .read | "set" => .set | "trigger" => .trigger
  | "locate" => .locate | "create" => .create | "save" => .save | "checkpoint" => .checkpoint
  | _ => .other

def commandName : BlueskyVerif.Gen.Command → String
  | .null => "null" | .openRun => "open_run" | .closeRun => "close_run" | .stage => "stage"
  | .unstage => "unstage" | .wait => "wait" | .read => "read" | .set => "set" | .trigger => "trigger"
  | .locate => "locate" | .create => "create" | .save => "save" | .checkpoint => "checkpoint"
  | _ => "other"

def jOptNat : Option Nat → Json
  | none => Json.null
  | some n => jNat n

def jPMsg (m : PMsg) : Json :=
  Json.arr #[Json.str "yld", Json.str (commandName m.cmd), jOptNat m.obj, jOptInt m.num,
    jOptNat m.group, Json.null, Json.null,
    Json.str (if m.ident.head? == some 9 then "w" else "p")]

def jPObs : Obs PMsg Val Exc → Json
  | .yld m => jPMsg m
  | .ret v => Json.arr #[Json.str "ret", jVal v]
  | .raise e => Json.arr #[Json.str "raise", Json.str (excClsName e.cls), jNat e.tag]
  | .closed => Json.arr #[Json.str "closed"]

def optNat (j : Json) : Option Nat :=
  match j with
  | Json.null => none
  | j => some (asNat j)

def optInt (j : Json) : Option Int :=
  match j with
  | Json.null => none
  | j => some (asInt j)

def decodeMsg (table : List Json) (m : Msg) : PMsg :=
  match table.find? (fun row => (asArr row).head?.map asNat == some m.payload) with
  | some row =>
    match asArr row with
    | [_, c, o, n] => { ident := m.ident, cmd := commandOf (asStr c), obj := optNat o, num := optInt n }
    | _ => { ident := m.ident, cmd := .null, num := some m.payload }
  | none => { ident := m.ident, cmd := .null, num := some m.payload }

/-- rows `[dev, locatable, hasPosition, position]` -/
def mkMotors (j : Json) : MotorInfo :=
  let row (d : Dev) : List Json :=
    match (getArr j "motors").find? (fun r => (asArr r).head?.map asNat == some d) with
    | some r => asArr r
    | none => []
  { locatable := fun d => match row d with | [_, l, _, _] => asBool l | _ => false
    hasPosition := fun d => match row d with | [_, _, h, _] => asBool h | _ => false
    position := fun d => match row d with | [_, _, _, p] => asInt p | _ => 0 }

/-- a `read` / `locate` answered with the number k carries the value k -/
def posView : PosView Val := { asPos := fun _ r => r }

def optDevs (j : Json) : Option (List Dev) :=
  match getObj j "devices" with
  | Json.null => none
  | _ => some (getNatList j "devices")

def pairsOf (j : Json) : List (Dev × Int) :=
  (getArr j "pairs").map fun row =>
    match asArr row with
    | [d, x] => (asNat d, asInt x)
    | _ => (0, 0)

/-- stubs' own messages are plan-side objects for the outer wrapper but were created by library
    code: the harness reports them with origin "w" unless they are the plan's -/
def handle (j : Json) : Json :=
  let r : Except String Json := do
    let scripts ← (getArr j "scripts").mapM parseScript
    let mi := mkMotors j
    let devs := optDevs j
    let planOf : Except String (PBeh Val Exc) := do
      let ast ← parsePlan (getObj j "plan")
      pure (Beh.mapMsg (decodeMsg (getArr j "msgs")) (interp [0] ast))
    let w : Except String (PBeh Val Exc) :=
      match getStr j "wrapper" with
      | "relative_set_wrapper" => do pure (relativeSetWrapper driverFuel mi posView devs (← planOf))
      | "reset_positions_wrapper" => do pure (resetPositionsWrapper driverFuel mi posView devs (← planOf))
      | "rel_scan" => do pure (relScan driverFuel mi posView (getNatList j "devices") (← planOf))
      | "rel_set" =>
        pure (relSet driverFuel mi posView (getNat j "d") (getInt j "x") (optNat (getObj j "group"))
          (getBool j "wait"))
      | "mvr" => pure (mvr driverFuel mi posView (pairsOf j))
      | _ => throw "bad wrapper"
    let b ← w
    pure (Json.mkObj [("traces", jList (fun s => jList jPObs (run b s)) scripts)])
  match r with
  | .ok j => j
  | .error e => jErr e

def main : IO Unit := serve handle
