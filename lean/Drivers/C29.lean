import BlueskyVerif.Util.DriverLib
import BlueskyVerif.Pure.Adaptive
import BlueskyVerif.Pure.Tune
open Lean BlueskyVerif.Driver BlueskyVerif.Pure

/-
Request (one JSON object per line); rationals travel as strings "num/den":
  {"plan":"adaptive","start":..,"stop":..,"min_step":..,"max_step":..,"target_delta":..,"backstep":b,
   "threshold":..,"readings":["n/d",...]}
  {"plan":"tune","start":..,"stop":..,"min_step":..,"num":int,"step_factor":..,"snake":b,"readings":[...]}
The response oracle is `I k p := readings[k]` (the readings the real detector returned, in order); the
model is run for at most `readings.length` loop iterations.
Reply: status ("ValueError" | "ZeroDivisionError" | "done" | "returned" | "running"), the visited positions
(exact "n/d"), per-iteration decision kinds and decision margins (scaled by 10^12, rounded down), the final
park position (tune), the margin of the exit test.
-/

def parseRat (s : String) : Rat :=
  match s.splitOn "/" with
  | [n] => (n.toInt?.getD 0 : Int)
  | [n, d] => mkRat (n.toInt?.getD 0) (d.toNat?.getD 1)
  | _ => 0

def getRat (j : Json) (k : String) : Rat := parseRat (getStr j k "0")
def jRat (q : Rat) : Json := Json.str s!"{q.num}/{q.den}"
def scaled (q : Rat) : Json := jInt (q * 1000000000000).floor

def readings (j : Json) : Array Rat := ((getArr j "readings").map (fun x => parseRat (asStr x "0"))).toArray

def handleAdaptive (j : Json) : Json :=
  let P : Adaptive.Params :=
    { start := getRat j "start", stop := getRat j "stop", minStep := getRat j "min_step",
      maxStep := getRat j "max_step", targetDelta := getRat j "target_delta",
      backstep := getBool j "backstep", threshold := getRat j "threshold" }
  if P.rejected then Json.mkObj [("status", "ValueError")] else
  let rs := readings j
  let I : Adaptive.Resp := fun k _ => rs.getD k 0
  let (rows, fin, em) := Adaptive.trace P I rs.size (Adaptive.init P) []
  Json.mkObj [("status", if fin then "done" else "running"),
    ("pos", jList (fun r => jRat r.pos) rows),
    ("step", jList (fun r => scaled r.step) rows),
    ("kind", jList (fun r => jNat r.kind) rows),
    ("margin", jList (fun r => scaled r.margin) rows),
    ("exit_margin", scaled em)]

def handleTune (j : Json) : Json :=
  let P : Tune.Params :=
    { start := getRat j "start", stop := getRat j "stop", minStep := getRat j "min_step",
      num := getInt j "num", stepFactor := getRat j "step_factor", snake := getBool j "snake" }
  if P.rejected then Json.mkObj [("status", "ValueError")] else
  if P.zeroDiv then Json.mkObj [("status", "ZeroDivisionError")] else
  let rs := readings j
  let I : Tune.Resp := fun k _ => rs.getD k 0
  let (rows, ph, em) := Tune.trace P I rs.size (Tune.init P) []
  let (status, park) : String × Json := match ph with
    | .run _ => ("running", Json.null)
    | .exited none => ("done", Json.null)
    | .exited (some p) => ("done", jRat p)
    | .returned => ("returned", Json.null)
  Json.mkObj [("status", status), ("park", park),
    ("pos", jList (fun r => jRat r.pos) rows),
    ("kind", jList (fun r => jNat r.kind) rows),
    ("margin", jList (fun r => scaled r.margin) rows),
    ("exit_margin", scaled em)]

def handle (j : Json) : Json :=
  match getStr j "plan" with
  | "adaptive" => handleAdaptive j
  | "tune" => handleTune j
  | _ => Json.mkObj [("error", "bad-plan")]

def main : IO Unit := serve handle
