import BlueskyVerif.Util.DriverLib
import BlueskyVerif.Pure.Repeat
open Lean BlueskyVerif.Driver BlueskyVerif.Repeat

/-! Driver for C28: runs the model of `repeat` on a scripted clock, a delay specification and the
inner plan's message lists.  Rationals travel as `[numerator, denominator]`. -/

def asRat? (j : Json) : Option Rat :=
  match j with
  | Json.arr #[a, b] => some (mkRat (asInt a) (asNat b 1))
  | _ => none

def jRat (r : Rat) : Json := Json.arr #[jInt r.num, jNat r.den]

def parseDelay (j : Json) : Delay :=
  let l := (getArr j "l").map asRat?
  match getStr j "kind" with
  | "scalar" => .scalar (asRat? (getObj j "d"))
  | "sized" => .sized l
  | _ => .unsized l

def jEv : Ev String → Json
  | .checkpoint => Json.arr #[Json.str "checkpoint"]
  | .call i => Json.arr #[Json.str "call", jNat i]
  | .msg m => Json.arr #[Json.str "msg", Json.str m]
  | .sleep d => Json.arr #[Json.str "sleep", jRat d]

def jEnd : End → String
  | .returned => "returned"
  | .valueError => "ValueError"
  | .running => "running"

/-- keep everything before the `k`-th checkpoint (0-based); `none` if there are fewer -/
def cutAt (k : Nat) : List (Ev String) → Option (List (Ev String))
  | [] => none
  | .checkpoint :: r => if k == 0 then some [] else (cutAt (k - 1) r).map (.checkpoint :: ·)
  | e :: r => (cutAt k r).map (e :: ·)

def handle (j : Json) : Json :=
  let num := getInt? j "num"
  let dl := parseDelay (getObj j "delay")
  let clockL : List Rat := (getArr j "clock").filterMap asRat?
  let last := clockL.getLast?.getD 0
  let innerL : List (List String) := (getArr j "inner").map (fun x => (asArr x).map asStr)
  let env : Env String := { clock := fun k => (clockL[k]?).getD last, inner := fun i => (innerL[i]?).getD [] }
  match getInt? j "stop_after" with
  | some k =>
    -- the consumer walks away when the (k+1)-th checkpoint arrives
    let r := run num dl env (k.toNat + 1)
    match cutAt k.toNat r.1 with
    | some tr => Json.mkObj [("trace", jList jEv tr), ("end", "running")]
    | none => Json.mkObj [("trace", jList jEv r.1), ("end", Json.str (jEnd r.2))]
  | none =>
    let fuel := match num with
      | some n => n.toNat + 2
      | none => 1000
    let r := run num dl env fuel
    Json.mkObj [("trace", jList jEv r.1), ("end", Json.str (jEnd r.2))]

def main : IO Unit := serve handle
