import BlueskyVerif.Util.DriverLib
import BlueskyVerif.Suspender.Gate
open Lean BlueskyVerif.Driver BlueskyVerif.Suspender BlueskyVerif.Gate BlueskyVerif.Engine

def clsOf31 : String → Cls
  | "SuspendBoolHigh" => .suspendBoolHigh
  | "SuspendBoolLow" => .suspendBoolLow
  | "SuspendFloor" => .suspendFloor
  | "SuspendCeil" => .suspendCeil
  | "SuspendWhenOutsideBand" => .suspendWhenOutsideBand
  | "SuspendInBand" => .suspendInBand
  | "SuspendOutBand" => .suspendOutBand
  | _ => .suspendWhenChanged

def parseObj (j : Json) : Obj × Int :=
  let a : Args := { suspend := getInt j "suspend", resume := getInt? j "resume", bot := getInt j "bot", top := getInt j "top",
                    expected := getInt? j "expected", allow := getBool j "allow", signal := getInt j "sig0" }
  ({ cls := clsOf31 (getStr j "cls"), p := construct a }, getInt j "sig0")

def parseHOp (j : Json) : HOp :=
  match j with
  | Json.arr a =>
    let l := a.toList
    let name := (l.headD Json.null |> asStr)
    let i := asNat (l.getD 1 Json.null)
    match name with
    | "install" => .install i
    | "remove" => .remove i
    | "oremove" => .oremove i
    | "put" => .put i (asInt (l.getD 2 Json.null))
    | "call" => .call
    | _ => .openGate i
  | _ => .call

def jEntry : Entry → Json
  | .op j => Json.arr #["op", jNat j]
  | .msg c m => Json.arr #["msg", Json.str c, match m with | some k => jNat k | none => Json.null]
  | .ret r => Json.arr #["ret", Json.str r]

def handle (j : Json) : Json :=
  let objs := (getArr j "susp").map parseObj
  let s0 : Sys := { objs := objs.map (·.1), sigs := objs.map (·.2), inRE := objs.map (fun _ => false) }
  let s := runH (getNat j "nplan") ((getArr j "ops").map parseHOp) s0
  Json.mkObj [
    ("log", jList jEntry s.log),
    ("final", jList (fun (o : Obj) => Json.arr #[Json.bool o.installed, Json.bool o.tripped, Json.bool o.ev.isNone]) s.objs),
    ("in_re", jList Json.bool s.inRE),
    ("events", jList Json.bool ((List.range s.w.nextEv).map (fun e => s.w.released.contains e))),
    ("state", Json.str s.e.state.name)]

def main : IO Unit := serve handle
