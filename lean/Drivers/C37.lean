import BlueskyVerif.Util.DriverLib
import BlueskyVerif.Pure.Printf
open Lean BlueskyVerif.Driver BlueskyVerif.Printf BlueskyVerif.PyStr

def jOptStr : Option Str → Json
  | none => Json.null
  | some s => Json.str (String.ofList s)

def handle (j : Json) : Json :=
  let i := getNat j "i"
  match getStr j "k" with
  | "derive" =>
    let t := (getStr j "t").toList
    Json.mkObj [("rewrite", jOptStr (rewrite t)), ("out", jOptStr (derive t i))]
  | "pyfmt" => Json.mkObj [("out", jOptStr (pyFormatInt (getStr j "spec").toList i))]
  | "printf" => Json.mkObj [("out", jOptStr (cPrintf (getStr j "t").toList i))]
  | "match" =>
    match reMatch (getStr j "t").toList with
    | none => Json.mkObj [("groups", Json.null)]
    | some (g, rest) =>
      Json.mkObj [("groups", Json.arr #[Json.str (String.ofList g.flags), jOptStr g.width, jOptStr g.precision,
                                        Json.str (String.ofList g.typeChar)]),
                  ("rest", Json.str (String.ofList rest))]
  | _ => Json.mkObj [("error", "bad-kind")]

def main : IO Unit := serve handle
