import BlueskyVerif.Util.DriverLib
import BlueskyVerif.Pure.Simulator
open Lean BlueskyVerif.Driver BlueskyVerif.Simulator

/-! Driver for C32: interprets the harness's plan AST as a behaviour function (`Plan`), builds the
handler list with the model's `addHandler`/`addSubscribeHandler`, and runs the model's
`simulate` / `checkLimits`.  The AST interpreter only feeds the correspondence; the theorems
do not mention it. -/

inductive Ex where
  | c (v : Option Int)
  | v (i : Nat)
  | add (i : Nat) (n : Int)

inductive Cond where
  | eq (i : Nat) (n : Int)
  | lt (i : Nat) (n : Int)
  | isNone (i : Nat)

structure MsgSpec where
  cmd : String
  obj : Option Nat
  args : List Ex
  group : Option String

inductive Stmt where
  | y (m : MsgSpec)
  | r (var : Nat) (m : MsgSpec)
  | ite (c : Cond) (a b : List Stmt)
  | rep (n : Nat) (body : List Stmt)
  | ret (e : Ex)
  | raise (cls : String)
  | yraw
deriving Inhabited

abbrev Env := List (Option Int)

def Env.get (e : Env) (i : Nat) : Option Int := (e[i]?).getD none
def Env.set' (e : Env) (i : Nat) (v : Option Int) : Env :=
  let e := if e.length ≤ i then e ++ List.replicate (i + 1 - e.length) none else e
  e.set i v

def evalEx (env : Env) : Ex → Option Int
  | .c v => v
  | .v i => env.get i
  | .add i n => some ((env.get i).getD 0 + n)

def evalCond (env : Env) : Cond → Bool
  | .eq i n => env.get i == some n
  | .lt i n => match env.get i with
    | some x => x < n
    | none => false
  | .isNone i => (env.get i).isNone

def parseEx (j : Json) : Ex :=
  match asArr j with
  | [Json.str "c", v] => .c (match v.getInt? with | .ok i => some i | .error _ => none)
  | [Json.str "v", i] => .v (asNat i)
  | [Json.str "add", i, n] => .add (asNat i) (asInt n)
  | _ => .c none

def parseCond (j : Json) : Cond :=
  match asArr j with
  | [Json.str "eq", i, n] => .eq (asNat i) (asInt n)
  | [Json.str "lt", i, n] => .lt (asNat i) (asInt n)
  | [Json.str "none", i] => .isNone (asNat i)
  | _ => .isNone 0

def optNat (j : Json) (k : String) : Option Nat := (getInt? j k).map Int.toNat
def optStr (j : Json) (k : String) : Option String :=
  match j.getObjVal? k with
  | .ok (Json.str s) => some s
  | _ => none

def parseMsg (j : Json) : MsgSpec :=
  { cmd := getStr j "c", obj := optNat j "o", args := (getArr j "a").map parseEx, group := optStr j "g" }

partial def parseStmt (j : Json) : Stmt :=
  match asArr j with
  | [Json.str "y", m] => .y (parseMsg m)
  | [Json.str "r", v, m] => .r (asNat v) (parseMsg m)
  | [Json.str "if", c, a, b] => .ite (parseCond c) ((asArr a).map parseStmt) ((asArr b).map parseStmt)
  | [Json.str "rep", n, b] => .rep (asNat n) ((asArr b).map parseStmt)
  | [Json.str "ret", e] => .ret (parseEx e)
  | [Json.str "raise", Json.str c] => .raise c
  | [Json.str "yraw"] => .yraw
  | _ => .raise "BadStmt"

def parseDev (idx : Nat) (j : Json) : Dev :=
  let lim := match getArr j "limits" with
    | [a, b] => some (asInt a, asInt b)
    | _ => none
  { id := idx, name := getStr j "name", limits := if getStr j "kind" == "plain" then none else lim }

def parseDevs (j : Json) : List Dev :=
  let l := getArr j "devices"
  (List.range l.length).zip l |>.map (fun (i, d) => parseDev i d)

instance : Inhabited (Out Msg (Option Int) String) := ⟨.ret none⟩

def mkMsg (devs : List Dev) (env : Env) (m : MsgSpec) : Msg :=
  { command := m.cmd, obj := m.obj.bind (fun i => devs[i]?), args := m.args.map (fun e => (evalEx env e).getD 0),
    group := m.group }

/-- a falsy thing yielded instead of a Msg -/
def falsyMsg : Msg := { command := "" }
def truthyMsg (m : Msg) : Bool := m.command != ""

/-- the plan AST as a behaviour function: run from the start, consuming the responses; when they are
    used up, report what the generator does next -/
partial def exec (devs : List Dev) : List Stmt → Env → List (Option Int) → Out Msg (Option Int) String
  | [], _, _ => .ret none
  | s :: k, env, rs =>
    match s with
    | .y m => match rs with
      | [] => .yld (mkMsg devs env m)
      | _ :: rs' => exec devs k env rs'
    | .r var m => match rs with
      | [] => .yld (mkMsg devs env m)
      | x :: rs' => exec devs k (env.set' var x) rs'
    | .ite c a b => exec devs ((if evalCond env c then a else b) ++ k) env rs
    | .rep n body => if n == 0 then exec devs k env rs else exec devs (body ++ (.rep (n - 1) body :: k)) env rs
    | .ret e => .ret (evalEx env e)
    | .raise c => .raise c
    | .yraw => match rs with
      | [] => .yld falsyMsg
      | _ :: rs' => exec devs k env rs'

def planOf (devs : List Dev) (j : Json) : Plan Msg Int (Option Int) String :=
  let stmts := (getArr j "plan").map parseStmt
  fun rs => exec devs stmts [] rs

/-! handlers -/

def arg0 (m : Msg) : Option Int := m.args[0]?

def parsePred (devs : List Dev) (j : Json) : Msg → Bool :=
  match asArr j with
  | [Json.str "always", Json.bool b] => fun _ => b
  | [Json.str "arg0_eq", n] => fun m => arg0 m == some (asInt n)
  | [Json.str "arg0_lt", n] => fun m => match arg0 m with
    | some x => x < asInt n
    | none => false
  | [Json.str "obj", i] => fun m => match m.obj, devs[asNat i]? with
    | some d, some d' => d == d'
    | _, _ => false
  | [Json.str "group_eq", Json.str s] => fun m => m.group == some s
  | _ => fun _ => false

def parseRes (j : Json) : Msg → HRes Int (Option Int) String :=
  match asArr j with
  | [Json.str "const", v] => fun _ => .val (match v.getInt? with | .ok i => some i | .error _ => none)
  | [Json.str "arg0_plus", n] => fun m => .val (some ((arg0 m).getD 0 + asInt n))
  | [Json.str "raise", Json.str "StopIteration", v] => fun _ => .stop (match v.getInt? with | .ok i => some i | .error _ => none)
  | [Json.str "raise", Json.str c] => fun _ => .err c
  | _ => fun _ => .err "BadRes"

def parseFilter (devs : List Dev) (j : Json) : Filter :=
  match j.getObjVal? "name", j.getObjVal? "fn" with
  | .ok (Json.str s), _ => .name s
  | _, .ok p => .fn (parsePred devs p)
  | _, _ => .none

def buildHandlers (devs : List Dev) (specs : List Json) : List (Handler Msg Int (Option Int) String) :=
  specs.foldl (fun hs j =>
    if getStr j "kind" == "subscribe" then
      addSubscribeHandler hs { pred := fun m => m.command == "subscribe", run := fun _ => .val none }
    else
      let h : Handler Msg Int (Option Int) String :=
        { pred := matchPred ((getArr j "commands").map asStr) (parseFilter devs (getObj j "filter")),
          run := parseRes (getObj j "result") }
      let idx : Index := match j.getObjVal? "index" with
        | .ok (Json.str _) => .end_
        | .ok v => (match v.getInt? with | .ok i => .at i | .error _ => .dflt)
        | .error _ => .dflt
      addHandler hs h idx) []

def jOpt : Option Int → Json
  | none => Json.null
  | some i => jInt i

def jMsg (m : Msg) : Json :=
  if m.command == "" then Json.str "falsy" else
  Json.arr #[Json.str m.command, (match m.obj with | some d => jNat d.id | none => Json.null),
    jList jInt m.args, (match m.group with | some g => Json.str g | none => Json.null)]

def handleSim (j : Json) : Json :=
  let devs := parseDevs j
  let p := planOf devs j
  let hs := buildHandlers devs (getArr j "handlers")
  match simulate truthyMsg hs p 100000 with
  | .done msgs rv =>
    -- values the plan has received: every answer, except the last one when the call ended inside
    -- the handler of the last message
    let answered := match msgs.getLast? with
      | some m => (match respond hs none m with
        | .val _ => msgs
        | _ => msgs.dropLast)
      | none => msgs
    Json.mkObj [("outcome", "returned"), ("messages", jList jMsg msgs),
      ("rv", match rv with | some v => Json.arr #[Json.str "set", jOpt v] | none => Json.str "unchanged"),
      ("received", jList jOpt (answered.map (sent hs)))]
  | .raised e => Json.mkObj [("outcome", Json.str ("raised:" ++ e))]
  | .running _ => Json.mkObj [("outcome", "running")]

def handleLimits (j : Json) : Json :=
  let devs := parseDevs j
  let p := planOf devs j
  match checkLimits p 100000 with
  | .ok warned => Json.mkObj [("outcome", "ok"), ("warned", jList (fun d => Json.str d.name) warned)]
  | .limitError k => Json.mkObj [("outcome", "LimitError"), ("k", jNat k)]
  | .planRaised e => Json.mkObj [("outcome", Json.str ("raised:" ++ e))]
  | .attributeError k => Json.mkObj [("outcome", "AttributeError"), ("k", jNat k)]
  | .indexError k => Json.mkObj [("outcome", "IndexError"), ("k", jNat k)]
  | .running => Json.mkObj [("outcome", "running")]

def handle (j : Json) : Json :=
  if getStr j "kind" == "limits" then handleLimits j else handleSim j

def main : IO Unit := serve handle
