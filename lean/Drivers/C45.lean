import BlueskyVerif.Bundler.Driver
open BlueskyVerif.Driver
def main : IO Unit := serve BlueskyVerif.Bundler.Drv.handle
