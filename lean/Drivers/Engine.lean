import BlueskyVerif.Util.DriverLib
import BlueskyVerif.Engine.Sim
import BlueskyVerif.Engine.Ast
open Lean BlueskyVerif.Driver BlueskyVerif.Engine

def optStr (j : Json) (k : String) : Option String :=
  match j.getObjVal? k with
  | .ok (Json.str s) => some s
  | _ => none

def parseMsg (j : Json) : Msg :=
  let kw := getObj j "kw"
  let args := getArr j "args"
  let flagArg := match args with
    | Json.bool b :: _ => some b
    | _ => none
  let iargs : List Int := args.map (fun a => match a with
    | Json.bool _ => 0
    | a => asInt a)
  let name := (optStr kw "name").orElse (fun _ => (optStr kw "group").orElse (fun _ => optStr kw "exit_status"))
  let name := match name, args with
    | none, Json.str g :: _ => some g
    | n, _ => n
  { cmd := getStr j "cmd", obj := optStr j "obj", iargs := iargs, name := name,
    flag := (flagArg.getD (getBool kw "defer")), run := optStr j "run",
    mid := (getInt? j "id").map Int.toNat }

partial def parseStmt (j : Json) : Stmt :=
  match getStr j "k" with
  | "msg" => .msg (parseMsg j)
  | "seq" => .seq ((getArr j "body").map parseStmt)
  | "try" =>
    let opt (k : String) : Option Stmt := match j.getObjVal? k with
      | .ok Json.null => none
      | .ok v => some (parseStmt v)
      | .error _ => none
    .tryS (parseStmt (getObj j "body")) (opt "handler") (opt "fin")
  | "raise" => .raise
  | _ => .ret

def parseAction (j : Json) : Action :=
  let optPlan (k : String) : Option Gen := match j.getObjVal? k with
    | .ok Json.null => none
    | .ok v => some (parseStmt v).toGen
    | .error _ => none
  match getStr j "a" with
  | "pause" => .pause (getBool j "defer")
  | "suspend" => .suspend (getNat j "fut") (optPlan "pre") (optPlan "post") (optStr j "just")
  | "release" => .release (getNat j "fut")
  | "abort" => .abort
  | "stop" => .stop
  | "halt" => .halt
  | "status" => .status (getNat j "id") (getBool j "ok")
  | _ => .monitor (getStr j "sig") (getInt j "v")

def parseDevs (j : Json) : List DevSpec :=
  match j with
  | Json.obj kvs => kvs.toList.map (fun (name, spec) =>
      let modes : List (String × List String) := match getObj spec "modes" with
        | Json.obj ms => ms.toList.map (fun (op, l) => (op, (asArr l).map asStr))
        | _ => []
      { name := name, kind := getStr spec "kind", modes := modes, pausable := getBool spec "pausable",
        offset := getInt spec "offset" })
  | _ => []

def parseScript (j : Json) : Script :=
  match j with
  | Json.obj kvs => kvs.toList.map (fun (k, v) => (k.toNat!, (asArr v).map parseAction))
  | _ => []

def jOptStr : Option String → Json
  | some s => Json.str s
  | none => Json.null

def jResp : Resp → Json
  | .none => Json.null
  | .run n => Json.str s!"run#{n}"
  | .status k => Json.str s!"status#{k}"
  | .bool b => Json.bool b
  | .reading d v => Json.mkObj [(d, jInt v)]
  | .seq => Json.str "seq"
  | .exc e => Json.str ("exc:" ++ e.name)

def jDoc (d : Doc) : Json :=
  let run := Json.str s!"run#{d.run}"
  match d.kind with
  | "start" => Json.mkObj [("k", "start"), ("run", run), ("scan_id", jNat d.seq)]
  | "descriptor" => Json.mkObj [("k", "descriptor"), ("run", run), ("stream", Json.str d.stream),
      ("keys", jList Json.str (d.keys.toArray.qsort (· < ·)).toList)]
  | "event" =>
    let data := if d.stream == "interruptions" then Json.mkObj [("interruption", Json.str d.note)]
      else Json.mkObj (d.data.map (fun (k, v) => (k, jInt v)))
    Json.mkObj [("k", "event"), ("run", run), ("stream", Json.str d.stream), ("seq", jNat d.seq), ("data", data)]
  | _ => Json.mkObj [("k", "stop"), ("run", run), ("exit", Json.str d.exit),
      ("reason", Json.str (if d.reason == "" then "" else "nonempty")),
      ("num_events", Json.mkObj (d.numEvents.map (fun (k, v) => (k, jNat v))))]

def handle (j : Json) : Json :=
  let sc : Scenario := {
    devSpecs := parseDevs (getObj j "devices"),
    recordInterruptions := getBool j "record_interruptions",
    plan := (parseStmt (getObj j "plan")).toGen,
    script := parseScript (getObj j "script"),
    decisions := (getArr j "decisions").map asStr,
    maxArrivals := getNat j "max_arrivals" 400 }
  let (s, outs) := simulate sc
  let sigs := sc.devSpecs.filter (·.kind == "sig")
  Json.mkObj [
    ("msgs", jList (fun (m : Msg) => Json.arr #[Json.str m.cmd, jOptStr m.obj, jOptStr m.run,
        match m.mid with | some i => jNat i | none => Json.null]) s.msgs),
    ("trans", jList (fun (p : St × St) => Json.arr #[Json.str p.1.name, Json.str p.2.name]) s.trans),
    ("refused", jList Json.str s.refused),
    ("docs", jList jDoc s.docs),
    ("ledger", jList (fun (c : Call) => Json.arr #[Json.str c.dev, Json.str c.op,
        if c.raised then Json.str "raise" else match c.arg with | some v => jInt v | none => Json.null]) s.calls),
    ("yields", jList (fun (p : Nat × Inp) => match p.2 with
        | .send r => Json.arr #[jNat p.1, "send", jResp r]
        | .throw e => Json.arr #[jNat p.1, "throw", Json.str e.name]) s.yields),
    ("arrivals", jList Json.str s.arrivals),
    ("returns", jList (fun (o : CallOutcome) => Json.arr #[Json.str o.op, Json.str o.result, Json.str o.state.name,
        Json.bool o.interrupted, Json.bool o.deferred, jNat o.openRuns]) outs),
    ("subs_left", Json.mkObj (sigs.map (fun sp => (sp.name, jNat (devOf s sp.name).subs.length)))),
    ("final_state", Json.str s.state.name)]

def main : IO Unit := serve handle
