import BlueskyVerif.Util.DriverLib
import BlueskyVerif.Pure.StepScan
open Lean BlueskyVerif.Driver BlueskyVerif.Pure BlueskyVerif.Pure.Patterns BlueskyVerif.Pure.StepScan

/-- rationals travel as `[numerator, denominator]` -/
def asRat (j : Json) : Rat :=
  match j with
  | Json.arr a => mkRat (asInt (a.getD 0 Json.null)) (asNat (a.getD 1 (jNat 1)) 1)
  | _ => (asInt j : Rat)

def jRat (r : Rat) : Json := Json.arr #[jInt r.num, jNat r.den]

def getRat (j : Json) (k : String) : Rat := asRat (getObj j k)
def getRatList (j : Json) (k : String) : List Rat := (getArr j k).map asRat
def getRatLists (j : Json) (k : String) : List (List Rat) := (getArr j k).map fun x => (asArr x).map asRat

def asBool (j : Json) : Bool := match j with | Json.bool b => b | _ => false

def devName : Dev → String
  | .det i => s!"d{i}"
  | .mot i => s!"m{i}"

def grpName : Grp → String
  | .sets => "sets"
  | .triggers => "triggers"
  | .reset => "reset"

def jMsg : Msg → Json
  | .stage d => Json.arr #["stage", devName d]
  | .unstage d => Json.arr #["unstage", devName d]
  | .openRun => Json.arr #["open_run"]
  | .closeRun => Json.arr #["close_run"]
  | .checkpoint => Json.arr #["checkpoint"]
  | .set m p g => Json.arr #["set", devName (.mot m), jRat p, grpName g]
  | .wait g => Json.arr #["wait", grpName g]
  | .trigger d => Json.arr #["trigger", devName d]
  | .create => Json.arr #["create"]
  | .read d => Json.arr #["read", devName d]
  | .save => Json.arr #["save"]

def jOpt {α} (f : α → Json) : Option α → Json
  | none => Json.null
  | some a => f a

def jMeta (m : Meta) : Json :=
  Json.mkObj [("num_points", jNat m.numPoints), ("num_intervals", jInt m.numIntervals),
    ("shape", jOpt (jList jNat) m.shape),
    ("extents", jOpt (jList fun e => Json.arr #[jRat e.1, jRat e.2]) m.extents),
    ("snaking", jOpt (jList Json.bool) m.snaking)]

def jPlan (p : Plan) : Json := Json.mkObj [("res", "ok"), ("msgs", jList jMsg p.msgs), ("md", jMeta p.md)]

def jOutcome : Outcome Plan → Json
  | .valueError => Json.mkObj [("res", "ValueError")]
  | .typeError => Json.mkObj [("res", "TypeError")]
  | .ok p => jPlan p

def snakeAxesOf (j : Json) (k : String) : SnakeAxes :=
  match j.getObjVal? k with
  | .ok (Json.bool true) => .all
  | .ok (Json.arr a) => .these (a.toList.map asNat)
  | _ => .off

def handle (j : Json) : Json :=
  let trigFlags := (getArr j "dets").map asBool
  let dets := (List.range trigFlags.length).map Dev.det
  let trig : Dev → Bool := fun d => match d with | .det i => trigFlags.getD i false | .mot _ => false
  match getStr j "plan" with
  | "scan" =>
    let args := (getArr j "args").map fun a => (asRat ((asArr a).getD 0 Json.null), asRat ((asArr a).getD 1 Json.null))
    jOutcome (scan dets trig args (getNat j "num"))
  | "list_scan" => jOutcome (listScan dets trig (getRatLists j "lists"))
  | "scan_nd" =>
    let cols := getRatLists j "cols"
    match innerZip cols with
    | none => Json.mkObj [("res", "ValueError")]
    | some traj => jPlan { msgs := scanNd dets trig (List.range cols.length) traj, md := ndMeta traj }
  | "grid_scan" =>
    let axes := (getArr j "axes").map fun a =>
      (asRat ((asArr a).getD 0 Json.null), asRat ((asArr a).getD 1 Json.null), asNat ((asArr a).getD 2 Json.null))
    let rq := getObj j "req"
    let req : SnakeReq :=
      match getStr rq "kind" with
      | "off" => .axes .off
      | "all" => .axes .all
      | "these" => .axes (.these (getNatList rq "motors"))
      | "inargs" => .inArgs ((getArr rq "snakes").map asBool)
      | _ => .default
    jOutcome (gridScan dets trig axes req)
  | "list_grid_scan" => jOutcome (listGridScan dets trig (getRatLists j "lists") (snakeAxesOf j "snake_axes"))
  | "x2x_scan" =>
    let init := getRatList j "init"
    jOutcome (x2xScan dets trig (init.getD 0 0) (init.getD 1 0) (getRat j "start") (getRat j "stop") (getNat j "num"))
  | "log_scan" => jPlan (logScan dets trig (getRatList j "steps") (getNat j "num"))
  | _ => Json.mkObj [("error", "bad-plan")]

def main : IO Unit := serve handle
