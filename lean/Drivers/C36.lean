import BlueskyVerif.Util.DriverLib
import BlueskyVerif.Pure.StreamDatum
import BlueskyVerif.Pure.Consolidator
open Lean BlueskyVerif.Driver BlueskyVerif.StreamDatum BlueskyVerif.Consolidator

def sdOf (j : Json) : SD :=
  match (asArr j).map (fun x => asNat x) with
  | [u, d, r, i0, i1, s0, s1] => { uid := u, desc := d, res := r, iStart := i0, iStop := i1, sStart := s0, sStop := s1 }
  | _ => { uid := 0, desc := 0, res := 0, iStart := 0, iStop := 0, sStart := 0, sStop := 0 }

def sdJson (d : SD) : Json := jList jNat [d.uid, d.desc, d.res, d.iStart, d.iStop, d.sStart, d.sStop]

def joinOf? (j : Json) (k : String) : Option Join :=
  match j.getObjVal? k with
  | .ok (Json.str "stack") => some .stack
  | .ok (Json.str "concat") => some .concat
  | _ => none

def joinStr : Join → String
  | .stack => "stack"
  | .concat => "concat"

def cerrStr : CErr → String
  | .notImplemented => "NotImplementedError"
  | .valueError => "ValueError"
  | .indexError => "IndexError"

def optBool? (j : Json) (k : String) : Option Bool :=
  match j.getObjVal? k with
  | .ok (Json.bool b) => some b
  | _ => none

def optNatList (j : Json) (k : String) : List (Option Nat) :=
  (getArr j k).map (fun x => match x.getInt? with | .ok i => some i.toNat | .error _ => none)

def optIntList? (j : Json) (k : String) : Option (List Int) :=
  match j.getObjVal? k with
  | .ok (Json.arr a) => some (a.toList.map (fun x => asInt x))
  | _ => none

def snap (c : Cons) : Json :=
  Json.mkObj [("shape", jList jNat (shape c)),
              ("chunks", match chunks c with
                         | .ok cs => jList (jList jNat) cs
                         | .error e => Json.mkObj [("err", Json.str (cerrStr e))]),
              ("num_rows", jNat c.numRows)]

/-- dict items: first entry per key wins, sorted by key -/
def dictItems (m : List (Nat × Nat)) : List (Nat × Nat) :=
  let dedup := m.foldl (fun acc kv => if acc.any (fun x => x.1 == kv.1) then acc else acc ++ [kv]) []
  (dedup.toArray.qsort (fun a b => a.1 < b.1)).toList

def snaps (c : Cons) : List SD → List Json
  | [] => [snap c]
  | d :: ds => snap c :: snaps (consume c d) ds

def handle (j : Json) : Json :=
  match getStr j "k" with
  | "concat" =>
    match concat ((getArr j "docs").map sdOf) with
    | .ok d => Json.mkObj [("ok", sdJson d)]
    | .error .valueError => Json.mkObj [("err", "ValueError")]
    | .error .indexError => Json.mkObj [("err", "IndexError")]
  | "ls" => Json.mkObj [("out", jList jNat (listSummands (getNat j "A") (getNat j "b") (getNat j "r")))]
  | "cons" =>
    let a : CtorArgs := {
      classJoin := (joinOf? j "classJoin").getD .concat, classJoinChunks := getBool j "classJoinChunks" true,
      shape := optNatList j "shape", multiplier := (getInt? j "multiplier").map Int.toNat,
      chunkShape := optIntList? j "chunkShape", paramJoin := joinOf? j "paramJoin", paramJoinChunks := optBool? j "paramJoinChunks" }
    match construct a with
    | .error e => Json.mkObj [("ctor", Json.str (cerrStr e))]
    | .ok c =>
      let docs := (getArr j "docs").map sdOf
      let fin := consumeAll c docs
      Json.mkObj [("ctor", "ok"), ("datum_shape", jList jNat c.datumShape), ("chunk_shape", jList jNat c.chunkShape),
                  ("join", Json.str (joinStr c.join)), ("join_chunks", Json.bool c.joinChunks),
                  ("snaps", Json.arr (snaps c docs).toArray),
                  ("map", jList (fun kv => jList jNat [kv.1, kv.2]) (dictItems fin.map))]
  | _ => Json.mkObj [("error", "bad-kind")]

def main : IO Unit := serve handle
