import BlueskyVerif.Util.DriverLib
import BlueskyVerif.IO.JsonWriter
open Lean BlueskyVerif.Driver BlueskyVerif.JsonWriter

def optStr (j : Json) (k : String) : Option String :=
  match j.getObjVal? k with
  | .ok (Json.str s) => some s
  | _ => none

def outcomeName : Outcome → String
  | .ok => "ok" | .keyError => "KeyError" | .typeError => "TypeError" | .fileNotFound => "FileNotFoundError"

structure St where
  fs : FS
  writers : List (Bool × Writer)   -- (isLines, state)
  outcomes : List String

def setNth {α} : List α → Nat → α → List α
  | [], _, _ => []
  | _ :: r, 0, x => x :: r
  | a :: r, n + 1, x => a :: setNth r n x

def stepOp (today : String) (st : St) (op : Json) : St :=
  match getStr op "op" with
  | "new" => { st with writers := st.writers ++ [(getStr op "cls" == "lines", ⟨optStr op "filename"⟩)] }
  | _ =>
    let i := getNat op "w"
    match st.writers[i]? with
    | none => { st with outcomes := st.outcomes ++ ["no-such-writer"] }
    | some (isLines, w) =>
      let d : Doc := ⟨getStr op "name", getStr op "text", optStr op "uid"⟩
      let (w', fs', o) := if isLines then linesCall today w st.fs d else arrayCall w st.fs d
      { fs := fs', writers := setNth st.writers i (isLines, w'), outcomes := st.outcomes ++ [outcomeName o] }

def handle (j : Json) : Json :=
  let pre : FS := (getArr j "pre").map fun e =>
    match asArr e with
    | [p, c] => (asStr p, asStr c)
    | _ => ("", "")
  let st := (getArr j "ops").foldl (stepOp (getStr j "today")) ⟨pre, [], []⟩
  let parsed := st.fs.filterMap fun (p, c) =>
    if p.endsWith ".json" then
      some (Json.arr #[Json.str p, match Json.parse c with | .ok v => Json.str v.compress | .error _ => Json.null])
    else none
  let lines := st.fs.filterMap fun (p, c) =>
    if p.endsWith ".jsonl" then
      some (Json.arr #[Json.str p, jList (fun l => Json.str (String.ofList l)) (linesOf c.toList)])
    else none
  Json.mkObj [
    ("files", jList (fun (pc : String × String) => Json.arr #[Json.str pc.1, Json.str pc.2]) st.fs),
    ("outcomes", jList Json.str st.outcomes),
    ("filenames", jList (fun (bw : Bool × Writer) => match bw.2.filename with | some f => Json.str f | none => Json.null) st.writers),
    ("parsed", Json.arr parsed.toArray),
    ("lines", Json.arr lines.toArray)]

def main : IO Unit := serve handle
