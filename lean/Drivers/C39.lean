import BlueskyVerif.Util.DriverLib
import BlueskyVerif.IO.LiveDispatcher
open Lean BlueskyVerif.Driver BlueskyVerif.LiveDispatcher

def strList (j : Json) (k : String) : List String := (getArr j k).map asStr

def optStr (j : Json) (k : String) : Option String :=
  match j.getObjVal? k with
  | .ok (Json.str s) => some s
  | _ => none

def inpOf (j : Json) : BodyInp :=
  if getStr j "t" == "desc" then .rawDescriptor (getStr j "uid") (optStr j "name")
  else .call { stream := getStr j "stream", keys := strList j "keys", rawDesc := getStr j "raw", idArgs := strList j "id_args" }

def jOptNat : Option Nat → Json
  | none => Json.null
  | some n => jNat n

def jOptStr : Option String → Json
  | none => Json.null
  | some s => Json.str s

def docJson : Doc → Json
  | .start u => Json.mkObj [("t", "start"), ("uid", jNat u)]
  | .descriptor u rs n s ks =>
    Json.mkObj [("t", "descriptor"), ("uid", jNat u), ("run_start", jOptNat rs), ("name", jOptStr n),
                ("stream", Json.str s), ("keys", jList Json.str ks)]
  | .event u d n s =>
    Json.mkObj [("t", "event"), ("uid", jNat u), ("descriptor", jNat d), ("seq_num", jNat n), ("stream", Json.str s)]
  | .stop u rs ne =>
    Json.mkObj [("t", "stop"), ("uid", jNat u), ("run_start", jOptNat rs),
                ("num_events", jList (fun p => Json.arr #[Json.str p.1, jNat p.2]) ne)]

def handle (j : Json) : Json :=
  let runs := (getArr j "runs").map fun r => (asArr r).map inpOf
  Json.mkObj [("runs", jList (jList docJson) (session {} runs))]

def main : IO Unit := serve handle
