import BlueskyVerif.Util.DriverLib
import BlueskyVerif.Pure.PeakStats
open Lean BlueskyVerif.Driver BlueskyVerif.PeakStats

def parseRat (s : String) : Option Rat :=
  match s.splitOn "/" with
  | [a, b] =>
    match a.toInt?, b.toNat? with
    | some n, some d => if d = 0 then none else some (mkRat n d)
    | _, _ => none
  | [a] => a.toInt?.map fun n => (n : Rat)
  | _ => none

def ratStr (q : Rat) : String := s!"{q.num}/{q.den}"
def jRat (q : Rat) : Json := Json.str (ratStr q)
def jOptRat : Option Rat → Json
  | none => Json.null
  | some q => jRat q

def vecOf (a : Array Rat) : Vec := fun i => a.getD i 0

def handle (j : Json) : Json :=
  let xs := (getArr j "x").map fun e => parseRat (asStr e)
  let ys := (getArr j "y").map fun e => parseRat (asStr e)
  if xs.any Option.isNone || ys.any Option.isNone || xs.length != ys.length then
    Json.mkObj [("error", "bad-case")]
  else
    let xa := (xs.filterMap id).toArray
    let ya := (ys.filterMap id).toArray
    let n := xa.size
    if n = 0 then Json.mkObj [("empty", Json.bool true)] else
    let ec := getInt? j "ec" |>.map Int.toNat
    match calcStats n (vecOf xa) (vecOf ya) ec with
    | none => Json.mkObj [("degenerate", Json.bool true)]
    | some s =>
      Json.mkObj [
        ("n", jNat n),
        ("min_idx", jNat s.minIdx), ("max_idx", jNat s.maxIdx),
        ("min", Json.arr #[jRat (xa.getD s.minIdx 0), jRat (ya.getD s.minIdx 0)]),
        ("max", Json.arr #[jRat (xa.getD s.maxIdx 0), jRat (ya.getD s.maxIdx 0)]),
        ("mid", jRat s.mid),
        ("com", jOptRat s.com),
        ("cross_idx", jList jNat s.crossIdx),
        ("crossings", jList jRat s.crossings),
        ("cen", jOptRat s.cen),
        ("fwhm", jOptRat s.fwhm),
        ("bkg", match s.bkg with
          | none => Json.null
          | some b => Json.mkObj [("m", jRat b.m), ("b", jRat b.b)])]

def main : IO Unit := serve handle
