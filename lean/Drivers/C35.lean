import BlueskyVerif.Util.DriverLib
import BlueskyVerif.IO.Normalizer
import BlueskyVerif.IO.NormalizerFlow
import BlueskyVerif.IO.Backup
open Lean BlueskyVerif.Driver

namespace C35Driver
open BlueskyVerif.NormFlow

def dval (j : Json) : DVal :=
  match j with
  | Json.str s => .str s
  | _ => .num (asInt j)

def jDVal : DVal → Json
  | .num n => jInt n
  | .str s => Json.str s

def pairs (j : Json) (k : String) : List (Json × Json) :=
  (getArr j k).filterMap fun p => match asArr p with
    | [a, b] => some (a, b)
    | _ => none

def eventIn (j : Json) : EventIn :=
  { desc := getStr j "desc", seq := getInt j "seq",
    data := (pairs j "data").map (fun p => (asStr p.1, dval p.2)),
    filled := (pairs j "filled").map (fun p => (asStr p.1, match p.2 with | Json.bool b => b | _ => false)) }

def datumIn (j : Json) : Datum := { id := getStr j "id", resource := getStr j "resource", frame := getInt? j "frame" }

def docIn (j : Json) : Doc :=
  match getStr j "n" with
  | "start" => .start
  | "stop" => .stop
  | "descriptor" =>
    let ik : List String := (getArr j "int").map (fun x => asStr x)
    let ek : List String := (getArr j "ext").map (fun x => asStr x)
    .descriptor ⟨getStr j "uid", getStr j "name", ik, ek⟩
  | "resource" => .resource (getStr j "uid") (getBool j "valid" true)
  | "stream_resource" => .streamResource (getStr j "uid") (getStr j "data_key") (getBool j "valid" true)
  | "datum" => .datum (datumIn j)
  | "datum_page" => .datumPage ((getArr j "datums").map datumIn)
  | "event" => .event (eventIn j)
  | "event_page" => .eventPage ((getArr j "events").map eventIn)
  | "stream_datum" => .streamDatum ⟨getStr j "uid", getStr j "sres", getStr j "desc", getInt j "i0", getInt j "i1", getInt j "s0", getInt j "s1"⟩
  | _ => .start

def jSD (sd : SDat) : Json :=
  Json.mkObj [("n", "stream_datum"), ("uid", sd.uid), ("sres", sd.sres), ("desc", sd.desc),
    ("i0", jInt sd.i0), ("i1", jInt sd.i1), ("s0", jInt sd.s0), ("s1", jInt sd.s1)]

def jOut : Out → Json
  | .start => Json.mkObj [("n", "start")]
  | .stop => Json.mkObj [("n", "stop")]
  | .descriptor uid name ik ek => Json.mkObj [("n", "descriptor"), ("uid", uid), ("name", name),
      ("int", jList Json.str ik), ("ext", jList Json.str ek)]
  | .event d s data => Json.mkObj [("n", "event"), ("desc", d), ("seq", jInt s),
      ("data", jList (fun kv => Json.arr #[Json.str kv.1, jDVal kv.2]) data)]
  | .streamResource uid dk => Json.mkObj [("n", "stream_resource"), ("uid", uid), ("data_key", dk)]
  | .streamDatum sd _ => jSD sd

def flow (j : Json) : Json :=
  let r := run ((getArr j "docs").map docIn)
  Json.mkObj [("outs", jList jOut r.outs), ("err", match r.err with | some e => Json.str e | none => Json.null),
    ("pending", jNat r.st.extRefs.length)]

end C35Driver

namespace C35Alias
open BlueskyVerif.Normalizer

/-- allocate a JSON value in the heap (children first), returning the value that denotes it -/
partial def alloc (h : Heap) (j : Json) : Heap × Val :=
  match j with
  | Json.obj kvs =>
    let (h', fields) := kvs.toList.foldl (fun (acc : Heap × Obj) (kv : String × Json) =>
      let (h1, v) := alloc acc.1 kv.2
      (h1, acc.2 ++ [(kv.1, v)])) (h, [])
    (h' ++ [fields], .ref h'.length)
  | Json.arr xs =>
    let (h', fields, _) := xs.toList.foldl (fun (acc : Heap × Obj × Nat) (x : Json) =>
      let (h1, v) := alloc acc.1 x
      (h1, acc.2.1 ++ [(toString acc.2.2, v)], acc.2.2 + 1)) (h, [], 0)
    (h' ++ [fields], .ref h'.length)
  | Json.str s => (h, .atom (s.hash.toNat : Int))
  | Json.num n => (h, .atom n.mantissa)
  | Json.bool b => (h, .atom (if b then 1 else 0))
  | Json.null => (h, .atom (-1))

def handlerOf : String → Handler
  | "start" => .start | "stop" => .stop | "descriptor" => .descriptor | "event" => .event
  | "event_page" => .eventPage | "resource" => .resource | "stream_resource" => .streamResource
  | "stream_datum" => .streamDatum | "datum" => .datum | _ => .datumPage

/-- every action of the handler once, on each of the first three cached documents -/
def allSteps (T : Table) (hd : Handler) : List Step :=
  (List.range (T.actions (eff T hd)).length).flatMap fun i => [0, 1, 2].map fun p => { idx := i, pick := p, key := "frame" }

def alias (j : Json) : Json :=
  let calls := getArr j "calls"
  let (h0, inputs) := calls.foldl (fun (acc : Heap × List (Handler × Nat)) c =>
    match alloc acc.1 (getObj c "doc") with
    | (h1, .ref r) => (h1, acc.2 ++ [(handlerOf (getStr c "handler"), r)])
    | (h1, _) => (h1, acc.2)) (([] : Heap), [])
  let T := generatedTable
  let σ := run T { heap := h0 } (inputs.map fun p => { handler := p.1, input := p.2, steps := allSteps T p.1 })
  let changed := (List.range h0.length).filter fun r => σ.heap[r]? != h0[r]?
  Json.mkObj [("changed", jList jNat changed), ("heap0", jNat h0.length), ("heap1", jNat σ.heap.length),
    ("safe", Json.bool T.safe)]

end C35Alias

def backup (j : Json) : Json :=
  let fails := (getArr j "fails").map (fun b => match b with | Json.bool true => true | _ => false)
  let xs := (List.range fails.length).zip fails
  let s : BlueskyVerif.Backup.BState Nat := BlueskyVerif.Backup.runAll (getNat j "maxlen") xs
  Json.mkObj [("log", jList jNat s.log), ("buffer", jList jNat s.buffer), ("raised", Json.bool s.raised)]

def handle (j : Json) : Json :=
  match getStr j "kind" with
  | "flow" => C35Driver.flow j
  | "alias" => C35Alias.alias j
  | "backup" => backup j
  | _ => Json.mkObj [("error", "bad-kind")]

def main : IO Unit := serve handle
