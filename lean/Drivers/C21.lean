import BlueskyVerif.Gen.Driver
import BlueskyVerif.Gen.Mutators
open Lean BlueskyVerif.Driver BlueskyVerif.Gen BlueskyVerif.Gen.Driver

structure Rule where
  payload : Nat
  head : Option Stmt
  tail : Option Stmt

def parseOpt (j : Json) (k : String) : Except String (Option Stmt) :=
  match getObj j k with
  | Json.null => pure none
  | a => do pure (some (← parsePlan a))

def parseRule (j : Json) : Except String Rule := do
  pure { payload := getNat j "payload", head := ← parseOpt j "head", tail := ← parseOpt j "tail" }

/-- the processor: the first rule for the message's payload decides; the n-th call creates the
    generator instances [1, n, 0] (head) and [1, n, 1] (tail) -/
def procOf (rules : List Rule) : Proc Msg Val Val Exc := fun log m =>
  match rules.find? (·.payload == m.payload) with
  | none => (none, none)
  | some r => (r.head.map (interp [1, log.length, 0]), r.tail.map (interp [1, log.length, 1]))

/-- request: {"host": AST, "rules": [{"payload","head","tail"}], "scripts": [...]}
    reply: {"traces": [...]} -/
def handle (j : Json) : Json :=
  let r : Except String Json := do
    let host ← parsePlan (getObj j "host")
    let rules ← (getArr j "rules").mapM parseRule
    let scripts ← (getArr j "scripts").mapM parseScript
    let b := planMutator driverFuel Msg.ident (procOf rules) (interp [0] host)
    pure (Json.mkObj [("traces", jList (fun s => jTrace (run b s)) scripts)])
  match r with
  | .ok j => j
  | .error e => jErr e

def main : IO Unit := serve handle
