import BlueskyVerif.Util.DriverLib
import BlueskyVerif.IO.TiledWriter
open Lean BlueskyVerif.Driver BlueskyVerif.TiledWriter

def sdIn (j : Json) : SD :=
  ⟨getStr j "uid", getStr j "sres", getStr j "desc", getInt j "i0", getInt j "i1", getInt j "s0", getInt j "s1"⟩

def opIn (j : Json) : Op Int :=
  match getStr j "op" with
  | "event" => .event (getStr j "stream") (getInt j "seq")
  | _ => .sdat (sdIn j)

def jSD (d : SD) : Json :=
  Json.mkObj [("uid", d.uid), ("i0", jInt d.i0), ("i1", jInt d.i1), ("s0", jInt d.s0), ("s1", jInt d.s1)]

/-- request: {"batch": b, "ops": [...], "streams": [...], "sres": [...]}
    reply: per stream the partitions (lists of seq_nums), per stream resource the stream datums written -/
def handle (j : Json) : Json :=
  let w := runOps (getInt j "batch") ((getArr j "ops").map opIn)
  let streams := (getArr j "streams").map (fun x => asStr x)
  let sres := (getArr j "sres").map (fun x => asStr x)
  Json.mkObj [
    ("parts", Json.mkObj (streams.map fun s => (s, jList (jList jInt) (w.parts s)))),
    ("left", Json.mkObj (streams.map fun s => (s, jNat (w.rows s).length))),
    ("ext", Json.mkObj (sres.map fun k => (k, jList jSD (w.extW k))))]

def main : IO Unit := serve handle
