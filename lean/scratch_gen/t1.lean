import BlueskyVerif.Gen.Mutators
namespace BlueskyVerif.Gen
variable {M R V E : Type} [Inhabited R] [DecidableEq R] [Inhabited V] [PyExc E]

/-- scripts: a list of sends/throws, optionally ended by `close` -/
def Cmd.ofInp : Inp R E → Cmd R E
  | .send r => .send r
  | .throw e => .throw e

def script (ins : List (Inp R E)) (closeAtEnd : Bool) : List (Cmd R E) :=
  ins.map Cmd.ofInp ++ (if closeAtEnd then [.close] else [])

inductive MMRel (f : Nat) (p : Beh M R V E) : Pos M R V E → Pos M R V E → Prop where
  | fresh : MMRel f p (Pos.new (msgMutator (f+1) some p)) (Pos.new p)
  | live (h) (q : Pos M R V E) (hq : q.status = .live)
      (hs : Machine.state (mmStep (f+1) some p) .init h = .atYield q) :
      MMRel f p ⟨msgMutator (f+1) some p, h, .live⟩ q
  | dead (w q : Pos M R V E) (hw : w.status = .dead) (hq : q.status = .dead) : MMRel f p w q

theorem mm_resume (f : Nat) (p : Beh M R V E) (w q : Pos M R V E) (h : MMRel f p w q)
    (i : Inp R E) (hi : ∀ e, i = .throw e → isGenExit e = false) :
    (w.resume i).1 = (q.resume i).1 ∧ MMRel f p (w.resume i).2 (q.resume i).2 := by
  cases h with
  | fresh =>
    cases i with
    | throw e => exact ⟨rfl, .dead _ _ rfl rfl⟩
    | send r =>
      by_cases hr : r = default
      · subst hr
        simp [Pos.resume, Pos.new, Pos.advance, msgMutator, mmStep]
        trace_state; sorry
      · simp [Pos.resume, Pos.new, hr]; exact .fresh
  | live h q hq hs => sorry
  | dead w q hw hq => sorry
end BlueskyVerif.Gen
