import BlueskyVerif.Engine.Sim
namespace BlueskyVerif.Engine

theorem assocGet_assocSet_same {β} (k : String) (v : β) (l : List (String × β)) :
    assocGet k (assocSet k v l) = some v := by
  induction l with
  | nil => simp [assocSet, assocGet]
  | cons x xs ih =>
    obtain ⟨k', v'⟩ := x
    unfold assocSet
    split
    · simp [assocGet]
    · rename_i h; simp [assocGet, h, ih]

theorem assocGet_assocSet_ne {β} (k k' : String) (v : β) (l : List (String × β)) (h : k' ≠ k) :
    assocGet k (assocSet k' v l) = assocGet k l := by
  induction l with
  | nil => simp [assocSet, assocGet, h]
  | cons x xs ih =>
    obtain ⟨k'', v''⟩ := x
    unfold assocSet
    split
    · rename_i h2; subst h2; simp [assocGet, h]
    · rename_i h2
      by_cases h3 : k'' = k
      · simp [assocGet, h3]
      · simp [assocGet, h3, ih]

def keys {β} (l : List (String × β)) : List String := l.map (·.1)

theorem keys_assocSet {β} (k : String) (v : β) (l : List (String × β)) :
    keys (assocSet k v l) = if k ∈ keys l then keys l else keys l ++ [k] := by
  induction l with
  | nil => simp [assocSet, keys]
  | cons x xs ih =>
    obtain ⟨k', v'⟩ := x
    unfold assocSet
    split
    · rename_i h; subst h; simp [keys]
    · rename_i h
      have h' : ¬ k = k' := fun e => h e.symm
      simp only [keys, List.map_cons, List.mem_cons, h', false_or] at ih ⊢
      rw [ih]; split <;> simp [*]

theorem nodup_keys_assocSet {β} (k : String) (v : β) (l : List (String × β)) (h : (keys l).Nodup) :
    (keys (assocSet k v l)).Nodup := by
  rw [keys_assocSet]; split
  · exact h
  · rename_i hk
    rw [List.nodup_append]
    refine ⟨h, by simp, ?_⟩
    intro a ha b hb
    simp at hb; subst hb
    intro e; subst e; exact hk ha

end BlueskyVerif.Engine
