import BlueskyVerif.Lemmas.C41Cmds
namespace BlueskyVerif.Engine

theorem cmdMonitor_state (s : EState) (m : Msg) (b : Bundler) (hb : getBundler s m = some b)
    (hfree : assocGet (m.obj.getD "") b.monitors = none) :
    (cmdMonitor s m).1 =
      resetCheckpointMeth (putBundler
        (restStep b.runId (prepareStream s b (m.name.getD (m.obj.getD "" ++ "_monitor")) [m.obj.getD ""]).1
          (m.obj.getD "", m.name.getD (m.obj.getD "" ++ "_monitor"))) m
        { (prepareStream s b (m.name.getD (m.obj.getD "" ++ "_monitor")) [m.obj.getD ""]).2 with
          monitors := b.monitors ++ [(m.obj.getD "", m.name.getD (m.obj.getD "" ++ "_monitor"))] }) := by
  unfold cmdMonitor
  rw [hb]
  simp only [hfree, Option.isSome_none, Bool.false_eq_true, if_false]
  rfl

theorem cmdUnmonitor_state (s : EState) (m : Msg) (b : Bundler) (stream : String) (hb : getBundler s m = some b)
    (hmon : assocGet (m.obj.getD "") b.monitors = some stream) :
    (cmdUnmonitor s m).1 =
      resetCheckpointMeth (putBundler (suspStep b.runId s (m.obj.getD "", stream)) m
        ({ b with monitors := assocErase (m.obj.getD "") b.monitors } : Bundler).resetCheckpoint) := by
  unfold cmdUnmonitor
  rw [hb]
  simp only [hmon, Option.isNone_some, Bool.false_eq_true, if_false, Option.getD_some]
  rfl
end BlueskyVerif.Engine
