import BlueskyVerif.Lemmas.C40Engine
namespace BlueskyVerif.Engine

theorem cmdOpenRun_on (s : EState) (m : Msg) (h : getBundler s m = none) (hr : s.recordInterruptions = true) :
    (cmdOpenRun s m).1.bundlers = s.bundlers ++ [(runKey m, { runId := s.nextRun, recordInt := true, seq := [("interruptions", 1)] })] ∧
    (cmdOpenRun s m).1.docs = s.docs ++ [{ kind := "start", run := s.nextRun, seq := s.scanId + 1 },
      { kind := "descriptor", run := s.nextRun, stream := "interruptions", keys := ["interruption"] }] := by
  simp [cmdOpenRun, h, hr, EState.emit, Bundler.resetCheckpoint, assocSet]

theorem cmdOpenRun_off (s : EState) (m : Msg) (h : getBundler s m = none) (hr : s.recordInterruptions = false) :
    (cmdOpenRun s m).1.bundlers = s.bundlers ++ [(runKey m, { runId := s.nextRun })] ∧
    (cmdOpenRun s m).1.docs = s.docs ++ [{ kind := "start", run := s.nextRun, seq := s.scanId + 1 }] := by
  simp [cmdOpenRun, h, hr, EState.emit, Bundler.resetCheckpoint]

end BlueskyVerif.Engine
