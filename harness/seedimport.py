"""Copy a seeding sub-agent's deliverable into /verif/seeded/<id>/ with a meta.json.
usage: seedimport.py <src dir with patch.diff demo.py notes.md> <Cxx-L> "<breaks>" "<needs>" """
import json
import shutil
import sys
from pathlib import Path

V = Path(__file__).resolve().parent.parent
src, name, breaks, needs = Path(sys.argv[1]), sys.argv[2], sys.argv[3], sys.argv[4]
d = V / "seeded" / name
d.mkdir(parents=True, exist_ok=True)
for f in ("patch.diff", "demo.py", "notes.md"):
    shutil.copy(src / f, d / f)
meta = {"property": name.split("-")[0], "breaks": breaks, "needs": needs,
        "origin": "independent seeding sub-agent (property text + scratch worktree only)"}
(d / "meta.json").write_text(json.dumps(meta, indent=1))
print("imported", name)
