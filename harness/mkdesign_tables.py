"""Rewrite the generated tables of DESIGN.md (findings, seeded changes) from known_findings.json and seeded/*/meta.json."""
import json
import re
from pathlib import Path

V = Path(__file__).resolve().parent.parent
kf = json.loads((V / "known_findings.json").read_text())
lines = ["<!-- BEGIN GENERATED findings -->", "", "### 8a.1 Defects repaired in /repo (one `fix:` commit each; `fixed` entries suppress nothing)", "", "| property | commit | what failed |", "|---|---|---|"]
for f in kf.get("fixed", []):
    lines.append(f"| {f['property']} | `{f['commit']}` | {f['what_failed']} |")
lines += ["", "### 8a.2 Open findings (genuine defects recorded, not repaired; matched by signature, `KNOWN-FINDING:` printed, exit 0)", "", "| property | signature | what fails |", "|---|---|---|"]
for f in kf.get("findings", []):
    if f.get("status") == "open":
        lines.append(f"| {f['property']} | `{f['signature']}` | {f['what_fails']} |")
lines += ["", "<!-- END GENERATED findings -->"]
seeds = ["<!-- BEGIN GENERATED seeded -->", "", "| seeded change | property | what it breaks | needs | demo fails with / passes without | `./check` result |", "|---|---|---|---|---|---|"]
for d in sorted((V / "seeded").glob("*/meta.json")):
    m = json.loads(d.read_text())
    c = m.get("confirmed", {})
    res = "not run"
    if c:
        res = ("caught with a concrete replay" if c.get("caught_with_input") else "caught (no-failing-input-found)" if c.get("caught") else "MISSED") + f" ({c.get('check_s', '?')} s); clean tree afterwards: exit {c.get('clean_check_rc')}"
        if m.get("strengthened"):
            res += "; first missed -> " + m["strengthened"]
    seeds.append(f"| `seeded/{d.parent.name}` | {m['property']} | {m['breaks']} | {m['needs']} | {c.get('demo_patched_rc')} / {c.get('demo_unchanged_rc')} | {res} |")
seeds += ["", "<!-- END GENERATED seeded -->"]
import importlib
import sys

sys.path.insert(0, str(V / "harness"))
status = ["<!-- BEGIN GENERATED status -->", "", "| id | obligations (theorems in Props/Cxx.lean) | claim, in the check's own words (MANIFEST `level_claimed.text`) |", "|---|---|---|"]
import common as C  # noqa: E402

for l in open(V / "properties.jsonl"):
    pid = json.loads(l)["id"]
    try:
        mod = importlib.import_module(f"props.{pid}")
    except Exception as e:  # noqa
        status.append(f"| {pid} | - | (module not importable: {e}) |")
        continue
    n = sum(len(C.theorem_names(m)) for m in mod.LEAN_MODULES)
    text = " ".join(str(mod.MANIFEST.get("text", "")).split())
    status.append(f"| {pid} | {n} | {text[:700]} |")
status += ["", "<!-- END GENERATED status -->"]
s = (V / "DESIGN.md").read_text()
for name, block in (("findings", lines), ("seeded", seeds), ("status", status)):
    pat = re.compile(rf"<!-- BEGIN GENERATED {name} -->.*?<!-- END GENERATED {name} -->", re.S)
    text = "\n".join(block)
    if pat.search(s):
        s = pat.sub(lambda m: text, s)
    else:
        s += "\n\n" + text + "\n"
(V / "DESIGN.md").write_text(s)
print("ok")
