"""Generate frame-lemma files lean/BlueskyVerif/Lemmas/BundlerKeeps<Name>.lean from templates/frame.tpl.

For a projection of the bundler state the template states, for every primitive and every operation of
the model, that the projection is unchanged.  Statements that are false for the projection fail to
compile; the generator removes exactly those theorems (and the ones depending on them), then emits
`Op.touches<Name>` (the operations without a lemma) and `keeps_step`.
Usage: python3 gen_frames.py Name "lean projection term" "description"
"""
import re
import subprocess
import sys
from pathlib import Path

LEAN = Path(__file__).resolve().parent.parent / "lean"
OPS = {  # constructor pattern -> (lemma name, application)
    "closeRun e r": ("keeps_closeRun", "keeps_closeRun s e r"),
    "create n": ("keeps_create", "keeps_create s n"),
    "read o rd": ("keeps_read", "keeps_read w s o rd"),
    "save": ("keeps_save", "keeps_save w s"),
    "drop": ("keeps_drop", "keeps_drop s"),
    "monitor o n": ("keeps_monitor", "keeps_monitor w s o n"),
    "unmonitor o": ("keeps_unmonitor", "keeps_unmonitor s o"),
    "monitorUpdate o rd": ("keeps_monitorUpdate", "keeps_monitorUpdate s o rd"),
    "suspendMonitors": ("keeps_suspendMonitors", "keeps_suspendMonitors s"),
    "restoreMonitors": ("keeps_restoreMonitors", "keeps_restoreMonitors s"),
    "clearMonitors": ("keeps_clearMonitors", "keeps_clearMonitors s"),
    "recordInterruption c": ("keeps_recordInterruption", "keeps_recordInterruption s c"),
    "rewind": ("keeps_rewind", "keeps_rewind w s"),
    "resetCheckpoint": ("keeps_resetCheckpoint", "keeps_resetCheckpoint w s"),
    "clearCheckpoint": ("keeps_clearCheckpoint", "keeps_clearCheckpoint w s"),
    "configure o": ("keeps_configure", "keeps_configure w s o"),
    "declareStream n objs c": ("keeps_declareStream", "keeps_declareStream w s n objs c"),
    "kickoff o": ("keeps_kickoff", "keeps_kickoff s o"),
    "collect objs n mis": ("keeps_collect", "keeps_collect w s objs n mis"),
    "backstopCollect": ("keeps_backstopCollect", "keeps_backstopCollect w s"),
    "setCfg o c": ("keeps_setCfg", "keeps_setCfg w s o c"),
    "advance o k": ("keeps_advance", "keeps_advance w s o k"),
}


def blocks(text):
    """split into (header, [theorem blocks], footer) -- a block starts at a line beginning with `theorem `"""
    lines = text.split("\n")
    idx = [i for i, l in enumerate(lines) if l.startswith("theorem ")]
    stop = next(i for i, l in enumerate(lines) if l.startswith("--@@STEP@@"))
    head = lines[: idx[0]]
    bl = []
    for a, b in zip(idx, idx[1:] + [stop]):
        if a < stop:
            bl.append(lines[a : min(b, stop)])
    return head, bl, lines[stop:]


def build(path):
    p = subprocess.run(["lake", "env", "lean", str(path)], cwd=LEAN, capture_output=True, text=True)
    errs = sorted({int(m.group(1)) for m in re.finditer(r":(\d+):\d+: error", p.stdout + p.stderr)})
    return errs, p.stdout + p.stderr


def main(name, proj, desc):
    tpl = (Path(__file__).parent / "templates" / "frame.tpl").read_text()
    text = tpl.replace("@@NAME@@", name).replace("@@PROJ@@", proj).replace("@@DESC@@", desc)
    out = LEAN / "BlueskyVerif" / "Lemmas" / f"BundlerKeeps{name}.lean"
    head, bl, foot = blocks(text)
    core = {"Keeps.refl", "Keeps.trans", "Keeps.of_rfl", "keeps_andThen", "keeps_foldl", "keeps_foldl_state"}
    for _ in range(40):
        cur = "\n".join(head + [l for b in bl for l in b] + foot)
        out.write_text(cur)
        errs, log = build(out)
        if not errs:
            break
        # map the first error line to its block
        lines = cur.split("\n")
        bad = set()
        for e in errs:
            ln = e - 1
            start = max(i for i in range(ln + 1) if lines[i].startswith("theorem "))
            bad.add(lines[start].split()[1])
        if bad & core:
            raise SystemExit(f"core lemma fails:\n{log[:2000]}")
        bl = [b for b in bl if b[0].split()[1] not in bad]
    else:
        raise SystemExit("did not converge")
    have = {b[0].split()[1] for b in bl}
    touched = [pat for pat, (lem, _) in OPS.items() if lem not in have]
    step = [f"/-- the operations that can change `{desc}` -/", f"def touches : Op → Bool"]
    for pat in touched:
        c = pat.split()
        step.append(f"  | .{c[0]}" + " _" * (len(c) - 1) + " => true")
    step.append("  | _ => false")
    step += ["", "theorem keeps_step (w : World) (s : BState) (op : Op) (h : touches op = false) :", "    Keeps s (step w s op).st := by", "  cases op with"]
    for pat, (lem, app) in OPS.items():
        if lem in have:
            step.append(f"  | {pat} => exact {app}")
        else:
            step.append(f"  | {pat} => simp [touches] at h")
    cur = "\n".join(head + [l for b in bl for l in b] + step + [""] + foot[1:])
    out.write_text(cur)
    errs, log = build(out)
    if errs:
        raise SystemExit(f"final file fails:\n{log[:3000]}")
    print(f"{out.name}: kept {len(have)} lemmas; touching ops: {[t.split()[0] for t in touched]}")


if __name__ == "__main__":
    main(*sys.argv[1:4])
