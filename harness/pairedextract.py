"""Translator for the paired-action wrappers (C23) and the relative-move wrappers (C24): re-reads
src/bluesky/preprocessors.py (and plan_stubs.py) with `ast` and regenerates
lean/BlueskyVerif/Gen/GeneratedPaired.lean / GeneratedRelative.lean -- the facts the hand-written
Lean models in Gen/Paired.lean / Gen/Relative.lean are parametrised by (which cleanup helper, in which
order devices are staged / unstaged, the `close_run` arguments of run_wrapper per exception class,
the COMMANDS table of lazily_stage_wrapper, which message lists monitor/fly_during splice in where,
...).  Every other statement of the wrappers is compared with the transcribed shape; if a shape is
not recognised the extractor raises `Unrecognised` (never guesses) and the check reports the proof
obligations as no longer checked.
"""
from __future__ import annotations

import ast
import re

import common as C


class Unrecognised(Exception):
    pass


def _func(tree, name):
    for n in tree.body:
        if isinstance(n, ast.FunctionDef) and n.name == name:
            return n
    raise Unrecognised(f"function {name} not found")


def _body(fn):
    b = fn.body
    if b and isinstance(b[0], ast.Expr) and isinstance(b[0].value, ast.Constant) and isinstance(b[0].value.value, str):
        b = b[1:]
    return [ast.unparse(s) for s in b]


def _match(fn_name, stmts, templates):
    """stmts: unparsed statements; templates: strings where «name:alt1|alt2|...» is a hole whose
    alternatives are regexes; returns {name: matched text}"""
    if len(stmts) != len(templates):
        raise Unrecognised(f"{fn_name}: {len(stmts)} statements, the transcription has {len(templates)}")
    out = {}
    for i, (s, t) in enumerate(zip(stmts, templates)):
        parts = re.split(r"«([^»]*)»", t)
        rx = ""
        for j, part in enumerate(parts):
            if j % 2 == 0:
                rx += re.escape(part)
            else:
                name, alts = part.split(":", 1)
                rx += f"(?P<{name}>{alts})"
        m = re.fullmatch(rx, s, flags=re.S)
        if not m:
            raise Unrecognised(f"{fn_name}: statement {i} is not the transcribed one: {s!r}")
        out.update(m.groupdict())
    return out


STATUS = {"success": ".success", "abort": ".abort", "fail": ".fail"}


def _close_args(fn_name, text):
    """`close_run(...)` call text -> (status source, reason flag)"""
    call = ast.parse(text, mode="eval").body
    if not (isinstance(call, ast.Call) and isinstance(call.func, ast.Name) and call.func.id == "close_run" and not call.args):
        raise Unrecognised(f"{fn_name}: not a close_run(...) call with keywords only: {text}")
    status, reason = ".absent", False
    for kw in call.keywords:
        v = ast.unparse(kw.value)
        if kw.arg == "exit_status":
            if isinstance(kw.value, ast.Constant) and kw.value.value in STATUS:
                status = f".const {STATUS[kw.value.value]}"
            elif v == "e.exit_status":
                status = ".ofExc"
            elif isinstance(kw.value, ast.Constant) and kw.value.value is None:
                status = ".absent"
            else:
                raise Unrecognised(f"{fn_name}: exit_status={v} not understood")
        elif kw.arg == "reason":
            if v == "str(e)":
                reason = True
            elif isinstance(kw.value, ast.Constant) and kw.value.value is None:
                reason = False
            else:
                raise Unrecognised(f"{fn_name}: reason={v} not understood")
        else:
            raise Unrecognised(f"{fn_name}: close_run keyword {kw.arg}")
    return status, reason


def _order(fn_name, text, var):
    if text == f"*{var}":
        return ".forward"
    if text == f"*reversed({var})":
        return ".reversed"
    raise Unrecognised(f"{fn_name}: argument list {text!r} is neither *{var} nor *reversed({var})")


CMD = {
    "read": ".read",
    "set": ".set",
    "trigger": ".trigger",
    "kickoff": ".kickoff",
    "stage": ".stage",
    "unstage": ".unstage",
    "complete": ".complete",
    "collect": ".collect",
    "monitor": ".monitor",
    "unmonitor": ".unmonitor",
    "open_run": ".openRun",
    "close_run": ".closeRun",
    "null": ".null",
    "wait": ".wait",
    "locate": ".locate",
    "create": ".create",
    "save": ".save",
    "checkpoint": ".checkpoint",
    "pause": ".pause",
    "subscribe": ".subscribe",
    "unsubscribe": ".unsubscribe",
}
PART = {"monitor_msgs": ".monitor", "unmonitor_msgs": ".unmonitor", "kickoff_msgs": ".kickoff", "complete_msgs": ".complete", "collect_msgs": ".collect"}

CALL = r"[^\n]*"


def _parts(fn_name, body_text, with_msg):
    """body of a `new_gen` of the *_during wrappers: `yield from ensure_generator(X)`... [`yield msg`]"""
    lines = [l.strip() for l in body_text.split("\n") if l.strip()]
    parts = []
    saw_msg = False
    for l in lines:
        m = re.fullmatch(r"yield from ensure_generator\((\w+)\)", l)
        if m and m.group(1) in PART and not saw_msg:
            parts.append(m.group(1))
        elif l == "yield msg" and with_msg and not saw_msg:
            saw_msg = True
        else:
            raise Unrecognised(f"{fn_name}: new_gen statement {l!r} not understood")
    if with_msg and not saw_msg:
        raise Unrecognised(f"{fn_name}: the close_run message is not re-yielded at the end of new_gen")
    return parts


def extract_paired():
    path = C.SRC / "preprocessors.py"
    tree = ast.parse(path.read_text())
    facts = {"source": str(path)}

    # ------------------------------------------------------------------ run_wrapper
    fn = _func(tree, "run_wrapper")
    g = _match(
        "run_wrapper",
        _body(fn),
        [
            "rs_uid = (yield from open_run(md))",
            "def except_plan(e):\n    if isinstance(e, «cls:\\w+»):\n        yield from «ctl:" + CALL + "»\n    else:\n        yield from «oth:" + CALL + "»",
            "yield from contingency_wrapper(plan, except_plan=except_plan, else_plan=«els:\\w+»)",
            "return rs_uid",
        ],
    )
    if g["cls"] != "RunEngineControlException":
        raise Unrecognised(f"run_wrapper: except_plan tests isinstance(e, {g['cls']}); the model knows RunEngineControlException")
    if g["els"] != "close_run":
        raise Unrecognised(f"run_wrapper: else_plan={g['els']}; the model knows close_run")
    facts["rwControlClose"] = _close_args("run_wrapper", g["ctl"])
    facts["rwOtherClose"] = _close_args("run_wrapper", g["oth"])
    facts["rwElseClose"] = (".absent", False)
    facts["rwCleanup"] = ".contingency"

    # ------------------------------------------------------------------ stage_wrapper
    fn = _func(tree, "stage_wrapper")
    g = _match(
        "stage_wrapper",
        _body(fn),
        [
            "devices = separate_devices((root_ancestor(device) for device in devices))",
            "def stage_devices():\n    yield from stage_all(«st:[^\n]*»)",
            "def unstage_devices():\n    yield from unstage_all(«un:[^\n]*»)",
            "def inner():\n    yield from stage_devices()\n    return (yield from plan)",
            "return (yield from finalize_wrapper(inner(), unstage_devices()))",
        ],
    )
    facts["swStageOrder"] = _order("stage_wrapper", g["st"], "devices")
    facts["swUnstageOrder"] = _order("stage_wrapper", g["un"], "devices")

    # ------------------------------------------------------------------ lazily_stage_wrapper
    fn = _func(tree, "lazily_stage_wrapper")
    g = _match(
        "lazily_stage_wrapper",
        _body(fn),
        [
            "COMMANDS = set(«cmds:\\[[^\\]]*\\]»)",
            "devices_staged = []",
            "def inner(msg):\n    if msg.command in COMMANDS and msg.obj not in devices_staged:\n        root = root_ancestor(msg.obj)\n"
            "        if root in devices_staged:\n            return (None, None)\n\n"
            "        def new_gen():\n            ret = (yield Msg('stage', root))\n            if ret is None:\n                ret = [root]\n"
            "            devices_staged.extend(ret)\n            yield msg\n        return (new_gen(), None)\n    else:\n        return (None, None)",
            "def inner_unstage_all():\n    yield from unstage_all(«un:[^\n]*»)",
            "return (yield from finalize_wrapper(plan_mutator(plan, inner), inner_unstage_all()))",
        ],
    )
    cmds = ast.literal_eval(g["cmds"])
    for c in cmds:
        if c not in CMD:
            raise Unrecognised(f"lazily_stage_wrapper: command {c!r} in COMMANDS is not in the model's vocabulary")
    facts["lsCommands"] = sorted(set(cmds))
    facts["lsUnstageOrder"] = _order("lazily_stage_wrapper", g["un"], "devices_staged")

    # ------------------------------------------------------------------ subs_wrapper / suspend_wrapper
    _match(
        "subs_wrapper",
        _body(_func(tree, "subs_wrapper")),
        [
            "subs = normalize_subs_input(subs)",
            "tokens = set()",
            "def _subscribe():\n    for name, funcs in subs.items():\n        for func in funcs:\n            token = (yield Msg('subscribe', None, func, name))\n            tokens.add(token)",
            "def _unsubscribe():\n    for token in tokens:\n        yield Msg('unsubscribe', None, token=token)",
            "def _inner_plan():\n    yield from _subscribe()\n    return (yield from plan)",
            "return (yield from finalize_wrapper(_inner_plan(), _unsubscribe()))",
        ],
    )
    _match(
        "suspend_wrapper",
        _body(_func(tree, "suspend_wrapper")),
        [
            "if not isinstance(suspenders, Iterable):\n    suspenders = [suspenders]",
            "def _install():\n    for susp in suspenders:\n        yield Msg('install_suspender', None, susp)",
            "def _remove():\n    for susp in suspenders:\n        yield Msg('remove_suspender', None, susp)",
            "def _inner_plan():\n    yield from _install()\n    return (yield from plan)",
            "return (yield from finalize_wrapper(_inner_plan(), _remove()))",
        ],
    )
    facts["subsCleanup"] = ".finalize"
    facts["suspCleanup"] = ".finalize"

    # ------------------------------------------------------------------ monitor_during / fly_during
    after = "def insert_after_open(msg):\n    if msg.command == 'open_run':\n\n        def new_gen():\n«a:(?:            [^\n]*\n)+»        return (single_gen(msg), new_gen())\n    else:\n        return (None, None)"
    before = "def insert_before_close(msg):\n    if msg.command == 'close_run':\n\n        def new_gen():\n«b:(?:            [^\n]*\n)+»        return (new_gen(), None)\n    else:\n        return (None, None)"
    nest = ["plan1 = plan_mutator(plan, insert_after_open)", "plan2 = plan_mutator(plan1, insert_before_close)", "return (yield from plan2)"]
    g = _match(
        "monitor_during_wrapper",
        _body(_func(tree, "monitor_during_wrapper")),
        ["monitor_msgs = [Msg('monitor', sig, name=sig.name + '_monitor') for sig in signals]", "unmonitor_msgs = [Msg('unmonitor', sig) for sig in signals]", after, before] + nest,
    )
    facts["mdAfterOpen"] = _parts("monitor_during_wrapper", g["a"], False)
    facts["mdBeforeClose"] = _parts("monitor_during_wrapper", g["b"], True)
    g = _match(
        "fly_during_wrapper",
        _body(_func(tree, "fly_during_wrapper")),
        [
            "grp1 = _short_uid('flyers-kickoff')",
            "grp2 = _short_uid('flyers-complete')",
            "kickoff_msgs = [Msg('kickoff', flyer, group=grp1) for flyer in flyers]",
            "complete_msgs = [Msg('complete', flyer, group=grp2) for flyer in flyers]",
            "collect_msgs = [Msg('collect', flyer) for flyer in flyers]",
            "if flyers:\n    kickoff_msgs += [Msg('wait', None, group=grp1)]\n    complete_msgs += [Msg('wait', None, group=grp2)]",
            after,
            before,
        ]
        + nest,
    )
    facts["fdAfterOpen"] = _parts("fly_during_wrapper", g["a"], False)
    facts["fdBeforeClose"] = _parts("fly_during_wrapper", g["b"], True)

    # ------------------------------------------------------------------ plan_stubs used by the wrappers
    stubs = ast.parse((C.SRC / "plan_stubs.py").read_text())
    loop = "for obj in args:\n    ret = (yield Msg('{}', obj, group=group))\n    if isinstance(ret, Status):\n        status_objects.append(ret)"
    for name, cmd in (("stage_all", "stage"), ("unstage_all", "unstage")):
        _match(
            name,
            _body(_func(stubs, name)),
            ["group = group or str(uuid.uuid4())", "status_objects = []", loop.format(cmd), "if status_objects:\n    yield Msg('wait', None, group=group)"],
        )
    _match("open_run", _body(_func(stubs, "open_run")), ["return (yield Msg('open_run', **md or {}))"])
    _match("close_run", _body(_func(stubs, "close_run")), ["return (yield Msg('close_run', exit_status=exit_status, reason=reason))"])
    return facts


def _close_lean(v):
    return f"⟨{v[0]}, {'true' if v[1] else 'false'}⟩"


def render_paired(f):
    out = [
        "/- GENERATED by harness/pairedextract.py from src/bluesky/preprocessors.py -- do not edit. -/",
        "import BlueskyVerif.Gen.PairedBasic",
        "",
        "namespace BlueskyVerif.Gen.Generated",
        "open BlueskyVerif.Gen",
        "",
        "/-- run_wrapper.except_plan, branch `isinstance(e, RunEngineControlException)`: the `close_run(...)` call -/",
        f"def rwControlClose : CloseArgs := {_close_lean(f['rwControlClose'])}",
        "/-- run_wrapper.except_plan, other exceptions: the `close_run(...)` call -/",
        f"def rwOtherClose : CloseArgs := {_close_lean(f['rwOtherClose'])}",
        "/-- run_wrapper: `else_plan=close_run` (called without arguments) -/",
        f"def rwElseClose : CloseArgs := {_close_lean(f['rwElseClose'])}",
        "/-- run_wrapper: the cleanup helper it is built on -/",
        f"def rwCleanup : CleanupKind := {f['rwCleanup']}",
        "/-- stage_wrapper: `stage_all(<this order> devices)` -/",
        f"def swStageOrder : Order := {f['swStageOrder']}",
        "/-- stage_wrapper: `unstage_all(<this order> devices)` -/",
        f"def swUnstageOrder : Order := {f['swUnstageOrder']}",
        "/-- lazily_stage_wrapper: the COMMANDS table (sorted) -/",
        "def lsCommands : List Command := [" + ", ".join(CMD[c] for c in f["lsCommands"]) + "]",
        "/-- lazily_stage_wrapper: `unstage_all(<this order> devices_staged)` -/",
        f"def lsUnstageOrder : Order := {f['lsUnstageOrder']}",
        "/-- subs_wrapper / suspend_wrapper: the cleanup helper -/",
        f"def subsCleanup : CleanupKind := {f['subsCleanup']}",
        f"def suspCleanup : CleanupKind := {f['suspCleanup']}",
        "/-- monitor_during_wrapper: message lists spliced in after `open_run` (tail) / before `close_run` (head) -/",
        "def mdAfterOpen : List InsertPart := [" + ", ".join(PART[p] for p in f["mdAfterOpen"]) + "]",
        "def mdBeforeClose : List InsertPart := [" + ", ".join(PART[p] for p in f["mdBeforeClose"]) + "]",
        "/-- fly_during_wrapper: the same -/",
        "def fdAfterOpen : List InsertPart := [" + ", ".join(PART[p] for p in f["fdAfterOpen"]) + "]",
        "def fdBeforeClose : List InsertPart := [" + ", ".join(PART[p] for p in f["fdBeforeClose"]) + "]",
        "",
        "end BlueskyVerif.Gen.Generated",
        "",
    ]
    return "\n".join(out)


def extract_paired_file(ctx=None):
    facts = extract_paired()
    C.write_if_changed(C.LEAN / "BlueskyVerif" / "Gen" / "GeneratedPaired.lean", render_paired(facts))
    return facts


# =============================================================================== C24


def _find_inner(fn, name):
    for n in ast.walk(fn):
        if isinstance(n, ast.FunctionDef) and n.name == name:
            return n
    raise Unrecognised(f"{fn.name}: inner function {name} not found")


def extract_relative():
    path = C.SRC / "preprocessors.py"
    tree = ast.parse(path.read_text())
    facts = {"source": str(path)}
    insert_reads = (
        "def insert_reads(msg):\n    eligible = «elig:[^\n]*»\n    seen = msg.obj in initial_positions\n"
        "    if msg.command == 'set' and eligible and (not seen):\n"
        "        return (pchain(__read_and_stash_a_motor(msg.obj, initial_positions, coupled_parents), single_gen(msg)), None)\n"
        "    else:\n        return (None, None)"
    )
    norm = "if devices is not None:\n    devices, coupled_parents = _normalize_devices(devices)\nelse:\n    coupled_parents = set()"
    # ------------------------------------------------------------------ relative_set_wrapper
    g = _match(
        "relative_set_wrapper",
        _body(_func(tree, "relative_set_wrapper")),
        [
            "initial_positions = {}",
            norm,
            "def rewrite_pos(msg):\n    if msg.command == 'set' and msg.obj in initial_positions:\n        rel_pos, = msg.args\n"
            "        abs_pos = «expr:[^\n]*»\n        new_msg = msg._replace(args=(abs_pos,))\n        return new_msg\n    else:\n        return msg",
            insert_reads,
            "plan = plan_mutator(plan, insert_reads)",
            "plan = msg_mutator(plan, rewrite_pos)",
            "return (yield from plan)",
        ],
    )
    if g["elig"] not in ("devices is None or msg.obj in devices",):
        raise Unrecognised(f"relative_set_wrapper: eligible = {g['elig']}")
    e = ast.parse(g["expr"], mode="eval").body
    if not (isinstance(e, ast.BinOp) and ast.unparse(e.left) == "initial_positions[msg.obj]" and ast.unparse(e.right) == "rel_pos"):
        raise Unrecognised(f"relative_set_wrapper: abs_pos = {g['expr']} is not initial_positions[msg.obj] <op> rel_pos")
    if isinstance(e.op, ast.Add):
        facts["rsCombine"] = ".add"
    elif isinstance(e.op, ast.Sub):
        facts["rsCombine"] = ".sub"
    else:
        raise Unrecognised(f"relative_set_wrapper: operator in {g['expr']}")
    # ------------------------------------------------------------------ reset_positions_wrapper
    g = _match(
        "reset_positions_wrapper",
        _body(_func(tree, "reset_positions_wrapper")),
        [
            "initial_positions = OrderedDict()",
            norm,
            insert_reads,
            "def reset():\n    blk_grp = f'reset-{str(uuid.uuid4())[:6]}'\n    for k, v in «it:[^\n]*»:\n        if k.parent in coupled_parents:\n            continue\n"
            "        yield Msg('set', k, v, group=blk_grp)\n    yield Msg('wait', None, group=blk_grp)",
            "return (yield from finalize_wrapper(plan_mutator(plan, insert_reads), reset()))",
        ],
    )
    if g["elig"] != "devices is None or msg.obj in devices":
        raise Unrecognised(f"reset_positions_wrapper: eligible = {g['elig']}")
    if g["it"] == "initial_positions.items()":
        facts["rpResetOrder"] = ".forward"
    elif g["it"] == "reversed(initial_positions.items())":
        facts["rpResetOrder"] = ".reversed"
    else:
        raise Unrecognised(f"reset_positions_wrapper: reset iterates over {g['it']}")
    # ------------------------------------------------------------------ __read_and_stash_a_motor
    fn = _func(tree, "__read_and_stash_a_motor")
    body = [s for s in fn.body if not (isinstance(s, ast.Expr) and isinstance(s.value, ast.Constant))]
    top = body[0]
    order = []
    node = top
    while isinstance(node, ast.If):
        t = ast.unparse(node.test)
        if t == "isinstance(obj, Locatable)":
            order.append("locate")
            exp = ["location = (yield from __get_result_of_message('locate', obj))", "if location is None:\n    setpoint = 0\nelse:\n    setpoint = location['setpoint']"]
            if [ast.unparse(x) for x in node.body] != exp:
                raise Unrecognised("__read_and_stash_a_motor: Locatable branch")
        elif t == "hasattr(obj, 'position')":
            order.append("attribute")
            if [ast.unparse(x) for x in node.body] != ["setpoint = obj.position"]:
                raise Unrecognised("__read_and_stash_a_motor: position branch")
        else:
            raise Unrecognised(f"__read_and_stash_a_motor: test {t}")
        if len(node.orelse) == 1 and isinstance(node.orelse[0], ast.If):
            node = node.orelse[0]
        else:
            rest = [ast.unparse(x) for x in node.orelse]
            if not rest or rest[0] != "reading = (yield from __get_result_of_message('read', obj))" or not rest[1].startswith("if reading is None:\n    setpoint = 0\nelse:"):
                raise Unrecognised("__read_and_stash_a_motor: read branch")
            order.append("read")
            node = None
    if ast.unparse(body[1]) != "initial_positions[obj] = setpoint":
        raise Unrecognised("__read_and_stash_a_motor: the position is not stashed right after it was obtained")
    facts["posSourceOrder"] = order
    _match("__get_result_of_message", _body(_func(tree, "__get_result_of_message")), ["result = (yield Msg(msg_type, obj))", "if result is None:\n    «p:[^\n]*»", "return result"])
    # ------------------------------------------------------------------ plan_stubs: abs_set / rel_set / mv / mvr
    stubs = ast.parse((C.SRC / "plan_stubs.py").read_text())
    _match("abs_set", _body(_func(stubs, "abs_set")), ["if wait and group is None:\n    group = str(uuid.uuid4())", "ret = (yield Msg('set', obj, *args, group=group, **kwargs))", "if wait:\n    yield Msg('wait', None, group=group)", "return ret"])
    _match("rel_set", _body(_func(stubs, "rel_set")), ["from .preprocessors import relative_set_wrapper", "return (yield from relative_set_wrapper(abs_set(obj, *args, group=group, wait=wait, **kwargs)))"])
    _match(
        "mvr",
        _body(_func(stubs, "mvr")),
        [
            "objs = []",
            "for obj, val in partition(2, args):\n    objs.append(obj)",
            "from .preprocessors import relative_set_decorator",
            "@relative_set_decorator(objs)\ndef inner_mvr():\n    return (yield from mv(*args, group=group, timeout=timeout, **kwargs))",
            "return (yield from inner_mvr())",
        ],
    )
    _match(
        "mv",
        _body(_func(stubs, "mv")),
        [
            "group = group or str(uuid.uuid4())",
            "status_objects = []",
            "cyl = reduce(operator.add, [cycler(obj, [val]) for obj, val in partition(2, args)])",
            "step, = merge_cycler(cyl)",
            "for obj, val in step.items():\n    ret = (yield Msg('set', obj, val, group=group, **kwargs))\n    status_objects.append(ret)",
            "yield Msg('wait', None, group=group, timeout=timeout)",
            "return tuple(status_objects)",
        ],
    )
    # ------------------------------------------------------------------ the rel_* plans: reset(relative(inner))
    plans = ast.parse((C.SRC / "plans.py").read_text())
    rel = []
    for fn in plans.body:
        if isinstance(fn, ast.FunctionDef) and (fn.name.startswith("rel_") or fn.name.startswith("relative_")):
            inner = [n for n in ast.walk(fn) if isinstance(n, ast.FunctionDef) and n is not fn and n.decorator_list]
            if not inner:
                # a thin alias that delegates to another rel_ plan
                calls = [ast.unparse(n.func) for n in ast.walk(fn) if isinstance(n, ast.Call)]
                if not any(c.startswith("rel_") for c in calls):
                    raise Unrecognised(f"{fn.name}: neither decorated inner plan nor delegation to a rel_ plan")
                continue
            decs = [ast.unparse(d) for d in inner[0].decorator_list]
            m0 = re.fullmatch(r"bpp\.reset_positions_decorator\((.*)\)", decs[0]) if decs else None
            m1 = re.fullmatch(r"bpp\.relative_set_decorator\((.*)\)", decs[1]) if len(decs) > 1 else None
            if len(decs) != 2 or not m0 or not m1 or m0.group(1) != m1.group(1):
                raise Unrecognised(f"{fn.name}: inner plan is not decorated by reset_positions_decorator(M) over relative_set_decorator(M): {decs}")
            rel.append(fn.name)
    facts["relPlans"] = sorted(rel)
    _match(
        "make_decorator",
        [ast.unparse(s) for s in _find_inner(_func(ast.parse((C.SRC / "utils" / "__init__.py").read_text()), "make_decorator"), "dec_inner").body],
        ["plan = gen_func(*inner_args, **inner_kwargs)", "plan = wrapper(plan, *args, **kwargs)", "return (yield from plan)"],
    )
    return facts


SRC_LEAN = {"locate": ".locate", "attribute": ".attribute", "read": ".read"}


def render_relative(f):
    out = [
        "/- GENERATED by harness/pairedextract.py from src/bluesky/preprocessors.py -- do not edit. -/",
        "import BlueskyVerif.Gen.RelativeBasic",
        "",
        "namespace BlueskyVerif.Gen.Generated",
        "open BlueskyVerif.Gen",
        "",
        "/-- relative_set_wrapper.rewrite_pos: `abs_pos = initial_positions[msg.obj] <op> rel_pos` -/",
        f"def rsCombine : RelOp := {f['rsCombine']}",
        "/-- reset_positions_wrapper.reset: order in which `initial_positions` is walked -/",
        f"def rpResetOrder : Order := {f['rpResetOrder']}",
        "/-- __read_and_stash_a_motor: where the initial position comes from, in the order the source tests -/",
        "def posSourceOrder : List PosSource := [" + ", ".join(SRC_LEAN[s] for s in f["posSourceOrder"]) + "]",
        "",
        "end BlueskyVerif.Gen.Generated",
        "",
    ]
    return "\n".join(out)


def extract_relative_file(ctx=None):
    facts = extract_relative()
    C.write_if_changed(C.LEAN / "BlueskyVerif" / "Gen" / "GeneratedRelative.lean", render_relative(facts))
    return facts
