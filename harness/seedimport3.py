"""Import round-3 deliverables: /tmp/seed3_<P>_out/{X,Y} -> seeded/<P>-<next letters>; breaks/needs given on the command line
usage: seedimport3.py <P> "<breaks X>" "<needs X>" "<breaks Y>" "<needs Y>" """
import glob
import json
import os
import shutil
import string
import sys
from pathlib import Path

V = Path(__file__).resolve().parent.parent
P = sys.argv[1]
texts = [(sys.argv[2], sys.argv[3]), (sys.argv[4], sys.argv[5])]
used = {os.path.basename(d).split("-")[1] for d in glob.glob(str(V / "seeded" / f"{P}-*"))}
free = [c for c in string.ascii_uppercase if c not in used]
for (sub, (breaks, needs)), letter in zip(zip(("X", "Y"), texts), free):
    src = Path(f"/tmp/seed3_{P}_out/{sub}")
    if not (src / "patch.diff").exists():
        print("missing", src)
        continue
    d = V / "seeded" / f"{P}-{letter}"
    d.mkdir(parents=True)
    for f in ("patch.diff", "demo.py", "notes.md"):
        shutil.copy(src / f, d / f)
    (d / "meta.json").write_text(json.dumps({"property": P, "breaks": breaks, "needs": needs, "round": 3,
                                             "origin": "independent seeding sub-agent (property text + scratch worktree only)"}, indent=1))
    print("imported", d.name)
