"""Run a *scenario* on the real RunEngine under SimLoop and return a canonical observation.

scenario = {
  "record_interruptions": bool,
  "devices": {name: {"kind": "motor"|"det"|"sig", "modes": {"set": [...], "trigger": [...], "stage": [...],
               "unstage": [...], "read": [...], "stop": [...], "pause": [...]}, "pausable": bool, "stoppable": bool}},
  "plan": <stmt AST>,
  "script": {"<arrival index>": [action, ...]},      # arrival index counts S1/S4/sleep/ckpt/quiesce arrivals of _run
  "decisions": ["resume"|"abort"|"stop"|"halt", ...]  # issued from the main thread each time the engine is paused
  "max_arrivals": int
  # implementation-only fault injection (NOT in the Lean model; used by the fault probes of harness/fault_probes.py):
  "cb_faults": [{"doc": "start"|"descriptor"|"event"|"stop", "run": "run#k"|None, "nth": int}]   # a second subscriber
               (after the recorder) raises CallbackFault on the nth matching document
  devices: kind "anon" = a Stageable without .name/.parent; modes["clear_sub"] for a sig; spec["on_stop"] = action
               issued from inside Motor.stop()
}
stmt AST: {"k":"msg","cmd":..,"obj":name|None,"args":[..],"kw":{..},"run":key|None}
        | {"k":"seq","body":[...]} | {"k":"try","body":s,"handler":s|None,"fin":s|None,"catch":"Exception"|"all"}
        | {"k":"raise","tag":t} | {"k":"ret","v":x}
actions: {"a":"pause","defer":bool} | {"a":"suspend","fut":id,"pre":stmt|None,"post":stmt|None,"just":str|None}
       | {"a":"release","fut":id} | {"a":"abort"|"stop"|"halt"} | {"a":"status","id":k,"ok":bool}
       | {"a":"monitor","sig":name,"v":int}
"""
from __future__ import annotations

import asyncio
import sys
import threading
import types

from simloop import SimLoop, run_coro_sync


class DeviceError(Exception):
    pass


class PlanError(Exception):
    pass


class CallbackFault(Exception):
    pass


class FakeStatus:
    def __init__(self, H, dev, op):
        self.H = H
        self.id = len(H.statuses)
        H.statuses.append(self)
        self.dev, self.op = dev, op
        self.done = False
        self.success = False
        self._cbs = []
        self._exc = None
        self.created = H.tick
        self.finished = None

    def add_callback(self, cb):
        if self.done:
            cb(self)
        else:
            self._cbs.append(cb)

    def finish(self, ok):
        if self.done:
            return
        self.done = True
        self.finished = self.H.tick
        self.success = bool(ok)
        if not ok:
            self._exc = DeviceError(f"{self.dev}.{self.op} failed")
        for cb in self._cbs:
            cb(self)
        self._cbs = []

    def exception(self, timeout=None):
        return self._exc

    def __repr__(self):
        return f"status#{self.id}"


class Dev:
    def __init__(self, H, name, spec):
        self.H, self.name, self.spec = H, name, spec
        self.parent = None
        self.position = 0
        self._counts = {}
        self.subs = []

    def _mode(self, op):
        n = self._counts.get(op, 0)
        self._counts[op] = n + 1
        modes = self.spec.get("modes", {}).get(op, [])
        return modes[n] if n < len(modes) else "done"

    def _status(self, op):
        mode = self._mode(op)
        if mode == "raise":
            self.H.led([self.name, op, "raise"])
            raise DeviceError(f"{self.name}.{op} raised")
        st = FakeStatus(self.H, self.name, op)
        if mode == "done":
            st.finish(True)
        elif mode == "fail":
            st.finish(False)
        elif mode == "fail-noexc":
            # implementation-only probes: a legal Status that ends done / not successful with exception() -> None
            st.finish(False)
            st._exc = None
        return st

    def __repr__(self):
        return self.name


class Motor(Dev):
    def set(self, v, **kw):
        st = self._status("set")
        self.position = v
        self.H.led([self.name, "set", v])
        return st

    def stop(self, *, success=True):
        # like a real positioner: stop(success=False) marks the moves still in flight as failed
        self.H.led([self.name, "stop", None if success else "fail"])
        if not success:
            for st in list(self.H.statuses):
                if st.dev == self.name and not st.done:
                    st.finish(False)
        if self.spec.get("on_stop") and not self._counts.get("on_stop"):
            # implementation-only probe: a request issued (from another thread) while the engine stops the motors
            self._counts["on_stop"] = 1
            self.H._issue(self.spec["on_stop"])
        if self._mode("stop") == "raise":
            raise DeviceError(f"{self.name}.stop raised")

    def read(self):
        return {self.name: {"value": self.position, "timestamp": 0.0}}

    def describe(self):
        return {self.name: {"source": "sim", "dtype": "number", "shape": []}}

    def read_configuration(self):
        return {}

    def describe_configuration(self):
        return {}

    def stage(self):
        self.H.led([self.name, "stage", None])
        if self._mode("stage") == "raise":
            raise DeviceError(f"{self.name}.stage raised")
        return [self]

    def unstage(self):
        self.H.led([self.name, "unstage", None])
        if self._mode("unstage") == "raise":
            raise DeviceError(f"{self.name}.unstage raised")
        return [self]


class Det(Dev):
    def trigger(self):
        st = self._status("trigger")
        self.H.led([self.name, "trigger", None])
        return st

    def read(self):
        if self._mode("read") == "raise":
            self.H.led([self.name, "read", "raise"])
            raise DeviceError(f"{self.name}.read raised")
        v = sum(d.position for d in self.H.devs.values() if isinstance(d, Motor)) * 10 + self.spec.get("offset", 0)
        self.H.led([self.name, "read", v])
        return {self.name: {"value": v, "timestamp": 0.0}}

    def describe(self):
        return {self.name: {"source": "sim", "dtype": "number", "shape": []}}

    def read_configuration(self):
        return {}

    def describe_configuration(self):
        return {}

    def stage(self):
        self.H.led([self.name, "stage", None])
        if self._mode("stage") == "raise":
            raise DeviceError(f"{self.name}.stage raised")
        return [self]

    def unstage(self):
        self.H.led([self.name, "unstage", None])
        if self._mode("unstage") == "raise":
            raise DeviceError(f"{self.name}.unstage raised")
        return [self]


class AnonStageable:
    """a legal Stageable that has neither .name nor .parent (implementation-only probes)"""

    def __init__(self, H, label, spec):
        self.H, self._label, self.spec = H, label, spec
        self._counts = {}
        self.subs = []

    _mode = Dev._mode

    def stage(self):
        self.H.led([self._label, "stage", None])
        if self._mode("stage") == "raise":
            raise DeviceError(f"{self._label}.stage raised")
        return [self]

    def unstage(self):
        self.H.led([self._label, "unstage", None])
        if self._mode("unstage") == "raise":
            raise DeviceError(f"{self._label}.unstage raised")
        return [self]

    def __repr__(self):
        return self._label


class PausableMotor(Motor):
    def pause(self):
        self.H.led([self.name, "pause", None])
        m = self._mode("pause")
        if m == "noreplay":
            from bluesky.utils import NoReplayAllowed

            raise NoReplayAllowed()

    def resume(self):
        self.H.led([self.name, "resume", None])


class AsyncStopMotor(Motor):
    """stop() is a coroutine that really suspends once (implementation-only probes): the engine awaits it while it stops
    the motors -- during a pause, and in the exit block of _run"""

    async def stop(self, *, success=True):
        self.H.led([self.name, "stop", None if success else "fail"])
        await asyncio.sleep(0)
        if not success:
            for st in list(self.H.statuses):
                if st.dev == self.name and not st.done:
                    st.finish(False)


class AsyncPausableMotor(Motor):
    """pause() is a coroutine that really suspends once (an extra suspension point of _run inside the pause
    sequence, arrival kind "hook"); used by implementation-only probes, not part of the Lean model"""

    async def pause(self):
        self.H.led([self.name, "pause", None])
        self.H.arrive("hook")
        await asyncio.sleep(0)
        if self.spec.get("pausable") == "async-slow":
            # hold the pause sequence (real time, bounded) until the thread that issued the blocking call has seen it
            # return -- which must NOT happen before the engine is 'paused'; on a correct engine this just times out
            import time

            t0 = time.time()
            while not self.H.call_returned.is_set() and time.time() - t0 < 0.15:
                time.sleep(0.002)

    def resume(self):
        self.H.led([self.name, "resume", None])


class Sig(Dev):
    value = 0

    def subscribe(self, cb, **kw):
        self.H.led([self.name, "subscribe", None])
        self.subs.append(cb)
        return len(self.subs)

    def clear_sub(self, cb):
        self.H.led([self.name, "clear_sub", None])
        if self._mode("clear_sub") == "raise":
            raise DeviceError(f"{self.name}.clear_sub raised")
        # ophyd semantics: every registration of this callback is removed
        self.subs = [c for c in self.subs if c != cb]

    def read(self):
        return {self.name: {"value": self.value, "timestamp": 0.0}}

    def describe(self):
        return {self.name: {"source": "sim", "dtype": "number", "shape": []}}

    def read_configuration(self):
        return {}

    def describe_configuration(self):
        return {}


def exc_name(e):
    if isinstance(e, type):
        return e.__name__
    return type(e).__name__


class Harness:
    def __init__(self, sc):
        self.sc = sc
        self.statuses = []
        self.ledger = []
        self.devs = {}
        self.msgs = []
        self.states = []
        self.docs = []
        self.yields = []
        self.arrivals = []
        self.refused = []
        self.returns = []
        self.futs = {}  # id -> asyncio.Event (created lazily on the loop thread)
        self.blocked = 0
        self.msg_ids = {}
        self.run_ids = {}
        self.desc = {}
        self.n_created = 0
        self.notes = []
        self.return_texts = []
        self.return_causes = []
        self.return_values = []
        self.tick = 0
        self.ticks = {"msgs": [], "trans": [], "docs": [], "ledger": [], "yields": [], "arrivals": [], "returns": []}
        self.engine_closed = []      # run ids whose RunStop was written by the engine's cleanup
        self.uids = {}
        self.schema_errors = []
        self.plan_finished = False
        self._closing_by_engine = False
        self.call_returned = threading.Event()
        self.cb_fault_counts = {}
        self.cb_faults_fired = []
        self.script = {int(k): v for k, v in sc.get("script", {}).items()}
        self.max_arrivals = sc.get("max_arrivals", 400)
        for name, spec in sc.get("devices", {}).items():
            motor_cls = AsyncPausableMotor if spec.get("pausable") in ("async", "async-slow") else (PausableMotor if spec.get("pausable") else Motor)
            if spec.get("stoppable") == "async":
                motor_cls = AsyncStopMotor
            cls = {"motor": motor_cls, "det": Det, "sig": Sig, "anon": AnonStageable}[spec["kind"]]
            self.devs[name] = cls(self, name, spec)

    def led(self, entry):
        self.ledger.append(entry)
        self._t("ledger")

    def ylog(self, entry):
        self.yields.append(entry)
        self._t("yields")

    # ------------------------------------------------------------------ canonical forms
    def canon(self, r):
        import bluesky.utils as U

        if r is None or isinstance(r, (bool, int)):
            return r
        if isinstance(r, FakeStatus):
            return f"status#{r.id}"
        if isinstance(r, str):
            return self.run_ids.get(r, "str")
        if isinstance(r, dict):
            try:
                return {k: v["value"] for k, v in r.items()}
            except Exception:
                return "dict"
        if isinstance(r, (list, tuple)):
            return "seq"
        if isinstance(r, BaseException) or isinstance(r, type):
            return "exc:" + exc_name(r)
        return type(r).__name__

    # ------------------------------------------------------------------ plan interpreter (real generators)
    def gen(self, st):
        from bluesky.utils import Msg

        k = st["k"]
        if k == "msg":
            obj = self.devs.get(st.get("obj")) if st.get("obj") else None
            kw = dict(st.get("kw", {}))
            args = list(st.get("args", []))
            if st["cmd"] == "wait_for_fut":
                m = Msg("wait_for", None, [self.fut_factory(args[0])], run=st.get("run"))
            else:
                m = Msg(st["cmd"], obj, *args, **kw, run=st.get("run"))
            idx = st.get("id", self.n_created)
            self.n_created += 1
            self.msg_ids[id(m)] = idx
            self._keep = getattr(self, "_keep", [])
            self._keep.append(m)
            try:
                r = yield m
            except BaseException as e:
                self.ylog([idx, "throw", exc_name(e)])
                raise
            self.ylog([idx, "send", self.canon(r)])
            return r
        if k == "seq":
            r = None
            for s in st["body"]:
                r = yield from self.gen(s)
            return r
        if k == "try":
            try:
                if st.get("handler") is not None:
                    try:
                        r = yield from self.gen(st["body"])
                    except Exception as e:
                        self.ylog([-1, "caught", exc_name(e)])
                        r = yield from self.gen(st["handler"])
                else:
                    r = yield from self.gen(st["body"])
            finally:
                if st.get("fin") is not None:
                    yield from self.gen(st["fin"])
            return r
        if k == "raise":
            if st.get("exc") == "oserror":       # implementation-only probes: exceptions whose args[0] is not a string
                raise FileNotFoundError(2, "No such file or directory", st.get("tag", "boom"))
            if st.get("exc") == "keyerror-int":
                raise KeyError(3)
            if st.get("exc") == "noargs":
                raise PlanError()
            raise PlanError(st.get("tag", "boom"))
        if k == "ret":
            return st.get("v")
        raise ValueError(k)

    def msg_list(self, st):
        """a flat list of real Msg objects for the msg statements of `st` (no generator: nothing records the responses)"""
        from bluesky.utils import Msg

        out = []

        def walk(s):
            if s["k"] == "msg":
                obj = self.devs.get(s.get("obj")) if s.get("obj") else None
                m = Msg(s["cmd"], obj, *s.get("args", []), **s.get("kw", {}), run=s.get("run"))
                self.msg_ids[id(m)] = s.get("id", self.n_created)
                self.n_created += 1
                self._keep = getattr(self, "_keep", [])
                self._keep.append(m)
                out.append(m)
            elif s["k"] == "seq":
                for x in s["body"]:
                    walk(x)

        walk(st)
        return out

    def fut_factory(self, fid):
        def fac():
            ev = self.futs.get(fid)
            if ev is None:
                ev = self.futs[fid] = asyncio.Event()
            return ev.wait()

        return fac

    # ------------------------------------------------------------------ hooks
    def msg_hook(self, msg):
        mid = self.msg_ids.get(id(msg))
        kind = "plan"
        if mid is None:
            kind = "engine"
        args = []
        for a in msg.args:
            args.append(a if isinstance(a, (int, bool, str, type(None))) else "x")
        self.msgs.append([msg.command, getattr(msg.obj, "name", None), msg.run, mid])
        self._t("msgs")

    def _t(self, key):
        self.tick += 1
        self.ticks[key].append(self.tick)

    def state_hook(self, new, old):
        self.states.append([str(old), str(new)])
        self._t("trans")

    def on_doc(self, name, doc):
        d = {"k": name}
        if name == "start":
            self.run_ids[doc["uid"]] = f"run#{len(self.run_ids)}"
            d["run"] = self.run_ids[doc["uid"]]
            d["scan_id"] = doc.get("scan_id")
        elif name == "descriptor":
            self.desc[doc["uid"]] = (self.run_ids.get(doc["run_start"]), doc["name"])
            d["run"], d["stream"] = self.desc[doc["uid"]]
            d["keys"] = sorted(doc["data_keys"])
        elif name == "event":
            d["run"], d["stream"] = self.desc.get(doc["descriptor"], (None, None))
            d["seq"] = doc["seq_num"]
            d["data"] = {k: v for k, v in sorted(doc["data"].items())}
        elif name == "stop":
            d["run"] = self.run_ids.get(doc["run_start"])
            d["exit"] = doc["exit_status"]
            d["reason"] = "nonempty" if doc.get("reason", "") else ""
            d["reason_text"] = doc.get("reason", "")
            d["num_events"] = dict(sorted(doc.get("num_events", {}).items()))
        self.docs.append(d)
        self._t("docs")
        # tests (not theorems): uid uniqueness and event-model schema validity of the real documents
        u = doc.get("uid")
        if u is not None:
            self.uids[u] = self.uids.get(u, 0) + 1
        try:
            from event_model import DocumentNames, schema_validators

            schema_validators[DocumentNames[name]].validate(doc)
        except Exception as e:  # noqa
            self.schema_errors.append(f"{name}: {type(e).__name__}: {str(e)[:120]}")
        if name == "stop" and self._closing_by_engine:
            self.engine_closed.append(d["run"])
        # implementation-only probes: actions fired by a subscriber while a document of this kind is dispatched
        for act in self.sc.get("doc_triggers", {}).get(name, []):
            self._issue(act)

    def faulty_subscriber(self, name, doc):
        """second subscriber (registered after the recorder): raises on the documents named by sc["cb_faults"]"""
        if not self.docs or self.docs[-1]["k"] != name:
            return
        run = self.docs[-1].get("run")
        for i, f in enumerate(self.sc.get("cb_faults", [])):
            if f["doc"] == name and f.get("run") in (None, run):
                n = self.cb_fault_counts.get(i, 0)
                self.cb_fault_counts[i] = n + 1
                if n == f.get("nth", 0):
                    self.cb_faults_fired.append([name, run])
                    raise CallbackFault(f"subscriber failed on {name} of {run}")

    @staticmethod
    def canon_reason(r):
        if not r:
            return ""
        for key in ("boom", "raised", "failed", "requested", "IllegalMessageSequence"):
            if key in r:
                return key
        return "text"

    # arrival of _run at a suspension point; runs on the loop thread inside _run (before it yields)
    def arrive(self, kind):
        n = len(self.arrivals)
        self.arrivals.append(kind)
        self._t("arrivals")
        if n >= self.max_arrivals:
            self.notes.append("max_arrivals reached: halting")
            self.loop.call_soon(self._do, {"a": "halt"})
            return
        for act in self.script.get(n, []):
            self._issue(act)

    def _issue(self, act):
        a = act["a"]
        if a == "status":
            if act["id"] < len(self.statuses):
                self.statuses[act["id"]].finish(act["ok"])
        elif a == "monitor":
            dev = self.devs[act["sig"]]
            dev.value = act["v"]
            for cb in list(dev.subs):
                cb()
        elif a == "release":
            ev = self.futs.get(act["fut"])
            if ev is None:
                ev = self.futs[act["fut"]] = asyncio.Event()
            ev.set()
        else:
            self.loop.call_soon(self._do, act)

    def _do(self, act):
        from bluesky.utils import TransitionError

        RE = self.RE
        a = act["a"]
        try:
            if a == "pause":
                run_coro_sync(RE._request_pause_coro(act.get("defer", False)))
            elif a in ("abort", "stop", "halt"):
                was_paused = str(RE.state) == "paused"
                run_coro_sync({"abort": lambda: RE._abort_coro("requested"), "stop": RE._stop_coro, "halt": RE._halt_coro}[a]())
                if was_paused:
                    # what RE.abort()/stop()/halt() do next when they found the engine paused (_resume_task)
                    RE._run_permit.set()
            elif a == "suspend":
                pre = (lambda: self.gen(act["pre"])) if act.get("pre") else None
                post = (lambda: self.gen(act["post"])) if act.get("post") else None
                if act.get("form") == "list":
                    # implementation-only probes: pre/post plan given as a plain LIST of messages (documented: "iterable or callable")
                    pre = self.msg_list(act["pre"]) if act.get("pre") else None
                    post = self.msg_list(act["post"]) if act.get("post") else None
                real = RE._loop
                outer = self

                class Immediate:
                    def call_soon_threadsafe(self, f, *args):
                        # request_suspend hops through call_soon_threadsafe(create_task, coro); make it atomic
                        coro = args[0]
                        try:
                            run_coro_sync(coro)
                        except TransitionError as e:
                            outer.refused.append("suspend")

                    def __getattr__(self, n):
                        return getattr(real, n)

                RE._loop = Immediate()
                try:
                    import contextlib
                    import io

                    with contextlib.redirect_stdout(io.StringIO()):
                        RE.request_suspend(self.fut_factory(act["fut"]), pre_plan=pre, post_plan=post, justification=act.get("just"))
                finally:
                    RE._loop = real
        except TransitionError:
            self.refused.append(a)

    def idle(self):
        """SimLoop idle hook: quiescence arrival when _run is blocked inside wait / wait_for."""
        RE = self.RE
        if self.blocked <= 0 or RE._task is None or RE._task.done():
            return False
        if str(RE.state) in ("idle", "paused", "panicked"):
            return False
        n = len(self.arrivals)
        self.arrivals.append("quiesce")
        self._t("arrivals")
        acts = self.script.get(n, [])
        if n >= self.max_arrivals:
            self.notes.append("max_arrivals reached: halting")
            self._do({"a": "halt"})
            return True
        if acts:
            for act in acts:
                self._issue(act)
            return True
        # default: nothing scripted -> release everything so the scenario terminates
        did = False
        for st in self.statuses:
            if not st.done:
                st.finish(True)
                did = True
        for fid, ev in self.futs.items():
            if not ev.is_set():
                ev.set()
                did = True
        if not did:
            self.notes.append("deadlock: halting")
            self._do({"a": "halt"})
        return True


_LOOP_END = {}


def _loop_end(path):
    """last line of the `while True` body of RunEngine._run (cached per source file content)"""
    import ast

    src = open(path).read()
    key = hash(src)
    if key not in _LOOP_END:
        tree = ast.parse(src)
        run_fn = next(n for c in tree.body if isinstance(c, ast.ClassDef) and c.name == "RunEngine" for n in c.body if isinstance(n, ast.AsyncFunctionDef) and n.name == "_run")
        outer_try = next(n for n in run_fn.body if isinstance(n, ast.Try))
        _LOOP_END[key] = max(getattr(n, "end_lineno", 0) for n in outer_try.body)
    return _LOOP_END[key]


def install_proxy(H):
    """Replace the name `asyncio` inside bluesky.run_engine by a proxy that reports _run's suspension points."""
    import bluesky.run_engine as R

    real = asyncio
    proxy = types.ModuleType("asyncio_proxy")
    proxy.__dict__.update(real.__dict__)
    loop_end = _loop_end(R.__file__)

    def mine():
        # only the RunEngine of THIS scenario reports: an engine left over from an earlier scenario of the same process
        # (still winding down on its own, stopped, loop) must not add arrivals to this one
        try:
            return real.get_running_loop() is H.loop
        except RuntimeError:
            return False

    def sleep(delay, *a, **k):
        f = sys._getframe(1)
        name = f.f_code.co_name
        if not mine():
            return real.sleep(delay, *a, **k)
        if name == "_run":
            H.arrive("S1" if f.f_lineno <= loop_end else "S4")
        elif name == "_sleep":
            H.arrive("sleep")
        elif name == "_checkpoint":
            H.arrive("ckpt")
        return real.sleep(delay, *a, **k)

    async def wait(futs, *a, **k):
        if not mine():
            return await real.wait(futs, *a, **k)
        H.blocked += 1
        try:
            return await real.wait(futs, *a, **k)
        finally:
            H.blocked -= 1

    proxy.sleep = sleep
    proxy.wait = wait
    R.asyncio = proxy
    return lambda: setattr(R, "asyncio", real)


def run_scenario(sc, timeout=60.0):
    import contextlib
    import io

    from bluesky import RunEngine
    from bluesky.run_engine import DuringTask
    from bluesky.utils import RunEngineInterrupted

    H = Harness(sc)
    loop = SimLoop()
    H.loop = loop
    undo = install_proxy(H)
    buf = io.StringIO()
    try:
        with contextlib.redirect_stdout(buf), contextlib.redirect_stderr(buf):
            RE = RunEngine({}, loop=loop, context_managers=[], during_task=DuringTask())
            H.RE = RE
            RE.record_interruptions = bool(sc.get("record_interruptions", False))
            RE.msg_hook = H.msg_hook
            RE.state_hook = H.state_hook
            RE.subscribe(H.on_doc)
            if sc.get("cb_faults"):
                RE.subscribe(H.faulty_subscriber)
            RE.log.disabled = True
            loop.idle_hook = H.idle
            loop.busy.set()

            def guarded(fn, label):
                box = {}

                def target():
                    try:
                        r = fn()
                        box["r"] = "return"
                        box["v"] = [H.run_ids.get(u, "str") for u in r] if isinstance(r, (tuple, list)) else None
                    except RunEngineInterrupted:
                        box["r"] = "raise:RunEngineInterrupted"
                    except BaseException as e:  # noqa
                        box["r"] = "raise:" + exc_name(e)
                        box["text"] = str(e)
                        box["cause"] = exc_name(e.__cause__) if e.__cause__ is not None else ""

                H.call_returned.clear()
                th = threading.Thread(target=target, daemon=True)
                th.start()
                th.join(timeout)
                if th.is_alive():
                    box["r"] = "hang"
                    H.notes.append("hang in " + label)
                H.returns.append([label, box["r"], str(RE.state), bool(RE._interrupted), bool(RE._deferred_pause_requested), len(RE._run_bundlers)])
                H.call_returned.set()
                H.return_texts.append(box.get("text", ""))
                H.return_causes.append(box.get("cause", ""))
                H.return_values.append(box.get("v"))
                H._t("returns")
                return box["r"] != "hang"

            def top():
                r = yield from H.gen(sc["plan"])
                H.plan_finished = True
                return r

            import bluesky.bundlers as B

            orig_close = B.RunBundler.close_run

            async def close_run(self_, msg):
                H._closing_by_engine = "run_id" in msg.kwargs
                try:
                    return await orig_close(self_, msg)
                finally:
                    H._closing_by_engine = False

            B.RunBundler.close_run = close_run
            H._undo_close = lambda: setattr(B.RunBundler, "close_run", orig_close)
            ok = guarded(lambda: RE(top()), "call")
            decisions = list(sc.get("decisions", []))
            rounds = 0
            while ok and str(RE.state) == "paused" and rounds < 12:
                rounds += 1
                d = decisions.pop(0) if decisions else ("resume" if rounds < 8 else "halt")
                ok = guarded(getattr(RE, d), d)
            H.final_state = str(RE.state)
            H.subs_left = {n: len(d.subs) for n, d in H.devs.items() if isinstance(d, Sig)}
            H.staged_left = sorted(getattr(o, "name", None) or repr(o) for o in RE._staged)
    finally:
        undo()
        if hasattr(H, "_undo_close"):
            H._undo_close()
        try:
            loop.call_soon_threadsafe(loop.stop)
        except Exception:
            pass
    return {
        "msgs": H.msgs,
        "trans": H.states,
        "refused": H.refused,
        "return_texts": H.return_texts,
        "docs": H.docs,
        "ledger": H.ledger,
        "yields": H.yields,
        "arrivals": H.arrivals,
        "returns": H.returns,
        "final_state": getattr(H, "final_state", "?"),
        "subs_left": getattr(H, "subs_left", {}),
        "staged_left": getattr(H, "staged_left", []),
        "cb_faults_fired": H.cb_faults_fired,
        "notes": H.notes,
        "ticks": H.ticks,
        "engine_closed": H.engine_closed,
        "dup_uids": sorted(u for u, n in H.uids.items() if n > 1),
        "schema_errors": H.schema_errors,
        "plan_finished": H.plan_finished,
        "return_causes": H.return_causes,
        "return_values": H.return_values,
        "statuses": [[st.dev, st.op, st.done, st.success, st.created, st.finished] for st in H.statuses],
    }
