#!/bin/bash
# Clean-tree sweep: every check, given tier, given seeds; prints one line per run.
# usage: harness/sweep.sh quick "0 1 2" [jobs] [ids...]
cd "$(dirname "$0")/.."
tier=${1:-quick}; seeds=${2:-0}; jobs=${3:-4}; shift 3 2>/dev/null
ids=${*:-$(python3 -c "import json;print(' '.join(json.loads(l)['id'] for l in open('properties.jsonl')))")}
out=${SWEEP_OUT:-/var/tmp/verif_sweep}; mkdir -p $out
for s in $seeds; do for i in $ids; do echo "$s $i"; done; done | xargs -P $jobs -L 1 bash -c '
  s=$0; i=$1; t0=$(date +%s)
  VERIF_SEED=$s timeout 7200 ./check $i --tier '"$tier"' > '"$out"'/$i.'"$tier"'.$s.log 2>&1; rc=$?
  echo "$i seed=$s tier='"$tier"' rc=$rc $(( $(date +%s)-t0 ))s viol=$(grep -c "^VIOLATION" '"$out"'/$i.'"$tier"'.$s.log) known=$(grep -c "^KNOWN-FINDING" '"$out"'/$i.'"$tier"'.$s.log)"'
