"""Translator for the engine model: re-reads run_engine.py / bundlers.py with `ast` and regenerates
lean/BlueskyVerif/Engine/Generated.lean.  Refuses (raises) when a shape is not recognised."""
from __future__ import annotations

import ast

import common as C


class Unextractable(Exception):
    pass


def _cls(tree, name):
    for n in tree.body:
        if isinstance(n, ast.ClassDef) and n.name == name:
            return n
    raise Unextractable(f"class {name}")


def _fn(cls, name):
    for n in cls.body:
        if isinstance(n, (ast.FunctionDef, ast.AsyncFunctionDef)) and n.name == name:
            return n
    raise Unextractable(f"{cls.name}.{name}")


def _assigned(cls_or_fn, target):
    for n in ast.walk(cls_or_fn):
        if isinstance(n, (ast.Assign, ast.AnnAssign)):
            tgts = n.targets if isinstance(n, ast.Assign) else [n.target]
            for t in tgts:
                if (isinstance(t, ast.Name) and t.id == target) or (isinstance(t, ast.Attribute) and t.attr == target):
                    return n.value
    raise Unextractable(f"assignment to {target}")


def _calls(node) -> set[str]:
    out = set()
    for n in ast.walk(node):
        if isinstance(n, ast.Call):
            f = n.func
            if isinstance(f, ast.Attribute):
                out.add(f.attr)
            elif isinstance(f, ast.Name):
                out.add(f.id)
    return out


def _stmt_level_calls(fn) -> set[str]:
    """names called by statements that are NOT nested under if / except / loops (always executed
    when the handler runs to completion)."""
    out = set()
    for st in fn.body:
        if isinstance(st, (ast.Expr, ast.Assign, ast.Return, ast.AugAssign, ast.AnnAssign)):
            out |= _calls(st)
    return out


def lean_str_list(xs):
    return "[" + ", ".join('"' + x + '"' for x in xs) + "]"


def extract() -> dict:
    rsrc = (C.SRC / "run_engine.py").read_text()
    rt = ast.parse(rsrc)
    facts = {}
    # 1. transition table
    sm = _cls(rt, "RunEngineStateMachine")
    meta = next(n for n in sm.body if isinstance(n, ast.ClassDef) and n.name == "Meta")
    transitions = ast.literal_eval(_assigned(meta, "transitions"))
    states = ["idle", "running", "pausing", "paused", "halting", "stopping", "aborting", "suspending", "panicked"]
    if sorted(transitions) != sorted(states):
        raise Unextractable(f"state set changed: {sorted(transitions)}")
    facts["transitions"] = transitions
    re_cls = _cls(rt, "RunEngine")
    # 2. uncacheable commands
    unc = ast.literal_eval(_assigned(re_cls, "_UNCACHEABLE_COMMANDS"))
    facts["uncacheable"] = unc
    # 3. command registry
    init = _fn(re_cls, "__init__")
    reg_node = _assigned(init, "_command_registry")
    if not isinstance(reg_node, ast.Dict):
        raise Unextractable("_command_registry is not a dict literal")
    registry = {}
    for k, v in zip(reg_node.keys, reg_node.values):
        registry[ast.literal_eval(k)] = v.attr if isinstance(v, ast.Attribute) else None
    facts["registry"] = sorted(registry)
    # 4. which handlers reset the checkpoint (always, at statement level)
    RESET = {"_reset_checkpoint_state_coro", "_reset_checkpoint_state", "_reset_checkpoint_state_meth"}
    resets = []
    for cmd, meth in sorted(registry.items()):
        if meth is None:
            continue
        try:
            fn = _fn(re_cls, meth)
        except Unextractable:
            continue
        if _stmt_level_calls(fn) & RESET:
            resets.append(cmd)
        elif cmd in ("monitor", "unmonitor"):
            # the reset follows an if/else whose both branches fall through or raise
            last = fn.body[-1]
            if _calls(last) & RESET:
                resets.append(cmd)
    facts["resets_checkpoint"] = resets
    # rewindable setter resets on toggle
    rw_setter = next(n for n in re_cls.body if isinstance(n, ast.FunctionDef) and n.name == "rewindable" and any(isinstance(d, ast.Attribute) and d.attr == "setter" for d in n.decorator_list))
    facts["rewindable_toggle_resets"] = bool(_calls(rw_setter) & RESET)
    # 5. exit ladder of _run
    run = _fn(re_cls, "_run")
    outer = next(n for n in run.body if isinstance(n, ast.Try))
    ladder = []
    for h in outer.handlers:
        names = []
        t = h.type
        elts = t.elts if isinstance(t, ast.Tuple) else [t]
        for e in elts:
            names.append(e.attr if isinstance(e, ast.Attribute) else e.id)
        status = None
        for n in ast.walk(h):
            if isinstance(n, ast.Assign) and any(isinstance(x, ast.Attribute) and x.attr == "_exit_status" for x in n.targets):
                status = ast.literal_eval(n.value)
        reraises = any(isinstance(n, ast.Raise) for n in ast.walk(h))
        sleeps = "sleep" in _calls(h)
        sets_reason = any(isinstance(n, ast.Assign) and any(isinstance(x, ast.Name) and x.id == "exit_reason" for x in n.targets) for n in ast.walk(h))
        ladder.append({"classes": names, "status": status, "reraises": reraises, "sleeps": sleeps, "sets_reason": sets_reason})
    facts["exit_ladder"] = ladder
    expected = [["StopIteration"], ["RequestStop"], ["FailedPause", "RequestAbort", "CancelledError", "PlanHalt"], ["GeneratorExit"], ["Exception"]]
    if [l["classes"] for l in ladder] != expected:
        raise Unextractable(f"exit ladder classes changed: {[l['classes'] for l in ladder]}")
    # 6. finally block: sets idle, closes open runs with self._exit_status
    fin_calls = set()
    for st in outer.finalbody:
        fin_calls |= _calls(st)
    facts["finally_calls"] = sorted(fin_calls & {"_stop_movable_objects", "clear_monitors", "backstop_collect", "unstage", "close_run", "close", "clear"})
    fin_sets_idle = any(isinstance(n, ast.Assign) and isinstance(n.value, ast.Constant) and n.value.value == "idle" for st in outer.finalbody for n in ast.walk(st))
    facts["finally_sets_idle"] = fin_sets_idle
    # 7. cancel ladder inside the loop
    inner = None
    for n in ast.walk(outer):
        if isinstance(n, ast.Try) and n is not outer and any(isinstance(h.type, ast.Attribute) and h.type.attr == "CancelledError" for h in n.handlers if h.type is not None):
            if n.finalbody:
                inner = n
    if inner is None:
        raise Unextractable("inner try of _run")
    ch = next(h for h in inner.handlers if isinstance(h.type, ast.Attribute) and h.type.attr == "CancelledError" and h.name)
    emap = None
    for n in ast.walk(ch):
        if isinstance(n, ast.Assign) and any(isinstance(t, ast.Name) and t.id == "exception_map" for t in n.targets):
            emap = {ast.literal_eval(k): v.id for k, v in zip(n.value.keys, n.value.values)}
    if emap is None:
        raise Unextractable("exception_map")
    facts["cancel_exception_map"] = emap
    # 8. request coroutines: constants
    def consts(fname):
        fn = _fn(re_cls, fname)
        out = {"state": None, "exit_status": [], "exception": None, "cancels": "cancel" in _calls(fn), "interrupted": False}
        for n in ast.walk(fn):
            if isinstance(n, ast.Assign):
                for t in n.targets:
                    if isinstance(t, ast.Attribute) and t.attr == "_state" and isinstance(n.value, ast.Constant):
                        out["state"] = n.value.value
                    if isinstance(t, ast.Attribute) and t.attr == "_exit_status" and isinstance(n.value, ast.Constant):
                        out["exit_status"].append(n.value.value)
                    if isinstance(t, ast.Attribute) and t.attr == "_interrupted" and isinstance(n.value, ast.Constant):
                        out["interrupted"] = n.value.value
                    if isinstance(t, ast.Attribute) and t.attr == "_exception":
                        v = n.value
                        out["exception"] = v.func.id if isinstance(v, ast.Call) else getattr(v, "id", None)
        return out

    facts["abort"] = consts("_abort_coro")
    facts["stop"] = consts("_stop_coro")
    facts["halt"] = consts("_halt_coro")
    facts["pause"] = consts("_request_pause_coro")
    # 9. bundler: who commits sequence counters; rewind restores from copy
    bt = ast.parse((C.SRC / "bundlers.py").read_text())
    rb = _cls(bt, "RunBundler")
    commits = []
    for name in ("record_interruption", "monitor", "collect"):
        if "_commit_sequence_counter" in _calls(_fn(rb, name)):
            commits.append(name)
    facts["bundler_commits"] = commits
    # close_run resets the engine checkpoint (fix F1)
    facts["close_run_resets_engine_checkpoint"] = "close_run" in resets

    # ----------------------------------------------------------------------------- Lean text
    def st(s):
        return "." + s

    L = ["-- GENERATED by harness/engine_extract.py from src/bluesky/run_engine.py and bundlers.py -- do not edit.", "import BlueskyVerif.Engine.Types", "", "namespace BlueskyVerif.Engine.Src", "open BlueskyVerif.Engine", ""]
    L += ["/-- RunEngineStateMachine.Meta.transitions -/", "def transitions : St → List St"]
    for s in states:
        L.append(f"  | {st(s)} => [" + ", ".join(st(x) for x in transitions[s]) + "]")
    L += ["", "/-- RunEngine._UNCACHEABLE_COMMANDS -/", f"def uncacheable : List String := {lean_str_list(unc)}", ""]
    L += ["/-- keys of RunEngine._command_registry -/", f"def registry : List String := {lean_str_list(sorted(registry))}", ""]
    L += ["/-- commands whose handler always resets the checkpoint state (implicit checkpoints) -/", f"def resetsCheckpoint : List String := {lean_str_list(resets)}", ""]
    L += [f"def rewindableToggleResets : Bool := {'true' if facts['rewindable_toggle_resets'] else 'false'}", ""]
    es = {"success": ".success", "abort": ".abort", "fail": ".fail"}
    L += ["/-- exit status assigned by the outer except ladder of _run, per handler -/"]
    L += [f"def exitOnStopIteration : ExitStatus := {es[ladder[0]['status']]}"]
    L += [f"def exitOnRequestStop : ExitStatus := {es[ladder[1]['status']]}"]
    L += [f"def exitOnAbortLike : ExitStatus := {es[ladder[2]['status']]}"]
    L += [f"def exitOnGeneratorExit : ExitStatus := {es[ladder[3]['status']]}"]
    L += [f"def exitOnException : ExitStatus := {es[ladder[4]['status']]}"]
    L += [f"def exitSleeps : List Bool := [{', '.join('true' if l['sleeps'] else 'false' for l in ladder)}]", ""]
    en = {"PlanHalt": ".planHalt", "RequestStop": ".requestStop", "RequestAbort": ".requestAbort"}
    L += ["/-- exception_map of the CancelledError handler -/", "def cancelMap : St → Option Exc"]
    for k, v in emap.items():
        L.append(f"  | {st(k)} => some {en[v]}")
    L += ["  | _ => none", ""]
    exn = {"RequestAbort": ".requestAbort", "RequestStop": ".requestStop", "PlanHalt": ".planHalt"}
    for nm in ("abort", "stop", "halt"):
        f = facts[nm]
        L += [f"def {nm}State : St := {st(f['state'])}", f"def {nm}Exc : Exc := {exn[f['exception']]}", f"def {nm}SetsExit : Option ExitStatus := {('some ' + es[f['exit_status'][0]]) if f['exit_status'] else 'none'}"]
    L += ["", f"def finallySetsIdle : Bool := {'true' if fin_sets_idle else 'false'}"]
    L += [f"def finallyClosesRuns : Bool := {'true' if 'close_run' in facts['finally_calls'] else 'false'}"]
    L += [f"def finallyStopsMovables : Bool := {'true' if '_stop_movable_objects' in facts['finally_calls'] else 'false'}"]
    L += [f"def finallyUnstages : Bool := {'true' if 'unstage' in facts['finally_calls'] else 'false'}"]
    L += [f"def finallyClearsMonitors : Bool := {'true' if 'clear_monitors' in facts['finally_calls'] else 'false'}"]
    L += [f"def bundlerCommits : List String := {lean_str_list(commits)}", "", "end BlueskyVerif.Engine.Src", ""]
    C.write_if_changed(C.LEAN / "BlueskyVerif" / "Engine" / "Generated.lean", "\n".join(L))
    return facts
