"""C03 (b): the REAL built-in step plans (bluesky.plans.count / scan / grid_scan(snake) / list_scan / rel_scan)
through the REAL RunEngine under the deterministic event loop: a pause (non-deferred / deferred) + resume or a
suspension + release is injected at EVERY arrival index of the uninterrupted run; oracle `sameData` (props/C03.py).

These runs are tied to the property directly (oracle only): the built-in plans are real Python generators with
preprocessors, they are NOT in the Lean engine model.  The harness machinery (SimLoop, the asyncio proxy that names
_run's suspension points, hooks, fake devices, request injection) is engine_impl's.
"""
from __future__ import annotations

import contextlib
import copy
import io
import threading

from engine_impl import Harness, exc_name, install_proxy
from simloop import SimLoop

PLANS = ["count", "scan", "grid_scan", "list_scan", "rel_scan"]
KINDS = ["pause", "pause-deferred", "suspend"]


def devices():
    return {
        "m1": {"kind": "motor", "modes": {}},
        "m2": {"kind": "motor", "modes": {}},
        "d1": {"kind": "det", "modes": {}, "offset": 1},
        "d2": {"kind": "det", "modes": {}, "offset": 2},
    }


def make_plan(name, devs):
    import bluesky.plans as bp

    m1, m2, d1, d2 = devs["m1"], devs["m2"], devs["d1"], devs["d2"]
    if name == "count":
        return bp.count([d1, d2], num=3)
    if name == "scan":
        return bp.scan([d1], m1, 1, 4, 4)
    if name == "grid_scan":
        return bp.grid_scan([d1, d2], m1, 0, 2, 2, m2, 10, 30, 3, snake_axes=True)
    if name == "list_scan":
        return bp.list_scan([d2], m1, [3, 1, 2], m2, [5, 5, 7])
    if name == "rel_scan":
        m1.position = 4
        return bp.rel_scan([d1], m1, -1, 1, 3)
    raise ValueError(name)


def run_builtin_case(case, timeout=20.0):
    """case = {"builtin": plan name, "script": {arrival index: [actions]}, "record_interruptions": bool}
    -> observation with the keys the C03 oracle reads (docs, returns, arrivals, msgs, ledger, ticks, ...)"""
    from bluesky import RunEngine
    from bluesky.run_engine import DuringTask
    from bluesky.utils import RunEngineInterrupted

    sc = {"devices": devices(), "script": case.get("script", {}), "max_arrivals": 2000, "plan": None}
    H = Harness(sc)
    loop = SimLoop()
    H.loop = loop
    undo = install_proxy(H)
    buf = io.StringIO()
    try:
        with contextlib.redirect_stdout(buf), contextlib.redirect_stderr(buf):
            RE = RunEngine({}, loop=loop, context_managers=[], during_task=DuringTask())
            H.RE = RE
            RE.record_interruptions = bool(case.get("record_interruptions", False))
            RE.msg_hook = H.msg_hook
            RE.state_hook = H.state_hook
            RE.subscribe(H.on_doc)
            RE.log.disabled = True
            loop.idle_hook = H.idle
            loop.busy.set()

            def guarded(fn, label):
                box = {}

                def target():
                    try:
                        fn()
                        box["r"] = "return"
                    except RunEngineInterrupted:
                        box["r"] = "raise:RunEngineInterrupted"
                    except BaseException as e:  # noqa
                        box["r"] = "raise:" + exc_name(e)
                        box["text"] = str(e)

                th = threading.Thread(target=target, daemon=True)
                th.start()
                th.join(timeout)
                if th.is_alive():
                    box["r"] = "hang"
                H.returns.append([label, box["r"], str(RE.state), bool(RE._interrupted), bool(RE._deferred_pause_requested), len(RE._run_bundlers)])
                H.return_texts.append(box.get("text", ""))
                H._t("returns")
                return box["r"] != "hang"

            def top():
                r = yield from make_plan(case["builtin"], H.devs)
                H.plan_finished = True
                return r

            ok = guarded(lambda: RE(top()), "call")
            n = 0
            while ok and str(RE.state) == "paused" and n < 12:
                ok = guarded(RE.resume, "resume")
                n += 1
            H.final_state = str(RE.state)
    finally:
        undo()
        try:
            loop.call_soon_threadsafe(loop.stop)
        except Exception:
            pass
    return {
        "msgs": H.msgs, "docs": H.docs, "ledger": H.ledger, "arrivals": H.arrivals, "returns": H.returns,
        "return_texts": H.return_texts, "final_state": getattr(H, "final_state", "?"), "ticks": H.ticks,
        "plan_finished": H.plan_finished, "trans": H.states, "refused": H.refused, "notes": H.notes,
    }


def _worker(case):
    try:
        return run_builtin_case(case)
    except Exception as e:  # noqa
        return {"crash": f"{type(e).__name__}: {e}"}


def _interruption(rng, kind, at, fut):
    if kind == "pause":
        return {at: [{"a": "pause", "defer": False}]}
    if kind == "pause-deferred":
        return {at: [{"a": "pause", "defer": True}]}
    out = {at: [{"a": "suspend", "fut": fut, "pre": None, "post": None, "just": rng.choice([None, "beam"])}]}
    if rng.random() < 0.5:
        out.setdefault(at + rng.randrange(1, 7), []).append({"a": "release", "fut": fut})
    return out


def make_case(rng, name, rec, kinds_at):
    script = {}
    for fut, (kind, at) in enumerate(kinds_at):
        for k, acts in _interruption(rng, kind, at, fut).items():
            script.setdefault(str(k), []).extend(acts)
    return {"builtin": name, "record_interruptions": rec, "script": script, "interruptions": [[k, a] for k, a in kinds_at]}


def judge(case, base, o):
    """the C03 oracle of props/C03.py on a built-in plan run"""
    from props import C03 as P

    if "crash" in o:
        return [{"sig": "harness-crash", "what": o["crash"], "case": case}]
    o = P.settle(case, o, run_builtin_case)
    rbad, _f4 = P.returns_ok(o)
    diffs = P.compare(base, o)
    if not rbad and not diffs:
        return []
    sc = {"devices": devices(), "script": case["script"]}
    safe, rewinds = P.replay_safe(sc, o)
    where = P.where_landed(sc, o)
    out = []
    for kind, text in rbad + diffs:
        if safe:
            out.append({"sig": f"builtin-{case['builtin']}:{kind}:{where}", "what": f"{case['builtin']}: {text} (interruptions: {where})", "case": case})
        else:
            out.append({"sig": None, "what": text, "case": case})
    return out


def run_builtin(ctx):
    rng = ctx.rng
    thorough = ctx.tier == "thorough" or ctx.deep
    cases, bases = [], {}
    for name in PLANS:
        rec = rng.random() < 0.5
        base = run_builtin_case({"builtin": name, "record_interruptions": rec, "script": {}})
        bases[name] = base
        n = len(base["arrivals"])
        for at in range(n):
            kinds = KINDS if thorough else [KINDS[(at + ctx.seed) % 3], "pause"] if at % 2 else [KINDS[(at + ctx.seed) % 3]]
            for kind in dict.fromkeys(kinds):
                cases.append(make_case(rng, name, rec, [(kind, at)]))
        for _ in range(60 if thorough else 4):
            a = rng.randrange(0, n)
            b = rng.randrange(a, n + 14)
            cases.append(make_case(rng, name, rec, [(rng.choice(KINDS), a), (rng.choice(KINDS), b)]))
    import multiprocessing as mp

    with mp.get_context("fork").Pool(12 if thorough else 6) as pool:
        obs = pool.map(_worker, cases, chunksize=4)
    violations, counts, outside = [], {}, 0
    landed = 0
    seen = []
    for case, o in zip(cases, obs):
        counts["builtin:" + case["builtin"]] = counts.get("builtin:" + case["builtin"], 0) + 1
        for v in judge(case, bases[case["builtin"]], o):
            if v["sig"] is None:
                outside += 1
            else:
                violations.append(v)
        took = "crash" not in o and (len(o["returns"]) > 1 or any(m[0] == "_start_suspender" for m in o["msgs"]))
        landed += took
        seen.append((case, bool(took)))
    counts["builtin:interruption-took-effect"] = landed
    counts["builtin:outside-hypothesis"] = outside
    from props import C03 as P

    summary = {name: {"arrivals": len(b["arrivals"]), "events": sum(len(s) for r in P.data_view(b) for s in r["streams"].values())} for name, b in bases.items()}
    i = len(cases) // 2
    sample = {"case": cases[i], "returns": obs[i].get("returns"), "data": P.data_view(obs[i]) if "crash" not in obs[i] else None, "label": "oracle only: real built-in plan, not in the Lean model"}
    return {"violations": violations, "counts": counts, "runs": len(cases), "seen": seen, "summary": summary, "sample": sample}


def replay_case(case):
    base = run_builtin_case({"builtin": case["builtin"], "record_interruptions": case.get("record_interruptions", False), "script": {}})
    o = run_builtin_case(case)
    return [v for v in judge(case, base, o) if v["sig"] is not None]
