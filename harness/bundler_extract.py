"""Translator for the bundler properties: syntactic, load-bearing facts of bundlers.py /
run_engine.py / event_model -> lean/BlueskyVerif/Bundler/Generated.lean.  Raises `Unrecognised`
when a source shape is not the expected one (never guesses)."""
from __future__ import annotations

import ast
import json

import common as C



class Unrecognised(Exception):
    pass


def _cls_method(tree, cls, name):
    for n in tree.body:
        if isinstance(n, ast.ClassDef) and n.name == cls:
            for m in n.body:
                if isinstance(m, (ast.FunctionDef, ast.AsyncFunctionDef)) and m.name == name:
                    return m
    raise Unrecognised(f"{cls}.{name} not found")


def _src(node):
    return ast.unparse(node)


def _calls_self(node, meth):
    """all `self.<meth>(...)` call nodes inside node"""
    out = []
    for n in ast.walk(node):
        if isinstance(n, ast.Call) and isinstance(n.func, ast.Attribute) and n.func.attr == meth and isinstance(n.func.value, ast.Name) and n.func.value.id == "self":
            out.append(n)
    return out


def _stmt_index(body, pred):
    for i, st in enumerate(body):
        if pred(st):
            return i
    return None


def _contains(st, text):
    return text in _src(st)


def _b(x):
    return "true" if x else "false"


def extract(ctx=None):
    facts = {}
    btree = ast.parse((C.SRC / "bundlers.py").read_text())
    rtree = ast.parse((C.SRC / "run_engine.py").read_text())
    import event_model

    etree = ast.parse(open(event_model.__file__).read())

    # --- the monitor closure commits after compose_event and before emit_sync
    mon = _cls_method(btree, "RunBundler", "monitor")
    clos = [n for n in ast.walk(mon) if isinstance(n, ast.FunctionDef) and n.name == "emit_event"]
    if len(clos) != 1:
        raise Unrecognised("monitor: closure emit_event not found")
    cb = clos[0].body
    i_comp = _stmt_index(cb, lambda st: isinstance(st, ast.Assign) and _contains(st.value, "compose_event("))
    i_emit = _stmt_index(cb, lambda st: _contains(st, "self.emit_sync("))
    if i_comp is None or i_emit is None:
        raise Unrecognised("monitor closure: compose_event / emit_sync statements not found")
    i_commit = _stmt_index(cb, lambda st: isinstance(st, ast.Expr) and _src(st.value) == "self._commit_sequence_counter(name)")
    facts["monitorCommits"] = i_commit is not None and i_comp < i_commit
    composer = _src(cb[i_comp].value.func)
    if composer == "self._descriptors[name].compose_event":
        facts["monitorUsesCurrentDescriptor"] = True
    elif composer == "compose_event":
        facts["monitorUsesCurrentDescriptor"] = False
    else:
        raise Unrecognised(f"monitor closure composes with {composer}")
    # --- record_interruption
    ri = _cls_method(btree, "RunBundler", "record_interruption")
    ifs = [st for st in ri.body if isinstance(st, ast.If)]
    if len(ifs) != 1 or _src(ifs[0].test) != "self._interruptions_desc_uid is not None":
        raise Unrecognised("record_interruption: guard not recognised")
    rb = ifs[0].body
    i_comp = _stmt_index(rb, lambda st: isinstance(st, ast.Assign) and _contains(st.value, "self._interruptions_compose_event("))
    i_emit = _stmt_index(rb, lambda st: _contains(st, "self.emit_sync("))
    if i_comp is None or i_emit is None:
        raise Unrecognised("record_interruption: compose / emit not found")
    i_commit = _stmt_index(rb, lambda st: isinstance(st, ast.Expr) and _src(st.value) in ("self._commit_sequence_counter('interruptions')",))
    facts["interruptionCommits"] = i_commit is not None and i_comp < i_commit
    # --- _commit_sequence_counter
    try:
        cm = _cls_method(btree, "RunBundler", "_commit_sequence_counter")
        body = [st for st in cm.body if not (isinstance(st, ast.Expr) and isinstance(st.value, ast.Constant))]
        ok = (
            len(body) == 1
            and isinstance(body[0], ast.If)
            and _src(body[0].test) == "stream_name in self._sequence_counters"
            and len(body[0].body) == 1
            and _src(body[0].body[0]) == "self._sequence_counters_copy[stream_name] = self._sequence_counters[stream_name]"
            and not body[0].orelse
        )
        if not ok:
            raise Unrecognised("_commit_sequence_counter: body not recognised: " + _src(cm)[:300])
        facts["commitRequiresCounter"] = True
    except Unrecognised as e:
        if "not found" in str(e):
            # no commit function at all (pre-fix tree): nobody can commit
            facts["commitRequiresCounter"] = True
            facts["monitorCommits"] = facts["interruptionCommits"] = False
        else:
            raise
    # --- collect wrapper
    col = _cls_method(btree, "RunBundler", "collect")
    trys = [st for st in col.body if isinstance(st, ast.Try)]
    commits = False
    if trys and trys[0].finalbody:
        fin = trys[0].finalbody
        snap = any(isinstance(st, ast.Assign) and _src(st) == "counters_before = dict(self._sequence_counters)" for st in col.body)
        loop = [st for st in fin if isinstance(st, ast.For) and _src(st.iter) == "self._sequence_counters.items()"]
        if snap and loop:
            inner = loop[0].body
            if len(inner) == 1 and isinstance(inner[0], ast.If) and _src(inner[0].test) == "counters_before.get(stream_name) != counter" and _calls_self(inner[0], "_commit_sequence_counter"):
                commits = True
            else:
                raise Unrecognised("collect: finally loop not recognised")
        if not any(_contains(st, "self._collect(msg)") for st in trys[0].body):
            raise Unrecognised("collect: try body does not call _collect")
        inner_name = "_collect"
    else:
        inner_name = "collect"
    facts["collectCommitsChanged"] = commits
    # --- rewind
    rw = _cls_method(btree, "RunBundler", "rewind")
    rsrc = [_src(st) for st in rw.body]
    facts["rewindRestoresFromCopy"] = rsrc[:2] == ["self._sequence_counters.clear()", "self._sequence_counters.update(self._sequence_counters_copy)"]
    if not facts["rewindRestoresFromCopy"]:
        raise Unrecognised("rewind: does not start with clear()/update(copy): " + "; ".join(rsrc)[:300])
    loops = [st for st in rw.body if isinstance(st, ast.For)]
    facts["rewindReaddsDescriptorStreams"] = bool(
        loops
        and _src(loops[0].iter) == "self._descriptor_objs"
        and len(loops[0].body) == 1
        and isinstance(loops[0].body[0], ast.If)
        and _src(loops[0].body[0].test) == "desc_key not in self._sequence_counters"
        and [_src(x) for x in loops[0].body[0].body] == ["self._sequence_counters[desc_key] = 1", "self._sequence_counters_copy[desc_key] = 1"]
    )
    if loops and not facts["rewindReaddsDescriptorStreams"]:
        raise Unrecognised("rewind: loop not recognised")
    facts["rewindCancelsBundle"] = rsrc[-1] == "self.bundling = False"
    # --- save: empty bundle
    sv = _cls_method(btree, "RunBundler", "save")
    early = [st for st in sv.body if isinstance(st, ast.If) and _src(st.test) == "not self._objs_read"]
    facts["saveEmptyReturnsEarly"] = False
    facts["saveEmptyClearsBundle"] = False
    if early:
        eb = early[0].body
        idx = sv.body.index(early[0])
        before_compose = not any(_contains(st, "_prepare_stream") or _contains(st, "compose_event") for st in sv.body[:idx])
        facts["saveEmptyReturnsEarly"] = isinstance(eb[-1], ast.Return) and eb[-1].value is None and before_compose
        facts["saveEmptyClearsBundle"] = [_src(x) for x in eb[:-1]] == ["self.bundling = False", "self._bundle_name = None"]
        if not all(isinstance(x, (ast.Assign, ast.Return)) for x in eb):
            raise Unrecognised("save: empty-bundle branch does more than assignments")
    first = sv.body[1] if isinstance(sv.body[0], ast.Expr) else sv.body[0]
    if not (isinstance(first, ast.If) and _src(first.test) == "not self.bundling" and isinstance(first.body[0], ast.Raise) and "IllegalMessageSequence" in _src(first.body[0])):
        raise Unrecognised("save: first statement is not the bundling guard")
    # --- reset / clear checkpoint
    rs = _cls_method(btree, "RunBundler", "reset_checkpoint_state")
    loops = [st for st in rs.body if isinstance(st, ast.For)]
    facts["resetCopiesAll"] = bool(loops and _src(loops[0].iter) == "list(self._sequence_counters.items())" and [_src(x) for x in loops[0].body] == ["self._sequence_counters_copy[key] = counter"])
    if not facts["resetCopiesAll"]:
        raise Unrecognised("reset_checkpoint_state not recognised")
    cc = _cls_method(btree, "RunBundler", "clear_checkpoint")
    facts["clearCheckpointClearsCopy"] = [_src(st) for st in cc.body] == ["self._sequence_counters_copy.clear()"]
    if not facts["clearCheckpointClearsCopy"]:
        raise Unrecognised("clear_checkpoint not recognised")
    for nm, key in (("open_run", "openRunResets"), ("close_run", "closeRunResets"), ("unmonitor", "unmonitorResets")):
        m = _cls_method(btree, "RunBundler", nm)
        facts[key] = any(isinstance(st, ast.Expr) and _src(st.value) == "await self.reset_checkpoint_state_coro()" for st in m.body)
    # open_run must reset BEFORE composing the interruptions descriptor (model order)
    orun = _cls_method(btree, "RunBundler", "open_run")
    i_reset = _stmt_index(orun.body, lambda st: _contains(st, "reset_checkpoint_state_coro"))
    i_int = _stmt_index(orun.body, lambda st: isinstance(st, ast.If) and _src(st.test) == "self.record_interruptions")
    if facts["openRunResets"] and (i_int is None or not i_reset < i_int):
        raise Unrecognised("open_run: order of reset / interruptions descriptor changed")
    # --- _collect: aggregator and counter advance
    ci = _cls_method(btree, "RunBundler", inner_name)
    agg = None
    for n in ast.walk(ci):
        if isinstance(n, ast.Assign) and _src(n.targets[0]) == "min_index" and isinstance(n.value, ast.Call) and isinstance(n.value.func, ast.Name) and _contains(n.value, "asyncio.gather"):
            agg = n.value.func.id
    if agg not in ("min", "max"):
        raise Unrecognised(f"_collect: min_index aggregator not recognised ({agg})")
    facts["collectIndexAgg"] = agg
    adv = [n for n in ast.walk(ci) if isinstance(n, ast.AugAssign) and _src(n.target) == "self._sequence_counters[stream_name]"]
    facts["collectAdvancesByDifference"] = bool(adv) and all(isinstance(n.op, ast.Add) and _src(n.value) == "indices_difference" for n in adv)
    if not adv:
        raise Unrecognised("_collect: counter advance not found")
    pk = _cls_method(btree, "RunBundler", "_pack_seq_nums_into_stream_datum")
    facts["datumRangeFromCounter"] = any(
        isinstance(st, ast.Assign) and _src(st) == "doc['seq_nums'] = StreamRange(start=current_seq_counter, stop=current_seq_counter + indices_difference)" for st in pk.body
    ) and any(isinstance(st, ast.Assign) and _src(st) == "current_seq_counter = self._sequence_counters[message_stream_name]" for st in pk.body)
    if not facts["datumRangeFromCounter"]:
        raise Unrecognised("_pack_seq_nums_into_stream_datum: seq_nums assignment not recognised")
    # --- event_model
    ce = _cls_method(etree, "ComposeEvent", "__call__")
    inc = [st for st in ce.body if isinstance(st, ast.Assign) and _src(st.targets[0]) == "self.event_counters[self.descriptor['name']]"]
    if len(inc) != 1 or not (isinstance(inc[0].value, ast.BinOp) and isinstance(inc[0].value.op, ast.Add) and _src(inc[0].value.left) == "seq_num" and isinstance(inc[0].value.right, ast.Constant)):
        raise Unrecognised("event_model.ComposeEvent: counter write not recognised")
    facts["eventIncrement"] = inc[0].value.right.value
    cs = _cls_method(etree, "ComposeStop", "__call__")
    off = None
    for n in ast.walk(cs):
        if isinstance(n, ast.DictComp) and _src(n.generators[0].iter) == "self.event_counters.items()" and isinstance(n.value, ast.BinOp) and isinstance(n.value.op, ast.Sub) and isinstance(n.value.right, ast.Constant):
            off = n.value.right.value
    if off is None:
        raise Unrecognised("event_model.ComposeStop: num_events not recognised")
    facts["stopOffset"] = off
    cd = _cls_method(etree, "ComposeDescriptor", "__call__")
    fs = None
    for n in ast.walk(cd):
        if isinstance(n, ast.If) and _src(n.test) == "name not in self.streams":
            for st in n.body:
                if isinstance(st, ast.Assign) and _src(st.targets[0]) == "self.event_counters[name]" and isinstance(st.value, ast.Constant):
                    fs = st.value.value
    if fs is None:
        raise Unrecognised("event_model.ComposeDescriptor: first seq not recognised")
    facts["firstSeq"] = fs
    # --- engine guards
    def needs_run(meth):
        m = _cls_method(rtree, "RunEngine", meth)
        for n in ast.walk(m):
            if isinstance(n, ast.If) and "is key_absence_sentinel" in _src(n.test) and "is not key_absence_sentinel" not in _src(n.test):
                if any(isinstance(x, ast.Raise) and "IllegalMessageSequence" in _src(x) for x in n.body):
                    return True
        return False

    for meth, key in (("_create", "createNeedsRun"), ("_save", "saveNeedsRun"), ("_drop", "dropNeedsRun"), ("_read", "readNeedsRun"), ("_configure", "configureNeedsRun"), ("_monitor", "monitorNeedsRun"), ("_unmonitor", "unmonitorNeedsRun"), ("_collect", "collectNeedsRun"), ("_kickoff", "kickoffNeedsRun"), ("_declare_stream", "declareStreamNeedsRun"), ("_close_run", "closeRunNeedsRun")):
        facts[key] = needs_run(meth)
    ck = _cls_method(rtree, "RunEngine", "_checkpoint")
    loops = [st for st in ck.body if isinstance(st, ast.For)]
    facts["checkpointRejectsBundling"] = bool(
        loops and _src(loops[0].iter) == "self._run_bundlers.values()" and isinstance(loops[0].body[0], ast.If) and _src(loops[0].body[0].test) == "current_run.bundling" and isinstance(loops[0].body[0].body[0], ast.Raise) and "IllegalMessageSequence" in _src(loops[0].body[0].body[0])
    )
    i_loop = ck.body.index(loops[0]) if loops else -1
    i_reset = _stmt_index(ck.body, lambda st: _contains(st, "_reset_checkpoint_state_coro"))
    if facts["checkpointRejectsBundling"] and not (i_reset is not None and i_loop < i_reset):
        raise Unrecognised("_checkpoint: guard does not precede the reset")
    cf = _cls_method(rtree, "RunEngine", "_configure")
    rej = False
    i_cfg = _stmt_index(cf.body, lambda st: _contains(st, "obj.configure("))
    for i, st in enumerate(cf.body):
        if isinstance(st, ast.If):
            for n in ast.walk(st):
                if isinstance(n, ast.If) and _src(n.test) == "current_run.bundling" and any(isinstance(x, ast.Raise) for x in n.body) and i_cfg is not None and i < i_cfg:
                    rej = True
    facts["configureRejectsBundling"] = rej
    rwd = _cls_method(rtree, "RunEngine", "_rewind")
    facts["rewindOnlyIfCacheNonEmpty"] = any(isinstance(st, ast.If) and _src(st.test) == "len_msg_cache" and _contains(st, "current_run.rewind()") for st in rwd.body)
    if not facts["rewindOnlyIfCacheNonEmpty"] and not any(_contains(st, "current_run.rewind()") for st in rwd.body):
        raise Unrecognised("_rewind does not call rewind()")
    res = _cls_method(rtree, "RunEngine", "resume")
    i_rec = _stmt_index(res.body, lambda st: isinstance(st, ast.For) and _contains(st, "record_interruption('resume')"))
    i_rw = _stmt_index(res.body, lambda st: _contains(st, "self._rewind()"))
    if i_rec is None or i_rw is None:
        raise Unrecognised("resume: record_interruption / _rewind not found")
    facts["resumeRecordsBeforeRewind"] = i_rec < i_rw
    rm = _cls_method(rtree, "RunEngine", "_reset_checkpoint_state_meth")
    facts["resetSkippedWhenCacheNone"] = isinstance(rm.body[0], ast.If) and _src(rm.body[0].test) == "self._msg_cache is None" and isinstance(rm.body[0].body[0], ast.Return)
    if not any(_contains(st, "current_run.reset_checkpoint_state()") for st in rm.body):
        raise Unrecognised("_reset_checkpoint_state_meth does not reset the bundlers")
    unc = None
    for n in ast.walk(rtree):
        if isinstance(n, ast.Assign) and _src(n.targets[0]) == "_UNCACHEABLE_COMMANDS":
            unc = ast.literal_eval(n.value)
    if unc is None:
        raise Unrecognised("_UNCACHEABLE_COMMANDS not found")
    facts["uncacheable"] = unc
    resets = []
    for meth in ("_checkpoint", "_close_run", "_monitor", "_unmonitor", "_create", "_save", "_drop", "_read", "_configure", "_collect", "_kickoff", "_declare_stream", "_open_run", "_null"):
        m = _cls_method(rtree, "RunEngine", meth)
        if any(isinstance(st, ast.Expr) and _src(st.value) == "await self._reset_checkpoint_state_coro()" for st in m.body):
            resets.append(meth[1:])
    facts["engineResets"] = resets

    doc = {
        "monitorCommits": "the monitor closure `emit_event` calls `self._commit_sequence_counter(name)` after `compose_event(...)`",
        "monitorUsesCurrentDescriptor": "the monitor closure composes with `self._descriptors[name].compose_event` (looked up at call time), not with a composer captured when `monitor` ran",
        "interruptionCommits": "`record_interruption` calls `self._commit_sequence_counter(\"interruptions\")` after composing the event",
        "collectCommitsChanged": "`collect` commits, in a `finally`, every stream whose counter differs from its value on entry",
        "commitRequiresCounter": "`_commit_sequence_counter`: `if stream_name in self._sequence_counters: copy[stream_name] = counters[stream_name]`",
        "rewindRestoresFromCopy": "`rewind`: `self._sequence_counters.clear(); self._sequence_counters.update(self._sequence_counters_copy)`",
        "rewindReaddsDescriptorStreams": "`rewind`: every key of `_descriptor_objs` missing from the counters is set to 1 in both dicts",
        "rewindCancelsBundle": "`rewind` ends with `self.bundling = False`",
        "saveEmptyReturnsEarly": "`save`: `if not self._objs_read:` ... `return` before any descriptor / event is composed",
        "saveEmptyClearsBundle": "... and that branch sets `bundling = False`, `_bundle_name = None`",
        "resetCopiesAll": "`reset_checkpoint_state` copies every counter into the copy",
        "clearCheckpointClearsCopy": "`clear_checkpoint` is `self._sequence_counters_copy.clear()`",
    }
    out = [
        "-- GENERATED by harness/bundler_common.py from src/bluesky/bundlers.py, src/bluesky/run_engine.py and event_model/__init__.py -- do not edit.",
        "namespace BlueskyVerif.Bundler.Generated",
        "",
    ]
    for k, d in doc.items():
        out += [f"/-- {d} -/", f"def {k} : Bool := {_b(facts[k])}"]
    for k in ("openRunResets", "closeRunResets", "unmonitorResets"):
        out.append(f"def {k} : Bool := {_b(facts[k])}")
    out += [
        "",
        "inductive Agg where | min | max",
        "deriving DecidableEq, Repr",
        "/-- `_collect`: `min_index = min(await asyncio.gather(*coros))` -/",
        f"def collectIndexAgg : Agg := .{facts['collectIndexAgg']}",
        "/-- `_collect` advances the counter with `self._sequence_counters[stream_name] += indices_difference` -/",
        f"def collectAdvancesByDifference : Bool := {_b(facts['collectAdvancesByDifference'])}",
        "/-- `_pack_seq_nums_into_stream_datum`: `StreamRange(start=current_seq_counter, stop=current_seq_counter + indices_difference)` -/",
        f"def datumRangeFromCounter : Bool := {_b(facts['datumRangeFromCounter'])}",
        "",
        "/-- event_model `ComposeEvent`: `self.event_counters[name] = seq_num + 1` -/",
        f"def eventIncrement : Nat := {facts['eventIncrement']}",
        "/-- event_model `ComposeStop`: `num_events = {k: v - 1 ...}` -/",
        f"def stopOffset : Nat := {facts['stopOffset']}",
        "/-- event_model `ComposeDescriptor`: `self.event_counters[name] = 1` for a new stream -/",
        f"def firstSeq : Nat := {facts['firstSeq']}",
        "",
        "/-! engine guards (run_engine.py) -/",
    ]
    for k in ("checkpointRejectsBundling", "configureRejectsBundling", "createNeedsRun", "saveNeedsRun", "dropNeedsRun", "readNeedsRun", "configureNeedsRun", "monitorNeedsRun", "unmonitorNeedsRun", "collectNeedsRun", "kickoffNeedsRun", "declareStreamNeedsRun", "closeRunNeedsRun"):
        out.append(f"def {k} : Bool := {_b(facts[k])}")
    out += [
        "/-- `_rewind` calls `rewind()` on the bundlers only `if len_msg_cache:` -/",
        f"def rewindOnlyIfCacheNonEmpty : Bool := {_b(facts['rewindOnlyIfCacheNonEmpty'])}",
        "/-- `resume` records the 'resume' interruption before `_rewind()` -/",
        f"def resumeRecordsBeforeRewind : Bool := {_b(facts['resumeRecordsBeforeRewind'])}",
        "/-- `_reset_checkpoint_state_meth` returns early when `_msg_cache is None` -/",
        f"def resetSkippedWhenCacheNone : Bool := {_b(facts['resetSkippedWhenCacheNone'])}",
        "def uncacheable : List String := [" + ", ".join(json.dumps(x) for x in facts["uncacheable"]) + "]",
        "/-- commands whose engine handler calls `_reset_checkpoint_state_coro` unconditionally -/",
        "def engineResets : List String := [" + ", ".join(json.dumps(x) for x in facts["engineResets"]) + "]",
        "",
        "end BlueskyVerif.Bundler.Generated",
        "",
    ]
    C.write_if_changed(C.LEAN / "BlueskyVerif" / "Bundler" / "Generated.lean", "\n".join(out))
    return facts


