"""Minimal in-memory OpenTelemetry tracer for the harness (only opentelemetry-api is installed, no SDK).

`RecordingProvider` / `RecordingTracer` / `RecordedSpan` subclass the API's abstract
`TracerProvider` / `Tracer` / `Span`.  Every span gets a serial number (order of `start_span`) and
records, in one global ordered event log shared with the harness (`LOG`), each `start`,
`set_attribute` and `end` call.  `end()` snapshots the attributes the span carries at that moment, so
"ended twice" and "status at end" are both observable.

bluesky obtains its tracer at import time with `trace.get_tracer(__name__)`, which is a `ProxyTracer`
resolving the global provider lazily on every use until one is set; `install()` sets the global
provider (allowed once per process) and `verify_installed()` checks that `bluesky.run_engine.tracer`
really reaches a `RecordingTracer` -- if not (somebody else set a provider first), it replaces
`bluesky.run_engine.tracer` in this harness process only (the source tree is never touched).
"""
from __future__ import annotations

import threading
from typing import Any, Iterator, Optional

from opentelemetry import trace
from opentelemetry.trace import Span, SpanContext, Tracer, TracerProvider, TraceFlags
from opentelemetry.util._decorator import _agnosticcontextmanager

_lock = threading.Lock()


class Recorder:
    """The global ordered event log + the list of spans started since the last `reset()`."""

    def __init__(self):
        self.reset()

    def reset(self):
        with _lock:
            self.spans: list["RecordedSpan"] = []
            self.log: list[tuple] = []

    def note(self, *event):
        """Harness-side events (messages seen by msg_hook, documents, requests) go to the same log,
        so that their order relative to span events is known."""
        with _lock:
            self.log.append(tuple(event))


REC = Recorder()


class RecordedSpan(Span):
    def __init__(self, name: str, serial: int, attributes=None):
        self.name = name
        self.serial = serial
        self.attributes: dict[str, Any] = dict(attributes or {})
        self.ends: list[dict[str, Any]] = []  # one attribute snapshot per end() call
        self.sets_after_end = 0
        self._ctx = SpanContext(trace_id=0x1 + serial, span_id=0x1 + serial, is_remote=False, trace_flags=TraceFlags(TraceFlags.SAMPLED))

    # --- recorded calls
    def set_attribute(self, key: str, value) -> None:
        if self.ends:
            self.sets_after_end += 1
        self.attributes[key] = value
        REC.note("span.set_attribute", self.serial, self.name, key, value if isinstance(value, (str, int, float, bool, type(None))) else repr(value))

    def set_attributes(self, attributes) -> None:
        for k, v in attributes.items():
            self.set_attribute(k, v)

    def end(self, end_time: Optional[int] = None) -> None:
        self.ends.append(dict(self.attributes))
        REC.note("span.end", self.serial, self.name)

    # --- the rest of the abstract interface
    def get_span_context(self) -> SpanContext:
        return self._ctx

    def add_event(self, name, attributes=None, timestamp=None) -> None:
        pass

    def add_link(self, context, attributes=None) -> None:
        pass

    def update_name(self, name: str) -> None:
        self.name = name

    def is_recording(self) -> bool:
        return not self.ends

    def set_status(self, status, description=None) -> None:
        pass

    def record_exception(self, exception, attributes=None, timestamp=None, escaped=False) -> None:
        pass


class RecordingTracer(Tracer):
    def start_span(self, name, context=None, kind=trace.SpanKind.INTERNAL, attributes=None, links=None, start_time=None, record_exception=True, set_status_on_exception=True) -> Span:
        with _lock:
            span = RecordedSpan(name, len(REC.spans), attributes)
            REC.spans.append(span)
            REC.log.append(("span.start", span.serial, name))
        return span

    @_agnosticcontextmanager
    def start_as_current_span(self, name, context=None, kind=trace.SpanKind.INTERNAL, attributes=None, links=None, start_time=None, record_exception=True, set_status_on_exception=True, end_on_exit=True) -> Iterator[Span]:
        span = self.start_span(name, context=context, kind=kind, attributes=attributes)
        with trace.use_span(span, end_on_exit=end_on_exit, record_exception=record_exception, set_status_on_exception=set_status_on_exception) as s:
            yield s


class RecordingProvider(TracerProvider):
    def __init__(self):
        self.tracer = RecordingTracer()

    def get_tracer(self, instrumenting_module_name, instrumenting_library_version=None, schema_url=None, attributes=None) -> Tracer:
        return self.tracer


PROVIDER = RecordingProvider()
_how = None


def install() -> None:
    """Set the global tracer provider (idempotent; must run before spans are wanted)."""
    global _how
    if _how is not None:
        return
    import logging

    lg = logging.getLogger("opentelemetry.trace")
    old = lg.level
    lg.setLevel(logging.ERROR)  # "Overriding of current TracerProvider is not allowed" if somebody was first
    try:
        trace.set_tracer_provider(PROVIDER)
    finally:
        lg.setLevel(old)
    _how = "global-provider"


def verify_installed() -> str:
    """Make sure bluesky.run_engine's module-level `tracer` records into REC; returns how."""
    global _how
    install()
    import bluesky.run_engine as re_mod

    probe = re_mod.tracer.start_span("__probe__")
    ok = isinstance(probe, RecordedSpan)
    if ok:
        with _lock:
            REC.spans.remove(probe)
            REC.log[:] = [e for e in REC.log if not (e[0] == "span.start" and e[2] == "__probe__")]
    else:
        # the proxy resolved to somebody else's provider: patch the module attribute in THIS process
        re_mod.tracer = PROVIDER.tracer
        import bluesky.tracing as tr_mod

        tr_mod.tracer = PROVIDER.tracer
        _how = "monkeypatched bluesky.run_engine.tracer"
    return _how or "?"
