"""./check Cxx --tier quick|thorough [--replay path]      (run with /venv/bin/python)"""
from __future__ import annotations

import argparse
import importlib
import json
import os
import random
import sys
import time
import traceback
from pathlib import Path

sys.path.insert(0, str(Path(__file__).resolve().parent))


def _private_scratch() -> None:
    """ophyd.sim and some probes create temporary directories they never remove: give this run (and the
    worker processes it forks) a scratch directory of its own and remove it at exit.  Replays and evidence
    are written under /verif, never here."""
    import atexit
    import shutil
    import tempfile

    d = tempfile.mkdtemp(prefix="verif_check_")
    os.environ["TMPDIR"] = d
    tempfile.tempdir = d
    pid = os.getpid()
    atexit.register(lambda: os.getpid() == pid and shutil.rmtree(d, ignore_errors=True))


_private_scratch()
import common as C  # noqa: E402


def main() -> int:
    ap = argparse.ArgumentParser()
    ap.add_argument("prop")
    ap.add_argument("--tier", default=os.environ.get("VERIF_TIER", "quick"), choices=["quick", "thorough"])
    ap.add_argument("--replay", default=None)
    ap.add_argument("--no-build", action="store_true", help="debug: skip lake build/audit")
    a = ap.parse_args()
    seed = int(os.environ.get("VERIF_SEED", "0"))
    t0 = time.time()
    prop = a.prop
    mod = importlib.import_module(f"props.{prop}")
    C.assert_repo_import()
    ctx = C.Ctx(prop=prop, tier=a.tier, seed=seed, rng=random.Random(f"{prop}:{seed}"))

    if a.replay:
        case = json.loads(Path(a.replay).read_text())
        res = mod.replay(ctx, case)
        for v in res.violations:
            print(f"VIOLATION property={prop} replay={a.replay}")
            print(f"  {v.what}")
        if not res.violations:
            print(f"replay: property {prop} holds on this input (or the replay names a proof obligation only)")
        return 1 if res.violations else 0

    broken: list[str] = []  # proof obligations / correspondence that no longer check
    facts = {}
    # 1. translator (runs under the build lock, see common.lake_build)
    def do_extract():
        nonlocal facts
        if hasattr(mod, "extract"):
            try:
                facts = mod.extract(ctx) or {}
            except Exception as e:  # source shape no longer recognised -> obligation not checked
                broken.append(f"extract: {type(e).__name__}: {e}")
                facts = {"extract_error": traceback.format_exc()[-1500:]}

    # 2. build + 3. audit
    modules = list(mod.LEAN_MODULES)
    build = audit = None
    checker_cmds = []
    if a.no_build:
        do_extract()
    else:
        extra = list(getattr(mod, "DRIVER_MODULES", []))
        build = C.lake_build(modules + extra, extract=do_extract)
        checker_cmds.append(build.cmd)
        if not build.ok:
            broken.append("lake build failed: " + _first_error(build.log))
        else:
            audit = C.audit(prop, modules)
            checker_cmds.append(audit["cmd"])
            if not audit["ok"]:
                bad = [t for t, v in audit["theorems"].items() if not v["ok"]]
                broken.append(f"audit failed: theorems={bad} forbidden={audit['forbidden'][:3]} {audit['log'][-300:]}")
            if a.tier == "thorough" and os.environ.get("VERIF_LEANCHECKER", "1") == "1":
                lc = C.leanchecker(modules)
                checker_cmds.append(lc.cmd)
                if not lc.ok:
                    broken.append("leanchecker failed: " + lc.log[-500:])
    # 4. correspondence + oracle
    res = C.Result()
    try:
        res = mod.run(ctx)
    except C.DriverError as e:
        broken.append(f"model driver: {e}"[:1500])
        try:
            ctx.deep = True
            if hasattr(mod, "run_impl_only"):
                res = mod.run_impl_only(ctx)
        except Exception:
            traceback.print_exc()
    except Exception as e:  # noqa: BLE001
        # the harness itself could not complete on this tree (an implementation that behaves in a way the harness has no
        # answer for -- e.g. an unexpected exception out of the code under test).  That is a correspondence that no
        # longer checks, not a pass: it is reported, after one more attempt without the model.
        tb = traceback.format_exc()
        broken.append(f"harness could not complete on this tree: {type(e).__name__}: {e}\n{tb[-1500:]}"[:2500])
        try:
            ctx.deep = True
            if hasattr(mod, "run_impl_only"):
                res = mod.run_impl_only(ctx)
        except Exception:
            traceback.print_exc()
    for d in res.disagreements[:1]:
        broken.append("correspondence: model and implementation differ on " + json.dumps(C.jsonable(d))[:1200])
    known = C.load_findings(prop)
    open_sigs = {f["signature"]: f for f in known if f.get("status") == "open"}
    unknown = [v for v in res.violations if v.sig not in open_sigs]
    # deepened search when something broke but no failing input is known yet
    if broken and not unknown and not ctx.deep:
        ctx.deep = True
        try:
            deep = mod.run_impl_only(ctx) if hasattr(mod, "run_impl_only") else mod.run(ctx)
            res.merge(deep)
        except Exception:
            traceback.print_exc()
        unknown = [v for v in res.violations if v.sig not in open_sigs]

    # 5. report
    rc = 0
    printed = set()
    for v in res.violations:
        if v.sig in open_sigs and v.sig not in printed:
            printed.add(v.sig)
            print(f"KNOWN-FINDING: property={prop} {open_sigs[v.sig]['what_fails']} [{v.sig}]")
    seen = set()
    for v in unknown:
        if v.sig in seen:
            continue
        seen.add(v.sig)
        path = C.write_replay(prop, _slug(v.sig), {"property": prop, "seed": seed, "signature": v.sig, "what": v.what, "case": C.jsonable(v.case)})
        print(f"VIOLATION property={prop} replay={path}")
        print(f"  {v.what}")
        rc = 1
    if broken and unknown:
        # a failing input exists: the VIOLATION lines above carry the replays; still say what no longer checks
        for b in broken:
            print("  note: no longer checks: " + b[:400])
    if broken and not unknown:
        path = C.write_replay(prop, "unchecked", {"property": prop, "seed": seed, "no_longer_checks": broken, "build_log": build.log[-4000:] if build and not build.ok else "", "facts": C.jsonable(facts),
                                                  "disagreements": C.jsonable(res.disagreements[:5]), "n_disagreements": len(res.disagreements)})
        print(f"VIOLATION property={prop} replay={path} no-failing-input-found")
        for b in broken:
            print("  " + b[:600])
        rc = 1

    thms = audit["theorems"] if audit else {}
    obligations = len(thms) if thms else len([t for m in modules for t in _safe_thms(m)])
    discharged = sum(1 for v in thms.values() if v["ok"]) if (build and build.ok) else 0
    coverage = {
        "obligations": max(obligations, 1),
        "discharged": discharged if not a.no_build else 0,
        "checker_cmd": " && ".join(checker_cmds) or "(skipped: --no-build)",
        "trusted_base": C.TRUSTED_BASE + list(getattr(mod, "TRUSTED", [])),
        "theorems": {t: v["axioms"] for t, v in thms.items()},
        "evaluations": res.evaluations,
        "distinct_nontrivial": len(res.nontrivial),
        "rule": res.rule,
        "samples": C.jsonable(res.samples[:4]) or ["(no correspondence cases ran)"],
        "traces_validated_against_impl": res.evaluations,
        "disagreements": len(res.disagreements),
        "distribution": res.distribution,
        "extracted_facts": C.jsonable({**facts, **res.facts}),
        "exhaustive": res.exhaustive,
        "broken_obligations": broken,
        "known_findings_reproduced": sorted(printed),
        "notes": res.notes,
    }
    C.write_evidence(prop, a.tier, seed, coverage, list(getattr(mod, "ASSUMPTIONS", [])) + res.assumptions, time.time() - t0, len(unknown))
    print(
        f"{prop} [{a.tier}] theorems {discharged}/{obligations}  cases {res.evaluations} "
        f"(nontrivial {len(res.nontrivial)})  disagreements {len(res.disagreements)}  "
        f"violations {len(unknown)}  known {len(printed)}  {time.time() - t0:.1f}s"
    )
    return rc


def _safe_thms(m):
    try:
        return C.theorem_names(m)
    except Exception:
        return []


def _first_error(log: str) -> str:
    for line in log.splitlines():
        if "error" in line:
            return line.strip()[:400]
    return log[-400:]


def _slug(s: str) -> str:
    import re

    import hashlib

    base = re.sub(r"[^A-Za-z0-9]+", "_", s).strip("_") or "case"
    if len(base) <= 60:
        return base
    return base[:50] + "_" + hashlib.sha1(s.encode()).hexdigest()[:8]


if __name__ == "__main__":
    try:
        sys.exit(main())
    except SystemExit:
        raise
    except BaseException:
        traceback.print_exc()
        sys.exit(2)
