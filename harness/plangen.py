"""plangen -- plan-AST grammar shared by the generator properties (C20-C24).

One AST (nested lists, JSON-able) has two readings that the correspondence runs compare:
  * `make_genfunc(ast)` compiles it to Python SOURCE and exec's it into a real generator function
    whose generators yield real `bluesky.utils.Msg` objects;
  * the Lean drivers interpret the same JSON with `BlueskyVerif.Gen.interp` (Gen/Ast.lean).

Grammar (see Gen/Driver.lean for the encoding):
  ["pass"] ["yield",k,bind] ["yieldShared",k,bind] ["yieldFrom",sub,bind] ["seq",a,b]
  ["ifEq",k,thn,els] ["try",body,catch,handler,els,fin] ["raise",cls,tag] ["reraise"]
  ["ret",["none"]|["const",k]|["var"]] ["loop",n,body]
`yield k` is `Msg('null', k)` (a NEW object every time it is evaluated); `yieldShared k` yields one
pre-allocated Msg object per k (same identity each time).  Every generator function has the single
variable `r`.  A script is a list of ["send", None|int] / ["throw", cls, tag] / ["close"].
The canonical trace: ["yld", payload] / ["ret", None|int] / ["raise", cls, tag] / ["closed"].
"""
from __future__ import annotations

import itertools
import sys

from bluesky.utils import Msg, PlanHalt, RequestAbort, RequestStop


class E1(Exception):
    pass


class E2(Exception):
    pass


class BaseExc(BaseException):
    """a BaseException that is neither an Exception nor a GeneratorExit (like KeyboardInterrupt)"""


EXC = {
    "E1": E1,
    "E2": E2,
    "RequestStop": RequestStop,
    "RequestAbort": RequestAbort,
    "GeneratorExit": GeneratorExit,
    "PlanHalt": PlanHalt,
    "RuntimeError": RuntimeError,
    "TypeError": TypeError,
    "BaseExc": BaseExc,
}
CATCH = {
    "Exception": "Exception",
    "BaseException": "BaseException",
    "GeneratorExit": "GeneratorExit",
    "E1": "E1",
    "RunEngineControlException": "RunEngineControlException",
}
EXCEPTION_CLASSES = {"E1", "E2", "RequestStop", "RequestAbort", "RuntimeError", "TypeError"}
GENEXIT_CLASSES = {"GeneratorExit", "PlanHalt"}
CONTROL_CLASSES = {"RequestStop", "RequestAbort"}
TAG_CLOSE_IGNORED, TAG_SEND_FRESH, TAG_NO_ACTIVE = 9001, 9002, 9003
_MESSAGES = {
    "generator ignored GeneratorExit": TAG_CLOSE_IGNORED,
    "can't send non-None value to a just-started generator": TAG_SEND_FRESH,
    "No active exception to reraise": TAG_NO_ACTIVE,
}

PASS = ["pass"]


# ----------------------------------------------------------------------------- compile to Python


class _Emitter:
    def __init__(self):
        self.n = 0

    def expr(self, e):
        if e[0] == "none":
            return "None"
        if e[0] == "const":
            return repr(int(e[1]))
        if e[0] == "var":
            return "r"
        raise ValueError(e)

    def stmt(self, s, ind):
        pad = "    " * ind
        k = s[0]
        if k == "pass":
            return [pad + "pass"]
        if k == "yield":
            return [pad + ("r = " if s[2] else "") + f"yield Msg('null', {int(s[1])})"]
        if k == "yieldShared":
            return [pad + ("r = " if s[2] else "") + f"yield SHARED({int(s[1])})"]
        if k == "yieldFrom":
            self.n += 1
            name = f"_sub{self.n}"
            out = self.func(name, s[1], ind)
            out.append(pad + ("r = " if s[2] else "") + f"yield from {name}()")
            return out
        if k == "seq":
            return self.stmt(s[1], ind) + self.stmt(s[2], ind)
        if k == "ifEq":
            return [pad + f"if r == {int(s[1])}:"] + self.stmt(s[2], ind + 1) + [pad + "else:"] + self.stmt(s[3], ind + 1)
        if k == "try":
            _, body, catch, handler, els, fin = s
            out = [pad + "try:"] + self.stmt(body, ind + 1)
            if catch != "never":
                out += [pad + f"except {CATCH[catch]}:"] + self.stmt(handler, ind + 1)
                if els != PASS:
                    out += [pad + "else:"] + self.stmt(els, ind + 1)
            if fin != PASS or catch == "never":
                out += [pad + "finally:"] + self.stmt(fin, ind + 1)
            return out
        if k == "raise":
            return [pad + f"raise {s[1]}({int(s[2])})"]
        if k == "reraise":
            return [pad + "raise"]
        if k == "ret":
            return [pad + "return " + self.expr(s[1])]
        if k == "loop":
            return [pad + f"for _ in range({int(s[1])}):"] + self.stmt(s[2], ind + 1)
        raise ValueError(f"bad stmt {s!r}")

    def func(self, name, body, ind):
        pad = "    " * ind
        # the dead `yield` makes every function a generator function, whatever its body
        return [pad + f"def {name}():", pad + "    if False:", pad + "        yield None", pad + "    r = None"] + self.stmt(body, ind + 1)


def source(ast, name="plan"):
    return "\n".join(_Emitter().func(name, ast, 0)) + "\n"


class Shared:
    """per-case pool of pre-allocated Msg objects for `yieldShared`"""

    def __init__(self):
        self.pool = {}

    def __call__(self, k):
        if k not in self.pool:
            self.pool[k] = Msg("null", k)
        return self.pool[k]


def make_genfunc(ast, shared=None, name="plan"):
    """exec the compiled source; returns the generator FUNCTION (call it to get a fresh generator)"""
    from bluesky.utils import RunEngineControlException

    ns = {"Msg": Msg, "SHARED": shared or Shared(), "RunEngineControlException": RunEngineControlException}
    ns.update(EXC)
    exec(compile(source(ast, name), f"<plangen:{name}>", "exec"), ns)
    return ns[name]


# ----------------------------------------------------------------------------- drive a generator


def make_exc(cls, tag):
    if cls == "GeneratorExit" and tag == 0:
        return GeneratorExit()
    return EXC[cls](int(tag))


def canon_exc(e):
    name = None
    for n, c in EXC.items():
        if type(e) is c:
            name = n
    if name is None:
        return ["raise", "?" + type(e).__name__, 9999, str(e)[:80]]
    if e.args and isinstance(e.args[0], int) and not isinstance(e.args[0], bool):
        return ["raise", name, e.args[0]]
    if not e.args:
        return ["raise", name, 0]
    msg = str(e.args[0])
    if msg in _MESSAGES:
        return ["raise", name, _MESSAGES[msg]]
    return ["raise", name, 9999, msg[:80]]


def canon_msg(m):
    if not isinstance(m, Msg):
        return ["yld", "?not-a-Msg:" + repr(m)[:40]]
    if m.command == "pause":
        return ["yld", 777]
    return ["yld", m.obj]


def drive(gen, script):
    """drive a real generator object with `script`, return the canonical trace"""
    trace = []
    for cmd in script:
        try:
            if cmd[0] == "send":
                m = gen.send(cmd[1])
            elif cmd[0] == "throw":
                m = gen.throw(make_exc(cmd[1], cmd[2]))
            elif cmd[0] == "close":
                gen.close()
                trace.append(["closed"])
                continue
            else:
                raise ValueError(cmd)
            trace.append(canon_msg(m))
        except StopIteration as e:
            trace.append(["ret", e.value])
        except BaseException as e:  # noqa: BLE001
            trace.append(canon_exc(e))
    return trace


def quiet_unraisable():
    """generators abandoned while suspended in a `finally` that yields make CPython print
    'Exception ignored in ...' at collection time; that is expected here"""
    sys.unraisablehook = lambda *a, **k: None


# ----------------------------------------------------------------------------- AST helpers


def seq(*ss):
    ss = [s for s in ss if s != PASS]
    if not ss:
        return PASS
    out = ss[-1]
    for s in reversed(ss[:-1]):
        out = ["seq", s, out]
    return out


def size(s):
    k = s[0]
    if k == "pass":
        return 0
    if k in ("yield", "yieldShared", "raise", "reraise", "ret"):
        return 1
    if k == "yieldFrom":
        return 1 + size(s[1])
    if k == "seq":
        return size(s[1]) + size(s[2])
    if k == "ifEq":
        return 1 + size(s[2]) + size(s[3])
    if k == "try":
        return 1 + size(s[1]) + size(s[3]) + size(s[4]) + size(s[5])
    if k == "loop":
        return 1 + size(s[2])
    raise ValueError(s)


def renumber(s, start=1):
    """give every `yield` a distinct payload in pre-order (yieldShared keeps its k)"""
    counter = [start]

    def go(s):
        k = s[0]
        if k == "yield":
            c = counter[0]
            counter[0] += 1
            return ["yield", c, s[2]]
        if k == "yieldFrom":
            return ["yieldFrom", go(s[1]), s[2]]
        if k == "seq":
            a = go(s[1])
            return ["seq", a, go(s[2])]
        if k == "ifEq":
            a = go(s[2])
            return ["ifEq", s[1], a, go(s[3])]
        if k == "try":
            b = go(s[1])
            h = go(s[3])
            e = go(s[4])
            f = go(s[5])
            return ["try", b, s[2], h, e, f]
        if k == "loop":
            return ["loop", s[1], go(s[2])]
        return s

    return go(s)


def features(s, acc=None):
    """which constructs occur (for the input distribution / nontriviality)"""
    acc = set() if acc is None else acc
    k = s[0]
    if k == "try":
        acc.add("try")
        if s[2] != "never":
            acc.add("except:" + s[2])
            if _has_yield(s[3]):
                acc.add("yield-in-handler")
            if s[4] != PASS:
                acc.add("else")
        if s[5] != PASS:
            acc.add("finally")
            if _has_yield(s[5]):
                acc.add("yield-in-finally")
        for x in (s[1], s[3], s[4], s[5]):
            features(x, acc)
    elif k == "yieldFrom":
        acc.add("yield-from")
        features(s[1], acc)
    elif k == "seq":
        features(s[1], acc)
        features(s[2], acc)
    elif k == "ifEq":
        acc.add("branch")
        features(s[2], acc)
        features(s[3], acc)
    elif k == "loop":
        acc.add("loop")
        features(s[2], acc)
    elif k in ("raise", "reraise", "ret", "yieldShared"):
        acc.add(k)
    return acc


def _has_yield(s):
    k = s[0]
    if k in ("yield", "yieldShared", "yieldFrom"):
        return True
    if k == "seq":
        return _has_yield(s[1]) or _has_yield(s[2])
    if k == "ifEq":
        return _has_yield(s[2]) or _has_yield(s[3])
    if k == "try":
        return any(_has_yield(x) for x in (s[1], s[3], s[4], s[5]))
    if k == "loop":
        return _has_yield(s[2])
    return False


# ----------------------------------------------------------------------------- exhaustive enumeration

_ENUM_CACHE: dict = {}
ENUM_CATCHES = ["Exception", "GeneratorExit", "BaseException"]


def enum_stmts(n, in_handler=False):
    """all statements with exactly n nodes (seq is free and right-nested; payloads unnumbered).
    Atoms: `r = yield`, `raise E1(1)`, `return r`, bare `raise` (only lexically inside a handler)."""
    key = (n, in_handler)
    if key in _ENUM_CACHE:
        return _ENUM_CACHE[key]
    out = []
    if n == 0:
        out = [PASS]
    else:
        # single (non-seq) statements of size n, then seq(head, tail) with head non-seq
        for h in range(1, n + 1):
            heads = _enum_single(h, in_handler)
            if h == n:
                out += heads
            else:
                tails = enum_stmts(n - h, in_handler)
                for a in heads:
                    if a[0] in ("raise", "reraise", "ret"):
                        continue  # dead code after an unconditional jump
                    for b in tails:
                        out.append(["seq", a, b])
    _ENUM_CACHE[key] = out
    return out


def _enum_single(n, in_handler):
    if n == 1:
        atoms = [["yield", 0, True], ["raise", "E1", 1], ["ret", ["var"]]]
        if in_handler:
            atoms.append(["reraise"])
        return atoms
    out = []
    m = n - 1
    # yield from sub()
    for sub in enum_stmts(m, False):
        out.append(["yieldFrom", sub, True])
    # if r == 7: a else: b
    for i in range(1, m + 1):
        for a in enum_stmts(i, in_handler):
            for b in enum_stmts(m - i, in_handler):
                out.append(["ifEq", 7, a, b])
    # try/finally and try/except[/else][/finally]
    for i in range(1, m + 1):
        for body in enum_stmts(i, in_handler):
            rest = m - i
            if rest >= 1:
                for fin in enum_stmts(rest, in_handler):
                    out.append(["try", body, "never", PASS, PASS, fin])
            for hsz in range(0, rest + 1):
                for esz in range(0, rest - hsz + 1):
                    fsz = rest - hsz - esz
                    for c in ENUM_CATCHES:
                        for h in enum_stmts(hsz, True):
                            for e in enum_stmts(esz, in_handler):
                                for f in enum_stmts(fsz, in_handler):
                                    out.append(["try", body, c, h, e, f])
    return out


def enum_plans(max_size):
    """every plan with 1..max_size nodes, payloads numbered"""
    for n in range(1, max_size + 1):
        for s in enum_stmts(n):
            yield renumber(s)


START_CMDS = [["send", None], ["send", 7], ["throw", "E1", 5], ["close"]]
STEP_CMDS = [["send", 7], ["throw", "E1", 5], ["throw", "GeneratorExit", 0], ["close"]]


def enum_scripts(length, step_cmds=None):
    """all scripts of exactly `length` commands: they start with `next` (or one of the three other
    things one can do to a fresh generator) and continue over the step alphabet.  Shorter scripts
    are their prefixes (a trace is prefix-closed)."""
    step_cmds = step_cmds or STEP_CMDS
    for first in START_CMDS:
        if first == ["send", None]:
            for rest in itertools.product(step_cmds, repeat=length - 1):
                yield [first] + [list(c) for c in rest]
        else:
            # a fresh generator that was not started with next: one follow-up command is enough
            for rest in itertools.product(step_cmds, repeat=min(length - 1, 1)):
                yield [first] + [list(c) for c in rest]


# ----------------------------------------------------------------------------- random generation

THROWABLE = ["E1", "E2", "RequestStop", "RequestAbort", "GeneratorExit", "PlanHalt", "BaseExc"]
RAISABLE = ["E1", "E2", "RequestStop", "RequestAbort", "GeneratorExit", "PlanHalt", "RuntimeError", "BaseExc"]
ALL_CATCHES = ["Exception", "BaseException", "GeneratorExit", "E1", "RunEngineControlException"]


def rand_stmt(rng, budget, in_handler=False, depth=0):
    """a random statement with about `budget` nodes"""
    if budget <= 1 or depth > 5:
        x = rng.random()
        if x < 0.55:
            return ["yield", 0, rng.random() < 0.7]
        if x < 0.62:
            return ["yieldShared", rng.randrange(2), rng.random() < 0.5]
        if x < 0.77:
            return ["raise", rng.choice(RAISABLE), rng.randrange(1, 4)]
        if x < 0.87:
            return ["ret", rng.choice([["none"], ["const", rng.randrange(1, 9)], ["var"]])]
        if x < 0.93 and in_handler:
            return ["reraise"]
        return PASS
    x = rng.random()
    if x < 0.35:
        a = rng.randrange(1, budget)
        left = rand_stmt(rng, a, in_handler, depth + 1)
        if left[0] in ("raise", "reraise", "ret"):
            left = ["yield", 0, True]
        return seq(left, rand_stmt(rng, budget - a, in_handler, depth + 1))
    if x < 0.65:
        parts = _split(rng, budget - 1, 4)
        catch = rng.choice(["never"] + ALL_CATCHES * 2)
        body = rand_stmt(rng, max(parts[0], 1), in_handler, depth + 1)
        if catch == "never":
            return ["try", body, "never", PASS, PASS, rand_stmt(rng, max(parts[3] + parts[1], 1), in_handler, depth + 1)]
        return [
            "try",
            body,
            catch,
            rand_stmt(rng, parts[1], True, depth + 1) if parts[1] else PASS,
            rand_stmt(rng, parts[2], in_handler, depth + 1) if parts[2] else PASS,
            rand_stmt(rng, parts[3], in_handler, depth + 1) if parts[3] else PASS,
        ]
    if x < 0.8:
        return ["yieldFrom", rand_stmt(rng, budget - 1, False, depth + 1), rng.random() < 0.7]
    if x < 0.92:
        a = rng.randrange(0, budget)
        return [
            "ifEq",
            rng.choice([7, 7, 8]),
            rand_stmt(rng, a, in_handler, depth + 1) if a else PASS,
            rand_stmt(rng, budget - 1 - a, in_handler, depth + 1) if budget - 1 - a else PASS,
        ]
    return ["loop", rng.randrange(0, 4), rand_stmt(rng, budget - 1, in_handler, depth + 1)]


def _split(rng, total, k):
    cuts = sorted(rng.randrange(0, total + 1) for _ in range(k - 1))
    parts = [b - a for a, b in zip([0] + cuts, cuts + [total])]
    return parts


def rand_plan(rng, budget):
    return renumber(rand_stmt(rng, budget))


def rand_script(rng, length, p_misuse=0.1):
    """mostly valid driving (next first, sends of 7/8/None, some throws, sometimes a close)"""
    out = []
    if rng.random() < p_misuse:
        out.append(rng.choice([["send", 7], ["throw", "E1", 5], ["close"], ["throw", "GeneratorExit", 0]]))
    else:
        out.append(["send", None])
    while len(out) < length:
        x = rng.random()
        if x < 0.55:
            out.append(["send", rng.choice([None, 7, 7, 8])])
        elif x < 0.9:
            c = rng.choice(THROWABLE)
            out.append(["throw", c, 0 if c == "GeneratorExit" else rng.randrange(1, 9)])
        else:
            out.append(["close"])
    return out
